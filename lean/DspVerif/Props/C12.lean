import DspVerif.Model.Adaptive
import DspVerif.Lib.RealFn
import Mathlib.Algebra.BigOperators.Intervals
import Mathlib.Algebra.Order.BigOperators.Group.List
import Mathlib.Tactic.Ring
import Mathlib.Tactic.FieldSimp
import Mathlib.Tactic.Linarith
import Mathlib.Tactic.Positivity
/-!
# C12 — adaptive filters report a-priori errors, honour the lock, and converge

Theorems about the executable models of `Model/Adaptive.lean` (`LmsFilter<T>`: LMS / NLMS, `RlsFilter<T>`), which the
correspondence run ties to `include/dsplib/lms.h` / `include/dsplib/rls.h` (bit-exact agreement on every emitted case).

* T12.1 (every scalar type): the buffer-indexed `LmsFilter::process` refines the clean per-sample recursion
  `(w, r) ↦ (y = w·r, e = d − y, w')`; `e = d − y` exactly; `y` uses the coefficients held before the update;
  framing independence.  `RlsFilter::process`: a-priori output and error, flat `_p[i*n+k]` update = matrix recursion.
* T12.2 (every scalar type + FIR form over ℝ and ℂ): locked ⇒ coefficients (and `P`) never change and
  `y[k] = Σ_j coeffs()[j] · x(k−j)`.
* T12.3 (ℝ): NLMS, leakage 1, noise-free: per-step misalignment identity and monotone decrease for `0 < μ < 2`,
  along every call of `process`.
Floating-point rounding is not modelled; the numeric clauses (misalignment < 1e-6, agreement with the batch weighted
least-squares solution) are measured by the oracle of `harness/c12.cpp`.
-/
set_option linter.unusedSectionVars false
set_option linter.unusedSimpArgs false

namespace Dsp.C12
open Dsp.Adaptive Dsp.Adaptive.Mixed

section generic
variable {β : Type} [Add β]

def sumL (z : β) (l : List β) : β := l.foldl (· + ·) z

theorem acc_eq_sumL (z : β) (n : Nat) (f : Nat → β) : acc z n f = sumL z ((List.range n).map f) := by
  induction n with
  | zero => rfl
  | succ n ih => simp [acc, ih, sumL, List.range_succ, List.foldl_append]

theorem map_range_eq_zipWith {γ δ ε : Type} (f : γ → δ → ε) (A : List γ) (B : List δ) (n : Nat)
    (hA : A.length = n) (hB : B.length = n) (z1 : γ) (z2 : δ) :
    (List.range n).map (fun i => f (A[i]?.getD z1) (B[i]?.getD z2)) = List.zipWith f A B := by
  apply List.ext_getElem
  · simp [hA, hB]
  · intro i h1 h2
    have hi : i < n := by simpa using h1
    simp [List.getElem_zipWith, List.getElem?_eq_getElem (hA ▸ hi), List.getElem?_eq_getElem (hB ▸ hi)]

end generic

section lms
variable {ρ τ : Type} [Add ρ] [Div ρ] [Fn ρ] [Add τ] [Sub τ] [Mul τ] [Div τ] [Mixed ρ τ]

/-- state of the clean per-sample recursion: coefficient vector `w` (orientation of `_w`: the LAST entry multiplies the
newest sample) and the `len-1` previous inputs `h` (oldest first) -/
structure CState (τ : Type) where
  w : List τ
  h : List τ

variable (ρ) in
/-- `y = w · r` (summed left to right from `T(0)`, as the code does) -/
def outC (w r : List τ) : τ := sumL (zero ρ) (List.zipWith (· * ·) w r)

/-- LMS / NLMS coefficient update `w' = w·leak + mu·e·conj(r) [/ (‖r‖² + eps)]` -/
def updC (p : LmsP ρ) (w r : List τ) (e : τ) : List τ :=
  if p.nlms then
    let norm : ρ := sumL (Fn.ofNat 0) (r.map abs2) + eps
    List.zipWith (fun wi ri => mulr wi p.lk + divr (rmul p.mu e * conj ρ ri) norm) w r
  else
    List.zipWith (fun wi ri => mulr wi p.lk + rmul p.mu e * conj ρ ri) w r

/-- one sample of the clean recursion `(w, r) ↦ (y = w·r, e = d − y, w')`: the regressor is the history plus the new
sample, the output uses the coefficients held BEFORE the update, the update is skipped when locked -/
def stepC (p : LmsP ρ) (locked : Bool) (c : CState τ) (x d : τ) : CState τ × τ × τ :=
  let r := c.h ++ [x]
  let y := outC ρ c.w r
  let e := d - y
  (⟨if locked then c.w else updC p c.w r e, r.drop 1⟩, y, e)

/-- the clean recursion over a sample list `(x_k, d_k)` -/
def runC (p : LmsP ρ) (locked : Bool) : CState τ → List (τ × τ) → CState τ × List τ × List τ
  | c, [] => (c, [], [])
  | c, xd :: t =>
    let r := stepC p locked c xd.1 xd.2
    let q := runC p locked r.1 t
    (q.1, r.2.1 :: q.2.1, r.2.2 :: q.2.2)

/-- window of `n` consecutive entries of the working buffer starting at `k` -/
def win (l : List τ) (k n : Nat) : List τ := (l.drop k).take n

theorem win_length (l : List τ) (k n : Nat) (h : k + n ≤ l.length) : (win l k n).length = n := by
  simp [win]; omega

theorem win_getElem? (l : List τ) (k n i : Nat) (hi : i < n) : (win l k n)[i]? = l[i + k]? := by
  simp [win, List.getElem?_take, hi, List.getElem?_drop, Nat.add_comm]

theorem lmsOut_eq (len : Nat) (w tu : Array τ) (k : Nat) (hw : w.size = len) (hk : k + len ≤ tu.size) :
    lmsOut (ρ := ρ) len w tu k = outC ρ w.toList (win tu.toList k len) := by
  unfold lmsOut outC
  rw [acc_eq_sumL]
  congr 1
  rw [← map_range_eq_zipWith (· * ·) w.toList (win tu.toList k len) len (by simpa using hw)
    (win_length _ _ _ (by simpa using hk)) (zero ρ) (zero ρ)]
  apply List.map_congr_left
  intro i hi
  have hi : i < len := by simpa using hi
  simp [rd, win_getElem? _ _ _ _ hi]

theorem ofFn_eq_zipWith {γ δ ε : Type} (f : γ → δ → ε) (A : List γ) (B : List δ) (n : Nat)
    (hA : A.length = n) (hB : B.length = n) (z1 : γ) (z2 : δ) :
    List.ofFn (n := n) (fun i => f (A[i.val]?.getD z1) (B[i.val]?.getD z2)) = List.zipWith f A B := by
  apply List.ext_getElem
  · simp [hA, hB]
  · intro i h1 h2
    have hi : i < n := by simpa using h1
    simp [List.getElem_zipWith, List.getElem?_eq_getElem (hA ▸ hi), List.getElem?_eq_getElem (hB ▸ hi)]

theorem lmsUpd_eq (p : LmsP ρ) (w tu : Array τ) (k : Nat) (e : τ) (hw : w.size = p.len) (hk : k + p.len ≤ tu.size) :
    (lmsUpd p w tu k e).toList = updC p w.toList (win tu.toList k p.len) e := by
  have hwl : w.toList.length = p.len := by simpa using hw
  have hrl : (win tu.toList k p.len).length = p.len := win_length _ _ _ (by simpa using hk)
  unfold lmsUpd updC
  split
  · simp only [Array.toList_ofFn]
    rw [← ofFn_eq_zipWith _ w.toList (win tu.toList k p.len) p.len hwl hrl (zero ρ) (zero ρ)]
    have hn : acc (Fn.ofNat 0) p.len (fun i => abs2 (rd (ρ := ρ) tu (i + k)))
        = sumL (Fn.ofNat 0 : ρ) ((win tu.toList k p.len).map abs2) := by
      rw [acc_eq_sumL]
      congr 1
      apply List.ext_getElem
      · simp [hrl]
      · intro i h1 h2
        have hi : i < p.len := by simpa using h1
        have := win_getElem? tu.toList k p.len i hi
        rw [List.getElem?_eq_getElem (by rw [hrl]; exact hi)] at this
        have h3 : tu[i + k]? = some (win tu.toList k p.len)[i] := by
          rw [← Array.getElem?_toList]; exact this.symm
        simp [rd, h3]
    rw [hn]
    congr 1
    funext i
    simp [rd, win_getElem? _ _ _ _ i.isLt]
  · simp only [Array.toList_ofFn]
    rw [← ofFn_eq_zipWith _ w.toList (win tu.toList k p.len) p.len hwl hrl (zero ρ) (zero ρ)]
    congr 1
    funext i
    simp [rd, win_getElem? _ _ _ _ i.isLt]

theorem win_snoc (l : List τ) (k n : Nat) (h : k + n < l.length) : win l k n ++ [l[k + n]] = win l k (n + 1) := by
  unfold win
  rw [List.take_succ_eq_append_getElem (by simp; omega)]
  simp

theorem win_drop_one (l : List τ) (k n : Nat) : (win l k (n + 1)).drop 1 = win l (k + 1) n := by
  unfold win
  rw [List.drop_take]
  simp

theorem lmsUpd_size (p : LmsP ρ) (w tu : Array τ) (k : Nat) (e : τ) : (lmsUpd p w tu k e).size = p.len := by
  unfold lmsUpd; split <;> simp

/-- the sample loop of `LmsFilter::process` from iteration `k` on, against the clean recursion started in the
corresponding state -/
theorem lms_loop (p : LmsP ρ) (locked : Bool) (tu d : Array τ) (nx : Nat) (hlen : 1 ≤ p.len)
    (htu : tu.size = p.len - 1 + nx) (hd : d.size = nx) :
    ∀ (m k : Nat) (a : Array τ × Array τ × Array τ), k + m = nx → a.1.size = p.len →
      let q := runC p locked ⟨a.1.toList, win tu.toList k (p.len - 1)⟩
        (((tu.toList.drop (p.len - 1)).zip d.toList).drop k)
      let r := (List.range' k m).foldl (lmsIter p locked tu d) a
      r.1.toList = q.1.w ∧ q.1.h = win tu.toList nx (p.len - 1) ∧
        r.2.1.toList = a.2.1.toList ++ q.2.1 ∧ r.2.2.toList = a.2.2.toList ++ q.2.2 ∧ r.1.size = p.len := by
  intro m
  induction m with
  | zero =>
    intro k a hk ha
    have hk' : k = nx := by omega
    subst hk'
    have : ((tu.toList.drop (p.len - 1)).zip d.toList).drop k = [] := by
      apply List.drop_eq_nil_of_le; simp; omega
    simp [this, runC, ha]
  | succ m ih =>
    intro k a hk ha
    have hkn : k < nx := by omega
    have hZ : ((tu.toList.drop (p.len - 1)).zip d.toList).drop k
        = (tu.toList[p.len - 1 + k]'(by simp; omega), d.toList[k]'(by simp; omega))
          :: ((tu.toList.drop (p.len - 1)).zip d.toList).drop (k + 1) := by
      rw [List.drop_eq_getElem_cons (by simp; omega)]
      simp [List.getElem_zip]
    have hwin : win tu.toList k (p.len - 1) ++ [tu.toList[p.len - 1 + k]'(by simp; omega)]
        = win tu.toList k p.len := by
      have := win_snoc tu.toList k (p.len - 1) (by simp; omega)
      have h2 : p.len - 1 + 1 = p.len := by omega
      rw [h2] at this
      rw [← this]
      have e : k + (p.len - 1) = p.len - 1 + k := by omega
      simp only [e]
    have hdrop : (win tu.toList k p.len).drop 1 = win tu.toList (k + 1) (p.len - 1) := by
      have := win_drop_one tu.toList k (p.len - 1)
      have h2 : p.len - 1 + 1 = p.len := by omega
      rwa [h2] at this
    have hout := lmsOut_eq (ρ := ρ) p.len a.1 tu k ha (by omega)
    have hupd := fun e => lmsUpd_eq p a.1 tu k e ha (by omega)
    have hdk : rd (ρ := ρ) d k = d.toList[k]'(by simp; omega) := by
      simp [rd, Array.getElem?_eq_getElem (show k < d.size by omega)]
    have ha' : (lmsIter p locked tu d a k).1.size = p.len := by
      unfold lmsIter
      cases locked <;> simp [ha, lmsUpd_size]
    have := ih (k + 1) (lmsIter p locked tu d a k) (by omega) ha'
    simp only [List.range'_succ, List.foldl_cons]
    rw [hZ]
    simp only [runC, stepC, hwin, hdrop]
    obtain ⟨h1, h2, h3, h4, h5⟩ := this
    have e1 : (lmsIter p locked tu d a k).1.toList =
        (if locked then a.1.toList else updC p a.1.toList (win tu.toList k p.len)
          (d.toList[k]'(by simp; omega) - outC ρ a.1.toList (win tu.toList k p.len))) := by
      unfold lmsIter
      cases locked <;> simp [hupd, hout, hdk]
    have e2 : (lmsIter p locked tu d a k).2.1.toList = a.2.1.toList ++ [outC ρ a.1.toList (win tu.toList k p.len)] := by
      simp [lmsIter, hout]
    have e3 : (lmsIter p locked tu d a k).2.2.toList = a.2.2.toList ++
        [d.toList[k]'(by simp; omega) - outC ρ a.1.toList (win tu.toList k p.len)] := by
      simp [lmsIter, hout, hdk]
    rw [e1] at h1 h2 h3 h4
    refine ⟨h1, h2, ?_, ?_, h5⟩
    · rw [h3, e2]; simp
    · rw [h4, e3]; simp

/-- **T12.1 (LMS, NLMS; every scalar type, every input history, every frame).**  One call of the buffer-indexed
`LmsFilter::process` (working buffer `tu = _u | x`, indices `tu[i + k]`, reversed `_w`) computes exactly the clean
per-sample recursion `(w, r) ↦ (y = w·r, e = d − y, w')` run over the samples of the frame from the state
`(w, h) = (_w, _u)`: same outputs, same errors, same final coefficients and history. -/
theorem lms_refines (p : LmsP ρ) (s : LmsState τ) (x d : Array τ)
    (hlen : 1 ≤ p.len) (hu : s.u.size = p.len - 1) (hw : s.w.size = p.len) (hxd : x.size = d.size) :
    ∃ s' y e, lmsProcess p s x d = .ok (s', y, e) ∧ s'.locked = s.locked ∧
      s'.w.size = p.len ∧ s'.u.size = p.len - 1 ∧
      s'.w.toList = (runC p s.locked ⟨s.w.toList, s.u.toList⟩ (x.toList.zip d.toList)).1.w ∧
      s'.u.toList = (runC p s.locked ⟨s.w.toList, s.u.toList⟩ (x.toList.zip d.toList)).1.h ∧
      y.toList = (runC p s.locked ⟨s.w.toList, s.u.toList⟩ (x.toList.zip d.toList)).2.1 ∧
      e.toList = (runC p s.locked ⟨s.w.toList, s.u.toList⟩ (x.toList.zip d.toList)).2.2 := by
  have hloop := lms_loop p s.locked (s.u ++ x) d x.size hlen (by simp [hu]) hxd.symm x.size 0 (s.w, #[], #[])
    (by omega) hw
  have h0 : win (s.u ++ x).toList 0 (p.len - 1) = s.u.toList := by
    simp [win, List.take_append_of_le_length, hu]
  have hx : (s.u ++ x).toList.drop (p.len - 1) = x.toList := by
    simp only [Array.toList_append]
    exact List.drop_left' (by simpa using hu)
  simp only [h0, hx, List.drop_zero] at hloop
  obtain ⟨h1, h2, h3, h4, h5⟩ := hloop
  refine ⟨{ s with u := (s.u ++ x).extract x.size (x.size + p.len - 1),
                    w := ((List.range' 0 x.size).foldl (lmsIter p s.locked (s.u ++ x) d) (s.w, #[], #[])).1 },
    ((List.range' 0 x.size).foldl (lmsIter p s.locked (s.u ++ x) d) (s.w, #[], #[])).2.1,
    ((List.range' 0 x.size).foldl (lmsIter p s.locked (s.u ++ x) d) (s.w, #[], #[])).2.2, ?_, ?_⟩
  · unfold lmsProcess
    rw [if_neg (by simpa using hxd)]
    simp only [List.range_eq_range']
  · refine ⟨rfl, h5, ?_, h1, ?_, by simpa using h3, by simpa using h4⟩
    · simp only [Array.size_extract, Array.size_append, hu]; omega
    · rw [h2]
      unfold win
      rw [Array.toList_extract, List.extract_eq_take_drop]
      congr 1
      omega

end lms

/-! ## T12.3 -/
section real

theorem sumL_real (z : ℝ) (l : List ℝ) : sumL z l = z + l.sum := by
  unfold sumL
  induction l generalizing z with
  | nil => simp
  | cons a t ih => simp [ih, add_assoc]

/-- squared misalignment `‖w − w*‖²` -/
def mis (w ws : List ℝ) : ℝ := (List.zipWith (fun a b => (a - b) ^ 2) w ws).sum

/-- `Σ (w_i − w*_i) r_i` -/
def cross (w ws r : List ℝ) : ℝ := (List.zipWith (· * ·) (List.zipWith (· - ·) w ws) r).sum

/-- `Σ r_i²` -/
def pow2 (r : List ℝ) : ℝ := (r.map (fun x => x * x)).sum

theorem pow2_nonneg (r : List ℝ) : 0 ≤ pow2 r := by
  unfold pow2
  apply List.sum_nonneg
  intro x hx
  simp at hx
  obtain ⟨a, _, rfl⟩ := hx
  exact mul_self_nonneg a

theorem mis_axpy (c : ℝ) (r : List ℝ) : ∀ (w ws : List ℝ), w.length = r.length → ws.length = r.length →
    mis (List.zipWith (fun wi ri => wi + c * ri) w r) ws = mis w ws + 2 * c * cross w ws r + c ^ 2 * pow2 r := by
  induction r with
  | nil =>
    intro w ws h1 h2
    have hw : w = [] := List.eq_nil_of_length_eq_zero (by simpa using h1)
    subst hw
    simp [mis, cross, pow2]
  | cons x r ih =>
    intro w ws h1 h2
    cases w with
    | nil => simp at h1
    | cons a w =>
      cases ws with
      | nil => simp at h2
      | cons b ws =>
        simp at h1 h2
        have := ih w ws h1 h2
        simp only [mis, cross, pow2, List.zipWith_cons_cons, List.sum_cons, List.map_cons] at this ⊢
        rw [this]; ring

theorem out_diff (r : List ℝ) : ∀ (w ws : List ℝ), w.length = r.length → ws.length = r.length →
    outC ℝ ws r - outC ℝ w r = - cross w ws r := by
  induction r with
  | nil =>
    intro w ws h1 h2
    have hw : w = [] := List.eq_nil_of_length_eq_zero (by simpa using h1)
    subst hw
    simp [outC, cross, sumL_real]
  | cons x r ih =>
    intro w ws h1 h2
    cases w with
    | nil => simp at h1
    | cons a w =>
      cases ws with
      | nil => simp at h2
      | cons b ws =>
        simp at h1 h2
        have := ih w ws h1 h2
        simp only [outC, cross, sumL_real, List.zipWith_cons_cons, List.sum_cons] at this ⊢
        linarith

theorem eps_pos : (0 : ℝ) < (eps : ℝ) := by
  unfold eps; simp

/-- the NLMS update at `ℝ` with leak 1 is `w + c·r`, `c = μ e / (‖r‖² + eps)` -/
theorem updC_nlms_real (p : LmsP ℝ) (hn : p.nlms = true) (hlk : p.lk = 1) (w r : List ℝ) (e : ℝ) :
    updC p w r e = List.zipWith (fun wi ri => wi + (p.mu * e / (pow2 r + eps)) * ri) w r := by
  unfold updC
  rw [if_pos hn]
  have : sumL (Fn.ofNat 0 : ℝ) (r.map abs2) = pow2 r := by
    rw [sumL_real]; simp [pow2]; rfl
  simp only [this]
  congr 1
  funext wi ri
  simp only [Mixed.mulr, Mixed.divr, Mixed.rmul, Mixed.conj, hlk]
  ring

/-- **T12.3 (ℝ, per-step identity).**  NLMS, leakage 1, noise-free desired sample `d = w*·r`: one update changes the
squared misalignment `‖w − w*‖²` by exactly `− μ e² (2(p+ε) − μ p) / (p+ε)²`, `p = ‖r‖²`, `ε = eps()`, `e = d − w·r`
the a-priori error.  (`p + ε > 0` always: no division by zero is hidden.) -/
theorem nlms_misalignment_step (p : LmsP ℝ) (hn : p.nlms = true) (hlk : p.lk = 1) (w ws r : List ℝ)
    (hw : w.length = r.length) (hws : ws.length = r.length) :
    mis (updC p w r (outC ℝ ws r - outC ℝ w r)) ws
      = mis w ws - p.mu * (outC ℝ ws r - outC ℝ w r) ^ 2 * (2 * (pow2 r + eps) - p.mu * pow2 r) / (pow2 r + eps) ^ 2 := by
  rw [updC_nlms_real p hn hlk, mis_axpy _ r w ws hw hws, out_diff r w ws hw hws]
  have hN : pow2 r + (eps : ℝ) ≠ 0 := by
    have := pow2_nonneg r; have := eps_pos; linarith
  field_simp
  ring

/-- **T12.3 (ℝ).**  For `0 < μ < 2` the squared misalignment does not increase. -/
theorem nlms_misalignment_le (p : LmsP ℝ) (hn : p.nlms = true) (hlk : p.lk = 1) (hmu0 : 0 < p.mu) (hmu2 : p.mu < 2)
    (w ws r : List ℝ) (hw : w.length = r.length) (hws : ws.length = r.length) :
    mis (updC p w r (outC ℝ ws r - outC ℝ w r)) ws ≤ mis w ws := by
  rw [nlms_misalignment_step p hn hlk w ws r hw hws]
  have h1 := pow2_nonneg r
  have h2 := eps_pos
  have : 0 ≤ p.mu * (outC ℝ ws r - outC ℝ w r) ^ 2 * (2 * (pow2 r + eps) - p.mu * pow2 r) / (pow2 r + eps) ^ 2 := by
    apply div_nonneg
    · apply mul_nonneg
      · exact mul_nonneg hmu0.le (sq_nonneg _)
      · nlinarith
    · positivity
  linarith

end real


section lms2
variable {ρ τ : Type} [Add ρ] [Div ρ] [Fn ρ] [Add τ] [Sub τ] [Mul τ] [Div τ] [Mixed ρ τ]

theorem runC_length (p : LmsP ρ) (locked : Bool) : ∀ (l : List (τ × τ)) (c : CState τ),
    (runC p locked c l).2.1.length = l.length ∧ (runC p locked c l).2.2.length = l.length := by
  intro l
  induction l with
  | nil => intro c; simp [runC]
  | cons a t ih => intro c; simp [runC, ih]

/-- in the clean recursion every error is `d − y` of the same sample -/
theorem runC_err (p : LmsP ρ) (locked : Bool) : ∀ (l : List (τ × τ)) (c : CState τ),
    (runC p locked c l).2.2 = List.zipWith (fun xd y => xd.2 - y) l (runC p locked c l).2.1 := by
  intro l
  induction l with
  | nil => intro c; simp [runC]
  | cons a t ih => intro c; simp only [runC, List.zipWith_cons_cons]; rw [← ih]; simp [stepC]

/-- **T12.1, error clause (LMS, NLMS; every scalar type).**  `e[k] = d[k] − y[k]` for every sample of every call. -/
theorem lms_error_exact (p : LmsP ρ) (s s' : LmsState τ) (x d y e : Array τ)
    (hlen : 1 ≤ p.len) (hu : s.u.size = p.len - 1) (hw : s.w.size = p.len)
    (h : lmsProcess p s x d = .ok (s', y, e)) :
    e.toList = List.zipWith (fun dk yk => dk - yk) d.toList y.toList := by
  have hxd : x.size = d.size := by
    unfold lmsProcess at h
    by_contra hne
    rw [if_pos hne] at h
    cases h
  obtain ⟨s1, y1, e1, h1, _, _, _, _, _, hy, he⟩ := lms_refines p s x d hlen hu hw hxd
  rw [h1] at h
  injection h with h
  injection h with _ h
  injection h with hy' he'
  subst hy' he'
  rw [he, runC_err, ← hy]
  apply List.ext_getElem
  · simp; omega
  · intro i h1 h2
    simp [List.getElem_zipWith, List.getElem_zip]

/-- running the clean recursion over a concatenation = running it over the parts in sequence -/
theorem runC_append (p : LmsP ρ) (locked : Bool) : ∀ (l1 l2 : List (τ × τ)) (c : CState τ),
    runC p locked c (l1 ++ l2) =
      ((runC p locked (runC p locked c l1).1 l2).1,
        (runC p locked c l1).2.1 ++ (runC p locked (runC p locked c l1).1 l2).2.1,
        (runC p locked c l1).2.2 ++ (runC p locked (runC p locked c l1).1 l2).2.2) := by
  intro l1
  induction l1 with
  | nil => intro l2 c; simp [runC]
  | cons a t ih => intro l2 c; simp [runC, ih]

variable (ρ) in
/-- noise-free desired signal of the system `ws` (orientation of `_w`) driven by the inputs `xs` from history `h` -/
def desiredC (ws : List τ) : List τ → List τ → List τ
  | _, [] => []
  | h, x :: t => outC ρ ws (h ++ [x]) :: desiredC ws ((h ++ [x]).drop 1) t

/-- locked: the clean recursion never changes the coefficients -/
theorem runC_locked_w (p : LmsP ρ) : ∀ (l : List (τ × τ)) (c : CState τ), (runC p true c l).1.w = c.w := by
  intro l
  induction l with
  | nil => intro c; simp [runC]
  | cons a t ih => intro c; simp [runC, ih, stepC]

end lms2

section real2

theorem updC_length_real (p : LmsP ℝ) (w r : List ℝ) (e : ℝ) : (updC p w r e).length = min w.length r.length := by
  unfold updC; split <;> simp

/-- **T12.3 (ℝ, whole trajectories of the clean recursion).**  NLMS, leakage 1, `0 < μ < 2`, desired signal produced
noise-free by a system `ws` of the filter's length: the squared misalignment after any number of samples is at most
the initial one (locked samples leave it unchanged). -/
theorem nlms_run_misalignment_le (p : LmsP ℝ) (hn : p.nlms = true) (hlk : p.lk = 1) (hmu0 : 0 < p.mu) (hmu2 : p.mu < 2)
    (locked : Bool) (ws : List ℝ) : ∀ (xs : List ℝ) (c : CState ℝ), c.w.length = c.h.length + 1 →
      ws.length = c.h.length + 1 →
      mis (runC p locked c (xs.zip (desiredC ℝ ws c.h xs))).1.w ws ≤ mis c.w ws := by
  intro xs
  induction xs with
  | nil => intro c _ _; simp [runC, desiredC]
  | cons x t ih =>
    intro c hw hws
    simp only [desiredC, List.zip_cons_cons, runC]
    have hr : (c.h ++ [x]).length = c.h.length + 1 := by simp
    cases locked with
    | true =>
      have := ih ⟨c.w, (c.h ++ [x]).drop 1⟩ (by simpa using hw) (by simpa using hws)
      simpa [stepC] using this
    | false =>
      have hstep := nlms_misalignment_le p hn hlk hmu0 hmu2 c.w ws (c.h ++ [x]) (by rw [hr, hw]) (by rw [hr, hws])
      have := ih ⟨updC p c.w (c.h ++ [x]) (outC ℝ ws (c.h ++ [x]) - outC ℝ c.w (c.h ++ [x])), (c.h ++ [x]).drop 1⟩
        (by simp [updC_length_real, hw]) (by simpa using hws)
      simp only [stepC, Bool.false_eq_true, if_false]
      exact le_trans this hstep

/-- **T12.3 (ℝ, the implementation model).**  One call of `LmsFilter<real_t>::process` in NLMS mode, leakage 1,
`0 < μ < 2`, with a desired frame that is the noise-free output of a system of the filter's length (`ws`, in the
orientation of `_w`, i.e. the flipped impulse response; the squared distance is the same for `coeffs()`), never
increases the squared coefficient misalignment — whatever the frame, the history and the lock flag. -/
theorem nlms_process_misalignment_le (p : LmsP ℝ) (hn : p.nlms = true) (hlk : p.lk = 1) (hmu0 : 0 < p.mu)
    (hmu2 : p.mu < 2) (s s' : LmsState ℝ) (x d y e : Array ℝ) (ws : List ℝ)
    (hlen : 1 ≤ p.len) (hu : s.u.size = p.len - 1) (hw : s.w.size = p.len) (hws : ws.length = p.len)
    (hd : d.toList = desiredC ℝ ws s.u.toList x.toList)
    (h : lmsProcess p s x d = .ok (s', y, e)) :
    mis s'.w.toList ws ≤ mis s.w.toList ws := by
  have hxd : x.size = d.size := by
    unfold lmsProcess at h
    by_contra hne
    rw [if_pos hne] at h
    cases h
  obtain ⟨s1, y1, e1, h1, _, _, _, hw1, _, _, _⟩ := lms_refines p s x d hlen hu hw hxd
  rw [h1] at h
  injection h with h
  injection h with hs _
  subst hs
  rw [hw1, hd]
  exact nlms_run_misalignment_le p hn hlk hmu0 hmu2 s.locked ws x.toList ⟨s.w.toList, s.u.toList⟩
    (by simp [hu, hw]; omega) (by simp [hu, hws]; omega)

end real2

section lockedlms
variable {ρ τ : Type} [Add ρ] [Div ρ] [Fn ρ] [Add τ] [Sub τ] [Mul τ] [Div τ] [Mixed ρ τ]

theorem lms_loop_locked (p : LmsP ρ) (tu d : Array τ) : ∀ (m k : Nat) (a : Array τ × Array τ × Array τ),
    ((List.range' k m).foldl (lmsIter p true tu d) a).1 = a.1 ∧
    ((List.range' k m).foldl (lmsIter p true tu d) a).2.1.toList
      = a.2.1.toList ++ (List.range' k m).map (fun j => lmsOut (ρ := ρ) p.len a.1 tu j) := by
  intro m
  induction m with
  | zero => intro k a; simp
  | succ m ih =>
    intro k a
    simp only [List.range'_succ, List.foldl_cons]
    obtain ⟨h1, h2⟩ := ih (k + 1) (lmsIter p true tu d a k)
    rw [h1, h2]
    simp [lmsIter]

/-- **T12.2 (LMS, NLMS; every scalar type, no size hypothesis).**  With adaptation locked a call of `process` leaves
`_w` — hence `coeffs()` — untouched, and every output sample is the fixed inner product of that coefficient vector
with the working-buffer window: `y[k] = Σ_i _w[i]·tu[i+k]`, `tu = _u | x`. -/
theorem lms_locked (p : LmsP ρ) (s s' : LmsState τ) (x d y e : Array τ) (hl : s.locked = true)
    (h : lmsProcess p s x d = .ok (s', y, e)) :
    s'.w = s.w ∧ s'.coeffs = s.coeffs ∧ s'.locked = true ∧
      y.toList = (List.range x.size).map (fun k => lmsOut (ρ := ρ) p.len s.w (s.u ++ x) k) := by
  unfold lmsProcess at h
  split at h
  · cases h
  · injection h with h
    injection h with hs h
    injection h with hy he
    obtain ⟨h1, h2⟩ := lms_loop_locked p (s.u ++ x) d x.size 0 (s.w, #[], #[])
    rw [hl, List.range_eq_range'] at hs hy
    subst hs hy
    refine ⟨h1, ?_, rfl, ?_⟩
    · simp [LmsState.coeffs, h1]
    · simpa [List.range_eq_range'] using h2

end lockedlms

/-! ### the FIR form `y[k] = Σ_j coeffs()[j] · x(k − j)` -/
section fir
open Finset

theorem acc_eq_sum {β : Type} [AddCommMonoid β] (n : Nat) (f : Nat → β) : acc (0 : β) n f = ∑ i ∈ range n, f i := by
  induction n with
  | zero => simp [acc]
  | succ n ih => simp [acc, ih, Finset.sum_range_succ]

/-- re-indexing `i ↦ j = len-1-i`: `_w[i]` is `coeffs()[j]`, `tu[i+k]` is the input `j` samples before `tu[len-1+k]` -/
theorem sum_reflect_fir {β γ : Type} [AddCommMonoid β] (F : γ → γ → β) (z : γ) (len : Nat) (w tu : Array γ) (k : Nat)
    (hw : w.size = len) :
    ∑ i ∈ range len, F (w.getD i z) (tu.getD (i + k) z)
      = ∑ j ∈ range len, F (w.reverse.getD j z) (tu.getD (len - 1 + k - j) z) := by
  rw [← Finset.sum_range_reflect]
  apply Finset.sum_congr rfl
  intro j hj
  have hj : j < len := by simpa using hj
  have h1 : w.reverse[j]? = w[len - 1 - j]? := by
    rw [Array.getElem?_reverse (by omega), hw]
  have h2 : len - 1 - j + k = len - 1 + k - j := by omega
  simp [Array.getD_eq_getD_getElem?, h1, h2]

/-- **T12.2, FIR form over any (semi)ring — in particular `ℝ`.**  The locked output is the FIR sum with `coeffs()`:
`Σ_i _w[i]·tu[i+k] = Σ_j coeffs()[j]·tu[(len-1+k) − j]`, `tu[len-1+k] = x[k]` being the current input sample. -/
theorem lmsOut_fir {ρ τ : Type} [NonUnitalNonAssocSemiring τ] [Mixed ρ τ] (hz : Mixed.zero ρ = (0 : τ))
    (len : Nat) (w tu : Array τ) (k : Nat) (hw : w.size = len) :
    lmsOut (ρ := ρ) len w tu k
      = ∑ j ∈ range len, rd (ρ := ρ) w.reverse j * rd (ρ := ρ) tu (len - 1 + k - j) := by
  unfold lmsOut rd
  rw [hz, acc_eq_sum]
  exact sum_reflect_fir (· * ·) 0 len w tu k hw

theorem zero_real : Mixed.zero ℝ = (0 : ℝ) := by simp [Mixed.zero]

/-- `ℝ` instance of the FIR form, with `coeffs()` spelled out -/
theorem lms_locked_fir_real (len : Nat) (s : LmsState ℝ) (tu : Array ℝ) (k : Nat) (hw : s.w.size = len) :
    lmsOut (ρ := ℝ) len s.w tu k = ∑ j ∈ range len, s.coeffs.getD j 0 * tu.getD (len - 1 + k - j) 0 := by
  have := lmsOut_fir (ρ := ℝ) zero_real len s.w tu k hw
  simpa [rd, LmsState.coeffs, zero_real] using this

theorem toC_zero : Cx.toC (Mixed.zero ℝ : Cx ℝ) = 0 := by
  apply Complex.ext <;> simp [Mixed.zero]

theorem toC_acc (n : Nat) (f : Nat → Cx ℝ) : Cx.toC (acc (Mixed.zero ℝ) n f) = ∑ i ∈ range n, Cx.toC (f i) := by
  induction n with
  | zero => simp [acc, toC_zero]
  | succ n ih => simp [acc, ih, Finset.sum_range_succ, Cx.toC_add]

/-- **T12.2, FIR form for complex data** (through `toC : Cx ℝ → ℂ`): no conjugation of the coefficients. -/
theorem lms_locked_fir_complex (len : Nat) (s : LmsState (Cx ℝ)) (tu : Array (Cx ℝ)) (k : Nat) (hw : s.w.size = len) :
    Cx.toC (lmsOut (ρ := ℝ) len s.w tu k)
      = ∑ j ∈ range len, Cx.toC (s.coeffs.getD j (Mixed.zero ℝ)) * Cx.toC (tu.getD (len - 1 + k - j) (Mixed.zero ℝ)) := by
  unfold lmsOut rd
  rw [toC_acc]
  simp only [Cx.toC_mul]
  exact sum_reflect_fir (fun a b => Cx.toC a * Cx.toC b) (Mixed.zero ℝ) len s.w tu k hw

end fir

section rls
variable {ρ τ : Type} [Add ρ] [Div ρ] [Fn ρ] [Add τ] [Sub τ] [Mul τ] [Div τ] [Mixed ρ τ]

variable (ρ) in
/-- the delay line after `memmove(_u + 1, _u, n - 1); _u[0] = x`: newest sample first -/
def shiftIn (n : Nat) (u : Array τ) (x : τ) : Array τ :=
  Array.ofFn (n := n) fun i => if i.val = 0 then x else rd (ρ := ρ) u (i.val - 1)

theorem rd_ofFn (n : Nat) (f : Fin n → τ) (i : Nat) (hi : i < n) : rd (ρ := ρ) (Array.ofFn f) i = f ⟨i, hi⟩ := by
  simp [rd, hi]

theorem shiftIn_zero (n : Nat) (u : Array τ) (x : τ) (hn : 0 < n) : rd (ρ := ρ) (shiftIn ρ n u x) 0 = x := by
  unfold shiftIn; rw [rd_ofFn _ _ _ hn]; simp

theorem shiftIn_succ (n : Nat) (u : Array τ) (x : τ) (i : Nat) (hi : i + 1 < n) :
    rd (ρ := ρ) (shiftIn ρ n u x) (i + 1) = rd (ρ := ρ) u i := by
  unfold shiftIn; rw [rd_ofFn _ _ _ hi]; simp

/-- **T12.1 (RLS; every scalar type, every state, locked or not).**  One iteration of the sample loop of
`RlsFilter::process`: the new sample is shifted into the delay line, the output is the inner product of the
coefficient vector held BEFORE the update with that delay line, and the error is exactly `d − y`. -/
theorem rls_step_apriori (P : RlsP ρ) (s : RlsState τ) (x d : τ) :
    (rlsStep P s x d).y = dot (ρ := ρ) P.n s.w (shiftIn ρ P.n s.u x) ∧
    (rlsStep P s x d).e = d - (rlsStep P s x d).y ∧
    (rlsStep P s x d).s.u = shiftIn ρ P.n s.u x ∧
    (rlsStep P s x d).s.locked = s.locked := by
  unfold rlsStep shiftIn
  cases hl : s.locked <;> simp [hl]

/-- **T12.2 (RLS, one sample).**  Locked: neither the coefficients nor the inverse-correlation matrix change. -/
theorem rls_step_locked (P : RlsP ρ) (s : RlsState τ) (x d : τ) (hl : s.locked = true) :
    (rlsStep P s x d).s.w = s.w ∧ (rlsStep P s x d).s.p = s.p := by
  unfold rlsStep
  simp [hl]

theorem acc_congr {β : Type} [Add β] (z : β) (n : Nat) (f g : Nat → β) (h : ∀ i, i < n → f i = g i) :
    acc z n f = acc z n g := by
  induction n with
  | zero => rfl
  | succ n ih => simp only [acc]; rw [ih (fun i hi => h i (by omega)), h n (by omega)]

variable (ρ) in
/-- matrix entry `P i k` of the flat row-major `_p` -/
def rlsPm (n : Nat) (p : Array τ) (i k : Nat) : τ := rd (ρ := ρ) p (i * n + k)
variable (ρ) in
/-- `(P u)_i` -/
def rlsPu (n : Nat) (p u : Array τ) (i : Nat) : τ := acc (zero ρ) n fun k => rlsPm ρ n p i k * rd (ρ := ρ) u k
variable (ρ) in
/-- `(uᴴ P)_i` -/
def rlsUP (n : Nat) (p u : Array τ) (i : Nat) : τ := acc (zero ρ) n fun k => conj ρ (rd (ρ := ρ) u k) * rlsPm ρ n p k i
/-- `λ + uᴴ P u` -/
def rlsDen (P : RlsP ρ) (p u : Array τ) : τ := radd P.mu (acc (zero ρ) P.n fun i => rlsUP ρ P.n p u i * rd (ρ := ρ) u i)
/-- gain `g_i = (P u)_i / (λ + uᴴ P u)` -/
def rlsGain (P : RlsP ρ) (p u : Array τ) (i : Nat) : τ := rlsPu ρ P.n p u i / rlsDen P p u

/-- **T12.1 (RLS update; every scalar type).**  Unlocked, the flat row-major `_p[i*n+k]` code performs the matrix
recursion `g = P u / (λ + uᴴ P u)`, `P' = λ⁻¹ (P − g (uᴴ P))`, `w' = w + conj(g) e` — stated entry-wise,
exactly as the code conjugates (`uᴴ P` uses `conj(u)`, the output `w·u` does not). -/
theorem rls_step_update (P : RlsP ρ) (s : RlsState τ) (x d : τ) (hl : s.locked = false) :
    (∀ i k, i < P.n → k < P.n →
      rd (ρ := ρ) (rlsStep P s x d).s.p (i * P.n + k)
        = rmul (Fn.ofNat 1 / P.mu) (rlsPm ρ P.n s.p i k
            - rlsGain P s.p (shiftIn ρ P.n s.u x) i * rlsUP ρ P.n s.p (shiftIn ρ P.n s.u x) k)) ∧
    (∀ i, i < P.n → rd (ρ := ρ) (rlsStep P s x d).s.w i
        = rd (ρ := ρ) s.w i + conj ρ (rlsGain P s.p (shiftIn ρ P.n s.u x) i) * (rlsStep P s x d).e) := by
  have hden : ∀ (F : Fin P.n → τ) (G : Nat → τ) (u : Array τ), (∀ i (hi : i < P.n), F ⟨i, hi⟩ = G i) →
      dot (ρ := ρ) P.n (Array.ofFn F) u = acc (zero ρ) P.n fun i => G i * rd (ρ := ρ) u i := by
    intro F G u hFG
    unfold dot
    apply acc_congr
    intro i hi
    rw [rd_ofFn _ _ _ hi, hFG i hi]
  constructor
  · intro i k hi hk
    have hik : i * P.n + k < P.n * P.n := by
      calc i * P.n + k < i * P.n + P.n := by omega
        _ = (i + 1) * P.n := by rw [Nat.add_mul, Nat.one_mul]
        _ ≤ P.n * P.n := Nat.mul_le_mul_right P.n hi
    have hdiv : (i * P.n + k) / P.n = i := by
      rw [Nat.add_comm, Nat.add_mul_div_right _ _ (by omega), Nat.div_eq_of_lt hk]; simp
    have hmod : (i * P.n + k) % P.n = k := by
      rw [Nat.add_comm, Nat.add_mul_mod_self_right, Nat.mod_eq_of_lt hk]
    simp only [rlsStep, hl, Bool.false_eq_true, if_false]
    rw [rd_ofFn _ _ _ hik]
    simp only [hdiv, hmod]
    rw [rd_ofFn _ _ _ hi, rd_ofFn _ _ _ hk, rd_ofFn _ _ _ hi]
    rw [hden _ (fun i => rlsUP ρ P.n s.p (shiftIn ρ P.n s.u x) i) _ (fun i hi => rfl)]
    rfl
  · intro i hi
    simp only [rlsStep, hl, Bool.false_eq_true, if_false]
    rw [rd_ofFn _ _ _ hi, rd_ofFn _ _ _ hi, rd_ofFn _ _ _ hi]
    rw [hden _ (fun i => rlsUP ρ P.n s.p (shiftIn ρ P.n s.u x) i) _ (fun i hi => rfl)]
    rfl

/-- the clean per-sample recursion of the RLS filter over a sample list -/
def runR (P : RlsP ρ) : RlsState τ → List (τ × τ) → RlsState τ × List τ × List τ
  | s, [] => (s, [], [])
  | s, xd :: t =>
    let r := rlsStep P s xd.1 xd.2
    let q := runR P r.s t
    (q.1, r.y :: q.2.1, r.e :: q.2.2)

theorem rls_loop (P : RlsP ρ) (x d : Array τ) (nx : Nat) (hx : x.size = nx) (hd : d.size = nx) :
    ∀ (m k : Nat) (a : RlsState τ × Array τ × Array τ), k + m = nx →
      ((List.range' k m).foldl (rlsIter P x d) a).1 = (runR P a.1 ((x.toList.zip d.toList).drop k)).1 ∧
      ((List.range' k m).foldl (rlsIter P x d) a).2.1.toList
        = a.2.1.toList ++ (runR P a.1 ((x.toList.zip d.toList).drop k)).2.1 ∧
      ((List.range' k m).foldl (rlsIter P x d) a).2.2.toList
        = a.2.2.toList ++ (runR P a.1 ((x.toList.zip d.toList).drop k)).2.2 := by
  intro m
  induction m with
  | zero =>
    intro k a hk
    have : (x.toList.zip d.toList).drop k = [] := by
      apply List.drop_eq_nil_of_le; simp; omega
    simp [this, runR]
  | succ m ih =>
    intro k a hk
    have hZ : (x.toList.zip d.toList).drop k
        = (x.toList[k]'(by simp; omega), d.toList[k]'(by simp; omega)) :: (x.toList.zip d.toList).drop (k + 1) := by
      rw [List.drop_eq_getElem_cons (by simp; omega)]
      simp [List.getElem_zip]
    have hxk : rd (ρ := ρ) x k = x.toList[k]'(by simp; omega) := by
      simp [rd, Array.getElem?_eq_getElem (show k < x.size by omega)]
    have hdk : rd (ρ := ρ) d k = d.toList[k]'(by simp; omega) := by
      simp [rd, Array.getElem?_eq_getElem (show k < d.size by omega)]
    obtain ⟨h1, h2, h3⟩ := ih (k + 1) (rlsIter P x d a k) (by omega)
    simp only [List.range'_succ, List.foldl_cons]
    rw [hZ]
    simp only [runR]
    have e1 : (rlsIter P x d a k).1 = (rlsStep P a.1 (x.toList[k]'(by simp; omega)) (d.toList[k]'(by simp; omega))).s := by
      simp [rlsIter, hxk, hdk]
    rw [e1] at h1 h2 h3
    refine ⟨h1, ?_, ?_⟩
    · rw [h2]; simp [rlsIter, hxk, hdk]
    · rw [h3]; simp [rlsIter, hxk, hdk]

/-- **T12.1 (RLS, whole calls; framing).**  `RlsFilter::process` on a frame is the per-sample recursion `rlsStep`
run over the samples of the frame; consequently any framing of a stream gives the same outputs and final state. -/
theorem rls_refines (P : RlsP ρ) (s : RlsState τ) (x d : Array τ) (hxd : x.size = d.size) :
    ∃ s' y e, rlsProcess P s x d = .ok (s', y, e) ∧ s' = (runR P s (x.toList.zip d.toList)).1 ∧
      y.toList = (runR P s (x.toList.zip d.toList)).2.1 ∧ e.toList = (runR P s (x.toList.zip d.toList)).2.2 := by
  obtain ⟨h1, h2, h3⟩ := rls_loop P x d x.size rfl hxd.symm x.size 0 (s, #[], #[]) (by omega)
  refine ⟨((List.range' 0 x.size).foldl (rlsIter P x d) (s, #[], #[])).1,
    ((List.range' 0 x.size).foldl (rlsIter P x d) (s, #[], #[])).2.1,
    ((List.range' 0 x.size).foldl (rlsIter P x d) (s, #[], #[])).2.2, ?_, ?_, ?_, ?_⟩
  · unfold rlsProcess
    rw [if_neg (by simpa using hxd)]
    simp only [List.range_eq_range']
  · simpa using h1
  · simpa using h2
  · simpa using h3

theorem runR_append (P : RlsP ρ) : ∀ (l1 l2 : List (τ × τ)) (s : RlsState τ),
    runR P s (l1 ++ l2) =
      ((runR P (runR P s l1).1 l2).1, (runR P s l1).2.1 ++ (runR P (runR P s l1).1 l2).2.1,
        (runR P s l1).2.2 ++ (runR P (runR P s l1).1 l2).2.2) := by
  intro l1
  induction l1 with
  | nil => intro l2 s; simp [runR]
  | cons a t ih => intro l2 s; simp [runR, ih]

/-- **T12.2 (RLS, whole runs).**  Locked: after any number of samples the coefficients `coeffs()` and the matrix `_p`
are unchanged (and the filter is still locked). -/
theorem runR_locked (P : RlsP ρ) : ∀ (l : List (τ × τ)) (s : RlsState τ), s.locked = true →
    (runR P s l).1.w = s.w ∧ (runR P s l).1.p = s.p ∧ (runR P s l).1.locked = true := by
  intro l
  induction l with
  | nil => intro s hl; simp [runR, hl]
  | cons a t ih =>
    intro s hl
    have h4 := (rls_step_apriori P s a.1 a.2).2.2.2
    obtain ⟨h5, h6⟩ := rls_step_locked P s a.1 a.2 hl
    obtain ⟨i1, i2, i3⟩ := ih (rlsStep P s a.1 a.2).s (by rw [h4, hl])
    simp only [runR]
    exact ⟨by rw [i1, h5], by rw [i2, h6], i3⟩

/-- **T12.2 (RLS, the implementation model).**  A locked call of `process` never changes `coeffs()` nor `_p`. -/
theorem rls_locked (P : RlsP ρ) (s s' : RlsState τ) (x d y e : Array τ) (hl : s.locked = true)
    (h : rlsProcess P s x d = .ok (s', y, e)) : s'.coeffs = s.coeffs ∧ s'.p = s.p ∧ s'.locked = true := by
  have hxd : x.size = d.size := by
    unfold rlsProcess at h
    by_contra hne
    rw [if_pos hne] at h
    cases h
  obtain ⟨s1, y1, e1, h1, hs, _, _⟩ := rls_refines P s x d hxd
  rw [h1] at h
  injection h with h
  injection h with hs' _
  subst hs'
  rw [hs]
  exact runR_locked P _ s hl

end rls

section framing
variable {ρ τ : Type} [Add ρ] [Div ρ] [Fn ρ] [Add τ] [Sub τ] [Mul τ] [Div τ] [Mixed ρ τ]

/-- **T12.1, framing (LMS, NLMS; every scalar type).**  Processing a stream in two calls gives exactly the outputs,
errors and final state of processing it in one call — hence every framing of a stream gives the same result. -/
theorem lms_framing (p : LmsP ρ) (s s1 s2 : LmsState τ) (x1 d1 y1 e1 x2 d2 y2 e2 : Array τ)
    (hlen : 1 ≤ p.len) (hu : s.u.size = p.len - 1) (hw : s.w.size = p.len)
    (h1 : lmsProcess p s x1 d1 = .ok (s1, y1, e1)) (h2 : lmsProcess p s1 x2 d2 = .ok (s2, y2, e2)) :
    lmsProcess p s (x1 ++ x2) (d1 ++ d2) = .ok (s2, y1 ++ y2, e1 ++ e2) := by
  have size_of : ∀ (s s' : LmsState τ) (x d y e : Array τ), lmsProcess p s x d = .ok (s', y, e) → x.size = d.size := by
    intro s s' x d y e h
    unfold lmsProcess at h
    by_contra hne
    rw [if_pos hne] at h
    cases h
  have hxd1 := size_of _ _ _ _ _ _ h1
  have hxd2 := size_of _ _ _ _ _ _ h2
  obtain ⟨a1, b1, c1, r1, l1, w1, u1, tw1, tu1, ty1, te1⟩ := lms_refines p s x1 d1 hlen hu hw hxd1
  rw [r1] at h1
  injection h1 with h1; injection h1 with hs1 h1; injection h1 with hy1 he1
  subst hs1 hy1 he1
  obtain ⟨a2, b2, c2, r2, l2, w2, u2, tw2, tu2, ty2, te2⟩ := lms_refines p a1 x2 d2 hlen u1 w1 hxd2
  rw [r2] at h2
  injection h2 with h2; injection h2 with hs2 h2; injection h2 with hy2 he2
  subst hs2 hy2 he2
  obtain ⟨a3, b3, c3, r3, l3, w3, u3, tw3, tu3, ty3, te3⟩ :=
    lms_refines p s (x1 ++ x2) (d1 ++ d2) hlen hu hw (by simp [hxd1, hxd2])
  have hzip : (x1 ++ x2).toList.zip (d1 ++ d2).toList = x1.toList.zip d1.toList ++ x2.toList.zip d2.toList := by
    simp only [Array.toList_append]
    exact List.zip_append (by simpa using hxd1)
  have hc : (⟨a1.w.toList, a1.u.toList⟩ : CState τ) = (runC p s.locked ⟨s.w.toList, s.u.toList⟩ (x1.toList.zip d1.toList)).1 := by
    rw [tw1, tu1]
  rw [l1] at tw2 tu2 ty2 te2
  rw [hzip, runC_append, ← hc] at tw3 tu3 ty3 te3
  rw [r3]
  have ea : a3 = a2 := by
    cases a3; cases a2
    simp only [LmsState.mk.injEq]
    simp only at tw3 tu3 l3 l2 tw2 tu2 l1
    refine ⟨?_, ?_, ?_⟩
    · apply Array.toList_inj.mp; rw [tu3, tu2]
    · apply Array.toList_inj.mp; rw [tw3, tw2]
    · rw [l3, l2, l1]
  have eb : b3 = b1 ++ b2 := by
    apply Array.toList_inj.mp; rw [ty3, Array.toList_append, ty1, ty2]
  have ec : c3 = c1 ++ c2 := by
    apply Array.toList_inj.mp; rw [te3, Array.toList_append, te1, te2]
  rw [ea, eb, ec]

end framing

/-! ### RLS output as a sum; non-vacuity -/
section rlsfir
open Finset

/-- **T12.2 (RLS, FIR form over ℝ).**  `y = Σ_i coeffs()[i] · u[i]` with `u[0]` the current input and `u[i]` the input
`i` samples earlier (`shiftIn_zero`, `shiftIn_succ`). -/
theorem rls_dot_real (n : Nat) (w u : Array ℝ) :
    dot (ρ := ℝ) n w u = ∑ i ∈ range n, w.getD i 0 * u.getD i 0 := by
  unfold dot rd
  rw [zero_real, acc_eq_sum]

/-- **T12.2 (RLS, FIR form for complex data)**: no conjugation of the coefficients (as the code does). -/
theorem rls_dot_complex (n : Nat) (w u : Array (Cx ℝ)) :
    Cx.toC (dot (ρ := ℝ) n w u)
      = ∑ i ∈ range n, Cx.toC (w.getD i (Mixed.zero ℝ)) * Cx.toC (u.getD i (Mixed.zero ℝ)) := by
  unfold dot rd
  rw [toC_acc]
  simp only [Cx.toC_mul]

end rlsfir

section nonvacuity
variable {ρ τ : Type} [Add ρ] [Div ρ] [Fn ρ] [Add τ] [Sub τ] [Mul τ] [Div τ] [Mixed ρ τ]

/-- the constructor establishes the size invariant that `lms_refines` assumes and preserves: the hypotheses of the
LMS theorems hold in every reachable state -/
theorem lmsInit_sizes (p : LmsP ρ) :
    (lmsInit p : LmsState τ).u.size = p.len - 1 ∧ (lmsInit p : LmsState τ).w.size = p.len ∧
      (lmsInit p : LmsState τ).locked = false := by
  simp [lmsInit]

/-- a concrete NLMS filter of length 3 -/
noncomputable def exP : LmsP ℝ := ⟨3, 1 / 2, true, 1⟩

/-- non-vacuity of `lms_refines` / `lms_error_exact`: `exP` on a 2-sample frame from the constructor state -/
example : ∃ (s' : LmsState ℝ) (y e : Array ℝ),
    lmsProcess exP (lmsInit exP : LmsState ℝ) (#[1, 2] : Array ℝ) (#[3, 4] : Array ℝ) = .ok (s', y, e) ∧
    e.toList = List.zipWith (fun dk yk => dk - yk) [3, 4] y.toList := by
  obtain ⟨s', y, e, h, _⟩ := lms_refines exP (lmsInit exP : LmsState ℝ)
    (#[1, 2] : Array ℝ) (#[3, 4] : Array ℝ) (by simp [exP]) (by simp [lmsInit, exP]) (by simp [lmsInit, exP]) (by simp)
  refine ⟨s', y, e, h, ?_⟩
  have := lms_error_exact _ _ _ _ _ _ _ (by simp [exP]) (by simp [lmsInit, exP]) (by simp [lmsInit, exP]) h
  simpa using this

/-- non-vacuity of T12.3: `w = 0`, system `[1, 2]`, regressor `[1, 1]`, `μ = 1` -/
example : mis (updC (⟨2, 1, true, 1⟩ : LmsP ℝ) [0, 0] [1, 1] (outC ℝ [1, 2] [1, 1] - outC ℝ [0, 0] [1, 1])) [1, 2]
    ≤ mis [0, 0] [1, 2] :=
  nlms_misalignment_le _ rfl rfl (by norm_num) (by norm_num) _ _ _ rfl rfl

/-- the noise-free hypothesis of `nlms_process_misalignment_le` is satisfiable for every input frame -/
example (ws h : List ℝ) (x : Array ℝ) : ∃ d : Array ℝ, d.toList = desiredC ℝ ws h x.toList :=
  ⟨(desiredC ℝ ws h x.toList).toArray, by simp⟩

/-- non-vacuity of `rls_step_update` / `rls_locked`: both lock states are reachable (`setLock`) from the constructor -/
example (P : RlsP ℝ) (dl : ℝ) : ((rlsInit P dl : RlsState ℝ).setLock true).locked = true ∧
    (rlsInit P dl : RlsState ℝ).locked = false := by
  simp [rlsInit, RlsState.setLock]

end nonvacuity

end Dsp.C12
