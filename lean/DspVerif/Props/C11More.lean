import DspVerif.Props.C11
/-!
# C11 (continued) — the Kaiser window lies in [0, 1]

`Props/C11.lean` proves the lower bound (`kaiser_range_partial`) and leaves `≤ 1` to the ORACLE, because
numerator `I₀ᵗ(β√(1−r²))` and denominator `I₀ᵗ(β)` are partial sums of the I₀ series whose lengths are decided
by the data-dependent stopping rule `term < r * eps` of `_besseli0`.  This file settles the clause in the
exact-ℝ model, with no extra hypothesis (every `nw`, every `beta`, and in fact every value of `eps`):

* the quotient `term_k / r_k` (last term over running sum) after `k` iterations is non-decreasing in `q = (x/2)²`,
  because `r_k / term_k = ∑_{j ≤ k} q^{j-k} (k!/j!)²` is a sum of non-increasing functions of `q`;
  hence the stopping index is monotone in `|x|`: if the loop for the larger argument stops at `k`, the loop for
  the smaller one stops at `k` or earlier (`besselLoop_mono`, carried as the invariant `t₁ * r₂ ≤ t₂ * r₁`);
* all terms are non-negative and monotone in `q`, so a shorter sum at a smaller argument is ≤ a longer sum at a
  larger one: `besseli0_mono : |x₁| ≤ |x₂| → besseli0 x₁ ≤ besseli0 x₂`;
* `1 ≤ besseli0 x` (`besseli0_ge_one`), so the `abs` and the division in `kaiser` are harmless, and
  `|β √(1 − ξ)| ≤ |β|` since `0 ≤ ξ`.

| clause of the property | theorems |
|---|---|
| Kaiser window values in [0, 1] (∀ nw, ∀ beta) | `kaiser_range`, per point `kaiserF_range` |
| stopping rule of `_besseli0` monotone | `besselLoop_mono`, `besseli0_mono`, `besseli0_ge_one` |
-/
set_option linter.unusedSectionVars false
namespace Dsp.C11
open Dsp Dsp.Window

section kaiserRange
open Real

/-- one iteration of the loop of `_besseli0` over ℝ:
`term *= q / (k * k); r += term; if (term < r * eps()) break;` -/
theorem besselLoop_succ (q : ℝ) (fuel k : ℕ) (t r : ℝ) :
    besselLoop q (fuel + 1) k t r =
      if t * (q / ((k : ℝ) * (k : ℝ))) < (r + t * (q / ((k : ℝ) * (k : ℝ)))) * eps
      then r + t * (q / ((k : ℝ) * (k : ℝ)))
      else besselLoop q fuel (k + 1) (t * (q / ((k : ℝ) * (k : ℝ)))) (r + t * (q / ((k : ℝ) * (k : ℝ)))) := rfl

/-- helper: the multiplier `q / (k * k)` of the term update is non-negative for `q ≥ 0` (also for `k = 0`) -/
theorem besselStep_nonneg (q : ℝ) (hq : 0 ≤ q) (k : ℕ) : 0 ≤ q / ((k : ℝ) * (k : ℝ)) :=
  div_nonneg hq (mul_self_nonneg _)

/-- the running sum never decreases: started with a non-negative term and `q ≥ 0`, the loop returns at least
the sum it was started on (every `eps`, every fuel) -/
theorem besselLoop_ge (q : ℝ) (hq : 0 ≤ q) (fuel : ℕ) : ∀ (k : ℕ) (t r : ℝ), 0 ≤ t →
    r ≤ besselLoop q fuel k t r := by
  induction fuel with
  | zero => intro k t r _; exact le_refl _
  | succ f ih =>
    intro k t r ht
    rw [besselLoop_succ]
    have hc := besselStep_nonneg q hq k
    have ht' : 0 ≤ t * (q / ((k : ℝ) * (k : ℝ))) := mul_nonneg ht hc
    split
    · linarith
    · have := ih (k + 1) _ (r + t * (q / ((k : ℝ) * (k : ℝ)))) ht'
      linarith

/-- MONOTONICITY OF THE TRUNCATED SERIES INCLUDING ITS STOPPING RULE.  Two runs of the loop of `_besseli0`, at
`0 ≤ q₁ ≤ q₂`, from the same iteration `k` with the same fuel, with terms `0 ≤ t₁ ≤ t₂`, running sums
`0 < r₁ ≤ r₂` and `t₁ / r₁ ≤ t₂ / r₂` (written without division): the run at `q₁` returns no more than the run
at `q₂`.  The invariant `t₁ * r₂ ≤ t₂ * r₁` is what makes the stopping index monotone: whenever the `q₂` run
breaks (`t₂ < r₂ * eps`), the `q₁` run breaks in the same iteration at the latest. -/
theorem besselLoop_mono (q₁ q₂ : ℝ) (hq₁ : 0 ≤ q₁) (hq : q₁ ≤ q₂) (fuel : ℕ) :
    ∀ (k : ℕ) (t₁ t₂ r₁ r₂ : ℝ), 0 ≤ t₁ → t₁ ≤ t₂ → 0 < r₁ → r₁ ≤ r₂ → t₁ * r₂ ≤ t₂ * r₁ →
      besselLoop q₁ fuel k t₁ r₁ ≤ besselLoop q₂ fuel k t₂ r₂ := by
  induction fuel with
  | zero => intro k t₁ t₂ r₁ r₂ _ _ _ hr _; exact hr
  | succ f ih =>
    intro k t₁ t₂ r₁ r₂ ht₁ ht hr₁ hr hinv
    have hq₂ : 0 ≤ q₂ := le_trans hq₁ hq
    have ht₂ : 0 ≤ t₂ := le_trans ht₁ ht
    have hr₂ : 0 < r₂ := lt_of_lt_of_le hr₁ hr
    rw [besselLoop_succ, besselLoop_succ]
    have hd : (0 : ℝ) ≤ (k : ℝ) * (k : ℝ) := mul_self_nonneg _
    have hc₁ := besselStep_nonneg q₁ hq₁ k
    have hc₂ := besselStep_nonneg q₂ hq₂ k
    have hc : q₁ / ((k : ℝ) * (k : ℝ)) ≤ q₂ / ((k : ℝ) * (k : ℝ)) := div_le_div_of_nonneg_right hq hd
    generalize q₁ / ((k : ℝ) * (k : ℝ)) = c₁ at hc₁ hc ⊢
    generalize q₂ / ((k : ℝ) * (k : ℝ)) = c₂ at hc₂ hc ⊢
    -- the updated state
    have hu₁ : 0 ≤ t₁ * c₁ := mul_nonneg ht₁ hc₁
    have hu₂ : 0 ≤ t₂ * c₂ := mul_nonneg ht₂ hc₂
    have hu : t₁ * c₁ ≤ t₂ * c₂ := mul_le_mul ht hc hc₁ ht₂
    have hs₁ : 0 < r₁ + t₁ * c₁ := by linarith
    have hs : r₁ + t₁ * c₁ ≤ r₂ + t₂ * c₂ := by linarith
    have hs₂ : 0 < r₂ + t₂ * c₂ := lt_of_lt_of_le hs₁ hs
    -- the ratio invariant survives the update
    have hinv' : t₁ * c₁ * (r₂ + t₂ * c₂) ≤ t₂ * c₂ * (r₁ + t₁ * c₁) := by
      have h1 : t₁ * r₂ * c₁ ≤ t₂ * r₁ * c₁ := mul_le_mul_of_nonneg_right hinv hc₁
      have h2 : t₂ * r₁ * c₁ ≤ t₂ * r₁ * c₂ :=
        mul_le_mul_of_nonneg_left hc (mul_nonneg ht₂ hr₁.le)
      nlinarith
    by_cases hb₂ : t₂ * c₂ < (r₂ + t₂ * c₂) * eps
    · -- the run at `q₂` breaks: so does the run at `q₁`
      have hb₁ : t₁ * c₁ < (r₁ + t₁ * c₁) * eps := by
        by_contra hcon
        have hcon := not_lt.mp hcon
        have h1 : (r₁ + t₁ * c₁) * eps * (r₂ + t₂ * c₂) ≤ t₁ * c₁ * (r₂ + t₂ * c₂) :=
          mul_le_mul_of_nonneg_right hcon hs₂.le
        have h2 : t₂ * c₂ * (r₁ + t₁ * c₁) < (r₂ + t₂ * c₂) * eps * (r₁ + t₁ * c₁) :=
          mul_lt_mul_of_pos_right hb₂ hs₁
        nlinarith
      rw [if_pos hb₁, if_pos hb₂]; exact hs
    · rw [if_neg hb₂]
      by_cases hb₁ : t₁ * c₁ < (r₁ + t₁ * c₁) * eps
      · -- only the run at `q₁` breaks: the other one keeps adding non-negative terms
        rw [if_pos hb₁]
        exact le_trans hs (besselLoop_ge q₂ hq₂ f (k + 1) _ _ hu₂)
      · rw [if_neg hb₁]
        exact ih (k + 1) _ _ _ _ hu₁ hu hs₁ hs hinv'

/-- `_besseli0(x) ≥ 1` for every `x` (the series starts at 1 and all its terms are squares) -/
theorem besseli0_ge_one (x : ℝ) : 1 ≤ besseli0 x := by
  unfold besseli0
  simp only [fn_ofNat, Nat.cast_one]
  exact besselLoop_ge _ (mul_self_nonneg _) 999 1 1 1 zero_le_one

/-- `_besseli0` — the series AS TRUNCATED BY THE CODE'S STOPPING RULE — is monotone in `|x|` -/
theorem besseli0_mono (x₁ x₂ : ℝ) (h : |x₁| ≤ |x₂|) : besseli0 x₁ ≤ besseli0 x₂ := by
  unfold besseli0
  simp only [fn_ofNat, Nat.cast_one]
  apply besselLoop_mono _ _ (mul_self_nonneg _) _ 999 1 1 1 1 1 zero_le_one (le_refl _) zero_lt_one (le_refl _)
    (le_refl _)
  have h2 : |x₁ / ((2 : ℕ) : ℝ)| ≤ |x₂ / ((2 : ℕ) : ℝ)| := by
    rw [abs_div, abs_div]
    exact div_le_div_of_nonneg_right h (abs_nonneg _)
  exact abs_le_iff_mul_self_le.mp h2

/-- helper: scaling by a square root of something `≤ 1` does not increase the absolute value -/
theorem abs_mul_sqrt_le (beta y : ℝ) (hy : y ≤ 1) : |beta * Real.sqrt y| ≤ |beta| := by
  rw [abs_mul, abs_of_nonneg (Real.sqrt_nonneg y)]
  have : Real.sqrt y ≤ 1 := by
    rw [show (1 : ℝ) = Real.sqrt 1 from Real.sqrt_one.symm]
    exact Real.sqrt_le_sqrt hy
  calc |beta| * Real.sqrt y ≤ |beta| * 1 := mul_le_mul_of_nonneg_left this (abs_nonneg _)
    _ = |beta| := mul_one _

/-- the Kaiser quotient for an argument scaled by `√y`, `y ≤ 1`: in [0, 1] -/
theorem kaiserQuot_range (beta y : ℝ) (hy : y ≤ 1) :
    0 ≤ abs (besseli0 (beta * Real.sqrt y) / abs (besseli0 beta)) ∧
      abs (besseli0 (beta * Real.sqrt y) / abs (besseli0 beta)) ≤ 1 := by
  refine ⟨abs_nonneg _, ?_⟩
  have hb := besseli0_ge_one beta
  have hn := besseli0_ge_one (beta * Real.sqrt y)
  have hm := besseli0_mono _ _ (abs_mul_sqrt_le beta y hy)
  rw [abs_of_pos (by linarith : 0 < besseli0 beta),
    abs_of_nonneg (div_nonneg (by linarith) (by linarith)), div_le_one (by linarith)]
  exact hm

/-- T11.3 per point, textbook index: `kaiserF beta N k ∈ [0, 1]` for EVERY `beta`, `N`, `k` (also `k ≥ N`, where
the square root is taken of a negative number and is 0, and `N = 1`, where the model divides by `N − 1 = 0`) -/
theorem kaiserF_range (beta : ℝ) (N k : ℕ) : 0 ≤ kaiserF beta N k ∧ kaiserF beta N k ≤ 1 := by
  unfold kaiserF
  apply kaiserQuot_range
  have := sq_nonneg (2 * (k : ℝ) / ((N : ℝ) - 1) - 1)
  linarith

/-- T11.3 for Kaiser, FULL: every value of `kaiser(nw, beta)` lies in [0, 1] — every length `nw` (in particular
every `nw ≥ 3`), every `beta` (no sign or size restriction), in the exact-ℝ model with the code's own stopping
rule and iteration cap; no hypothesis on `eps` is used -/
theorem kaiser_range (beta : ℝ) (nw : ℕ) : ∀ x ∈ (kaiser nw beta : List ℝ), 0 ≤ x ∧ x ≤ 1 := by
  intro x hx
  unfold kaiser at hx
  have hx' : x ∈ kaiserHalf nw beta := by
    rcases List.mem_append.mp hx with h | h
    · exact List.mem_of_mem_drop (List.mem_reverse.mp h)
    · exact h
  unfold kaiserHalf at hx'
  obtain ⟨i, _, rfl⟩ := List.mem_map.mp hx'
  simp only [fn_abs, fn_sqrt, fn_ofNat]
  apply kaiserQuot_range
  have h1 : (0 : ℝ) ≤ (((4 : ℕ) : ℝ) * (((i : ℝ) + 0.5 * ((1 - nw % 2 : ℕ) : ℝ)) * ((i : ℝ) + 0.5 * ((1 - nw % 2 : ℕ) : ℝ)))) /
      (((nw - 1 : ℕ) : ℝ) * ((nw - 1 : ℕ) : ℝ)) :=
    div_nonneg (mul_nonneg (Nat.cast_nonneg _) (mul_self_nonneg _)) (mul_self_nonneg _)
  linarith

/-- the same through the closed form of `Props/C11`: point `k` of the window of length `nw ≥ 3` -/
theorem kaiser_get_range (beta : ℝ) (nw : ℕ) (hn : 3 ≤ nw) (k : ℕ) (hk : k < nw) :
    ∃ x, (kaiser nw beta : List ℝ)[k]? = some x ∧ 0 ≤ x ∧ x ≤ 1 :=
  ⟨_, kaiser_closed_form beta nw hn k hk, kaiserF_range beta nw k⟩

end kaiserRange

section examples
open Real

/-- non-vacuity of `kaiser_range`: the window of 3 points at `beta = 5` has 3 points (so the ∀ ranges over a
non-empty list), and its centre point is exactly 1 (numerator and denominator are the same truncated series:
the upper bound is attained) -/
example : (kaiser 3 (5 : ℝ)).length = 3 ∧ (kaiser 3 (5 : ℝ))[1]? = some 1 ∧
    ∀ x ∈ (kaiser 3 (5 : ℝ)), 0 ≤ x ∧ x ≤ 1 := by
  refine ⟨kaiser_length _ _, ?_, kaiser_range 5 3⟩
  rw [kaiser_closed_form 5 3 (le_refl _) 1 (by norm_num)]
  unfold kaiserF
  have hb := besseli0_ge_one 5
  have e : (5 : ℝ) * Real.sqrt (1 - (2 * ((1 : ℕ) : ℝ) / (((3 : ℕ) : ℝ) - 1) - 1) ^ 2) = 5 := by norm_num
  rw [e, abs_of_pos (by linarith : 0 < besseli0 (5 : ℝ)), div_self (by linarith), abs_one]

/-- non-vacuity of `besselLoop_mono`'s breaking branch: at `q = 0` the loop breaks in its first iteration
(`0 < 1 * eps`), so `_besseli0(0) = 1`; with `besseli0_mono` every other value is at least that -/
example : besseli0 (0 : ℝ) = 1 ∧ ∀ x : ℝ, besseli0 (0 : ℝ) ≤ besseli0 x := by
  refine ⟨?_, fun x => besseli0_mono 0 x (by simp)⟩
  unfold besseli0
  simp only [fn_ofNat]
  rw [besselLoop_succ]
  simp [eps]

end examples

end Dsp.C11
