import DspVerif.Model.Dynamics
import DspVerif.Lib.RealFn
import Mathlib.Tactic.Linarith
import Mathlib.Tactic.Positivity
import Mathlib.Tactic.NormNum
import Mathlib.Tactic.Ring
import Mathlib.Tactic.FieldSimp
import Mathlib.Tactic.SplitIfs
import Mathlib.Topology.MetricSpace.Lipschitz
/-!
# C20 — Dynamics processors never amplify, follow their static curves, and settle

All statements are over `ℝ` (no rounding), about

* the GENERATED gain computers `Gen.compressorGain` / `Gen.limiterGain`, `Gen.mag2db`, `Gen.db2mag`
  (`Gen/Dynamics.lean`, regenerated from the C++ AST on every run), and
* the hand-written loops of `Model/Dynamics.lean` (`Comp.step`, `Lim.step`, `processWith`, `Gate.*`, `Agc.*`)
  that call them (tied to the code by the correspondence run).

Parameter hypotheses are exactly what the constructors admit (`1 ≤ R`, `0 ≤ W`, `0 ≤ t`) plus `0 < fs`
(the constructors do not check the sample rate; the property quantifies over 8 kHz … 192 kHz).
No division by a possibly vanishing quantity is used: the knee formula divides by `2·W` only inside the
branch `T - W/2 < xdb < T + W/2`, which forces `0 < W`; `1 / R` is used under `1 ≤ R`.
-/
namespace Dsp.C20
open Dsp Dsp.Dynamics

noncomputable section

/-! ## dB ↔ linear at `ℝ` -/

theorem eps_pos : (0 : ℝ) < (eps : ℝ) := by
  simp only [eps, fn_ofNat]; positivity

theorem log10_pos : (0 : ℝ) < Real.log 10 := Real.log_pos (by norm_num)

theorem mag2db_real (v : ℝ) : Gen.mag2db v = 20 * (Real.log v / Real.log 10) := by
  simp [Gen.mag2db]

theorem db2mag_real (g : ℝ) : Gen.db2mag g = (10 : ℝ) ^ (g / 20) := by
  simp [Gen.db2mag]

theorem db2mag_pos (g : ℝ) : 0 < Gen.db2mag g := by
  rw [db2mag_real]; exact Real.rpow_pos_of_pos (by norm_num) _

/-- **the abstraction of DESIGN §6 C20**: `db2mag g ∈ (0, 1] ↔ g ≤ 0` -/
theorem db2mag_le_one_iff (g : ℝ) : Gen.db2mag g ≤ 1 ↔ g ≤ 0 := by
  rw [db2mag_real, Real.rpow_le_one_iff_of_pos (by norm_num : (0 : ℝ) < 10)]
  constructor
  · rintro (⟨_, h⟩ | ⟨h, _⟩)
    · linarith
    · norm_num at h
  · intro h; left; exact ⟨by norm_num, by linarith⟩

theorem db2mag_mono {a b : ℝ} (h : a ≤ b) : Gen.db2mag a ≤ Gen.db2mag b := by
  rw [db2mag_real, db2mag_real]
  exact Real.rpow_le_rpow_of_exponent_le (by norm_num) (by linarith)

theorem db2mag_add (a b : ℝ) : Gen.db2mag (a + b) = Gen.db2mag a * Gen.db2mag b := by
  rw [db2mag_real, db2mag_real, db2mag_real, ← Real.rpow_add (by norm_num)]
  congr 1; ring

/-- `db2mag (mag2db v) = v` for `v > 0` -/
theorem db2mag_mag2db {v : ℝ} (hv : 0 < v) : Gen.db2mag (Gen.mag2db v) = v := by
  rw [db2mag_real, mag2db_real, Real.rpow_def_of_pos (by norm_num)]
  have h := log10_pos
  have : Real.log 10 * (20 * (Real.log v / Real.log 10) / 20) = Real.log v := by field_simp
  rw [this, Real.exp_log hv]

/-- `mag2db (db2mag g) = g` -/
theorem mag2db_db2mag (g : ℝ) : Gen.mag2db (Gen.db2mag g) = g := by
  rw [db2mag_real, mag2db_real, Real.log_rpow (by norm_num)]
  have h := log10_pos
  field_simp

/-- level of a product with a linear gain: `mag2db(|x · db2mag g|) = mag2db|x| + g` for `x ≠ 0` -/
theorem mag2db_scaled {x : ℝ} (hx : x ≠ 0) (g : ℝ) :
    Gen.mag2db |x * Gen.db2mag g| = Gen.mag2db |x| + g := by
  have hp := db2mag_pos g
  rw [abs_mul, abs_of_pos hp]
  conv_rhs => rw [← mag2db_db2mag g]
  rw [mag2db_real, mag2db_real, mag2db_real, Real.log_mul (abs_ne_zero.mpr hx) hp.ne']
  ring

/-! ## The documented static characteristic -/

/-- The documented static characteristic (output level as a function of the input level `l`, in dB):
unity below `T - W/2`, the quadratic soft knee on `[T - W/2, T + W/2]`, the straight line of slope `s`
through `(T, T)` above.  `s = 1/ratio` for the compressor, `s = 0` (flat ceiling) for the limiter.
(For `W = 0` the middle branch is met only at `l = T`, where its numerator vanishes.) -/
def curve (T s W l : ℝ) : ℝ :=
  if l < T - W / 2 then l
  else if l ≤ T + W / 2 then l + (s - 1) * (l - T + W / 2) ^ 2 / (2 * W)
  else T + (l - T) * s

/-- the level the gain computers work with: `xdb = mag2db(|x| + eps())` -/
def lvl (x : ℝ) : ℝ := Gen.mag2db (|x| + eps)

theorem curve_below {T s W l : ℝ} (hW : 0 ≤ W) (h : l ≤ T - W / 2) : curve T s W l = l := by
  unfold curve
  split_ifs with h1 h2
  · rfl
  · have : l = T - W / 2 := le_antisymm h (not_lt.mp h1)
    subst this; simp
  · exfalso; linarith

theorem curve_above {T s W l : ℝ} (hW : 0 ≤ W) (h : T + W / 2 ≤ l) : curve T s W l = T + (l - T) * s := by
  unfold curve
  split_ifs with h1 h2
  · exfalso; linarith
  · have hl : l = T + W / 2 := le_antisymm h2 h
    subst hl
    rcases hW.eq_or_lt with h0 | h0
    · subst h0; simp
    · field_simp; ring
  · rfl

theorem curve_knee {T s W l : ℝ} (h1 : T - W / 2 ≤ l) (h2 : l ≤ T + W / 2) :
    curve T s W l = l + (s - 1) * (l - T + W / 2) ^ 2 / (2 * W) := by
  unfold curve
  split_ifs with h
  · have : l = T - W / 2 := le_antisymm (le_of_lt h) h1 |>.symm ▸ rfl
    exfalso; linarith
  · rfl

/-- **T20.2 (static_curve, compressor gain computer).**  The GENERATED `Compressor::_compute_gain`
returns exactly `characteristic(level) − level`, with slope `1/ratio` above the knee. -/
theorem compressorGain_eq (p : Gen.CompressorParams ℝ) (hR : 1 ≤ p.R) (hW : 0 ≤ p.W) (x : ℝ) :
    Gen.compressorGain eps p x = curve p.T (1 / (p.R : ℝ)) p.W (lvl x) - lvl x := by
  have hRr : (1 : ℝ) ≤ (p.R : ℝ) := by exact_mod_cast hR
  have hR0 : (p.R : ℝ) ≠ 0 := by linarith
  unfold Gen.compressorGain lvl
  simp only [fn_ofInt, fn_abs, Int.cast_ofNat, Int.cast_one, Gen.abs2r, ge_iff_le, gt_iff_lt]
  generalize Gen.mag2db (|x| + eps) = l
  split_ifs with h1 h2
  · rw [curve_above hW h1]; field_simp
  · rw [curve_knee h2.1.le h2.2.le]; ring
  · have : l ≤ p.T - p.W / 2 := by
      by_contra hc; exact h2 ⟨lt_of_not_ge hc, lt_of_not_ge h1⟩
    rw [curve_below hW this]

/-- **T20.2 (static_curve, limiter gain computer).**  The GENERATED `Limiter::_compute_gain`
returns exactly `characteristic(level) − level` with a flat ceiling (`s = 0`). -/
theorem limiterGain_eq (p : Gen.LimiterParams ℝ) (hW : 0 ≤ p.W) (x : ℝ) :
    Gen.limiterGain eps p x = curve p.T 0 p.W (lvl x) - lvl x := by
  unfold Gen.limiterGain lvl
  simp only [fn_ofInt, fn_abs, Int.cast_ofNat, Gen.abs2r, ge_iff_le, gt_iff_lt]
  generalize Gen.mag2db (|x| + eps) = l
  split_ifs with h1 h2
  · rw [curve_above hW h1]; ring
  · rw [curve_knee h2.1.le h2.2.le]; ring
  · have : l ≤ p.T - p.W / 2 := by
      by_contra hc; exact h2 ⟨lt_of_not_ge hc, lt_of_not_ge h1⟩
    rw [curve_below hW this]

/-! ## Shape of the characteristic: continuity, monotonicity, slopes -/

/-- the amount the characteristic stays below the diagonal, per unit of `1 - s` -/
def psi (T W l : ℝ) : ℝ :=
  if l < T - W / 2 then 0
  else if l ≤ T + W / 2 then (l - T + W / 2) ^ 2 / (2 * W)
  else l - T

theorem curve_eq_psi (T s W l : ℝ) : curve T s W l = l - (1 - s) * psi T W l := by
  unfold curve psi
  split_ifs <;> ring

/-- region certificate for `psi` (no division left) -/
theorem psi_cert {T W : ℝ} (hW : 0 ≤ W) (l : ℝ) :
    (l ≤ T - W / 2 ∧ psi T W l = 0) ∨
    (T - W / 2 ≤ l ∧ l ≤ T + W / 2 ∧ 0 < W ∧ psi T W l * (2 * W) = (l - T + W / 2) ^ 2) ∨
    (T + W / 2 ≤ l ∧ psi T W l = l - T) := by
  unfold psi
  split_ifs with h1 h2
  · left; exact ⟨h1.le, rfl⟩
  · rcases hW.eq_or_lt with h0 | h0
    · subst h0
      have : l = T := by linarith [not_lt.mp h1]
      subst this
      left; simp
    · right; left
      refine ⟨not_lt.mp h1, h2, h0, ?_⟩
      field_simp
  · right; right; exact ⟨(not_le.mp h2).le, rfl⟩

theorem psi_diff_bounds {T W a b : ℝ} (hW : 0 ≤ W) (hab : a ≤ b) :
    0 ≤ psi T W b - psi T W a ∧ psi T W b - psi T W a ≤ b - a := by
  rcases psi_cert (T := T) hW a with ⟨ha, ea⟩ | ⟨ha1, ha2, hWp, ea⟩ | ⟨ha, ea⟩ <;>
  rcases psi_cert (T := T) hW b with ⟨hb, eb⟩ | ⟨hb1, hb2, hWp', eb⟩ | ⟨hb, eb⟩
  · rw [ea, eb]; constructor <;> linarith
  · -- a below, b in the knee
    have hu0 : 0 ≤ b - T + W / 2 := by linarith
    have hu1 : b - T + W / 2 ≤ W := by linarith
    constructor
    · rw [ea]; nlinarith [sq_nonneg (b - T + W / 2)]
    · rw [ea]; nlinarith [mul_nonneg hu0 (sub_nonneg.mpr hu1)]
  · rw [ea, eb]; constructor <;> linarith
  · -- a in the knee, b below: a = b = T - W/2
    have : a = b := by linarith
    subst this; constructor <;> linarith
  · -- both in the knee
    have hua0 : 0 ≤ a - T + W / 2 := by linarith
    have hub1 : b - T + W / 2 ≤ W := by linarith
    constructor
    · nlinarith [mul_nonneg (sub_nonneg.mpr hab) (add_nonneg hua0 (by linarith : 0 ≤ b - T + W / 2))]
    · nlinarith [mul_nonneg (sub_nonneg.mpr hab) (by linarith : 0 ≤ 2 * W - ((a - T + W / 2) + (b - T + W / 2)))]
  · -- a in the knee, b above
    have hua0 : 0 ≤ a - T + W / 2 := by linarith
    have hua1 : a - T + W / 2 ≤ W := by linarith
    constructor
    · rw [eb]; nlinarith [mul_nonneg hua0 (sub_nonneg.mpr hua1)]
    · rw [eb]; nlinarith [sq_nonneg (a - T + W / 2 - W)]
  · rw [ea, eb]; constructor <;> linarith
  · -- a above, b in the knee: a = b = T + W/2
    have : a = b := by linarith
    subst this; constructor <;> linarith
  · rw [ea, eb]; constructor <;> linarith

/-- **T20.2 (knee_monotone + knee_continuous, quantitative form).**  Between any two levels `a ≤ b` the
characteristic rises by at least `s·(b − a)` and at most `b − a`: it is monotone, never steeper than the
diagonal (so it has no jump — in particular none at the knee edges `T ± W/2`) and never flatter than `s`. -/
theorem curve_diff_bounds {T s W a b : ℝ} (_hs0 : 0 ≤ s) (hs1 : s ≤ 1) (hW : 0 ≤ W) (hab : a ≤ b) :
    s * (b - a) ≤ curve T s W b - curve T s W a ∧ curve T s W b - curve T s W a ≤ b - a := by
  obtain ⟨h0, h1⟩ := psi_diff_bounds (T := T) hW hab
  rw [curve_eq_psi, curve_eq_psi]
  constructor
  · nlinarith [mul_nonneg (sub_nonneg.mpr hs1) (sub_nonneg.mpr h1)]
  · nlinarith [mul_nonneg (sub_nonneg.mpr hs1) h0]

/-- **T20.2 (knee_monotone).** -/
theorem curve_monotone {T s W : ℝ} (hs0 : 0 ≤ s) (hs1 : s ≤ 1) (hW : 0 ≤ W) : Monotone (curve T s W) := by
  intro a b hab
  have := (curve_diff_bounds (T := T) hs0 hs1 hW hab).1
  nlinarith [mul_nonneg hs0 (sub_nonneg.mpr hab)]

/-- the characteristic is 1-Lipschitz -/
theorem curve_lipschitz {T s W : ℝ} (hs0 : 0 ≤ s) (hs1 : s ≤ 1) (hW : 0 ≤ W) :
    LipschitzWith 1 (curve T s W) := by
  apply LipschitzWith.of_dist_le_mul
  intro a b
  simp only [NNReal.coe_one, one_mul, Real.dist_eq]
  rcases le_total a b with hab | hab
  · obtain ⟨h1, h2⟩ := curve_diff_bounds (T := T) hs0 hs1 hW hab
    have h3 : 0 ≤ s * (b - a) := mul_nonneg hs0 (sub_nonneg.mpr hab)
    rw [abs_sub_comm, abs_of_nonneg (by linarith), abs_sub_comm, abs_of_nonneg (by linarith)]
    exact h2
  · obtain ⟨h1, h2⟩ := curve_diff_bounds (T := T) hs0 hs1 hW hab
    have h3 : 0 ≤ s * (a - b) := mul_nonneg hs0 (sub_nonneg.mpr hab)
    rw [abs_of_nonneg (by linarith), abs_of_nonneg (by linarith)]
    exact h2

/-- **T20.2 (knee_continuous).**  The characteristic is continuous on the whole level axis. -/
theorem curve_continuous {T s W : ℝ} (hs0 : 0 ≤ s) (hs1 : s ≤ 1) (hW : 0 ≤ W) : Continuous (curve T s W) :=
  (curve_lipschitz hs0 hs1 hW).continuous

/-- knee edges, explicitly: the knee formula meets the unity line at `T − W/2` … -/
theorem knee_meets_unity {T s W : ℝ} (_hW : 0 < W) :
    (T - W / 2) + (s - 1) * ((T - W / 2) - T + W / 2) ^ 2 / (2 * W) = T - W / 2 := by
  have : (T - W / 2) - T + W / 2 = 0 := by ring
  rw [this]; simp

/-- … and the compression line at `T + W/2` -/
theorem knee_meets_line {T s W : ℝ} (hW : 0 < W) :
    (T + W / 2) + (s - 1) * ((T + W / 2) - T + W / 2) ^ 2 / (2 * W) = T + ((T + W / 2) - T) * s := by
  field_simp; ring

/-- **T20.2 (slope `1/ratio` above the knee).** -/
theorem curve_slope_above {T s W a b : ℝ} (hW : 0 ≤ W) (ha : T + W / 2 ≤ a) (hb : T + W / 2 ≤ b) :
    curve T s W b - curve T s W a = s * (b - a) := by
  rw [curve_above hW ha, curve_above hW hb]; ring

/-- unity below the knee: levels up to `T − W/2` are left alone -/
theorem curve_unity_below {T s W l : ℝ} (hW : 0 ≤ W) (h : l ≤ T - W / 2) : curve T s W l = l :=
  curve_below hW h

theorem psi_nonneg {T W : ℝ} (hW : 0 ≤ W) (l : ℝ) : 0 ≤ psi T W l := by
  rcases psi_cert (T := T) hW l with ⟨_, e⟩ | ⟨_, _, hWp, e⟩ | ⟨h, e⟩
  · rw [e]
  · by_contra hc
    have : psi T W l * (2 * W) < 0 := mul_neg_of_neg_of_pos (not_le.mp hc) (by linarith)
    nlinarith [sq_nonneg (l - T + W / 2)]
  · rw [e]; linarith

/-- the characteristic never lies above the diagonal (no level is raised) -/
theorem curve_le_self {T s W : ℝ} (hs1 : s ≤ 1) (hW : 0 ≤ W) (l : ℝ) : curve T s W l ≤ l := by
  rw [curve_eq_psi]
  nlinarith [mul_nonneg (sub_nonneg.mpr hs1) (psi_nonneg (T := T) hW l)]

/-- flat ceiling: the limiter characteristic never exceeds the threshold -/
theorem curve_limiter_le {T W : ℝ} (hW : 0 ≤ W) (l : ℝ) : curve T 0 W l ≤ T := by
  rw [curve_eq_psi]
  rcases psi_cert (T := T) hW l with ⟨h, e⟩ | ⟨h1, h2, hWp, e⟩ | ⟨h, e⟩
  · rw [e]; linarith
  · nlinarith [sq_nonneg (l - T - W / 2)]
  · rw [e]; linarith

/-! ## Smoothing (T20.4) -/

theorem smooth_real (wA wR gs gc : ℝ) :
    smooth wA wR gs gc = if gc ≤ gs then wA * gs + (1 - wA) * gc else wR * gs + (1 - wR) * gc := by
  simp [smooth]

/-- **T20.4 (smoothing_monotone), exact form.**  One smoothing step multiplies the distance to the target `gc`
by the attack coefficient (target at or below the current gain) or the release coefficient (target above). -/
theorem smooth_sub (wA wR gs gc : ℝ) :
    smooth wA wR gs gc - gc = (if gc ≤ gs then wA else wR) * (gs - gc) := by
  rw [smooth_real]; split_ifs <;> ring

/-- **T20.4 (smoothing_monotone).**  With coefficients in `[0,1]` the smoothed gain moves towards its target:
the distance does not grow and the side (above / below the target) is preserved — no overshoot. -/
theorem smoothing_monotone {wA wR : ℝ} (hA0 : 0 ≤ wA) (hA1 : wA ≤ 1) (hR0 : 0 ≤ wR) (hR1 : wR ≤ 1) (gs gc : ℝ) :
    |smooth wA wR gs gc - gc| ≤ |gs - gc| ∧ 0 ≤ (smooth wA wR gs gc - gc) * (gs - gc) := by
  rw [smooth_sub]
  set w := (if gc ≤ gs then wA else wR) with hw
  have hw0 : 0 ≤ w := by rw [hw]; split_ifs <;> assumption
  have hw1 : w ≤ 1 := by rw [hw]; split_ifs <;> assumption
  constructor
  · rw [abs_mul, abs_of_nonneg hw0]
    exact mul_le_of_le_one_left (abs_nonneg _) hw1
  · nlinarith [mul_nonneg hw0 (mul_self_nonneg (gs - gc))]

/-- the smoothed gain stays between its previous value and the target -/
theorem smooth_between {wA wR : ℝ} (hA0 : 0 ≤ wA) (hA1 : wA ≤ 1) (hR0 : 0 ≤ wR) (hR1 : wR ≤ 1) (gs gc : ℝ) :
    min gs gc ≤ smooth wA wR gs gc ∧ smooth wA wR gs gc ≤ max gs gc := by
  rw [smooth_real]
  split_ifs with h
  · rw [min_eq_right h, max_eq_left h]
    constructor <;> nlinarith [mul_nonneg hA0 (sub_nonneg.mpr h), mul_nonneg (sub_nonneg.mpr hA1) (sub_nonneg.mpr h)]
  · have h' := (not_le.mp h).le
    rw [min_eq_left h', max_eq_right h']
    constructor <;> nlinarith [mul_nonneg hR0 (sub_nonneg.mpr h'), mul_nonneg (sub_nonneg.mpr hR1) (sub_nonneg.mpr h')]

theorem smooth_nonpos {wA wR : ℝ} (hA0 : 0 ≤ wA) (hA1 : wA ≤ 1) (hR0 : 0 ≤ wR) (hR1 : wR ≤ 1) {gs gc : ℝ}
    (hgs : gs ≤ 0) (hgc : gc ≤ 0) : smooth wA wR gs gc ≤ 0 :=
  le_trans (smooth_between hA0 hA1 hR0 hR1 gs gc).2 (max_le hgs hgc)

/-- with zero attack AND release coefficient the smoothed gain IS the computed gain -/
theorem smooth_zero (gs gc : ℝ) : smooth 0 0 gs gc = gc := by
  rw [smooth_real]; split_ifs <;> ring

/-- with zero attack coefficient the smoothed gain never exceeds the computed gain -/
theorem smooth_zero_attack_le {wR : ℝ} (hR0 : 0 ≤ wR) (gs gc : ℝ) : smooth 0 wR gs gc ≤ gc := by
  rw [smooth_real]
  split_ifs with h
  · linarith
  · nlinarith [mul_nonneg hR0 (sub_nonneg.mpr (not_le.mp h).le)]

/-! ### time constants -/

theorem coef_real (fs t : ℝ) :
    coef fs t = if fs * t = 0 then 0 else Real.exp (-(Real.log 9) / (fs * t)) := by
  unfold coef
  simp only [fn_ofNat, fn_exp, fn_log, Nat.cast_zero, Nat.cast_ofNat]
  by_cases h : fs * t = 0
  · rw [if_pos h, if_pos ⟨h.le, h.ge⟩]
  · rw [if_neg h, if_neg (fun hh => h (le_antisymm hh.1 hh.2))]

/-- attack / release time 0 ⇒ coefficient 0 (the C++ evaluates `exp(-inf)`) -/
theorem coef_zero (fs : ℝ) : coef fs 0 = 0 := by
  rw [coef_real]; simp

/-- **T20.4 (time constants).**  `w = exp(−ln 9 / (fs·t))` for a positive time `t` -/
theorem coef_pos_time {fs t : ℝ} (hfs : 0 < fs) (ht : 0 < t) :
    coef fs t = Real.exp (-(Real.log 9) / (fs * t)) := by
  rw [coef_real, if_neg (mul_pos hfs ht).ne']

/-- every admitted time gives a coefficient in `[0, 1)` -/
theorem coef_mem {fs t : ℝ} (hfs : 0 < fs) (ht : 0 ≤ t) : 0 ≤ coef fs t ∧ coef fs t < 1 := by
  rcases ht.eq_or_lt with h | h
  · subst h; rw [coef_zero]; exact ⟨le_refl _, one_pos⟩
  · rw [coef_pos_time hfs h]
    refine ⟨(Real.exp_pos _).le, ?_⟩
    rw [Real.exp_lt_one_iff]
    have h9 : 0 < Real.log 9 := Real.log_pos (by norm_num)
    exact div_neg_of_neg_of_pos (by linarith) (mul_pos hfs h)

/-- **T20.4 (time constants): meaning of the configured time.**  If `fs·t` is a whole number `n ≥ 1` of samples,
`n` smoothing steps shrink the distance to a constant target by exactly the factor 9 — the gain covers the
span from 10 % to 90 % of a step in `t` seconds. -/
theorem coef_pow_samples {fs t : ℝ} (n : ℕ) (hn : 0 < n) (h : (n : ℝ) = fs * t) : coef fs t ^ n = 1 / 9 := by
  have hn' : (0 : ℝ) < n := by exact_mod_cast hn
  rw [coef_real, if_neg (by rw [← h]; exact hn'.ne'), ← h, ← Real.exp_nat_mul]
  have : (n : ℝ) * (-(Real.log 9) / n) = -Real.log 9 := by field_simp
  rw [this, Real.exp_neg, Real.exp_log (by norm_num)]; norm_num

/-- `n` attack steps towards a constant target at or below the current gain -/
theorem smooth_iter_attack {wA wR : ℝ} (hA0 : 0 ≤ wA) {gs gc : ℝ} (h : gc ≤ gs) (n : ℕ) :
    (fun g => smooth wA wR g gc)^[n] gs - gc = wA ^ n * (gs - gc) ∧ gc ≤ (fun g => smooth wA wR g gc)^[n] gs := by
  induction n with
  | zero => simp [h]
  | succ k ih =>
    rw [Function.iterate_succ_apply']
    obtain ⟨e, hk⟩ := ih
    have := smooth_sub wA wR ((fun g => smooth wA wR g gc)^[k] gs) gc
    rw [if_pos hk, e] at this
    refine ⟨by rw [this]; ring, ?_⟩
    have : 0 ≤ smooth wA wR ((fun g => smooth wA wR g gc)^[k] gs) gc - gc := by
      rw [this]; exact mul_nonneg hA0 (mul_nonneg (pow_nonneg hA0 k) (sub_nonneg.mpr h))
    linarith

/-- `n` release steps towards a constant target at or above the current gain -/
theorem smooth_iter_release {wA wR : ℝ} (hR0 : 0 ≤ wR) {gs gc : ℝ} (h : gs ≤ gc) (n : ℕ) :
    (fun g => smooth wA wR g gc)^[n] gs - gc = wR ^ n * (gs - gc) ∧ (fun g => smooth wA wR g gc)^[n] gs ≤ gc := by
  induction n with
  | zero => simp [h]
  | succ k ih =>
    rw [Function.iterate_succ_apply']
    obtain ⟨e, hk⟩ := ih
    set gk := (fun g => smooth wA wR g gc)^[k] gs with hgk
    have hs := smooth_sub wA wR gk gc
    rcases hk.eq_or_lt with heq | hlt
    · -- already on the target: stays there
      have hz : gk - gc = 0 := by linarith
      rw [hz, mul_zero] at hs
      have hz' : wR ^ k * (gs - gc) = 0 := by rw [← e]; exact hz
      refine ⟨by rw [hs, pow_succ, mul_assoc, mul_comm wR, ← mul_assoc, hz', zero_mul], by linarith⟩
    · rw [if_neg (not_le.mpr hlt), e] at hs
      refine ⟨by rw [hs]; ring, ?_⟩
      have : smooth wA wR gk gc - gc ≤ 0 := by
        rw [hs]
        exact mul_nonpos_of_nonneg_of_nonpos hR0 (mul_nonpos_of_nonneg_of_nonpos (pow_nonneg hR0 k) (sub_nonpos.mpr h))
      linarith

/-- **T20.4 (time constants), attack.**  Holding the target at or below the gain for `n = fs·t_attack` samples
reduces the distance to one ninth. -/
theorem attack_time_constant {fs ta wR : ℝ} (hfs : 0 < fs) (hta : 0 ≤ ta) (n : ℕ) (hn : 0 < n) (h : (n : ℝ) = fs * ta)
    {gs gc : ℝ} (hg : gc ≤ gs) :
    (fun g => smooth (coef fs ta) wR g gc)^[n] gs - gc = (gs - gc) / 9 := by
  rw [(smooth_iter_attack (coef_mem hfs hta).1 hg n).1, coef_pow_samples n hn h]; ring

/-- **T20.4 (time constants), release.** -/
theorem release_time_constant {fs tr wA : ℝ} (hfs : 0 < fs) (htr : 0 ≤ tr) (n : ℕ) (hn : 0 < n) (h : (n : ℝ) = fs * tr)
    {gs gc : ℝ} (hg : gs ≤ gc) :
    (fun g => smooth wA (coef fs tr) g gc)^[n] gs - gc = (gs - gc) / 9 := by
  rw [(smooth_iter_release (coef_mem hfs htr).1 hg n).1, coef_pow_samples n hn h]; ring

/-! ## The sample loops: a generic invariant rule

`processWith`, `Gate.process`, `Agc.processR/C` are all "fold the step over the input, push gain and out". -/

theorem foldPush_inv {σ X A B : Type} (f : σ → X → σ × A × B) (I : σ → Prop) (P : X → A → B → Prop)
    (hstep : ∀ s x, I s → I (f s x).1 ∧ P x (f s x).2.1 (f s x).2.2) (s : σ) (hs : I s) (x : Array X) (c1 c2 : Nat) :
    let r := x.foldl (fun (acc : σ × Array A × Array B) xi =>
      ((f acc.1 xi).1, acc.2.1.push (f acc.1 xi).2.1, acc.2.2.push (f acc.1 xi).2.2)) (s, Array.mkEmpty c1, Array.mkEmpty c2)
    I r.1 ∧ ∃ (h1 : r.2.1.size = x.size) (h2 : r.2.2.size = x.size),
      ∀ i (hi : i < x.size), P x[i] (r.2.1[i]) (r.2.2[i]) := by
  intro r
  have key := Array.foldl_induction (as := x)
    (motive := fun i (acc : σ × Array A × Array B) => I acc.1 ∧ ∃ (h1 : acc.2.1.size = i) (h2 : acc.2.2.size = i),
      ∀ j (hj : j < i) (hjx : j < x.size), P x[j] (acc.2.1[j]) (acc.2.2[j]))
    (init := (s, Array.mkEmpty c1, Array.mkEmpty c2))
    (f := fun (acc : σ × Array A × Array B) xi =>
      ((f acc.1 xi).1, acc.2.1.push (f acc.1 xi).2.1, acc.2.2.push (f acc.1 xi).2.2))
    ⟨hs, by simp, by simp, fun j hj => absurd hj (Nat.not_lt_zero _)⟩
    (by
      rintro ⟨i, hi⟩ ⟨st, ga, oa⟩ ⟨hI, h1, h2, hP⟩
      simp only [Fin.getElem_fin] at hI h1 h2 hP ⊢
      obtain ⟨hI', hP'⟩ := hstep st x[i] hI
      refine ⟨hI', by simp [h1], by simp [h2], ?_⟩
      intro j hj hjx
      rcases Nat.lt_succ_iff_lt_or_eq.mp hj with hlt | heq
      · rw [Array.getElem_push_lt (by omega), Array.getElem_push_lt (by omega)]
        exact hP j hlt hjx
      · subst heq
        have e1 : (ga.push (f st x[j]).2.1)[j]'(by simp [h1]) = (f st x[j]).2.1 := by
          simp [Array.getElem_push, h1]
        have e2 : (oa.push (f st x[j]).2.2)[j]'(by simp [h2]) = (f st x[j]).2.2 := by
          simp [Array.getElem_push, h2]
        rw [e1, e2]; exact hP')
  obtain ⟨hI, h1, h2, hP⟩ := key
  exact ⟨hI, h1, h2, fun i hi => hP i hi hi⟩

/-- `processWith` (the loop of `Compressor::process` / `Limiter::process`): if `I` is preserved by the step and
implies `P x gain out` for the emitted sample, then `I` holds for the final `gs_` and `P` for EVERY sample. -/
theorem processWith_inv (stp : ℝ → ℝ → Step ℝ) (I : ℝ → Prop) (P : ℝ → ℝ → ℝ → Prop)
    (hstep : ∀ g x, I g → I (stp g x).gs ∧ P x (stp g x).gain (stp g x).out) (gs : ℝ) (hgs : I gs) (x : Array ℝ) :
    I (processWith stp gs x).1 ∧
    ∃ (h1 : (processWith stp gs x).2.1.size = x.size) (h2 : (processWith stp gs x).2.2.size = x.size),
      ∀ i (hi : i < x.size), P x[i] ((processWith stp gs x).2.1[i]) ((processWith stp gs x).2.2[i]) :=
  foldPush_inv (fun g xi => ((stp g xi).gs, (stp g xi).gain, (stp g xi).out)) I P hstep gs hgs x x.size x.size

/-! ## Compressor and Limiter: gain range, static curve, ceiling -/

/-- the parameter sets the `Compressor` constructor can produce (for a positive sample rate) -/
structure Comp.Admissible (p : Comp ℝ) : Prop where
  ratio : 1 ≤ p.gp.R
  knee : 0 ≤ p.gp.W
  wA0 : 0 ≤ p.wA
  wA1 : p.wA ≤ 1
  wR0 : 0 ≤ p.wR
  wR1 : p.wR ≤ 1

structure Lim.Admissible (p : Lim ℝ) : Prop where
  knee : 0 ≤ p.gp.W
  wA0 : 0 ≤ p.wA
  wA1 : p.wA ≤ 1
  wR0 : 0 ≤ p.wR
  wR1 : p.wR ≤ 1

/-- every parameter set admitted by `Compressor::Compressor` (sample rate > 0) is `Admissible`,
and the object stores what was passed -/
theorem Comp.init_ok {fs : ℕ} (hfs : 0 < fs) {T W ta tr : ℝ} {R : ℤ} {p : Comp ℝ}
    (h : Comp.init fs T R W ta tr = .ok p) :
    Comp.Admissible p ∧ p.gp.T = T ∧ p.gp.R = R ∧ p.gp.W = W ∧ p.wA = coef (fs : ℝ) ta ∧ p.wR = coef (fs : ℝ) tr ∧
      -50 ≤ T ∧ T ≤ 0 ∧ R ≤ 50 ∧ W ≤ 20 := by
  unfold Comp.init at h
  simp only [fn_ofNat, fn_ofInt] at h
  split_ifs at h with h1 h2 h3 h4 h5
  cases h
  have hfs' : (0 : ℝ) < (fs : ℝ) := by exact_mod_cast hfs
  have cA := coef_mem hfs' (by simpa using h4.1 : (0 : ℝ) ≤ ta)
  have cR := coef_mem hfs' (by simpa using h5.1 : (0 : ℝ) ≤ tr)
  refine ⟨⟨h2.1, by simpa using h3.1, cA.1, cA.2.le, cR.1, cR.2.le⟩, rfl, rfl, rfl, rfl, rfl, ?_, ?_, h2.2, ?_⟩
  · simpa using h1.1
  · simpa using h1.2
  · simpa using h3.2

theorem Lim.init_ok {fs : ℕ} (hfs : 0 < fs) {T W ta tr : ℝ} {p : Lim ℝ}
    (h : Lim.init fs T W ta tr = .ok p) :
    Lim.Admissible p ∧ p.gp.T = T ∧ p.gp.W = W ∧ p.wA = coef (fs : ℝ) ta ∧ p.wR = coef (fs : ℝ) tr ∧
      -50 ≤ T ∧ T ≤ 0 ∧ W ≤ 20 := by
  unfold Lim.init at h
  simp only [fn_ofNat, fn_ofInt] at h
  split_ifs at h with h1 h3 h4 h5
  cases h
  have hfs' : (0 : ℝ) < (fs : ℝ) := by exact_mod_cast hfs
  have cA := coef_mem hfs' (by simpa using h4.1 : (0 : ℝ) ≤ ta)
  have cR := coef_mem hfs' (by simpa using h5.1 : (0 : ℝ) ≤ tr)
  refine ⟨⟨by simpa using h3.1, cA.1, cA.2.le, cR.1, cR.2.le⟩, rfl, rfl, rfl, rfl, ?_, ?_, ?_⟩
  · simpa using h1.1
  · simpa using h1.2
  · simpa using h3.2

/-- the computed gain of the GENERATED compressor gain computer is never positive -/
theorem compressorGain_nonpos (p : Gen.CompressorParams ℝ) (hR : 1 ≤ p.R) (hW : 0 ≤ p.W) (x : ℝ) :
    Gen.compressorGain eps p x ≤ 0 := by
  rw [compressorGain_eq p hR hW]
  have hRr : (1 : ℝ) ≤ (p.R : ℝ) := by exact_mod_cast hR
  have : 1 / (p.R : ℝ) ≤ 1 := by rw [div_le_one (by linarith)]; exact hRr
  linarith [curve_le_self (T := p.T) this hW (lvl x)]

theorem limiterGain_nonpos (p : Gen.LimiterParams ℝ) (hW : 0 ≤ p.W) (x : ℝ) :
    Gen.limiterGain eps p x ≤ 0 := by
  rw [limiterGain_eq p hW]
  linarith [curve_le_self (T := p.T) (zero_le_one) hW (lvl x)]

/-- **T20.1 (gain_range), compressor, one step:** `gs ≤ 0` is preserved and the emitted gain is in `(0, 1]`. -/
theorem Comp.step_gain_range {p : Comp ℝ} (hp : Comp.Admissible p) {gs : ℝ} (hgs : gs ≤ 0) (x : ℝ) :
    (Comp.step p gs x).gs ≤ 0 ∧ 0 < (Comp.step p gs x).gain ∧ (Comp.step p gs x).gain ≤ 1 := by
  have h := smooth_nonpos hp.wA0 hp.wA1 hp.wR0 hp.wR1 hgs (compressorGain_nonpos p.gp hp.ratio hp.knee x)
  exact ⟨h, db2mag_pos _, (db2mag_le_one_iff _).mpr h⟩

theorem Lim.step_gain_range {p : Lim ℝ} (hp : Lim.Admissible p) {gs : ℝ} (hgs : gs ≤ 0) (x : ℝ) :
    (Lim.step p gs x).gs ≤ 0 ∧ 0 < (Lim.step p gs x).gain ∧ (Lim.step p gs x).gain ≤ 1 := by
  have h := smooth_nonpos hp.wA0 hp.wA1 hp.wR0 hp.wR1 hgs (limiterGain_nonpos p.gp hp.knee x)
  exact ⟨h, db2mag_pos _, (db2mag_le_one_iff _).mpr h⟩

/-- **T20.1 (gain_range), Compressor.**  For every admitted parameter set, every input signal and every earlier
history (any reachable `gs_ ≤ 0`, initially `0`): after `process`, `gs_ ≤ 0` again, and EVERY emitted gain lies
in `(0, 1]`, every output sample is `x[i]·gain[i]`, hence `|out[i]| ≤ |x[i]|` — the compressor never amplifies. -/
theorem Comp.gain_range {p : Comp ℝ} (hp : Comp.Admissible p) {gs : ℝ} (hgs : gs ≤ 0) (x : Array ℝ) :
    (processWith (Comp.step p) gs x).1 ≤ 0 ∧
    ∃ (h1 : (processWith (Comp.step p) gs x).2.1.size = x.size) (h2 : (processWith (Comp.step p) gs x).2.2.size = x.size),
      ∀ i (hi : i < x.size),
        0 < (processWith (Comp.step p) gs x).2.1[i] ∧ (processWith (Comp.step p) gs x).2.1[i] ≤ 1 ∧
        (processWith (Comp.step p) gs x).2.2[i] = x[i] * (processWith (Comp.step p) gs x).2.1[i] ∧
        |(processWith (Comp.step p) gs x).2.2[i]| ≤ |x[i]| := by
  refine processWith_inv (Comp.step p) (fun g => g ≤ 0) (fun xi g o => 0 < g ∧ g ≤ 1 ∧ o = xi * g ∧ |o| ≤ |xi|) ?_ gs hgs x
  intro g xi hg
  obtain ⟨h1, h2, h3⟩ := Comp.step_gain_range hp hg xi
  refine ⟨h1, h2, h3, rfl, ?_⟩
  show |xi * (Comp.step p g xi).gain| ≤ |xi|
  rw [abs_mul, abs_of_pos h2]
  exact mul_le_of_le_one_right (abs_nonneg _) h3

/-- **T20.1 (gain_range), Limiter.** -/
theorem Lim.gain_range {p : Lim ℝ} (hp : Lim.Admissible p) {gs : ℝ} (hgs : gs ≤ 0) (x : Array ℝ) :
    (processWith (Lim.step p) gs x).1 ≤ 0 ∧
    ∃ (h1 : (processWith (Lim.step p) gs x).2.1.size = x.size) (h2 : (processWith (Lim.step p) gs x).2.2.size = x.size),
      ∀ i (hi : i < x.size),
        0 < (processWith (Lim.step p) gs x).2.1[i] ∧ (processWith (Lim.step p) gs x).2.1[i] ≤ 1 ∧
        (processWith (Lim.step p) gs x).2.2[i] = x[i] * (processWith (Lim.step p) gs x).2.1[i] ∧
        |(processWith (Lim.step p) gs x).2.2[i]| ≤ |x[i]| := by
  refine processWith_inv (Lim.step p) (fun g => g ≤ 0) (fun xi g o => 0 < g ∧ g ≤ 1 ∧ o = xi * g ∧ |o| ≤ |xi|) ?_ gs hgs x
  intro g xi hg
  obtain ⟨h1, h2, h3⟩ := Lim.step_gain_range hp hg xi
  refine ⟨h1, h2, h3, rfl, ?_⟩
  show |xi * (Lim.step p g xi).gain| ≤ |xi|
  rw [abs_mul, abs_of_pos h2]
  exact mul_le_of_le_one_right (abs_nonneg _) h3

/-- zero attack and release TIMES give zero coefficients (through the real constructor) -/
theorem Comp.init_zero_times {fs : ℕ} {T W : ℝ} {R : ℤ} {p : Comp ℝ}
    (h : Comp.init fs T R W 0 0 = .ok p) : p.wA = 0 ∧ p.wR = 0 := by
  unfold Comp.init at h
  split_ifs at h
  cases h
  exact ⟨coef_zero _, coef_zero _⟩

theorem Lim.init_zero_attack {fs : ℕ} {T W tr : ℝ} {p : Lim ℝ}
    (h : Lim.init fs T W 0 tr = .ok p) : p.wA = 0 := by
  unfold Lim.init at h
  split_ifs at h
  cases h
  exact coef_zero _

/-- **T20.2 (static_curve), Compressor.**  With zero attack and release the processor is memoryless and, for every
non-zero sample and whatever happened before, its output LEVEL is the input level moved by
`characteristic(L) − L`, `L = mag2db(|x| + eps())` being the level the code measures:
unity below `T − W/2`, slope `1/ratio` above `T + W/2`, the quadratic knee in between. -/
theorem Comp.static_curve {p : Comp ℝ} (hp : Comp.Admissible p) (hA : p.wA = 0) (hR : p.wR = 0) (gs : ℝ)
    {x : ℝ} (hx : x ≠ 0) :
    Gen.mag2db |(Comp.step p gs x).out| =
      Gen.mag2db |x| + (curve p.gp.T (1 / (p.gp.R : ℝ)) p.gp.W (lvl x) - lvl x) ∧
    (Comp.step p gs x).gs = curve p.gp.T (1 / (p.gp.R : ℝ)) p.gp.W (lvl x) - lvl x := by
  have e : (Comp.step p gs x).gs = curve p.gp.T (1 / (p.gp.R : ℝ)) p.gp.W (lvl x) - lvl x := by
    show smooth p.wA p.wR gs (Gen.compressorGain eps p.gp x) = _
    rw [hA, hR, smooth_zero, compressorGain_eq p.gp hp.ratio hp.knee]
  refine ⟨?_, e⟩
  show Gen.mag2db |x * Gen.db2mag (Comp.step p gs x).gs| = _
  rw [mag2db_scaled hx, e]

/-- **T20.2 (static_curve), Limiter:** same with the flat ceiling (`s = 0`). -/
theorem Lim.static_curve {p : Lim ℝ} (hp : Lim.Admissible p) (hA : p.wA = 0) (hR : p.wR = 0) (gs : ℝ)
    {x : ℝ} (hx : x ≠ 0) :
    Gen.mag2db |(Lim.step p gs x).out| = Gen.mag2db |x| + (curve p.gp.T 0 p.gp.W (lvl x) - lvl x) ∧
    (Lim.step p gs x).gs = curve p.gp.T 0 p.gp.W (lvl x) - lvl x := by
  have e : (Lim.step p gs x).gs = curve p.gp.T 0 p.gp.W (lvl x) - lvl x := by
    show smooth p.wA p.wR gs (Gen.limiterGain eps p.gp x) = _
    rw [hA, hR, smooth_zero, limiterGain_eq p.gp hp.knee]
  refine ⟨?_, e⟩
  show Gen.mag2db |x * Gen.db2mag (Lim.step p gs x).gs| = _
  rw [mag2db_scaled hx, e]

/-- `|x| ≤ db2mag (lvl x)`: the measured level (with `eps()` added) is never below the true one -/
theorem abs_le_db2mag_lvl (x : ℝ) : |x| ≤ Gen.db2mag (lvl x) := by
  unfold lvl
  rw [db2mag_mag2db (by linarith [abs_nonneg x, eps_pos])]
  linarith [eps_pos]

/-- **T20.3 (limiter_ceiling), one step.**  Zero attack coefficient, any release coefficient in `[0,1]`, any knee,
ANY previous smoothed gain: level + smoothed gain ≤ threshold, and `|out| ≤ db2mag(threshold)`. -/
theorem Lim.step_ceiling {p : Lim ℝ} (hp : Lim.Admissible p) (hA : p.wA = 0) (gs x : ℝ) :
    lvl x + (Lim.step p gs x).gs ≤ p.gp.T ∧ |(Lim.step p gs x).out| ≤ Gen.db2mag p.gp.T := by
  have h1 : (Lim.step p gs x).gs ≤ Gen.limiterGain eps p.gp x := by
    show smooth p.wA p.wR gs _ ≤ _
    rw [hA]; exact smooth_zero_attack_le hp.wR0 _ _
  have h2 : lvl x + (Lim.step p gs x).gs ≤ p.gp.T := by
    rw [limiterGain_eq p.gp hp.knee] at h1
    linarith [curve_limiter_le (T := p.gp.T) hp.knee (lvl x)]
  refine ⟨h2, ?_⟩
  show |x * Gen.db2mag (Lim.step p gs x).gs| ≤ _
  rw [abs_mul, abs_of_pos (db2mag_pos _)]
  calc |x| * Gen.db2mag (Lim.step p gs x).gs
      ≤ Gen.db2mag (lvl x) * Gen.db2mag (Lim.step p gs x).gs :=
        mul_le_mul_of_nonneg_right (abs_le_db2mag_lvl x) (db2mag_pos _).le
    _ = Gen.db2mag (lvl x + (Lim.step p gs x).gs) := (db2mag_add _ _).symm
    _ ≤ Gen.db2mag p.gp.T := db2mag_mono h2

/-- **T20.3 (limiter_ceiling).**  A limiter with zero attack never lets `|out|` exceed its threshold:
for arbitrary signals, arbitrary release time and knee width, and whatever state `gs_` it starts from. -/
theorem Lim.ceiling {p : Lim ℝ} (hp : Lim.Admissible p) (hA : p.wA = 0) (gs : ℝ) (x : Array ℝ) :
    ∃ (_ : (processWith (Lim.step p) gs x).2.1.size = x.size) (h2 : (processWith (Lim.step p) gs x).2.2.size = x.size),
      ∀ i (hi : i < x.size), |(processWith (Lim.step p) gs x).2.2[i]| ≤ Gen.db2mag p.gp.T :=
  (processWith_inv (Lim.step p) (fun _ => True) (fun _ _ o => |o| ≤ Gen.db2mag p.gp.T)
    (fun g xi _ => ⟨trivial, (Lim.step_ceiling hp hA g xi).2⟩) gs trivial x).2

/-- through the real constructor: `Limiter(fs, T, W, attack = 0, release)` -/
theorem Lim.ceiling_of_init {fs : ℕ} (hfs : 0 < fs) {T W tr : ℝ} {p : Lim ℝ} (h : Lim.init fs T W 0 tr = .ok p)
    (gs : ℝ) (x : Array ℝ) :
    ∃ (_ : (processWith (Lim.step p) gs x).2.1.size = x.size) (h2 : (processWith (Lim.step p) gs x).2.2.size = x.size),
      ∀ i (hi : i < x.size), |(processWith (Lim.step p) gs x).2.2[i]| ≤ Gen.db2mag T := by
  have hT : p.gp.T = T := (Lim.init_ok hfs h).2.1
  rw [← hT]
  exact Lim.ceiling (Lim.init_ok hfs h).1 (Lim.init_zero_attack h) gs x

/-- **T20.1 through the real constructor.**  `Compressor(fs, T, R, W, ta, tr)` accepted, `fs > 0` ⇒ never amplifies. -/
theorem Comp.gain_range_of_init {fs : ℕ} (hfs : 0 < fs) {T W ta tr : ℝ} {R : ℤ} {p : Comp ℝ}
    (h : Comp.init fs T R W ta tr = .ok p) (x : Array ℝ) :
    ∃ (h1 : (processWith (Comp.step p) 0 x).2.1.size = x.size) (h2 : (processWith (Comp.step p) 0 x).2.2.size = x.size),
      ∀ i (hi : i < x.size),
        0 < (processWith (Comp.step p) 0 x).2.1[i] ∧ (processWith (Comp.step p) 0 x).2.1[i] ≤ 1 ∧
        (processWith (Comp.step p) 0 x).2.2[i] = x[i] * (processWith (Comp.step p) 0 x).2.1[i] ∧
        |(processWith (Comp.step p) 0 x).2.2[i]| ≤ |x[i]| :=
  (Comp.gain_range (Comp.init_ok hfs h).1 (le_refl 0) x).2

/-- **T20.2 through the real constructor:** `Compressor(fs, T, R, W, 0, 0)` realises the documented curve of
`(T, 1/R, W)` on every non-zero sample, from any state. -/
theorem Comp.static_curve_of_init {fs : ℕ} (hfs : 0 < fs) {T W : ℝ} {R : ℤ} {p : Comp ℝ}
    (h : Comp.init fs T R W 0 0 = .ok p) (gs : ℝ) {x : ℝ} (hx : x ≠ 0) :
    Gen.mag2db |(Comp.step p gs x).out| = Gen.mag2db |x| + (curve T (1 / (R : ℝ)) W (lvl x) - lvl x) := by
  obtain ⟨ha, hT, hR, hW, _⟩ := Comp.init_ok hfs h
  have := (Comp.static_curve ha (Comp.init_zero_times h).1 (Comp.init_zero_times h).2 gs hx).1
  rw [hT, hR, hW] at this
  exact this

/-! ## NoiseGate (T20.1: `lg ∈ [0, 1]`) -/

structure Gate.Admissible (p : Gate ℝ) : Prop where
  wA0 : 0 ≤ p.wA
  wA1 : p.wA ≤ 1
  wR0 : 0 ≤ p.wR
  wR1 : p.wR ≤ 1

theorem Gate.init_ok {fs : ℕ} (hfs : 0 < fs) {T ta tr th : ℝ} {p : Gate ℝ}
    (h : Gate.init fs T ta tr th = .ok p) : Gate.Admissible p := by
  unfold Gate.init at h
  simp only [fn_ofNat, fn_ofInt] at h
  split_ifs at h with h1 h2 h3 h4
  cases h
  have hfs' : (0 : ℝ) < (fs : ℝ) := by exact_mod_cast hfs
  have cA := coef_mem hfs' (by simpa using h2.1 : (0 : ℝ) ≤ ta)
  have cR := coef_mem hfs' (by simpa using h3.1 : (0 : ℝ) ≤ tr)
  exact ⟨cA.1, cA.2.le, cR.1, cR.2.le⟩

theorem Gate.smoothGain_range {p : Gate ℝ} (hp : Gate.Admissible p) {s : GateState ℝ}
    (hs : 0 ≤ s.lg ∧ s.lg ≤ 1) {gc : ℝ} (hgc : 0 ≤ gc ∧ gc ≤ 1) :
    0 ≤ (Gate.smoothGain p s gc).lg ∧ (Gate.smoothGain p s gc).lg ≤ 1 := by
  unfold Gate.smoothGain
  simp only [fn_ofNat, Nat.cast_one]
  split_ifs
  · exact hgc
  · exact hs
  · show 0 ≤ p.wA * s.lg + (1 - p.wA) * gc ∧ p.wA * s.lg + (1 - p.wA) * gc ≤ 1
    constructor
    · nlinarith [mul_nonneg hp.wA0 hs.1, mul_nonneg (sub_nonneg.mpr hp.wA1) hgc.1]
    · nlinarith [mul_nonneg hp.wA0 (sub_nonneg.mpr hs.2), mul_nonneg (sub_nonneg.mpr hp.wA1) (sub_nonneg.mpr hgc.2)]
  · show 0 ≤ p.wR * s.lg + (1 - p.wR) * gc ∧ p.wR * s.lg + (1 - p.wR) * gc ≤ 1
    constructor
    · nlinarith [mul_nonneg hp.wR0 hs.1, mul_nonneg (sub_nonneg.mpr hp.wR1) hgc.1]
    · nlinarith [mul_nonneg hp.wR0 (sub_nonneg.mpr hs.2), mul_nonneg (sub_nonneg.mpr hp.wR1) (sub_nonneg.mpr hgc.2)]

theorem Gate.step_range {p : Gate ℝ} (hp : Gate.Admissible p) {s : GateState ℝ} (hs : 0 ≤ s.lg ∧ s.lg ≤ 1) (x : ℝ) :
    (0 ≤ (Gate.step p s x).1.lg ∧ (Gate.step p s x).1.lg ≤ 1) ∧
    (Gate.step p s x).2.1 = (Gate.step p s x).1.lg ∧ (Gate.step p s x).2.2 = x * (Gate.step p s x).2.1 := by
  refine ⟨?_, rfl, rfl⟩
  unfold Gate.step
  simp only [fn_ofNat, Nat.cast_one, Nat.cast_zero]
  apply Gate.smoothGain_range hp hs
  split_ifs <;> norm_num

/-- **T20.1 (gain_range), NoiseGate.**  For every admitted parameter set, every signal and every earlier history
(any state with `lg_ ∈ [0,1]`, initially `0`): every emitted gain is in `[0, 1]`, `out[i] = x[i]·gain[i]`,
`|out[i]| ≤ |x[i]|`, and `lg_ ∈ [0,1]` again afterwards. -/
theorem Gate.gain_range {p : Gate ℝ} (hp : Gate.Admissible p) {s : GateState ℝ} (hs : 0 ≤ s.lg ∧ s.lg ≤ 1)
    (x : Array ℝ) :
    (0 ≤ (Gate.process p s x).1.lg ∧ (Gate.process p s x).1.lg ≤ 1) ∧
    ∃ (h1 : (Gate.process p s x).2.1.size = x.size) (h2 : (Gate.process p s x).2.2.size = x.size),
      ∀ i (hi : i < x.size),
        0 ≤ (Gate.process p s x).2.1[i] ∧ (Gate.process p s x).2.1[i] ≤ 1 ∧
        (Gate.process p s x).2.2[i] = x[i] * (Gate.process p s x).2.1[i] ∧
        |(Gate.process p s x).2.2[i]| ≤ |x[i]| := by
  refine foldPush_inv (Gate.step p) (fun st => 0 ≤ st.lg ∧ st.lg ≤ 1)
    (fun xi g o => 0 ≤ g ∧ g ≤ 1 ∧ o = xi * g ∧ |o| ≤ |xi|) ?_ s hs x x.size x.size
  intro st xi hst
  obtain ⟨h1, h2, h3⟩ := Gate.step_range hp hst xi
  refine ⟨h1, by rw [h2]; exact h1.1, by rw [h2]; exact h1.2, h3, ?_⟩
  rw [h3, abs_mul, h2, abs_of_nonneg h1.1]
  exact mul_le_of_le_one_right (abs_nonneg _) h1.2

theorem Gate.gain_range_of_init {fs : ℕ} (hfs : 0 < fs) {T ta tr th : ℝ} {p : Gate ℝ}
    (h : Gate.init fs T ta tr th = .ok p) (x : Array ℝ) :
    ∃ (h1 : (Gate.process p Gate.init0 x).2.1.size = x.size) (h2 : (Gate.process p Gate.init0 x).2.2.size = x.size),
      ∀ i (hi : i < x.size),
        0 ≤ (Gate.process p Gate.init0 x).2.1[i] ∧ (Gate.process p Gate.init0 x).2.1[i] ≤ 1 ∧
        (Gate.process p Gate.init0 x).2.2[i] = x[i] * (Gate.process p Gate.init0 x).2.1[i] ∧
        |(Gate.process p Gate.init0 x).2.2[i]| ≤ |x[i]| :=
  (Gate.gain_range (Gate.init_ok hfs h) (s := Gate.init0) (by simp [Gate.init0]) x).2

/-! ## Agc (T20.5) -/

/-- the step size the loop picks (`err > 1` → rise, else fall), written on the raw expression -/
def Agc.stepSize' (p : Agc ℝ) (g P : ℝ) : ℝ := if 1 < p.target - (Real.log P + 2 * g) then p.trise else p.tfall

theorem Agc.gainStep_real (p : Agc ℝ) (g P : ℝ) :
    Agc.gainStep p g P =
      (if p.maxGain < (if 1 < p.target - (Real.log P + 2 * g) then g + p.trise * (p.target - (Real.log P + 2 * g))
                        else g + p.tfall * (p.target - (Real.log P + 2 * g)))
       then p.maxGain
       else (if 1 < p.target - (Real.log P + 2 * g) then g + p.trise * (p.target - (Real.log P + 2 * g))
             else g + p.tfall * (p.target - (Real.log P + 2 * g)))) := by
  simp [Agc.gainStep]

/-- the clamp: the log-gain never exceeds `max_gain` after an update -/
theorem Agc.gainStep_le (p : Agc ℝ) (g P : ℝ) : Agc.gainStep p g P ≤ p.maxGain := by
  rw [Agc.gainStep_real]
  split_ifs <;> first | exact le_refl _ | (apply not_lt.mp; assumption)

/-- the constructor stores `max_gain` so that `exp(maxGain) = 10^(max_gain_dB/20)` -/
theorem Agc.init_maxGain {tl mg tri tfa : ℝ} {n : ℤ} {p : Agc ℝ} {s : AgcState ℝ}
    (h : Agc.init tl mg n tri tfa = .ok (p, s)) :
    Real.exp p.maxGain = Gen.db2mag mg ∧ p.target = Real.log tl ∧ p.trise = tri ∧ p.tfall = tfa ∧ 0 < n := by
  unfold Agc.init at h
  split_ifs at h with hn
  simp only [Except.ok.injEq, Prod.mk.injEq] at h
  obtain ⟨hp, _⟩ := h
  subst hp
  refine ⟨?_, rfl, rfl, rfl, by simpa using hn⟩
  simp only [fn_log, fn_pow, fn_ofNat, Nat.cast_ofNat]
  rw [Real.exp_log (Real.rpow_pos_of_pos (by norm_num) _), db2mag_real]

/-- **T20.5 (gain ≤ max_gain), one sample** -/
theorem Agc.step_gain_le (p : Agc ℝ) (s : AgcState ℝ) (pw : ℝ) :
    0 < (Agc.step p s pw).2 ∧ (Agc.step p s pw).2 ≤ Real.exp p.maxGain ∧ (Agc.step p s pw).1.gain ≤ p.maxGain := by
  refine ⟨Real.exp_pos _, ?_, ?_⟩
  · exact Real.exp_le_exp.mpr (Agc.gainStep_le _ _ _)
  · exact Agc.gainStep_le _ _ _

/-- the power estimate handed to `log`, at `ℝ`: `max(ma, 0) + eps()` -/
theorem Agc.inputPower_real (m : ℝ) : Agc.inputPower m = max m 0 + eps := by
  unfold Agc.inputPower
  simp only [fn_ofNat, Nat.cast_zero]
  split_ifs with h
  · rw [max_eq_left h.le]
  · rw [max_eq_right (not_lt.mp h)]

/-- **T20.5 (the gain stays finite): the argument of `log` is positive, whatever the moving average returns.**
For EVERY value `m` of the moving-average output — positive, zero, or NEGATIVE (the recurrent sum of `MAFilter` may
end a rounding error below zero once a loud signal falls silent; at `ℝ` we do not even assume `m ≥ 0`) — the power
estimate `max(m, 0) + eps()` is at least `eps() = 2^-52 > 0`.  (Before `fix: Agc gain became NaN …` the argument was
`m + eps()`, negative for `m < -eps()`: `log` gave NaN and the gain stayed NaN for good.) -/
theorem Agc.inputPower_pos (m : ℝ) : 0 < Agc.inputPower m ∧ (eps : ℝ) ≤ Agc.inputPower m := by
  rw [Agc.inputPower_real]
  have := le_max_right m 0
  exact ⟨by linarith [eps_pos], by linarith⟩

/-- the estimate never under-reports a non-negative average and is monotone in it -/
theorem Agc.inputPower_ge (m : ℝ) : m + eps ≤ Agc.inputPower m := by
  rw [Agc.inputPower_real]; linarith [le_max_left m 0]

theorem Agc.inputPower_of_nonneg {m : ℝ} (h : 0 ≤ m) : Agc.inputPower m = m + eps := by
  rw [Agc.inputPower_real, max_eq_left h]

/-- **T20.5, one sample, unfolded:** the new log-gain is `gainStep` at a POSITIVE power estimate
(so `Real.log` is evaluated inside its domain on every sample of every signal from every state) -/
theorem Agc.step_log_arg_pos (p : Agc ℝ) (s : AgcState ℝ) (pw : ℝ) :
    (Agc.step p s pw).1.gain = Agc.gainStep p s.gain (Agc.inputPower (MA.step s.ma pw).2) ∧
    (Agc.step p s pw).2 = Real.exp (Agc.step p s pw).1.gain ∧
    0 < Agc.inputPower (MA.step s.ma pw).2 :=
  ⟨rfl, rfl, (Agc.inputPower_pos _).1⟩

/-- **T20.5 (the log-gain is bounded below as well):** one update from log-gain `g` cannot fall below
`g + t·(target − (ln P + 2g))` for the chosen step `t` unless the clamp at `maxGain` acts — i.e. the new log-gain is
`min(maxGain, g + t·err)`, a real number for every positive `P`; together with `inputPower_pos` no sample can
produce a non-finite gain at `ℝ` (`exp` of a real is positive and finite). -/
theorem Agc.gainStep_eq_min (p : Agc ℝ) (g P : ℝ) :
    Agc.gainStep p g P = min p.maxGain (g + Agc.stepSize' p g P * (p.target - (Real.log P + 2 * g))) := by
  rw [Agc.gainStep_real]
  unfold Agc.stepSize'
  split_ifs with h1 h2 h2
  · rw [min_eq_left h2.le]
  · rw [min_eq_right (not_lt.mp h2)]
  · rw [min_eq_left h2.le]
  · rw [min_eq_right (not_lt.mp h2)]

/-- **T20.5 (Agc never exceeds max_gain), real signals.**  For every parameter set, state and signal, every emitted
gain is positive and at most `exp(maxGain)` (`= 10^(max_gain/20)` by `Agc.init_maxGain`), `out[i] = x[i]·gain[i]`.
No hypothesis on the state: in particular the moving-average accumulator may hold ANY real (also one that makes the
power estimate negative) — the bound comes from the clamp alone, and by `Agc.inputPower_pos` the `log` inside is
always taken at a positive argument. -/
theorem Agc.gain_le_max_real (p : Agc ℝ) (s : AgcState ℝ) (x : Array ℝ) :
    ∃ (h1 : (Agc.processR p s x).2.1.size = x.size) (h2 : (Agc.processR p s x).2.2.size = x.size),
      ∀ i (hi : i < x.size),
        0 < (Agc.processR p s x).2.1[i] ∧ (Agc.processR p s x).2.1[i] ≤ Real.exp p.maxGain ∧
        (Agc.processR p s x).2.2[i] = x[i] * (Agc.processR p s x).2.1[i] :=
  (foldPush_inv (fun st (xi : ℝ) => ((Agc.step p st (xi * xi)).1, (Agc.step p st (xi * xi)).2, xi * (Agc.step p st (xi * xi)).2))
    (fun _ => True) (fun xi g o => 0 < g ∧ g ≤ Real.exp p.maxGain ∧ o = xi * g)
    (fun st _ _ => ⟨trivial, (Agc.step_gain_le p st _).1, (Agc.step_gain_le p st _).2.1, rfl⟩) s trivial x x.size x.size).2

/-- **T20.5 (Agc never exceeds max_gain), complex signals.** -/
theorem Agc.gain_le_max_cmplx (p : Agc ℝ) (s : AgcState ℝ) (x : Array (Cx ℝ)) :
    ∃ (h1 : (Agc.processC p s x).2.1.size = x.size) (h2 : (Agc.processC p s x).2.2.size = x.size),
      ∀ i (hi : i < x.size),
        0 < (Agc.processC p s x).2.1[i] ∧ (Agc.processC p s x).2.1[i] ≤ Real.exp p.maxGain ∧
        (Agc.processC p s x).2.2[i] = ⟨x[i].re * (Agc.processC p s x).2.1[i], x[i].im * (Agc.processC p s x).2.1[i]⟩ :=
  (foldPush_inv (fun st (xi : Cx ℝ) => ((Agc.step p st (Cx.abs2 xi)).1, (Agc.step p st (Cx.abs2 xi)).2,
      (⟨xi.re * (Agc.step p st (Cx.abs2 xi)).2, xi.im * (Agc.step p st (Cx.abs2 xi)).2⟩ : Cx ℝ)))
    (fun _ => True) (fun xi g o => 0 < g ∧ g ≤ Real.exp p.maxGain ∧ o = ⟨xi.re * g, xi.im * g⟩)
    (fun st _ _ => ⟨trivial, (Agc.step_gain_le p st _).1, (Agc.step_gain_le p st _).2.1, rfl⟩) s trivial x x.size x.size).2

/-- **T20.5 (every gain is finite), real signals.**  For every parameter set, EVERY state (any accumulator, any
window content, any log-gain) and every signal: each emitted gain is `exp` of a log-gain update `gainStep p g P` taken
at a power estimate `P ≥ eps() > 0` — `log` never sees a non-positive argument, so no sample can produce NaN / ±inf
in exact arithmetic (and at `Float` only through overflow of `|x|²`). -/
theorem Agc.gain_finite_real (p : Agc ℝ) (s : AgcState ℝ) (x : Array ℝ) :
    ∃ (h1 : (Agc.processR p s x).2.1.size = x.size) (_ : (Agc.processR p s x).2.2.size = x.size),
      ∀ i (hi : i < x.size), ∃ g P : ℝ, 0 < P ∧ (eps : ℝ) ≤ P ∧
        (Agc.processR p s x).2.1[i] = Real.exp (Agc.gainStep p g P) :=
  (foldPush_inv (fun st (xi : ℝ) => ((Agc.step p st (xi * xi)).1, (Agc.step p st (xi * xi)).2, xi * (Agc.step p st (xi * xi)).2))
    (fun _ => True) (fun _ g _ => ∃ g0 P : ℝ, 0 < P ∧ (eps : ℝ) ≤ P ∧ g = Real.exp (Agc.gainStep p g0 P))
    (fun st xi _ => ⟨trivial, st.gain, Agc.inputPower (MA.step st.ma (xi * xi)).2,
      (Agc.inputPower_pos _).1, (Agc.inputPower_pos _).2, rfl⟩) s trivial x x.size x.size).2

/-- **T20.5 (every gain is finite), complex signals.** -/
theorem Agc.gain_finite_cmplx (p : Agc ℝ) (s : AgcState ℝ) (x : Array (Cx ℝ)) :
    ∃ (h1 : (Agc.processC p s x).2.1.size = x.size) (_ : (Agc.processC p s x).2.2.size = x.size),
      ∀ i (hi : i < x.size), ∃ g P : ℝ, 0 < P ∧ (eps : ℝ) ≤ P ∧
        (Agc.processC p s x).2.1[i] = Real.exp (Agc.gainStep p g P) :=
  (foldPush_inv (fun st (xi : Cx ℝ) => ((Agc.step p st (Cx.abs2 xi)).1, (Agc.step p st (Cx.abs2 xi)).2,
      (⟨xi.re * (Agc.step p st (Cx.abs2 xi)).2, xi.im * (Agc.step p st (Cx.abs2 xi)).2⟩ : Cx ℝ)))
    (fun _ => True) (fun _ g _ => ∃ g0 P : ℝ, 0 < P ∧ (eps : ℝ) ≤ P ∧ g = Real.exp (Agc.gainStep p g0 P))
    (fun st xi _ => ⟨trivial, st.gain, Agc.inputPower (MA.step st.ma (Cx.abs2 xi)).2,
      (Agc.inputPower_pos _).1, (Agc.inputPower_pos _).2, rfl⟩) s trivial x x.size x.size).2

/-- the loop's error signal: `err = target − (ln(input_power) + 2·gain)` (log-domain level error) -/
def Agc.err (p : Agc ℝ) (g P : ℝ) : ℝ := p.target - (Real.log P + 2 * g)

/-- the step size the loop picks -/
def Agc.stepSize (p : Agc ℝ) (g P : ℝ) : ℝ := if 1 < Agc.err p g P then p.trise else p.tfall

/-- **T20.5 (contraction), one sample.**  Step sizes in `[0, 1/2]`, current log-gain at most `maxGain`, and the
gain REQUIRED for the target, `(target − ln P)/2`, at most `maxGain`: the clamp stays inactive and the level error
is multiplied by `1 − 2t`. -/
theorem Agc.err_step {p : Agc ℝ} (hr0 : 0 ≤ p.trise) (hr1 : p.trise ≤ 1 / 2) (hf0 : 0 ≤ p.tfall) (hf1 : p.tfall ≤ 1 / 2)
    {g P : ℝ} (hg : g ≤ p.maxGain) (hreq : (p.target - Real.log P) / 2 ≤ p.maxGain) :
    Agc.gainStep p g P = g + Agc.stepSize p g P * Agc.err p g P ∧
    Agc.err p (Agc.gainStep p g P) P = (1 - 2 * Agc.stepSize p g P) * Agc.err p g P := by
  have ht0 : 0 ≤ Agc.stepSize p g P := by unfold Agc.stepSize; split_ifs <;> assumption
  have ht1 : Agc.stepSize p g P ≤ 1 / 2 := by unfold Agc.stepSize; split_ifs <;> assumption
  have e : Agc.gainStep p g P = g + Agc.stepSize p g P * Agc.err p g P := by
    rw [Agc.gainStep_real]
    have inner : (if 1 < p.target - (Real.log P + 2 * g) then g + p.trise * (p.target - (Real.log P + 2 * g))
        else g + p.tfall * (p.target - (Real.log P + 2 * g))) = g + Agc.stepSize p g P * Agc.err p g P := by
      unfold Agc.stepSize Agc.err; split_ifs <;> rfl
    rw [inner, if_neg]
    -- g + t·err = (1 − 2t)·g + 2t·g*, a convex combination of g and the required gain g* ≤ maxGain
    have : g + Agc.stepSize p g P * Agc.err p g P =
        (1 - 2 * Agc.stepSize p g P) * g + 2 * Agc.stepSize p g P * ((p.target - Real.log P) / 2) := by
      unfold Agc.err; ring
    rw [this, not_lt]
    nlinarith [mul_nonneg (by linarith : 0 ≤ 1 - 2 * Agc.stepSize p g P) (sub_nonneg.mpr hg),
      mul_nonneg (by linarith : 0 ≤ 2 * Agc.stepSize p g P) (sub_nonneg.mpr hreq)]
  refine ⟨e, ?_⟩
  rw [e]; unfold Agc.err; ring

/-- **T20.5 (contraction).**  For a constant input power `P` (constant-envelope input, filled averaging window) whose
required gain is at most `maxGain`, `n` samples shrink the level error geometrically:
`|err_n| ≤ (1 − 2·min(t_rise, t_fall))^n · |err_0|`; the log-gain stays `≤ maxGain` throughout. -/
theorem Agc.err_iter {p : Agc ℝ} (hr0 : 0 ≤ p.trise) (hr1 : p.trise ≤ 1 / 2) (hf0 : 0 ≤ p.tfall) (hf1 : p.tfall ≤ 1 / 2)
    {P : ℝ} (hreq : (p.target - Real.log P) / 2 ≤ p.maxGain) {g : ℝ} (hg : g ≤ p.maxGain) (n : ℕ) :
    |Agc.err p ((fun g => Agc.gainStep p g P)^[n] g) P| ≤ (1 - 2 * min p.trise p.tfall) ^ n * |Agc.err p g P| ∧
    (fun g => Agc.gainStep p g P)^[n] g ≤ p.maxGain := by
  induction n with
  | zero => simp [hg]
  | succ k ih =>
    rw [Function.iterate_succ_apply']
    obtain ⟨ih1, ih2⟩ := ih
    set gk := (fun g => Agc.gainStep p g P)^[k] g
    refine ⟨?_, Agc.gainStep_le _ _ _⟩
    rw [(Agc.err_step hr0 hr1 hf0 hf1 ih2 hreq).2, abs_mul, pow_succ]
    have ht0 : 0 ≤ Agc.stepSize p gk P := by unfold Agc.stepSize; split_ifs <;> assumption
    have ht1 : Agc.stepSize p gk P ≤ 1 / 2 := by unfold Agc.stepSize; split_ifs <;> assumption
    have hm : min p.trise p.tfall ≤ Agc.stepSize p gk P := by
      unfold Agc.stepSize; split_ifs
      · exact min_le_left _ _
      · exact min_le_right _ _
    have hq0 : 0 ≤ 1 - 2 * Agc.stepSize p gk P := by linarith
    rw [abs_of_nonneg hq0]
    have hq : 1 - 2 * Agc.stepSize p gk P ≤ 1 - 2 * min p.trise p.tfall := by linarith
    have hmin0 : 0 ≤ 1 - 2 * min p.trise p.tfall := le_trans hq0 hq
    calc (1 - 2 * Agc.stepSize p gk P) * |Agc.err p gk P|
        ≤ (1 - 2 * min p.trise p.tfall) * ((1 - 2 * min p.trise p.tfall) ^ k * |Agc.err p g P|) :=
          mul_le_mul hq ih1 (abs_nonneg _) hmin0
      _ = (1 - 2 * min p.trise p.tfall) ^ k * (1 - 2 * min p.trise p.tfall) * |Agc.err p g P| := by ring

/-- what the error means: output power `gain² · P` equals the target level times `exp(−err)` -/
theorem Agc.out_power {p : Agc ℝ} {tl : ℝ} (htl : 0 < tl) (hp : p.target = Real.log tl) {P : ℝ} (hP : 0 < P) (g : ℝ) :
    Real.exp g ^ 2 * P = tl * Real.exp (-(Agc.err p g P)) := by
  unfold Agc.err
  rw [hp]
  have : -(Real.log tl - (Real.log P + 2 * g)) = (g + g) + Real.log P - Real.log tl := by ring
  rw [this, Real.exp_sub, Real.exp_add, Real.exp_add, Real.exp_log hP, Real.exp_log htl]
  field_simp

/-- **T20.5 (target level).**  Once the level error is within `ln 1.01`, the output power is within 1 % of the
target level. (That the `Float` loop gets there is measured by the oracle.) -/
theorem Agc.level_within {p : Agc ℝ} {tl : ℝ} (htl : 0 < tl) (hp : p.target = Real.log tl) {P : ℝ} (hP : 0 < P) {g : ℝ}
    (he : |Agc.err p g P| ≤ Real.log 1.01) :
    0.99 * tl ≤ Real.exp g ^ 2 * P ∧ Real.exp g ^ 2 * P ≤ 1.01 * tl := by
  rw [Agc.out_power htl hp hP]
  obtain ⟨h1, h2⟩ := abs_le.mp he
  have hu : Real.exp (-(Agc.err p g P)) ≤ 1.01 := by
    calc Real.exp (-(Agc.err p g P)) ≤ Real.exp (Real.log 1.01) := Real.exp_le_exp.mpr (by linarith)
      _ = 1.01 := Real.exp_log (by norm_num)
  have hl : (1.01 : ℝ)⁻¹ ≤ Real.exp (-(Agc.err p g P)) := by
    calc (1.01 : ℝ)⁻¹ = Real.exp (-(Real.log 1.01)) := by rw [Real.exp_neg, Real.exp_log (by norm_num)]
      _ ≤ Real.exp (-(Agc.err p g P)) := Real.exp_le_exp.mpr (by linarith)
  have hl' : (0.99 : ℝ) ≤ Real.exp (-(Agc.err p g P)) := le_trans (by norm_num) hl
  constructor <;> nlinarith

/-! ## Moving average: a constant-envelope input gives a constant power estimate -/

theorem MA.sum_const {a : Array ℝ} {c : ℝ} (h : ∀ i (hi : i < a.size), a[i] = c) : MA.sum a = a.size * c := by
  unfold MA.sum
  have := Array.foldl_induction (as := a) (motive := fun i (acc : ℝ) => acc = i * c) (init := (Fn.ofNat 0 : ℝ))
    (f := fun s v => s + v) (by simp)
    (by
      rintro ⟨i, hi⟩ b hb
      simp only [Fin.getElem_fin] at hb ⊢
      rw [hb, h i hi]; push_cast; ring)
  exact this

/-- the window is full of the constant `c` and the running sum is exact -/
structure MA.Steady (m : MA ℝ) (c : ℝ) : Prop where
  size : m.buf.size = m.n
  npos : 0 < m.n
  pos : m.pos < m.n
  all : ∀ i (hi : i < m.buf.size), m.buf[i] = c
  acc : m.accum = m.n * c

/-- **T20.5 (constant-envelope input).**  Once the averaging window holds the constant power `c`, every further
sample of power `c` keeps it so and `MAFilter::process` returns exactly `c` — the `P` of `Agc.err_iter` is constant. -/
theorem MA.step_steady {m : MA ℝ} {c : ℝ} (h : MA.Steady m c) :
    MA.Steady (MA.step m c).1 c ∧ (MA.step m c).2 = c := by
  obtain ⟨hs, hn, hp, hall, hacc⟩ := h
  have hn' : (m.n : ℝ) ≠ 0 := by exact_mod_cast hn.ne'
  have hall' : ∀ i (hi : i < (m.buf.setIfInBounds m.pos c).size), (m.buf.setIfInBounds m.pos c)[i] = c := by
    intro i hi
    rw [Array.getElem_setIfInBounds]
    split_ifs
    · rfl
    · exact hall i (by simpa using hi)
  have hsz : (m.buf.setIfInBounds m.pos c).size = m.n := by simp [hs]
  have hget : m.buf.getD m.pos ((0 : ℕ) : ℝ) = c := by
    have hlt : m.pos < m.buf.size := by omega
    simp [Array.getD, hlt, hall m.pos hlt]
  unfold MA.step
  simp only [fn_ofNat, hget]
  split_ifs with hw
  · refine ⟨⟨hsz, hn, hn, hall', ?_⟩, ?_⟩
    · show MA.sum _ = _
      rw [MA.sum_const hall', hsz]
    · show MA.sum _ / (m.n : ℝ) = c
      rw [MA.sum_const hall', hsz]; field_simp
  · refine ⟨⟨hsz, hn, by show m.pos + 1 < m.n; omega, hall', ?_⟩, ?_⟩
    · show m.accum - c + c = _
      rw [hacc]; ring
    · show (m.accum - c + c) / (m.n : ℝ) = c
      rw [hacc]; field_simp; ring

/-! ## Non-vacuity: the hypotheses at concrete, non-trivial parameter sets -/

/-- the default compressor with a 10 dB knee, zero attack/release -/
example : Comp.Admissible { gp := { T := -10, R := 5, W := 10 }, wA := 0, wR := 0 } := by
  constructor <;> norm_num

/-- the point of the repaired defect (ratio 5, knee 10 dB, threshold −10 dB): at the knee's upper edge, −5 dB in,
the characteristic gives −9 dB from BOTH sides (knee formula and compression line). -/
example : curve (-10) (1 / 5) 10 (-5) = -9 := by
  rw [curve_knee (by norm_num) (by norm_num)]; norm_num

example : curve (-10) (1 / 5) 10 (-5) = -10 + ((-5) - (-10)) * (1 / 5) := by
  rw [curve_above (by norm_num) (by norm_num)]

/-- inside the knee (−10 dB in): `−10 + (1/5 − 1)·5²/20 = −11` -/
example : curve (-10) (1 / 5) 10 (-10) = -11 := by
  rw [curve_knee (by norm_num) (by norm_num)]; norm_num

/-- limiter ceiling, 0 dB in, threshold −6 dB, knee 4 dB -/
example : curve (-6) 0 4 0 = -6 := by
  rw [curve_above (by norm_num) (by norm_num)]; norm_num

/-- 10 ms at 44.1 kHz = 441 samples to cover 10 % … 90 % -/
example : coef (44100 : ℝ) 0.01 ^ 441 = 1 / 9 := coef_pow_samples 441 (by norm_num) (by norm_num)

/-- the repaired defect at a concrete point: a recurrent sum that ended at `-1/1000` (far below `-eps()`) gives the
power estimate `eps()`, inside the domain of `log`; the old expression `m + eps()` was negative there -/
example : Agc.inputPower (-1 / 1000 : ℝ) = eps ∧ (-1 / 1000 : ℝ) + eps < 0 := by
  refine ⟨?_, ?_⟩
  · rw [Agc.inputPower_real, max_eq_right (by norm_num)]; simp
  · simp only [eps, fn_ofNat]; norm_num

/-- and an ordinary positive average is passed through unchanged -/
example : Agc.inputPower (3 : ℝ) = 3 + eps := Agc.inputPower_of_nonneg (by norm_num)

/-- AGC contraction hypotheses at the defaults (`t = 0.01`, `max_gain` 60 dB, target 1, input power 10⁻⁴):
required log-gain `ln(10⁴)/2 = ln 100 ≤ ln 1000` -/
example : let p : Agc ℝ := { trise := 0.01, tfall := 0.01, maxGain := Real.log 1000, target := Real.log 1 }
    (p.target - Real.log (1 / 10000)) / 2 ≤ p.maxGain := by
  intro p
  show (Real.log 1 - Real.log (1 / 10000)) / 2 ≤ Real.log 1000
  have h1 : Real.log (1 / 10000 : ℝ) = -Real.log 10000 := by rw [one_div, Real.log_inv]
  have h2 : (10000 : ℝ) = 100 ^ 2 := by norm_num
  rw [Real.log_one, h1, h2, Real.log_pow]
  have : Real.log (100 : ℝ) ≤ Real.log 1000 := Real.log_le_log (by norm_num) (by norm_num)
  push_cast; linarith

end

end Dsp.C20
