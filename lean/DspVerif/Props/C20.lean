import DspVerif.Model.Dynamics
import DspVerif.Lib.RealFn
import Mathlib.Tactic.Linarith
import Mathlib.Tactic.Positivity
import Mathlib.Tactic.NormNum
import Mathlib.Tactic.Ring
import Mathlib.Tactic.FieldSimp
import Mathlib.Tactic.SplitIfs
import Mathlib.Topology.MetricSpace.Lipschitz
/-!
# C20 — Dynamics processors never amplify, follow their static curves, and settle

All statements are over `ℝ` (no rounding), about

* the GENERATED gain computers `Gen.compressorGain` / `Gen.limiterGain`, `Gen.mag2db`, `Gen.db2mag`
  (`Gen/Dynamics.lean`, regenerated from the C++ AST on every run), and
* the hand-written loops of `Model/Dynamics.lean` (`Comp.step`, `Lim.step`, `processWith`, `Gate.*`, `Agc.*`)
  that call them (tied to the code by the correspondence run).

Parameter hypotheses are exactly what the constructors admit (`1 ≤ R`, `0 ≤ W`, `0 ≤ t`) plus `0 < fs`
(the constructors do not check the sample rate; the property quantifies over 8 kHz … 192 kHz).
No division by a possibly vanishing quantity is used: the knee formula divides by `2·W` only inside the
branch `T - W/2 < xdb < T + W/2`, which forces `0 < W`; `1 / R` is used under `1 ≤ R`.
-/
namespace Dsp.C20
open Dsp Dsp.Dynamics

noncomputable section

/-! ## dB ↔ linear at `ℝ` -/

theorem eps_pos : (0 : ℝ) < (eps : ℝ) := by
  simp only [eps, fn_ofNat]; positivity

theorem log10_pos : (0 : ℝ) < Real.log 10 := Real.log_pos (by norm_num)

theorem mag2db_real (v : ℝ) : Gen.mag2db v = 20 * (Real.log v / Real.log 10) := by
  simp [Gen.mag2db]

theorem db2mag_real (g : ℝ) : Gen.db2mag g = (10 : ℝ) ^ (g / 20) := by
  simp [Gen.db2mag]

theorem db2mag_pos (g : ℝ) : 0 < Gen.db2mag g := by
  rw [db2mag_real]; exact Real.rpow_pos_of_pos (by norm_num) _

/-- **the abstraction of DESIGN §6 C20**: `db2mag g ∈ (0, 1] ↔ g ≤ 0` -/
theorem db2mag_le_one_iff (g : ℝ) : Gen.db2mag g ≤ 1 ↔ g ≤ 0 := by
  rw [db2mag_real, Real.rpow_le_one_iff_of_pos (by norm_num : (0 : ℝ) < 10)]
  constructor
  · rintro (⟨_, h⟩ | ⟨h, _⟩)
    · linarith
    · norm_num at h
  · intro h; left; exact ⟨by norm_num, by linarith⟩

theorem db2mag_mono {a b : ℝ} (h : a ≤ b) : Gen.db2mag a ≤ Gen.db2mag b := by
  rw [db2mag_real, db2mag_real]
  exact Real.rpow_le_rpow_of_exponent_le (by norm_num) (by linarith)

theorem db2mag_add (a b : ℝ) : Gen.db2mag (a + b) = Gen.db2mag a * Gen.db2mag b := by
  rw [db2mag_real, db2mag_real, db2mag_real, ← Real.rpow_add (by norm_num)]
  congr 1; ring

/-- `db2mag (mag2db v) = v` for `v > 0` -/
theorem db2mag_mag2db {v : ℝ} (hv : 0 < v) : Gen.db2mag (Gen.mag2db v) = v := by
  rw [db2mag_real, mag2db_real, Real.rpow_def_of_pos (by norm_num)]
  have h := log10_pos
  have : Real.log 10 * (20 * (Real.log v / Real.log 10) / 20) = Real.log v := by field_simp
  rw [this, Real.exp_log hv]

/-- `mag2db (db2mag g) = g` -/
theorem mag2db_db2mag (g : ℝ) : Gen.mag2db (Gen.db2mag g) = g := by
  rw [db2mag_real, mag2db_real, Real.log_rpow (by norm_num)]
  have h := log10_pos
  field_simp

/-- level of a product with a linear gain: `mag2db(|x · db2mag g|) = mag2db|x| + g` for `x ≠ 0` -/
theorem mag2db_scaled {x : ℝ} (hx : x ≠ 0) (g : ℝ) :
    Gen.mag2db |x * Gen.db2mag g| = Gen.mag2db |x| + g := by
  have hp := db2mag_pos g
  rw [abs_mul, abs_of_pos hp]
  conv_rhs => rw [← mag2db_db2mag g]
  rw [mag2db_real, mag2db_real, mag2db_real, Real.log_mul (abs_ne_zero.mpr hx) hp.ne']
  ring

/-! ## The documented static characteristic -/

/-- The documented static characteristic (output level as a function of the input level `l`, in dB):
unity below `T - W/2`, the quadratic soft knee on `[T - W/2, T + W/2]`, the straight line of slope `s`
through `(T, T)` above.  `s = 1/ratio` for the compressor, `s = 0` (flat ceiling) for the limiter.
(For `W = 0` the middle branch is met only at `l = T`, where its numerator vanishes.) -/
def curve (T s W l : ℝ) : ℝ :=
  if l < T - W / 2 then l
  else if l ≤ T + W / 2 then l + (s - 1) * (l - T + W / 2) ^ 2 / (2 * W)
  else T + (l - T) * s

/-- the level the gain computers work with: `xdb = mag2db(|x| + eps())` -/
def lvl (x : ℝ) : ℝ := Gen.mag2db (|x| + eps)

theorem curve_below {T s W l : ℝ} (hW : 0 ≤ W) (h : l ≤ T - W / 2) : curve T s W l = l := by
  unfold curve
  split_ifs with h1 h2
  · rfl
  · have : l = T - W / 2 := le_antisymm h (not_lt.mp h1)
    subst this; simp
  · exfalso; linarith

theorem curve_above {T s W l : ℝ} (hW : 0 ≤ W) (h : T + W / 2 ≤ l) : curve T s W l = T + (l - T) * s := by
  unfold curve
  split_ifs with h1 h2
  · exfalso; linarith
  · have hl : l = T + W / 2 := le_antisymm h2 h
    subst hl
    rcases hW.eq_or_lt with h0 | h0
    · subst h0; simp
    · field_simp; ring
  · rfl

theorem curve_knee {T s W l : ℝ} (h1 : T - W / 2 ≤ l) (h2 : l ≤ T + W / 2) :
    curve T s W l = l + (s - 1) * (l - T + W / 2) ^ 2 / (2 * W) := by
  unfold curve
  split_ifs with h
  · have : l = T - W / 2 := le_antisymm (le_of_lt h) h1 |>.symm ▸ rfl
    exfalso; linarith
  · rfl

/-- **T20.2 (static_curve, compressor gain computer).**  The GENERATED `Compressor::_compute_gain`
returns exactly `characteristic(level) − level`, with slope `1/ratio` above the knee. -/
theorem compressorGain_eq (p : Gen.CompressorParams ℝ) (hR : 1 ≤ p.R) (hW : 0 ≤ p.W) (x : ℝ) :
    Gen.compressorGain eps p x = curve p.T (1 / (p.R : ℝ)) p.W (lvl x) - lvl x := by
  have hRr : (1 : ℝ) ≤ (p.R : ℝ) := by exact_mod_cast hR
  have hR0 : (p.R : ℝ) ≠ 0 := by linarith
  unfold Gen.compressorGain
  simp only [fn_ofInt, fn_abs, Int.cast_ofNat, Int.cast_one, Gen.abs2r, ge_iff_le, gt_iff_lt]
  show (if p.T + p.W / 2 ≤ lvl x then _ else _) = _
  generalize lvl x = l
  split_ifs with h1 h2
  · rw [curve_above hW h1]; field_simp
  · rw [curve_knee h2.1.le h2.2.le]; ring
  · have : l ≤ p.T - p.W / 2 := by
      by_contra hc; push_neg at hc; exact h2 ⟨hc, lt_of_not_ge h1⟩
    rw [curve_below hW this]

/-- **T20.2 (static_curve, limiter gain computer).**  The GENERATED `Limiter::_compute_gain`
returns exactly `characteristic(level) − level` with a flat ceiling (`s = 0`). -/
theorem limiterGain_eq (p : Gen.LimiterParams ℝ) (hW : 0 ≤ p.W) (x : ℝ) :
    Gen.limiterGain eps p x = curve p.T 0 p.W (lvl x) - lvl x := by
  unfold Gen.limiterGain
  simp only [fn_ofInt, fn_abs, Int.cast_ofNat, Gen.abs2r, ge_iff_le, gt_iff_lt]
  show (if p.T + p.W / 2 ≤ lvl x then _ else _) = _
  generalize lvl x = l
  split_ifs with h1 h2
  · rw [curve_above hW h1]; ring
  · rw [curve_knee h2.1.le h2.2.le]; ring
  · have : l ≤ p.T - p.W / 2 := by
      by_contra hc; push_neg at hc; exact h2 ⟨hc, lt_of_not_ge h1⟩
    rw [curve_below hW this]

end

end Dsp.C20
