import DspVerif.Props.C19
import DspVerif.Gen.StepsSnr
import DspVerif.Lib.RealFn
import DspVerif.Lib.GenBridge
/-!
# C19 — bridge: the order-comparison skeleton of the tone search IS the regenerated code of `lib/snr.cpp`

`Gen/StepsSnr.lean` is written by `tools/cxx2lean.py` on every check run from `lib/snr.cpp`:
`_locate_peak`, `_left_descent`, `_right_descent` (`Gen.snrLocatePeak`, `snrLeftDescent`, `snrRightDescent`) and the
statements of `_get_psd_tone(spec, tone_freq)` from `ipeak` to `rpos` (`Gen.snrToneBounds`: peak, the plateau of bins equal to
the peak, the two descents).  Every `while` loop there is a *bounded walk* (`while ((p > 0) && cmp) --p;` /
`while ((p < n - 1) && cmp) ++p;`: the body only steps `p`, a conjunct of the condition bounds it by an expression the loop
cannot change) and becomes a fuel-bounded recursion `…_whileN` that is called with exactly the fuel the bound allows
(`p - 0`, `n - 1 - p`); a loop of another shape makes GEN fail.  `max(idx, 0)` / `min(idx, n - 1)` are the `dsplib::max/min`
templates translated at `int`.  The other statements of `_get_psd_tone` (`std::round`, the clamp of `freq_num`, `arange`,
`slice`, `dot`, `sum`, `ToneInfo`) are PINNED by digest, not translated.

Proved here over ℝ: `walk_down`, `walk_up` (a fuel-bounded `Int` walk = the model's `Nat` walk, for every sufficient fuel);
`locatePeak_eq`, `leftDescent_eq`, `rightDescent_eq`; `toneBounds_eq` — for every non-empty spectrum and every bin number the
generated walks end at the lobe limits `lpos`, `rpos` of `Model/Noise.lean`'s `getTone` (which already uses fuel `n`);
`gen_toneBounds_scale` — `getTone_scale` of `Props/C19.lean` transported: scaling the spectrum by `k > 0` does not move the
lobe the generated code finds.
-/
namespace Dsp.C19Gen
open Dsp Dsp.Noise Dsp.GenBridge

set_option linter.unusedSectionVars false
set_option linter.unusedSimpArgs false
set_option linter.unusedVariables false

/-! ## bounded walks: a fuel-bounded recursion on `Int` positions = the model's walk on `Nat` positions -/

/-- downward walk: with fuel `p` from position `p` -/
theorem walk_down (W : ℕ → Int → Int) (C : Int → Prop) [DecidablePred C] (M : ℕ → ℕ)
    (h0 : ∀ p, W 0 p = p) (hs : ∀ f p, W (f + 1) p = if (p > 0 ∧ C p) then W f (p - 1) else p)
    (hm0 : M 0 = 0) (hms : ∀ p, M (p + 1) = if C ((p + 1 : ℕ) : Int) then M p else p + 1) :
    ∀ p : ℕ, W p (p : Int) = (M p : Int) := by
  intro p
  induction p with
  | zero => rw [h0, hm0]
  | succ p ih =>
    rw [hs, hms]
    by_cases hc : C ((p + 1 : ℕ) : Int)
    · rw [if_pos ⟨by omega, hc⟩, if_pos hc]
      have : (((p + 1 : ℕ) : Int) - 1) = (p : Int) := by omega
      rw [this, ih]
    · rw [if_neg (by tauto), if_neg hc]

/-- upward walk towards `n - 1`: any two fuels that reach `n - 1` give the same result -/
theorem walk_up (W : ℕ → Int → Int) (C : Int → Prop) [DecidablePred C] (n : ℕ) (M : ℕ → ℕ → ℕ)
    (h0 : ∀ p, W 0 p = p) (hs : ∀ f p, W (f + 1) p = if (p < (n : Int) - 1 ∧ C p) then W f (p + 1) else p)
    (hm0 : ∀ p, M 0 p = p) (hms : ∀ f p, M (f + 1) p = if p + 1 < n ∧ C (p : Int) then M f (p + 1) else p) :
    ∀ (f f' p : ℕ), n ≤ p + f + 1 → n ≤ p + f' + 1 → W f (p : Int) = (M f' p : Int) := by
  intro f
  induction f with
  | zero =>
    intro f' p h1 h2
    rw [h0]
    cases f' with
    | zero => rw [hm0]
    | succ f' => rw [hms, if_neg (by omega)]
  | succ f ih =>
    intro f' p h1 h2
    rw [hs]
    by_cases hc : ((p : Int) < (n : Int) - 1 ∧ C (p : Int))
    · rw [if_pos hc]
      cases f' with
      | zero => omega
      | succ f' =>
        rw [hms, if_pos ⟨by omega, hc.2⟩]
        have : ((p : Int) + 1) = ((p + 1 : ℕ) : Int) := by push_cast; rfl
        rw [this]
        exact ih f' (p + 1) (by omega) (by omega)
    · rw [if_neg hc]
      cases f' with
      | zero => rw [hm0]
      | succ f' =>
        rw [hms, if_neg (by intro h; exact hc ⟨by omega, h.2⟩)]

noncomputable section

/-- the spectrum as the model reads it -/
def specFn (spec : Array ℝ) : ℕ → ℝ := fun i => spec.getD i 0

theorem arrGet_spec (spec : Array ℝ) (idx : Int) (k : ℕ) (h : idx = (k : Int)) :
    Gen.arrGet (Gen.zeroR : ℝ) spec idx = specFn spec k := by
  rw [arrGet_eq _ spec idx k h]; simp [specFn, Gen.zeroR]

/-! ### `_locate_peak` -/

theorem locatePeak_eq (spec : Array ℝ) (idx : ℕ) :
    Gen.snrLocatePeak spec (idx : Int) = (locatePeak spec.size (specFn spec) idx : Int) := by
  unfold Gen.snrLocatePeak locatePeak
  simp only [Gen.arrSize, Int.ofNat_eq_natCast, Int.sub_zero, Int.toNat_natCast]
  have h1 := walk_down (Gen.snrLocatePeak_while1 spec)
    (fun p => Gen.arrGet (Gen.zeroR : ℝ) spec (p - 1) > Gen.arrGet (Gen.zeroR : ℝ) spec p) (walkL gtB (specFn spec))
    (fun p => rfl) (fun f p => rfl) rfl
    (fun p => by
      simp only [walkL, gtB]
      rw [arrGet_spec spec _ p (by push_cast; ring), arrGet_spec spec _ (p + 1) rfl]
      by_cases h : specFn spec (p + 1) < specFn spec p <;> simp [h]) idx
  rw [h1]
  have h2 := walk_up (Gen.snrLocatePeak_while2 spec (spec.size : Int))
    (fun p => Gen.arrGet (Gen.zeroR : ℝ) spec p < Gen.arrGet (Gen.zeroR : ℝ) spec (p + 1)) spec.size
    (walkR ltB spec.size (specFn spec))
    (fun p => rfl) (fun f p => rfl) (fun p => rfl)
    (fun f p => by
      simp only [walkR, ltB]
      rw [arrGet_spec spec _ p rfl, arrGet_spec spec _ (p + 1) (by push_cast; rfl)]
      by_cases h : specFn spec p < specFn spec (p + 1) <;> simp [h])
  exact h2 _ spec.size (walkL gtB (specFn spec) idx) (by omega) (by omega)

/-! ### `_left_descent`, `_right_descent` -/

theorem leftDescent_eq (spec : Array ℝ) (idx : ℕ) :
    Gen.snrLeftDescent spec (idx : Int) = (leftDescent (specFn spec) idx : Int) := by
  unfold Gen.snrLeftDescent leftDescent
  have hm : Gen.maxII (idx : Int) (0 : Int) = (idx : Int) := by
    unfold Gen.maxII; split <;> omega
  simp only [hm, Int.sub_zero, Int.toNat_natCast]
  exact walk_down (Gen.snrLeftDescent_while1 spec)
    (fun p => Gen.arrGet (Gen.zeroR : ℝ) spec (p - 1) < Gen.arrGet (Gen.zeroR : ℝ) spec p) (walkL ltB (specFn spec))
    (fun p => rfl) (fun f p => rfl) rfl
    (fun p => by
      simp only [walkL, ltB]
      rw [arrGet_spec spec _ p (by push_cast; ring), arrGet_spec spec _ (p + 1) rfl]
      by_cases h : specFn spec p < specFn spec (p + 1) <;> simp [h]) idx

theorem rightDescent_eq (spec : Array ℝ) (idx : ℕ) (hn : 1 ≤ spec.size) :
    Gen.snrRightDescent spec (idx : Int) = (rightDescent spec.size (specFn spec) idx : Int) := by
  unfold Gen.snrRightDescent rightDescent
  simp only [Gen.arrSize, Int.ofNat_eq_natCast]
  have hm : Gen.minII (idx : Int) ((spec.size : Int) - 1) = ((min idx (spec.size - 1) : ℕ) : Int) := by
    unfold Gen.minII; split <;> omega
  rw [hm]
  have h2 := walk_up (Gen.snrRightDescent_while1 spec (spec.size : Int))
    (fun p => Gen.arrGet (Gen.zeroR : ℝ) spec p > Gen.arrGet (Gen.zeroR : ℝ) spec (p + 1)) spec.size
    (walkR gtB spec.size (specFn spec))
    (fun p => rfl) (fun f p => rfl) (fun p => rfl)
    (fun f p => by
      simp only [walkR, gtB]
      rw [arrGet_spec spec _ p rfl, arrGet_spec spec _ (p + 1) (by push_cast; rfl)]
      by_cases h : specFn spec (p + 1) < specFn spec p <;> simp [h])
  exact h2 _ spec.size (min idx (spec.size - 1)) (by omega) (by omega)

/-! ### the walks of `_get_psd_tone` -/

/-- **bridge, `_get_psd_tone`: peak, plateau and descents.**  For every non-empty spectrum and every bin number: the generated
walks (four `while` loops of the bounded-walk shape in three helper functions and in `_get_psd_tone` itself, each run with
exactly the fuel its bounding conjunct allows) end at the model's lobe limits `getTone … .lpos / .rpos`. -/
theorem toneBounds_eq (spec : Array ℝ) (fnum : ℕ) (hn : 1 ≤ spec.size) :
    Gen.snrToneBounds spec (fnum : Int) =
      (((getTone spec.size (specFn spec) fnum).lpos : Int), ((getTone spec.size (specFn spec) fnum).rpos : Int)) := by
  unfold Gen.snrToneBounds getTone
  simp only [Gen.arrSize, Int.ofNat_eq_natCast, locatePeak_eq, Int.sub_zero, Int.toNat_natCast]
  set ip := locatePeak spec.size (specFn spec) fnum with hip
  have h1 := walk_down (Gen.snrToneBounds_while1 spec (ip : Int))
    (fun p => Gen.arrGet (Gen.zeroR : ℝ) spec (p - 1) ≤ Gen.arrGet (Gen.zeroR : ℝ) spec (ip : Int) ∧
      Gen.arrGet (Gen.zeroR : ℝ) spec (ip : Int) ≤ Gen.arrGet (Gen.zeroR : ℝ) spec (p - 1))
    (topL (specFn spec) (specFn spec ip))
    (fun p => rfl) (fun f p => rfl) rfl
    (fun p => by
      simp only [topL, eqB]
      rw [arrGet_spec spec _ p (by push_cast; ring), arrGet_spec spec _ ip rfl]
      by_cases h : specFn spec p ≤ specFn spec ip ∧ specFn spec ip ≤ specFn spec p <;> simp [h]) ip
  rw [h1]
  have h2 := walk_up (Gen.snrToneBounds_while2 spec (spec.size : Int) (ip : Int))
    (fun p => Gen.arrGet (Gen.zeroR : ℝ) spec (p + 1) ≤ Gen.arrGet (Gen.zeroR : ℝ) spec (ip : Int) ∧
      Gen.arrGet (Gen.zeroR : ℝ) spec (ip : Int) ≤ Gen.arrGet (Gen.zeroR : ℝ) spec (p + 1)) spec.size
    (topR spec.size (specFn spec) (specFn spec ip))
    (fun p => rfl) (fun f p => rfl) (fun p => rfl)
    (fun f p => by
      simp only [topR, eqB]
      rw [arrGet_spec spec _ (p + 1) (by push_cast; rfl), arrGet_spec spec _ ip rfl]
      by_cases h : specFn spec (p + 1) ≤ specFn spec ip ∧ specFn spec ip ≤ specFn spec (p + 1) <;> simp [h])
  rw [h2 _ spec.size ip (by omega) (by omega), leftDescent_eq, rightDescent_eq _ _ hn]

/-- **scale invariance of the tone search, transported to the regenerated walks (T19 `getTone_scale`):** multiplying the
spectrum by any `k > 0` does not move the lobe limits the GENERATED code finds -/
theorem gen_toneBounds_scale (k : ℝ) (hk : 0 < k) (spec : Array ℝ) (fnum : ℕ) (hn : 1 ≤ spec.size) :
    Gen.snrToneBounds (spec.map fun v => k * v) (fnum : Int) = Gen.snrToneBounds spec (fnum : Int) := by
  have hs : specFn (spec.map fun v => k * v) = C19.sc k (specFn spec) := by
    funext i
    simp only [specFn, C19.sc, Array.getD_eq_getD_getElem?, Array.getElem?_map]
    cases spec[i]? <;> simp
  rw [toneBounds_eq _ _ (by simpa using hn), toneBounds_eq _ _ hn, hs, Array.size_map, C19.getTone_scale hk]
  rfl

/-- non-vacuity (the example of `Props/C19.lean`): on the spectrum `1 6 1 1 4 1 1`, started at bin 1, the generated walks
return the lobe `[0, 2]` -/
example : Gen.snrToneBounds (#[1, 6, 1, 1, 4, 1, 1] : Array ℝ) (1 : Int) = ((0 : Int), (2 : Int)) := by
  have h := toneBounds_eq (#[1, 6, 1, 1, 4, 1, 1] : Array ℝ) 1 (by simp)
  have e : ((1 : ℕ) : Int) = (1 : Int) := rfl
  rw [e] at h
  rw [h]
  have hv : ∀ i, specFn (#[1, 6, 1, 1, 4, 1, 1] : Array ℝ) i = (#[1, 6, 1, 1, 4, 1, 1] : Array ℝ).getD i 0 := fun i => rfl
  norm_num [getTone, locatePeak, walkL, walkR, topL, topR, eqB, gtB, ltB, hv, leftDescent, rightDescent]

end
end Dsp.C19Gen
