import DspVerif.Model.Lru
import Mathlib.Tactic.Linarith
import Mathlib.Data.List.Nodup
import Mathlib.Data.List.Induction
/-!
# C10 — transform results do not depend on call history; plan caching is transparent

Theorems about `Model/Lru` (tied to `lib/lru-cache.h` + `lib/fft/fft.cpp` by the lock-step
correspondence run: key lists of both caches after every request of every enumerated history).
All statements are for EVERY capacity `cap ≥ 1`, EVERY history and EVERY plan-construction function `mk`.
-/
namespace Dsp.C10
open Dsp Dsp.Lru Dsp.Gen

variable {ν : Type}

/-- cache invariant: no key twice, never more than `cap` entries -/
def Inv (c : Cache ν) : Prop := c.keys.Nodup ∧ c.keys.length ≤ c.cap

/-- every cached value is the plan a fresh construction would give for its key -/
def Pure (mk : Nat → ν) (c : Cache ν) : Prop := ∀ e ∈ c.items, e.2 = mk e.1

/-! ### the container -/

theorem has_iff (c : Cache ν) (k : Nat) : c.has k = true ↔ k ∈ c.keys := by
  simp [Cache.has, Cache.keys]

theorem put_cap (c : Cache ν) (k : Nat) (v : ν) : (c.put k v).cap = c.cap := by
  rfl

theorem get_cap (c : Cache ν) (k : Nat) : (c.get k).1.cap = c.cap := by
  unfold Cache.get
  split <;> rfl

theorem map_filter_fst (l : List (Nat × ν)) (k : Nat) :
    (l.filter (fun e => e.1 != k)).map (·.1) = (l.map (·.1)).filter (· != k) := by
  induction l with
  | nil => rfl
  | cons a l ih => by_cases h : a.1 = k <;> simp [h, ih]

theorem touch_nodup (cap : Nat) (ks : List Nat) (k : Nat) (h : ks.Nodup) : (touch cap ks k).Nodup := by
  unfold touch
  refine List.Nodup.sublist (List.take_sublist _ _) ?_
  rw [List.nodup_cons]
  exact ⟨by simp, h.filter _⟩

theorem touch_length (cap : Nat) (ks : List Nat) (k : Nat) : (touch cap ks k).length ≤ cap := by
  unfold touch
  rw [List.length_take]
  exact Nat.min_le_left _ _

theorem put_items_take (c : Cache ν) (k : Nat) (v : ν) (h : Inv c) :
    (c.put k v).items = ((k, v) :: c.items.filter (fun e => e.1 != k)).take c.cap := by
  have hf : (c.items.filter (fun e => e.1 != k)).length ≤ c.cap := by
    have := h.2
    simp only [Cache.keys, List.length_map] at this
    exact le_trans (List.length_filter_le _ _) this
  simp only [Cache.put]
  split
  · rename_i hgt
    rw [List.dropLast_eq_take]
    congr 1
    simp only [List.length_cons] at hgt ⊢
    omega
  · rename_i hgt
    simp only [List.length_cons] at hgt
    rw [List.take_of_length_le (by simp only [List.length_cons]; omega)]

/-- `put` refines the abstract move-to-front-and-truncate (proved first; restated below) -/
theorem keys_put' (c : Cache ν) (k : Nat) (v : ν) (h : Inv c) : (c.put k v).keys = touch c.cap c.keys k := by
  unfold Cache.keys
  rw [put_items_take c k v h, List.map_take]
  simp [touch, map_filter_fst]

theorem get_of_find_some (c : Cache ν) (k : Nat) (e : Nat × ν) (h : c.items.find? (·.1 == k) = some e) :
    c.get k = (⟨c.cap, e :: c.items.filter (fun e => e.1 != k)⟩, some e.2) := by
  simp [Cache.get, h]

theorem get_of_find_none (c : Cache ν) (k : Nat) (h : c.items.find? (·.1 == k) = none) :
    c.get k = (c, none) := by
  simp [Cache.get, h]

theorem find_some_props (c : Cache ν) (k : Nat) (e : Nat × ν) (h : c.items.find? (·.1 == k) = some e) :
    e.1 = k ∧ e ∈ c.items := by
  refine ⟨?_, List.mem_of_find?_eq_some h⟩
  simpa using List.find?_some h

theorem get_keys_of_find_some (c : Cache ν) (k : Nat) (e : Nat × ν) (h : c.items.find? (·.1 == k) = some e) :
    (c.get k).1.keys = k :: c.keys.filter (· != k) := by
  rw [get_of_find_some c k e h]
  simp [Cache.keys, map_filter_fst, (find_some_props c k e h).1]

theorem length_filter_of_mem (ks : List Nat) (k : Nat) (hk : k ∈ ks) :
    (k :: ks.filter (· != k)).length ≤ ks.length := by
  have : (ks.filter (· != k)).length < ks.length :=
    List.length_filter_lt_length_iff_exists.2 ⟨k, hk, by simp⟩
  simp only [List.length_cons]
  omega

/-- T10.1 `put` keeps the invariant -/
theorem put_inv (c : Cache ν) (k : Nat) (v : ν) (h : Inv c) (hc : 0 < c.cap) : Inv (c.put k v) := by
  have _ := hc
  refine ⟨?_, ?_⟩
  · rw [keys_put' c k v h]; exact touch_nodup _ _ _ h.1
  · rw [keys_put' c k v h, put_cap]; exact touch_length _ _ _

/-- T10.1 `get` keeps the invariant -/
theorem get_inv (c : Cache ν) (k : Nat) (h : Inv c) : Inv (c.get k).1 := by
  rcases hf : c.items.find? (·.1 == k) with _ | e
  · rw [get_of_find_none c k hf]; exact h
  · obtain ⟨he1, hem⟩ := find_some_props c k e hf
    have hk : k ∈ c.keys := by
      rw [← he1]; exact List.mem_map_of_mem hem
    refine ⟨?_, ?_⟩
    · rw [get_keys_of_find_some c k e hf, List.nodup_cons]
      exact ⟨by simp, h.1.filter _⟩
    · rw [get_keys_of_find_some c k e hf, get_cap]
      exact le_trans (length_filter_of_mem _ _ hk) h.2

/-- `put` refines the abstract move-to-front-and-truncate -/
theorem keys_put (c : Cache ν) (k : Nat) (v : ν) (h : Inv c) : (c.put k v).keys = touch c.cap c.keys k := by
  exact keys_put' c k v h

/-- `get` of a present key refines the same abstract step and returns the stored value -/
theorem keys_get (c : Cache ν) (k : Nat) (h : Inv c) (hk : k ∈ c.keys) :
    (c.get k).1.keys = touch c.cap c.keys k ∧ ∃ v, (c.get k).2 = some v ∧ (k, v) ∈ c.items := by
  rcases hf : c.items.find? (·.1 == k) with _ | e
  · exfalso
    rw [List.find?_eq_none] at hf
    simp only [Cache.keys, List.mem_map] at hk
    obtain ⟨e, he, rfl⟩ := hk
    exact hf e he (by simp)
  · obtain ⟨he1, hem⟩ := find_some_props c k e hf
    refine ⟨?_, e.2, ?_, ?_⟩
    · rw [get_keys_of_find_some c k e hf]
      unfold touch
      rw [List.take_of_length_le]
      exact le_trans (length_filter_of_mem _ _ hk) h.2
    · rw [get_of_find_some c k e hf]
    · rw [← he1]; exact hem

theorem put_pure (mk : Nat → ν) (c : Cache ν) (k : Nat) (h : Pure mk c) : Pure mk (c.put k (mk k)) := by
  intro e he
  have hsub : e ∈ (k, mk k) :: c.items.filter (fun e => e.1 != k) := by
    simp only [Cache.put] at he
    split at he
    · exact List.dropLast_subset _ he
    · exact he
  rcases List.mem_cons.1 hsub with rfl | hm
  · rfl
  · exact h e (List.mem_filter.1 hm).1

theorem get_pure (mk : Nat → ν) (c : Cache ν) (k : Nat) (h : Pure mk c) :
    Pure mk (c.get k).1 ∧ ∀ v, (c.get k).2 = some v → v = mk k := by
  rcases hf : c.items.find? (·.1 == k) with _ | e
  · rw [get_of_find_none c k hf]
    exact ⟨h, by simp⟩
  · obtain ⟨he1, hem⟩ := find_some_props c k e hf
    rw [get_of_find_some c k e hf]
    refine ⟨?_, ?_⟩
    · intro x hx
      rcases List.mem_cons.1 hx with rfl | hm
      · exact h _ hem
      · exact h x (List.mem_filter.1 hm).1
    · intro v hv
      simp only [Option.some.injEq] at hv
      rw [← hv, ← he1]; exact h e hem

/-! ### "the most recently used ones" -/

/-- distinct elements of a list, first occurrences kept, in order -/
def dd : List Nat → List Nat
  | [] => []
  | a :: l => a :: (dd l).filter (· != a)

/-- the `cap` most recently used distinct keys of a request log (oldest request first), most recent first -/
def mru (cap : Nat) (log : List Nat) : List Nat := (dd log.reverse).take cap

theorem dd_nodup : ∀ l : List Nat, (dd l).Nodup
  | [] => List.nodup_nil
  | a :: l => by
    simp only [dd, List.nodup_cons]
    exact ⟨by simp, (dd_nodup l).filter _⟩

theorem take_filter_take (k : Nat) : ∀ (L : List Nat) (c : Nat), L.Nodup →
    ((L.take (c + 1)).filter (· != k)).take c = (L.filter (· != k)).take c
  | [], c, _ => by simp
  | a :: L, c, h => by
    rw [List.nodup_cons] at h
    by_cases hak : a = k
    · subst hak
      have hf : L.filter (· != a) = L := by
        rw [List.filter_eq_self]
        intro x hx
        simp only [bne_iff_ne, ne_eq]
        rintro rfl
        exact h.1 hx
      have hf2 : (L.take c).filter (· != a) = L.take c := by
        rw [List.filter_eq_self]
        intro x hx
        simp only [bne_iff_ne, ne_eq]
        rintro rfl
        exact h.1 (List.mem_of_mem_take hx)
      simp [List.take_succ_cons, hf, hf2, List.take_take]
    · cases c with
      | zero => simp
      | succ c =>
        have := take_filter_take k L c h.2
        simp [List.take_succ_cons, hak, this]

theorem touch_mru (cap : Nat) (log : List Nat) (k : Nat) :
    touch cap (mru cap log) k = mru cap (log ++ [k]) := by
  cases cap with
  | zero => simp [touch, mru]
  | succ c =>
    simp only [touch, mru, List.reverse_append, List.reverse_cons, List.reverse_nil, List.nil_append,
      List.singleton_append, dd, List.take_succ_cons]
    rw [take_filter_take k _ c (dd_nodup _)]

theorem touch_foldl_append' (cap : Nat) (log1 log2 : List Nat) :
    log2.foldl (touch cap) (mru cap log1) = mru cap (log1 ++ log2) := by
  induction log2 generalizing log1 with
  | nil => simp
  | cons k l ih =>
    rw [List.foldl_cons, touch_mru, ih (log1 ++ [k]), List.append_assoc]
    rfl

/-- iterating the abstract step over a log, from the empty cache, yields exactly the most recently used keys -/
theorem touch_foldl_mru (cap : Nat) (log : List Nat) : log.foldl (touch cap) [] = mru cap log := by
  have := touch_foldl_append' cap [] log
  simpa [mru, dd] using this

/-- more generally, from the key list left by an earlier log -/
theorem touch_foldl_append (cap : Nat) (log1 log2 : List Nat) :
    log2.foldl (touch cap) (mru cap log1) = mru cap (log1 ++ log2) := by
  exact touch_foldl_append' cap log1 log2

/-! ### the factory: key-level abstract machine, its log, refinement -/

/-- `reqC` on key lists only, also returning the flattened log of touched keys (in order) -/
def reqK (cap : Nat) : Nat → List Nat → Nat → List Nat × List Nat
  | 0, ks, _ => (ks, [])
  | fuel + 1, ks, n =>
    if bypassC n then (ks, [])
    else if n ∈ ks then (touch cap ks n, [n])
    else
      let r := (childrenC n).foldl (fun (acc : List Nat × List Nat) k =>
        let r := reqK cap fuel acc.1 k
        (r.1, acc.2 ++ r.2)) (ks, [])
      (touch cap r.1 n, r.2 ++ [n])

theorem foldK_log (cap : Nat) (g : List Nat → Nat → List Nat × List Nat)
    (hg : ∀ ks k, (g ks k).1 = (g ks k).2.foldl (touch cap) ks) (ks0 : List Nat) :
    ∀ (l : List Nat) (acc : List Nat × List Nat), acc.1 = acc.2.foldl (touch cap) ks0 →
      (l.foldl (fun (acc : List Nat × List Nat) k => ((g acc.1 k).1, acc.2 ++ (g acc.1 k).2)) acc).1 =
      (l.foldl (fun (acc : List Nat × List Nat) k => ((g acc.1 k).1, acc.2 ++ (g acc.1 k).2)) acc).2.foldl
        (touch cap) ks0 := by
  intro l
  induction l with
  | nil => intro acc h; exact h
  | cons k l ih =>
    intro acc h
    rw [List.foldl_cons]
    apply ih
    simp only [List.foldl_append]
    rw [← h]
    exact hg _ _

/-- T10.2a the key list after a request is the old key list touched by the request's flattened log -/
theorem reqK_log (cap fuel : Nat) (ks : List Nat) (n : Nat) :
    (reqK cap fuel ks n).1 = (reqK cap fuel ks n).2.foldl (touch cap) ks := by
  induction fuel generalizing ks n with
  | zero => simp [reqK]
  | succ fuel ih =>
    rw [reqK]
    split_ifs with h1 h2
    · simp
    · simp
    · have := foldK_log cap (reqK cap fuel) (fun ks k => ih ks k) ks (childrenC n) (ks, []) rfl
      simp only [List.foldl_append, List.foldl_cons, List.foldl_nil]
      congr 1

/-- the five-part specification of one `reqC` call at a given fuel -/
def Spec (mk : Nat → ν) (fuel : Nat) : Prop :=
  ∀ (c : Cache ν) (n : Nat), Inv c → Pure mk c → 0 < c.cap →
    Inv (reqC mk fuel c n).1 ∧ Pure mk (reqC mk fuel c n).1 ∧ (reqC mk fuel c n).1.cap = c.cap ∧
      (reqC mk fuel c n).1.keys = (reqK c.cap fuel c.keys n).1 ∧ (reqC mk fuel c n).2 = mk n

/-- folding `reqC` over a list of nested requests: invariants kept, refines the key-level fold -/
theorem foldC_refines (mk : Nat → ν) (fuel : Nat) (ih : Spec mk fuel) :
    ∀ (l : List Nat) (c : Cache ν) (lg : List Nat), Inv c → Pure mk c → 0 < c.cap →
      Inv (l.foldl (fun c k => (reqC mk fuel c k).1) c) ∧
      Pure mk (l.foldl (fun c k => (reqC mk fuel c k).1) c) ∧
      (l.foldl (fun c k => (reqC mk fuel c k).1) c).cap = c.cap ∧
      (l.foldl (fun c k => (reqC mk fuel c k).1) c).keys =
        (l.foldl (fun (acc : List Nat × List Nat) k =>
          ((reqK c.cap fuel acc.1 k).1, acc.2 ++ (reqK c.cap fuel acc.1 k).2)) (c.keys, lg)).1 := by
  intro l
  induction l with
  | nil => intro c lg hi hp hc; exact ⟨hi, hp, rfl, rfl⟩
  | cons k l ihl =>
    intro c lg hi hp hc
    obtain ⟨i1, p1, c1, k1, _⟩ := ih c k hi hp hc
    obtain ⟨i2, p2, c2, k2⟩ := ihl (reqC mk fuel c k).1 (lg ++ (reqK c.cap fuel c.keys k).2) i1 p1 (c1 ▸ hc)
    simp only [List.foldl_cons]
    refine ⟨i2, p2, c2.trans c1, ?_⟩
    rw [k2, c1, k1]

theorem reqC_succ_has (mk : Nat → ν) (fuel : Nat) (c : Cache ν) (n : Nat) (hb : ¬ bypassC n)
    (hh : c.has n = true) (v : ν) (hv : (c.get n).2 = some v) :
    reqC mk (fuel + 1) c n = ((c.get n).1, v) := by
  rw [reqC]
  simp only [if_neg hb, if_pos hh]
  revert hv
  generalize c.get n = p
  intro hv
  obtain ⟨c', o⟩ := p
  cases hv
  rfl

/-- T10.1 + T10.2b + T10.3: `create_fft_plan` keeps the invariant and purity, refines the key-level machine,
    and returns the freshly-constructed plan of its argument — after ANY history -/
theorem reqC_refines (mk : Nat → ν) (fuel : Nat) (c : Cache ν) (n : Nat)
    (hi : Inv c) (hp : Pure mk c) (hc : 0 < c.cap) :
    Inv (reqC mk fuel c n).1 ∧ Pure mk (reqC mk fuel c n).1 ∧ (reqC mk fuel c n).1.cap = c.cap ∧
      (reqC mk fuel c n).1.keys = (reqK c.cap fuel c.keys n).1 ∧ (reqC mk fuel c n).2 = mk n := by
  induction fuel generalizing c n with
  | zero => exact ⟨hi, hp, rfl, rfl, rfl⟩
  | succ fuel ih =>
    by_cases hb : bypassC n
    · rw [reqC, reqK]
      simp only [if_pos hb]
      refine ⟨hi, hp, ?_, ?_, ?_⟩ <;> first | rfl | trivial
    · by_cases hh : c.has n = true
      · have hk := (has_iff c n).1 hh
        obtain ⟨hkeys, v, hv, hmem⟩ := keys_get c n hi hk
        have hvn : v = mk n := hp _ hmem
        rw [reqC_succ_has mk fuel c n hb hh v hv, reqK]
        simp only [if_neg hb, if_pos hk]
        exact ⟨get_inv c n hi, (get_pure mk c n hp).1, get_cap c n, hkeys, hvn⟩
      · have hk : n ∉ c.keys := fun h => hh ((has_iff c n).2 h)
        rw [reqC, reqK]
        simp only [if_neg hb, if_neg hk, if_neg hh]
        obtain ⟨fi, fp, fc, fk⟩ :=
          foldC_refines mk fuel (fun c n => ih c n) (childrenC n) c [] hi hp hc
        refine ⟨put_inv _ _ _ fi (fc ▸ hc), put_pure mk _ _ fp, ?_, ?_, trivial⟩
        · rw [put_cap, fc]
        · rw [keys_put _ _ _ fi, fc, fk]

/-- the complex cache along a whole history of complex requests, from the empty cache -/
def runC (mk : Nat → ν) (cap : Nat) (h : List Nat) : Cache ν :=
  h.foldl (fun c n => (reqC mk 8 c n).1) ⟨cap, []⟩

/-- flattened log of a whole history -/
def logC (cap : Nat) (h : List Nat) : List Nat × List Nat :=
  h.foldl (fun (acc : List Nat × List Nat) n =>
    let r := reqK cap 8 acc.1 n
    (r.1, acc.2 ++ r.2)) ([], [])

theorem runC_snoc (mk : Nat → ν) (cap : Nat) (h : List Nat) (n : Nat) :
    runC mk cap (h ++ [n]) = (reqC mk 8 (runC mk cap h) n).1 := by
  simp [runC, List.foldl_append]

theorem logC_snoc (cap : Nat) (h : List Nat) (n : Nat) :
    logC cap (h ++ [n]) =
      ((reqK cap 8 (logC cap h).1 n).1, (logC cap h).2 ++ (reqK cap 8 (logC cap h).1 n).2) := by
  simp [logC, List.foldl_append]

theorem inv_empty (cap : Nat) : Inv (⟨cap, []⟩ : Cache ν) := ⟨List.nodup_nil, Nat.zero_le _⟩

theorem pure_empty (mk : Nat → ν) (cap : Nat) : Pure mk (⟨cap, []⟩ : Cache ν) := by
  intro e he; cases he

/-- the whole-history invariant: concrete cache and key-level machine stay in lock step -/
theorem runC_spec (mk : Nat → ν) (cap : Nat) (hc : 0 < cap) (h : List Nat) :
    Inv (runC mk cap h) ∧ Pure mk (runC mk cap h) ∧ (runC mk cap h).cap = cap ∧
      (runC mk cap h).keys = (logC cap h).1 ∧
      (logC cap h).1 = (logC cap h).2.foldl (touch cap) [] := by
  induction h using List.reverseRec with
  | nil => exact ⟨inv_empty cap, pure_empty mk cap, rfl, rfl, rfl⟩
  | append_singleton h n ih =>
    obtain ⟨i, p, c, k, l⟩ := ih
    obtain ⟨i1, p1, c1, k1, _⟩ := reqC_refines mk 8 (runC mk cap h) n i p (lt_of_lt_of_eq hc c.symm)
    rw [runC_snoc, logC_snoc]
    refine ⟨i1, p1, c1.trans c, ?_, ?_⟩
    · rw [k1, c, k]
    · simp only [List.foldl_append]
      rw [← l]
      exact reqK_log _ _ _ _

/-- T10.2 (main): after ANY history, for ANY capacity ≥ 1, the cache holds exactly the `cap` most recently
    used lengths of the flattened request log, most recent first; never more than `cap`, no duplicates -/
theorem history_mru (mk : Nat → ν) (cap : Nat) (hc : 0 < cap) (h : List Nat) :
    (runC mk cap h).keys = mru cap (logC cap h).2 ∧ Inv (runC mk cap h) ∧ (runC mk cap h).cap = cap := by
  obtain ⟨i, _, c, k, l⟩ := runC_spec mk cap hc h
  refine ⟨?_, i, c⟩
  rw [k, l, touch_foldl_mru]

/-- T10.3 (main): after ANY history the plan returned for length `n` is the one a fresh thread would construct -/
theorem plan_history_independent (mk : Nat → ν) (cap : Nat) (hc : 0 < cap) (h : List Nat) (n : Nat) :
    (reqC mk 8 (runC mk cap h) n).2 = mk n := by
  obtain ⟨i, p, c, _, _⟩ := runC_spec mk cap hc h
  exact (reqC_refines mk 8 (runC mk cap h) n i p (lt_of_lt_of_eq hc c.symm)).2.2.2.2

/-- folding `reqC … 8` over any list of requests keeps invariant, purity and capacity -/
theorem foldC_inv (mk : Nat → ν) (l : List Nat) (c : Cache ν) (hi : Inv c) (hp : Pure mk c)
    (hc : 0 < c.cap) :
    Inv (l.foldl (fun c k => (reqC mk 8 c k).1) c) ∧
    Pure mk (l.foldl (fun c k => (reqC mk 8 c k).1) c) ∧
    (l.foldl (fun c k => (reqC mk 8 c k).1) c).cap = c.cap := by
  obtain ⟨a, b, d, _⟩ :=
    foldC_refines mk 8 (fun c n => reqC_refines mk 8 c n) l c [] hi hp hc
  exact ⟨a, b, d⟩

theorem reqR_has (mkC mkR : Nat → ν) (s : FftState ν) (n : Nat) (hb : ¬ bypassR n)
    (hh : s.cR.has n = true) (v : ν) (hv : (s.cR.get n).2 = some v) :
    reqR mkC mkR s n = ({ s with cR := (s.cR.get n).1 }, v) := by
  unfold reqR
  simp only [if_neg hb, if_pos hh]
  revert hv
  generalize s.cR.get n = p
  intro hv
  obtain ⟨c', o⟩ := p
  cases hv
  rfl

theorem reqR_miss (mkC mkR : Nat → ν) (s : FftState ν) (n : Nat) (hb : ¬ bypassR n)
    (hh : ¬ s.cR.has n = true) :
    reqR mkC mkR s n =
      ({ cC := (childrenR n).foldl (fun c k => (reqC mkC 8 c k).1) s.cC, cR := s.cR.put n (mkR n) },
        mkR n) := by
  unfold reqR
  simp only [if_neg hb, if_neg hh]

theorem reqR_bypass (mkC mkR : Nat → ν) (s : FftState ν) (n : Nat) (hb : bypassR n) :
    reqR mkC mkR s n = (s, mkR n) := by
  unfold reqR
  simp only [if_pos hb]

theorem reqR_spec' (mkC mkR : Nat → ν) (s : FftState ν) (n : Nat)
    (hiC : Inv s.cC) (hiR : Inv s.cR) (hpC : Pure mkC s.cC) (hpR : Pure mkR s.cR)
    (hcC : 0 < s.cC.cap) (hcR : 0 < s.cR.cap) :
    Inv (reqR mkC mkR s n).1.cC ∧ Inv (reqR mkC mkR s n).1.cR ∧
      Pure mkC (reqR mkC mkR s n).1.cC ∧ Pure mkR (reqR mkC mkR s n).1.cR ∧
      (reqR mkC mkR s n).1.cC.cap = s.cC.cap ∧ (reqR mkC mkR s n).1.cR.cap = s.cR.cap ∧
      (reqR mkC mkR s n).2 = mkR n := by
  by_cases hb : bypassR n
  · rw [reqR_bypass mkC mkR s n hb]
    exact ⟨hiC, hiR, hpC, hpR, rfl, rfl, rfl⟩
  · by_cases hh : s.cR.has n = true
    · have hk := (has_iff s.cR n).1 hh
      obtain ⟨_, v, hv, hmem⟩ := keys_get s.cR n hiR hk
      have hvn : v = mkR n := hpR _ hmem
      rw [reqR_has mkC mkR s n hb hh v hv]
      exact ⟨hiC, get_inv _ _ hiR, hpC, (get_pure mkR _ n hpR).1, rfl, get_cap _ _, hvn⟩
    · rw [reqR_miss mkC mkR s n hb hh]
      obtain ⟨a, b, d⟩ := foldC_inv mkC (childrenR n) s.cC hiC hpC hcC
      exact ⟨a, put_inv _ _ _ hiR hcR, b, put_pure mkR _ _ hpR, d, put_cap _ _ _, rfl⟩

/-- real-input factory: both caches keep their invariants and purity, and the returned plan is the fresh one -/
theorem reqR_spec (mkC mkR : Nat → ν) (s : FftState ν) (n : Nat)
    (hiC : Inv s.cC) (hiR : Inv s.cR) (hpC : Pure mkC s.cC) (hpR : Pure mkR s.cR)
    (hcC : 0 < s.cC.cap) (hcR : 0 < s.cR.cap) :
    let r := reqR mkC mkR s n
    Inv r.1.cC ∧ Inv r.1.cR ∧ Pure mkC r.1.cC ∧ Pure mkR r.1.cR ∧
      r.1.cC.cap = s.cC.cap ∧ r.1.cR.cap = s.cR.cap ∧ r.2 = mkR n := by
  intro r
  exact reqR_spec' mkC mkR s n hiC hiR hpC hpR hcC hcR

/-- the state after any sequence of API operations (fft/ifft/rfft/irfft/czt), from a fresh thread -/
def run (mkC mkR : Nat → ν) (cap : Nat) (ops : List Op) : FftState ν :=
  ops.foldl (step mkC mkR) (FftState.init cap)

/-- the two-cache invariant of the thread state -/
def Good (mkC mkR : Nat → ν) (cap : Nat) (s : FftState ν) : Prop :=
  Inv s.cC ∧ Inv s.cR ∧ Pure mkC s.cC ∧ Pure mkR s.cR ∧ s.cC.cap = cap ∧ s.cR.cap = cap

theorem good_init (mkC mkR : Nat → ν) (cap : Nat) : Good mkC mkR cap (FftState.init cap) :=
  ⟨inv_empty cap, inv_empty cap, pure_empty mkC cap, pure_empty mkR cap, rfl, rfl⟩

theorem step_good (mkC mkR : Nat → ν) (cap : Nat) (hc : 0 < cap) (s : FftState ν) (op : Op)
    (h : Good mkC mkR cap s) : Good mkC mkR cap (step mkC mkR s op) := by
  obtain ⟨hiC, hiR, hpC, hpR, hcC, hcR⟩ := h
  have hcC' : 0 < s.cC.cap := hcC ▸ hc
  have hcR' : 0 < s.cR.cap := hcR ▸ hc
  cases op with
  | fftC n =>
    obtain ⟨i1, p1, c1, _, _⟩ := reqC_refines mkC 8 s.cC n hiC hpC hcC'
    exact ⟨i1, hiR, p1, hpR, c1.trans hcC, hcR⟩
  | fftR n =>
    obtain ⟨a, b, c, d, e, f, _⟩ := reqR_spec' mkC mkR s n hiC hiR hpC hpR hcC' hcR'
    exact ⟨a, b, c, d, e.trans hcC, f.trans hcR⟩
  | irfft n =>
    obtain ⟨i1, p1, c1, _, _⟩ := reqC_refines mkC 8 s.cC (n / 2) hiC hpC hcC'
    exact ⟨i1, hiR, p1, hpR, c1.trans hcC, hcR⟩
  | czt n m =>
    obtain ⟨a, b, d⟩ := foldC_inv mkC (cztRequests n m) s.cC hiC hpC hcC'
    exact ⟨a, hiR, b, hpR, d.trans hcC, hcR⟩

theorem foldl_good (mkC mkR : Nat → ν) (cap : Nat) (hc : 0 < cap) (ops : List Op) :
    ∀ s : FftState ν, Good mkC mkR cap s → Good mkC mkR cap (ops.foldl (step mkC mkR) s) := by
  induction ops with
  | nil => intro s h; exact h
  | cons op ops ih => intro s h; exact ih _ (step_good mkC mkR cap hc s op h)

/-- T10.1/T10.3 for mixed histories over both caches -/
theorem run_inv (mkC mkR : Nat → ν) (cap : Nat) (hc : 0 < cap) (ops : List Op) :
    let s := run mkC mkR cap ops
    Inv s.cC ∧ Inv s.cR ∧ Pure mkC s.cC ∧ Pure mkR s.cR ∧ s.cC.cap = cap ∧ s.cR.cap = cap := by
  intro s
  exact foldl_good mkC mkR cap hc ops _ (good_init mkC mkR cap)

/-- after any mixed history every transform request obtains the fresh plan of its length -/
theorem run_plan_independent (mkC mkR : Nat → ν) (cap : Nat) (hc : 0 < cap) (ops : List Op) (n : Nat) :
    (reqC mkC 8 (run mkC mkR cap ops).cC n).2 = mkC n ∧ (reqR mkC mkR (run mkC mkR cap ops) n).2 = mkR n := by
  obtain ⟨hiC, hiR, hpC, hpR, hcC, hcR⟩ := run_inv mkC mkR cap hc ops
  have hcC' := lt_of_lt_of_eq hc hcC.symm
  have hcR' := lt_of_lt_of_eq hc hcR.symm
  exact ⟨(reqC_refines mkC 8 _ n hiC hpC hcC').2.2.2.2,
    (reqR_spec' mkC mkR _ n hiC hiR hpC hpR hcC' hcR').2.2.2.2.2.2⟩

/-! ### non-vacuity / concrete instances -/
example : (runC id 4 [16, 60, 45, 47, 7]).keys = [7, 47, 128, 45] := by decide +kernel
example : (logC 4 [16, 60, 45, 47, 7]).2 = [16, 3, 5, 60, 3, 3, 5, 45, 128, 128, 47, 7] := by decide +kernel
example : mru 4 [16, 3, 5, 60, 3, 3, 5, 45, 128, 128, 47, 7] = [7, 47, 128, 45] := by decide

end Dsp.C10
