import DspVerif.Model.Guards
import Mathlib.Tactic.Linarith
import Mathlib.Tactic.Ring
import Mathlib.Tactic.SplitIfs
import Mathlib.Tactic.Positivity
/-!
# C05 — no call corrupts memory or hangs: misuse is reported by exception

**Honest scope.**  Memory safety of arbitrary C++ is NOT proved here.  What the theorems cover is the guard and index
logic of the entry points modelled in `Model/Guards.lean` (hand transcription of the `DSPLIB_ASSERT` / `DSPLIB_THROW`
conditions and of the subscript expressions of the code as it is now in `/repo`): array ∘ array operations, comparisons,
index lists, masks, slices and the three kinds of slice assignment, FFT / IFFT / real-IFFT / CZT plans against inputs of
another length, `fft(x, n)`, `FirFilter`, `FftFilter` (stateful), `polyphase`, the three polyphase resamplers and
`resample(x, p, q, h)`, `zeropad / repelem / delayseq / upsample / downsample`, the window generators (`tukey` taper,
`kaiser`), `medfilt`, `iscola / stft / istft`, `welch / mscohere`, `LmsFilter / RlsFilter`, `Delay`, `xcorr`, `hilbert`.

* `no_ub` (T05.1): for EVERY call of a modelled entry point in the documented ranges (most entry points: every integer
  argument tuple; the rest: rates / orders ≥ 1, lengths ≥ 0) the modelled outcome is `ok` or `throws`, never `ub`, i.e. every
  unchecked subscript of the modelled body is inside its buffer (`access_ok_iff`, `slice_in_bounds`, `loop`/`forM` bodies
  included) and every loop of the model is a counted loop (termination is by construction: structural recursion).
* `*_throws_iff` (T05.2): the misuse classes named in the property — mismatched lengths, out-of-range or negative index-list
  entries, plans applied to another length, a braced list of another length than the slice — are exactly the `throws` outcomes.
* `guard_needed_*`: without its guard the same access expression does leave the buffer (the `ub` branch of the model is live,
  the theorems are not vacuous).
* `pow2_butterfly_in_bounds` (T05.3): the index expressions of `Pow2FftPlan::_fft` stay inside `[0, n)`.

The tie to the real code is correspondence, not proof: `harness/c05.cpp` runs boundary-directed call programs over all public
entry points under clang ASan+UBSan (`-DNDEBUG`, `DSPLIB_ASSUME` live) with a watchdog, and `Model/Guards` has to predict
`ok <shape>` / `ERR` for every modelled call.  The remaining API surface is exercised by the same sanitizer run only.
`int` is modelled as unbounded `Int` (no-overflow is a separate obligation, stated for slices in C04).
-/
namespace Dsp.C05
open Dsp Dsp.Guards

/-- weakest-precondition reading of a model run: never `ub`; if it returns, the result satisfies `Q` -/
def Safe {α : Type} (g : G α) (Q : α → Prop) : Prop :=
  match g with
  | .ok a => Q a
  | .error .throws => True
  | .error (.ub _) => False

def NoUb {α : Type} (g : G α) : Prop := Safe g (fun _ => True)

theorem safe_pure {α} {a : α} {Q : α → Prop} (h : Q a) : Safe (pure a : G α) Q := h
theorem safe_ok {α} {a : α} {Q : α → Prop} (h : Q a) : Safe (.ok a : G α) Q := h

theorem safe_bind {α β} {g : G α} {f : α → G β} {Q : β → Prop}
    (h : Safe g (fun a => Safe (f a) Q)) : Safe (g >>= f) Q := by
  cases g with
  | ok a => exact h
  | error e => cases e with
    | throws => trivial
    | ub r => exact h

theorem safe_mono {α} {g : G α} {Q Q' : α → Prop} (h : Safe g Q) (hq : ∀ a, Q a → Q' a) : Safe g Q' := by
  cases g with
  | ok a => exact hq a h
  | error e => cases e with
    | throws => trivial
    | ub r => exact h

theorem safe_require {c : Prop} [Decidable c] {Q : Unit → Prop} (h : c → Q ()) : Safe (require c) Q := by
  unfold require; split
  · exact h ‹_›
  · trivial

theorem safe_alloc {n : Int} {Q : Unit → Prop} (h : 0 ≤ n → Q ()) : Safe (alloc n) Q := by
  unfold alloc; split
  · exact h ‹_›
  · trivial

theorem safe_access {w : String} {i n : Int} {Q : Unit → Prop} (hb : 0 ≤ i ∧ i < n) (h : Q ()) : Safe (access w i n) Q := by
  unfold access; rw [if_pos hb]; exact h

theorem safe_accessRange {w : String} {lo hi n : Int} {Q : Unit → Prop}
    (hb : lo ≤ hi → 0 ≤ lo ∧ hi < n) (h : Q ()) : Safe (accessRange w lo hi n) Q := by
  unfold accessRange; split
  · exact h
  · rename_i hh
    have := hb (by omega)
    apply safe_bind; apply safe_access (by omega); apply safe_access (by omega); exact h

theorem safe_loop {f : Nat → G Unit} {Q : Unit → Prop} (k : Nat) (hf : ∀ i, i < k → Safe (f i) (fun _ => True)) (h : Q ()) :
    Safe (loop k f) Q := by
  induction k with
  | zero => exact h
  | succ k ih =>
    unfold loop
    apply safe_bind
    apply safe_mono (ih (fun i hi => hf i (by omega)))
    intro _ _
    exact safe_mono (hf k (by omega)) (fun _ _ => h)

theorem safe_loopI {n : Int} {f : Int → G Unit} {Q : Unit → Prop} (hf : ∀ i : Int, 0 ≤ i → i < n → Safe (f i) (fun _ => True)) (h : Q ()) :
    Safe (loopI n f) Q := by
  unfold loopI
  apply safe_loop _ _ h
  intro i hi
  apply hf <;> omega

theorem safe_forM {α} {l : List α} {f : α → G Unit} {Q : Unit → Prop} (hf : ∀ a ∈ l, Safe (f a) (fun _ => True)) (h : Q ()) :
    Safe (l.forM f) Q := by
  induction l with
  | nil => exact h
  | cons a t ih =>
    show Safe (f a >>= fun _ => t.forM f) Q
    apply safe_bind
    apply safe_mono (hf a (by simp))
    intro _ _
    exact ih (fun b hb => hf b (by simp [hb]))

/-- what a constructed slice guarantees to its users -/
structure SliceSpec (n i1 i2 m : Int) (s : Sl) : Prop where
  n_eq : s.n = n
  m_eq : s.m = m
  n_pos : 0 < n
  nc_nonneg : 0 ≤ s.nc
  nc_le : s.nc ≤ n
  first : 0 < s.nc → 0 ≤ s.i1 ∧ s.i1 < n
  last : 0 < s.nc → 0 ≤ s.i1 + (s.nc - 1) * m ∧ s.i1 + (s.nc - 1) * m < n
  step1 : m = 1 → 0 ≤ i1 → 0 ≤ i2 → s.nc = i2 - i1 ∧ s.i1 = i1

/-- the count computed by the constructor: `(nc - 1)·|m| < d ≤ nc·|m|` -/
theorem count_bounds (d t : Int) (hd : 0 ≤ d) (ht : 0 < t) :
    let nc := if Int.tmod d t ≠ 0 then Int.tdiv d t + 1 else Int.tdiv d t
    0 ≤ nc ∧ (0 < d → (nc - 1) * t < d) ∧ d ≤ nc * t ∧ (d = 0 → nc = 0) := by
  intro nc
  have e1 : Int.tdiv d t = d / t := Int.tdiv_eq_ediv_of_nonneg hd
  have e2 : Int.tmod d t = d % t := Int.tmod_eq_emod_of_nonneg hd
  have h1 := Int.mul_ediv_add_emod d t
  have h2 := Int.emod_nonneg d (ne_of_gt ht)
  have h3 := Int.emod_lt_of_pos d ht
  have hq : 0 ≤ d / t := Int.ediv_nonneg hd (le_of_lt ht)
  have hc : t * (d / t) = (d / t) * t := mul_comm _ _
  simp only [nc, e1, e2]
  split
  · rename_i hne
    refine ⟨by omega, fun _ => ?_, ?_, fun h0 => ?_⟩
    · have : (d / t + 1 - 1) * t = (d / t) * t := by ring
      rw [this]; omega
    · have : (d / t + 1) * t = (d / t) * t + t := by ring
      rw [this]; omega
    · subst h0; simp at hne
  · rename_i he
    have he' : d % t = 0 := by omega
    refine ⟨hq, fun hpos => ?_, ?_, fun h0 => ?_⟩
    · have : (d / t - 1) * t = (d / t) * t - t := by ring
      rw [this]; omega
    · omega
    · subst h0; simp

theorem safe_slice {n i1 i2 m : Int} {Q : Sl → Prop} (h : ∀ s, SliceSpec n i1 i2 m s → Q s) :
    Safe (slice n i1 i2 m) Q := by
  unfold slice
  apply safe_bind; apply safe_require; intro hn
  apply safe_bind; apply safe_require; intro hm
  dsimp only
  generalize ha : (if i1 < 0 then n + i1 else i1) = a
  generalize hb : (if i2 < 0 then n + i2 else i2) = b
  have hd0 : (0 : Int) ≤ ((b - a).natAbs : Int) := Int.natCast_nonneg _
  have ht0 : (0 : Int) < (m.natAbs : Int) := by omega
  have hcb := count_bounds ((b - a).natAbs : Int) (m.natAbs : Int) hd0 ht0
  dsimp only at hcb
  generalize hnc : (if Int.tmod ((b - a).natAbs : Int) (m.natAbs : Int) ≠ 0 then Int.tdiv ((b - a).natAbs : Int) (m.natAbs : Int) + 1 else Int.tdiv ((b - a).natAbs : Int) (m.natAbs : Int)) = nc at hcb ⊢
  obtain ⟨c0, c1, c2, c3⟩ := hcb
  apply safe_bind; apply safe_require; intro h1
  apply safe_bind; apply safe_require; intro h2
  apply safe_bind; apply safe_require; intro h3
  apply safe_bind; apply safe_require; intro h4
  apply safe_bind; apply safe_require; intro h5
  have npos : 0 < n := by omega
  -- position of the last element
  have hlast : 0 < nc → 0 ≤ a + (nc - 1) * m ∧ a + (nc - 1) * m < n := by
    intro hpos
    have hdpos : 0 < ((b - a).natAbs : Int) := by
      by_contra hcon
      have : ((b - a).natAbs : Int) = 0 := by omega
      have := c3 this; omega
    have hlt := c1 hdpos
    rcases lt_or_gt_of_ne hm with hneg | hpos'
    · have e : (m.natAbs : Int) = -m := by omega
      have e2 : ((b - a).natAbs : Int) = a - b := by omega
      rw [e, e2] at hlt
      have : (nc - 1) * -m = -((nc - 1) * m) := by ring
      rw [this] at hlt
      have hnn : 0 ≤ (nc - 1) * -m := mul_nonneg (by omega) (by omega)
      rw [this] at hnn
      constructor <;> omega
    · have e : (m.natAbs : Int) = m := by omega
      have e2 : ((b - a).natAbs : Int) = b - a := by omega
      rw [e, e2] at hlt
      have hnn : 0 ≤ (nc - 1) * m := mul_nonneg (by omega) (by omega)
      constructor <;> omega
  have hspec : SliceSpec n i1 i2 m ⟨a, nc, m, n⟩ := by
    refine ⟨rfl, rfl, npos, c0, ?_, ?_, hlast, ?_⟩
    · show nc ≤ n; omega
    · intro _; show 0 ≤ a ∧ a < n; constructor <;> omega
    show m = 1 → 0 ≤ i1 → 0 ≤ i2 → nc = i2 - i1 ∧ a = i1
    intro hm1 hi1 hi2
    have ea : a = i1 := by rw [← ha]; simp; omega
    have eb : b = i2 := by rw [← hb]; simp; omega
    have em : (m.natAbs : Int) = 1 := by omega
    rw [em] at c1 c2
    by_cases hz : ((b - a).natAbs : Int) = 0
    · have := c3 hz; constructor <;> omega
    · have := c1 (by omega)
      constructor <;> omega
  split
  · rename_i hpos
    apply safe_bind; apply safe_access (by constructor <;> omega)
    apply safe_bind; apply safe_access (hlast hpos)
    exact safe_pure (h _ hspec)
  · exact safe_pure (h _ hspec)

theorem safe_sliceLen {n i1 i2 : Int} {Q : Int → Prop} (h : ∀ s, SliceSpec n i1 i2 1 s → Q s.nc) :
    Safe (sliceLen n i1 i2) Q := by
  unfold sliceLen
  apply safe_bind; apply safe_slice; intro s hs
  exact safe_pure (h s hs)


theorem safe_of_noUb {α} {g : G α} {Q : α → Prop} (h : NoUb g) (hq : ∀ a, Q a) : Safe g Q :=
  safe_mono h (fun a _ => hq a)

theorem noUb_iff {α} (g : G α) : NoUb g ↔ ∀ r, g ≠ .error (.ub r) := by
  unfold NoUb Safe
  cases g with
  | ok a => simp
  | error e => cases e <;> simp

theorem safe_sameLen {la lb : Int} {Q : Unit → Prop} (h : la = lb → Q ()) : Safe (sameLen la lb) Q := by
  unfold sameLen
  apply safe_bind; apply safe_require; intro e
  exact safe_accessRange (by intro; omega) (h e)

theorem safe_assignArr {d : Sl} {lr : Int} {Q : Unit → Prop} (h : Q ()) : Safe (assignArr d lr) Q := by
  unfold assignArr
  apply safe_bind; apply safe_slice; intro s _
  apply safe_require; intro _; exact h

theorem safe_assignList {n i1 i2 m : Int} {d : Sl} (hd : SliceSpec n i1 i2 m d) {lr : Int} {Q : Unit → Prop} (h : Q ()) :
    Safe (assignList d lr) Q := by
  unfold assignList
  apply safe_bind; apply safe_require; intro e
  split
  · rename_i hpos
    have f := hd.first (by omega); have l := hd.last (by omega)
    rw [hd.n_eq, hd.m_eq, ← e]
    apply safe_bind; apply safe_access f
    exact safe_access l h
  · exact safe_pure h

/-- one structural step through a model body; arithmetic side conditions by `omega` -/
macro "gstep" : tactic => `(tactic| with_reducible first
  | exact safe_pure trivial
  | apply safe_bind
  | (apply safe_require; intro _)
  | (apply safe_alloc; intro _)
  | (apply safe_sameLen; intro _)
  | (apply safe_slice; intro _ _)
  | (apply safe_sliceLen; intro _ _)
  | apply safe_assignArr
  | (apply safe_accessRange (by intro; omega))
  | (apply safe_access (by omega))
  | apply safe_pure
  | trivial)

macro "gauto" : tactic => `(tactic| repeat (first | gstep | split))

/-! ## per entry point: the modelled run never reaches `ub` -/

theorem binop_noUb (la lb : Int) : NoUb (binop la lb) := by unfold binop NoUb; gauto
theorem cmp_noUb (la lb : Int) : NoUb (Guards.cmp la lb) := by unfold Guards.cmp NoUb; gauto
theorem samelen_noUb (la lb : Int) : NoUb (samelen la lb) := by unfold samelen NoUb; gauto

theorem idxlist_noUb (n : Int) (es : List Int) : NoUb (idxlist n es) := by
  unfold idxlist NoUb
  apply safe_bind; apply safe_forM
  · intro e _
    apply safe_bind; apply safe_require; intro h
    exact safe_access h trivial
  · exact safe_pure trivial

theorem mask_noUb (n : Int) (bits : List Int) : NoUb (mask n bits) := by unfold mask NoUb; gauto

theorem sliceRead_noUb (n i1 i2 m : Int) : NoUb (sliceRead n i1 i2 m) := by unfold sliceRead NoUb; gauto
theorem sasgArr_noUb (n i1 i2 m lr : Int) : NoUb (sasgArr n i1 i2 m lr) := by unfold sasgArr NoUb; gauto
theorem sasgList_noUb (n i1 i2 m lr : Int) : NoUb (sasgList n i1 i2 m lr) := by
  unfold sasgList NoUb; apply safe_bind; apply safe_slice; intro s hs
  apply safe_bind; apply safe_assignList hs; exact safe_pure trivial
theorem sasgSlice_noUb (n d1 d2 dm n2 s1 s2 sm : Int) : NoUb (sasgSlice n d1 d2 dm n2 s1 s2 sm) := by
  unfold sasgSlice NoUb; gauto

theorem plan_noUb (n len : Int) : NoUb (plan n len) := by unfold plan NoUb; gauto

theorem fft1_noUb (lx : Int) : NoUb (fft1 lx) := by
  unfold fft1 NoUb; apply safe_bind; apply safe_require; intro _; exact plan_noUb _ _

theorem fftn_noUb (lx n : Int) : NoUb (fftn lx n) := by
  unfold fftn
  split
  · exact fft1_noUb _
  split
  · exact plan_noUb _ _
  · unfold NoUb; apply safe_bind; apply safe_sliceLen; intro s _; exact fft1_noUb _

theorem tdiv2_pos {n : Int} (h : Int.tdiv n 2 ≥ 1) : 0 ≤ n := by
  by_contra hc
  have h0 : -n ≥ 0 := by omega
  have h1 : 0 ≤ Int.tdiv (-n) 2 := Int.tdiv_nonneg h0 (by omega)
  rw [Int.neg_tdiv] at h1
  omega

theorem irfft_noUb (lx n : Int) : NoUb (irfft lx n) := by
  unfold irfft NoUb
  apply safe_bind; apply safe_require; intro h1
  apply safe_bind; apply safe_require; intro h2
  apply safe_bind; apply safe_require; intro h3
  have hn : 0 ≤ n := tdiv2_pos h1
  have e1 : Int.tdiv n 2 = n / 2 := Int.tdiv_eq_ediv_of_nonneg hn
  have e2 : Int.tmod n 2 = n % 2 := Int.tmod_eq_emod_of_nonneg hn
  rw [e1] at h1 h3 ⊢; rw [e2] at h2
  apply safe_bind; apply safe_accessRange (by intro; omega)
  apply safe_bind; apply safe_accessRange (by intro; omega)
  apply safe_bind; exact safe_of_noUb (plan_noUb _ _) (fun _ => safe_pure trivial)

theorem le_pow2ceil (m : Int) : m ≤ pow2ceil m ∧ 1 ≤ pow2ceil m := by
  unfold pow2ceil np2
  have hpos : ∀ k : Nat, (1 : Int) ≤ ((2 ^ k : Nat) : Int) := fun k => by exact_mod_cast Nat.one_le_two_pow
  split
  · rename_i h
    constructor
    · simp; omega
    · simp
  · rename_i h
    constructor
    · have := @Nat.lt_log2_self (m.toNat - 1)
      have h2 : m.toNat ≤ 2 ^ ((m.toNat - 1).log2 + 1) := by omega
      have h3 : (m.toNat : Int) ≤ ((2 ^ ((m.toNat - 1).log2 + 1) : Nat) : Int) := by exact_mod_cast h2
      omega
    · exact hpos _

theorem czt_noUb (n m len : Int) (_hn : 1 ≤ n) (hm : 1 ≤ m) : NoUb (czt n m len) := by
  unfold czt NoUb
  apply safe_bind; apply safe_require; intro h
  dsimp only
  have := le_pow2ceil (m + n - 1)
  apply safe_bind; apply safe_accessRange (by intro; omega)
  apply safe_bind; exact safe_of_noUb (plan_noUb _ _) (fun _ => by gauto)

theorem firconv_noUb (lx lh : Int) : NoUb (firconv lx lh) := by
  unfold firconv NoUb
  dsimp only
  gauto

theorem fir_noUb (lh lx : Int) : NoUb (fir lh lx) := by
  unfold fir NoUb
  dsimp only
  apply safe_bind; exact safe_of_noUb (firconv_noUb _ _) (fun r => by gauto)


theorem safe_plan {n len : Int} {Q : List Int → Prop} (h : len = n → Q [n]) : Safe (plan n len) Q := by
  unfold plan
  apply safe_bind; apply safe_require; intro e
  apply safe_bind; apply safe_accessRange (by intro; omega)
  exact safe_pure (h e)

theorem safe_fft1 {lx : Int} {Q : List Int → Prop} (h : 1 ≤ lx → Q [lx]) : Safe (fft1 lx) Q := by
  unfold fft1
  apply safe_bind; apply safe_require; intro e
  exact safe_plan (fun _ => h e)

/-- second-level step: calls of already verified sub-models and counted loops -/
macro "gstep2" : tactic => `(tactic| with_reducible first
  | gstep
  | (refine safe_loopI (fun _ _ _ => ?_) ?_)
  | (refine safe_of_noUb (plan_noUb _ _) (fun _ => ?_))
  | (refine safe_of_noUb (fft1_noUb _) (fun _ => ?_))
  | (refine safe_of_noUb (fftn_noUb _ _) (fun _ => ?_))
  | (refine safe_of_noUb (irfft_noUb _ _) (fun _ => ?_))
  | (refine safe_of_noUb (firconv_noUb _ _) (fun _ => ?_)))

macro "gauto2" : tactic => `(tactic| repeat (first | gstep2 | split))

/-- `gauto2` with one extra closing step for the calls of a sub-model -/
macro "gauto3" "[" t:tactic "]" : tactic => `(tactic| repeat (first | gstep2 | split | $t:tactic))

theorem fftfiltGo_noUb (lh fftLen : Int) (h1 : 1 ≤ lh) (h2 : 2 * lh ≤ fftLen) (frames : List Int) :
    ∀ nx, NoUb (fftfiltGo lh fftLen (fftLen - lh + 1) nx frames) := by
  induction frames with
  | nil => intro nx; unfold fftfiltGo NoUb; exact safe_pure trivial
  | cons lx rest ih =>
    intro nx
    unfold fftfiltGo NoUb
    dsimp only
    gauto3 [refine safe_of_noUb (ih _) (fun _ => ?_)]

theorem fftfilt_noUb (lh : Int) (frames : List Int) (h1 : 1 ≤ lh) : NoUb (fftfilt lh frames) := by
  unfold fftfilt NoUb
  dsimp only
  apply safe_bind; apply safe_alloc; intro _
  exact fftfiltGo_noUb lh _ h1 (le_pow2ceil (2 * lh)).1 frames 0

/-- the zero-padded prototype length is `n·m`, `n = sublen` -/
theorem polyphase_len (lh m : Int) (h0 : 0 ≤ lh) (hm : 1 ≤ m) :
    Int.tdiv (if Int.tmod lh m = 0 then lh else (Int.tdiv lh m + 1) * m) m = sublen lh m ∧
    sublen lh m * m = (if Int.tmod lh m = 0 then lh else (Int.tdiv lh m + 1) * m) ∧ lh ≤ sublen lh m * m ∧ 0 ≤ sublen lh m ∧
    (0 < lh → 1 ≤ sublen lh m) := by
  have e1 : Int.tdiv lh m = lh / m := Int.tdiv_eq_ediv_of_nonneg h0
  have e2 : Int.tmod lh m = lh % m := Int.tmod_eq_emod_of_nonneg h0
  have hq : 0 ≤ lh / m := Int.ediv_nonneg h0 (by omega)
  have hdm := Int.mul_ediv_add_emod lh m
  have hc : m * (lh / m) = lh / m * m := mul_comm _ _
  have hlt := Int.emod_lt_of_pos lh (show 0 < m by omega)
  have hnn := Int.emod_nonneg lh (show m ≠ 0 by omega)
  unfold sublen
  rw [e1, e2]
  split
  · rename_i hz
    rw [e1]
    refine ⟨rfl, by omega, by omega, hq, fun hp => ?_⟩
    by_contra hc2
    have hz0 : lh / m = 0 := by omega
    rw [hz0] at hdm; simp at hdm; omega
  · have hpos : 0 ≤ (lh / m + 1) * m := mul_nonneg (by omega) (by omega)
    have ex : (lh / m + 1) * m = lh / m * m + m := by ring
    refine ⟨?_, rfl, by omega, by omega, fun _ => by omega⟩
    rw [Int.tdiv_eq_ediv_of_nonneg hpos, Int.mul_ediv_cancel _ (show m ≠ 0 by omega)]

theorem polyphase_noUb (lh m : Int) (h0 : 0 ≤ lh) (hm : 1 ≤ m) : NoUb (polyphase lh m) := by
  obtain ⟨p1, p2, p3, p4, _⟩ := polyphase_len lh m h0 hm
  unfold polyphase NoUb
  dsimp only
  rw [p1, ← p2]
  apply safe_bind; apply safe_require; intro _
  apply safe_bind; apply safe_alloc; intro _
  have ex : m - 1 + (sublen lh m - 1) * m = sublen lh m * m - 1 := by ring
  rw [ex]
  gauto

theorem decim_noUb (d lh lx : Int) (hd : 1 ≤ d) (hh : 0 ≤ lh) (hx : 0 ≤ lx) : NoUb (decim d lh lx) := by
  unfold decim NoUb
  dsimp only
  apply safe_bind; refine safe_of_noUb (polyphase_noUb lh d hh hd) (fun _ => ?_)
  apply safe_bind; apply safe_alloc; intro hnd
  apply safe_bind; apply safe_require; intro hmod
  apply safe_bind; apply safe_accessRange (by intro; omega)
  have e1 : Int.tdiv lx d = lx / d := Int.tdiv_eq_ediv_of_nonneg hx
  have e2 : Int.tmod lx d = lx % d := Int.tmod_eq_emod_of_nonneg hx
  rw [e1]; rw [e2] at hmod
  have hdm := Int.mul_ediv_add_emod lx d
  have ex : (lx / d - 1) * d + (d - 1) + (sublen lh d - 1) * d = d * (lx / d) + d * (sublen lh d - 1) - 1 := by ring
  rw [ex]
  gauto

theorem interp_noUb (L lh lx : Int) (hL : 1 ≤ L) (hh : 0 ≤ lh) (hx : 0 ≤ lx) : NoUb (interp L lh lx) := by
  unfold interp NoUb
  dsimp only
  apply safe_bind; refine safe_of_noUb (polyphase_noUb lh L hh hL) (fun _ => ?_)
  gauto

theorem zeropad_noUb (lx n : Int) : NoUb (zeropad lx n) := by unfold zeropad NoUb; gauto
theorem linspace_noUb (n : Int) : NoUb (linspace n) := by unfold linspace NoUb; gauto
theorem arange_noUb (a b s : Int) : NoUb (arange a b s) := by unfold arange NoUb; gauto
theorem toComplex_noUb (n : Int) : NoUb (toComplex n) := by unfold toComplex NoUb; gauto
theorem finddelay_noUb (a b : Int) : NoUb (finddelay a b) := by unfold finddelay NoUb; dsimp only; gauto2

theorem repelem_noUb (lx n : Int) : NoUb (repelem lx n) := by
  unfold repelem NoUb
  have ex : (lx - 1) * n + n - 1 = lx * n - 1 := by ring
  rw [ex]
  gauto

theorem delayseq_noUb (n d : Int) : NoUb (delayseq n d) := by
  unfold delayseq NoUb
  dsimp only
  gauto

theorem downsample_noUb (lx n ph : Int) : NoUb (downsample lx n ph) := by
  unfold downsample NoUb
  apply safe_bind; apply safe_require; intro hn
  apply safe_bind; apply safe_require; intro hp
  split
  · exact safe_pure trivial
  dsimp only
  apply safe_bind; apply safe_alloc; intro hnr
  by_cases hc : lx > ph
  · rw [if_pos hc]
    have ha : 0 ≤ lx - ph - 1 := by omega
    rw [Int.tdiv_eq_ediv_of_nonneg ha] at hnr ⊢
    have hle := Int.ediv_mul_le (lx - ph - 1) (show n ≠ 0 by omega)
    have ex : ((lx - ph - 1) / n + 1 - 1) * n = (lx - ph - 1) / n * n := by ring
    rw [ex]
    have hq : 0 ≤ (lx - ph - 1) / n := Int.ediv_nonneg ha (by omega)
    gauto
  · rw [if_neg hc]
    have ex : ((0 : Int) - 1) * n = -n := by ring
    rw [ex]
    gauto

theorem upsample_noUb (lx n ph : Int) : NoUb (upsample lx n ph) := by
  unfold upsample NoUb
  apply safe_bind; apply safe_require; intro hn
  apply safe_bind; apply safe_require; intro hp
  split
  · exact safe_pure trivial
  dsimp only
  by_cases hc : lx * n > ph
  · rw [if_pos hc]
    have ha : 0 ≤ lx * n - ph - 1 := by omega
    have hle := Int.ediv_mul_le (lx * n - ph - 1) (show n ≠ 0 by omega)
    have hlt : (lx * n - ph - 1) / n < lx := Int.ediv_lt_of_lt_mul (by omega) (by omega)
    have ex : ((lx * n - ph - 1) / n + 1 - 1) * n = (lx * n - ph - 1) / n * n := by ring
    rw [ex]
    have hq : 0 ≤ (lx * n - ph - 1) / n := Int.ediv_nonneg ha (by omega)
    gauto
  · rw [if_neg hc]
    have ex : ((0 : Int) - 1) * n = -n := by ring
    rw [ex]
    gauto

theorem symWindow_noUb (n : Int) (sym : Bool) (taper : Int → Int → G Unit)
    (ht : ∀ np m, 0 ≤ m → (Int.tmod np 2 = 0 ∧ m = Int.tdiv np 2 ∨ Int.tmod np 2 ≠ 0 ∧ m = Int.tdiv (np + 1) 2) → NoUb (taper np m)) :
    NoUb (symWindow n sym taper) := by
  unfold symWindow NoUb
  cases sym <;> simp only [Bool.false_eq_true, if_false, if_true] <;>
  · apply safe_bind; apply safe_alloc; intro _
    split
    · rename_i he
      gauto3 [refine safe_of_noUb (ht _ _ (by assumption) (Or.inl ⟨he, rfl⟩)) (fun _ => ?_)]
    · rename_i he
      gauto3 [refine safe_of_noUb (ht _ _ (by assumption) (Or.inr ⟨he, rfl⟩)) (fun _ => ?_)]

theorem window_noUb (n : Int) (sym : Bool) : NoUb (window n sym) := by
  unfold window
  exact symWindow_noUb n sym _ (fun _ _ _ _ => safe_pure trivial)

theorem kaiser_noUb (n : Int) : NoUb (kaiser n) := by unfold kaiser NoUb; dsimp only; gauto

theorem medianfilter_noUb (n lx : Int) : NoUb (medianfilter n lx) := by
  unfold medianfilter NoUb
  apply safe_bind; apply safe_require; intro hn
  have e : Int.tdiv n 2 = n / 2 := Int.tdiv_eq_ediv_of_nonneg (by omega)
  rw [e]
  gauto

theorem medfilt_noUb (lx n : Int) : NoUb (medfilt lx n) := by
  unfold medfilt NoUb
  dsimp only
  apply safe_bind; refine safe_of_noUb (medianfilter_noUb _ _) (fun _ => ?_)
  gauto

theorem iscola_noUb (lw nov : Int) : NoUb (iscola lw nov) := by
  unfold iscola NoUb
  dsimp only
  apply safe_bind; apply safe_require; intro hh
  have e : Int.tdiv (lw - nov) 2 = (lw - nov) / 2 := Int.tdiv_eq_ediv_of_nonneg (by omega)
  rw [e]
  gauto2

theorem convertRangeStft_noUb (nfft range : Int) : NoUb (convertRangeStft nfft range) := by
  unfold convertRangeStft NoUb; gauto

theorem stft_noUb (lx lw ov nfft range : Int) : NoUb (stft lx lw ov nfft range) := by
  unfold stft NoUb
  dsimp only
  gauto3 [refine safe_of_noUb (convertRangeStft_noUb _ _) (fun _ => ?_)]

theorem convertRangeIstft_noUb (lf nfft range : Int) : NoUb (convertRangeIstft lf nfft range) := by
  unfold convertRangeIstft NoUb; gauto

theorem istft_noUb (nseg lf lw ov nfft range : Int) : NoUb (istft nseg lf lw ov nfft range) := by
  unfold istft NoUb
  dsimp only
  gauto3 [refine safe_of_noUb (convertRangeIstft_noUb _ _ _) (fun _ => ?_)]

theorem isPow2_pos {n : Int} (h : isPow2 n) : 1 ≤ n := by
  unfold isPow2 at h; have := (le_pow2ceil n).2; omega

theorem welch_noUb (lx lw nov nfft cplx : Int) : NoUb (welch lx lw nov nfft cplx) := by
  unfold welch NoUb
  dsimp only
  apply safe_bind; apply safe_require; intro hp
  have hpos := isPow2_pos hp
  have e : Int.tdiv nfft 2 = nfft / 2 := Int.tdiv_eq_ediv_of_nonneg (by omega)
  rw [e]
  apply safe_bind; apply safe_require; intro _
  apply safe_bind; apply safe_alloc; intro _
  apply safe_bind; apply safe_alloc; intro _
  apply safe_bind
  refine safe_loopI (fun _ _ _ => ?_) ?_
  · gauto2
  · split
    · apply safe_bind; apply safe_sliceLen; intro s hs
      have := hs.step1 rfl (by omega) (by omega)
      apply safe_bind; apply safe_access (by omega)
      exact safe_pure trivial
    · exact safe_pure trivial

theorem mscohere_noUb (lx ly lw nov nfft : Int) : NoUb (mscohere lx ly lw nov nfft) := by
  unfold mscohere NoUb
  dsimp only
  gauto2

theorem lms_noUb (len lx ld : Int) : NoUb (lms len lx ld) := by
  unfold lms NoUb
  dsimp only
  gauto

theorem rls_noUb (n lx ld : Int) : NoUb (rls n lx ld) := by
  unfold rls NoUb
  have ex : (n - 1) * n + (n - 1) = n * n - 1 := by ring
  rw [ex]
  gauto

theorem delay_noUb (nd lx : Int) : NoUb (delay nd lx) := by unfold delay NoUb; dsimp only; gauto
theorem xcorr_noUb (l1 l2 : Int) : NoUb (xcorr l1 l2) := by unfold xcorr NoUb; dsimp only; gauto2

theorem hilbert_noUb (n : Int) : NoUb (hilbert n) := by
  unfold hilbert NoUb
  apply safe_bind; apply safe_fft1; intro hn
  have e : Int.tdiv n 2 = n / 2 := Int.tdiv_eq_ediv_of_nonneg (by omega)
  rw [e]
  gauto


theorem tukey_noUb (n rn rd : Int) (hrd : 0 < rd) : NoUb (tukey n rn rd) := by
  unfold tukey
  apply symWindow_noUb
  intro np m hm hrel
  unfold NoUb
  split
  · exact safe_pure trivial
  · rename_i hr
    have hr1 : 0 < rn := by omega
    have hr2 : rn < rd := by omega
    apply safe_accessRange _ trivial
    intro hhi
    refine ⟨le_refl _, ?_⟩
    by_cases hnp : np ≤ 0
    · have hneg : rn * (np - 1) < 0 := mul_neg_of_pos_of_neg hr1 (by omega)
      have := Int.ediv_neg_of_neg_of_pos hneg (show 0 < 2 * rd by omega)
      omega
    · have hle : rn * (np - 1) ≤ rd * (np - 1) := mul_le_mul_of_nonneg_right (le_of_lt hr2) (by omega)
      have h1 := Int.ediv_le_ediv (show 0 < 2 * rd by omega) hle
      have h2 : rd * (np - 1) / (2 * rd) = (np - 1) / 2 := by
        rw [show 2 * rd = rd * 2 by ring]; exact Int.mul_ediv_mul_of_pos _ _ hrd
      have e1 : Int.tdiv np 2 = np / 2 := Int.tdiv_eq_ediv_of_nonneg (by omega)
      have e2 : Int.tmod np 2 = np % 2 := Int.tmod_eq_emod_of_nonneg (by omega)
      have e3 : Int.tdiv (np + 1) 2 = (np + 1) / 2 := Int.tdiv_eq_ediv_of_nonneg (by omega)
      rw [e1, e2, e3] at hrel
      omega


/-! ### the branch table of `FIRRateConverter` -/

theorem xidxsInner_spec (M i : Nat) (hM : 1 ≤ M) (k : Nat) : ∀ st acc, st < M →
    (xidxsInner M i k st acc).2.length * M + (xidxsInner M i k st acc).1 = acc.length * M + st + k ∧
    (xidxsInner M i k st acc).1 < M ∧ ∀ x ∈ (xidxsInner M i k st acc).2, x ∈ acc ∨ x = i := by
  induction k with
  | zero => intro st acc h; unfold xidxsInner; exact ⟨by simp, h, fun x hx => Or.inl hx⟩
  | succ k ih =>
    intro st acc h
    unfold xidxsInner
    split
    · rename_i he
      obtain ⟨a, b, c⟩ := ih 0 (acc ++ [i]) (by omega)
      refine ⟨?_, b, fun x hx => ?_⟩
      · rw [a, List.length_append, List.length_singleton, Nat.add_mul]; omega
      · rcases c x hx with h1 | h1
        · rcases List.mem_append.mp h1 with h2 | h2
          · exact Or.inl h2
          · exact Or.inr (by simpa using h2)
        · exact Or.inr h1
    · rename_i he
      obtain ⟨a, b, c⟩ := ih (st + 1) acc (by omega)
      exact ⟨by omega, b, c⟩

theorem xidxsOuter_spec (L M : Nat) (hM : 1 ≤ M) (r : Nat) : ∀ i st acc, st < M →
    ∃ st', (xidxsOuter L M r i st acc).length * M + st' = acc.length * M + st + r * L ∧ st' < M ∧
      ∀ x ∈ xidxsOuter L M r i st acc, x ∈ acc ∨ (i ≤ x ∧ x < i + r) := by
  induction r with
  | zero => intro i st acc h; unfold xidxsOuter; exact ⟨st, by omega, h, fun x hx => Or.inl hx⟩
  | succ r ih =>
    intro i st acc h
    unfold xidxsOuter
    dsimp only
    obtain ⟨a, b, c⟩ := xidxsInner_spec M i hM L st acc h
    obtain ⟨st', a', b', c'⟩ := ih (i + 1) _ (xidxsInner M i L st acc).2 b
    refine ⟨st', ?_, b', fun x hx => ?_⟩
    · rw [a', Nat.add_mul]; omega
    · rcases c' x hx with h1 | h1
      · rcases c x h1 with h2 | h2
        · exact Or.inl h2
        · exact Or.inr (by omega)
      · exact Or.inr (by omega)

theorem xidxs_spec (L M : Nat) (hM : 1 ≤ M) : (xidxs L M).length = L ∧ ∀ x ∈ xidxs L M, x < M := by
  unfold xidxs
  obtain ⟨st', a, b, c⟩ := xidxsOuter_spec L M hM M 0 0 [] (by omega)
  simp only [List.length_nil, Nat.zero_mul, Nat.zero_add] at a
  constructor
  · generalize (xidxsOuter L M M 0 0 []).length = len at a
    rcases Nat.lt_trichotomy len L with h | h | h
    · have := Nat.mul_le_mul_right M (show len + 1 ≤ L by omega)
      rw [Nat.add_mul, Nat.mul_comm M L] at *
      omega
    · exact h
    · have := Nat.mul_le_mul_right M (show L + 1 ≤ len by omega)
      rw [Nat.add_mul, Nat.mul_comm M L] at *
      omega
  · intro x hx
    rcases c x hx with h | h
    · simp at h
    · omega

theorem rateconv_noUb (L M lh lx : Int) (hL : 1 ≤ L) (hM : 1 ≤ M) (hh : 0 ≤ lh) (hx : 0 ≤ lx) : NoUb (rateconv L M lh lx) := by
  obtain ⟨xl, xb⟩ := xidxs_spec L.toNat M.toNat (by omega)
  unfold rateconv NoUb
  dsimp only
  apply safe_bind; refine safe_of_noUb (polyphase_noUb lh L hh hL) (fun _ => ?_)
  apply safe_bind; apply safe_alloc; intro hnd
  apply safe_bind; apply safe_require; intro hmod
  apply safe_bind; apply safe_accessRange (by intro; omega)
  have e1 : Int.tdiv lx M = lx / M := Int.tdiv_eq_ediv_of_nonneg hx
  have e2 : Int.tmod lx M = lx % M := Int.tmod_eq_emod_of_nonneg hx
  rw [e1]; rw [e2] at hmod
  have hdm := Int.mul_ediv_add_emod lx M
  split
  · apply safe_bind; apply safe_access (by rw [xl]; omega)
    split
    · apply safe_bind
      · apply safe_forM _ trivial
        intro off hoff
        have hb := xb off hoff
        have ex : (lx / M - 1) * M + (off : Int) + (sublen lh L - 1) = M * (lx / M) - M + (off : Int) + (sublen lh L - 1) := by ring
        rw [ex]
        exact safe_accessRange (by intro; omega) trivial
    · exact safe_pure trivial
  · exact safe_pure trivial


theorem reduced_pos (a b : Int) (ha : 1 ≤ a) : 1 ≤ Int.tdiv a ((Nat.gcd a.toNat b.toNat : Nat) : Int) := by
  have e : a = (a.toNat : Int) := (Int.toNat_of_nonneg (by omega)).symm
  have hpos : 0 < a.toNat := by omega
  rw [e, ← Int.ofNat_tdiv]
  have h1 : 0 < Nat.gcd a.toNat b.toNat := Nat.gcd_pos_of_pos_left _ hpos
  have h2 : Nat.gcd a.toNat b.toNat ≤ a.toNat := Nat.gcd_le_left _ hpos
  have := Nat.div_pos h2 h1
  simp only [Int.toNat_natCast]
  exact_mod_cast this

theorem reduced_pos' (a b : Int) (hb : 1 ≤ b) : 1 ≤ Int.tdiv b ((Nat.gcd a.toNat b.toNat : Nat) : Int) := by
  rw [Nat.gcd_comm]; exact reduced_pos b a hb

theorem nextSize_nonneg (size q : Int) (hs : 0 ≤ size) (hq : 1 ≤ q) : 0 ≤ nextSize size q := by
  unfold nextSize
  split
  · exact hs
  · exact mul_nonneg (by have := Int.tdiv_nonneg hs (show (0 : Int) ≤ q by omega); omega) (by omega)

theorem sublen_nonneg (lh m : Int) (h0 : 0 ≤ lh) (hm : 1 ≤ m) : 0 ≤ sublen lh m := (polyphase_len lh m h0 hm).2.2.2.1

theorem resampleDelay_nonneg (p q lh : Int) (hp : 1 ≤ p) (hq : 1 ≤ q) (hh : 0 ≤ lh) : 0 ≤ resampleDelay p q lh := by
  unfold resampleDelay
  have s1 := sublen_nonneg lh q hh hq
  have s2 := sublen_nonneg lh p hh hp
  split
  · exact Int.tdiv_nonneg s1 (by omega)
  split
  · exact Int.tdiv_nonneg (mul_nonneg s2 (by omega)) (by omega)
  · dsimp only
    split
    · omega
    · exact Int.tdiv_nonneg (by omega) (by omega)

theorem resample_noUb (lx p0 q0 lh : Int) (hp : 1 ≤ p0) (hq : 1 ≤ q0) (hh : 0 ≤ lh) (hx : 0 ≤ lx) : NoUb (resample lx p0 q0 lh) := by
  unfold resample NoUb
  dsimp only
  have p1 := reduced_pos p0 q0 hp
  have q1 := reduced_pos' p0 q0 hq
  generalize Int.tdiv p0 ((Nat.gcd p0.toNat q0.toNat : Nat) : Int) = p at p1 ⊢
  generalize Int.tdiv q0 ((Nat.gcd p0.toNat q0.toNat : Nat) : Int) = q at q1 ⊢
  split
  · exact safe_pure trivial
  split
  · exact safe_pure trivial
  have hnx := nextSize_nonneg lx q hx q1
  have hdl := resampleDelay_nonneg p q lh p1 q1 hh
  have hmdl : 0 ≤ Int.tdiv (resampleDelay p q lh * q + p - 1) p :=
    Int.tdiv_nonneg (by have := mul_nonneg hdl (show (0 : Int) ≤ q by omega); omega) (by omega)
  have hnn := nextSize_nonneg (nextSize lx q + Int.tdiv (resampleDelay p q lh * q + p - 1) p) q (by omega) q1
  apply safe_bind; apply safe_require; intro _
  split
  · apply safe_bind; refine safe_of_noUb (decim_noUb q lh _ q1 hh hnn) (fun _ => ?_); gauto
  split
  · apply safe_bind; refine safe_of_noUb (interp_noUb p lh _ p1 hh hnn) (fun _ => ?_); gauto
  · apply safe_bind; refine safe_of_noUb (rateconv_noUb p q lh _ p1 q1 hh hnn) (fun _ => ?_); gauto


/-! ## T05.1 -/

/-- the documented ranges of the modelled calls: rates / orders / plan sizes ≥ 1, array lengths ≥ 0, a positive
denominator for the `tukey` ratio.  Every other entry point is unconstrained (any integers). -/
def documented : Call → Prop
  | .czt n m _ => 1 ≤ n ∧ 1 ≤ m
  | .fftfilt lh _ => 1 ≤ lh
  | .polyphase lh m => 0 ≤ lh ∧ 1 ≤ m
  | .decim d lh lx => 1 ≤ d ∧ 0 ≤ lh ∧ 0 ≤ lx
  | .interp L lh lx => 1 ≤ L ∧ 0 ≤ lh ∧ 0 ≤ lx
  | .rateconv L M lh lx => 1 ≤ L ∧ 1 ≤ M ∧ 0 ≤ lh ∧ 0 ≤ lx
  | .resample lx p q lh => 1 ≤ p ∧ 1 ≤ q ∧ 0 ≤ lh ∧ 0 ≤ lx
  | .tukey _ _ rd => 0 < rd
  | _ => True

theorem run_noUb (c : Call) (h : documented c) : NoUb c.run := by
  cases c with
  | binop a b => exact binop_noUb a b
  | cmp a b => exact cmp_noUb a b
  | samelen a b => exact samelen_noUb a b
  | idxlist n es => exact idxlist_noUb n es
  | mask n bs => exact mask_noUb n bs
  | slice n a b m => exact sliceRead_noUb n a b m
  | sasgArr n a b m l => exact sasgArr_noUb n a b m l
  | sasgList n a b m l => exact sasgList_noUb n a b m l
  | sasgSlice n a b c n2 d e f => exact sasgSlice_noUb n a b c n2 d e f
  | plan n l => exact plan_noUb n l
  | fft l => exact fft1_noUb l
  | fftn l n => exact fftn_noUb l n
  | irfft l n => exact irfft_noUb l n
  | czt n m l => exact czt_noUb n m l h.1 h.2
  | firconv a b => exact firconv_noUb a b
  | fir a b => exact fir_noUb a b
  | fftfilt lh fr => exact fftfilt_noUb lh fr h
  | polyphase a b => exact polyphase_noUb a b h.1 h.2
  | decim a b c => exact decim_noUb a b c h.1 h.2.1 h.2.2
  | interp a b c => exact interp_noUb a b c h.1 h.2.1 h.2.2
  | rateconv a b c d => exact rateconv_noUb a b c d h.1 h.2.1 h.2.2.1 h.2.2.2
  | resample a b c d => exact resample_noUb a b c d h.1 h.2.1 h.2.2.1 h.2.2.2
  | zeropad a b => exact zeropad_noUb a b
  | repelem a b => exact repelem_noUb a b
  | delayseq a b => exact delayseq_noUb a b
  | downsample a b c => exact downsample_noUb a b c
  | upsample a b c => exact upsample_noUb a b c
  | finddelay a b => exact finddelay_noUb a b
  | linspace n => exact linspace_noUb n
  | arange a b s => exact arange_noUb a b s
  | toComplex n => exact toComplex_noUb n
  | window n s => exact window_noUb n s
  | tukey n a b => exact tukey_noUb n a b h
  | kaiser n => exact kaiser_noUb n
  | medianfilter n l => exact medianfilter_noUb n l
  | medfilt l n => exact medfilt_noUb l n
  | iscola a b => exact iscola_noUb a b
  | stft a b c d e => exact stft_noUb a b c d e
  | istft a b c d e f => exact istft_noUb a b c d e f
  | welch a b c d e => exact welch_noUb a b c d e
  | mscohere a b c d e => exact mscohere_noUb a b c d e
  | lms a b c => exact lms_noUb a b c
  | rls a b c => exact rls_noUb a b c
  | delay a b => exact delay_noUb a b
  | xcorr a b => exact xcorr_noUb a b
  | hilbert n => exact hilbert_noUb n

/-- **T05.1 `no_ub`** — "either returns normally or throws a C++ exception … never reads or writes outside the storage of
its operands": for every modelled call in the documented ranges the modelled outcome is `ok shape` or `throws`, never `ub`;
since `ub` is what the model produces when an unchecked subscript leaves its buffer (`access_ok_iff`), every modelled access
of a returning call is in bounds.  Lengths, index lists, plan sizes, slice arguments range over ALL integers. -/
theorem no_ub (c : Call) (h : documented c) : ∀ r, c.outcome ≠ .ub r := by
  intro r
  have := (noUb_iff _).mp (run_noUb c h) r
  unfold Call.outcome outcome
  intro hc
  split at hc <;> simp_all

/-- the meaning of `ok` for a raw subscript: `access` returns exactly when the index is inside the buffer -/
theorem access_ok_iff (w : String) (i n : Int) : access w i n = .ok () ↔ 0 ≤ i ∧ i < n := by
  unfold access; split <;> simp_all

/-- a constructed slice satisfies its specification (used below) -/
theorem slice_spec {n i1 i2 m : Int} {s : Sl} (h : slice n i1 i2 m = .ok s) : SliceSpec n i1 i2 m s := by
  have := safe_slice (n := n) (i1 := i1) (i2 := i2) (m := m) (Q := SliceSpec n i1 i2 m) (fun _ hs => hs)
  rw [h] at this; exact this

/-- C04's `in_bounds`, restated for this model: EVERY position `i1 + j·m`, `j < nc`, the iterator of a constructed slice
visits lies in `[0, n)` — not only the two extreme ones the model checks; all `n i1 i2 m : Int`. -/
theorem slice_in_bounds {n i1 i2 m : Int} {s : Sl} (h : slice n i1 i2 m = .ok s) (j : Int) (h0 : 0 ≤ j) (h1 : j < s.nc) :
    0 ≤ s.i1 + j * m ∧ s.i1 + j * m < n := by
  have hs := slice_spec h
  have f := hs.first (by omega)
  have l := hs.last (by omega)
  rcases le_or_gt 0 m with hm | hm
  · have a1 : 0 ≤ j * m := mul_nonneg h0 hm
    have a2 : j * m ≤ (s.nc - 1) * m := mul_le_mul_of_nonneg_right (by omega) hm
    constructor <;> omega
  · have a1 : j * m ≤ 0 := mul_nonpos_of_nonneg_of_nonpos h0 (le_of_lt hm)
    have a2 : (s.nc - 1) * m ≤ j * m := mul_le_mul_of_nonpos_right (by omega) (le_of_lt hm)
    constructor <;> omega

/-! ## T05.2: the misuse classes are exactly the `throws` outcomes -/

/-- "mismatched array lengths": `a ∘= b`, `a ∘ b` throw exactly when the lengths differ -/
theorem binop_throws_iff (la lb : Int) : outcome (binop la lb) = .throws ↔ la ≠ lb := by
  unfold binop sameLen require accessRange access outcome
  by_cases h : la = lb
  · subst h
    by_cases h2 : la - 1 < 0
    · simp [h2, bind, Except.bind, pure, Except.pure]
    · have h3 : 0 ≤ la - 1 ∧ la - 1 < la := by omega
      have h4 : (0 : Int) ≤ 0 ∧ 0 < la := by omega
      have h5 : 1 ≤ la := by omega
      simp [h2, h3, h4, h5, bind, Except.bind, pure, Except.pure]
  · simp [h, bind, Except.bind]

/-- "plan objects applied to inputs of another length": throws exactly when `len ≠ n` -/
theorem plan_throws_iff (n len : Int) : outcome (plan n len) = .throws ↔ len ≠ n := by
  unfold plan require accessRange access outcome
  by_cases h : len = n
  · subst h
    by_cases h2 : len - 1 < 0
    · simp [h2, bind, Except.bind, pure, Except.pure]
    · have h3 : 0 ≤ len - 1 ∧ len - 1 < len := by omega
      have h4 : (0 : Int) ≤ 0 ∧ 0 < len := by omega
      have h5 : 1 ≤ len := by omega
      simp [h2, h3, h4, h5, bind, Except.bind, pure, Except.pure]
  · simp [h, bind, Except.bind]

/-- "out-of-range or negative entries in index lists": `a[idxs]` returns `|idxs|` elements when every entry is in `[0, n)`
(in particular for the empty list) -/
theorem idxlist_ok (n : Int) (es : List Int) (h : ∀ e ∈ es, 0 ≤ e ∧ e < n) : idxlist n es = .ok [(es.length : Int)] := by
  unfold idxlist
  have : es.forM (fun e => do require (e ≥ 0 ∧ e < n); access "_vec[idxs[i]]" e n) = (.ok () : G Unit) := by
    induction es with
    | nil => rfl
    | cons a t ih =>
      have ha := h a (by simp)
      show ((do require (a ≥ 0 ∧ a < n); access "_vec[idxs[i]]" a n) >>= fun _ => t.forM _) = _
      rw [ih (fun e he => h e (by simp [he]))]
      simp [require, access, ha, bind, Except.bind]
  rw [this]; rfl

/-- … and throws as soon as one entry is negative or ≥ n -/
theorem idxlist_throws (n : Int) (es : List Int) (h : ∃ e ∈ es, e < 0 ∨ e ≥ n) : outcome (idxlist n es) = .throws := by
  have hn := (noUb_iff _).mp (idxlist_noUb n es)
  cases hr : idxlist n es with
  | error e => cases e with
    | throws => rfl
    | ub r => exact absurd hr (hn r)
  | ok s =>
    exfalso
    obtain ⟨e, he, hb⟩ := h
    unfold idxlist at hr
    have key : ∀ (l : List Int), e ∈ l → l.forM (fun e => do require (e ≥ 0 ∧ e < n); access "_vec[idxs[i]]" e n) ≠ (.ok () : G Unit) := by
      intro l
      induction l with
      | nil => intro h; simp at h
      | cons a t ih =>
        intro hm
        show ((do require (a ≥ 0 ∧ a < n); access "_vec[idxs[i]]" a n) >>= fun _ => t.forM _) ≠ _
        rcases List.mem_cons.mp hm with h1 | h1
        · subst h1
          have : ¬ (e ≥ 0 ∧ e < n) := by omega
          simp [require, this, bind, Except.bind]
        · by_cases ha : a ≥ 0 ∧ a < n
          · simp only [require, access, ha, bind, Except.bind]
            exact ih h1
          · simp [require, ha, bind, Except.bind]
    cases hf : es.forM (fun e => do require (e ≥ 0 ∧ e < n); access "_vec[idxs[i]]" e n) with
    | ok u => exact key es he hf
    | error e' => rw [hf] at hr; simp [bind, Except.bind] at hr

/-- "right-hand sides longer than the target": a braced list assigned to a constructed slice throws exactly when its
length differs from the slice's element count -/
theorem assignList_throws_iff {n i1 i2 m : Int} {d : Sl} (hd : slice n i1 i2 m = .ok d) (lr : Int) :
    assignList d lr = .error .throws ↔ d.nc ≠ lr := by
  have hs := slice_spec hd
  unfold assignList require
  by_cases h : d.nc = lr
  · subst h
    by_cases hp : d.nc > 0
    · have f := hs.first (by omega)
      have l := hs.last (by omega)
      rw [← hs.n_eq] at f
      rw [← hs.n_eq, ← hs.m_eq] at l
      simp [access, hp, f, l, bind, Except.bind]
    · simp [hp, bind, Except.bind, pure, Except.pure]
  · simp [h, bind, Except.bind]

/-! ## the guards are needed: without them the same access leaves the buffer (non-vacuity of `ub`) -/

/-- array comparison `a > b` with 8 vs 3 elements, size assert removed (the defect repaired by ddafd7f) -/
theorem guard_needed_cmp : accessRange "rhs[i]" 0 (8 - 1) 3 = .error (.ub "rhs[i]") := by decide
/-- `FftPlan(16)` on 8 samples, length assert removed (8d35e96) -/
theorem guard_needed_plan : accessRange "x[i], i < plan length" 0 (16 - 1) 8 = .error (.ub "x[i], i < plan length") := by decide
/-- index list `{-3, 2}` on 5 elements, entry assert removed (4905ca4) -/
theorem guard_needed_idxlist : access "_vec[idxs[i]]" (-3) 5 = .error (.ub "_vec[idxs[i]]") := by decide

/-! ## T05.3: `Pow2FftPlan::_fft` -/

/-- stage `i < l` of the radix-2 loop on `n = 2^l` points (`h = 2^i` butterflies per cluster, `m = 2^(l-1-i)` clusters,
cluster stride `r = 2^(i+1)`): the two operands `out[j·r + k]`, `out[h + j·r + k]` and the twiddle `coeffs_[k·m]`
(`j < m`, `k < h`) are inside their `n`-element buffers. -/
theorem pow2_butterfly_in_bounds (l i j k : Nat) (hi : i < l) (hj : j < 2 ^ (l - 1 - i)) (hk : k < 2 ^ i) :
    2 ^ i + j * 2 ^ (i + 1) + k < 2 ^ l ∧ k * 2 ^ (l - 1 - i) < 2 ^ l := by
  have e : 2 ^ l = 2 ^ (l - 1 - i) * 2 ^ (i + 1) := by rw [← pow_add]; congr 1; omega
  have e2 : 2 ^ (i + 1) = 2 * 2 ^ i := by rw [pow_succ]; ring
  have h1 : (j + 1) * 2 ^ (i + 1) ≤ 2 ^ l := by rw [e]; exact Nat.mul_le_mul_right _ (by omega)
  have h2 : (j + 1) * 2 ^ (i + 1) = j * 2 ^ (i + 1) + 2 ^ (i + 1) := by ring
  constructor
  · omega
  · have h3 : k * 2 ^ (l - 1 - i) < 2 ^ i * 2 ^ (l - 1 - i) := Nat.mul_lt_mul_of_pos_right hk (by positivity)
    have h4 : 2 ^ i * 2 ^ (l - 1 - i) * 2 = 2 ^ l := by rw [e, e2]; ring
    omega

/-! ## non-vacuity: concrete calls on both sides of each guard -/

example : (Call.plan 16 8).outcome = .throws := by decide
example : (Call.plan 16 16).outcome = .ok [16] := by decide
example : (Call.cmp 8 3).outcome = .throws := by decide
example : (Call.idxlist 5 [-3, 2]).outcome = .throws := by decide
example : (Call.idxlist 5 []).outcome = .ok [0] := by decide
example : (Call.idxlist 5 [4, 0, 4]).outcome = .ok [3] := by decide
example : (Call.sasgList 5 0 0 (-4) 4).outcome = .throws := by decide
example : (Call.sasgList 5 4 0 (-2) 2).outcome = .ok [5] := by decide
example : (Call.iscola 4 4).outcome = .throws := by decide
example : (Call.downsample 7 3 2).outcome = .ok [2] := by decide
example : (Call.decim 2 3 7).outcome = .throws := by decide
example : (Call.decim 2 3 8).outcome = .ok [4] := by decide
example : documented (Call.tukey 9 1 2) := by unfold documented; decide
example : documented (Call.rateconv 3 5 7 10) := by unfold documented; decide

end Dsp.C05
