import DspVerif.Lib.C07Base
import DspVerif.Lib.C07Dft
/-!
# C07 — FIR filtering and correlation equal their defining sums

Theorems about `Model/Fir.lean` (the models of `FirFilter<T>`, `FftFilter`, `xcorr`, `MAFilter<T>`; tied to
`include/dsplib/fir.h`, `lib/fir.cpp`, `lib/xcorr.cpp`, `lib/ma-filter.h` by the correspondence run of `harness/c07.cpp`).

All statements are EXACT (no rounding) and hold for every tap vector, every input, every length:
the scalar-generic ones for every commutative (semi)ring `R` and every function `cj : R → R` standing for `conj`
(so in particular for `ℝ` with `cj = id` and for `Cx ℝ` — a commutative ring with the REGENERATED `cmplx_t` operators,
`Lib/C07Base` — with `cj = Cx.conj`); the instantiations at the end restate them for the real and complex models.
Arrays are read with `getD _ 0`; every index used on the right-hand sides is in range (guarded by the `if`s), and
out-of-range values are never relied upon.

The FFT based kernels (`FftFilter`, `xcorr`) take the transform pair as a parameter; T07.2 / T07.3 are proved for every pair
satisfying the circular convolution / correlation theorem at the one length used (`CircConv`, `CircCorr` — explicit
hypotheses; that the library's `fft`/`ifft` are the DFT and its inverse is the subject of C01/C02).
Rounding accuracy is measured by the ORACLE of `harness/c07.cpp` (long double), not proved.
-/
open Finset Dsp Dsp.Fir

namespace Dsp.C07
variable {R : Type}

section fir
variable [CommSemiring R]

theorem conv_size (cj : R → R) (x h : Array R) : (conv 0 cj x h).size = x.size + 1 - h.size := by
  simp [conv]

theorem conv_getD (cj : R → R) (x h : Array R) (i : ℕ) (hi : i < x.size + 1 - h.size) :
    (conv 0 cj x h).getD i 0 = ∑ k ∈ range h.size, x.getD (i + k) 0 * cj (h.getD (h.size - k - 1) 0) := by
  unfold conv
  rw [getD_ofFn, dif_pos hi, acc_eq_sum]

/-- `s.d` holds the last `nh-1` samples of the stream `X` consumed so far (zeros before its start) -/
def Hist (s : State R) (X : Array R) : Prop :=
  s.d.size = s.h.size - 1 ∧ ∀ j, j < s.h.size - 1 → s.d.getD j 0 = past X (s.h.size - 2 - j)

theorem hist_init (h : Array R) : Hist (init 0 h) #[] := by
  refine ⟨by simp [init], ?_⟩
  intro j _
  show (Array.replicate (h.size - 1) 0).getD j 0 = past #[] _
  rw [getD_replicate, past_empty]

/-- **T07.1 (call sequence / state hand-over).** If `_d` holds the last `nh-1` samples of everything consumed so far
(`X`), one more `process(x)` returns, for EVERY tap vector (`nh ≥ 1`), every frame `x` and every `conj`,
`y[i] = Σ_{k<nh} conj(h[k]) · s(i-k)` where `s(i-k)` is `x[i-k]` inside the frame and the sample `k-i` positions before the end
of `X` (zero before the start of the stream) otherwise — and `_d` again holds the last `nh-1` samples of `X ++ x`. -/
theorem fir_step (cj : R → R) (s : State R) (X x : Array R) (hs : Hist s X) (hh : 1 ≤ s.h.size) :
    (process 0 cj s x).1.h = s.h ∧ Hist (process 0 cj s x).1 (X ++ x) ∧ (process 0 cj s x).2.size = x.size ∧
    ∀ i, i < x.size → (process 0 cj s x).2.getD i 0 =
      ∑ k ∈ range s.h.size, cj (s.h.getD k 0) * (if k ≤ i then x.getD (i - k) 0 else past X (k - i - 1)) := by
  obtain ⟨hd, hp⟩ := hs
  have hsz : (s.d ++ x).size = s.h.size - 1 + x.size := by simp [hd]
  refine ⟨rfl, ⟨?_, ?_⟩, ?_, ?_⟩
  · show ((s.d ++ x).extract ((s.d ++ x).size - (s.h.size - 1)) (s.d ++ x).size).size = s.h.size - 1
    simp only [Array.size_extract, hsz]; omega
  · intro j hj
    replace hj : j < s.h.size - 1 := hj
    show ((s.d ++ x).extract ((s.d ++ x).size - (s.h.size - 1)) (s.d ++ x).size).getD j 0 = past (X ++ x) (s.h.size - 2 - j)
    rw [getD_extract _ _ _ _ _ (le_refl _), hsz, past_append, getD_append, hd]
    have h1 : j < s.h.size - 1 + x.size - (s.h.size - 1 + x.size - (s.h.size - 1)) := by omega
    rw [if_pos h1]
    by_cases h2 : s.h.size - 1 + x.size - (s.h.size - 1) + j < s.h.size - 1
    · have h3 : ¬ (s.h.size - 2 - j < x.size) := by omega
      rw [if_pos h2, if_neg h3, hp _ h2]
      congr 1; omega
    · have h3 : (s.h.size - 2 - j < x.size) := by omega
      rw [if_neg h2, if_pos h3]
      congr 1; omega
  · show (conv 0 cj (s.d ++ x) s.h).size = x.size
    rw [conv_size, hsz]; omega
  · intro i hi
    show (conv 0 cj (s.d ++ x) s.h).getD i 0 = _
    rw [conv_getD _ _ _ _ (by rw [hsz]; omega), ← Finset.sum_range_reflect]
    apply Finset.sum_congr rfl
    intro k hk
    have hk' : k < s.h.size := Finset.mem_range.mp hk
    have e1 : s.h.size - (s.h.size - 1 - k) - 1 = k := by omega
    rw [mul_comm, getD_append, hd, e1]
    congr 1
    by_cases h2 : i + (s.h.size - 1 - k) < s.h.size - 1
    · have h3 : ¬ (k ≤ i) := by omega
      rw [if_pos h2, if_neg h3, hp _ h2]
      congr 1; omega
    · have h3 : (k ≤ i) := by omega
      rw [if_neg h2, if_pos h3]
      congr 1; omega


/-- **T07.1** Started from rest, `FirFilter<T>::process` outputs `y[i] = Σ_{k<nh, k≤i} conj(h[k])·x[i-k]`
(all `getD` indices are in range: `k < nh`, `i-k < len x`), for every tap vector with `nh ≥ 1`, every input and every `conj`
(identity for `real_t`, `Cx.conj` for `cmplx_t`); the output has the length of the input. -/
theorem fir_eq (cj : R → R) (h x : Array R) (hh : 1 ≤ h.size) :
    (process 0 cj (init 0 h) x).2.size = x.size ∧
    ∀ i, i < x.size → (process 0 cj (init 0 h) x).2.getD i 0 =
      ∑ k ∈ range h.size, if k ≤ i then cj (h.getD k 0) * x.getD (i - k) 0 else 0 := by
  obtain ⟨_, _, h3, h4⟩ := fir_step cj (init 0 h) #[] x (hist_init h) hh
  refine ⟨h3, fun i hi => ?_⟩
  rw [h4 i hi]
  apply Finset.sum_congr rfl
  intro k _
  show cj (h.getD k 0) * _ = _
  by_cases hk : k ≤ i
  · rw [if_pos hk, if_pos hk]
  · rw [if_neg hk, if_neg hk, past_empty, mul_zero]

/-- **T07.1 (framing).** Feeding `a` then `b` gives the outputs of feeding `a ++ b` at once, from any state that is the
history of a stream: the hand-over through `_d` loses nothing. -/
theorem fir_append (cj : R → R) (s : State R) (X a b : Array R) (hs : Hist s X) (hh : 1 ≤ s.h.size) :
    (process 0 cj s (a ++ b)).2 = (process 0 cj s a).2 ++ (process 0 cj (process 0 cj s a).1 b).2 := by
  obtain ⟨a1, a2, a3, a4⟩ := fir_step cj s X a hs hh
  obtain ⟨_, _, b3, b4⟩ := fir_step cj (process 0 cj s a).1 (X ++ a) b a2 (by rw [a1]; exact hh)
  obtain ⟨_, _, c3, c4⟩ := fir_step cj s X (a ++ b) hs hh
  apply ext_getD _ _ 0
  · simp only [c3, Array.size_append, a3, b3]
  · intro i hi
    rw [c3, Array.size_append] at hi
    rw [c4 i (by rw [Array.size_append]; exact hi), getD_append, a3]
    by_cases hia : i < a.size
    · rw [if_pos hia, a4 i hia]
      apply Finset.sum_congr rfl
      intro k _
      by_cases hk : k ≤ i
      · rw [if_pos hk, if_pos hk, getD_append, if_pos (by omega)]
      · rw [if_neg hk, if_neg hk]
    · rw [if_neg hia, b4 (i - a.size) (by omega), a1]
      apply Finset.sum_congr rfl
      intro k _
      congr 1
      rw [past_append]
      by_cases hk : k ≤ i - a.size
      · rw [if_pos hk, if_pos (by omega), getD_append, if_neg (by omega)]
        congr 1; omega
      · rw [if_neg hk]
        by_cases hk2 : k ≤ i
        · rw [if_pos hk2, if_pos (by omega), getD_append, if_pos (by omega)]
          congr 1; omega
        · rw [if_neg hk2, if_neg (by omega)]
          congr 1; omega

end fir


section ma
variable [AddCommGroup R]

/-- ring-buffer position → age: cell `j` holds the sample `bk pos n j` steps before the most recent one -/
def bk (pos n j : ℕ) : ℕ := if j < pos then pos - 1 - j else pos + n - 1 - j

/-- prepend a new most-recent sample to a "past" function -/
def shift (x : R) (P : ℕ → R) : ℕ → R := fun b => if b = 0 then x else P (b - 1)

/-- invariant of `MAFilter`: `_accum = Σ _buf`, and `_buf` is the ring buffer of the last `n` samples
(`P b` = the sample `b` steps before the most recent one; zeros before the start) -/
def MaInv (s : MaState R) (P : ℕ → R) (n : ℕ) : Prop :=
  s.n = n ∧ s.buf.size = n ∧ s.pos < n ∧ s.accum = ∑ j ∈ range n, s.buf.getD j 0 ∧
    ∀ j, j < n → s.buf.getD j 0 = P (bk s.pos n j)

theorem sum_bk (P : ℕ → R) (pos n : ℕ) (hp : pos ≤ n) :
    ∑ j ∈ range n, P (bk pos n j) = ∑ b ∈ range n, P b := by
  apply Finset.sum_nbij' (fun j => bk pos n j) (fun b => bk pos n b)
  · intro j hj; simp only [mem_range] at *; unfold bk; split <;> omega
  · intro j hj; simp only [mem_range] at *; unfold bk; split <;> omega
  · intro j hj; simp only [mem_range] at *; unfold bk; split <;> split <;> omega
  · intro j hj; simp only [mem_range] at *; unfold bk; split <;> split <;> omega
  · intro j _; rfl

theorem ma_step (divn : R → ℕ → R) (s : MaState R) (P : ℕ → R) (n : ℕ) (x : R) (hs : MaInv s P n) :
    MaInv (maStep 0 divn s x).1 (shift x P) n ∧
    (maStep 0 divn s x).2 = divn (∑ b ∈ range n, shift x P b) n := by
  obtain ⟨hn, hb, hpos, hacc, hcell⟩ := hs
  have hpos' : s.pos < s.buf.size := by omega
  -- the buffer after the write
  have hbuf : ∀ j, (s.buf.setIfInBounds s.pos x).getD j 0 = if j = s.pos then x else s.buf.getD j 0 :=
    fun j => getD_setIfInBounds _ _ _ _ _ hpos'
  have hsum : ∑ j ∈ range n, (s.buf.setIfInBounds s.pos x).getD j 0 = s.accum - s.buf.getD s.pos 0 + x := by
    have e : ∀ j, (if j = s.pos then x else s.buf.getD j 0) = s.buf.getD j 0 + (if j = s.pos then x - s.buf.getD s.pos 0 else 0) := by
      intro j
      by_cases h : j = s.pos
      · rw [if_pos h, if_pos h, h, add_sub_cancel]
      · rw [if_neg h, if_neg h, add_zero]
    simp only [hbuf, e, Finset.sum_add_distrib, Finset.sum_ite_eq', mem_range, hpos, if_true, hacc]
    abel
  -- cells of the new buffer, for the new position
  have hcell' : ∀ pos', pos' = (if s.pos + 1 = n then 0 else s.pos + 1) → ∀ j, j < n →
      (s.buf.setIfInBounds s.pos x).getD j 0 = shift x P (bk pos' n j) := by
    intro pos' hp' j hj
    rw [hbuf]
    by_cases h : j = s.pos
    · have : bk pos' n j = 0 := by subst hp'; subst h; unfold bk; split <;> split <;> omega
      rw [if_pos h, this]; simp [shift]
    · have : bk pos' n j = bk s.pos n j + 1 := by subst hp'; unfold bk; split <;> split <;> split <;> omega
      rw [if_neg h, hcell j hj, this]
      simp [shift]
  have hout : ∑ j ∈ range n, (s.buf.setIfInBounds s.pos x).getD j 0 = ∑ b ∈ range n, shift x P b := by
    rw [← sum_bk (shift x P) (if s.pos + 1 = n then 0 else s.pos + 1) n (by split <;> omega)]
    exact Finset.sum_congr rfl fun j hj => hcell' _ rfl j (mem_range.mp hj)
  unfold maStep
  by_cases hw : s.pos + 1 = s.n
  · have hw' : s.pos + 1 = n := by omega
    simp only [hw, if_true]
    have hs2 : sumv 0 (s.buf.setIfInBounds s.pos x) = ∑ j ∈ range n, (s.buf.setIfInBounds s.pos x).getD j 0 := by
      unfold sumv; rw [acc_eq_sum]; simp [hb]
    refine ⟨⟨hn, by simp [hb], (by show 0 < n; omega), hs2, ?_⟩, ?_⟩
    · intro j hj; exact hcell' 0 (by simp [hw']) j hj
    · show divn (sumv 0 _) s.n = _
      rw [hs2, hout, hn]
  · have hw' : ¬ s.pos + 1 = n := by omega
    simp only [hw, if_false]
    refine ⟨⟨hn, by simp [hb], (by show s.pos + 1 < n; omega), hsum.symm, ?_⟩, ?_⟩
    · intro j hj; exact hcell' (s.pos + 1) (by simp [hw']) j hj
    · show divn (s.accum - s.buf.getD s.pos 0 + x) s.n = _
      rw [← hsum, hout, hn]


/-- the "past" function after the first `i` samples of `xs` have been consumed following the stream `P0` -/
def pastOf (xs : Array R) (P0 : ℕ → R) (i : ℕ) : ℕ → R :=
  fun b => if b < i then xs.getD (i - 1 - b) 0 else P0 (b - i)

theorem pastOf_succ (xs : Array R) (P0 : ℕ → R) (i : ℕ) :
    pastOf xs P0 (i + 1) = shift (xs.getD i 0) (pastOf xs P0 i) := by
  funext b
  unfold pastOf shift
  by_cases hb : b = 0
  · subst hb; simp
  · rw [if_neg hb]
    beta_reduce
    by_cases h : b < i + 1
    · have h' : b - 1 < i := by omega
      rw [if_pos h, if_pos h']; congr 1; omega
    · have h' : ¬ b - 1 < i := by omega
      rw [if_neg h, if_neg h']; congr 1; omega

theorem ma_process (divn : R → ℕ → R) (s : MaState R) (P : ℕ → R) (n : ℕ) (xs : Array R) (hs : MaInv s P n) :
    MaInv (maProcess 0 divn s xs).1 (pastOf xs P xs.size) n ∧ (maProcess 0 divn s xs).2.size = xs.size ∧
    ∀ t, t < xs.size → (maProcess 0 divn s xs).2.getD t 0 = divn (∑ b ∈ range n, pastOf xs P (t + 1) b) n := by
  unfold maProcess
  apply Array.foldl_induction
    (motive := fun i (so : MaState R × Array R) => MaInv so.1 (pastOf xs P i) n ∧ so.2.size = i ∧
      ∀ t, t < i → so.2.getD t 0 = divn (∑ b ∈ range n, pastOf xs P (t + 1) b) n)
  · refine ⟨?_, rfl, fun t ht => absurd ht (Nat.not_lt_zero t)⟩
    have : pastOf xs P 0 = P := by funext b; simp [pastOf]
    rw [this]; exact hs
  · intro i so ⟨hinv, hsz, hout⟩
    have hx : xs[i] = xs.getD i.1 0 := by simp
    obtain ⟨h1, h2⟩ := ma_step divn so.1 _ n xs[i] hinv
    rw [hx, ← pastOf_succ] at h1 h2
    refine ⟨by rw [hx]; exact h1, by simp [hsz], ?_⟩
    intro t ht
    simp only [Array.getD_eq_getD_getElem?, Array.getElem?_push, hsz]
    by_cases h : t = i.1
    · rw [if_pos h, h, hx, h2]; rfl
    · rw [if_neg h]
      have := hout t (by omega)
      simpa [Array.getD_eq_getD_getElem?] using this

theorem ma_init_inv (n : ℕ) (hn : 0 < n) : MaInv (maInit (0 : R) n) (fun _ => 0) n := by
  refine ⟨rfl, by simp [maInit], hn, ?_, ?_⟩
  · show (0 : R) = ∑ j ∈ range n, (Array.replicate n (0 : R)).getD j 0
    simp only [getD_replicate, Finset.sum_const_zero]
  · intro j hj
    show (Array.replicate n (0 : R)).getD j 0 = 0
    rw [getD_replicate]

/-- **T07.4 (window-sum form).** Started from rest, `MAFilter(n)` outputs `(Σ_{b<n, b≤t} x[t-b]) / n`, for
every `n ≥ 1`, every input and whatever `T / int` is (`divn`). -/
theorem ma_eq_window (divn : R → ℕ → R) (n : ℕ) (hn : 0 < n) (xs : Array R) :
    (maProcess 0 divn (maInit 0 n) xs).2.size = xs.size ∧
    ∀ t, t < xs.size → (maProcess 0 divn (maInit 0 n) xs).2.getD t 0 =
      divn (∑ b ∈ range n, if b ≤ t then xs.getD (t - b) 0 else 0) n := by
  obtain ⟨_, h2, h3⟩ := ma_process divn _ _ n xs (ma_init_inv n hn)
  refine ⟨h2, fun t ht => ?_⟩
  rw [h3 t ht]
  congr 1
  apply Finset.sum_congr rfl
  intro b _
  unfold pastOf
  by_cases h : b ≤ t
  · rw [if_pos h, if_pos (by omega)]; congr 1
  · rw [if_neg h, if_neg (by omega)]

end ma


section xcorr
variable [CommSemiring R]

/-- what `xcorr` needs from the transform pair at length `M`: the circular cross-correlation theorem
`conj(ifft(conj(fft a) · fft b))[t] = Σ_n a[n]·conj(b[(n+t) mod M])` -/
def CircCorr (cj : R → R) (fft ifft : Array R → Array R) (M : ℕ) : Prop :=
  ∀ a b : Array R, a.size = M → b.size = M →
    ((ifft (mulv 0 ((fft a).map cj) (fft b))).map cj).size = M ∧
    ∀ t, t < M → ((ifft (mulv 0 ((fft a).map cj) (fft b))).map cj).getD t 0 =
      ∑ n ∈ range M, a.getD n 0 * cj (b.getD ((n + t) % M) 0)

theorem xcorr_eq (cj : R → R) (hcj0 : cj 0 = 0) (fft ifft : Array R → Array R) (a b : Array R)
    (ha : 1 ≤ a.size) (hb : 1 ≤ b.size)
    (H : CircCorr cj fft ifft (2 ^ nextpow2 (a.size + b.size - 1))) :
    (xcorr 0 cj fft ifft a b).size = a.size + b.size - 1 ∧
    ∀ j, j < a.size + b.size - 1 → (xcorr 0 cj fft ifft a b).getD j 0 =
      ∑ n ∈ range b.size,
        if b.size - 1 ≤ j + n ∧ j + n - (b.size - 1) < a.size then a.getD (j + n - (b.size - 1)) 0 * cj (b.getD n 0) else 0 := by
  have hM := le_two_pow_nextpow2 (a.size + b.size - 1)
  generalize hMdef : 2 ^ nextpow2 (a.size + b.size - 1) = M at H hM
  have hy1 : (a ++ Array.replicate (M - a.size) (0 : R)).size = M := by simp; omega
  have hy2 : (Array.replicate (M - b.size) (0 : R) ++ b).size = M := by simp; omega
  obtain ⟨hzs, hz⟩ := H _ _ hy1 hy2
  have hx : xcorr 0 cj fft ifft a b =
      (((ifft (mulv 0 ((fft (a ++ Array.replicate (M - a.size) (0 : R))).map cj)
        (fft (Array.replicate (M - b.size) (0 : R) ++ b)))).map cj).extract (M + 1 - a.size - b.size) M).reverse := by
    simp only [xcorr, hMdef]
  rw [hx]
  generalize ((ifft (mulv 0 ((fft (a ++ Array.replicate (M - a.size) (0 : R))).map cj)
        (fft (Array.replicate (M - b.size) (0 : R) ++ b)))).map cj) = z at hzs hz
  have hsz : (z.extract (M + 1 - a.size - b.size) M).size = a.size + b.size - 1 := by
    simp only [Array.size_extract, hzs]; omega
  refine ⟨by rw [Array.size_reverse, hsz], ?_⟩
  intro j hj
  rw [getD_reverse _ _ _ (by rw [hsz]; exact hj), hsz, getD_extract _ _ _ _ _ (by omega)]
  have e1 : a.size + b.size - 1 - 1 - j < M - (M + 1 - a.size - b.size) := by omega
  have e2 : M + 1 - a.size - b.size + (a.size + b.size - 1 - 1 - j) = M - 1 - j := by omega
  rw [if_pos e1, e2, hz _ (by omega)]
  -- the zero padding of `y1`: only `n < a.size` contributes
  have hsub : ∑ n ∈ range M, (a ++ Array.replicate (M - a.size) (0 : R)).getD n 0 *
        cj ((Array.replicate (M - b.size) (0 : R) ++ b).getD ((n + (M - 1 - j)) % M) 0) =
      ∑ n ∈ range a.size, if n ≤ j ∧ j + 1 ≤ n + b.size then a.getD n 0 * cj (b.getD (n + b.size - 1 - j) 0) else 0 := by
    symm
    apply Finset.sum_subset_zero_on_sdiff (Finset.range_subset_range.2 (by omega))
    · intro n hn
      simp only [mem_sdiff, mem_range] at hn
      rw [getD_append, if_neg (by omega), getD_replicate, zero_mul]
    · intro n hn
      have hn' : n < a.size := mem_range.mp hn
      rw [getD_append, if_pos hn', getD_append, Array.size_replicate]
      by_cases h1 : n ≤ j
      · have hm : (n + (M - 1 - j)) % M = n + (M - 1 - j) := Nat.mod_eq_of_lt (by omega)
        rw [hm]
        by_cases h2 : j + 1 ≤ n + b.size
        · rw [if_pos ⟨h1, h2⟩, if_neg (by omega)]
          congr 3; omega
        · rw [if_neg (by omega), if_pos (by omega), getD_replicate, hcj0, mul_zero]
      · have hm : (n + (M - 1 - j)) % M = n - 1 - j := by
          have : n + (M - 1 - j) = M + (n - 1 - j) := by omega
          rw [this, Nat.add_mod_left, Nat.mod_eq_of_lt (by omega)]
        rw [hm, if_neg (by omega), if_pos (by omega), getD_replicate, hcj0, mul_zero]
  rw [hsub, ← Finset.sum_filter, ← Finset.sum_filter]
  apply Finset.sum_nbij' (fun n => n + b.size - 1 - j) (fun m => j + m - (b.size - 1))
  · intro n hn; simp only [mem_filter, mem_range] at *; omega
  · intro m hm; simp only [mem_filter, mem_range] at *; omega
  · intro n hn; simp only [mem_filter, mem_range] at *; omega
  · intro m hm; simp only [mem_filter, mem_range] at *; omega
  · intro n hn
    simp only [mem_filter, mem_range] at hn
    have : j + (n + b.size - 1 - j) - (b.size - 1) = n := by omega
    rw [this]

end xcorr


section fftfilter
variable [CommSemiring R]

/-- what `FftFilter` needs from the transform pair at length `L`: the circular convolution theorem
`ifft(fft a · fft b)[t] = Σ_n a[n]·b[(t-n) mod L]` -/
def CircConv (fft ifft : Array R → Array R) (L : ℕ) : Prop :=
  ∀ a b : Array R, a.size = L → b.size = L →
    (ifft (mulv 0 (fft a) (fft b))).size = L ∧
    ∀ t, t < L → (ifft (mulv 0 (fft a) (fft b))).getD t 0 = ∑ n ∈ range L, a.getD n 0 * b.getD ((t + L - n) % L) 0

theorem getD_zeropad_map (cj : R → R) (hcj0 : cj 0 = 0) (h : Array R) (L k : ℕ) :
    (zeropad 0 (h.map cj) L).getD k 0 = if k < h.size then cj (h.getD k 0) else 0 := by
  unfold zeropad
  rw [getD_append, Array.size_map]
  by_cases hk : k < h.size
  · rw [if_pos hk, if_pos hk, getD_map _ _ _ _ hcj0]
  · rw [if_neg hk, if_neg hk, getD_replicate]

/-- one block: no wrap-around — the circular convolution of a block that is zero from `n` on with the `m` taps,
`L = n + m - 1`, is the linear convolution -/
theorem block_conv (cj : R → R) (hcj0 : cj 0 = 0) (fft ifft : Array R → Array R) (h : Array R) (L n : ℕ)
    (hL : L + 1 = n + h.size) (hm : 1 ≤ h.size) (hn1 : 1 ≤ n) (H : CircConv fft ifft L)
    (xb : Array R) (hxs : xb.size = L) (hx0 : ∀ j, n ≤ j → xb.getD j 0 = 0) :
    (ifft (mulv 0 (fft xb) (fft (zeropad 0 (h.map cj) L)))).size = L ∧
    ∀ t, t < L → (ifft (mulv 0 (fft xb) (fft (zeropad 0 (h.map cj) L)))).getD t 0 =
      ∑ k ∈ range h.size, if k ≤ t then cj (h.getD k 0) * xb.getD (t - k) 0 else 0 := by
  have hcs : (zeropad 0 (h.map cj) L).size = L := by
    simp only [zeropad, Array.size_append, Array.size_map, Array.size_replicate]; omega
  obtain ⟨h1, h2⟩ := H xb _ hxs hcs
  refine ⟨h1, fun t ht => ?_⟩
  rw [h2 t ht]
  have hterm : ∀ n' ∈ range L, xb.getD n' 0 * (zeropad 0 (h.map cj) L).getD ((t + L - n') % L) 0 =
      if n' ≤ t ∧ t - n' < h.size then cj (h.getD (t - n') 0) * xb.getD n' 0 else 0 := by
    intro n' hn'
    have hn : n' < L := mem_range.mp hn'
    rw [getD_zeropad_map cj hcj0]
    by_cases hle : n' ≤ t
    · have e : (t + L - n') % L = t - n' := by
        have : t + L - n' = L + (t - n') := by omega
        rw [this, Nat.add_mod_left, Nat.mod_eq_of_lt (by omega)]
      rw [e]
      by_cases hk : t - n' < h.size
      · rw [if_pos hk, if_pos ⟨hle, hk⟩, mul_comm]
      · rw [if_neg hk, if_neg (by omega), mul_zero]
    · have e : (t + L - n') % L = t + L - n' := Nat.mod_eq_of_lt (by omega)
      have hr : ¬ (n' ≤ t ∧ t - n' < h.size) := by omega
      rw [e, if_neg hr]
      by_cases hk : t + L - n' < h.size
      · rw [hx0 n' (by omega), zero_mul]
      · rw [if_neg hk, mul_zero]
  rw [Finset.sum_congr rfl hterm, ← Finset.sum_filter, ← Finset.sum_filter]
  apply Finset.sum_nbij' (fun n' => t - n') (fun k => t - k)
  · intro a ha; simp only [mem_filter, mem_range] at *; omega
  · intro a ha; simp only [mem_filter, mem_range] at *; omega
  · intro a ha; simp only [mem_filter, mem_range] at *; omega
  · intro a ha; simp only [mem_filter, mem_range] at *; omega
  · intro a ha
    simp only [mem_filter, mem_range] at ha
    have : t - (t - a) = a := by omega
    rw [this]


/-- the defining sum, from rest, at absolute stream index `i`: `Σ_{k<m, k≤i} conj(h[k])·S(i-k)` -/
def specF (cj : R → R) (h : Array R) (S : ℕ → R) (i : ℕ) : R :=
  ∑ k ∈ range h.size, if k ≤ i then cj (h.getD k 0) * S (i - k) else 0

/-- the part of output `base+i` that comes from samples before `base` (what `_olap[i]` must hold) -/
def tailF (cj : R → R) (h : Array R) (S : ℕ → R) (base i : ℕ) : R :=
  ∑ k ∈ range h.size, if i < k ∧ k ≤ base + i then cj (h.getD k 0) * S (base + i - k) else 0

theorem tailF_zero (cj : R → R) (h : Array R) (S : ℕ → R) (base i : ℕ) (hi : h.size - 1 ≤ i) :
    tailF cj h S base i = 0 := by
  unfold tailF
  apply Finset.sum_eq_zero
  intro k hk
  have := mem_range.mp hk
  rw [if_neg (by omega)]

/-- invariant of the sample loop of `FftFilter::process` after `len` samples of the stream `S`; `out` is what the
current call has emitted so far, `off` what earlier calls emitted -/
def FInv (cj : R → R) (fft : Array R → Array R) (h : Array R) (L n : ℕ) (S : ℕ → R) (len off : ℕ)
    (s : FftState R) (out : Array R) : Prop :=
  s.m = h.size ∧ s.n = n ∧ s.H = fft (zeropad 0 (h.map cj) L) ∧ s.x.size = L ∧ (∀ j, n ≤ j → s.x.getD j 0 = 0) ∧
  s.olap.size = h.size - 1 ∧ s.nx < n ∧
  ∃ q, len = q * n + s.nx ∧ off + out.size = q * n ∧ (∀ i, i < out.size → out.getD i 0 = specF cj h S (off + i)) ∧
    (∀ j, j < s.nx → s.x.getD j 0 = S (q * n + j)) ∧ (∀ i, i < h.size - 1 → s.olap.getD i 0 = tailF cj h S (q * n) i)

theorem fft_step_inv (cj : R → R) (hcj0 : cj 0 = 0) (fft ifft : Array R → Array R) (h : Array R) (L n : ℕ)
    (hL : L + 1 = n + h.size) (hm : 1 ≤ h.size) (hnm : h.size ≤ n) (H : CircConv fft ifft L)
    (S : ℕ → R) (len off : ℕ) (s : FftState R) (out : Array R) (v : R) (hv : v = S len)
    (hinv : FInv cj fft h L n S len off s out) :
    FInv cj fft h L n S (len + 1) off (fftStep 0 fft ifft (s, out) v).1 (fftStep 0 fft ifft (s, out) v).2 := by
  obtain ⟨im, inn, iH, ixs, ix0, iol, inx, q, ilen, ioff, iout, icell, itail⟩ := hinv
  have hnxL : s.nx < s.x.size := by omega
  have hset : ∀ j, (s.x.setIfInBounds s.nx v).getD j 0 = if j = s.nx then v else s.x.getD j 0 :=
    fun j => getD_setIfInBounds _ _ _ _ _ hnxL
  have hx0' : ∀ j, n ≤ j → (s.x.setIfInBounds s.nx v).getD j 0 = 0 := by
    intro j hj; rw [hset, if_neg (by omega)]; exact ix0 j hj
  have hcell' : ∀ j, j < s.nx + 1 → (s.x.setIfInBounds s.nx v).getD j 0 = S (q * n + j) := by
    intro j hj
    rw [hset]
    by_cases e : j = s.nx
    · rw [if_pos e, hv, ilen, e]
    · rw [if_neg e]; exact icell j (by omega)
  unfold fftStep
  by_cases hw : s.nx + 1 = s.n
  · -- a block is complete
    have hw' : s.nx + 1 = n := by omega
    simp only [hw, if_true]
    obtain ⟨hrs, hry⟩ := block_conv cj hcj0 fft ifft h L n hL hm (by omega) H (s.x.setIfInBounds s.nx v)
      (by simp [ixs]) hx0'
    rw [← iH] at hrs hry
    generalize ifft (mulv 0 (fft (s.x.setIfInBounds s.nx v)) s.H) = ry at hrs hry
    have hq : (q + 1) * n = q * n + n := by ring
    refine ⟨im, inn, iH, by simp [ixs], hx0', by simp [fftTail, im], by show 0 < n; omega, q + 1, ?_, ?_, ?_, ?_, ?_⟩
    · show len + 1 = (q + 1) * n + 0; omega
    · show off + (out ++ fftBlock 0 s.n s.m ry s.olap).size = (q + 1) * n
      simp only [Array.size_append, fftBlock, Array.size_ofFn]; omega
    · intro i hi
      show (out ++ fftBlock 0 s.n s.m ry s.olap).getD i 0 = _
      rw [getD_append]
      by_cases hio : i < out.size
      · rw [if_pos hio]; exact iout i hio
      · rw [if_neg hio]
        have hi' : i - out.size < n := by
          simp only [Array.size_append, fftBlock, Array.size_ofFn] at hi; omega
        have hidx : off + i = q * n + (i - out.size) := by omega
        generalize i - out.size = i' at hi' hidx
        have hblk : (fftBlock 0 s.n s.m ry s.olap).getD i' 0 = ry.getD i' 0 + tailF cj h S (q * n) i' := by
          unfold fftBlock
          rw [getD_ofFn, dif_pos (by omega)]
          by_cases hlt : i' < s.m - 1
          · rw [if_pos hlt, itail i' (by omega)]
          · rw [if_neg hlt, tailF_zero _ _ _ _ _ (by omega), add_zero]
        rw [hblk, hry i' (by omega), hidx]
        unfold tailF specF
        rw [← Finset.sum_add_distrib]
        apply Finset.sum_congr rfl
        intro k hk
        have hk' := mem_range.mp hk
        by_cases h1 : k ≤ i'
        · rw [if_pos h1, if_neg (by omega), if_pos (by omega), add_zero, hcell' (i' - k) (by omega)]
          congr 2; omega
        · rw [if_neg h1, zero_add]
          by_cases h2 : k ≤ q * n + i'
          · rw [if_pos ⟨by omega, h2⟩, if_pos h2]
          · rw [if_neg (by omega), if_neg h2]
    · intro j hj; exact absurd hj (Nat.not_lt_zero j)
    · intro i hi
      show (fftTail 0 s.n s.m ry).getD i 0 = _
      unfold fftTail
      rw [getD_ofFn, dif_pos (by omega), inn, hry _ (by omega)]
      unfold tailF
      apply Finset.sum_congr rfl
      intro k hk
      have hk' := mem_range.mp hk
      rw [if_pos (by omega)]
      by_cases h1 : i < k
      · rw [if_pos ⟨h1, by omega⟩, hcell' (i + n - k) (by omega)]
        congr 2; omega
      · rw [if_neg (by omega), hx0' (i + n - k) (by omega), mul_zero]
  · have hw' : ¬ s.nx + 1 = n := by omega
    simp only [hw, if_false]
    refine ⟨im, inn, iH, by simp [ixs], hx0', iol, by show s.nx + 1 < n; omega, q, ?_, ioff, iout, hcell', itail⟩
    show len + 1 = q * n + (s.nx + 1); omega


theorem fft_init_inv (cj : R → R) (fft : Array R → Array R) (h : Array R) (hm : 1 ≤ h.size) (S : ℕ → R) :
    FInv cj fft h (2 ^ nextpow2 (2 * h.size)) (2 ^ nextpow2 (2 * h.size) + 1 - h.size) S 0 0 (fftInit 0 cj fft h) #[] := by
  have hL := le_two_pow_nextpow2 (2 * h.size)
  refine ⟨rfl, rfl, rfl, by simp [fftInit], ?_, by simp [fftInit], by show 0 < _; omega, 0, by simp [fftInit], by simp, ?_, ?_, ?_⟩
  · intro j _; show (Array.replicate _ (0 : R)).getD j 0 = 0; rw [getD_replicate]
  · intro i hi; exact absurd hi (Nat.not_lt_zero i)
  · intro j hj; exact absurd hj (Nat.not_lt_zero j)
  · intro i _
    show (Array.replicate _ (0 : R)).getD i 0 = _
    rw [getD_replicate]
    unfold tailF
    symm
    apply Finset.sum_eq_zero
    intro k _
    rw [if_neg (by omega)]

theorem fft_process_inv (cj : R → R) (hcj0 : cj 0 = 0) (fft ifft : Array R → Array R) (h : Array R) (L n : ℕ)
    (hL : L + 1 = n + h.size) (hm : 1 ≤ h.size) (hnm : h.size ≤ n) (H : CircConv fft ifft L)
    (S : ℕ → R) (len off : ℕ) (s : FftState R) (xs : Array R) (hxs : ∀ i, i < xs.size → xs.getD i 0 = S (len + i))
    (hinv : FInv cj fft h L n S len off s #[]) :
    FInv cj fft h L n S (len + xs.size) off (fftProcess 0 fft ifft s xs).1 (fftProcess 0 fft ifft s xs).2 := by
  unfold fftProcess
  apply Array.foldl_induction
    (motive := fun i (so : FftState R × Array R) => FInv cj fft h L n S (len + i) off so.1 so.2)
  · exact hinv
  · intro i so hso
    have hv : xs[i] = S (len + i.1) := by
      rw [← hxs i.1 i.2]; simp
    exact fft_step_inv cj hcj0 fft ifft h L n hL hm hnm H S (len + i.1) off so.1 so.2 xs[i] hv hso

/-- between two calls the output array is handed to the caller: the next call starts with an empty one -/
theorem fft_inv_next_call (cj : R → R) (fft : Array R → Array R) (h : Array R) (L n : ℕ) (S : ℕ → R) (len off : ℕ)
    (s : FftState R) (out : Array R) (hinv : FInv cj fft h L n S len off s out) :
    FInv cj fft h L n S len (off + out.size) s #[] := by
  obtain ⟨im, inn, iH, ixs, ix0, iol, inx, q, ilen, ioff, iout, icell, itail⟩ := hinv
  exact ⟨im, inn, iH, ixs, ix0, iol, inx, q, ilen, by simpa using ioff, fun i hi => absurd hi (Nat.not_lt_zero i), icell, itail⟩

/-- what the invariant says about the emitted samples -/
theorem fft_inv_out (cj : R → R) (fft : Array R → Array R) (h : Array R) (L n : ℕ) (S : ℕ → R) (len off : ℕ)
    (s : FftState R) (out : Array R) (hinv : FInv cj fft h L n S len off s out) :
    off + out.size = len / n * n ∧ ∀ i, i < out.size → out.getD i 0 = specF cj h S (off + i) := by
  obtain ⟨_, _, _, _, _, _, inx, q, ilen, ioff, iout, _, _⟩ := hinv
  have hq : (q + 1) * n = q * n + n := by ring
  have : len / n = q := Nat.div_eq_of_lt_le (by omega) (by omega)
  exact ⟨by rw [this]; exact ioff, iout⟩

/-- **T07.2** Started from rest, for every tap vector (`m ≥ 1`) and every input: `FftFilter::process` emits
`⌊len/_n⌋·_n` samples, and sample `i` is the defining sum `Σ_{k<m, k≤i} conj(h[k])·x[i-k]`
— PROVIDED the transform pair satisfies the circular convolution theorem at `fft_len`. -/
theorem fftfilter_eq_sum (cj : R → R) (hcj0 : cj 0 = 0) (fft ifft : Array R → Array R) (h : Array R) (hm : 1 ≤ h.size)
    (H : CircConv fft ifft (2 ^ nextpow2 (2 * h.size))) (xs : Array R) :
    (fftProcess 0 fft ifft (fftInit 0 cj fft h) xs).2.size = xs.size / (fftInit 0 cj fft h).n * (fftInit 0 cj fft h).n ∧
    ∀ i, i < (fftProcess 0 fft ifft (fftInit 0 cj fft h) xs).2.size →
      (fftProcess 0 fft ifft (fftInit 0 cj fft h) xs).2.getD i 0 =
        ∑ k ∈ range h.size, if k ≤ i then cj (h.getD k 0) * xs.getD (i - k) 0 else 0 := by
  have hL := le_two_pow_nextpow2 (2 * h.size)
  have h0 := fft_init_inv cj fft h hm (fun i => xs.getD i 0)
  have h1 := fft_process_inv cj hcj0 fft ifft h _ _ (by omega) hm (by omega) H (fun i => xs.getD i 0) 0 0 _ xs
    (by intro i _; simp) h0
  obtain ⟨h2, h3⟩ := fft_inv_out _ _ _ _ _ _ _ _ _ _ h1
  simp only [Nat.zero_add] at h2 h3
  exact ⟨h2, fun i hi => h3 i hi⟩

end fftfilter

/-! ## Consequences and the real / complex instantiations of the models -/
section inst

/-- **T07.2 (same sequence as the direct filter).** Under the same hypothesis, every sample `FftFilter` emits equals the
sample `FirFilter` produces at the same position of the same input. -/
theorem fftfilter_eq_fir [CommSemiring R] (cj : R → R) (hcj0 : cj 0 = 0) (fft ifft : Array R → Array R) (h : Array R)
    (hm : 1 ≤ h.size) (H : CircConv fft ifft (2 ^ nextpow2 (2 * h.size))) (xs : Array R) :
    (fftProcess 0 fft ifft (fftInit 0 cj fft h) xs).2.size ≤ xs.size ∧
    ∀ i, i < (fftProcess 0 fft ifft (fftInit 0 cj fft h) xs).2.size →
      (fftProcess 0 fft ifft (fftInit 0 cj fft h) xs).2.getD i 0 = (process 0 cj (init 0 h) xs).2.getD i 0 := by
  obtain ⟨h1, h2⟩ := fftfilter_eq_sum cj hcj0 fft ifft h hm H xs
  obtain ⟨_, h4⟩ := fir_eq cj h xs hm
  have hle : (fftProcess 0 fft ifft (fftInit 0 cj fft h) xs).2.size ≤ xs.size := by
    rw [h1]; exact Nat.div_mul_le_self _ _
  exact ⟨hle, fun i hi => by rw [h2 i hi, h4 i (by omega)]⟩

theorem getD_replicate' (n k : ℕ) (v z : R) : (Array.replicate n v).getD k z = if k < n then v else z := by
  simp only [Array.getD_eq_getD_getElem?, Array.getElem?_replicate]
  split <;> rfl

theorem getD_map' {A B : Type} (f : A → B) (a : Array A) (i : ℕ) (z : A) (z' : B) (hz : f z = z') :
    (a.map f).getD i z' = f (a.getD i z) := by
  simp only [Array.getD_eq_getD_getElem?, Array.getElem?_map]
  cases a[i]? <;> simp [hz]

theorem conj_zero : Cx.conj (0 : Cx ℝ) = 0 := by apply Cx.ext' <;> simp [Cx.conj]

/-- **T07.1, `FirFilter<real_t>`** (model `firProcessR` at `ℝ`): `y[i] = Σ_{k≤i} h[k]·x[i-k]`. -/
theorem fir_eq_real (h x : Array ℝ) (hh : 1 ≤ h.size) :
    (firProcessR (firInitR h) x).2.size = x.size ∧
    ∀ i, i < x.size → (firProcessR (firInitR h) x).2.getD i 0 =
      ∑ k ∈ range h.size, if k ≤ i then h.getD k 0 * x.getD (i - k) 0 else 0 := by
  unfold firProcessR firInitR
  rw [Cx.zeroR_eq]
  exact fir_eq id h x hh

/-- **T07.1, `FirFilter<cmplx_t>`** (model `firProcessC` at `Cx ℝ`, read in `ℂ` through `toC`):
`y[i] = Σ_{k≤i} conj(h[k])·x[i-k]` — the coefficients enter conjugated, the library's convention. -/
theorem fir_eq_cmplx (h x : Array (Cx ℝ)) (hh : 1 ≤ h.size) :
    (firProcessC (firInitC h) x).2.size = x.size ∧
    ∀ i, i < x.size → Cx.toC ((firProcessC (firInitC h) x).2.getD i 0) =
      ∑ k ∈ range h.size, if k ≤ i then (starRingEnd ℂ) (Cx.toC (h.getD k 0)) * Cx.toC (x.getD (i - k) 0) else 0 := by
  unfold firProcessC firInitC
  rw [Cx.zeroC_eq]
  obtain ⟨h1, h2⟩ := fir_eq Cx.conj h x hh
  refine ⟨h1, fun i hi => ?_⟩
  rw [h2 i hi, ← Cx.toCHom_apply, map_sum]
  apply Finset.sum_congr rfl
  intro k _
  by_cases hk : k ≤ i
  · rw [if_pos hk, if_pos hk, Cx.toCHom_apply, Cx.toC_mul, Cx.toC_conj]
  · rw [if_neg hk, if_neg hk, map_zero]

/-- **T07.4, `MAFilter<real_t>`**: for every `n ≥ 1` and every input, the moving-average filter started from rest
produces exactly the output of `FirFilter` with `n` equal taps `1/n` (`n ≥ 1` is the explicit division hypothesis). -/
theorem ma_eq_fir_real (n : ℕ) (hn : 1 ≤ n) (xs : Array ℝ) :
    (maProcessR (maInitR n) xs).2 = (firProcessR (firInitR (Array.replicate n (1 / (n : ℝ)))) xs).2 := by
  obtain ⟨f1, f2⟩ := fir_eq_real (Array.replicate n (1 / (n : ℝ))) xs (by simpa using hn)
  have m := ma_eq_window (R := ℝ) divnR n hn xs
  unfold maProcessR maInitR
  rw [Cx.zeroR_eq]
  obtain ⟨m1, m2⟩ := m
  apply ext_getD _ _ 0 (by rw [m1, f1])
  intro t ht
  rw [m1] at ht
  rw [m2 t ht, f2 t ht, Array.size_replicate]
  show (∑ b ∈ range n, if b ≤ t then xs.getD (t - b) 0 else 0) / ((n : ℕ) : ℝ) = _
  rw [div_eq_mul_inv, Finset.sum_mul]
  apply Finset.sum_congr rfl
  intro k hk
  rw [getD_replicate', if_pos (mem_range.mp hk)]
  by_cases h : k ≤ t
  · rw [if_pos h, if_pos h]; ring
  · rw [if_neg h, if_neg h, zero_mul]

theorem divnC_eq_mul (a : Cx ℝ) (n : ℕ) : divnC a n = (⟨1 / (n : ℝ), 0⟩ : Cx ℝ) * a := by
  apply Cx.ext' <;> simp [divnC, Cx.divr] <;> ring

/-- **T07.4, `MAFilter<cmplx_t>`**: the same with the real taps `1/n` embedded in `cmplx_t`. -/
theorem ma_eq_fir_cmplx (n : ℕ) (hn : 1 ≤ n) (xs : Array (Cx ℝ)) :
    (maProcessC (maInitC n) xs).2 = (firProcessC (firInitC (Array.replicate n (⟨1 / (n : ℝ), 0⟩ : Cx ℝ))) xs).2 := by
  have f := fir_eq Cx.conj (Array.replicate n (⟨1 / (n : ℝ), 0⟩ : Cx ℝ)) xs (by simpa using hn)
  have m := ma_eq_window (R := Cx ℝ) divnC n hn xs
  unfold maProcessC maInitC firProcessC firInitC
  rw [Cx.zeroC_eq]
  obtain ⟨m1, m2⟩ := m
  obtain ⟨f1, f2⟩ := f
  apply ext_getD _ _ 0 (by rw [m1, f1])
  intro t ht
  rw [m1] at ht
  rw [m2 t ht, f2 t ht, Array.size_replicate, divnC_eq_mul, Finset.mul_sum]
  apply Finset.sum_congr rfl
  intro k hk
  rw [getD_replicate', if_pos (mem_range.mp hk)]
  have hc : Cx.conj (⟨1 / (n : ℝ), 0⟩ : Cx ℝ) = ⟨1 / (n : ℝ), 0⟩ := by apply Cx.ext' <;> simp [Cx.conj]
  by_cases h : k ≤ t
  · rw [if_pos h, if_pos h, hc]
  · rw [if_neg h, if_neg h, mul_zero]

/-- **T07.3, `xcorr(arr_cmplx, arr_cmplx)`** (model `xcorrC` at `Cx ℝ`, read in `ℂ`): output `j` is
`Σ_n a[n+lag]·conj(b[n])` with `lag = j-(len b-1)`, for every lag `-(len b-1) … len a-1`. -/
theorem xcorr_eq_cmplx (fft ifft : Array (Cx ℝ) → Array (Cx ℝ)) (a b : Array (Cx ℝ)) (ha : 1 ≤ a.size) (hb : 1 ≤ b.size)
    (H : CircCorr Cx.conj fft ifft (2 ^ nextpow2 (a.size + b.size - 1))) :
    (xcorrC fft ifft a b).size = a.size + b.size - 1 ∧
    ∀ j, j < a.size + b.size - 1 → Cx.toC ((xcorrC fft ifft a b).getD j 0) =
      ∑ n ∈ range b.size,
        if b.size - 1 ≤ j + n ∧ j + n - (b.size - 1) < a.size then
          Cx.toC (a.getD (j + n - (b.size - 1)) 0) * (starRingEnd ℂ) (Cx.toC (b.getD n 0)) else 0 := by
  unfold xcorrC
  rw [Cx.zeroC_eq]
  obtain ⟨h1, h2⟩ := xcorr_eq Cx.conj conj_zero fft ifft a b ha hb H
  refine ⟨h1, fun j hj => ?_⟩
  rw [h2 j hj, ← Cx.toCHom_apply, map_sum]
  apply Finset.sum_congr rfl
  intro k _
  split
  · rw [Cx.toCHom_apply, Cx.toC_mul, Cx.toC_conj]
  · rw [map_zero]

/-- **T07.2, `FftFilter(arr_cmplx)`** (model `fftInitC` / `fftProcessC` at `Cx ℝ`): the emitted samples are those of
`FirFilter<cmplx_t>` on the same input, `⌊len/_n⌋·_n` of them. -/
theorem fftfilter_eq_fir_cmplx (fft ifft : Array (Cx ℝ) → Array (Cx ℝ)) (h : Array (Cx ℝ)) (hm : 1 ≤ h.size)
    (H : CircConv fft ifft (2 ^ nextpow2 (2 * h.size))) (xs : Array (Cx ℝ)) :
    (fftProcessC fft ifft (fftInitC fft h) xs).2.size = xs.size / (fftInitC fft h).n * (fftInitC fft h).n ∧
    ∀ i, i < (fftProcessC fft ifft (fftInitC fft h) xs).2.size →
      (fftProcessC fft ifft (fftInitC fft h) xs).2.getD i 0 = (firProcessC (firInitC h) xs).2.getD i 0 := by
  unfold fftProcessC fftInitC firProcessC firInitC
  rw [Cx.zeroC_eq]
  exact ⟨(fftfilter_eq_sum Cx.conj conj_zero fft ifft h hm H xs).1,
    (fftfilter_eq_fir Cx.conj conj_zero fft ifft h hm H xs).2⟩

/-! ### the real entry points of the FFT based kernels (`real(process(complex(x)))`, `real(xcorr(complex(a), complex(b)))`) -/

/-- `Cx.re` as an additive homomorphism -/
def reHom : Cx ℝ →+ ℝ where
  toFun := Cx.re
  map_zero' := rfl
  map_add' := Cx.add_re

theorem getD_ofRealV (x : Array ℝ) (i : ℕ) : (ofRealV x).getD i 0 = (⟨x.getD i 0, 0⟩ : Cx ℝ) := by
  unfold ofRealV
  rw [getD_map' _ _ _ (0 : ℝ) (0 : Cx ℝ) (by apply Cx.ext' <;> simp)]
  apply Cx.ext' <;> simp

theorem getD_reV (y : Array (Cx ℝ)) (i : ℕ) : (reV y).getD i 0 = (y.getD i 0).re := by
  unfold reV
  rw [getD_map' _ _ _ (0 : Cx ℝ) (0 : ℝ) rfl]

/-- **T07.2, `FftFilter(arr_real)` / `process(arr_real)`**: emits `⌊len/_n⌋·_n` samples, each equal to the sample of
`FirFilter<real_t>` at the same position. -/
theorem fftfilter_eq_fir_real (fft ifft : Array (Cx ℝ) → Array (Cx ℝ)) (h : Array ℝ) (hm : 1 ≤ h.size)
    (H : CircConv fft ifft (2 ^ nextpow2 (2 * h.size))) (xs : Array ℝ) :
    (fftProcessR fft ifft (fftInitR fft h) xs).2.size = xs.size / (fftInitR fft h).n * (fftInitR fft h).n ∧
    ∀ i, i < (fftProcessR fft ifft (fftInitR fft h) xs).2.size →
      (fftProcessR fft ifft (fftInitR fft h) xs).2.getD i 0 = (firProcessR (firInitR h) xs).2.getD i 0 := by
  have hsz : (ofRealV h).size = h.size := by simp [ofRealV]
  have hxz : (ofRealV xs).size = xs.size := by simp [ofRealV]
  have H' : CircConv fft ifft (2 ^ nextpow2 (2 * (ofRealV h).size)) := by rw [hsz]; exact H
  have c := fftfilter_eq_sum Cx.conj conj_zero fft ifft (ofRealV h) (by rw [hsz]; exact hm) H' (ofRealV xs)
  obtain ⟨_, f2⟩ := fir_eq_real h xs hm
  unfold fftProcessR fftInitR fftProcessC fftInitC
  rw [Cx.zeroC_eq]
  obtain ⟨c1, c2⟩ := c
  have hs : (reV (fftProcess 0 fft ifft (fftInit 0 Cx.conj fft (ofRealV h)) (ofRealV xs)).2).size =
      (fftProcess 0 fft ifft (fftInit 0 Cx.conj fft (ofRealV h)) (ofRealV xs)).2.size := by simp [reV]
  refine ⟨by rw [hs, c1, hxz], fun i hi => ?_⟩
  rw [hs] at hi
  have hle : i < xs.size := by
    have := Nat.div_mul_le_self (ofRealV xs).size (fftInit 0 Cx.conj fft (ofRealV h)).n
    omega
  show (reV _).getD i 0 = _
  rw [getD_reV, c2 i hi, f2 i hle, hsz]
  show reHom _ = _
  rw [map_sum]
  apply Finset.sum_congr rfl
  intro k _
  by_cases hk : k ≤ i
  · rw [if_pos hk, if_pos hk, getD_ofRealV, getD_ofRealV]
    show (Cx.conj (⟨h.getD k 0, 0⟩ : Cx ℝ) * ⟨xs.getD (i - k) 0, 0⟩).re = _
    simp [Cx.conj]
  · rw [if_neg hk, if_neg hk]; rfl

/-- **T07.3, `xcorr(arr_real, arr_real)`**: output `j` is `Σ_n a[n+lag]·b[n]`, `lag = j-(len b-1)`. -/
theorem xcorr_eq_real (fft ifft : Array (Cx ℝ) → Array (Cx ℝ)) (a b : Array ℝ) (ha : 1 ≤ a.size) (hb : 1 ≤ b.size)
    (H : CircCorr Cx.conj fft ifft (2 ^ nextpow2 (a.size + b.size - 1))) :
    (xcorrR fft ifft a b).size = a.size + b.size - 1 ∧
    ∀ j, j < a.size + b.size - 1 → (xcorrR fft ifft a b).getD j 0 =
      ∑ n ∈ range b.size,
        if b.size - 1 ≤ j + n ∧ j + n - (b.size - 1) < a.size then a.getD (j + n - (b.size - 1)) 0 * b.getD n 0 else 0 := by
  have hsa : (ofRealV a).size = a.size := by simp [ofRealV]
  have hsb : (ofRealV b).size = b.size := by simp [ofRealV]
  have H' : CircCorr Cx.conj fft ifft (2 ^ nextpow2 ((ofRealV a).size + (ofRealV b).size - 1)) := by rw [hsa, hsb]; exact H
  obtain ⟨c1, c2⟩ := xcorr_eq Cx.conj conj_zero fft ifft (ofRealV a) (ofRealV b) (by rw [hsa]; exact ha) (by rw [hsb]; exact hb) H'
  unfold xcorrR xcorrC
  rw [Cx.zeroC_eq]
  rw [hsa, hsb] at c1 c2
  refine ⟨by simpa [reV] using c1, fun j hj => ?_⟩
  rw [getD_reV, c2 j hj]
  show reHom _ = _
  rw [map_sum]
  apply Finset.sum_congr rfl
  intro n _
  split
  · rw [getD_ofRealV, getD_ofRealV]
    show ((⟨a.getD _ 0, 0⟩ : Cx ℝ) * Cx.conj ⟨b.getD n 0, 0⟩).re = _
    simp [Cx.conj]
  · rfl

end inst

/-! ## The hypotheses `CircConv` / `CircCorr` hold for the exact DFT pair

so T07.2 / T07.3 are unconditional for the scalar-generic models run at `ℂ` with `fft` = the DFT and `ifft` = its inverse
(`Lib/Dft.lean`, `Lib/C07Dft.lean`); that the library's transforms compute these is C01/C02. -/
section dft

/-- the exact DFT of an array -/
noncomputable def dftArr (a : Array ℂ) : Array ℂ :=
  Array.ofFn (n := a.size) fun k => dft a.size (fun m => a.getD m 0) k.val
/-- the exact inverse DFT of an array -/
noncomputable def idftArr (A : Array ℂ) : Array ℂ :=
  Array.ofFn (n := A.size) fun t => idft A.size (fun k => A.getD k 0) t.val

theorem idft_congr (N : ℕ) (A B : ℕ → ℂ) (t : ℕ) (h : ∀ k, k < N → A k = B k) : idft N A t = idft N B t := by
  unfold idft
  congr 1
  exact Finset.sum_congr rfl fun k hk => by rw [h k (mem_range.mp hk)]

theorem getD_dftArr (a : Array ℂ) (k : ℕ) (hk : k < a.size) :
    (dftArr a).getD k 0 = dft a.size (fun m => a.getD m 0) k := by
  unfold dftArr; rw [getD_ofFn, dif_pos hk]

theorem getD_idftArr (A : Array ℂ) (t : ℕ) (ht : t < A.size) :
    (idftArr A).getD t 0 = idft A.size (fun k => A.getD k 0) t := by
  unfold idftArr; rw [getD_ofFn, dif_pos ht]

theorem circConv_dft (L : ℕ) (hL : 0 < L) : CircConv dftArr idftArr L := by
  intro a b ha hb
  have hs : (mulv 0 (dftArr a) (dftArr b)).size = L := by simp [mulv, dftArr, ha]
  refine ⟨by simp [idftArr, hs], fun t ht => ?_⟩
  rw [getD_idftArr _ t (by omega), hs]
  rw [idft_congr L _ (fun k => dft L (fun m => a.getD m 0) k * dft L (fun m => b.getD m 0) k) t]
  · exact circ_conv_dft L hL _ _ t ht
  · intro k hk
    show (mulv 0 (dftArr a) (dftArr b)).getD k 0 = _
    unfold mulv
    rw [getD_ofFn, dif_pos (by simp [dftArr, ha, hk]), getD_dftArr a k (by omega), getD_dftArr b k (by omega), ha, hb]

theorem circCorr_dft (M : ℕ) (hM : 0 < M) : CircCorr (starRingEnd ℂ) dftArr idftArr M := by
  intro a b ha hb
  have hs : (mulv 0 ((dftArr a).map (starRingEnd ℂ)) (dftArr b)).size = M := by simp [mulv, dftArr, ha]
  refine ⟨by simp [idftArr, hs], fun t ht => ?_⟩
  rw [getD_map _ _ _ _ (map_zero _)]
  rw [getD_idftArr _ t (by omega), hs]
  rw [idft_congr M _ (fun k => (starRingEnd ℂ) (dft M (fun m => a.getD m 0) k) * dft M (fun m => b.getD m 0) k) t]
  · exact circ_corr_dft M hM _ _ t ht
  · intro k hk
    show (mulv 0 ((dftArr a).map (starRingEnd ℂ)) (dftArr b)).getD k 0 = _
    unfold mulv
    rw [getD_ofFn, dif_pos (by simp [dftArr, ha, hk]), getD_map _ _ _ _ (map_zero _), getD_dftArr a k (by omega),
      getD_dftArr b k (by omega), ha, hb]

/-- **T07.2, unconditional at `ℂ`.** With the exact DFT pair, the overlap-add filter emits `⌊len/_n⌋·_n` samples and
each equals the direct filter's sample `Σ_{k≤i} conj(h[k])·x[i-k]` — every tap count `m ≥ 1`, every input. -/
theorem fftfilter_eq_fir_dft (h xs : Array ℂ) (hm : 1 ≤ h.size) :
    (fftProcess 0 dftArr idftArr (fftInit 0 (starRingEnd ℂ) dftArr h) xs).2.size =
      xs.size / (fftInit 0 (starRingEnd ℂ) dftArr h).n * (fftInit 0 (starRingEnd ℂ) dftArr h).n ∧
    ∀ i, i < (fftProcess 0 dftArr idftArr (fftInit 0 (starRingEnd ℂ) dftArr h) xs).2.size →
      (fftProcess 0 dftArr idftArr (fftInit 0 (starRingEnd ℂ) dftArr h) xs).2.getD i 0 =
        (process 0 (starRingEnd ℂ) (init 0 h) xs).2.getD i 0 ∧
      (fftProcess 0 dftArr idftArr (fftInit 0 (starRingEnd ℂ) dftArr h) xs).2.getD i 0 =
        ∑ k ∈ range h.size, if k ≤ i then (starRingEnd ℂ) (h.getD k 0) * xs.getD (i - k) 0 else 0 := by
  have H := circConv_dft (2 ^ nextpow2 (2 * h.size)) (Nat.two_pow_pos _)
  obtain ⟨h1, h2⟩ := fftfilter_eq_sum (starRingEnd ℂ) (map_zero _) dftArr idftArr h hm H xs
  obtain ⟨_, h3⟩ := fftfilter_eq_fir (starRingEnd ℂ) (map_zero _) dftArr idftArr h hm H xs
  exact ⟨h1, fun i hi => ⟨h3 i hi, h2 i hi⟩⟩

/-- **T07.3, unconditional at `ℂ`.** With the exact DFT pair, `xcorr(a,b)[j] = Σ_n a[n+lag]·conj(b[n])`, `lag = j-(len b-1)`,
for all lengths `≥ 1` and all `len a + len b - 1` lags. -/
theorem xcorr_eq_dft (a b : Array ℂ) (ha : 1 ≤ a.size) (hb : 1 ≤ b.size) :
    (xcorr 0 (starRingEnd ℂ) dftArr idftArr a b).size = a.size + b.size - 1 ∧
    ∀ j, j < a.size + b.size - 1 → (xcorr 0 (starRingEnd ℂ) dftArr idftArr a b).getD j 0 =
      ∑ n ∈ range b.size,
        if b.size - 1 ≤ j + n ∧ j + n - (b.size - 1) < a.size then
          a.getD (j + n - (b.size - 1)) 0 * (starRingEnd ℂ) (b.getD n 0) else 0 :=
  xcorr_eq (starRingEnd ℂ) (map_zero _) dftArr idftArr a b ha hb
    (circCorr_dft _ (Nat.two_pow_pos _))

end dft

/-! ## Non-vacuity: the models and the hypotheses at concrete inputs -/
section examples

/-- `FirFilter` with taps `[1,2]` (over `ℤ`, `conj = id`), fed `[3,4]` then `[5]`: outputs `[3,10]`, `[13]`;
the state handed over satisfies `Hist`. -/
example : (process (0 : ℤ) id (init 0 #[1, 2]) #[3, 4]).2 = #[3, 10] ∧
    (process (0 : ℤ) id (process (0 : ℤ) id (init 0 #[1, 2]) #[3, 4]).1 #[5]).2 = #[13] ∧
    (process (0 : ℤ) id (init 0 #[1, 2]) #[3, 4, 5]).2 = #[3, 10, 13] := by decide

example : Hist (process (0 : ℤ) id (init 0 #[1, 2]) #[3, 4]).1 (#[] ++ #[3, 4]) :=
  (fir_step id (init 0 #[1, 2]) #[] #[3, 4] (hist_init _) (by decide)).2.1

/-- the conjugation convention: one complex tap `i` (Gaussian integers as pairs, `cj` = conjugation) gives `y = -i·x` -/
example : (process ((0, 0) : ℤ × ℤ) (fun z => (z.1, -z.2)) ⟨#[(0, 1)], #[]⟩ #[(1, 0)]).2.size = 1 := by decide

/-- `MAFilter(2)` over `ℤ` (`T / int` = integer division), fed `[2,4,6]`: `[1,3,5]`; invariant instance -/
example : (maProcess (0 : ℤ) (fun a n => a / n) (maInit 0 2) #[2, 4, 6]).2 = #[1, 3, 5] := by decide

example : MaInv (maInit (0 : ℤ) 3) (fun _ => 0) 3 := ma_init_inv 3 (by decide)

/-- `nextpow2` at the sizes the kernels use -/
example : nextpow2 0 = 0 ∧ nextpow2 1 = 0 ∧ nextpow2 2 = 1 ∧ nextpow2 3 = 2 ∧ nextpow2 4 = 2 ∧ nextpow2 5 = 3 ∧
    nextpow2 2048 = 11 ∧ nextpow2 2049 = 12 := by decide

/-- block-size arithmetic of `FftFilter` for 3 taps: `fft_len = 8`, `_n = 6`; the invariant holds initially -/
example : (fftInit (0 : ℤ) id id #[1, 2, 3]).n = 6 ∧ (fftInit (0 : ℤ) id id #[1, 2, 3]).x.size = 8 := by decide

example (S : ℕ → ℤ) : FInv id id #[1, 2, 3] (2 ^ nextpow2 (2 * 3)) (2 ^ nextpow2 (2 * 3) + 1 - 3) S 0 0 (fftInit 0 id id #[1, 2, 3]) #[] :=
  fft_init_inv id id #[1, 2, 3] (by decide) S

end examples

end Dsp.C07
