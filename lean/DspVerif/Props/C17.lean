import DspVerif.Model.MathFns
import DspVerif.Lib.RealFn
import Mathlib.Analysis.SpecialFunctions.Complex.Arg
import Mathlib.Analysis.SpecialFunctions.Pow.Real
import Mathlib.Analysis.SpecialFunctions.Log.Base
import Mathlib.Algebra.BigOperators.Group.List.Basic
import Mathlib.Algebra.Order.Round
import Mathlib.Tactic.Linarith
import Mathlib.Tactic.Ring
import Mathlib.Tactic.FieldSimp
/-!
# C17 — elementary and reduction functions return their mathematical values

Theorems about the executable models of `Model/MathFns.lean` (the formulas `lib/math.cpp`,
`include/dsplib/math.h`, `lib/utils.cpp`, `include/dsplib/utils.h` evaluate, in the code's operation order) and, for the
dB conversions and `abs2(real_t)`, about the definitions regenerated from the C++ AST (`Gen/Dynamics.lean`).

* Part (a), shape / index functions — for EVERY element type `β`, every length and every argument:
  integer `arange` (count = `⌈(stop-start)/step⌉` clamped at 0; lists `start + k·step` for EXACTLY the
  `k ≥ 0` strictly before `stop`, both directions), fractional `arange` with integral count, `linspace`
  (count, endpoints, spacing), `repelem`, `flip`, `upsample`, `downsample` (all factors and phases),
  `downsample ∘ upsample = id`, `zeropad`, `delayseq`, `cumsum` (both directions), `complex ∘ (real, imag) = id`.
* Part (b), value functions — in exact arithmetic (`ℝ`, `ℂ`) the evaluated formula IS the definition:
  `abs`, `abs2`, `angle = Complex.arg` (the `atan2` case split), `exp`, `expj`, `power(x, n) = xⁿ` through the polar
  form, the integer-power shortcuts, `sum`, `dot`, `mean`, `rms` (n), `stddev` (n-1), `norm` (p = 1, 2, ≥ 3),
  `max/min/argmax/argmin/peak2peak` (first / last extreme, real and complex-by-magnitude), dB and degree
  conversions and their round trips.

Floating-point rounding is NOT modelled here: "within a few rounding units" is measured by the ORACLE
of `harness/c17.cpp` against `long double`.  `angle` is `std::atan2` in the code; the model is the
textbook case split (glibc's `atan2` is trusted to implement it).
-/
namespace Dsp.C17
open Dsp Dsp.MathFns

variable {β : Type}

/-- "strictly before `stop`" in the direction of `step` -/
def Before (step x stop : Int) : Prop := if 0 < step then x < stop else stop < x

/-- `ceilDiv a b` is `⌈a / b⌉`: an integer `k` lies below it iff `k·b` has not reached `a` (in the direction of `b`) -/
theorem ceilDiv_lt_iff (a b k : Int) (hb : b ≠ 0) :
    k < ceilDiv a b ↔ (if 0 < b then k * b < a else a < k * b) := by
  unfold ceilDiv
  rcases lt_or_gt_of_ne hb with h | h
  · rw [if_pos h, if_neg (by omega)]
    have hb' : 0 < -b := by omega
    have : a / b = -(a / (-b)) := by rw [Int.ediv_neg, neg_neg]
    rw [this]
    constructor
    · intro hk
      have h1 : a / (-b) < -k := by omega
      have := (Int.ediv_lt_iff_lt_mul hb').mp h1
      nlinarith
    · intro hk
      have h1 : a / (-b) < -k := (Int.ediv_lt_iff_lt_mul hb').mpr (by nlinarith)
      omega
  · rw [if_neg (by omega), if_pos h]
    constructor
    · intro hk
      have h1 : (-a) / b < -k := by omega
      have := (Int.ediv_lt_iff_lt_mul h).mp h1
      nlinarith
    · intro hk
      have h1 : (-a) / b < -k := (Int.ediv_lt_iff_lt_mul h).mpr (by nlinarith)
      omega

/-- INTEGER `arange`, the "exactly" clause, both directions: for `step ≠ 0` an index `k ≥ 0` is listed iff
`start + k·step` lies strictly before `stop` (in the direction of `step`).  The count is therefore
`⌈(stop-start)/step⌉` clamped at 0 (`arangeCount` is `Int.toNat` of the ceiling). -/
theorem arangeCount_exact (start stop step : Int) (hs : step ≠ 0) (k : Nat) :
    k < arangeCount start stop step ↔ Before step (start + k * step) stop := by
  unfold arangeCount Before
  rw [Int.lt_toNat, ceilDiv_lt_iff _ _ _ hs]
  by_cases h : 0 < step <;> simp only [h, if_true, if_false] <;> constructor <;> intro h' <;> linarith

/-- integer `arange` rejects `step = 0` -/
theorem arangeInt_step_zero (start stop : Int) : ∃ e, arangeInt start stop 0 = .error e :=
  ⟨"arange step cannot be zero", by simp [arangeInt]⟩

/-- integer `arange` (`step ≠ 0`) returns `arangeCount` elements, the `i`-th being `start + i·step` -/
theorem arangeInt_spec (start stop step : Int) (hs : step ≠ 0) :
    ∃ r, arangeInt start stop step = .ok r ∧ r.size = arangeCount start stop step ∧
      ∀ (i : Nat) (h : i < r.size), r[i] = start + i * step := by
  refine ⟨Array.ofFn (n := arangeCount start stop step) fun i => start + (i.val : Int) * step,
    by simp [arangeInt, hs], by simp, ?_⟩
  intro i h
  simp


/-- `repelem(x, n)` has `size·n` elements (`n = 0`: empty) -/
theorem repelem_size (x : Array β) (n : Nat) : (repelem x n).size = x.size * n := by
  unfold repelem
  by_cases h0 : n = 0
  · simp [h0]
  by_cases h1 : n = 1
  · simp [h1]
  simp [h0, h1]

/-- `repelem(x, n)[k] = x[k / n]`: each element repeated `n` times, in order -/
theorem repelem_getElem (x : Array β) (n k : Nat) (h : k < (repelem x n).size) :
    (repelem x n)[k] = x[k / n]'(by
      rw [repelem_size] at h
      exact Nat.div_lt_of_lt_mul (Nat.mul_comm x.size n ▸ h)) := by
  unfold repelem
  by_cases h0 : n = 0
  · rw [repelem_size] at h; simp [h0] at h
  by_cases h1 : n = 1
  · simp [h1]
  simp [h0, h1]

/-- `flip` keeps the length -/
theorem flip_size (x : Array β) : (MathFns.flip x).size = x.size := by simp [MathFns.flip]

/-- `flip(x)[i] = x[N-1-i]` -/
theorem flip_getElem (x : Array β) (i : Nat) (h : i < (MathFns.flip x).size) :
    (MathFns.flip x)[i] = x[x.size - 1 - i]'(by rw [flip_size] at h; omega) := by
  simp [MathFns.flip]

/-- `zeropad(x, n)` throws when `n` is below the length -/
theorem zeropad_short (zero : β) (x : Array β) (n : Int) (h : n < x.size) :
    ∃ e, zeropad zero x n = .error e := ⟨"padding size error", by simp [zeropad, h]⟩

/-- `zeropad(x, n)`, `n ≥ size`: `n` elements, `x` followed by zeros -/
theorem zeropad_spec (zero : β) (x : Array β) (n : Nat) (h : x.size ≤ n) :
    ∃ r, zeropad zero x n = .ok r ∧ r.size = n ∧
      ∀ (i : Nat) (hi : i < r.size), r[i] = if h' : i < x.size then x[i] else zero := by
  unfold zeropad
  have h1 : ¬ ((x.size : Int) > (n : Int)) := by omega
  by_cases h2 : x.size = n
  · refine ⟨x, by simp [h2], h2, ?_⟩
    intro i hi; simp [hi]
  · refine ⟨x ++ Array.replicate (n - x.size) zero, ?_, ?_, ?_⟩
    · have : ¬ ((x.size : Int) = (n : Int)) := by omega
      simp [h1, this]
    · simp; omega
    · intro i hi
      by_cases h' : i < x.size
      · simp [h', Array.getElem_append_left]
      · rw [Array.getElem_append_right (by omega)]; simp [h']


/-- `upsample(x, n, phase)`, `0 ≤ phase < n`: `size·n` elements, `x[i]` at position `i·n + phase`, zero elsewhere -/
theorem upsample_spec (zero : β) (x : Array β) (n phase : Nat) (hp : phase < n) :
    ∃ r, upsample zero x n phase = .ok r ∧ r.size = x.size * n ∧
      (∀ (i : Nat) (hi : i < x.size) (hk : i * n + phase < r.size), r[i * n + phase] = x[i]) ∧
      (∀ (k : Nat) (hk : k < r.size), k % n ≠ phase → r[k] = zero) := by
  unfold upsample
  have hn : (n : Int) > 0 := by omega
  have hph : ((phase : Int) < n ∧ (phase : Int) ≥ 0) := by omega
  by_cases h1 : n = 1
  · subst h1
    have : phase = 0 := by omega
    subst this
    refine ⟨x, by simp, by simp, ?_, ?_⟩
    · intro i hi hk; simp
    · intro k hk hne; omega
  · have h1' : ¬ ((n : Int) = 1) := by omega
    refine ⟨_, by simp only [hn, hph, h1', not_true_eq_false, if_false]; rfl, by simp, ?_, ?_⟩
    · intro i hi hk
      have hn0 : 0 < n := by omega
      have e1 : (i * n + phase) % n = phase := by rw [Nat.mul_comm, Nat.mul_add_mod]; exact Nat.mod_eq_of_lt hp
      have e2 : (i * n + phase) / n = i := by rw [Nat.mul_comm, Nat.mul_add_div hn0, Nat.div_eq_of_lt hp]; simp
      simp [e1, e2, hi]
    · intro k hk hne
      simp [hne]


/-- the C `int` expression `(size - phase - 1) / n + 1` of `_downsample` for `phase < size` -/
theorem downsample_nr (N n phase : Nat) (hN : phase < N) :
    (Int.tdiv ((N : Int) - phase - 1) n + 1).toNat = (N - phase - 1) / n + 1 := by
  have : (N : Int) - phase - 1 = ((N - phase - 1 : Nat) : Int) := by omega
  rw [this, ← Int.ofNat_tdiv]
  generalize (N - phase - 1) / n = q
  omega

/-- `upsample` with valid arguments and `n ≠ 1`, unfolded -/
theorem upsample_ok (zero : β) (x : Array β) (n phase : Nat) (hp : phase < n) (h1 : n ≠ 1) :
    upsample zero x n phase = .ok (Array.ofFn (n := x.size * n) fun k =>
      if k.val % n = phase then x.getD (k.val / n) zero else zero) := by
  unfold upsample
  rw [if_neg (by omega), if_neg (by omega), if_neg (by omega)]
  simp only [Int.toNat_natCast]

/-- `downsample` with valid arguments, `n ≠ 1` and `phase < size`, unfolded -/
theorem downsample_ok (zero : β) (x : Array β) (n phase : Nat) (hp : phase < n) (h1 : n ≠ 1) (hN : phase < x.size) :
    downsample zero x n phase = .ok (Array.ofFn (n := (x.size - phase - 1) / n + 1) fun i =>
      x.getD (phase + i.val * n) zero) := by
  unfold downsample
  rw [if_neg (by omega), if_neg (by omega), if_neg (by omega)]
  simp only [Int.toNat_natCast]
  rw [downsample_nr _ _ _ hN]

/-- `downsample(x, n, phase)`, `0 ≤ phase < n`, `phase < size`: keeps EXACTLY the indices `phase + k·n < size`
(so `⌈(size - phase)/n⌉` elements), `r[i] = x[phase + i·n]`.  The excluded point `phase ≥ size` (outside the
property's quantifier) is an input class of the harness: there C truncation yields one zero element. -/
theorem downsample_spec (zero : β) (x : Array β) (n phase : Nat) (hp : phase < n) (hN : phase < x.size) :
    ∃ r, downsample zero x n phase = .ok r ∧ r.size = (x.size - phase - 1) / n + 1 ∧
      (∀ k : Nat, k < r.size ↔ phase + k * n < x.size) ∧
      (∀ (i : Nat) (hi : i < r.size) (hx : phase + i * n < x.size), r[i] = x[phase + i * n]) := by
  have hn0 : 0 < n := by omega
  have hsz : ∀ k : Nat, k < (x.size - phase - 1) / n + 1 ↔ phase + k * n < x.size := by
    intro k
    rw [Nat.lt_succ_iff, Nat.le_div_iff_mul_le hn0]
    omega
  by_cases h1 : n = 1
  · subst h1
    have : phase = 0 := by omega
    subst this
    refine ⟨x, by simp [downsample], by simp; omega, ?_, ?_⟩
    · intro k; simp
    · intro i hi hx; simp
  · refine ⟨_, downsample_ok zero x n phase hp h1 hN, by simp, ?_, ?_⟩
    · intro k
      simp only [Array.size_ofFn]
      exact hsz k
    · intro i hi hx
      simp [hx]

/-- inverse pair: `downsample(upsample(x, n, phase), n, phase) = x` for every factor `n ≥ 1`, every phase `< n`
and every non-empty `x` (for the empty array and `phase < n - 1` the C truncation returns one zero — lengths
start at 1 in the property) -/
theorem downsample_upsample (zero : β) (x : Array β) (n phase : Nat) (hp : phase < n) (hx : 0 < x.size) :
    ∃ u, upsample zero x n phase = .ok u ∧ downsample zero u n phase = .ok x := by
  have hn0 : 0 < n := by omega
  by_cases h1 : n = 1
  · subst h1
    have : phase = 0 := by omega
    subst this
    exact ⟨x, by simp [upsample], by simp [downsample]⟩
  · refine ⟨_, upsample_ok zero x n phase hp h1, ?_⟩
    have hM : phase < x.size * n := by nlinarith
    rw [downsample_ok zero _ n phase hp h1 (by simpa using hM)]
    congr 1
    have hsz : (x.size * n - phase - 1) / n + 1 = x.size := by
      have : x.size * n - phase - 1 = (n - phase - 1) + (x.size - 1) * n := by
        have : x.size * n = (x.size - 1) * n + n := by
          have : x.size = (x.size - 1) + 1 := by omega
          nlinarith
        omega
      rw [this, Nat.add_mul_div_right _ _ hn0, Nat.div_eq_of_lt (by omega)]
      omega
    apply Array.ext
    · simp only [Array.size_ofFn]
      exact hsz
    · intro i h1 h2
      have e1 : (phase + i * n) % n = phase := by rw [Nat.add_mul_mod_self_right]; exact Nat.mod_eq_of_lt hp
      have e2 : (phase + i * n) / n = i := by rw [Nat.add_mul_div_right _ _ hn0, Nat.div_eq_of_lt hp]; simp
      have e3 : phase + i * n < x.size * n := by nlinarith
      simp [e1, e2, e3, h2]


/-- `delayseq` keeps the length -/
theorem delayseq_size (zero : β) (x : Array β) (d : Int) : (delayseq zero x d).size = x.size := by
  unfold delayseq
  split_ifs <;> simp

/-- `delayseq` shifts by exactly `d` with zero fill: `r[i] = x[i - d]` when `0 ≤ i - d < N`, else zero -/
theorem delayseq_getElem (zero : β) (x : Array β) (d : Int) (i : Nat) (hi : i < (delayseq zero x d).size) :
    (delayseq zero x d)[i] =
      if h : 0 ≤ (i : Int) - d ∧ (i : Int) - d < x.size then x[((i : Int) - d).toNat]'(by omega) else zero := by
  have hi' : i < x.size := by rwa [delayseq_size] at hi
  by_cases hc : 0 ≤ (i : Int) - d ∧ (i : Int) - d < x.size
  · rw [dif_pos hc]
    unfold delayseq
    by_cases h0 : d = 0
    · subst h0; simp
    have h1 : ¬ d.natAbs ≥ x.size := by omega
    simp only [h0, h1, if_false]
    by_cases hd : d > 0
    · have h2 : ¬ i < d.natAbs := by omega
      have h4 : i - d.natAbs < x.size := by omega
      have h5 : ((i : Int) - d).toNat = i - d.natAbs := by omega
      simp [hd, h2, h4, h5]
    · have h2 : i < x.size - d.natAbs := by omega
      have h4 : i + d.natAbs < x.size := by omega
      have h5 : ((i : Int) - d).toNat = i + d.natAbs := by omega
      simp [hd, h2, h4, h5]
  · rw [dif_neg hc]
    unfold delayseq
    have h0 : d ≠ 0 := by rintro rfl; apply hc; omega
    by_cases h1 : d.natAbs ≥ x.size
    · simp [h0, h1]
    simp only [h0, h1, if_false]
    by_cases hd : d > 0
    · have h2 : i < d.natAbs := by omega
      simp [hd, h2]
    · have h2 : ¬ i < x.size - d.natAbs := by omega
      simp [hd, h2]

/-! ### cumsum -/
section
variable {γ : Type} [AddCommMonoid γ]

theorem scanFwd_length (acc : γ) (l : List γ) : (scanFwd acc l).length = l.length := by
  induction l generalizing acc with
  | nil => rfl
  | cons y ys ih => simp [scanFwd, ih]

theorem scanFwd_getElem (acc : γ) (l : List γ) (i : Nat) (h : i < (scanFwd acc l).length) :
    (scanFwd acc l)[i] = acc + (l.take (i + 1)).sum := by
  induction l generalizing acc i with
  | nil => simp [scanFwd] at h
  | cons y ys ih =>
    cases i with
    | zero => simp [scanFwd, add_comm]
    | succ j =>
      simp only [scanFwd, List.getElem_cons_succ]
      rw [ih]
      simp [List.take_succ_cons, add_assoc, add_comm y acc]

/-- forward `cumsum` keeps the length -/
theorem cumsumFwd_length (l : List γ) : (cumsumFwd l).length = l.length := by
  cases l with
  | nil => rfl
  | cons y ys => simp [cumsumFwd, scanFwd_length]

/-- forward `cumsum`: element `i` is the sum of the first `i + 1` inputs -/
theorem cumsumFwd_getElem (l : List γ) (i : Nat) (h : i < (cumsumFwd l).length) :
    (cumsumFwd l)[i] = (l.take (i + 1)).sum := by
  cases l with
  | nil => simp [cumsumFwd] at h
  | cons y ys =>
    cases i with
    | zero => simp [cumsumFwd]
    | succ j =>
      simp only [cumsumFwd, List.getElem_cons_succ]
      rw [scanFwd_getElem]
      simp [List.take_succ_cons]

/-- reverse `cumsum`: same length, element `i` is the sum of the inputs from `i` to the end -/
theorem cumsumRev_eq (l : List γ) : cumsumRev l = (List.range l.length).map (fun i => (l.drop i).sum) := by
  induction l with
  | nil => rfl
  | cons y ys ih =>
    rw [cumsumRev, ih]
    cases ys with
    | nil => simp
    | cons z zs =>
      simp only [List.length_cons, List.range_succ_eq_map, List.map_cons, List.drop_zero, List.sum_cons,
        List.map_map]
      congr 1

end

/-- `linspace(x1, x2, 0)` throws -/
theorem linspace_zero (x1 x2 : ℝ) : ∃ e, linspace x1 x2 0 = .error e := ⟨"n must be greater or equal 1", by simp [linspace]⟩

/-- `linspace(x1, x2, n)`, `n ≥ 1`: `n` points, the last is `x2`, the first is `x1` (for `n ≥ 2`), equally spaced -/
theorem linspace_spec (x1 x2 : ℝ) (n : Nat) (hn : 1 ≤ n) :
    ∃ r, linspace x1 x2 n = .ok r ∧ r.size = n ∧
      (∀ h : n - 1 < r.size, r[n - 1] = x2) ∧
      (2 ≤ n → ∀ h : 0 < r.size, r[0] = x1) ∧
      (2 ≤ n → ∀ (i : Nat) (h : i < r.size), r[i] = x1 + i * ((x2 - x1) / ((n : ℝ) - 1))) := by
  unfold linspace
  have h0 : n ≠ 0 := by omega
  by_cases h1 : n = 1
  · subst h1
    refine ⟨#[x2], by simp, by simp, by simp, by omega, by omega⟩
  by_cases h2 : n = 2
  · subst h2
    refine ⟨#[x1, x2], by simp, by simp, by simp, by simp, ?_⟩
    intro _ i h
    have : i = 0 ∨ i = 1 := by simp at h; omega
    rcases this with rfl | rfl <;> norm_num
  · have hn1 : ((n - 1 : Nat) : ℝ) = (n : ℝ) - 1 := by rw [Nat.cast_sub hn]; simp
    have hne : (n : ℝ) - 1 ≠ 0 := by
      have : (2 : ℝ) < n := by exact_mod_cast (by omega : 2 < n)
      linarith
    refine ⟨_, by simp only [h0, h1, h2, if_false]; rfl, by simp, ?_, ?_, ?_⟩
    · intro h
      simp only [Array.getElem_ofFn, fn_ofNat, hn1]
      field_simp
      ring
    · intro _ h; simp
    · intro _ i h
      simp only [Array.getElem_ofFn, fn_ofNat, hn1]

/-- fractional `arange` whose count `(stop - start) / step` is the integer `n`: exactly `n` elements
`start + i step`, each strictly before `stop` (in the direction of `step`), and the next point IS `stop` -/
theorem arangeF_spec (start stop step : ℝ) (n : Nat) (hs : step ≠ 0) (hq : (stop - start) / step = n) :
    arangeFCount start stop step = n ∧ (arangeF start step n).size = n ∧
      (∀ (i : Nat) (h : i < (arangeF start step n).size), (arangeF start step n)[i] = start + i * step) ∧
      (∀ i : Nat, i < n → if 0 < step then start + i * step < stop else stop < start + i * step) ∧
      start + n * step = stop := by
  have hstop : stop = start + n * step := by
    field_simp at hq; linarith
  refine ⟨?_, by simp [arangeF], ?_, ?_, hstop.symm⟩
  · show Fn.round ((stop - start) / step) = (n : ℝ)
    rw [hq, fn_round, if_pos (Nat.cast_nonneg n)]
    have hfl : ⌊(n : ℝ) + 1 / 2⌋ = (n : ℤ) := by
      rw [Int.floor_eq_iff]
      constructor <;> push_cast <;> linarith
    rw [hfl]; simp
  · intro i h; simp [arangeF]
  · intro i hi
    have hi' : (i : ℝ) < n := by exact_mod_cast hi
    rw [hstop]
    by_cases hp : 0 < step
    · simp only [hp, if_true]; nlinarith
    · have : step < 0 := lt_of_le_of_ne (not_lt.mp hp) hs
      simp only [hp, if_false]; nlinarith

noncomputable instance : FnX ℝ := ⟨fun x => Real.log x / Real.log 2⟩

/-- over `ℝ` there is no negative zero: the sign-bit test is `x < 0` -/
theorem signNeg_real (x : ℝ) : signNeg x = decide (x < 0) := by
  unfold signNeg
  by_cases h : x < 0
  · simp [h]
  · simp [h]

/-- `abs(cmplx_t)` = `√(re² + im²)` is the modulus -/
theorem cabs_eq (z : Cx ℝ) : cabs z = ‖Cx.toC z‖ := by
  rw [Complex.norm_def, Complex.normSq_apply]
  rfl

/-- `abs2(cmplx_t)` = `re² + im²` is the squared modulus -/
theorem abs2_eq (z : Cx ℝ) : Cx.abs2 z = ‖Cx.toC z‖ ^ 2 := by
  rw [Cx.abs2_eq, Complex.sq_norm]

/-- `(im/re) / √(1 + (im/re)²) = sign(re) · im / ‖z‖` -/
theorem tan_norm (a b : ℝ) (ha : a ≠ 0) :
    (b / a) / Real.sqrt (1 + (b / a) ^ 2) = (if 0 < a then b else -b) / Real.sqrt (a * a + b * b) := by
  have h1 : 1 + (b / a) ^ 2 = (a * a + b * b) / (a ^ 2) := by field_simp
  have hpos : 0 < a * a + b * b := by have := mul_self_pos.mpr ha; nlinarith [mul_self_nonneg b]
  have hs : 0 < Real.sqrt (a * a + b * b) := Real.sqrt_pos.mpr hpos
  rw [h1, Real.sqrt_div' _ (sq_nonneg a), Real.sqrt_sq_eq_abs]
  by_cases h : 0 < a
  · rw [abs_of_pos h, if_pos h]; field_simp
  · have h' : a < 0 := lt_of_le_of_ne (not_lt.mp h) ha
    rw [abs_of_neg h', if_neg h]; field_simp

/-- `angle` (the case split evaluated for `std::atan2(im, re)`) is the principal argument -/
theorem angle_eq_arg (z : Cx ℝ) : angle z = Complex.arg (Cx.toC z) := by
  have hn : ‖Cx.toC z‖ = Real.sqrt (z.re * z.re + z.im * z.im) := by
    rw [Complex.norm_def, Complex.normSq_apply]; rfl
  unfold angle
  simp only [signNeg_real, fn_ofNat, fn_atan, fn_pi, Nat.cast_zero, Nat.cast_ofNat]
  by_cases h1 : 0 < z.re
  · rw [if_pos h1, Complex.arg_of_re_nonneg (by simpa using h1.le), Real.arctan_eq_arcsin,
      tan_norm _ _ h1.ne', if_pos h1, hn]; rfl
  rw [if_neg h1]
  by_cases h2 : z.re < 0
  · rw [if_pos h2]
    by_cases h3 : z.im < 0
    · simp only [h3, decide_true, if_true]
      rw [Complex.arg_of_re_neg_of_im_neg (by simpa using h2) (by simpa using h3), Real.arctan_eq_arcsin,
        tan_norm _ _ h2.ne, if_neg h1, hn]; simp
    · simp only [h3, decide_false, Bool.false_eq_true, if_false]
      rw [Complex.arg_of_re_neg_of_im_nonneg (by simpa using h2) (by simpa using not_lt.mp h3),
        Real.arctan_eq_arcsin, tan_norm _ _ h2.ne, if_neg h1, hn]; simp
  rw [if_neg h2]
  have h0 : z.re = 0 := le_antisymm (not_lt.mp h1) (not_lt.mp h2)
  by_cases h3 : 0 < z.im
  · rw [if_pos h3]; symm; rw [Complex.arg_eq_pi_div_two_iff]; exact ⟨h0, h3⟩
  rw [if_neg h3]
  by_cases h4 : z.im < 0
  · rw [if_pos h4]; symm; rw [Complex.arg_eq_neg_pi_div_two_iff]; exact ⟨h0, h4⟩
  rw [if_neg h4]
  have h5 : z.im = 0 := le_antisymm (not_lt.mp h3) (not_lt.mp h4)
  have : Cx.toC z = 0 := by apply Complex.ext <;> simp [h0, h5]
  simp [h2, this, h5]

/-- `exp(cmplx_t)` is the complex exponential -/
theorem cexp_eq (z : Cx ℝ) : Cx.toC (cexp z) = Complex.exp (Cx.toC z) := by
  apply Complex.ext <;> simp [cexp, Complex.exp_re, Complex.exp_im]

/-- `expj(x)` = `(cos x, sin x)` is `e^{ix}` -/
theorem expj_eq (x : ℝ) : Cx.toC (expj x) = Complex.exp (x * Complex.I) := by
  apply Complex.ext <;> simp [expj, Complex.exp_re, Complex.exp_im]

/-- `power(cmplx_t, real_t)`: the polar form `|x|ⁿ·(cos(n·angle x), sin(n·angle x))` IS the principal power `xⁿ`
(this is `Complex.cpow_ofReal_re/im` with `angle = arg`, `abs = ‖·‖`).  No hypothesis is needed in `ℝ`; for the CODE the
statement is meaningful for `x ≠ 0`, and for `x = 0` with `n ≥ 0` (`pow(0, 0) = 1`, `pow(0, n) = 0`, matching Mathlib's
`0 ^ n`); `x = 0, n < 0` (IEEE `+∞`) is outside the domain and is an excluded input class of the harness. -/
theorem cpow_eq (x : Cx ℝ) (n : ℝ) : Cx.toC (cpow x n) = (Cx.toC x) ^ (n : ℂ) := by
  apply Complex.ext
  · rw [Complex.cpow_ofReal_re]
    simp [cpow, Cx.rmul, Cx.mulr, expj, rpow, cabs_eq, angle_eq_arg, mul_comm]
  · rw [Complex.cpow_ofReal_im]
    simp [cpow, Cx.rmul, Cx.mulr, expj, rpow, cabs_eq, angle_eq_arg, mul_comm]


/-- `power(real_t, int)` with its shortcuts is the integer power -/
theorem rpowi_eq (x : ℝ) (n : ℤ) (_hx : x ≠ 0 ∨ 0 ≤ n) : rpowi x n = x ^ n := by
  unfold rpowi
  split_ifs with h2 h1 h0 h1'
  · subst h2; rw [zpow_ofNat]; ring
  · subst h1; simp
  · subst h0; simp
  · subst h1'; simp
  · simp only [rpow, fn_pow, fn_ofInt]; exact Real.rpow_intCast x n

/-- the REGENERATED `cmplx_t::operator/` is complex division (`b ≠ 0`) -/
theorem toC_div (a b : Cx ℝ) (hb : Cx.toC b ≠ 0) : Cx.toC (a / b) = Cx.toC a / Cx.toC b := by
  have hb' : Complex.normSq (Cx.toC b) ≠ 0 := by simpa [Complex.normSq_eq_zero] using hb
  have e : Cx.abs2 b = Complex.normSq (Cx.toC b) := Cx.abs2_eq b
  have hb2 : Cx.abs2 b ≠ 0 := by rw [e]; exact hb'
  rw [eq_div_iff hb]
  apply Complex.ext
  · show ((a.re * b.re + a.im * b.im) / Cx.abs2 b * b.re - (b.re * a.im - a.re * b.im) / Cx.abs2 b * b.im) = _
    have : Cx.abs2 b = b.re * b.re + b.im * b.im := rfl
    field_simp
    rw [this]; simp; ring
  · show ((a.re * b.re + a.im * b.im) / Cx.abs2 b * b.im + (b.re * a.im - a.re * b.im) / Cx.abs2 b * b.re) = _
    have : Cx.abs2 b = b.re * b.re + b.im * b.im := rfl
    field_simp
    rw [this]; simp; ring

/-- `power(cmplx_t, int)` with its shortcuts (`x*x`, `1/x`, `1`, `x`, else polar form) is the integer power -/
theorem cpowi_eq (x : Cx ℝ) (n : ℤ) (hx : Cx.toC x ≠ 0) : Cx.toC (cpowi x n) = (Cx.toC x) ^ n := by
  unfold cpowi
  split_ifs with h2 h1 h0 h1'
  · subst h2; rw [Cx.toC_mul, zpow_ofNat]; ring
  · subst h1
    rw [Cx.rdiv, toC_div _ _ hx]
    have : Cx.toC (⟨Fn.ofNat 1, Fn.ofInt 0⟩ : Cx ℝ) = 1 := by apply Complex.ext <;> simp
    rw [this]; simp
  · subst h0; apply Complex.ext <;> simp
  · subst h1'; simp
  · rw [cpow_eq]; simp only [fn_ofInt]
    rw [Complex.ofReal_intCast, Complex.cpow_intCast]

theorem foldl_add_map {γ δ : Type} [AddCommMonoid γ] (g : δ → γ) (l : List δ) (a : γ) :
    l.foldl (fun acc v => acc + g v) a = a + (l.map g).sum := by
  induction l generalizing a with
  | nil => simp
  | cons y ys ih => simp [ih, add_assoc]

/-- `sum(arr_real)` is the sum of the elements -/
theorem sum_eq (x : Array ℝ) : MathFns.sum x = x.toList.sum := by
  unfold MathFns.sum
  rw [← Array.foldl_toList]
  have := foldl_add_map (fun v : ℝ => v) x.toList (0 : ℝ)
  simpa using this

/-- `mean(arr_real)` = Σ xᵢ / n -/
theorem mean_eq (x : Array ℝ) : mean x = x.toList.sum / x.size := by
  simp [mean, sum_eq]

/-- `dot(x, y)` = Σ xᵢ yᵢ for equal sizes; an exception otherwise -/
theorem dot_eq (x y : Array ℝ) (h : x.size = y.size) :
    dot x y = .ok ((x.toList.zip y.toList).map (fun p => p.1 * p.2)).sum := by
  unfold dot
  rw [if_neg (by simpa using h), ← Array.foldl_toList]
  have := foldl_add_map (fun p : ℝ × ℝ => p.1 * p.2) (x.zip y).toList (0 : ℝ)
  simp only [fn_ofNat, Nat.cast_zero] at this ⊢
  rw [this]; simp

/-- `dot` of arrays of different sizes throws -/
theorem dot_size_mismatch (x y : Array ℝ) (h : x.size ≠ y.size) : ∃ e, dot x y = .error e :=
  ⟨"arrays sizes must be equal", by simp [dot, h]⟩

/-- `rms(arr_real)` = √(Σ xᵢ² / n) -/
theorem rms_eq (x : Array ℝ) : rms x = Real.sqrt ((x.toList.map (fun v => v ^ 2)).sum / x.size) := by
  unfold rms
  rw [← Array.foldl_toList]
  have := foldl_add_map (fun v : ℝ => v * v) x.toList (0 : ℝ)
  simp only [fn_ofNat, Nat.cast_zero, fn_sqrt] at this ⊢
  rw [this]; simp [pow_two]

/-- `stddev(arr_real)` = √(Σ (xᵢ - mean)² / (n - 1)) for `n ≥ 2` (sample standard deviation) -/
theorem stddev_eq (x : Array ℝ) (hn : 2 ≤ x.size) :
    stddev x = Real.sqrt ((x.toList.map (fun v => (v - x.toList.sum / x.size) ^ 2)).sum / ((x.size : ℝ) - 1)) := by
  unfold stddev
  simp only [rms_eq, mean_eq, fn_sqrt, fn_ofNat, fn_ofInt, Array.size_map, Array.toList_map, List.map_map]
  have hn' : (2 : ℝ) ≤ x.size := by exact_mod_cast hn
  have h1 : (0 : ℝ) < (x.size : ℝ) - 1 := by linarith
  have h0 : (0 : ℝ) < x.size := by linarith
  rw [← Real.sqrt_mul' _ (div_nonneg h0.le (by push_cast; linarith))]
  congr 1
  push_cast
  rw [Function.comp_def]
  generalize (List.map (fun v => (v - x.toList.sum / (x.size : ℝ)) ^ 2) x.toList).sum = S
  field_simp

/-- `norm(x, 1)` = Σ |xᵢ| -/
theorem norm_one_eq (x : Array ℝ) : MathFns.norm x 1 = (x.toList.map (fun v => |v|)).sum := by
  simp only [MathFns.norm, if_true, sum_eq, Array.toList_map]; rfl

/-- `norm(x, 2)` (the default) = √(Σ xᵢ²) -/
theorem norm_two_eq (x : Array ℝ) : MathFns.norm x 2 = Real.sqrt ((x.toList.map (fun v => v ^ 2)).sum) := by
  have e : (fun v : ℝ => rpowi v 2) = fun v => v ^ 2 := by funext v; simp [rpowi, pow_two]
  simp [MathFns.norm, sum_eq, rpowiArr, e]

/-- `norm(x, p)`, `p ≥ 3` = (Σ |xᵢ|^p)^(1/p) -/
theorem norm_p_eq (x : Array ℝ) (p : Nat) (hp : 3 ≤ p) :
    MathFns.norm x p = ((x.toList.map (fun v => |v| ^ p)).sum) ^ ((1 : ℝ) / p) := by
  have h1 : ¬ ((p : Int) = 1) := by omega
  have h2 : ¬ ((p : Int) = 2) := by omega
  have h0 : ¬ ((p : Int) = 0) := by omega
  have hm : ¬ ((p : Int) = -1) := by omega
  simp only [MathFns.norm, h1, h2, if_false, normP, rpow, fn_pow, sum_eq, rpowiArr, h0, Array.toList_map, List.map_map,
    fn_ofNat, fn_ofInt, Nat.cast_one, Int.cast_natCast]
  congr 2
  apply List.map_congr_left
  intro v _
  simp only [Function.comp, rpowi, h1, h2, h0, hm, if_false, rpow, fn_pow, fn_ofInt, Int.cast_natCast]
  rw [Real.rpow_natCast]; rfl

/-- complex `norm(x, p)`, `p ≥ 3` -/
theorem cnorm_p_eq (x : Array (Cx ℝ)) (p : Nat) (hp : 3 ≤ p) :
    cnorm x p = ((x.toList.map (fun v => ‖Cx.toC v‖ ^ p)).sum) ^ ((1 : ℝ) / p) := by
  have h1 : ¬ ((p : Int) = 1) := by omega
  have h2 : ¬ ((p : Int) = 2) := by omega
  have h0 : ¬ ((p : Int) = 0) := by omega
  have hm : ¬ ((p : Int) = -1) := by omega
  simp only [cnorm, h1, h2, if_false, normP, rpow, fn_pow, sum_eq, rpowiArr, h0, Array.toList_map, List.map_map,
    fn_ofNat, fn_ofInt, Nat.cast_one, Int.cast_natCast]
  congr 2
  apply List.map_congr_left
  intro v _
  simp only [Function.comp, rpowi, h1, h2, h0, hm, if_false, rpow, fn_pow, fn_ofInt, Int.cast_natCast, cabs_eq]
  rw [Real.rpow_natCast]

/-- complex `norm(x, 1)` = Σ |zᵢ| -/
theorem cnorm_one_eq (x : Array (Cx ℝ)) : cnorm x 1 = (x.toList.map (fun v => ‖Cx.toC v‖)).sum := by
  have e : (cabs : Cx ℝ → ℝ) = fun v => ‖Cx.toC v‖ := by funext v; exact cabs_eq v
  simp [cnorm, sum_eq, e]

/-- complex `norm(x, 2)` = √(Σ |zᵢ|²) -/
theorem cnorm_two_eq (x : Array (Cx ℝ)) : cnorm x 2 = Real.sqrt ((x.toList.map (fun v => ‖Cx.toC v‖ ^ 2)).sum) := by
  have e : (Cx.abs2 : Cx ℝ → ℝ) = fun v => ‖Cx.toC v‖ ^ 2 := by funext v; rw [Cx.abs2_eq, Complex.sq_norm]
  simp [cnorm, sum_eq, e]

/-! ### complex reductions -/
theorem toC_czero : Cx.toC (czero : Cx ℝ) = 0 := by apply Complex.ext <;> simp [czero]

theorem foldl_toC {δ : Type} (g : δ → Cx ℝ) (l : List δ) (a : Cx ℝ) :
    Cx.toC (l.foldl (fun acc v => acc + g v) a) = Cx.toC a + (l.map (fun v => Cx.toC (g v))).sum := by
  induction l generalizing a with
  | nil => simp
  | cons y ys ih => simp [ih, Cx.toC_add, add_assoc]

/-- `sum(arr_cmplx)` -/
theorem csum_eq (x : Array (Cx ℝ)) : Cx.toC (csum x) = (x.toList.map Cx.toC).sum := by
  unfold csum
  rw [← Array.foldl_toList, foldl_toC (fun v => v), toC_czero]; simp

/-- `mean(arr_cmplx)` -/
theorem cmean_eq (x : Array (Cx ℝ)) (hn : 0 < x.size) : Cx.toC (cmean x) = (x.toList.map Cx.toC).sum / x.size := by
  have h0 : (x.size : ℂ) ≠ 0 := by exact_mod_cast hn.ne'
  rw [← csum_eq, eq_div_iff h0]
  have h0' : (x.size : ℝ) ≠ 0 := by exact_mod_cast hn.ne'
  apply Complex.ext <;> simp [cmean, Cx.divr] <;> field_simp

/-- `dot(arr_cmplx, arr_cmplx)` = Σ xᵢ yᵢ (bilinear, no conjugation) -/
theorem cdot_eq (x y : Array (Cx ℝ)) (h : x.size = y.size) :
    ∃ r, cdot x y = .ok r ∧ Cx.toC r = ((x.toList.zip y.toList).map (fun p => Cx.toC p.1 * Cx.toC p.2)).sum := by
  refine ⟨_, by unfold cdot; rw [if_neg (by simpa using h)], ?_⟩
  rw [← Array.foldl_toList, foldl_toC (fun p : Cx ℝ × Cx ℝ => p.1 * p.2), toC_czero]
  simp [Cx.toC_mul]

/-- `rms(arr_cmplx)` = √(Σ |zᵢ|² / n) -/
theorem crms_eq (x : Array (Cx ℝ)) : crms x = Real.sqrt ((x.toList.map (fun v => ‖Cx.toC v‖ ^ 2)).sum / x.size) := by
  unfold crms
  rw [← Array.foldl_toList]
  have := foldl_add_map (fun v : Cx ℝ => v.re * v.re + v.im * v.im) x.toList (0 : ℝ)
  simp only [fn_ofNat, Nat.cast_zero, fn_sqrt, ← add_assoc] at this ⊢
  rw [this]
  simp only [zero_add]
  congr 3
  apply List.map_congr_left
  intro v _
  rw [Complex.sq_norm, Complex.normSq_apply]; rfl

/-! ### dB / degree conversions and their round trips

The dB conversions and `abs2(real_t)` are the definitions REGENERATED from the C++ AST
(`Gen/Dynamics.lean`: `Gen.pow2db`, `Gen.db2pow`, `Gen.mag2db`, `Gen.db2mag`, `Gen.abs2r`), not hand copies. -/
theorem log10_pos : (0 : ℝ) < Real.log 10 := Real.log_pos (by norm_num)

/-- round trip `pow2db ∘ db2pow = id` (generated definitions) -/
theorem pow2db_db2pow (v : ℝ) : Gen.pow2db (Gen.db2pow v) = v := by
  simp only [Gen.pow2db, Gen.db2pow, fn_log10, fn_pow, fn_ofInt]
  rw [Real.log_rpow (by norm_num)]
  have := log10_pos.ne'
  push_cast
  field_simp

/-- round trip `db2pow ∘ pow2db = id` on positive powers (generated definitions) -/
theorem db2pow_pow2db (x : ℝ) (hx : 0 < x) : Gen.db2pow (Gen.pow2db x) = x := by
  simp only [Gen.pow2db, Gen.db2pow, fn_log10, fn_pow, fn_ofInt]
  push_cast
  have : (10 : ℝ) * (Real.log x / Real.log 10) / 10 = Real.logb 10 x := by rw [Real.logb]; ring
  rw [this, Real.rpow_logb (by norm_num) (by norm_num) hx]

/-- round trip `mag2db ∘ db2mag = id` (generated definitions) -/
theorem mag2db_db2mag (v : ℝ) : Gen.mag2db (Gen.db2mag v) = v := by
  simp only [Gen.mag2db, Gen.db2mag, fn_log10, fn_pow, fn_ofInt]
  rw [Real.log_rpow (by norm_num)]
  have := log10_pos.ne'
  push_cast
  field_simp

/-- round trip `db2mag ∘ mag2db = id` on positive magnitudes (generated definitions) -/
theorem db2mag_mag2db (x : ℝ) (hx : 0 < x) : Gen.db2mag (Gen.mag2db x) = x := by
  simp only [Gen.mag2db, Gen.db2mag, fn_log10, fn_pow, fn_ofInt]
  push_cast
  have : (20 : ℝ) * (Real.log x / Real.log 10) / 20 = Real.logb 10 x := by rw [Real.logb]; ring
  rw [this, Real.rpow_logb (by norm_num) (by norm_num) hx]

/-- round trip `deg2rad ∘ rad2deg = id` -/
theorem deg2rad_rad2deg (x : ℝ) : deg2rad (rad2deg x) = x := by
  simp only [deg2rad, rad2deg, fn_pi, fn_ofNat]
  have := Real.pi_ne_zero
  push_cast
  field_simp

/-- round trip `rad2deg ∘ deg2rad = id` -/
theorem rad2deg_deg2rad (x : ℝ) : rad2deg (deg2rad x) = x := by
  simp only [deg2rad, rad2deg, fn_pi, fn_ofNat]
  have := Real.pi_ne_zero
  push_cast
  field_simp

/-- the conversions (generated from `lib/math.cpp`) are the definitions: `pow2db x = 10 log₁₀ x` -/
theorem pow2db_eq (x : ℝ) : Gen.pow2db x = 10 * Real.logb 10 x := by simp [Gen.pow2db, Real.logb]
/-- `db2pow v = 10^(v/10)` -/
theorem db2pow_eq (v : ℝ) : Gen.db2pow v = (10 : ℝ) ^ (v / 10) := by simp [Gen.db2pow]
/-- `mag2db x = 20 log₁₀ x` -/
theorem mag2db_eq (x : ℝ) : Gen.mag2db x = 20 * Real.logb 10 x := by simp [Gen.mag2db, Real.logb]
/-- `db2mag v = 10^(v/20)` -/
theorem db2mag_eq (v : ℝ) : Gen.db2mag v = (10 : ℝ) ^ (v / 20) := by simp [Gen.db2mag]
/-- `abs2(real_t)` (generated from `include/dsplib/math.h`) is the square -/
theorem abs2r_eq (x : ℝ) : Gen.abs2r x = x ^ 2 := by simp [Gen.abs2r, pow_two]
theorem deg2rad_eq (x : ℝ) : deg2rad x = x * Real.pi / 180 := by simp [deg2rad]; ring
theorem rad2deg_eq (x : ℝ) : rad2deg x = x * 180 / Real.pi := by simp [rad2deg]; ring



section
variable {δ γ : Type} [LinearOrder γ]

/-- comparison through a key (`id` for `real_t`, `abs2` for `cmplx_t`) -/
def ltK (key : δ → γ) (a b : δ) : Bool := decide (key a < key b)

theorem getElem?_lt {l : List δ} {i : Nat} {v : δ} (h : l[i]? = some v) : i < l.length := by
  by_contra hh
  rw [List.getElem?_eq_none (by omega)] at h
  exact absurd h (by simp)

/-- invariant of the `std::max_element` scan -/
theorem argBest_max (key : δ → γ) (pre ys : List δ) (bi : Nat) (bv : δ) (hb : pre[bi]? = some bv)
    (hmax : ∀ v ∈ pre, key v ≤ key bv) (hfirst : ∀ v ∈ pre.take bi, key v < key bv) :
    ∃ m, (pre ++ ys)[argBest (fun new best => ltK key best new) ys pre.length bi bv]? = some m ∧
      (∀ v ∈ pre ++ ys, key v ≤ key m) ∧
      (∀ v ∈ (pre ++ ys).take (argBest (fun new best => ltK key best new) ys pre.length bi bv), key v < key m) := by
  induction ys generalizing pre bi bv with
  | nil => exact ⟨bv, by simpa [argBest] using hb, by simpa using hmax, by simpa [argBest] using hfirst⟩
  | cons y ys ih =>
    have hlen : bi < pre.length := getElem?_lt hb
    unfold argBest
    by_cases hlt : key bv < key y
    · have hd : ltK key bv y = true := by simp [ltK, hlt]
      simp only [hd, if_true]
      have := ih (pre ++ [y]) pre.length y (by simp)
        (by intro v hv; rcases List.mem_append.mp hv with h | h
            · exact (hmax v h).trans hlt.le
            · simp at h; rw [h])
        (by intro v hv; rw [List.take_left'] at hv; exact lt_of_le_of_lt (hmax v hv) hlt; rfl)
      simpa [List.append_assoc] using this
    · have hd : ltK key bv y = false := by simp [ltK, hlt]
      simp only [hd, Bool.false_eq_true, if_false]
      have := ih (pre ++ [y]) bi bv (by rw [List.getElem?_append_left hlen]; exact hb)
        (by intro v hv; rcases List.mem_append.mp hv with h | h
            · exact hmax v h
            · simp at h; rw [h]; exact not_lt.mp hlt)
        (by intro v hv; rw [List.take_append_of_le_length hlen.le] at hv; exact hfirst v hv)
      simpa [List.append_assoc] using this

/-- invariant of the `std::min_element` scan -/
theorem argBest_min (key : δ → γ) (pre ys : List δ) (bi : Nat) (bv : δ) (hb : pre[bi]? = some bv)
    (hmin : ∀ v ∈ pre, key bv ≤ key v) (hfirst : ∀ v ∈ pre.take bi, key bv < key v) :
    ∃ m, (pre ++ ys)[argBest (fun new best => ltK key new best) ys pre.length bi bv]? = some m ∧
      (∀ v ∈ pre ++ ys, key m ≤ key v) ∧
      (∀ v ∈ (pre ++ ys).take (argBest (fun new best => ltK key new best) ys pre.length bi bv), key m < key v) := by
  induction ys generalizing pre bi bv with
  | nil => exact ⟨bv, by simpa [argBest] using hb, by simpa using hmin, by simpa [argBest] using hfirst⟩
  | cons y ys ih =>
    have hlen : bi < pre.length := getElem?_lt hb
    unfold argBest
    by_cases hlt : key y < key bv
    · have hd : ltK key y bv = true := by simp [ltK, hlt]
      simp only [hd, if_true]
      have := ih (pre ++ [y]) pre.length y (by simp)
        (by intro v hv; rcases List.mem_append.mp hv with h | h
            · exact hlt.le.trans (hmin v h)
            · simp at h; rw [h])
        (by intro v hv; rw [List.take_left'] at hv; exact lt_of_lt_of_le hlt (hmin v hv); rfl)
      simpa [List.append_assoc] using this
    · have hd : ltK key y bv = false := by simp [ltK, hlt]
      simp only [hd, Bool.false_eq_true, if_false]
      have := ih (pre ++ [y]) bi bv (by rw [List.getElem?_append_left hlen]; exact hb)
        (by intro v hv; rcases List.mem_append.mp hv with h | h
            · exact hmin v h
            · simp at h; rw [h]; exact not_lt.mp hlt)
        (by intro v hv; rw [List.take_append_of_le_length hlen.le] at hv; exact hfirst v hv)
      simpa [List.append_assoc] using this

/-- the maximum of `std::minmax_element`: LAST largest -/
theorem argBest_maxLast (key : δ → γ) (pre ys : List δ) (bi : Nat) (bv : δ) (hb : pre[bi]? = some bv)
    (hmax : ∀ v ∈ pre, key v ≤ key bv) (hlast : ∀ v ∈ pre.drop (bi + 1), key v < key bv) :
    ∃ m, (pre ++ ys)[argBest (fun new best => !(ltK key new best)) ys pre.length bi bv]? = some m ∧
      (∀ v ∈ pre ++ ys, key v ≤ key m) ∧
      (∀ v ∈ (pre ++ ys).drop (argBest (fun new best => !(ltK key new best)) ys pre.length bi bv + 1), key v < key m) := by
  induction ys generalizing pre bi bv with
  | nil => exact ⟨bv, by simpa [argBest] using hb, by simpa using hmax, by simpa [argBest] using hlast⟩
  | cons y ys ih =>
    have hlen : bi < pre.length := getElem?_lt hb
    unfold argBest
    by_cases hlt : key y < key bv
    · have hd : ltK key y bv = true := by simp [ltK, hlt]
      simp only [hd, Bool.not_true, Bool.false_eq_true, if_false]
      have := ih (pre ++ [y]) bi bv (by rw [List.getElem?_append_left hlen]; exact hb)
        (by intro v hv; rcases List.mem_append.mp hv with h | h
            · exact hmax v h
            · simp at h; rw [h]; exact hlt.le)
        (by intro v hv
            rw [List.drop_append_of_le_length (by omega)] at hv
            rcases List.mem_append.mp hv with h | h
            · exact hlast v h
            · simp at h; rw [h]; exact hlt)
      simpa [List.append_assoc] using this
    · have hd : ltK key y bv = false := by simp [ltK, hlt]
      simp only [hd, Bool.not_false, if_true]
      have := ih (pre ++ [y]) pre.length y (by simp)
        (by intro v hv; rcases List.mem_append.mp hv with h | h
            · exact (hmax v h).trans (not_lt.mp hlt)
            · simp at h; rw [h])
        (by intro v hv; simp at hv)
      simpa [List.append_assoc] using this

/-- `std::max_element`: the element at `argmax` is a maximum (by key) and every EARLIER element is strictly smaller: FIRST largest -/
theorem argmax_spec (key : δ → γ) (l : List δ) (hl : l ≠ []) :
    ∃ m, l[argmax (ltK key) l]? = some m ∧ (∀ v ∈ l, key v ≤ key m) ∧
      (∀ v ∈ l.take (argmax (ltK key) l), key v < key m) := by
  cases l with
  | nil => exact absurd rfl hl
  | cons y ys =>
    have := argBest_max key [y] ys 0 y (by simp) (by simp) (by simp)
    simpa [argmax] using this

/-- `std::min_element`: FIRST smallest -/
theorem argmin_spec (key : δ → γ) (l : List δ) (hl : l ≠ []) :
    ∃ m, l[argmin (ltK key) l]? = some m ∧ (∀ v ∈ l, key m ≤ key v) ∧
      (∀ v ∈ l.take (argmin (ltK key) l), key m < key v) := by
  cases l with
  | nil => exact absurd rfl hl
  | cons y ys =>
    have := argBest_min key [y] ys 0 y (by simp) (by simp) (by simp)
    simpa [argmin] using this

/-- the maximum of `std::minmax_element` (used by `peak2peak`): LAST largest -/
theorem argmaxLast_spec (key : δ → γ) (l : List δ) (hl : l ≠ []) :
    ∃ m, l[argmaxLast (ltK key) l]? = some m ∧ (∀ v ∈ l, key v ≤ key m) ∧
      (∀ v ∈ l.drop (argmaxLast (ltK key) l + 1), key v < key m) := by
  cases l with
  | nil => exact absurd rfl hl
  | cons y ys =>
    have := argBest_maxLast key [y] ys 0 y (by simp) (by simp) (by simp)
    simpa [argmaxLast] using this

end

theorem rlt_eq : (rlt : ℝ → ℝ → Bool) = ltK (fun v : ℝ => v) := by
  funext a b; simp [rlt, ltK]

theorem clt_eq : (clt : Cx ℝ → Cx ℝ → Bool) = ltK (fun v : Cx ℝ => Cx.abs2 v) := by
  funext a b; simp [clt, ltK]

/-- `max(arr_real)` is an element of the array that no element exceeds; `argmax` is its FIRST position -/
theorem maxR_spec (x : Array ℝ) (hx : 0 < x.size) :
    x[argmax rlt x.toList]? = some (maxR x) ∧ (∀ v ∈ x.toList, v ≤ maxR x) ∧
      (∀ v ∈ x.toList.take (argmax rlt x.toList), v < maxR x) := by
  have hl : x.toList ≠ [] := by
    intro h
    have h2 : x.toList.length = 0 := by rw [h]; rfl
    rw [Array.length_toList] at h2; omega
  obtain ⟨m, h1, h2, h3⟩ := argmax_spec (fun v : ℝ => v) x.toList hl
  rw [← rlt_eq] at h1 h3
  have e : x[argmax rlt x.toList]? = some m := by simpa using h1
  have : maxR x = m := by simp [maxR, Array.getD_eq_getD_getElem?, e]
  rw [this]; exact ⟨e, h2, h3⟩


theorem toList_ne_nil {δ : Type} (x : Array δ) (hx : 0 < x.size) : x.toList ≠ [] := by
  intro h
  have h2 : x.toList.length = 0 := by rw [h]; rfl
  rw [Array.length_toList] at h2; omega

/-- `min(arr_real)` is an element of the array below which there is none; `argmin` is its FIRST position -/
theorem minR_spec (x : Array ℝ) (hx : 0 < x.size) :
    x[argmin rlt x.toList]? = some (minR x) ∧ (∀ v ∈ x.toList, minR x ≤ v) ∧
      (∀ v ∈ x.toList.take (argmin rlt x.toList), minR x < v) := by
  obtain ⟨m, h1, h2, h3⟩ := argmin_spec (fun v : ℝ => v) x.toList (toList_ne_nil x hx)
  rw [← rlt_eq] at h1 h3
  have e : x[argmin rlt x.toList]? = some m := by simpa using h1
  have : minR x = m := by simp [minR, Array.getD_eq_getD_getElem?, e]
  rw [this]; exact ⟨e, h2, h3⟩

/-- `peak2peak(arr_real)` = maximum − minimum -/
theorem peak2peakR_eq (x : Array ℝ) (hx : 0 < x.size) : peak2peakR x = maxR x - minR x := by
  obtain ⟨m, h1, h2, _⟩ := argmaxLast_spec (fun v : ℝ => v) x.toList (toList_ne_nil x hx)
  rw [← rlt_eq] at h1
  have e : x[argmaxLast rlt x.toList]? = some m := by simpa using h1
  obtain ⟨hm1, hm2, _⟩ := maxR_spec x hx
  have hmem : m ∈ x.toList := List.mem_of_getElem? h1
  have hmem' : maxR x ∈ x.toList := by
    have : x.toList[argmax rlt x.toList]? = some (maxR x) := by simpa using hm1
    exact List.mem_of_getElem? this
  have : m = maxR x := le_antisymm (hm2 m hmem) (h2 _ hmem')
  simp [peak2peakR, minR, Array.getD_eq_getD_getElem?, e, this]

/-- `max(arr_cmplx)`: an element of largest magnitude, the FIRST such -/
theorem maxC_spec (x : Array (Cx ℝ)) (hx : 0 < x.size) :
    x[argmax clt x.toList]? = some (maxC x) ∧ (∀ v ∈ x.toList, ‖Cx.toC v‖ ≤ ‖Cx.toC (maxC x)‖) ∧
      (∀ v ∈ x.toList.take (argmax clt x.toList), ‖Cx.toC v‖ < ‖Cx.toC (maxC x)‖) := by
  obtain ⟨m, h1, h2, h3⟩ := argmax_spec (fun v : Cx ℝ => Cx.abs2 v) x.toList (toList_ne_nil x hx)
  rw [← clt_eq] at h1 h3
  have e : x[argmax clt x.toList]? = some m := by simpa using h1
  have : maxC x = m := by simp [maxC, Array.getD_eq_getD_getElem?, e]
  rw [this]
  have key : ∀ a b : Cx ℝ, (Cx.abs2 a ≤ Cx.abs2 b ↔ ‖Cx.toC a‖ ≤ ‖Cx.toC b‖) := by
    intro a b; rw [abs2_eq, abs2_eq]
    exact ⟨fun h => by nlinarith [norm_nonneg (Cx.toC a), norm_nonneg (Cx.toC b)],
           fun h => by nlinarith [norm_nonneg (Cx.toC a), norm_nonneg (Cx.toC b)]⟩
  have key' : ∀ a b : Cx ℝ, (Cx.abs2 a < Cx.abs2 b ↔ ‖Cx.toC a‖ < ‖Cx.toC b‖) := by
    intro a b; rw [abs2_eq, abs2_eq]
    exact ⟨fun h => by nlinarith [norm_nonneg (Cx.toC a), norm_nonneg (Cx.toC b)],
           fun h => by nlinarith [norm_nonneg (Cx.toC a), norm_nonneg (Cx.toC b)]⟩
  exact ⟨e, fun v hv => (key v m).mp (h2 v hv), fun v hv => (key' v m).mp (h3 v hv)⟩

/-- `min(arr_cmplx)`: an element of smallest magnitude, the FIRST such -/
theorem minC_spec (x : Array (Cx ℝ)) (hx : 0 < x.size) :
    x[argmin clt x.toList]? = some (minC x) ∧ (∀ v ∈ x.toList, ‖Cx.toC (minC x)‖ ≤ ‖Cx.toC v‖) ∧
      (∀ v ∈ x.toList.take (argmin clt x.toList), ‖Cx.toC (minC x)‖ < ‖Cx.toC v‖) := by
  obtain ⟨m, h1, h2, h3⟩ := argmin_spec (fun v : Cx ℝ => Cx.abs2 v) x.toList (toList_ne_nil x hx)
  rw [← clt_eq] at h1 h3
  have e : x[argmin clt x.toList]? = some m := by simpa using h1
  have : minC x = m := by simp [minC, Array.getD_eq_getD_getElem?, e]
  rw [this]
  have key : ∀ a b : Cx ℝ, (Cx.abs2 a ≤ Cx.abs2 b ↔ ‖Cx.toC a‖ ≤ ‖Cx.toC b‖) := by
    intro a b; rw [abs2_eq, abs2_eq]
    exact ⟨fun h => by nlinarith [norm_nonneg (Cx.toC a), norm_nonneg (Cx.toC b)],
           fun h => by nlinarith [norm_nonneg (Cx.toC a), norm_nonneg (Cx.toC b)]⟩
  have key' : ∀ a b : Cx ℝ, (Cx.abs2 a < Cx.abs2 b ↔ ‖Cx.toC a‖ < ‖Cx.toC b‖) := by
    intro a b; rw [abs2_eq, abs2_eq]
    exact ⟨fun h => by nlinarith [norm_nonneg (Cx.toC a), norm_nonneg (Cx.toC b)],
           fun h => by nlinarith [norm_nonneg (Cx.toC a), norm_nonneg (Cx.toC b)]⟩
  exact ⟨e, fun v hv => (key m v).mp (h2 v hv), fun v hv => (key' m v).mp (h3 v hv)⟩

/-- `peak2peak(arr_cmplx)` = (an element of largest magnitude) − (an element of smallest magnitude) -/
theorem peak2peakC_spec (x : Array (Cx ℝ)) (hx : 0 < x.size) :
    ∃ a ∈ x.toList, ∃ b ∈ x.toList, peak2peakC x = a - b ∧
      (∀ v ∈ x.toList, ‖Cx.toC v‖ ≤ ‖Cx.toC a‖) ∧ (∀ v ∈ x.toList, ‖Cx.toC b‖ ≤ ‖Cx.toC v‖) := by
  obtain ⟨a, h1, h2, _⟩ := argmaxLast_spec (fun v : Cx ℝ => Cx.abs2 v) x.toList (toList_ne_nil x hx)
  rw [← clt_eq] at h1
  have e : x[argmaxLast clt x.toList]? = some a := by simpa using h1
  obtain ⟨hb1, hb2, _⟩ := minC_spec x hx
  have hb : x.toList[argmin clt x.toList]? = some (minC x) := by simpa using hb1
  refine ⟨a, List.mem_of_getElem? h1, minC x, List.mem_of_getElem? hb, ?_, ?_, hb2⟩
  · simp [peak2peakC, minC, Array.getD_eq_getD_getElem?, e]
  · intro v hv
    have := h2 v hv
    rw [abs2_eq, abs2_eq] at this
    nlinarith [norm_nonneg (Cx.toC v), norm_nonneg (Cx.toC a)]

/-! ### real / imag / complex -/
/-- inverse pair: `complex(real(z), imag(z)) = z` -/
theorem complex_real_imag (z : Array (Cx β)) : complexArr (realArr z) (imagArr z) = .ok z := by
  unfold complexArr realArr imagArr
  rw [if_neg (by simp)]
  congr 1
  apply Array.ext
  · simp
  · intro i h1 h2; simp

/-- `real(complex(re, im)) = re`, `imag(complex(re, im)) = im`; different sizes throw -/
theorem real_imag_complex (re im : Array β) (h : re.size = im.size) :
    ∃ z, complexArr re im = .ok z ∧ realArr z = re ∧ imagArr z = im := by
  refine ⟨_, by unfold complexArr; rw [if_neg (by simpa using h)], ?_, ?_⟩
  · apply Array.ext
    · simp [realArr, h]
    · intro i h1 h2; simp [realArr]
  · apply Array.ext
    · simp [imagArr, h]
    · intro i h1 h2; simp [imagArr]

theorem complex_size_mismatch (re im : Array β) (h : re.size ≠ im.size) : ∃ e, complexArr re im = .error e :=
  ⟨"arrays sizes must be equal", by simp [complexArr, h]⟩

/-! ### logarithms -/
theorem log2_eq (x : ℝ) : MathFns.log2 x = Real.logb 2 x := rfl
theorem log10_eq (x : ℝ) : (Fn.log10 x : ℝ) = Real.logb 10 x := rfl

/-- `stddev(arr_cmplx)` = √(Σ |zᵢ - mean|² / (n - 1)), `n ≥ 2` -/
theorem cstddev_eq (x : Array (Cx ℝ)) (hn : 2 ≤ x.size) :
    cstddev x = Real.sqrt ((x.toList.map (fun v => ‖Cx.toC v - (x.toList.map Cx.toC).sum / x.size‖ ^ 2)).sum
      / ((x.size : ℝ) - 1)) := by
  unfold cstddev
  simp only [crms_eq, fn_sqrt, fn_ofNat, fn_ofInt, Array.size_map, Array.toList_map, List.map_map]
  have hn' : (2 : ℝ) ≤ x.size := by exact_mod_cast hn
  have h1 : (0 : ℝ) < (x.size : ℝ) - 1 := by linarith
  have h0 : (0 : ℝ) < x.size := by linarith
  rw [← Real.sqrt_mul' _ (div_nonneg h0.le (by push_cast; linarith))]
  congr 1
  push_cast
  have e : ((fun v : Cx ℝ => ‖Cx.toC v‖ ^ 2) ∘ fun v => v - cmean x)
      = fun v => ‖Cx.toC v - (x.toList.map Cx.toC).sum / (x.size : ℂ)‖ ^ 2 := by
    funext v
    simp only [Function.comp, Cx.toC_sub, cmean_eq x (by omega)]
  rw [e]
  generalize (List.map (fun v => ‖Cx.toC v - (x.toList.map Cx.toC).sum / (x.size : ℂ)‖ ^ 2) x.toList).sum = S
  field_simp

/-! ### non-vacuity: the hypotheses of the main theorems at concrete non-trivial arguments -/
-- integer arange: the former defects `arange(0,4,3)` (2 elements) and `arange(5,0,1)` (empty, no exception)
example : arangeCount 0 4 3 = 2 := by decide
example : arangeCount 5 0 1 = 0 := by decide
example : arangeCount 5 0 (-2) = 3 := by decide
example : arangeInt 0 4 3 = .ok #[0, 3] := by decide
example : Before 3 (0 + (1 : Nat) * 3) 4 ∧ ¬ Before 3 (0 + (2 : Nat) * 3) 4 := by simp [Before]
-- up/downsample
example : upsample 0 #[1, 2, 3] 2 1 = .ok #[0, 1, 0, 2, 0, 3] := by decide
example : downsample 0 #[0, 1, 0, 2, 0, 3] 2 1 = .ok #[1, 2, 3] := by decide
example : downsample 0 #[10, 11, 12, 13, 14] 3 1 = .ok #[11, 14] := by decide
example : delayseq 0 #[1, 2, 3, 4] 1 = #[0, 1, 2, 3] ∧ delayseq 0 #[1, 2, 3, 4] (-3) = #[4, 0, 0, 0] := by decide
example : repelem #[7, 8] 3 = #[7, 7, 7, 8, 8, 8] := by decide
example : cumsumFwd [1, 2, 3, 4, 5] = [1, 3, 6, 10, 15] ∧ cumsumRev [1, 2, 3, 4, 5] = [15, 14, 12, 9, 5] := by decide
-- angle on the negative real axis and at zero (former defects: -π and NaN)
example : angle (⟨-1, 0⟩ : Cx ℝ) = Real.pi := by
  rw [angle_eq_arg]
  have : Cx.toC (⟨-1, 0⟩ : Cx ℝ) = -1 := by apply Complex.ext <;> simp
  rw [this, Complex.arg_neg_one]
example : angle (⟨0, 0⟩ : Cx ℝ) = 0 := by
  rw [angle_eq_arg]
  have : Cx.toC (⟨0, 0⟩ : Cx ℝ) = 0 := by apply Complex.ext <;> simp
  rw [this, Complex.arg_zero]
-- rms divides by n (former defect: n - 1 gave 5)
example : rms (#[3, 4] : Array ℝ) = Real.sqrt (25 / 2) := by
  rw [rms_eq]; norm_num
example : stddev (#[3, 4] : Array ℝ) = Real.sqrt (1 / 2) := by
  rw [stddev_eq _ (by simp)]; norm_num
-- cpowi at a non-zero base
example : Cx.toC (cpowi (⟨1, 1⟩ : Cx ℝ) 3) = (Cx.toC ⟨1, 1⟩) ^ (3 : ℤ) :=
  cpowi_eq _ _ (by intro h; have := congrArg Complex.re h; simp at this)
example : argmax (ltK (fun v : Int => v)) [3, 7, 2, 7] = 1 ∧ argmaxLast (ltK (fun v : Int => v)) [3, 7, 2, 7] = 3
    ∧ argmin (ltK (fun v : Int => v)) [3, 2, 7, 2] = 1 := by decide

end Dsp.C17
