import DspVerif.Model.Noise
import DspVerif.Lib.RealFn
import Mathlib.Tactic.Linarith
import Mathlib.Tactic.NormNum
import Mathlib.Tactic.Positivity
import Mathlib.Algebra.Order.Field.Basic
import Mathlib.Data.List.GetD
import Mathlib.Tactic.NormNum.Basic
import Mathlib.Algebra.Order.Floor.Ring
/-!
# C19 — noise injection and SNR/THD measurement are calibrated; random streams reproduce

Theorems about `Model/Noise` (tied to `lib/awgn.cpp`, `lib/random.cpp`, `lib/snr.cpp`, `lib/math.cpp` by the
correspondence run of `harness/c19.cpp`: `awgn` element-wise with the drawn values as inputs, the whole
`_harm_analyze`/`snr`/`sinad`/`thd` skeleton bit for bit on given spectra, `_periodogram` against the textbook DFT,
`rand`/`randn`/`awgn` streams against the `std::mt19937` + libstdc++ distribution instance of the engine).

* T19.1 `gen_awgnSigmaR_sq`, `gen_awgnSigmaC_sq`, `awgn_scale_real`, `awgn_scale_cmplx`, `awgn_noise_power_real`,
  `awgn_noise_power_cmplx` (exact, ℝ): the variance the code gives the noise is `P_x / 10^(snr/10)` — in total over both
  components for complex input.  The deviation formulas are NOT hand-written: they are `Gen.awgnSigmaR` / `Gen.awgnSigmaC`
  (`Gen/Awgn.lean`, regenerated from `lib/awgn.cpp`'s AST on every run), so these proofs are re-checked against the source.
* T19.2 `rng_replay`, `rng_replay_eq`, `rng_replay_state`, `randi*_bounds`, `randi_single`: for EVERY engine,
  every history and every interleaved call sequence the values after `rng(seed)` depend on `seed` and the calls only;
  `randi` stays inside its inclusive bounds (given the `std::uniform_int_distribution` contract).
* T19.3 `periodogram_scale` (no hypothesis, every real factor), `harmAnalyze_scale`, `snrPsd_scale`,
  `sinadPsd_scale`, `thdPsd_scale`, `snrTime_scale`, `sinadTime_scale`, `thdTime_scale`: exact scale invariance of
  `snr`, `sinad`, `thd` (value and harmonic frequencies), for every spectrum / signal, window, `nharm`, `aliased`.

Measured only (ORACLE of the harness, labelled measurement): noise level within 6 standard errors, zero mean,
whiteness, Gaussian shape; `thd` within 0.1 dB, component frequencies within 0.1 bin, `sinad` within 1.5 dB on
the stated tone family; the `Float` residue of the exact scale invariance (≤ 1e-9 dB).

Divisions: `x / 0 = 0` in ℝ.  The scale-invariance theorems use `(k·a)/(k·b) = a/b`, which holds for EVERY `b`
(`mul_div_mul_left`, `k ≠ 0`); at `b = 0` the IEEE evaluation gives `±inf`/`NaN` on BOTH sides, so nothing is claimed
that the code does not do (the harness runs the all-zero spectrum).  `awgn_scale_*` at the empty signal read `0 = 0`;
the code draws nothing there (harness: empty input gives empty output).
-/
noncomputable section
namespace Dsp.C19
open Dsp Dsp.Noise

/-! ## T19.1 — `awgn` scale factors -/
/-- sample power of a real signal: `(Σ x_i²) / n` -/
def powerR (x : List ℝ) : ℝ := (x.map (fun v => v ^ 2)).sum / x.length
/-- sample power of a complex signal: `(Σ re_i² + im_i²) / n` -/
def powerC (x : List (Cx ℝ)) : ℝ := (x.map (fun z => z.re ^ 2 + z.im ^ 2)).sum / x.length

theorem sumSq_eq (x : List ℝ) : sumSq x = (x.map (fun v => v ^ 2)).sum := by
  unfold sumSq
  have h : ∀ (l : List ℝ) (a : ℝ), l.foldl (fun acc v => acc + v * v) a = a + (l.map (fun v => v ^ 2)).sum := by
    intro l
    induction l with
    | nil => intro a; simp
    | cons v l ih => intro a; simp only [List.foldl_cons, ih, List.map_cons, List.sum_cons]; ring
  simpa using h x 0

theorem sumSqC_eq (x : List (Cx ℝ)) : sumSqC x = (x.map (fun z => z.re ^ 2 + z.im ^ 2)).sum := by
  unfold sumSqC
  have h : ∀ (l : List (Cx ℝ)) (a : ℝ),
      l.foldl (fun acc z => (acc + z.re * z.re) + z.im * z.im) a = a + (l.map (fun z => z.re ^ 2 + z.im ^ 2)).sum := by
    intro l
    induction l with
    | nil => intro a; simp
    | cons v l ih => intro a; simp only [List.foldl_cons, ih, List.map_cons, List.sum_cons]; ring
  simpa using h x 0

theorem powerR_nonneg (x : List ℝ) : 0 ≤ powerR x := by
  unfold powerR
  apply div_nonneg _ (Nat.cast_nonneg _)
  apply List.sum_nonneg
  intro a ha
  simp only [List.mem_map] at ha
  obtain ⟨v, _, rfl⟩ := ha
  positivity

theorem powerC_nonneg (x : List (Cx ℝ)) : 0 ≤ powerC x := by
  unfold powerC
  apply div_nonneg _ (Nat.cast_nonneg _)
  apply List.sum_nonneg
  intro a ha
  simp only [List.mem_map] at ha
  obtain ⟨v, _, rfl⟩ := ha
  positivity

/-- `rms(arr)² = (Σ x_i²)/n` -/
theorem rmsR_sq (x : List ℝ) : rmsR x ^ 2 = powerR x := by
  have h := powerR_nonneg x
  unfold rmsR
  rw [sumSq_eq]
  simp only [fn_sqrt, fn_ofNat]
  exact Real.sq_sqrt h

theorem rmsC_sq (x : List (Cx ℝ)) : rmsC x ^ 2 = powerC x := by
  have h := powerC_nonneg x
  unfold rmsC
  rw [sumSqC_eq]
  simp only [fn_sqrt, fn_ofNat]
  exact Real.sq_sqrt h

/-- `(10^((-1)·snr/20))² = 1 / 10^(snr/10)` (the `std::pow` factor, in the shape the generated code has it) -/
theorem dbPow_sq (snr : ℝ) : ((10 : ℝ) ^ (-1 * snr / 20)) ^ 2 = 1 / (10 : ℝ) ^ (snr / 10) := by
  rw [← Real.rpow_natCast, ← Real.rpow_mul (by norm_num)]
  have : -1 * snr / 20 * ((2 : ℕ) : ℝ) = -(snr / 10) := by
    push_cast; ring
  rw [this, Real.rpow_neg (by norm_num)]
  simp [one_div]

/-- T19.1 on the GENERATED formula of the real overload (`Gen/Awgn.lean`, regenerated from `lib/awgn.cpp` on every
run): whatever `rms(arr)` is, the square of the deviation is `rms² / 10^(snr/10)`. -/
theorem gen_awgnSigmaR_sq (r snr : ℝ) : Gen.awgnSigmaR r snr ^ 2 = r ^ 2 / (10 : ℝ) ^ (snr / 10) := by
  unfold Gen.awgnSigmaR
  simp only [fn_pow, fn_ofInt]
  push_cast
  rw [mul_pow, dbPow_sq, mul_one_div]

/-- T19.1 on the GENERATED formula of the complex overload: re and im each get `σ²`, the total `2σ²` is
`rms² / 10^(snr/10)` — this is where `std::sqrt(0.5)` (and not `0.5`, `1`, `sqrt(2)`) is needed. -/
theorem gen_awgnSigmaC_sq (r snr : ℝ) : 2 * Gen.awgnSigmaC r snr ^ 2 = r ^ 2 / (10 : ℝ) ^ (snr / 10) := by
  unfold Gen.awgnSigmaC
  simp only [fn_pow, fn_ofInt, fn_sqrt]
  push_cast
  rw [mul_pow, mul_pow, dbPow_sq, Real.sq_sqrt (by norm_num)]
  ring

/-- T19.1 (real): the variance the code gives each noise sample is `P_x / 10^(snr/10)`.
`sigmaR x snr` is `Gen.awgnSigmaR (rms x) snr` by definition (stated below as `sigmaR_is_generated`). -/
theorem awgn_scale_real (x : List ℝ) (snr : ℝ) :
    sigmaR x snr ^ 2 = powerR x / (10 : ℝ) ^ (snr / 10) := by
  show Gen.awgnSigmaR (rmsR x) snr ^ 2 = _
  rw [gen_awgnSigmaR_sq, rmsR_sq]

/-- T19.1 (complex): re and im each get `σ²`; the total `2σ²` is `P_x / 10^(snr/10)`. -/
theorem awgn_scale_cmplx (x : List (Cx ℝ)) (snr : ℝ) :
    2 * sigmaC x snr ^ 2 = powerC x / (10 : ℝ) ^ (snr / 10) := by
  show 2 * Gen.awgnSigmaC (rmsC x) snr ^ 2 = _
  rw [gen_awgnSigmaC_sq, rmsC_sq]

/-- the deviation of the model IS the generated formula applied to `rms(arr)` (definitional, both overloads; ∀ scalar
type, so also at `Float` where the driver runs it) -/
theorem sigmaR_is_generated {α : Type} [Add α] [Sub α] [Mul α] [Div α] [Neg α] [LT α] [LE α] [Fn α]
    [DecidableRel (· < · : α → α → Prop)] [DecidableRel (· ≤ · : α → α → Prop)] (x : List α) (snr : α) :
    sigmaR x snr = Gen.awgnSigmaR (rmsR x) snr := rfl

theorem sigmaC_is_generated {α : Type} [Add α] [Sub α] [Mul α] [Div α] [Neg α] [LT α] [LE α] [Fn α]
    [DecidableRel (· < · : α → α → Prop)] [DecidableRel (· ≤ · : α → α → Prop)] (x : List (Cx α)) (snr : α) :
    sigmaC x snr = Gen.awgnSigmaC (rmsC x) snr := rfl


-- the noise the real overload adds: `randn(n) * stddev` -/
def noiseR (x z : List ℝ) (snr : ℝ) : List ℝ := z.map (fun zi => zi * sigmaR x snr)
/-- the noise the complex overload adds: `complex(randn(n) * stddev, randn(n) * stddev)` -/
def noiseC (x : List (Cx ℝ)) (zre zim : List ℝ) (snr : ℝ) : List (Cx ℝ) :=
  (List.zip zre zim).map (fun zz => Cx.mk (zz.1 * sigmaC x snr) (zz.2 * sigmaC x snr))

/-- `awgn(x, snr)` returns `x` plus the noise vector, element by element (real) -/
theorem awgnR_eq (x z : List ℝ) (snr : ℝ) :
    awgnR x z snr = List.zipWith (· + ·) x (noiseR x z snr) := by
  unfold awgnR noiseR
  rw [List.zipWith_map_right]

/-- `awgn(x, snr)` returns `x` plus the noise vector, element by element (complex) -/
theorem awgnC_eq (x : List (Cx ℝ)) (zre zim : List ℝ) (snr : ℝ) :
    awgnC x zre zim snr = List.zipWith (· + ·) x (noiseC x zre zim snr) := by
  unfold awgnC noiseC
  rw [List.zipWith_map_right]
  rfl

theorem powerR_scale (σ : ℝ) (z : List ℝ) : powerR (z.map (fun zi => zi * σ)) = σ ^ 2 * powerR z := by
  unfold powerR
  rw [List.map_map, List.length_map, ← mul_div_assoc, ← List.sum_map_mul_left]
  congr 2
  apply List.map_congr_left
  intro v _
  simp only [Function.comp]
  ring

theorem powerC_noise (σ : ℝ) (zre zim : List ℝ) (h : zre.length = zim.length) :
    powerC ((List.zip zre zim).map (fun zz => Cx.mk (zz.1 * σ) (zz.2 * σ)))
      = σ ^ 2 * (powerR zre + powerR zim) := by
  unfold powerC powerR
  rw [List.map_map, List.length_map, List.length_zip, ← h, Nat.min_self, ← add_div, ← mul_div_assoc]
  congr 1
  induction zre generalizing zim with
  | nil =>
    cases zim with
    | nil => simp
    | cons b bs => simp at h
  | cons a as ih =>
    cases zim with
    | nil => simp at h
    | cons b bs =>
      simp only [List.length_cons, Nat.add_right_cancel_iff] at h
      simp only [List.zip_cons_cons, List.map_cons, List.sum_cons, Function.comp, ih bs h]
      ring


/-- T19.1, real clause in full: `awgn(x, snr) = x + noise` (`awgnR_eq`) and the sample power of that noise is the
sample power of the `randn` draw (1 up to statistical fluctuation — measured) times `P_x / 10^(snr/10)`. -/
theorem awgn_noise_power_real (x z : List ℝ) (snr : ℝ) :
    powerR (noiseR x z snr) = powerR z * (powerR x / (10 : ℝ) ^ (snr / 10)) := by
  unfold noiseR
  rw [powerR_scale, awgn_scale_real, mul_comm]

/-- T19.1, complex clause in full: the noise power summed over both components is the mean of the two draws'
sample powers times `P_x / 10^(snr/10)` (not half of it, not twice it). -/
theorem awgn_noise_power_cmplx (x : List (Cx ℝ)) (zre zim : List ℝ) (h : zre.length = zim.length) (snr : ℝ) :
    powerC (noiseC x zre zim snr) = (powerR zre + powerR zim) / 2 * (powerC x / (10 : ℝ) ^ (snr / 10)) := by
  unfold noiseC
  rw [powerC_noise _ _ _ h, ← awgn_scale_cmplx]
  ring

/-- non-vacuity / calibration at a concrete point: `x = (3, 4)`, 20 dB: `σ² = 12.5 / 100` -/
example : sigmaR ([3, 4] : List ℝ) 20 ^ 2 = 1 / 8 := by
  rw [awgn_scale_real]
  have h : ((20 : ℝ) / 10) = ((2 : ℕ) : ℝ) := by norm_num
  rw [h, Real.rpow_natCast]
  norm_num [powerR]

/-- complex, `x = (3 + 4i)`, 10 dB: each component gets `σ² = 25 / 10 / 2` -/
example : sigmaC ([⟨3, 4⟩] : List (Cx ℝ)) 10 ^ 2 = 5 / 4 := by
  have h := awgn_scale_cmplx ([⟨3, 4⟩] : List (Cx ℝ)) 10
  have h1 : ((10 : ℝ) / 10) = ((1 : ℕ) : ℝ) := by norm_num
  rw [h1, Real.rpow_natCast] at h
  norm_num [powerC] at h
  linarith

/-! ## T19.2 — random streams replay -/
section Replay
variable {α : Type} [Add α] [Mul α] [Div α] [Fn α]
variable {E DN : Type} (S : Std E DN α) (b : Bool)

theorem run_append (p q : List (Cmd α)) (e : E) :
    run S b (p ++ q) e = ((run S b p e).1 ++ (run S b q (run S b p e).2).1, (run S b q (run S b p e).2).2) := by
  induction p generalizing e with
  | nil => rfl
  | cons c p ih => simp only [List.cons_append, run, ih]

/-- T19.2: whatever was called before (`hist`, from whatever engine state `e`), after `rng(seed)` the results of
ANY sequence `prog` of generator calls (rand / randn / randi / awgn, scalar and array forms, interleaved, further
`rng` calls included) are a function of `seed` and `prog` alone. -/
theorem rng_replay (seed : Int) (hist prog : List (Cmd α)) (e : E) :
    (run S b (hist ++ Cmd.rng seed :: prog) e).1
      = (run S b hist e).1 ++ Out.unit :: (run S b prog (S.seedE seed)).1 := by
  rw [run_append]
  rfl

/-- … hence two replays agree, whatever preceded each of them. -/
theorem rng_replay_eq (seed : Int) (hist₁ hist₂ prog : List (Cmd α)) (e₁ e₂ : E) :
    (run S b (Cmd.rng seed :: prog) (run S b hist₁ e₁).2).1
      = (run S b (Cmd.rng seed :: prog) (run S b hist₂ e₂).2).1 := rfl

/-- the engine after the replay is the same too (so replays can be continued) -/
theorem rng_replay_state (seed : Int) (hist₁ hist₂ prog : List (Cmd α)) (e₁ e₂ : E) :
    (run S b (Cmd.rng seed :: prog) (run S b hist₁ e₁).2).2
      = (run S b (Cmd.rng seed :: prog) (run S b hist₂ e₂).2).2 := rfl

end Replay

section Randi
variable {α E DN : Type} (S : Std E DN α)

theorem drawN_length {β : Type} (f : E → β × E) (n : Nat) (e : E) : (drawN f n e).1.length = n := by
  induction n generalizing e with
  | zero => rfl
  | succ n ih => simp only [drawN, List.length_cons, ih]

theorem drawN_forall {β : Type} (f : E → β × E) (P : β → Prop) (hf : ∀ e, P (f e).1) (n : Nat) (e : E) :
    ∀ v ∈ (drawN f n e).1, P v := by
  induction n generalizing e with
  | zero => intro v hv; simp [drawN] at hv
  | succ n ih =>
    intro v hv
    simp only [drawN, List.mem_cons] at hv
    rcases hv with rfl | hv
    · exact hf e
    · exact ih _ v hv

/-- the contract of `std::uniform_int_distribution<int>(lo, hi)` (trusted, libstdc++): values in `[lo, hi]` -/
def IntContract : Prop := ∀ lo hi e, lo ≤ hi → lo ≤ (S.unifInt lo hi e).1 ∧ (S.unifInt lo hi e).1 ≤ hi

/-- `randi({lo, hi})` stays inside its inclusive bounds (negative ranges included: `lo`, `hi` are arbitrary integers) -/
theorem randi_bounds (hI : IntContract S) (lo hi : Int) (h : lo ≤ hi) (e : E) :
    lo ≤ (randi S lo hi e).1 ∧ (randi S lo hi e).1 ≤ hi := hI lo hi e h

/-- `randi({lo, hi}, n)`: `n` values, each inside the inclusive bounds -/
theorem randiArr_bounds (hI : IntContract S) (lo hi : Int) (h : lo ≤ hi) (n : Nat) (e : E) :
    (randiArr S lo hi n e).1.length = n ∧ ∀ v ∈ (randiArr S lo hi n e).1, lo ≤ v ∧ v ≤ hi :=
  ⟨drawN_length _ n e, drawN_forall _ (fun v => lo ≤ v ∧ v ≤ hi) (fun e => hI lo hi e h) n e⟩

/-- single-value range -/
theorem randi_single (hI : IntContract S) (v : Int) (e : E) : (randi S v v e).1 = v := by
  have := hI v v e (le_refl v)
  unfold randi
  omega

/-- `randi(imax)` is in `[1, imax]` -/
theorem randi1_bounds (hI : IntContract S) (imax : Int) (h : 1 ≤ imax) (e : E) :
    1 ≤ (randi1 S imax e).1 ∧ (randi1 S imax e).1 ≤ imax := hI 1 imax e h

/-- `randi(imax, n)`: `n` values in `[1, imax]` -/
theorem randi1Arr_bounds (hI : IntContract S) (imax : Int) (h : 1 ≤ imax) (n : Nat) (e : E) :
    (randi1Arr S imax n e).1.length = n ∧ ∀ v ∈ (randi1Arr S imax n e).1, 1 ≤ v ∧ v ≤ imax :=
  randiArr_bounds S hI 1 imax h n e

end Randi

/-! non-vacuity: a toy engine (a counter) whose normal distribution caches a second value, like libstdc++'s -/
def toy : Std ℕ (Option ℝ) ℝ where
  seedE s := s.toNat
  unif a b e := (a + (b - a) * ((e % 10 : ℕ) : ℝ) / 10, e + 1)
  unifInt lo hi e := (lo + ((e : ℤ) % (hi - lo + 1)), e + 1)
  nInit := none
  nDraw d e := match d with
    | none => ((e : ℝ), some ((e : ℝ) + 1 / 2), e + 1)
    | some v => (v, none, e)

example : (run toy true [Cmd.randn, Cmd.rng 5, Cmd.randn, Cmd.randnArr 3, Cmd.randi 3 3, Cmd.randi (-4) (-2)] 100).1
    = [Out.real 100, Out.unit, Out.real 5, Out.reals [6, 6 + 1 / 2, 7], Out.int 3, Out.int (-4)] := by
  simp [run, exec, randn, randnArr, drawNormal, randi, rng, toy]


/-! ## T19.3 — scale invariance of `snr` / `sinad` / `thd` -/
/-! ### scaling lemmas -/
variable {k : ℝ}

theorem ltB_scale (hk : 0 < k) (a b : ℝ) : ltB (k * a) (k * b) = ltB a b := by
  unfold ltB; exact decide_eq_decide.mpr (mul_lt_mul_iff_right₀ hk)
theorem gtB_scale (hk : 0 < k) (a b : ℝ) : gtB (k * a) (k * b) = gtB a b := by
  unfold gtB; exact decide_eq_decide.mpr (mul_lt_mul_iff_right₀ hk)
theorem leB_scale (hk : 0 < k) (a b : ℝ) : leB (k * a) (k * b) = leB a b := by
  unfold leB; exact decide_eq_decide.mpr (mul_le_mul_iff_right₀ hk)

theorem eqB_scale (hk : 0 < k) (a b : ℝ) : eqB (k * a) (k * b) = eqB a b := by
  unfold eqB
  exact decide_eq_decide.mpr (by rw [mul_le_mul_iff_right₀ hk, mul_le_mul_iff_right₀ hk])

/-- on ℝ the order form of `==` is equality -/
theorem eqB_iff (a b : ℝ) : eqB a b = true ↔ a = b := by
  unfold eqB
  rw [decide_eq_true_iff]
  exact ⟨fun h => le_antisymm h.1 h.2, fun h => ⟨h.le, h.ge⟩⟩

/-- comparison functions that do not see a common positive factor -/
def ScaleInv (k : ℝ) (c : ℝ → ℝ → Bool) : Prop := ∀ a b, c (k * a) (k * b) = c a b

/-- the left walks (`_locate_peak` first loop, `_left_descent`) do not see a positive factor -/
theorem walkL_scale {c : ℝ → ℝ → Bool} (hc : ScaleInv k c) (s : ℕ → ℝ) (p : ℕ) :
    walkL c (fun i => k * s i) p = walkL c s p := by
  induction p with
  | zero => rfl
  | succ p ih => simp only [walkL, ih, hc (s p) (s (p + 1))]

/-- the right walks (`_locate_peak` second loop, `_right_descent`) do not see a positive factor -/
theorem walkR_scale {c : ℝ → ℝ → Bool} (hc : ScaleInv k c) (n : ℕ) (s : ℕ → ℝ) (f p : ℕ) :
    walkR c n (fun i => k * s i) f p = walkR c n s f p := by
  induction f generalizing p with
  | zero => rfl
  | succ f ih => simp only [walkR, ih, hc (s p) (s (p + 1))]


/-- the spectrum scaled by `k` -/
def sc (k : ℝ) (s : ℕ → ℝ) : ℕ → ℝ := fun i => k * s i

theorem locatePeak_scale (hk : 0 < k) (n : ℕ) (s : ℕ → ℝ) (idx : ℕ) :
    locatePeak n (sc k s) idx = locatePeak n s idx := by
  unfold locatePeak sc
  rw [walkL_scale (gtB_scale hk), walkR_scale (ltB_scale hk)]

theorem leftDescent_scale (hk : 0 < k) (s : ℕ → ℝ) (idx : ℕ) :
    leftDescent (sc k s) idx = leftDescent s idx := by
  unfold leftDescent sc
  rw [walkL_scale (ltB_scale hk)]

theorem rightDescent_scale (hk : 0 < k) (n : ℕ) (s : ℕ → ℝ) (idx : ℕ) :
    rightDescent n (sc k s) idx = rightDescent n s idx := by
  unfold rightDescent sc
  rw [walkR_scale (gtB_scale hk)]

/-- the plateau walks of `_get_psd_tone` (equality with the peak value) do not see a positive factor -/
theorem topL_scale (hk : 0 < k) (s : ℕ → ℝ) (i p : ℕ) :
    topL (sc k s) (sc k s i) p = topL s (s i) p := by
  unfold sc
  induction p with
  | zero => rfl
  | succ p ih => simp only [topL, ih, eqB_scale hk]

theorem topR_scale (hk : 0 < k) (n : ℕ) (s : ℕ → ℝ) (i f p : ℕ) :
    topR n (sc k s) (sc k s i) f p = topR n s (s i) f p := by
  unfold sc
  induction f generalizing p with
  | zero => rfl
  | succ f ih => simp only [topR, ih, eqB_scale hk]

theorem foldl_add_scale (k : ℝ) (l : List ℝ) (a : ℝ) :
    (l.map (k * ·)).foldl (fun acc v => acc + v) (k * a) = k * l.foldl (fun acc v => acc + v) a := by
  induction l generalizing a with
  | nil => rfl
  | cons x l ih => simp only [List.map_cons, List.foldl_cons, ← mul_add, ih]

theorem sum_scale (k : ℝ) (l : List ℝ) : Noise.sum (l.map (k * ·)) = k * Noise.sum l := by
  unfold Noise.sum
  have := foldl_add_scale k l 0
  simpa using this

theorem lobeSum_scale (k : ℝ) (s : ℕ → ℝ) (l r : ℕ) : lobeSum (sc k s) l r = k * lobeSum s l r := by
  unfold lobeSum sc
  rw [← sum_scale, List.map_map]
  rfl

theorem lobeDot_scale (k : ℝ) (n : ℕ) (s : ℕ → ℝ) (l r : ℕ) : lobeDot n (sc k s) l r = k * lobeDot n s l r := by
  unfold lobeDot sc
  have h : ∀ (L : List ℕ) (a : ℝ),
      L.foldl (fun acc i => acc + (Fn.ofNat i / Fn.ofNat n) * (k * s i)) (k * a)
        = k * L.foldl (fun acc i => acc + (Fn.ofNat i / Fn.ofNat n) * s i) a := by
    intro L
    induction L with
    | nil => intro a; rfl
    | cons x L ih =>
      intro a
      simp only [List.foldl_cons]
      rw [← ih]
      congr 1
      ring
  have := h (List.range' l (r + 1 - l)) 0
  simpa using this

/-- a tone with its power scaled -/
def scTone (k : ℝ) (t : Tone ℝ) : Tone ℝ := ⟨t.lpos, t.rpos, t.freq, k * t.power⟩

theorem getTone_scale (hk : 0 < k) (n : ℕ) (s : ℕ → ℝ) (f : ℕ) :
    getTone n (sc k s) f = scTone k (getTone n s f) := by
  unfold getTone scTone
  simp only [locatePeak_scale hk, topL_scale hk, topR_scale hk, leftDescent_scale hk, rightDescent_scale hk, lobeSum_scale,
    lobeDot_scale, mul_div_mul_left _ _ hk.ne']

theorem toneAt_scale (hk : 0 < k) (rnd : ℝ → ℤ) (n : ℕ) (s : ℕ → ℝ) (f : ℝ) :
    toneAt rnd n (sc k s) f = scTone k (toneAt rnd n s f) := by
  unfold toneAt
  rw [getTone_scale hk]

theorem argmax_scale (hk : 0 < k) (n : ℕ) (s : ℕ → ℝ) : argmax n (sc k s) = argmax n s := by
  unfold argmax sc
  congr 1
  funext best i
  simp only [mul_lt_mul_iff_right₀ hk]

theorem firstTone_scale (hk : 0 < k) (rnd : ℝ → ℤ) (n : ℕ) (s : ℕ → ℝ) :
    firstTone rnd n (sc k s) = scTone k (firstTone rnd n s) := by
  unfold firstTone
  rw [toneAt_scale hk, argmax_scale hk]

theorem setRange_scale (k : ℝ) (s : ℕ → ℝ) (l r : ℕ) (v : ℝ) :
    setRange (sc k s) l r (k * v) = sc k (setRange s l r v) := by
  funext i
  by_cases h : l ≤ i ∧ i ≤ r <;> simp [setRange, sc, h]

theorem setRange_scale_zero (k : ℝ) (s : ℕ → ℝ) (l r : ℕ) :
    setRange (sc k s) l r (Fn.ofNat 0) = sc k (setRange s l r (Fn.ofNat 0)) := by
  have := setRange_scale k s l r 0
  simpa using this

/-- loop state with spectrum and powers scaled -/
def scSt (k : ℝ) (st : HState ℝ) : HState ℝ := ⟨sc k st.s, st.lobes, st.pows.map (k * ·), st.freqs⟩

/-- the frequency at which iteration `i` of the harmonic loop looks -/
def loopFreq (al : Bool) (f0 : ℝ) (i : ℕ) : ℝ :=
  if al then aliasNyq (Fn.ofNat (i + 1) * f0) else Fn.ofNat (i + 1) * f0

/-- the state update of one iteration -/
def loopStep (rnd : ℝ → ℤ) (n : ℕ) (st : HState ℝ) (fr : ℝ) : HState ℝ :=
  ⟨setRange st.s (toneAt rnd n st.s fr).lpos (toneAt rnd n st.s fr).rpos (Fn.ofNat 0),
   st.lobes ++ [((toneAt rnd n st.s fr).lpos, (toneAt rnd n st.s fr).rpos)],
   st.pows ++ [(toneAt rnd n st.s fr).power], st.freqs ++ [(toneAt rnd n st.s fr).freq]⟩

theorem harmLoop_succ (rnd : ℝ → ℤ) (n : ℕ) (al : Bool) (f0 : ℝ) (m i : ℕ) (st : HState ℝ) :
    harmLoop rnd n al f0 (m + 1) i st =
      if Fn.ofNat 1 < loopFreq al f0 i then st
      else harmLoop rnd n al f0 m (i + 1) (loopStep rnd n st (loopFreq al f0 i)) := rfl

theorem loopStep_scale (hk : 0 < k) (rnd : ℝ → ℤ) (n : ℕ) (st : HState ℝ) (fr : ℝ) :
    loopStep rnd n (scSt k st) fr = scSt k (loopStep rnd n st fr) := by
  simp only [loopStep, scSt, toneAt_scale hk, scTone, setRange_scale_zero, List.map_append, List.map_cons,
    List.map_nil]

theorem harmLoop_scale (hk : 0 < k) (rnd : ℝ → ℤ) (n : ℕ) (al : Bool) (f0 : ℝ) (m i : ℕ) (st : HState ℝ) :
    harmLoop rnd n al f0 m i (scSt k st) = scSt k (harmLoop rnd n al f0 m i st) := by
  induction m generalizing i st with
  | zero => rfl
  | succ m ih =>
    rw [harmLoop_succ, harmLoop_succ]
    by_cases h : Fn.ofNat 1 < loopFreq al f0 i
    · rw [if_pos h, if_pos h]
    · rw [if_neg h, if_neg h, loopStep_scale hk, ih]


theorem getD_scale (k : ℝ) (l : List ℝ) (i : ℕ) : (l.map (k * ·)).getD i 0 = k * l.getD i 0 := by
  have := List.getD_map (l := l) (d := (0 : ℝ)) (n := i) (k * ·)
  simpa using this

/-- `median` commutes with scaling by `k > 0` (sorting is order-only) -/
theorem median_scale (hk : 0 < k) (l : List ℝ) : median (l.map (k * ·)) = k * median l := by
  unfold median
  have hs : (l.map (k * ·)).mergeSort leB = (l.mergeSort leB).map (k * ·) :=
    (List.map_mergeSort (r := leB) (s := leB) (f := (k * ·)) (l := l)
      (fun a _ b _ => (leB_scale hk a b).symm)).symm
  rw [hs]
  simp only [List.length_map, fn_ofNat, Nat.cast_zero, getD_scale]
  split
  · rfl
  · push_cast
    ring

theorem filter_pos_scale (hk : 0 < k) (l : List ℝ) :
    (l.map (k * ·)).filter (fun v => decide (Fn.ofNat 0 < v))
      = (l.filter (fun v => decide (Fn.ofNat 0 < v))).map (k * ·) := by
  rw [List.filter_map]
  congr 1
  apply List.filter_congr
  intro x _
  simp [mul_pos_iff_of_pos_left hk]

theorem fill_scale (k : ℝ) (nf : ℝ) (lobes : List (ℕ × ℕ)) (s : ℕ → ℝ) :
    lobes.foldl (fun s lb => setRange s lb.1 lb.2 (k * nf)) (sc k s)
      = sc k (lobes.foldl (fun s lb => setRange s lb.1 lb.2 nf) s) := by
  induction lobes generalizing s with
  | nil => rfl
  | cons lb lobes ih => simp only [List.foldl_cons, setRange_scale, ih]

theorem padZeros_scale (k : ℝ) (n : ℕ) (l : List ℝ) :
    padZeros n (l.map (k * ·)) = (padZeros n l).map (k * ·) := by
  simp [padZeros]

theorem map_sc (k : ℝ) (s : ℕ → ℝ) (L : List ℕ) : L.map (sc k s) = (L.map s).map (k * ·) := by
  rw [List.map_map]; rfl

/-- harmonic analysis result with the powers scaled -/
def scInfo (k : ℝ) (h : HarmInfo ℝ) : HarmInfo ℝ := ⟨h.harmpow.map (k * ·), h.harmfreq, k * h.noisepow⟩

/-- T19.3b: `_harm_analyze` is equivariant: on the spectrum scaled by ANY `k > 0` it finds the same lobes (peak search, descents, `argmax`, the positive-bin filter and the sort inside `median` use order comparisons only), the same harmonic frequencies (centroids: the factor cancels), `k` times the harmonic powers and `k` times the noise power (sums and the median noise floor scale). Every spectrum, `nharm`, `aliased`, rounding function. -/
theorem harmAnalyze_scale (hk : 0 < k) (rnd : ℝ → ℤ) (n : ℕ) (s : ℕ → ℝ) (nharm : ℕ) (al : Bool) :
    harmAnalyze rnd n (sc k s) nharm al = scInfo k (harmAnalyze rnd n s nharm al) := by
  unfold harmAnalyze
  simp only [firstTone_scale hk, scTone, setRange_scale_zero]
  have h0 : ∀ t : Tone ℝ, (⟨sc k (setRange s t.lpos t.rpos (Fn.ofNat 0)), [(t.lpos, t.rpos)], [k * t.power], [t.freq]⟩ : HState ℝ)
      = scSt k ⟨setRange s t.lpos t.rpos (Fn.ofNat 0), [(t.lpos, t.rpos)], [t.power], [t.freq]⟩ := by
    intro t; rfl
  rw [h0, harmLoop_scale hk]
  generalize harmLoop rnd n al (firstTone rnd n s).freq (nharm - 1) 1 _ = st
  simp only [scSt, map_sc, filter_pos_scale hk, List.length_map]
  have hnf : (if 0 < (List.filter (fun v => decide (Fn.ofNat 0 < v)) (List.map st.s (List.range n))).length
        then median (List.map (k * ·) (List.filter (fun v => decide (Fn.ofNat 0 < v)) (List.map st.s (List.range n))))
        else (Fn.ofNat 0 : ℝ))
      = k * (if 0 < (List.filter (fun v => decide (Fn.ofNat 0 < v)) (List.map st.s (List.range n))).length
        then median (List.filter (fun v => decide (Fn.ofNat 0 < v)) (List.map st.s (List.range n)))
        else (Fn.ofNat 0 : ℝ)) := by
    split
    · exact median_scale hk _
    · simp
  rw [hnf, fill_scale, map_sc, sum_scale, padZeros_scale]
  rfl


theorem headD_scale (k : ℝ) (l : List ℝ) : (l.map (k * ·)).headD (Fn.ofNat 0) = k * l.headD (Fn.ofNat 0) := by
  cases l <;> simp

/-- T19.3c: `snr(pxx, nharm, aliased, Psd)` does not change when the spectrum is scaled by `k > 0`. -/
theorem snrPsd_scale (hk : 0 < k) (rnd : ℝ → ℤ) (n : ℕ) (s : ℕ → ℝ) (nharm : ℕ) (al : Bool) :
    snrPsd rnd n (sc k s) nharm al = snrPsd rnd n s nharm al := by
  unfold snrPsd
  simp only [harmAnalyze_scale hk, scInfo, headD_scale, mul_div_mul_left _ _ hk.ne']

/-- T19.3c: `sinad(pxx, Psd)` does not change when the spectrum is scaled by `k > 0`. -/
theorem sinadPsd_scale (hk : 0 < k) (rnd : ℝ → ℤ) (n : ℕ) (s : ℕ → ℝ) :
    sinadPsd rnd n (sc k s) = sinadPsd rnd n s := snrPsd_scale hk rnd n s 1 false

/-- T19.3c: `thd(pxx, nharm, aliased, Psd)`: the THD value and the reported harmonic frequencies do not change when the spectrum is scaled by `k > 0` (the per-harmonic levels in dB shift by `10·log10 k`, as they must). -/
theorem thdPsd_scale (hk : 0 < k) (rnd : ℝ → ℤ) (n : ℕ) (s : ℕ → ℝ) (nharm : ℕ) (al : Bool) :
    (thdPsd rnd n (sc k s) nharm al).value = (thdPsd rnd n s nharm al).value ∧
    (thdPsd rnd n (sc k s) nharm al).harmfreq = (thdPsd rnd n s nharm al).harmfreq := by
  unfold thdPsd
  simp only [harmAnalyze_scale hk, scInfo, headD_scale, ← List.map_drop, sum_scale,
    mul_div_mul_left _ _ hk.ne', and_self]

/-! periodogram -/

theorem sumSq_nonneg (l : List ℝ) : 0 ≤ sumSq l := by
  unfold sumSq
  have h : ∀ (l : List ℝ) (a : ℝ), 0 ≤ a → 0 ≤ l.foldl (fun acc v => acc + v * v) a := by
    intro l
    induction l with
    | nil => intro a ha; exact ha
    | cons x l ih => intro a ha; exact ih _ (add_nonneg ha (mul_self_nonneg x))
  exact h l _ (by simp)

theorem mean_scale (c : ℝ) (x : List ℝ) : mean (x.map (c * ·)) = c * mean x := by
  unfold mean
  rw [sum_scale, List.length_map, mul_div_assoc]

/-- componentwise scaling of a `cmplx_t` -/
def scCx (c : ℝ) (z : Cx ℝ) : Cx ℝ := ⟨c * z.re, c * z.im⟩

theorem dftStep_scale (c : ℝ) (nfft j : ℕ) (acc : Cx ℝ) (v : ℝ) :
    dftStep nfft j (scCx c acc) (c * v) = scCx c (dftStep nfft j acc v) := by
  simp only [dftStep, scCx]
  congr 1 <;> ring

theorem dftAcc_scale (c : ℝ) (nfft kk : ℕ) (y : List ℝ) (m : ℕ) (acc : Cx ℝ) :
    dftAcc nfft kk (y.map (c * ·)) m (scCx c acc) = scCx c (dftAcc nfft kk y m acc) := by
  induction y generalizing m acc with
  | nil => rfl
  | cons v vs ih => simp only [List.map_cons, dftAcc, dftStep_scale, ih]

theorem dftBin_scale (c : ℝ) (nfft kk : ℕ) (y : List ℝ) :
    dftBin nfft kk (y.map (c * ·)) = scCx c (dftBin nfft kk y) := by
  unfold dftBin
  rw [← dftAcc_scale]
  simp [scCx]

theorem abs2_scCx (c : ℝ) (z : Cx ℝ) : Cx.abs2 (scCx c z) = c ^ 2 * Cx.abs2 z := by
  simp only [Cx.abs2, scCx]; ring

/-- T19.3a: `_periodogram(c·x) = c²·_periodogram(x)` — for EVERY real `c`, window and signal (no hypothesis). -/
theorem periodogram_scale (c : ℝ) (w0 x : List ℝ) :
    periodogram w0 (x.map (c * ·)) = (periodogram w0 x).map (c ^ 2 * ·) := by
  unfold periodogram
  simp only [mean_scale, List.length_map]
  have hy : List.zipWith (fun xi wi => (xi - c * mean x) * wi) (x.map (c * ·)) (w0.map (fun v => v / rmsR w0))
      = (List.zipWith (fun xi wi => (xi - mean x) * wi) x (w0.map (fun v => v / rmsR w0))).map (c * ·) := by
    rw [List.zipWith_map_left, List.map_zipWith]
    congr 1
    funext a b
    ring
  rw [hy, List.map_map]
  apply List.map_congr_left
  intro kk _
  simp only [Function.comp, dftBin_scale, abs2_scCx, mul_div_assoc]


theorem ofList_scale (k : ℝ) (l : List ℝ) : ofList (l.map (k * ·)) = sc k (ofList l) := by
  funext i
  simp only [ofList, sc, fn_ofNat, Nat.cast_zero, getD_scale]

/-- T19.3: `snr(c·x) = snr(x)` for the time-domain entry point — every signal, window, `nharm`, `aliased`; every `c ≠ 0` (in particular every positive constant). -/
theorem snrTime_scale {c : ℝ} (hc : c ≠ 0) (rnd : ℝ → ℤ) (w0 x : List ℝ) (nharm : ℕ) (al : Bool) :
    snrTime rnd w0 (x.map (c * ·)) nharm al = snrTime rnd w0 x nharm al := by
  have hk : 0 < c ^ 2 := by positivity
  simp only [snrTime, periodogram_scale, List.length_map, ofList_scale, snrPsd_scale hk]

/-- T19.3: `sinad(c·x) = sinad(x)`, every `c ≠ 0`. -/
theorem sinadTime_scale {c : ℝ} (hc : c ≠ 0) (rnd : ℝ → ℤ) (w0 x : List ℝ) :
    sinadTime rnd w0 (x.map (c * ·)) = sinadTime rnd w0 x := by
  have hk : 0 < c ^ 2 := by positivity
  simp only [sinadTime, periodogram_scale, List.length_map, ofList_scale, sinadPsd_scale hk]

/-- T19.3: `thd(c·x)` has the same value and the same harmonic frequencies as `thd(x)`, every `c ≠ 0`. -/
theorem thdTime_scale {c : ℝ} (hc : c ≠ 0) (rnd : ℝ → ℤ) (w0 x : List ℝ) (nharm : ℕ) (al : Bool) :
    (thdTime rnd w0 (x.map (c * ·)) nharm al).value = (thdTime rnd w0 x nharm al).value ∧
    (thdTime rnd w0 (x.map (c * ·)) nharm al).harmfreq = (thdTime rnd w0 x nharm al).harmfreq := by
  have hk : 0 < c ^ 2 := by positivity
  simp only [thdTime, periodogram_scale, List.length_map, ofList_scale]
  exact thdPsd_scale hk rnd _ _ nharm al


/-- T19.3 `scale_invariance`, the clause as the property states it: for a positive constant `c`,
`snr`, `sinad` and `thd` (value and component frequencies) of `c·x` are those of `x`. -/
theorem scale_invariance {c : ℝ} (hc : 0 < c) (rnd : ℝ → ℤ) (w0 x : List ℝ) (nharm : ℕ) (al : Bool) :
    snrTime rnd w0 (x.map (c * ·)) nharm al = snrTime rnd w0 x nharm al ∧
    sinadTime rnd w0 (x.map (c * ·)) = sinadTime rnd w0 x ∧
    (thdTime rnd w0 (x.map (c * ·)) nharm al).value = (thdTime rnd w0 x nharm al).value ∧
    (thdTime rnd w0 (x.map (c * ·)) nharm al).harmfreq = (thdTime rnd w0 x nharm al).harmfreq :=
  ⟨snrTime_scale hc.ne' rnd w0 x nharm al, sinadTime_scale hc.ne' rnd w0 x,
   (thdTime_scale hc.ne' rnd w0 x nharm al).1, (thdTime_scale hc.ne' rnd w0 x nharm al).2⟩

/-! ### the model is the code's loop, and is not degenerate -/

/-- fuel `n` never cuts the right walk short: when `walkR` returns, the loop condition of the code is false -/
theorem walkR_terminated (c : ℝ → ℝ → Bool) (n : ℕ) (s : ℕ → ℝ) (f p : ℕ) (h : n ≤ p + f) :
    ¬ (walkR c n s f p + 1 < n ∧ c (s (walkR c n s f p)) (s (walkR c n s f p + 1)) = true) := by
  induction f generalizing p with
  | zero => simp only [walkR]; omega
  | succ f ih =>
    simp only [walkR]
    split
    · exact ih (p + 1) (by omega)
    · assumption

/-- … and the same for the plateau walk: when `topR` returns, `(rtop < n-1) && (spec[rtop+1] == v)` is false -/
theorem topR_terminated (n : ℕ) (s : ℕ → ℝ) (v : ℝ) (f p : ℕ) (h : n ≤ p + f) :
    ¬ (topR n s v f p + 1 < n ∧ eqB (s (topR n s v f p + 1)) v = true) := by
  induction f generalizing p with
  | zero => simp only [topR]; omega
  | succ f ih =>
    simp only [topR]
    split
    · exact ih (p + 1) (by omega)
    · assumption

/-- a 7-bin spectrum with a lobe at bin 1 and one at bin 4 -/
def spec7 : ℕ → ℝ := ofList [1, 6, 1, 1, 4, 1, 1]
/-- `(int)std::round` on ℝ (values ≥ 0) -/
def rndR (x : ℝ) : ℤ := ⌊x + 1 / 2⌋

theorem spec7_vals : spec7 0 = 1 ∧ spec7 1 = 6 ∧ spec7 2 = 1 ∧ spec7 3 = 1 ∧ spec7 4 = 4 ∧ spec7 5 = 1 ∧ spec7 6 = 1 := by
  simp [spec7, ofList]

/-- concrete evaluation: the fundamental of `spec7` is the lobe `[0, 2]`, power 8, centroid bin 1 -/
theorem spec7_first : firstTone rndR 7 spec7 = ⟨0, 2, 1 / 7, 8⟩ := by
  have hv := spec7_vals
  have ha : argmax 7 spec7 = 1 := by
    simp [argmax, List.range, List.range.loop, hv]
    norm_num [hv]
  have hr : rndR ((1 : ℝ) / 7 * 7) = 1 := by
    simp [rndR]; norm_num
  simp only [firstTone, toneAt, ha, fn_ofNat, Nat.cast_one, Nat.cast_ofNat, hr, clampBin]
  norm_num [getTone, locatePeak, walkL, walkR, topL, topR, eqB, gtB, ltB, hv, leftDescent, rightDescent, lobeSum, lobeDot, Noise.sum,
    List.range', List.range'TR, List.range'TR.go]

/-- … and with that lobe zeroed, the search at twice the fundamental climbs to bin 4: lobe `[2, 5]`, power 6 -/
theorem spec7_second :
    toneAt rndR 7 (setRange spec7 0 2 (Fn.ofNat 0)) (Fn.ofNat 2 * (1 / 7)) = ⟨2, 5, 4 / 7, 6⟩ := by
  have hv := spec7_vals
  have hr : rndR ((2 : ℝ) * (1 / 7) * 7) = 2 := by
    simp [rndR]; norm_num
  have h2 : Int.toNat 2 = 2 := rfl
  simp only [toneAt, fn_ofNat, Nat.cast_ofNat, hr, clampBin]
  norm_num [h2, getTone, locatePeak, walkL, walkR, topL, topR, eqB, gtB, ltB, hv, leftDescent, rightDescent, lobeSum, lobeDot, Noise.sum,
    List.range', List.range'TR, List.range'TR.go, setRange]

/-- a tone midway between two bins: two equal top bins -/
def spec4 : ℕ → ℝ := ofList [1, 4, 4, 1]

theorem spec4_vals : spec4 0 = 1 ∧ spec4 1 = 4 ∧ spec4 2 = 4 ∧ spec4 3 = 1 := by
  simp [spec4, ofList]

/-- concrete evaluation at a two-bin plateau: the WHOLE lobe `[0, 3]` is integrated (power 10, centroid bin 3/2),
not the half `[0, 1]` at which the strict descents stop -/
theorem spec4_tone : getTone 4 spec4 1 = ⟨0, 3, 3 / 8, 10⟩ := by
  have hv := spec4_vals
  norm_num [getTone, locatePeak, walkL, walkR, topL, topR, eqB, gtB, ltB, hv, leftDescent, rightDescent, lobeSum, lobeDot, Noise.sum,
    List.range', List.range'TR, List.range'TR.go]

/-- the invariance theorems instantiated at that spectrum (factor 4 = a 6 dB louder signal) -/
example : snrPsd rndR 7 (sc 4 spec7) 2 false = snrPsd rndR 7 spec7 2 false := snrPsd_scale (by norm_num) _ _ _ _ _

end Dsp.C19
