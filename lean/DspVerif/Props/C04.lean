import DspVerif.Model.Slice
import Mathlib.Tactic.Linarith
import Mathlib.Tactic.Ring
import Mathlib.Tactic.SplitIfs
import Mathlib.Tactic.Tauto
import Mathlib.Data.List.Nodup
/-!
# C04 — slices select and assign exactly the numpy-designated elements

Theorems about `Gen.BaseSlice.ctor` (REGENERATED from `include/dsplib/slice.h` on every run) and the
hand-written `Model/Slice`.  `n` is the array length (`n ≥ 0`); `i1 i2 m` range over all of `Int`.
-/
namespace Dsp.C04
open Dsp Dsp.Gen Dsp.Slice

def res (n i : Int) : Int := if i < 0 then n + i else i

/-- `_nc` as the constructor computes it -/
def count (r1 r2 m : Int) : Int :=
  if Int.tmod (Int.ofNat (Int.natAbs (r2 - r1))) (Int.ofNat (Int.natAbs m)) ≠ 0
  then Int.tdiv (Int.ofNat (Int.natAbs (r2 - r1))) (Int.ofNat (Int.natAbs m)) + 1
  else Int.tdiv (Int.ofNat (Int.natAbs (r2 - r1))) (Int.ofNat (Int.natAbs m))

def built (n i1 i2 m : Int) : BaseSlice :=
  { i1 := res n i1, i2 := res n i2, m := m, n := n, nc := count (res n i1) (res n i2) m }

/-- the accepted region, in resolved indices (as the constructor tests it) -/
def Accept (n i1 i2 m : Int) : Prop :=
  n ≠ 0 ∧ m ≠ 0 ∧ ¬(res n i1 < 0 ∨ res n i1 ≥ n) ∧ ¬(res n i2 < 0 ∨ res n i2 > n) ∧
    ¬(m < 0 ∧ res n i1 < res n i2) ∧ ¬(m > 0 ∧ res n i1 > res n i2) ∧ ¬ (count (res n i1) (res n i2) m > n)

theorem res_fold (n i : Int) : (if i < 0 then n + i else i) = res n i := rfl

/-- Bridge from the REGENERATED constructor to `Accept`/`built`.  The proof does not depend on the shape of the generated
    term (order of tests, how `_nc` is assembled, duplicated continuations): the index resolution is folded into `res`,
    the opaque sub-terms are abstracted, and every `if` is split. -/
theorem ctor_spec (n i1 i2 m : Int) :
    (Accept n i1 i2 m → BaseSlice.ctor n i1 i2 m = .ok (built n i1 i2 m)) ∧
    (¬ Accept n i1 i2 m → ∃ e, BaseSlice.ctor n i1 i2 m = .error e) := by
  unfold BaseSlice.ctor Accept built count
  simp only [res_fold]
  generalize res n i1 = r1
  generalize res n i2 = r2
  generalize Int.tmod (Int.ofNat (Int.natAbs (r2 - r1))) (Int.ofNat (Int.natAbs m)) = md
  generalize Int.tdiv (Int.ofNat (Int.natAbs (r2 - r1))) (Int.ofNat (Int.natAbs m)) = dv
  split_ifs <;> simp_all

/-! ### arithmetic of the element count -/

theorem ceil_div (d t : Int) (hd : 0 < d) (ht : 0 < t) :
    (d - 1) / t + 1 = if d % t ≠ 0 then d / t + 1 else d / t := by
  have h1 := Int.mul_ediv_add_emod d t
  have h2 := Int.emod_nonneg d (ne_of_gt ht)
  have h3 := Int.emod_lt_of_pos d ht
  have hc : t * (d / t) = (d / t) * t := Int.mul_comm _ _
  split
  · rename_i h
    have : (d - 1) / t = d / t := by
      rw [Int.ediv_eq_iff_of_pos ht]
      constructor <;> omega
    omega
  · rename_i h
    have h0 : d % t = 0 := by simpa using h
    have : (d - 1) / t = d / t - 1 := by
      rw [Int.ediv_eq_iff_of_pos ht, Int.sub_mul]
      constructor <;> omega
    omega

theorem count_eq (r1 r2 m : Int) (hm : m ≠ 0) :
    count r1 r2 m = if r1 = r2 then 0 else ((Int.natAbs (r2 - r1) : Int) - 1) / (Int.natAbs m : Int) + 1 := by
  unfold count
  have ht : (0 : Int) < (Int.natAbs m : Int) := by omega
  have hd : (0 : Int) ≤ (Int.natAbs (r2 - r1) : Int) := by omega
  simp only [Int.ofNat_eq_natCast]
  rw [Int.tmod_eq_emod_of_nonneg hd, Int.tdiv_eq_ediv_of_nonneg hd]
  by_cases h : r1 = r2
  · subst h; simp
  · rw [if_neg h, ceil_div _ _ (by omega) ht]



/-- the five situations in which the statement allows an exception:
empty array, zero step, start outside [-n, n-1], stop outside [-n, n],
or a step whose sign contradicts the order of the resolved indices -/
def MayThrow (n i1 i2 m : Int) : Prop :=
  n = 0 ∨ m = 0 ∨ ¬(-n ≤ i1 ∧ i1 ≤ n - 1) ∨ ¬(-n ≤ i2 ∧ i2 ≤ n) ∨
  (m < 0 ∧ res n i1 < res n i2) ∨ (m > 0 ∧ res n i1 > res n i2)

/-! ### helpers: the element count -/

theorem count_nonneg (r1 r2 m : Int) : 0 ≤ count r1 r2 m := by
  unfold count
  simp only [Int.ofNat_eq_natCast]
  have h : 0 ≤ Int.tdiv (Int.natAbs (r2 - r1) : Int) (Int.natAbs m : Int) :=
    Int.tdiv_nonneg (by omega) (by omega)
  split <;> omega

theorem count_le_abs (r1 r2 m : Int) : count r1 r2 m ≤ (Int.natAbs (r2 - r1) : Int) := by
  by_cases hm : m = 0
  · subst hm
    unfold count
    simp only [Int.ofNat_eq_natCast, Int.natAbs_zero, Int.tmod_zero, Int.tdiv_zero, Int.natCast_zero]
    split <;> omega
  · rw [count_eq _ _ _ hm]
    split
    · omega
    · have := Int.ediv_le_self (a := (Int.natAbs (r2 - r1) : Int) - 1) (Int.natAbs m : Int) (by omega)
      omega

/-- T04.1a the acceptance region of the generated constructor is exactly the complement of the five situations -/
theorem accept_iff (n i1 i2 m : Int) (hn : 0 ≤ n) : Accept n i1 i2 m ↔ ¬ MayThrow n i1 i2 m := by
  have hc := count_le_abs (res n i1) (res n i2) m
  unfold Accept MayThrow
  generalize count (res n i1) (res n i2) m = c at hc
  unfold res at *
  split_ifs at * <;> omega

/-- T04.1 the constructor throws exactly in the five listed situations -/
theorem throws_iff (n i1 i2 m : Int) (hn : 0 ≤ n) :
    (∃ e, BaseSlice.ctor n i1 i2 m = .error e) ↔ MayThrow n i1 i2 m := by
  have hs := ctor_spec n i1 i2 m
  have ha := accept_iff n i1 i2 m hn
  constructor
  · rintro ⟨e, he⟩
    by_contra hmt
    have := hs.1 (ha.2 hmt)
    rw [this] at he
    cases he
  · intro hmt
    exact hs.2 (fun hacc => ha.1 hacc hmt)

/-! ### helpers: a returned slice is `built`, Python reference, position bounds -/

/-- inversion of `ctor_spec`: when the constructor returns, the arguments were accepted and the object is `built` -/
theorem ok_built (n i1 i2 m : Int) (s : BaseSlice)
    (h : BaseSlice.ctor n i1 i2 m = .ok s) : Accept n i1 i2 m ∧ s = built n i1 i2 m := by
  have hs := ctor_spec n i1 i2 m
  by_cases ha : Accept n i1 i2 m
  · refine ⟨ha, ?_⟩
    have := hs.1 ha
    rw [this] at h
    injection h with h
    exact h.symm
  · obtain ⟨e, he⟩ := hs.2 ha
    rw [he] at h
    cases h

theorem pyLen_eq (r1 r2 m : Int) (hm : m ≠ 0) (h3 : ¬(m < 0 ∧ r1 < r2)) (h4 : ¬(m > 0 ∧ r1 > r2)) :
    pyLen r1 r2 m = count r1 r2 m := by
  rw [count_eq _ _ _ hm]; unfold pyLen
  by_cases hpos : m > 0
  · have e1 : (Int.natAbs m : Int) = m := by omega
    rw [e1, if_pos hpos]
    by_cases h : r1 < r2
    · have e2 : (Int.natAbs (r2 - r1) : Int) = r2 - r1 := by omega
      rw [e2, if_pos h, if_neg (by omega)]
    · have : r1 = r2 := by omega
      rw [if_neg h, if_pos this]
  · have e1 : (Int.natAbs m : Int) = -m := by omega
    rw [e1, if_neg hpos]
    by_cases h : r2 < r1
    · have e2 : (Int.natAbs (r2 - r1) : Int) = r1 - r2 := by omega
      rw [e2, if_pos h, if_neg (by omega)]
    · have : r1 = r2 := by omega
      rw [if_neg h, if_pos this]

theorem pyStart_eq1 (n i1 i2 m : Int) (ha : Accept n i1 i2 m) : pyStart n i1 m = res n i1 := by
  obtain ⟨h0, hm, h1, h2, h3, h4, _⟩ := ha
  unfold pyStart
  unfold res at *
  split_ifs at * <;> omega

theorem pyStart_eq2 (n i1 i2 m : Int) (ha : Accept n i1 i2 m) : pyStart n i2 m = res n i2 := by
  obtain ⟨h0, hm, h1, h2, h3, h4, _⟩ := ha
  unfold pyStart
  unfold res at *
  split_ifs at * <;> omega

theorem step_bound (d t j : Int) (ht : 0 < t) (hj : j < (d - 1) / t + 1) : j * t ≤ d - 1 := by
  have h1 : j ≤ (d - 1) / t := by omega
  have h2 := Int.mul_le_mul_of_nonneg_right h1 (Int.le_of_lt ht)
  have h3 := Int.ediv_mul_le (d - 1) (Int.ne_of_gt ht)
  omega

/-- the `j`-th position lies in `[r1, r2)` for a positive step and in `(r2, r1]` for a negative step -/
theorem idx_bounds (r1 r2 m : Int) (hm : m ≠ 0) (h3 : ¬(m < 0 ∧ r1 < r2)) (h4 : ¬(m > 0 ∧ r1 > r2))
    (j : Nat) (hj : (j : Int) < count r1 r2 m) :
    (m > 0 → r1 ≤ r1 + j * m ∧ r1 + j * m < r2) ∧ (m < 0 → r2 < r1 + j * m ∧ r1 + j * m ≤ r1) := by
  rw [count_eq _ _ _ hm] at hj
  by_cases h : r1 = r2
  · rw [if_pos h] at hj; omega
  rw [if_neg h] at hj
  constructor
  · intro hpos
    have e1 : (Int.natAbs m : Int) = m := by omega
    have e2 : (Int.natAbs (r2 - r1) : Int) = r2 - r1 := by omega
    rw [e1, e2] at hj
    have := step_bound _ _ _ hpos hj
    have : 0 ≤ (j : Int) * m := Int.mul_nonneg (by omega) (by omega)
    omega
  · intro hneg
    have e1 : (Int.natAbs m : Int) = -m := by omega
    have e2 : (Int.natAbs (r2 - r1) : Int) = r1 - r2 := by omega
    rw [e1, e2] at hj
    have := step_bound _ _ _ (by omega) hj
    have : 0 ≤ (j : Int) * (-m) := Int.mul_nonneg (by omega) (by omega)
    rw [Int.mul_neg] at *
    omega

/-- T04.2 when it returns, the slice denotes exactly Python's `x[i1:i2:m]`, in the same order -/
theorem slice_denotes (n i1 i2 m : Int) (hn : 0 ≤ n) (s : BaseSlice)
    (h : BaseSlice.ctor n i1 i2 m = .ok s) : indices s = pyIndices n i1 i2 m := by
  have _ := hn
  obtain ⟨ha, rfl⟩ := ok_built n i1 i2 m s h
  unfold pyIndices indices built
  simp only
  rw [pyStart_eq1 n i1 i2 m ha, pyStart_eq2 n i1 i2 m ha, pyLen_eq _ _ _ ha.2.1 ha.2.2.2.2.1 ha.2.2.2.2.2.1]

/-- T04.3 every position the iterator touches lies inside the array -/
theorem in_bounds (n i1 i2 m : Int) (hn : 0 ≤ n) (s : BaseSlice)
    (h : BaseSlice.ctor n i1 i2 m = .ok s) : ∀ x ∈ indices s, 0 ≤ x ∧ x < n := by
  obtain ⟨ha, rfl⟩ := ok_built n i1 i2 m s h
  intro x hx
  unfold indices built at hx
  simp only [List.mem_map, List.mem_range] at hx
  obtain ⟨j, hj, rfl⟩ := hx
  obtain ⟨h0, hm, h1, h2, h3, h4, _⟩ := ha
  have hb := idx_bounds _ _ _ hm h3 h4 j (by omega)
  omega

/-- the positions are pairwise distinct (so "writes exactly those positions" is well defined) -/
theorem indices_nodup (n i1 i2 m : Int) (hn : 0 ≤ n) (s : BaseSlice)
    (h : BaseSlice.ctor n i1 i2 m = .ok s) : (indices s).Nodup := by
  have _ := hn
  obtain ⟨ha, rfl⟩ := ok_built n i1 i2 m s h
  unfold indices
  refine List.Nodup.map ?_ List.nodup_range
  intro a b hab
  simp only [built] at hab
  have : (a : Int) * m = b * m := by omega
  have := Int.eq_of_mul_eq_mul_right ha.2.1 this
  omega

theorem res_idem (n i : Int) (h : 0 ≤ res n i) : res n (res n i) = res n i := by
  unfold res at *
  split_ifs at * <;> omega

/-- re-running the constructor on the stored members `(n, i1, i2, m)` of a constructed slice returns the same object -/
theorem copy_same_aux (n i1 i2 m : Int) (s : BaseSlice)
    (h : BaseSlice.ctor n i1 i2 m = .ok s) : BaseSlice.ctor s.n s.i1 s.i2 s.m = .ok s := by
  obtain ⟨ha, rfl⟩ := ok_built n i1 i2 m s h
  have e1 := res_idem n i1 (by have := ha.2.2.1; omega)
  have e2 := res_idem n i2 (by have := ha.2.2.2.1; omega)
  have hb : built n (res n i1) (res n i2) m = built n i1 i2 m := by
    unfold built; rw [e1, e2]
  have ha' : Accept n (res n i1) (res n i2) m := by
    unfold Accept; rw [e1, e2]; exact ha
  have := (ctor_spec n (res n i1) (res n i2) m).1 ha'
  rw [hb] at this
  exact this

/-- T04.5 a copy of a slice object denotes the same elements (three copy constructors, generated argument lists) -/
theorem copy_same_const_from_const (n i1 i2 m : Int) (hn : 0 ≤ n) (s : BaseSlice)
    (h : BaseSlice.ctor n i1 i2 m = .ok s) :
    BaseSlice.ctor (copyArgs_const_from_const s).1 (copyArgs_const_from_const s).2.1
      (copyArgs_const_from_const s).2.2.1 (copyArgs_const_from_const s).2.2.2 = .ok s := by
  have _ := hn
  exact copy_same_aux n i1 i2 m s h

theorem copy_same_const_from_mut (n i1 i2 m : Int) (hn : 0 ≤ n) (s : BaseSlice)
    (h : BaseSlice.ctor n i1 i2 m = .ok s) :
    BaseSlice.ctor (copyArgs_const_from_mut s).1 (copyArgs_const_from_mut s).2.1
      (copyArgs_const_from_mut s).2.2.1 (copyArgs_const_from_mut s).2.2.2 = .ok s := by
  have _ := hn
  exact copy_same_aux n i1 i2 m s h

theorem copy_same_mut_from_mut (n i1 i2 m : Int) (hn : 0 ≤ n) (s : BaseSlice)
    (h : BaseSlice.ctor n i1 i2 m = .ok s) :
    BaseSlice.ctor (copyArgs_mut_from_mut s).1 (copyArgs_mut_from_mut s).2.1
      (copyArgs_mut_from_mut s).2.2.1 (copyArgs_mut_from_mut s).2.2.2 = .ok s := by
  have _ := hn
  exact copy_same_aux n i1 i2 m s h

/-! ### T04.4: no 32-bit overflow inside the box; machine-checked witnesses that the box cannot be widened

With `n = i1 = 2^30` the first conjunct `n + i1 < 2^31` fails.  Tightening only `n` to `n < 2^30`
(as the docstring says) is still not enough: `n = 0, i1 = -2^30, i2 = 2^30` gives
`res n i2 - res n i1 = 2^31`. -/

/-- the box of `no_overflow` cannot be widened to `0 ≤ n ≤ 2^30`: `n = 2^30, i1 = 2^30, i2 = 0, m = 1` (then `n + i1 = 2^31`) -/
theorem no_overflow_box_tight :
    ¬ (∀ (n i1 i2 m : Int), 0 ≤ n → n ≤ 2^30 → (-(2^30) ≤ i1 ∧ i1 ≤ 2^30) →
      (-(2^30) ≤ i2 ∧ i2 ≤ 2^30) → (-(2^31) < m ∧ m < 2^31) →
      let I32 := fun (x : Int) => -(2^31) ≤ x ∧ x < 2^31
      I32 (n + i1) ∧ I32 (n + i2) ∧ I32 (res n i2 - res n i1) ∧ I32 (Int.natAbs (res n i2 - res n i1)) ∧
        I32 (Int.natAbs m) ∧ I32 (count (res n i1) (res n i2) m)) := by
  intro h
  have := (h (2^30) (2^30) 0 1 (by omega) (by omega) (by omega) (by omega) (by omega)).1
  simp only at this
  omega

/-- nor can `n = 0` be admitted together with `|i| ≤ 2^30`: `n = 0, i1 = -2^30, i2 = 2^30, m = 1`
    (then `res n i2 - res n i1 = 2^31`) -/
theorem no_overflow_box_tight' :
    ¬ (∀ (n i1 i2 m : Int), 0 ≤ n → n < 2^30 → (-(2^30) ≤ i1 ∧ i1 ≤ 2^30) →
      (-(2^30) ≤ i2 ∧ i2 ≤ 2^30) → (-(2^31) < m ∧ m < 2^31) →
      let I32 := fun (x : Int) => -(2^31) ≤ x ∧ x < 2^31
      I32 (n + i1) ∧ I32 (n + i2) ∧ I32 (res n i2 - res n i1) ∧ I32 (Int.natAbs (res n i2 - res n i1)) ∧
        I32 (Int.natAbs m) ∧ I32 (count (res n i1) (res n i2) m)) := by
  intro h
  have := (h 0 (-(2^30)) (2^30) 1 (by omega) (by omega) (by omega) (by omega) (by omega)).2.2.1
  simp only [res] at this
  omega

/-- T04.4, variant A: `0 < n < 2^30` (the constructor rejects `n = 0` before any arithmetic),
    `|i1|,|i2| ≤ 2^30`, `m ≠ INT_MIN` -/
theorem no_overflow (n i1 i2 m : Int) (hn : 0 < n) (hn' : n < 2^30) (h1 : -(2^30) ≤ i1 ∧ i1 ≤ 2^30)
    (h2 : -(2^30) ≤ i2 ∧ i2 ≤ 2^30) (hm : -(2^31) < m ∧ m < 2^31) :
    let I32 := fun (x : Int) => -(2^31) ≤ x ∧ x < 2^31
    I32 (n + i1) ∧ I32 (n + i2) ∧ I32 (res n i2 - res n i1) ∧ I32 (Int.natAbs (res n i2 - res n i1)) ∧
      I32 (Int.natAbs m) ∧ I32 (count (res n i1) (res n i2) m) := by
  intro I32
  have hc0 := count_nonneg (res n i1) (res n i2) m
  have hc1 := count_le_abs (res n i1) (res n i2) m
  generalize count (res n i1) (res n i2) m = c at hc0 hc1
  simp only [I32]
  unfold res at *
  split_ifs at * <;> omega

/-- T04.4, variant B: `0 ≤ n ≤ 2^30` kept, strict bounds `|i1|,|i2| < 2^30`, `m ≠ INT_MIN` -/
theorem no_overflow' (n i1 i2 m : Int) (hn : 0 ≤ n) (hn' : n ≤ 2^30) (h1 : -(2^30) < i1 ∧ i1 < 2^30)
    (h2 : -(2^30) < i2 ∧ i2 < 2^30) (hm : -(2^31) < m ∧ m < 2^31) :
    let I32 := fun (x : Int) => -(2^31) ≤ x ∧ x < 2^31
    I32 (n + i1) ∧ I32 (n + i2) ∧ I32 (res n i2 - res n i1) ∧ I32 (Int.natAbs (res n i2 - res n i1)) ∧
      I32 (Int.natAbs m) ∧ I32 (count (res n i1) (res n i2) m) := by
  intro I32
  have hc0 := count_nonneg (res n i1) (res n i2) m
  have hc1 := count_le_abs (res n i1) (res n i2) m
  generalize count (res n i1) (res n i2) m = c at hc0 hc1
  simp only [I32]
  unfold res at *
  split_ifs at * <;> omega

/-! ### assignment -/
variable {α : Type} [Inhabited α]

omit [Inhabited α] in
theorem setI_length (a : List α) (i : Int) (v : α) : (setI a i v).length = a.length := by
  unfold setI; split <;> simp

theorem getI_setI (a : List α) (i p : Int) (v : α) (hi : 0 ≤ i ∧ i < a.length) (hp : 0 ≤ p) :
    getI (setI a i v) p = if p = i then v else getI a p := by
  unfold getI setI
  rw [if_neg (by omega)]
  by_cases h : p = i
  · subst h
    have : p.toNat < a.length := by omega
    simp [List.getD_eq_getElem?_getD, this]
  · rw [if_neg h]
    have : i.toNat ≠ p.toNat := by omega
    simp [List.getD_eq_getElem?_getD, List.getElem?_set_ne this]

set_option linter.unusedSectionVars false in
theorem scatter_length (a : List α) (idx : List Int) (vals : List α) :
    (scatter a idx vals).length = a.length := by
  induction idx generalizing a vals with
  | nil => simp [scatter]
  | cons i is ih =>
    cases vals with
    | nil => simp [scatter]
    | cons v vs => simp only [scatter]; rw [ih, setI_length]

/-- scatter writes exactly the listed positions: position `idx[j]` receives `vals[j]`, every other cell is unchanged -/
theorem scatter_get (a : List α) (idx : List Int) (vals : List α) (hnd : idx.Nodup)
    (hb : ∀ x ∈ idx, 0 ≤ x ∧ x < a.length) (hl : idx.length = vals.length) (p : Int) (hp : 0 ≤ p ∧ p < a.length) :
    getI (scatter a idx vals) p =
      match idx.idxOf? p with
      | some j => vals.getD j default
      | none => getI a p := by
  induction idx generalizing a vals with
  | nil => simp [scatter]
  | cons i is ih =>
    cases vals with
    | nil => simp at hl
    | cons v vs =>
      simp only [scatter]
      have hi := hb i (by simp)
      rw [List.nodup_cons] at hnd
      rw [ih (setI a i v) vs hnd.2 (by
            intro x hx; rw [setI_length]; exact hb x (by simp [hx])) (by simpa using hl)
            (by rw [setI_length]; exact hp)]
      rw [List.idxOf?_cons, getI_setI a i p v hi hp.1]
      by_cases h : i = p
      · subst h
        have : List.idxOf? i is = none := by simpa using hnd.1
        simp [this]
      · have h' : ¬ p = i := fun e => h e.symm
        simp only [beq_iff_eq, h, if_false, h']
        cases List.idxOf? p is <;> simp

/-- T04.6 / T04.8 assignment of a slice (possibly of the same array, any overlap, any strides):
    every destination position `(indices d)[j]` receives the value the SOURCE array held at `(indices s)[j]`
    BEFORE the assignment (the source is read first), every other cell is unchanged -/
theorem assign_spec (dstArr srcArr : List α) (nd i1 i2 m ns j1 j2 k : Int) (d s : BaseSlice)
    (hnd : nd = dstArr.length) (hns : ns = srcArr.length)
    (hd : BaseSlice.ctor nd i1 i2 m = .ok d) (hs : BaseSlice.ctor ns j1 j2 k = .ok s) (hc : d.nc = s.nc)
    (p : Int) (hp : 0 ≤ p ∧ p < dstArr.length) :
    ∃ r, assignSlice dstArr srcArr d s = .ok r ∧ r.length = dstArr.length ∧
      getI r p = match (indices d).idxOf? p with
        | some j => getI srcArr ((indices s).getD j 0)
        | none => getI dstArr p := by
  have _ := hns
  have _ := hs
  have hcn : ¬ d.nc ≠ s.nc := by simp [hc]
  refine ⟨scatter dstArr (indices d) (gather srcArr (indices s)), ?_, scatter_length _ _ _, ?_⟩
  · unfold assignSlice; rw [if_neg hcn]
  · have hlen : (indices d).length = (gather srcArr (indices s)).length := by
      simp [indices, gather, hc]
    have hbd : ∀ x ∈ indices d, 0 ≤ x ∧ x < (dstArr.length : Int) := by
      subst hnd; exact in_bounds _ i1 i2 m (by omega) d hd
    rw [scatter_get dstArr (indices d) _ (indices_nodup nd i1 i2 m (by omega) d hd) hbd hlen p hp]
    cases h : List.idxOf? p (indices d) with
    | none => rfl
    | some j =>
      simp only
      have hj : j < (indices d).length := (List.idxOf?_eq_some_iff.1 h).1
      have hj' : j < (indices s).length := by
        have : (indices s).length = (indices d).length := by simp [indices, hc]
        omega
      unfold gather
      simp [List.getD_eq_getElem?_getD, hj']

/-- T04.7 different element counts are rejected (nothing is written: the model returns no array) -/
theorem assign_len (dstArr srcArr : List α) (d s : BaseSlice) (hc : d.nc ≠ s.nc) :
    ∃ e, assignSlice dstArr srcArr d s = .error e := by
  unfold assignSlice
  rw [if_pos hc]
  exact ⟨_, rfl⟩

set_option linter.unusedSectionVars false in
theorem assignList_len (a : List α) (d : BaseSlice) (rhs : List α) (hc : d.nc ≠ rhs.length) :
    ∃ e, assignList a d rhs = .error e := by
  unfold assignList
  rw [if_pos hc]
  exact ⟨_, rfl⟩

/-- scalar fill writes exactly the slice positions -/
theorem fill_spec (a : List α) (n i1 i2 m : Int) (d : BaseSlice) (v : α) (hn : n = a.length)
    (hd : BaseSlice.ctor n i1 i2 m = .ok d) (p : Int) (hp : 0 ≤ p ∧ p < a.length) :
    getI (fill a d v) p = if p ∈ indices d then v else getI a p := by
  have hbd : ∀ x ∈ indices d, 0 ≤ x ∧ x < (a.length : Int) := by
    subst hn; exact in_bounds _ i1 i2 m (by omega) d hd
  unfold fill
  rw [scatter_get a (indices d) _ (indices_nodup n i1 i2 m (by omega) d hd) hbd
    (by simp [indices]) p hp]
  by_cases hmem : p ∈ indices d
  · rw [if_pos hmem]
    cases h : List.idxOf? p (indices d) with
    | none => exact absurd hmem (List.idxOf?_eq_none_iff.1 h)
    | some j =>
      simp only
      have hj : j < d.nc.toNat := by
        have := (List.idxOf?_eq_some_iff.1 h).1
        simpa [indices] using this
      simp [List.getD_eq_getElem?_getD, hj]
  · rw [if_neg hmem, List.idxOf?_eq_none_iff.2 hmem]

/-! ### non-vacuity: concrete instances of the hypotheses -/
example : BaseSlice.ctor 10 3 (-1) 2 = .ok { i1 := 3, i2 := 9, m := 2, n := 10, nc := 3 } := by decide
example : indices { i1 := 3, i2 := 9, m := 2, n := 10, nc := 3 } = [3, 5, 7] := by decide
example : pyIndices 10 3 (-1) 2 = [3, 5, 7] := by decide
example : BaseSlice.ctor 10 8 1 (-3) = .ok { i1 := 8, i2 := 1, m := -3, n := 10, nc := 3 } := by decide
example : pyIndices 10 8 1 (-3) = [8, 5, 2] := by decide

end Dsp.C04
