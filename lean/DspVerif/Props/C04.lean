import DspVerif.Model.Slice
import Mathlib.Tactic.Linarith
import Mathlib.Tactic.Ring
import Mathlib.Tactic.SplitIfs
/-!
# C04 — slices select and assign exactly the numpy-designated elements

Theorems about `Gen.BaseSlice.ctor` (REGENERATED from `include/dsplib/slice.h` on every run) and the
hand-written `Model/Slice`.  `n` is the array length (`n ≥ 0`); `i1 i2 m` range over all of `Int`.
-/
namespace Dsp.C04
open Dsp Dsp.Gen Dsp.Slice

def res (n i : Int) : Int := if i < 0 then n + i else i

/-- `_nc` as the constructor computes it -/
def count (r1 r2 m : Int) : Int :=
  if Int.tmod (Int.ofNat (Int.natAbs (r2 - r1))) (Int.ofNat (Int.natAbs m)) ≠ 0
  then Int.tdiv (Int.ofNat (Int.natAbs (r2 - r1))) (Int.ofNat (Int.natAbs m)) + 1
  else Int.tdiv (Int.ofNat (Int.natAbs (r2 - r1))) (Int.ofNat (Int.natAbs m))

def built (n i1 i2 m : Int) : BaseSlice :=
  { i1 := res n i1, i2 := res n i2, m := m, n := n, nc := count (res n i1) (res n i2) m }

/-- the accepted region, in resolved indices (as the constructor tests it) -/
def Accept (n i1 i2 m : Int) : Prop :=
  n ≠ 0 ∧ m ≠ 0 ∧ ¬(res n i1 < 0 ∨ res n i1 ≥ n) ∧ ¬(res n i2 < 0 ∨ res n i2 > n) ∧
    ¬(m < 0 ∧ res n i1 < res n i2) ∧ ¬(m > 0 ∧ res n i1 > res n i2) ∧ ¬ (count (res n i1) (res n i2) m > n)

theorem ctor_spec (n i1 i2 m : Int) :
    (Accept n i1 i2 m → BaseSlice.ctor n i1 i2 m = .ok (built n i1 i2 m)) ∧
    (¬ Accept n i1 i2 m → ∃ e, BaseSlice.ctor n i1 i2 m = .error e) := by
  unfold BaseSlice.ctor
  dsimp only
  by_cases hn : n = 0
  · exact ⟨fun h => absurd hn h.1, fun _ => ⟨_, by rw [if_pos (show ¬ (n ≠ 0) from not_not.mpr hn)]⟩⟩
  by_cases hm : m = 0
  · exact ⟨fun h => absurd hm h.2.1, fun _ => ⟨_, by rw [if_neg (show ¬ ¬ (n ≠ 0) from not_not.mpr hn), if_pos (show ¬ (m ≠ 0) from not_not.mpr hm)]⟩⟩
  rw [if_neg (show ¬ ¬ (n ≠ 0) from not_not.mpr hn), if_neg (show ¬ ¬ (m ≠ 0) from not_not.mpr hm)]
  show (_ → (if res n i1 < 0 ∨ res n i1 ≥ n then _ else _ : Except String BaseSlice) = _) ∧ (_ → ∃ e, (if res n i1 < 0 ∨ res n i1 ≥ n then _ else _ : Except String BaseSlice) = _)
  by_cases h1 : res n i1 < 0 ∨ res n i1 ≥ n
  · exact ⟨fun h => absurd h1 h.2.2.1, fun _ => ⟨_, by rw [if_pos h1]⟩⟩
  rw [if_neg h1]
  show (_ → (if res n i2 < 0 ∨ res n i2 > n then _ else _ : Except String BaseSlice) = _) ∧ (_ → ∃ e, (if res n i2 < 0 ∨ res n i2 > n then _ else _ : Except String BaseSlice) = _)
  by_cases h2 : res n i2 < 0 ∨ res n i2 > n
  · exact ⟨fun h => absurd h2 h.2.2.2.1, fun _ => ⟨_, by rw [if_pos h2]⟩⟩
  rw [if_neg h2]
  show (_ → (if m < 0 ∧ res n i1 < res n i2 then _ else _ : Except String BaseSlice) = _) ∧ (_ → ∃ e, (if m < 0 ∧ res n i1 < res n i2 then _ else _ : Except String BaseSlice) = _)
  by_cases h3 : m < 0 ∧ res n i1 < res n i2
  · exact ⟨fun h => absurd h3 h.2.2.2.2.1, fun _ => ⟨_, by rw [if_pos h3]⟩⟩
  rw [if_neg h3]
  show (_ → (if m > 0 ∧ res n i1 > res n i2 then _ else _ : Except String BaseSlice) = _) ∧ (_ → ∃ e, (if m > 0 ∧ res n i1 > res n i2 then _ else _ : Except String BaseSlice) = _)
  by_cases h4 : m > 0 ∧ res n i1 > res n i2
  · exact ⟨fun h => absurd h4 h.2.2.2.2.2.1, fun _ => ⟨_, by rw [if_pos h4]⟩⟩
  rw [if_neg h4]
  show (_ → (if count (res n i1) (res n i2) m > n then _ else _ : Except String BaseSlice) = _) ∧ (_ → ∃ e, (if count (res n i1) (res n i2) m > n then _ else _ : Except String BaseSlice) = _)
  by_cases h5 : count (res n i1) (res n i2) m > n
  · exact ⟨fun h => absurd h5 h.2.2.2.2.2.2, fun _ => ⟨_, by rw [if_pos h5]⟩⟩
  rw [if_neg h5]
  exact ⟨fun _ => rfl, fun h => absurd ⟨hn, hm, h1, h2, h3, h4, h5⟩ h⟩

/-! ### arithmetic of the element count -/

theorem ceil_div (d t : Int) (hd : 0 < d) (ht : 0 < t) :
    (d - 1) / t + 1 = if d % t ≠ 0 then d / t + 1 else d / t := by
  have h1 := Int.mul_ediv_add_emod d t
  have h2 := Int.emod_nonneg d (ne_of_gt ht)
  have h3 := Int.emod_lt_of_pos d ht
  have hc : t * (d / t) = (d / t) * t := Int.mul_comm _ _
  split
  · rename_i h
    have : (d - 1) / t = d / t := by
      rw [Int.ediv_eq_iff_of_pos ht]
      constructor <;> omega
    omega
  · rename_i h
    have h0 : d % t = 0 := by simpa using h
    have : (d - 1) / t = d / t - 1 := by
      rw [Int.ediv_eq_iff_of_pos ht, Int.sub_mul]
      constructor <;> omega
    omega

theorem count_eq (r1 r2 m : Int) (hm : m ≠ 0) :
    count r1 r2 m = if r1 = r2 then 0 else ((Int.natAbs (r2 - r1) : Int) - 1) / (Int.natAbs m : Int) + 1 := by
  unfold count
  have ht : (0 : Int) < (Int.natAbs m : Int) := by omega
  have hd : (0 : Int) ≤ (Int.natAbs (r2 - r1) : Int) := by omega
  simp only [Int.ofNat_eq_natCast]
  rw [Int.tmod_eq_emod_of_nonneg hd, Int.tdiv_eq_ediv_of_nonneg hd]
  by_cases h : r1 = r2
  · subst h; simp
  · rw [if_neg h, ceil_div _ _ (by omega) ht]

end Dsp.C04
