import DspVerif.Props.C06
import DspVerif.Props.C07Gen
import DspVerif.Gen.StepsDelay
import DspVerif.Gen.CtorDelay
import DspVerif.Lib.RealFn
import DspVerif.Lib.GenBridge
/-!
# C06 — bridge: the hand-written `Delay<T>` / `HilbertFilter` models ARE the regenerated code

`Gen/StepsDelay.lean` is written by `tools/cxx2lean.py` on every check run:
* `Delay<T>::process` (include/dsplib/delay.h, `T = real_t`, `cmplx_t`) as `Gen.delay?Process`: `tmp = _buffer | x` (`arrConcat`),
  the slice-to-slice hand-over `_buffer.slice(0, nd) = tmp.slice(tmp.size() - nd, tmp.size())` (`arrSliceAssign`) and the
  returned slice `tmp.slice(0, x.size())` (`arrSlice`); whether each of the three slices is accepted is decided by the
  REGENERATED slice constructor `Gen.BaseSlice.ctor` (unit `Slice`), so the generated function is `Except`-valued;
* `HilbertFilter::process` (lib/hilbert.cpp) as `Gen.hilbertProcess`: `_d.process(s)` and `_fir.process(s)` are calls of the
  generated `Gen.delayRProcess` / `Gen.firRProcess` (unit `StepsFir`), the two loops that store `r[i].re`, `r[i].im` are
  `Gen.hilbertProcess_loop1/2`; members `_fir : FirFilter<real_t>`, `_d : DelayReal` (C++ types checked).

Proved here: `delayRProcess_eq`, `delayCProcess_eq` (every scalar type: for every buffer of length ≥ 1 and every frame the
generated `process` does not throw and is `Framing.delayProcess`), `delayRProcess_zero` (a `Delay` of length 0 throws on every
call), `hilbertProcess_eq` (ℝ: ≥ 1 tap, history of `nh - 1` samples, delay buffer ≥ 1: generated = `Framing.Hilbert.process`),
and the split laws of T06 transported to the generated code (`gen_delay_split`, `gen_delay_out`, `gen_hilbert_split`).
-/
namespace Dsp.C06Gen
open Dsp Dsp.Framing Dsp.GenBridge

set_option linter.unusedSectionVars false
set_option linter.unusedSimpArgs false
set_option linter.unusedVariables false

theorem ext_getD' {β : Type} (a b : Array β) (h1 : a.size = b.size)
    (h2 : ∀ j (h : j < a.size), a[j] = b[j]'(h1 ▸ h)) : a = b :=
  Array.ext h1 (fun j hj1 hj2 => h2 j hj1)

/-- `a.slice(0, k)` with `a` non-empty and `0 ≤ k ≤ a.size()`: accepted, denotes the first `k` elements -/
theorem arrSlice_head {β : Type} (a : Array β) (k : ℕ) (ha : 1 ≤ a.size) (hk : k ≤ a.size) :
    Gen.arrSlice a (0 : Int) (k : Int) = .ok (a.extract 0 k) := by
  unfold Gen.arrSlice Gen.BaseSlice.ctor
  simp only [Gen.arrSize, Int.ofNat_eq_natCast]
  have h0 : ¬ ¬ ((a.size : Int) ≠ (0 : Int)) := by omega
  have h1 : ¬ ¬ ((1 : Int) ≠ (0 : Int)) := by omega
  have h2 : ¬ ((0 : Int) < (0 : Int)) := by omega
  have h3 : ¬ ((k : Int) < (0 : Int)) := by omega
  have c1 : ¬ ((0 : Int) < 0 ∨ (0 : Int) ≥ (a.size : Int)) := by omega
  have c2 : ¬ ((k : Int) < 0 ∨ (k : Int) > (a.size : Int)) := by omega
  have c3 : ¬ ((1 : Int) < 0 ∧ (0 : Int) < (k : Int)) := by omega
  have c4 : ¬ ((1 : Int) > 0 ∧ (0 : Int) > (k : Int)) := by omega
  have c5 : ¬ ((k : Int) > (a.size : Int)) := by omega
  have hA : ((k : Int) - (0 : Int)).natAbs = k := by simp
  have hB : Int.natAbs (1 : Int) = 1 := rfl
  simp only [h0, h1, h2, h3, if_false, if_true, hA, hB, Nat.cast_one, Int.tmod_one, Int.tdiv_one, ne_eq, not_true_eq_false,
    c1, c2, c3, c4, c5]
  have hne : a ≠ #[] := by intro h; simp [h] at ha
  simp [hne]

/-- the hand-over of `Delay::process`: `_buffer.slice(0, nd) = tmp.slice(n - nd, n)` with `1 ≤ nd = _buffer.size() ≤ n = tmp.size()`:
neither slice is rejected, the counts agree, and the whole buffer becomes the last `nd` elements of `tmp` -/
theorem arrSliceAssign_tail {β : Type} (dst src : Array β) (hd : 1 ≤ dst.size) (hle : dst.size ≤ src.size) :
    Gen.arrSliceAssign dst (0 : Int) (dst.size : Int) src ((src.size : Int) - (dst.size : Int)) (src.size : Int) =
      .ok (src.extract (src.size - dst.size) src.size) := by
  unfold Gen.arrSliceAssign
  -- the source slice
  have hs : Gen.BaseSlice.ctor (Gen.arrSize src) ((src.size : Int) - (dst.size : Int)) (src.size : Int) (1 : Int) =
      .ok { i1 := (src.size : Int) - (dst.size : Int), i2 := (src.size : Int), m := 1, n := (src.size : Int), nc := (dst.size : Int) } := by
    unfold Gen.BaseSlice.ctor
    simp only [Gen.arrSize, Int.ofNat_eq_natCast]
    have h0 : ¬ ¬ ((src.size : Int) ≠ (0 : Int)) := by omega
    have h1 : ¬ ¬ ((1 : Int) ≠ (0 : Int)) := by omega
    have h2 : ¬ (((src.size : Int) - (dst.size : Int)) < (0 : Int)) := by omega
    have h3 : ¬ ((src.size : Int) < (0 : Int)) := by omega
    have c1 : ¬ ((src.size : Int) - (dst.size : Int) ≥ (src.size : Int)) := by omega
    have c2 : ¬ ((src.size : Int) > (src.size : Int)) := by omega
    have c3 : ¬ ((1 : Int) < 0 ∧ (src.size : Int) - (dst.size : Int) < (src.size : Int)) := by omega
    have c4 : ¬ ((1 : Int) > 0 ∧ (src.size : Int) - (dst.size : Int) > (src.size : Int)) := by omega
    have c5 : ¬ ((dst.size : Int) > (src.size : Int)) := by omega
    have hA : ((src.size : Int) - ((src.size : Int) - (dst.size : Int))).natAbs = dst.size := by
      have : ((src.size : Int) - ((src.size : Int) - (dst.size : Int))) = (dst.size : Int) := by ring
      rw [this]; simp
    have hB : Int.natAbs (1 : Int) = 1 := rfl
    simp only [h0, h1, h2, h3, if_false, if_true, hA, hB, Nat.cast_one, Int.tmod_one, Int.tdiv_one, ne_eq, not_true_eq_false,
      false_or, c1, c2, c3, c4, c5]
  have hdst : Gen.BaseSlice.ctor (Gen.arrSize dst) (0 : Int) (dst.size : Int) (1 : Int) =
      .ok { i1 := 0, i2 := (dst.size : Int), m := 1, n := (dst.size : Int), nc := (dst.size : Int) } := by
    unfold Gen.BaseSlice.ctor
    simp only [Gen.arrSize, Int.ofNat_eq_natCast]
    have h0 : ¬ ¬ ((dst.size : Int) ≠ (0 : Int)) := by omega
    have h1 : ¬ ¬ ((1 : Int) ≠ (0 : Int)) := by omega
    have h2 : ¬ ((0 : Int) < (0 : Int)) := by omega
    have h3 : ¬ ((dst.size : Int) < (0 : Int)) := by omega
    have c1 : ¬ ((0 : Int) ≥ (dst.size : Int)) := by omega
    have c2 : ¬ ((dst.size : Int) > (dst.size : Int)) := by omega
    have c3 : ¬ ((1 : Int) < 0 ∧ (0 : Int) < (dst.size : Int)) := by omega
    have c4 : ¬ ((1 : Int) > 0 ∧ (0 : Int) > (dst.size : Int)) := by omega
    have hA : ((dst.size : Int) - (0 : Int)).natAbs = dst.size := by simp
    have hB : Int.natAbs (1 : Int) = 1 := rfl
    simp only [h0, h1, h2, h3, if_false, if_true, hA, hB, Nat.cast_one, Int.tmod_one, Int.tdiv_one, ne_eq, not_true_eq_false,
      false_or, and_false, c1, c2, c3, c4]
  rw [hs]
  simp only
  rw [hdst]
  simp only [ne_eq, not_true_eq_false, if_false]
  congr 1
  apply Array.ext
  · simp only [Array.size_ofFn, Array.size_extract]; omega
  · intro j hj1 hj2
    simp only [Array.size_ofFn] at hj1
    simp only [Array.getElem_ofFn, Int.ofNat_eq_natCast, Array.getElem_extract]
    have hc : (0 : Int) ≤ (j : Int) ∧ (j : Int) < 0 + (dst.size : Int) := by omega
    rw [if_pos hc]
    have hi : ((j : Int) - 0 + ((src.size : Int) - (dst.size : Int))).toNat = src.size - dst.size + j := by omega
    rw [hi]
    simp [Array.getD_eq_getD_getElem?, show src.size - dst.size + j < src.size by omega]

/-! ## `Delay<T>::process` -/

/-- **bridge, `Delay<real_t>::process`, one call.**  For every buffer of length `nd ≥ 1` and every frame (the empty one
included) the generated `process` — `_buffer | x`, the slice-to-slice hand-over, the returned slice; acceptance of all three
slices decided by the REGENERATED slice constructor — does not throw and is the model's `delayProcess`. -/
theorem delayRProcess_eq {α : Type} [Add α] [Sub α] [Mul α] [Div α] [Neg α] [LT α] [LE α] [Fn α]
    [DecidableRel (· < · : α → α → Prop)] [DecidableRel (· ≤ · : α → α → Prop)]
    (buf x : Array α) (hb : 1 ≤ buf.size) :
    Gen.delayRProcess ⟨buf⟩ x = .ok (⟨(delayProcess buf x).1⟩, (delayProcess buf x).2) := by
  unfold Gen.delayRProcess delayProcess
  simp only [Gen.arrConcat, Gen.arrSize, Int.ofNat_eq_natCast]
  have h1 := arrSliceAssign_tail buf (buf ++ x) hb (by simp)
  rw [h1]
  simp only
  have h2 := arrSlice_head (buf ++ x) x.size (by simp; omega) (by simp)
  rw [h2]

theorem delayCProcess_eq {α : Type} [Add α] [Sub α] [Mul α] [Div α] [Neg α] [LT α] [LE α] [Fn α]
    [DecidableRel (· < · : α → α → Prop)] [DecidableRel (· ≤ · : α → α → Prop)]
    (buf x : Array (Cx α)) (hb : 1 ≤ buf.size) :
    Gen.delayCProcess ⟨buf⟩ x = .ok (⟨(delayProcess buf x).1⟩, (delayProcess buf x).2) := by
  unfold Gen.delayCProcess delayProcess
  simp only [Gen.arrConcat, Gen.arrSize, Int.ofNat_eq_natCast]
  have h1 := arrSliceAssign_tail buf (buf ++ x) hb (by simp)
  rw [h1]
  simp only
  have h2 := arrSlice_head (buf ++ x) x.size (by simp; omega) (by simp)
  rw [h2]

/-- a `Delay` of length 0 cannot be used: the first slice constructed, `tmp.slice(tmp.size(), tmp.size())`, is rejected on
every call ("Slicing from an empty array" for an empty frame, "Left slice index out of range" otherwise) -/
theorem delayRProcess_zero {α : Type} [Add α] [Sub α] [Mul α] [Div α] [Neg α] [LT α] [LE α] [Fn α]
    [DecidableRel (· < · : α → α → Prop)] [DecidableRel (· ≤ · : α → α → Prop)] (x : Array α) :
    Gen.delayRProcess ⟨#[]⟩ x =
      .error (if x.size = 0 then "Slicing from an empty array" else "Left slice index out of range") := by
  unfold Gen.delayRProcess Gen.arrSliceAssign Gen.BaseSlice.ctor
  simp only [Gen.arrConcat, Gen.arrSize, Int.ofNat_eq_natCast, Array.empty_append]
  by_cases hx : x.size = 0
  · simp [hx]
  · have h2 : ¬ ((x.size : Int) < 0) := by omega
    simp [hx, h2]

/-! ## `HilbertFilter::process` -/

noncomputable section

/-- the generated state of the model's `HilbertFilter` state -/
def toGenH (s : Hilbert ℝ) : Gen.HilbertFilterState ℝ := ⟨⟨s.fir.h, s.fir.d⟩, ⟨s.d⟩⟩

theorem fill_re_im (re im : Array ℝ) (n : ℕ) (hre : re.size = n) (him : im.size = n) :
    (List.range n).foldl (Gen.hilbertProcess_loop2 im)
        ((List.range n).foldl (Gen.hilbertProcess_loop1 re) (Gen.arrNew Gen.zeroC (n : Int))) =
      Array.zipWith (fun a b => (⟨a, b⟩ : Cx ℝ)) re im := by
  have h1 : (fun (r : Array (Cx ℝ)) (i : ℕ) => Gen.hilbertProcess_loop1 re r i) =
      fun r i => r.setIfInBounds i ((fun (v : Cx ℝ) i => { v with re := re.getD i 0 }) (r.getD i Gen.zeroC) i) := by
    funext r i
    simp only [Gen.hilbertProcess_loop1, Int.ofNat_eq_natCast, arrGet_natCast, arrSet_natCast, Gen.zeroR, fn_ofInt, Int.cast_zero]
  have h2 : (fun (r : Array (Cx ℝ)) (i : ℕ) => Gen.hilbertProcess_loop2 im r i) =
      fun r i => r.setIfInBounds i ((fun (v : Cx ℝ) i => { v with im := im.getD i 0 }) (r.getD i Gen.zeroC) i) := by
    funext r i
    simp only [Gen.hilbertProcess_loop2, Int.ofNat_eq_natCast, arrGet_natCast, arrSet_natCast, Gen.zeroR, fn_ofInt, Int.cast_zero]
  have k1 := foldl_set_eq_ofFn (Gen.zeroC : Cx ℝ) (fun (v : Cx ℝ) i => { v with re := re.getD i 0 }) n
    (Gen.arrNew Gen.zeroC (n : Int)) (by simp [Gen.arrNew])
  rw [show Gen.hilbertProcess_loop1 re = fun r i => Gen.hilbertProcess_loop1 re r i from rfl, h1, k1]
  have k2 := foldl_set_eq_ofFn (Gen.zeroC : Cx ℝ) (fun (v : Cx ℝ) i => { v with im := im.getD i 0 }) n
    (Array.ofFn (n := n) fun i => ({ (Gen.arrNew Gen.zeroC (n : Int)).getD i.val Gen.zeroC with re := re.getD i.val 0 } : Cx ℝ)) (by simp)
  rw [show Gen.hilbertProcess_loop2 im = fun r i => Gen.hilbertProcess_loop2 im r i from rfl, h2, k2]
  apply Array.ext
  · simp [hre, him]
  · intro j hj1 hj2
    simp only [Array.size_ofFn] at hj1
    simp [getD_ofFn, hj1, Array.getD_eq_getD_getElem?, hre, him]

/-- **bridge, `HilbertFilter::process`, one call.**  For every filter state with at least one tap (history of `nh - 1`
samples) and a delay buffer of at least one sample, and every frame: the generated `process` — the generated
`Delay<real_t>::process` for the real parts, the generated `FirFilter<real_t>::process` for the imaginary parts, the two
loops that fill `r[i].re`, `r[i].im` — does not throw and is the model's `Hilbert.process`. -/
theorem hilbertProcess_eq (s : Hilbert ℝ) (x : Array ℝ) (hf : 1 ≤ s.fir.h.size) (hd : s.fir.d.size = s.fir.h.size - 1)
    (hb : 1 ≤ s.d.size) :
    Gen.hilbertProcess (toGenH s) x = .ok (toGenH (s.process x).1, (s.process x).2) := by
  unfold Gen.hilbertProcess toGenH
  simp only
  rw [delayRProcess_eq s.d x hb]
  simp only
  have hfir := C07Gen.firRProcess_eq s.fir x hd
  unfold C07Gen.toGenR at hfir
  rw [hfir]
  simp only [Gen.arrSize, Int.ofNat_eq_natCast, Int.toNat_natCast]
  have hre : (delayProcess s.d x).2.size = x.size := C06.delay_out_size s.d x
  have him : (Fir.process (0 : ℝ) id s.fir x).2.size = x.size := by
    simp only [Fir.process, Fir.conv, Array.size_ofFn, Array.size_append, hd]; omega
  rw [fill_re_im _ _ x.size hre him]
  simp only [Hilbert.process, Fir.firProcessR, Cx.zeroR_eq]

/-- **T06 (Delay, split law) transported to the regenerated code:** two successive generated calls give the state and the
concatenated outputs of one generated call on the concatenated frame -/
theorem gen_delay_split (buf a b : Array ℝ) (hb : 1 ≤ buf.size) :
    (Gen.delayRProcess ⟨buf⟩ a).bind (fun r => (Gen.delayRProcess r.1 b).map (fun q => (q.1, r.2 ++ q.2))) =
      Gen.delayRProcess ⟨buf⟩ (a ++ b) := by
  rw [delayRProcess_eq buf a hb, delayRProcess_eq buf (a ++ b) hb]
  have hb' : 1 ≤ (delayProcess buf a).1.size := by
    simp only [delayProcess, Array.size_extract, Array.size_append]; omega
  simp only [Except.bind]
  rw [delayRProcess_eq _ b hb', C06.delay_split]
  rfl

/-- the output of the generated `Delay<real_t>::process` is the input delayed by `nd` samples: `y[i] = (buffer | x)[i]` -/
theorem gen_delay_out (buf x : Array ℝ) (hb : 1 ≤ buf.size) :
    ∃ st y, Gen.delayRProcess ⟨buf⟩ x = .ok (st, y) ∧ y.size = x.size ∧ ∀ i, i < x.size → y[i]? = (buf ++ x)[i]? := by
  refine ⟨_, _, delayRProcess_eq buf x hb, C06.delay_out_size buf x, fun i hi => ?_⟩
  rw [C06.delay_out_getElem?, if_pos hi]

/-- **T06 (HilbertFilter, split law) transported** -/
theorem gen_hilbert_split (s : Hilbert ℝ) (a b : Array ℝ) (hf : 1 ≤ s.fir.h.size) (hd : s.fir.d.size = s.fir.h.size - 1)
    (hb : 1 ≤ s.d.size) :
    (Gen.hilbertProcess (toGenH s) a).bind (fun r => (Gen.hilbertProcess r.1 b).map (fun q => (q.1, r.2 ++ q.2))) =
      Gen.hilbertProcess (toGenH s) (a ++ b) := by
  rw [hilbertProcess_eq s a hf hd hb, hilbertProcess_eq s (a ++ b) hf hd hb]
  have hinv : C06.FirInv s.fir := ⟨by omega, hd⟩
  have hf' : 1 ≤ (s.process a).1.fir.h.size := by simpa [Hilbert.process, Fir.firProcessR, Fir.process] using hf
  have hd' : (s.process a).1.fir.d.size = (s.process a).1.fir.h.size - 1 := (C06.hilbert_inv_step s a hinv).2
  have hb' : 1 ≤ (s.process a).1.d.size := by
    simp only [Hilbert.process, delayProcess, Array.size_extract, Array.size_append]; omega
  simp only [Except.bind]
  rw [hilbertProcess_eq _ b hf' hd' hb', C06.hilbert_split s a b hinv]
  rfl

/-- non-vacuity: the state `HilbertFilter(h)` constructs for 51 taps satisfies the hypotheses (`_d{h.size() / 2}`) -/
example (h : Array ℝ) (hh : h.size = 51) :
    1 ≤ (Hilbert.init h).fir.h.size ∧ (Hilbert.init h).fir.d.size = (Hilbert.init h).fir.h.size - 1 ∧ 1 ≤ (Hilbert.init h).d.size := by
  simp [Hilbert.init, Fir.firInitR, Fir.init, hh]

end

/-! BEGIN steps3 constructors -/
/-! ## Constructors (regenerated: `Gen/CtorDelay.lean`, `Gen/CtorFir.lean`): the states the framing theorems start from -/

noncomputable section

/-- `Delay<real_t>(int length)`, `length ≥ 0`: the zero-filled buffer of `length` cells (`Model/Framing` keeps a delay as its buffer) -/
theorem delayRCtorLen_buf (n : ℕ) : (Gen.delayRCtorLen (n : Int) : Gen.DelayRState ℝ).buffer = Array.replicate n 0 := by
  simp [Gen.delayRCtorLen, Gen.arrNew, Gen.zeroR]

/-- `Delay<real_t>(const arr_real& initial)`: the given contents -/
theorem delayRCtorInit_buf (a : Array ℝ) : (Gen.delayRCtorInit a : Gen.DelayRState ℝ).buffer = a := rfl

theorem delayCCtorLen_buf (n : ℕ) : (Gen.delayCCtorLen (n : Int) : Gen.DelayCState ℝ).buffer = Array.replicate n 0 := by
  simp [Gen.delayCCtorLen, Gen.arrNew, C07Gen.gzeroC_eq]

theorem delayCCtorInit_buf (a : Array (Cx ℝ)) : (Gen.delayCCtorInit a : Gen.DelayCState ℝ).buffer = a := rfl

/-- **bridge, `HilbertFilter(const arr_real& h)`, whatever `firtype` is:** an accepted tap vector leaves the model's `Hilbert.init h` -/
theorem hilbertCtorTaps_ok (firtype : Array ℝ → Int) (h : Array ℝ) (o : Gen.HilbertFilterState ℝ)
    (ho : Gen.hilbertCtorTaps firtype h = .ok o) : o = toGenH (Hilbert.init h) := by
  unfold Gen.hilbertCtorTaps at ho
  split_ifs at ho
  injection ho with ho
  rw [← ho]
  have hd : (Int.tdiv (h.size : Int) 2) = ((h.size / 2 : ℕ) : Int) := by
    rw [Int.tdiv_eq_ediv_of_nonneg (by omega)]; simp
  simp only [toGenH, Hilbert.init, C07Gen.firRCtor_eq, C07Gen.toGenR, Gen.arrSize, Int.ofNat_eq_natCast, hd, Gen.delayRCtorLen,
    Gen.arrNew, Int.toNat_natCast]
  simp [Fir.firInitR, Cx.zeroR_eq, Gen.zeroR]

/-- framing from the GENERATED constructor: for an accepted tap vector with at least 3 taps, two successive generated `process`
calls on frames `a`, `b` give the same outputs as one call on `a ++ b` -/
theorem gen_hilbert_split_from_ctor (firtype : Array ℝ → Int) (h : Array ℝ) (hh : 3 ≤ h.size) (o : Gen.HilbertFilterState ℝ)
    (ho : Gen.hilbertCtorTaps firtype h = .ok o) (a b : Array ℝ) :
    (Gen.hilbertProcess o a).bind (fun r => (Gen.hilbertProcess r.1 b).map (fun q => (q.1, r.2 ++ q.2))) =
      Gen.hilbertProcess o (a ++ b) := by
  rw [hilbertCtorTaps_ok firtype h o ho]
  exact gen_hilbert_split (Hilbert.init h) a b (by simp [Hilbert.init, Fir.firInitR, Fir.init]; omega)
    (by simp [Hilbert.init, Fir.firInitR, Fir.init]) (by simp [Hilbert.init]; omega)

end
/-! END steps3 constructors -/

end Dsp.C06Gen
