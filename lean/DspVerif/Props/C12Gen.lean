import DspVerif.Props.C12
import DspVerif.Props.C12More
import DspVerif.Gen.StepsAdaptive
import DspVerif.Gen.CtorAdaptive
import DspVerif.Lib.GenBridge
/-!
# C12 — bridge: the hand-written LMS / NLMS model IS the regenerated sample loop of `LmsFilter<T>::process`

`Gen/StepsAdaptive.lean` is written by `tools/cxx2lean.py` on every check run from the C++ AST of `include/dsplib/lms.h`
(both instantiations, `T = real_t` and `T = cmplx_t`): the body of the sample loop `for (int k = 0; k < nx; k++)` as
`Gen.lmsRStep` / `Gen.lmsCStep`, its four inner loops over the taps as `Gen.lms?Step_loop1 … 4` (one iteration each, folded
over `List.range _len`), the members read (`_mu _len _locked _method _lk`, C++ types checked) and written (`_w`).
The statements of `process` in front of and behind that loop (`tu = _u | x`, `tu2 = abs2(tu)` for NLMS, `_u = tu.slice(…)`,
the size guard, `return {y, e}`) are NOT translated: they are pinned by an AST digest in the translator (any change makes
the GEN obligation fail) and remain modelled by hand in `lmsProcess`, tied by the correspondence run.

This file proves that `lmsIter` of `Model/Adaptive.lean` (`lmsOut`, `lmsUpd`) — about which T12.1 / T12.2 of
`Props/C12.lean` are stated — equals the generated loop body, for EVERY parameter record, lock flag, coefficient vector of
length `_len`, working buffer and sample index (`lmsRStep_eq`, `lmsCStep_eq`); that `lmsProcess` is the (hand-modelled)
preamble followed by the generated loop body folded over `k = 0 … nx-1` (`lmsProcess_genR/C`); and transports the error
clause of T12.1 and the locked clause of T12.2 to that generated run.

`RlsFilter<T>::process` (second half of this file) is regenerated as well (both instantiations): the body of its sample loop
as `Gen.rlsRStep` / `Gen.rlsCStep` with the eight inner loops over the flat `_p[i * _n + k]` matrix, `std::memmove` on the
delay line and `std::fill` on the working arrays as the documented array primitives of `Gen/StepsArray.lean`
(`arrMove`, `arrFill`, index arithmetic explicit), `dot` of lib/math.cpp translated (`Gen.dotRR` / `Gen.dotCC`, with its
throwing guard as `Gen.dot??Throws`), `Pu / (_mu + dot(uTP, _u))` as `arrDivRR` / `arrDivCC`.  The working arrays
`g, Pu, uTP, guP` are declared in FRONT of the sample loop, i.e. they are loop-carried: they are fields of the generated
state (no "rewritten before read" guess), `Gen.rls?Enter` (generated from their declarations) gives their values at loop
entry, and the bridge proves that the members and outputs do not depend on what they held (`rlsRStep_eq`, `rlsCStep_eq`:
generated body = `rlsStep` of `Model/Adaptive.lean` for every length, forgetting factor, lock flag and state of the right
sizes; `rlsProcess_genR/C`: the model of `process` = pinned size guard + generated loop).  T12.4 (`rls_is_wls`: the real RLS
coefficients are THE minimiser of the exponentially weighted, regularised least-squares cost) and the locked clause of T12.2
are transported to the generated run (`rls_gen_is_wls`, `rlsR_gen_locked`, `rlsC_gen_locked`).
-/
namespace Dsp.C12Gen
open Dsp Dsp.Adaptive Dsp.Adaptive.Mixed Matrix

set_option linter.unusedSectionVars false
set_option linter.unusedSimpArgs false

/-! ## list / array lemmas -/

theorem acc_eq_foldl {β : Type} [Add β] (z : β) (n : Nat) (f : Nat → β) :
    acc z n f = (List.range n).foldl (fun a i => a + f i) z := by
  induction n with
  | zero => rfl
  | succ n ih => simp [acc, ih, List.range_succ]

theorem getD_setIfInBounds {β : Type} (a : Array β) (i j : Nat) (v d : β) :
    (a.setIfInBounds i v).getD j d = if i = j ∧ i < a.size then v else a.getD j d := by
  simp only [Array.getD_eq_getD_getElem?, Array.getElem?_setIfInBounds]
  by_cases h : i = j
  · subst h
    by_cases h2 : i < a.size
    · simp [h2]
    · simp [h2]
  · simp [h]

theorem foldl_set_inv {β : Type} (d : β) (F : β → Nat → β) (n : Nat) (w : Array β) (hw : w.size = n) :
    ∀ m, m ≤ n →
      ((List.range m).foldl (fun (a : Array β) i => a.setIfInBounds i (F (a.getD i d) i)) w).size = n ∧
      ∀ j, ((List.range m).foldl (fun (a : Array β) i => a.setIfInBounds i (F (a.getD i d) i)) w).getD j d =
        if j < m then F (w.getD j d) j else w.getD j d := by
  intro m
  induction m with
  | zero => intro _; simp [hw]
  | succ m ih =>
    intro hm
    obtain ⟨h1, h2⟩ := ih (by omega)
    rw [List.range_succ, List.foldl_append]
    simp only [List.foldl_cons, List.foldl_nil]
    refine ⟨by rw [Array.size_setIfInBounds]; exact h1, fun j => ?_⟩
    rw [getD_setIfInBounds, h2 m, h1]
    by_cases hj : m = j
    · subst hj
      simp; omega
    · rw [if_neg (by tauto), h2 j]
      by_cases hjm : j < m
      · simp [hjm]; omega
      · have : ¬ j < m + 1 := by omega
        simp [hjm, this]

theorem foldl_set_eq_ofFn {β : Type} (d : β) (F : β → Nat → β) (n : Nat) (w : Array β) (hw : w.size = n) :
    (List.range n).foldl (fun (a : Array β) i => a.setIfInBounds i (F (a.getD i d) i)) w =
      Array.ofFn (n := n) fun i => F (w.getD i.val d) i.val := by
  obtain ⟨h1, h2⟩ := foldl_set_inv d F n w hw n (le_refl n)
  apply Array.ext
  · rw [h1, Array.size_ofFn]
  · intro i hi1 hi2
    have h3 := h2 i
    rw [Array.size_ofFn] at hi2
    rw [if_pos hi2, Array.getD_eq_getD_getElem?, Array.getElem?_eq_getElem hi1, Option.getD_some] at h3
    rw [h3, Array.getElem_ofFn]


theorem arrGet_natCast {β : Type} (d : β) (a : Array β) (k : ℕ) : Gen.arrGet d a (k : Int) = a.getD k d := by
  simp [Gen.arrGet, Gen.arrIdx]

theorem arrSet_natCast {β : Type} (a : Array β) (k : ℕ) (v : β) : Gen.arrSet a (k : Int) v = a.setIfInBounds k v := by
  simp [Gen.arrSet, Gen.arrIdx]

theorem foldl_mk {S A ι : Type} (mk : A → S) (step : S → ι → S) (G : A → ι → A)
    (h : ∀ a i, step (mk a) i = mk (G a i)) : ∀ (l : List ι) (a : A), l.foldl step (mk a) = mk (l.foldl G a) := by
  intro l
  induction l with
  | nil => intro a; rfl
  | cons x l ih => intro a; simp only [List.foldl_cons, h, ih]

noncomputable section

/-- the members the generated loop body reads, from the model's parameter record and the lock flag -/
def toGenR (p : LmsP ℝ) (locked : Bool) : Gen.LmsFilterRStepParams ℝ :=
  { mu := p.mu, len := (p.len : Int), locked := locked,
    method := if p.nlms then Gen.LmsType_NLMS else Gen.LmsType_LMS, lk := p.lk }

theorem zero_real : (Mixed.zero ℝ : ℝ) = 0 := by simp [Mixed.zero]

/-- inner loop 1 (`y[k] += _w[i] * tu[i + k]`) -/
theorem lmsR_loop1 (w tu : Array ℝ) (k : ℕ) (y : ℝ) (i : ℕ) :
    Gen.lmsRStep_loop1 ⟨w⟩ tu (k : Int) y i = y + rd (ρ := ℝ) w i * rd (ρ := ℝ) tu (i + k) := by
  simp only [Gen.lmsRStep_loop1, Gen.zeroR, Int.ofNat_eq_natCast, ← Nat.cast_add, arrGet_natCast, rd, zero_real, fn_ofInt,
    Int.cast_zero]

theorem lmsR_out (p : LmsP ℝ) (locked : Bool) (w tu : Array ℝ) (k : ℕ) :
    (List.range (Int.toNat (toGenR p locked).len)).foldl (Gen.lmsRStep_loop1 ⟨w⟩ tu (k : Int)) Gen.zeroR
      = lmsOut (ρ := ℝ) p.len w tu k := by
  unfold lmsOut
  rw [acc_eq_foldl]
  have : (fun (a : ℝ) (i : ℕ) => Gen.lmsRStep_loop1 ⟨w⟩ tu (k : Int) a i) =
      fun a i => a + rd (ρ := ℝ) w i * rd (ρ := ℝ) tu (i + k) := by
    funext a i; exact lmsR_loop1 w tu k a i
  simp only [toGenR, Int.toNat_natCast, Gen.zeroR, zero_real, fn_ofInt, Int.cast_zero]
  exact congrArg (fun f => List.foldl f (0 : ℝ) (List.range p.len)) this


/-- the new coefficient `i` of the LMS update, as the model writes it -/
def updLms (p : LmsP ℝ) (tu : Array ℝ) (k : ℕ) (e : ℝ) (v : ℝ) (i : ℕ) : ℝ :=
  mulr v p.lk + rmul p.mu e * conj ℝ (rd (ρ := ℝ) tu (i + k))

/-- … and of the NLMS update -/
def updNlms (p : LmsP ℝ) (tu : Array ℝ) (k : ℕ) (e norm : ℝ) (v : ℝ) (i : ℕ) : ℝ :=
  mulr v p.lk + divr (rmul p.mu e * conj ℝ (rd (ρ := ℝ) tu (i + k))) norm

/-- inner loop 2 (`_w[i] = _w[i] * _lk + _mu * e[k] * conj(tu[i + k])`) -/
theorem lmsR_loop2 (p : LmsP ℝ) (locked : Bool) (tu : Array ℝ) (k : ℕ) (e : ℝ) (w : Array ℝ) (i : ℕ) :
    Gen.lmsRStep_loop2 (toGenR p locked) e tu (k : Int) ⟨w⟩ i =
      ⟨w.setIfInBounds i (updLms p tu k e (w.getD i 0) i)⟩ := by
  simp only [Gen.lmsRStep_loop2, Gen.zeroR, Gen.conjr, Int.ofNat_eq_natCast, ← Nat.cast_add, arrGet_natCast, arrSet_natCast,
    updLms, rd, zero_real, fn_ofInt, Int.cast_zero, toGenR, Mixed.mulr, Mixed.rmul, Mixed.conj]

/-- inner loop 3 (`pu += tu2[i + k]`) -/
theorem lmsR_loop3 (tu2 : Array ℝ) (k : ℕ) (pu : ℝ) (i : ℕ) :
    Gen.lmsRStep_loop3 tu2 (k : Int) pu i = pu + tu2.getD (i + k) 0 := by
  simp only [Gen.lmsRStep_loop3, Gen.zeroR, Int.ofNat_eq_natCast, ← Nat.cast_add, arrGet_natCast, fn_ofInt, Int.cast_zero]

/-- inner loop 4 (the NLMS coefficient update) -/
theorem lmsR_loop4 (p : LmsP ℝ) (locked : Bool) (tu : Array ℝ) (k : ℕ) (e norm : ℝ) (w : Array ℝ) (i : ℕ) :
    Gen.lmsRStep_loop4 (toGenR p locked) e tu (k : Int) norm ⟨w⟩ i =
      ⟨w.setIfInBounds i (updNlms p tu k e norm (w.getD i 0) i)⟩ := by
  simp only [Gen.lmsRStep_loop4, Gen.zeroR, Gen.conjr, Int.ofNat_eq_natCast, ← Nat.cast_add, arrGet_natCast, arrSet_natCast,
    updNlms, rd, zero_real, fn_ofInt, Int.cast_zero, toGenR, Mixed.mulr, Mixed.rmul, Mixed.conj, Mixed.divr]

/-- **bridge, `LmsFilter<real_t>::process`, one sample.**  For every parameter record, lock flag, coefficient vector of
the right length, working buffers and sample index: the generated loop body returns the model's `y[k]`, `e[k]` and
coefficient update (`lmsIter`).  `tu2` is what the pinned statement in front of the loop makes it: `abs2(tu)` for NLMS. -/
theorem lmsRStep_eq (p : LmsP ℝ) (locked : Bool) (w tu tu2 d : Array ℝ) (k : ℕ) (hw : w.size = p.len)
    (htu2 : p.nlms = true → ∀ j, tu2.getD j 0 = Mixed.abs2 (rd (ρ := ℝ) tu j)) :
    Gen.lmsRStep eps (toGenR p locked) ⟨w⟩ d tu tu2 k =
      (⟨(lmsIter p locked tu d (w, #[], #[]) k).1⟩, lmsOut (ρ := ℝ) p.len w tu k,
        rd (ρ := ℝ) d k - lmsOut (ρ := ℝ) p.len w tu k) := by
  have hy := lmsR_out p locked w tu k
  unfold Gen.lmsRStep
  simp only [hy]
  have hd : Gen.arrGet Gen.zeroR d (k : Int) = rd (ρ := ℝ) d k := by
    simp only [arrGet_natCast, Gen.zeroR, rd, zero_real, fn_ofInt, Int.cast_zero]
  simp only [hd, lmsIter]
  have hlen : ∀ b, (toGenR p b).len.toNat = p.len := fun b => by simp [toGenR]
  cases locked with
  | true => simp [toGenR]
  | false =>
    have hl : ((toGenR p false).locked = true) = False := by simp [toGenR]
    have hne : ¬ (Gen.LmsType_NLMS = Gen.LmsType_LMS) := by decide
    have hne' : ¬ (Gen.LmsType_LMS = Gen.LmsType_NLMS) := by decide
    simp only [hl, if_false, Bool.false_eq_true, hlen]
    cases hn : p.nlms with
    | false =>
      have hm : (toGenR p false).method = Gen.LmsType_LMS := by simp [toGenR, hn]
      simp only [hm, if_true]
      rw [foldl_mk Gen.LmsFilterRStepState.mk _ _ (fun a i => lmsR_loop2 p false tu k _ a i),
        foldl_set_eq_ofFn (0 : ℝ) _ p.len w hw]
      simp [lmsUpd, hn, updLms, rd, zero_real]
    | true =>
      have hm2 : (toGenR p false).method = Gen.LmsType_NLMS := by simp [toGenR, hn]
      simp only [hm2, hne, hne', if_true, if_false]
      have hpu : (List.range p.len).foldl (Gen.lmsRStep_loop3 tu2 (k : Int)) (Fn.ofInt (0 : Int)) =
          acc (Fn.ofNat 0) p.len fun i => Mixed.abs2 (rd (ρ := ℝ) tu (i + k)) := by
        rw [acc_eq_foldl]
        have : (fun (a : ℝ) (i : ℕ) => Gen.lmsRStep_loop3 tu2 (k : Int) a i) =
            fun a i => a + Mixed.abs2 (rd (ρ := ℝ) tu (i + k)) := by
          funext a i; rw [lmsR_loop3, htu2 hn]
        simp only [fn_ofInt, fn_ofNat, Int.cast_zero, Nat.cast_zero]
        exact congrArg (fun f => List.foldl f (0 : ℝ) (List.range p.len)) this
      rw [hpu, foldl_mk Gen.LmsFilterRStepState.mk _ _ (fun a i => lmsR_loop4 p false tu k _ _ a i),
        foldl_set_eq_ofFn (0 : ℝ) _ p.len w hw]
      simp [lmsUpd, hn, updNlms, rd, zero_real]


end

/-! ## the sample loop: the generated body folded over `k = 0 … nx-1` -/

section fold
variable {σ τ' ι A B : Type}

/-- one iteration on the accumulator (members, `y` so far, `e` so far) -/
def pushStep (f : σ → ι → σ × A × B) (acc : σ × Array A × Array B) (k : ι) : σ × Array A × Array B :=
  ((f acc.1 k).1, acc.2.1.push (f acc.1 k).2.1, acc.2.2.push (f acc.1 k).2.2)

/-- `for (int k = 0; k < nx; k++) BODY` with `BODY = f` -/
def runIdx (f : σ → Nat → σ × A × B) (s : σ) (nx : Nat) : σ × Array A × Array B :=
  (List.range nx).foldl (pushStep f) (s, #[], #[])

theorem foldl_pushStep_map_inv (f : σ → ι → σ × A × B) (g : τ' → ι → τ' × A × B) (φ : τ' → σ) (I : τ' → Prop)
    (hI : ∀ t k, I t → I (g t k).1) (h : ∀ t k, I t → f (φ t) k = (φ (g t k).1, (g t k).2)) :
    ∀ (l : List ι) (t : τ') (ya : Array A) (ea : Array B), I t →
      l.foldl (pushStep f) (φ t, ya, ea) =
        (φ (l.foldl (pushStep g) (t, ya, ea)).1, (l.foldl (pushStep g) (t, ya, ea)).2) := by
  intro l
  induction l with
  | nil => intro t ya ea _; rfl
  | cons a l ih =>
    intro t ya ea ht
    simp only [List.foldl_cons]
    have e : pushStep f (φ t, ya, ea) a = (φ (pushStep g (t, ya, ea) a).1, (pushStep g (t, ya, ea) a).2) := by
      simp only [pushStep, h t a ht]
    rw [e]
    exact ih _ _ _ (hI t a ht)

end fold

/-- the model's loop iteration without the output arrays: new `_w`, `y[k]`, `e[k]` -/
def lmsStepM {ρ τ : Type} [Add ρ] [Div ρ] [Fn ρ] [Add τ] [Sub τ] [Mul τ] [Div τ] [Mixed ρ τ]
    (p : LmsP ρ) (locked : Bool) (tu d : Array τ) (w : Array τ) (k : Nat) : Array τ × τ × τ :=
  ((lmsIter p locked tu d (w, #[], #[]) k).1, lmsOut (ρ := ρ) p.len w tu k,
    rd (ρ := ρ) d k - lmsOut (ρ := ρ) p.len w tu k)

theorem lmsIter_eq_pushStep {ρ τ : Type} [Add ρ] [Div ρ] [Fn ρ] [Add τ] [Sub τ] [Mul τ] [Div τ] [Mixed ρ τ]
    (p : LmsP ρ) (locked : Bool) (tu d : Array τ) :
    lmsIter p locked tu d = pushStep (lmsStepM p locked tu d) := rfl

theorem lmsStepM_size {ρ τ : Type} [Add ρ] [Div ρ] [Fn ρ] [Add τ] [Sub τ] [Mul τ] [Div τ] [Mixed ρ τ]
    (p : LmsP ρ) (locked : Bool) (tu d : Array τ) (w : Array τ) (k : Nat) (hw : w.size = p.len) :
    (lmsStepM p locked tu d w k).1.size = p.len := by
  simp only [lmsStepM, lmsIter]
  split
  · exact hw
  · exact C12.lmsUpd_size p w tu k _

noncomputable section

/-- the generated loop body as a function of the members written and the sample index -/
def genStepR (p : LmsP ℝ) (locked : Bool) (tu tu2 d : Array ℝ) (s : Gen.LmsFilterRStepState ℝ) (k : Nat) :
    Gen.LmsFilterRStepState ℝ × ℝ × ℝ :=
  Gen.lmsRStep eps (toGenR p locked) s d tu tu2 (k : Int)

/-- **whole call, real:** the generated loop body folded over the sample indices is the model's loop -/
theorem lmsR_run_eq (p : LmsP ℝ) (locked : Bool) (w tu tu2 d : Array ℝ) (nx : ℕ) (hw : w.size = p.len)
    (htu2 : p.nlms = true → ∀ j, tu2.getD j 0 = Mixed.abs2 (rd (ρ := ℝ) tu j)) :
    runIdx (genStepR p locked tu tu2 d) ⟨w⟩ nx =
      (⟨((List.range nx).foldl (lmsIter p locked tu d) (w, #[], #[])).1⟩,
        ((List.range nx).foldl (lmsIter p locked tu d) (w, #[], #[])).2) := by
  rw [lmsIter_eq_pushStep]
  exact foldl_pushStep_map_inv (genStepR p locked tu tu2 d) (lmsStepM p locked tu d) Gen.LmsFilterRStepState.mk
    (fun w => w.size = p.len) (fun w k h => lmsStepM_size p locked tu d w k h)
    (fun w k h => lmsRStep_eq p locked w tu tu2 d k h htu2) _ w #[] #[] hw

/-- `tu2 = abs2(tu)` (element-wise) satisfies the hypothesis on `tu2` -/
theorem abs2_map_getD (tu : Array ℝ) (j : ℕ) :
    (tu.map (fun v => v * v)).getD j 0 = Mixed.abs2 (rd (ρ := ℝ) tu j) := by
  simp only [rd, zero_real, Mixed.abs2, Array.getD_eq_getD_getElem?, Array.getElem?_map]
  cases tu[j]? <;> simp

/-- **`lmsProcess` = hand-modelled preamble + GENERATED loop, real data.**  For every parameter record and every state
with `_w.size() == _len`: the model of `LmsFilter<real_t>::process` is the size guard, the three pinned statements
(`tu = _u | x`, `tu2 = abs2(tu)`, `_u = tu.slice(nx, nx + _len - 1)`) and then the generated loop body run over all samples. -/
theorem lmsProcess_genR (p : LmsP ℝ) (s : LmsState ℝ) (x d : Array ℝ) (hxd : x.size = d.size) (hw : s.w.size = p.len) :
    lmsProcess p s x d =
      .ok ({ s with u := (s.u ++ x).extract x.size (x.size + p.len - 1),
                    w := (runIdx (genStepR p s.locked (s.u ++ x) ((s.u ++ x).map fun v => v * v) d) ⟨s.w⟩ x.size).1.w },
           (runIdx (genStepR p s.locked (s.u ++ x) ((s.u ++ x).map fun v => v * v) d) ⟨s.w⟩ x.size).2.1,
           (runIdx (genStepR p s.locked (s.u ++ x) ((s.u ++ x).map fun v => v * v) d) ⟨s.w⟩ x.size).2.2) := by
  rw [lmsR_run_eq p s.locked s.w (s.u ++ x) _ d x.size hw (fun _ j => abs2_map_getD _ j)]
  simp [lmsProcess, hxd]

/-- **T12.1, error clause, transported to the regenerated loop (real data):** in every call, `e[k] = d[k] − y[k]` for the
arrays the GENERATED loop body produces. -/
theorem lmsR_gen_error_exact (p : LmsP ℝ) (s : LmsState ℝ) (x d : Array ℝ)
    (hlen : 1 ≤ p.len) (hu : s.u.size = p.len - 1) (hw : s.w.size = p.len) (hxd : x.size = d.size) :
    (runIdx (genStepR p s.locked (s.u ++ x) ((s.u ++ x).map fun v => v * v) d) ⟨s.w⟩ x.size).2.2.toList =
      List.zipWith (fun dk yk => dk - yk) d.toList
        (runIdx (genStepR p s.locked (s.u ++ x) ((s.u ++ x).map fun v => v * v) d) ⟨s.w⟩ x.size).2.1.toList :=
  C12.lms_error_exact p s _ x d _ _ hlen hu hw (lmsProcess_genR p s x d hxd hw)

/-- **T12.2 transported (real data):** with adaptation locked the GENERATED loop leaves `_w` untouched and every output
is the fixed inner product `y[k] = Σ_i _w[i]·tu[i+k]`. -/
theorem lmsR_gen_locked (p : LmsP ℝ) (s : LmsState ℝ) (x d : Array ℝ) (hl : s.locked = true)
    (hw : s.w.size = p.len) (hxd : x.size = d.size) :
    (runIdx (genStepR p s.locked (s.u ++ x) ((s.u ++ x).map fun v => v * v) d) ⟨s.w⟩ x.size).1.w = s.w ∧
    (runIdx (genStepR p s.locked (s.u ++ x) ((s.u ++ x).map fun v => v * v) d) ⟨s.w⟩ x.size).2.1.toList =
      (List.range x.size).map (fun k => lmsOut (ρ := ℝ) p.len s.w (s.u ++ x) k) := by
  obtain ⟨h1, _, _, h4⟩ := C12.lms_locked p s _ x d _ _ hl (lmsProcess_genR p s x d hxd hw)
  exact ⟨h1, h4⟩

end

/-! ## `LmsFilter<cmplx_t>` -/

noncomputable section

def toGenC (p : LmsP ℝ) (locked : Bool) : Gen.LmsFilterCStepParams ℝ :=
  { mu := p.mu, len := (p.len : Int), locked := locked,
    method := if p.nlms then Gen.LmsType_NLMS else Gen.LmsType_LMS, lk := p.lk }

/-- `cmplx_t()` of the generated code is the model's `T(0)` -/
theorem zeroC_eq : (Gen.zeroC : Cx ℝ) = Mixed.zero ℝ := by
  simp [Gen.zeroC, Mixed.zero]

theorem lmsC_loop1 (w tu : Array (Cx ℝ)) (k : ℕ) (y : Cx ℝ) (i : ℕ) :
    Gen.lmsCStep_loop1 ⟨w⟩ tu (k : Int) y i = y + rd (ρ := ℝ) w i * rd (ρ := ℝ) tu (i + k) := by
  simp only [Gen.lmsCStep_loop1, zeroC_eq, Int.ofNat_eq_natCast, ← Nat.cast_add, arrGet_natCast, rd, Cx.addAssign]

theorem lmsC_out (p : LmsP ℝ) (locked : Bool) (w tu : Array (Cx ℝ)) (k : ℕ) :
    (List.range (Int.toNat (toGenC p locked).len)).foldl (Gen.lmsCStep_loop1 ⟨w⟩ tu (k : Int)) Gen.zeroC
      = lmsOut (ρ := ℝ) p.len w tu k := by
  unfold lmsOut
  rw [acc_eq_foldl]
  have : (fun (a : Cx ℝ) (i : ℕ) => Gen.lmsCStep_loop1 ⟨w⟩ tu (k : Int) a i) =
      fun a i => a + rd (ρ := ℝ) w i * rd (ρ := ℝ) tu (i + k) := by
    funext a i; exact lmsC_loop1 w tu k a i
  simp only [toGenC, Int.toNat_natCast, zeroC_eq]
  exact congrArg (fun f => List.foldl f (Mixed.zero ℝ : Cx ℝ) (List.range p.len)) this

def updLmsC (p : LmsP ℝ) (tu : Array (Cx ℝ)) (k : ℕ) (e : Cx ℝ) (v : Cx ℝ) (i : ℕ) : Cx ℝ :=
  mulr v p.lk + rmul p.mu e * conj ℝ (rd (ρ := ℝ) tu (i + k))

def updNlmsC (p : LmsP ℝ) (tu : Array (Cx ℝ)) (k : ℕ) (e : Cx ℝ) (norm : ℝ) (v : Cx ℝ) (i : ℕ) : Cx ℝ :=
  mulr v p.lk + divr (rmul p.mu e * conj ℝ (rd (ρ := ℝ) tu (i + k))) norm

theorem lmsC_loop2 (p : LmsP ℝ) (locked : Bool) (tu : Array (Cx ℝ)) (k : ℕ) (e : Cx ℝ) (w : Array (Cx ℝ)) (i : ℕ) :
    Gen.lmsCStep_loop2 (toGenC p locked) e tu (k : Int) ⟨w⟩ i =
      ⟨w.setIfInBounds i (updLmsC p tu k e (w.getD i (Mixed.zero ℝ)) i)⟩ := by
  simp only [Gen.lmsCStep_loop2, zeroC_eq, Gen.conjc, Int.ofNat_eq_natCast, ← Nat.cast_add, arrGet_natCast, arrSet_natCast,
    updLmsC, rd, toGenC, Mixed.mulr, Mixed.rmul, Mixed.conj]

theorem lmsC_loop3 (tu2 : Array ℝ) (k : ℕ) (pu : ℝ) (i : ℕ) :
    Gen.lmsCStep_loop3 tu2 (k : Int) pu i = pu + tu2.getD (i + k) 0 := by
  simp only [Gen.lmsCStep_loop3, Gen.zeroR, Int.ofNat_eq_natCast, ← Nat.cast_add, arrGet_natCast, fn_ofInt, Int.cast_zero]

theorem lmsC_loop4 (p : LmsP ℝ) (locked : Bool) (tu : Array (Cx ℝ)) (k : ℕ) (e : Cx ℝ) (norm : ℝ) (w : Array (Cx ℝ)) (i : ℕ) :
    Gen.lmsCStep_loop4 (toGenC p locked) e tu (k : Int) norm ⟨w⟩ i =
      ⟨w.setIfInBounds i (updNlmsC p tu k e norm (w.getD i (Mixed.zero ℝ)) i)⟩ := by
  simp only [Gen.lmsCStep_loop4, zeroC_eq, Gen.conjc, Int.ofNat_eq_natCast, ← Nat.cast_add, arrGet_natCast, arrSet_natCast,
    updNlmsC, rd, toGenC, Mixed.mulr, Mixed.rmul, Mixed.conj, Mixed.divr]

/-- **bridge, `LmsFilter<cmplx_t>::process`, one sample** (as `lmsRStep_eq`; `real_t * cmplx_t`, `cmplx_t * real_t`,
`cmplx_t / real_t` are the regenerated operators of `Gen/Cmplx` on both sides) -/
theorem lmsCStep_eq (p : LmsP ℝ) (locked : Bool) (w tu d : Array (Cx ℝ)) (tu2 : Array ℝ) (k : ℕ) (hw : w.size = p.len)
    (htu2 : p.nlms = true → ∀ j, tu2.getD j 0 = Mixed.abs2 (rd (ρ := ℝ) tu j)) :
    Gen.lmsCStep eps (toGenC p locked) ⟨w⟩ d tu tu2 k =
      (⟨(lmsIter p locked tu d (w, #[], #[]) k).1⟩, lmsOut (ρ := ℝ) p.len w tu k,
        rd (ρ := ℝ) d k - lmsOut (ρ := ℝ) p.len w tu k) := by
  have hy := lmsC_out p locked w tu k
  unfold Gen.lmsCStep
  simp only [hy]
  have hd : Gen.arrGet Gen.zeroC d (k : Int) = rd (ρ := ℝ) d k := by
    simp only [arrGet_natCast, zeroC_eq, rd]
  simp only [hd, lmsIter]
  have hlen : ∀ b, (toGenC p b).len.toNat = p.len := fun b => by simp [toGenC]
  cases locked with
  | true => simp [toGenC]
  | false =>
    have hl : ((toGenC p false).locked = true) = False := by simp [toGenC]
    have hne : ¬ (Gen.LmsType_NLMS = Gen.LmsType_LMS) := by decide
    have hne' : ¬ (Gen.LmsType_LMS = Gen.LmsType_NLMS) := by decide
    simp only [hl, if_false, Bool.false_eq_true, hlen]
    cases hn : p.nlms with
    | false =>
      have hm : (toGenC p false).method = Gen.LmsType_LMS := by simp [toGenC, hn]
      simp only [hm, if_true]
      rw [foldl_mk Gen.LmsFilterCStepState.mk _ _ (fun a i => lmsC_loop2 p false tu k _ a i),
        foldl_set_eq_ofFn (Mixed.zero ℝ : Cx ℝ) _ p.len w hw]
      simp [lmsUpd, hn, updLmsC, rd]
    | true =>
      have hm2 : (toGenC p false).method = Gen.LmsType_NLMS := by simp [toGenC, hn]
      simp only [hm2, hne, hne', if_true, if_false]
      have hpu : (List.range p.len).foldl (Gen.lmsCStep_loop3 tu2 (k : Int)) (Fn.ofInt (0 : Int)) =
          acc (Fn.ofNat 0) p.len fun i => Mixed.abs2 (rd (ρ := ℝ) tu (i + k)) := by
        rw [acc_eq_foldl]
        have : (fun (a : ℝ) (i : ℕ) => Gen.lmsCStep_loop3 tu2 (k : Int) a i) =
            fun a i => a + Mixed.abs2 (rd (ρ := ℝ) tu (i + k)) := by
          funext a i; rw [lmsC_loop3, htu2 hn]
        simp only [fn_ofInt, fn_ofNat, Int.cast_zero, Nat.cast_zero]
        exact congrArg (fun f => List.foldl f (0 : ℝ) (List.range p.len)) this
      rw [hpu, foldl_mk Gen.LmsFilterCStepState.mk _ _ (fun a i => lmsC_loop4 p false tu k _ _ a i),
        foldl_set_eq_ofFn (Mixed.zero ℝ : Cx ℝ) _ p.len w hw]
      simp [lmsUpd, hn, updNlmsC, rd]

def genStepC (p : LmsP ℝ) (locked : Bool) (tu : Array (Cx ℝ)) (tu2 : Array ℝ) (d : Array (Cx ℝ))
    (s : Gen.LmsFilterCStepState ℝ) (k : Nat) : Gen.LmsFilterCStepState ℝ × Cx ℝ × Cx ℝ :=
  Gen.lmsCStep eps (toGenC p locked) s d tu tu2 (k : Int)

/-- **whole call, complex** -/
theorem lmsC_run_eq (p : LmsP ℝ) (locked : Bool) (w tu d : Array (Cx ℝ)) (tu2 : Array ℝ) (nx : ℕ) (hw : w.size = p.len)
    (htu2 : p.nlms = true → ∀ j, tu2.getD j 0 = Mixed.abs2 (rd (ρ := ℝ) tu j)) :
    runIdx (genStepC p locked tu tu2 d) ⟨w⟩ nx =
      (⟨((List.range nx).foldl (lmsIter p locked tu d) (w, #[], #[])).1⟩,
        ((List.range nx).foldl (lmsIter p locked tu d) (w, #[], #[])).2) := by
  rw [lmsIter_eq_pushStep]
  exact foldl_pushStep_map_inv (genStepC p locked tu tu2 d) (lmsStepM p locked tu d) Gen.LmsFilterCStepState.mk
    (fun w => w.size = p.len) (fun w k h => lmsStepM_size p locked tu d w k h)
    (fun w k h => lmsCStep_eq p locked w tu d tu2 k h htu2) _ w #[] #[] hw

/-- `tu2 = abs2(tu)` (element-wise, `abs2(cmplx_t)` = the generated `Gen.abs2c`) satisfies the hypothesis on `tu2` -/
theorem abs2c_map_getD (tu : Array (Cx ℝ)) (j : ℕ) :
    (tu.map Gen.abs2c).getD j 0 = Mixed.abs2 (rd (ρ := ℝ) tu j) := by
  simp only [rd, Mixed.abs2, Array.getD_eq_getD_getElem?, Array.getElem?_map, Gen.abs2c]
  cases tu[j]? <;> simp [Mixed.zero, Cx.abs2, Gen.abs2c]

/-- **`lmsProcess` = hand-modelled preamble + GENERATED loop, complex data** -/
theorem lmsProcess_genC (p : LmsP ℝ) (s : LmsState (Cx ℝ)) (x d : Array (Cx ℝ)) (hxd : x.size = d.size)
    (hw : s.w.size = p.len) :
    lmsProcess p s x d =
      .ok ({ s with u := (s.u ++ x).extract x.size (x.size + p.len - 1),
                    w := (runIdx (genStepC p s.locked (s.u ++ x) ((s.u ++ x).map Gen.abs2c) d) ⟨s.w⟩ x.size).1.w },
           (runIdx (genStepC p s.locked (s.u ++ x) ((s.u ++ x).map Gen.abs2c) d) ⟨s.w⟩ x.size).2.1,
           (runIdx (genStepC p s.locked (s.u ++ x) ((s.u ++ x).map Gen.abs2c) d) ⟨s.w⟩ x.size).2.2) := by
  rw [lmsC_run_eq p s.locked s.w (s.u ++ x) d _ x.size hw (fun _ j => abs2c_map_getD _ j)]
  simp [lmsProcess, hxd]

/-- **T12.1, error clause, transported (complex data)** -/
theorem lmsC_gen_error_exact (p : LmsP ℝ) (s : LmsState (Cx ℝ)) (x d : Array (Cx ℝ))
    (hlen : 1 ≤ p.len) (hu : s.u.size = p.len - 1) (hw : s.w.size = p.len) (hxd : x.size = d.size) :
    (runIdx (genStepC p s.locked (s.u ++ x) ((s.u ++ x).map Gen.abs2c) d) ⟨s.w⟩ x.size).2.2.toList =
      List.zipWith (fun dk yk => dk - yk) d.toList
        (runIdx (genStepC p s.locked (s.u ++ x) ((s.u ++ x).map Gen.abs2c) d) ⟨s.w⟩ x.size).2.1.toList :=
  C12.lms_error_exact p s _ x d _ _ hlen hu hw (lmsProcess_genC p s x d hxd hw)

/-- **T12.2 transported (complex data)** -/
theorem lmsC_gen_locked (p : LmsP ℝ) (s : LmsState (Cx ℝ)) (x d : Array (Cx ℝ)) (hl : s.locked = true)
    (hw : s.w.size = p.len) (hxd : x.size = d.size) :
    (runIdx (genStepC p s.locked (s.u ++ x) ((s.u ++ x).map Gen.abs2c) d) ⟨s.w⟩ x.size).1.w = s.w ∧
    (runIdx (genStepC p s.locked (s.u ++ x) ((s.u ++ x).map Gen.abs2c) d) ⟨s.w⟩ x.size).2.1.toList =
      (List.range x.size).map (fun k => lmsOut (ρ := ℝ) p.len s.w (s.u ++ x) k) := by
  obtain ⟨h1, _, _, h4⟩ := C12.lms_locked p s _ x d _ _ hl (lmsProcess_genC p s x d hxd hw)
  exact ⟨h1, h4⟩

/-- non-vacuity: the size hypotheses hold for a freshly constructed filter (`lmsInit`), real and complex -/
example (p : LmsP ℝ) : (lmsInit (τ := ℝ) p).w.size = p.len ∧ (lmsInit (τ := ℝ) p).u.size = p.len - 1 := by
  simp [lmsInit]

example (p : LmsP ℝ) : (lmsInit (τ := Cx ℝ) p).w.size = p.len ∧ (lmsInit (τ := Cx ℝ) p).u.size = p.len - 1 := by
  simp [lmsInit]

end


/-! # `RlsFilter<T>::process` -/

/-! ## generic lemmas on folds that update one field / one cell -/

theorem foldl_upd {S A ι : Type} (upd : S → A → S) (get : S → A) (step : S → ι → S) (G : S → A → ι → A)
    (h1 : ∀ s i, step s i = upd s (G s (get s) i)) (h2 : ∀ s a, get (upd s a) = a)
    (h3 : ∀ s a b, upd (upd s a) b = upd s b) (h4 : ∀ s a, G (upd s a) = G s) (h5 : ∀ s, upd s (get s) = s) :
    ∀ (l : List ι) (s : S), l.foldl step s = upd s (l.foldl (G s) (get s)) := by
  intro l
  induction l with
  | nil => intro s; simp [h5]
  | cons x l ih =>
    intro s
    simp only [List.foldl_cons]
    rw [ih, h1, h2, h3, h4]

theorem ext_getD {β : Type} (d : β) (a b : Array β) (h1 : a.size = b.size) (h2 : ∀ j, a.getD j d = b.getD j d) : a = b := by
  apply Array.ext h1
  intro j hj1 hj2
  have := h2 j
  simpa [Array.getD_eq_getD_getElem?, hj1, hj2] using this

theorem foldl_acc_cell {β : Type} (d : β) (g : β → Nat → β) (i : Nat) :
    ∀ (l : List Nat) (a : Array β),
      l.foldl (fun (a : Array β) k => a.setIfInBounds i (g (a.getD i d) k)) a =
        a.setIfInBounds i (l.foldl g (a.getD i d)) := by
  intro l
  induction l with
  | nil =>
    intro a
    simp only [List.foldl_nil]
    apply ext_getD d
    · simp
    · intro j
      rw [getD_setIfInBounds]
      split
      · next h => rw [h.1]
      · rfl
  | cons x l ih =>
    intro a
    simp only [List.foldl_cons]
    rw [ih]
    by_cases hi : i < a.size
    · have : (a.setIfInBounds i (g (a.getD i d) x)).getD i d = g (a.getD i d) x := by
        rw [getD_setIfInBounds]; simp [hi]
      rw [this, Array.setIfInBounds_setIfInBounds]
    · simp only [Array.setIfInBounds_eq_of_size_le (Nat.le_of_not_lt hi)]

/-- one row of point writes `a[base + k] = F k`, `k < m` -/
theorem foldl_set_row {β : Type} (d : β) (F : Nat → β) (base : Nat) (a : Array β) :
    ∀ m, ((List.range m).foldl (fun (a : Array β) k => a.setIfInBounds (base + k) (F k)) a).size = a.size ∧
      ∀ j, ((List.range m).foldl (fun (a : Array β) k => a.setIfInBounds (base + k) (F k)) a).getD j d =
        if base ≤ j ∧ j < base + m ∧ j < a.size then F (j - base) else a.getD j d := by
  intro m
  induction m with
  | zero =>
    refine ⟨rfl, fun j => ?_⟩
    simp only [List.range_zero, List.foldl_nil]
    rw [if_neg (by omega)]
  | succ m ih =>
    obtain ⟨h1, h2⟩ := ih
    rw [List.range_succ, List.foldl_append]
    simp only [List.foldl_cons, List.foldl_nil]
    refine ⟨by rw [Array.size_setIfInBounds]; exact h1, fun j => ?_⟩
    rw [getD_setIfInBounds, h2 j, h1]
    by_cases hj : base + m = j
    · subst hj
      by_cases hs : base + m < a.size
      · rw [if_pos ⟨rfl, hs⟩, if_pos ⟨by omega, by omega, hs⟩]
        congr 1; omega
      · rw [if_neg (by tauto), if_neg (by omega), if_neg (by omega)]
    · rw [if_neg (by tauto)]
      by_cases hc : base ≤ j ∧ j < base + m ∧ j < a.size
      · rw [if_pos hc, if_pos ⟨hc.1, by omega, hc.2.2⟩]
      · rw [if_neg hc, if_neg (by omega)]

/-- the flat `n × n` grid of point writes `a[i * n + k] = F i k` (rows `i < m`) -/
theorem foldl_set_grid {β : Type} (d : β) (F : Nat → Nat → β) (n : Nat) (a : Array β) :
    ∀ m, ((List.range m).foldl (fun (a : Array β) i =>
            (List.range n).foldl (fun (a : Array β) k => a.setIfInBounds (i * n + k) (F i k)) a) a).size = a.size ∧
      ∀ j, ((List.range m).foldl (fun (a : Array β) i =>
            (List.range n).foldl (fun (a : Array β) k => a.setIfInBounds (i * n + k) (F i k)) a) a).getD j d =
        if j < m * n ∧ j < a.size then F (j / n) (j % n) else a.getD j d := by
  intro m
  induction m with
  | zero =>
    refine ⟨rfl, fun j => ?_⟩
    simp only [List.range_zero, List.foldl_nil]
    rw [if_neg (by omega)]
  | succ m ih =>
    obtain ⟨h1, h2⟩ := ih
    rw [List.range_succ, List.foldl_append]
    simp only [List.foldl_cons, List.foldl_nil]
    obtain ⟨r1, r2⟩ := foldl_set_row d (F m) (m * n)
      ((List.range m).foldl (fun (a : Array β) i =>
            (List.range n).foldl (fun (a : Array β) k => a.setIfInBounds (i * n + k) (F i k)) a) a) n
    refine ⟨by rw [r1, h1], fun j => ?_⟩
    rw [r2 j, h2 j, h1]
    have hsm : (m + 1) * n = m * n + n := Nat.succ_mul m n
    by_cases hc : m * n ≤ j ∧ j < m * n + n ∧ j < a.size
    · rw [if_pos hc, if_pos ⟨by omega, hc.2.2⟩]
      have hn : 0 < n := by omega
      have hdiv : j / n = m := by
        apply Nat.div_eq_of_lt_le
        · exact hc.1
        · omega
      have hmod : j % n = j - m * n := by
        rw [Nat.mod_def, hdiv, Nat.mul_comm]
      rw [hdiv, hmod]
    · rw [if_neg hc]
      by_cases hc2 : j < m * n ∧ j < a.size
      · rw [if_pos hc2, if_pos ⟨by omega, hc2.2⟩]
      · rw [if_neg hc2, if_neg (by omega)]


/-! ## array primitives of `Gen/StepsArray` at natural-number arguments -/

theorem getD_ofFn {β : Type} (d : β) (n : Nat) (f : Fin n → β) (j : Nat) :
    (Array.ofFn f).getD j d = if h : j < n then f ⟨j, h⟩ else d := by
  simp only [Array.getD_eq_getD_getElem?]
  by_cases h : j < n
  · simp [h]
  · simp [h]

/-- `memmove(a + 1, a, (n-1)·sizeof T); a[0] = x` on an array of length `n`: the delay line shifted by one -/
theorem shift_eq {β : Type} (d : β) (a : Array β) (n : Nat) (x : β) (ha : a.size = n) :
    Gen.arrSet (Gen.arrMove a (1 : Int) (0 : Int) ((n : Int) - (1 : Int))) (0 : Int) x =
      Array.ofFn (n := n) fun i => if i.val = 0 then x else a.getD (i.val - 1) d := by
  have h0 : Gen.arrSet (Gen.arrMove a (1 : Int) (0 : Int) ((n : Int) - (1 : Int))) (0 : Int) x =
      (Gen.arrMove a (1 : Int) (0 : Int) ((n : Int) - (1 : Int))).setIfInBounds 0 x := arrSet_natCast _ 0 x
  rw [h0]
  apply ext_getD d
  · simp [Gen.arrMove, ha]
  · intro j
    rw [getD_setIfInBounds, getD_ofFn]
    have hsz : (Gen.arrMove a (1 : Int) (0 : Int) ((n : Int) - (1 : Int))).size = n := by simp [Gen.arrMove, ha]
    rw [hsz]
    by_cases hj : j < n
    · rw [dif_pos hj]
      by_cases hj0 : j = 0
      · subst hj0
        simp [hj]
      · rw [if_neg (by omega), if_neg hj0]
        unfold Gen.arrMove
        rw [getD_ofFn, dif_pos (by omega)]
        have hc : (1 : Int) ≤ Int.ofNat j ∧ Int.ofNat j < (1 : Int) + ((n : Int) - (1 : Int)) := by
          constructor
          · simp only [Int.ofNat_eq_natCast]; omega
          · simp only [Int.ofNat_eq_natCast]; omega
        rw [if_pos hc]
        have hidx : (Int.ofNat j - (1 : Int) + (0 : Int)).toNat = j - 1 := by
          simp only [Int.ofNat_eq_natCast]; omega
        rw [hidx]
        have hlt : j - 1 < a.size := by omega
        simp [Array.getD_eq_getD_getElem?, hlt]
    · rw [dif_neg hj, if_neg (by omega)]
      simp [Array.getD_eq_getD_getElem?, hsz, hj]

theorem arrFill_eq {β : Type} (a : Array β) (v : β) : Gen.arrFill a v = Array.replicate a.size v := rfl

theorem getD_replicate {β : Type} (d v : β) (n j : Nat) : (Array.replicate n v).getD j d = if j < n then v else d := by
  simp only [Array.getD_eq_getD_getElem?]
  by_cases h : j < n
  · simp [h]
  · simp [h]

theorem map_eq_ofFn {β γ : Type} (d : β) (a : Array β) (f : β → γ) (n : Nat) (ha : a.size = n) :
    a.map f = Array.ofFn (n := n) fun i => f (a.getD i.val d) := by
  apply Array.ext
  · simp [ha]
  · intro j h1 h2
    have hj : j < a.size := by simpa using h1
    simp [Array.getD_eq_getD_getElem?, hj]


/-! ## `RlsFilter<real_t>::process`: the generated loop body -/

noncomputable section

/-- the members the generated RLS loop body reads -/
def toGenRlsR (P : RlsP ℝ) (locked : Bool) : Gen.RlsFilterRStepParams ℝ :=
  { n := (P.n : Int), mu := P.mu, locked := locked }

/-- sizes of the members and of the loop-carried locals (`g` is assigned as a whole before it is read: no condition) -/
def RlsInvR (n : Nat) (g : Gen.RlsFilterRStepState ℝ) : Prop :=
  g.u.size = n ∧ g.w.size = n ∧ g.p.size = n * n ∧ g.Pu.size = n ∧ g.uTP.size = n ∧ g.guP.size = n * n

/-- `dot(a, b)` of lib/math.cpp (generated) on arrays of length `n` is the model's `dot n` -/
theorem dotRR_eq (n : Nat) (a b : Array ℝ) (ha : a.size = n) :
    Gen.dotRR a b = Adaptive.dot (ρ := ℝ) n a b := by
  unfold Gen.dotRR Adaptive.dot
  rw [acc_eq_foldl]
  have : (fun (v : ℝ) (i : ℕ) => Gen.dotRR_loop1 a b v i) = fun v i => v + rd (ρ := ℝ) a i * rd (ρ := ℝ) b i := by
    funext v i
    simp only [Gen.dotRR_loop1, Gen.zeroR, Int.ofNat_eq_natCast, arrGet_natCast, rd, zero_real, fn_ofInt, Int.cast_zero]
  simp only [Gen.arrSize, ha, Int.ofNat_eq_natCast, Int.toNat_natCast, fn_ofInt, Int.cast_zero, zero_real]
  exact congrArg (fun f => List.foldl f (0 : ℝ) (List.range n)) this

/-- the call `dot(a, b)` does not throw when both arrays have length `n` -/
theorem dotRR_noThrow (n : Nat) (a b : Array ℝ) (ha : a.size = n) (hb : b.size = n) : ¬ Gen.dotRRThrows a b := by
  simp [Gen.dotRRThrows, Gen.arrSize, ha, hb]

theorem natCast_mul_add (i n k : Nat) : ((i : Int) * (n : Int) + (k : Int)) = ((i * n + k : Nat) : Int) := by
  push_cast; rfl

/-- the two nested loops `Pu[i] += _p[i * _n + k] * _u[k]` after `std::fill(Pu, 0)` -/
theorem rlsR_Pu (P : RlsP ℝ) (locked : Bool) (s : Gen.RlsFilterRStepState ℝ) (hPu : s.Pu.size = P.n) :
    (List.range (Int.toNat (toGenRlsR P locked).n)).foldl (Gen.rlsRStep_loop2 (toGenRlsR P locked))
        { s with Pu := Gen.arrFill s.Pu (Fn.ofInt (0 : Int)) } =
      { s with Pu := (Array.ofFn (n := P.n) fun i =>
          acc (0 : ℝ) P.n fun k => s.p.getD (i.val * P.n + k) 0 * s.u.getD k 0) } := by
  have hn : Int.toNat (toGenRlsR P locked).n = P.n := by simp [toGenRlsR]
  rw [hn]
  -- inner loop: one cell accumulates
  have inner : ∀ (i : Nat) (t : Gen.RlsFilterRStepState ℝ),
      (List.range P.n).foldl (Gen.rlsRStep_loop1 (i : Int) (toGenRlsR P locked)) t =
        { t with Pu := (t.Pu.setIfInBounds i
            ((List.range P.n).foldl (fun v k => v + t.p.getD (i * P.n + k) 0 * t.u.getD k 0) (t.Pu.getD i 0))) } := by
    intro i t
    rw [foldl_upd (fun (t : Gen.RlsFilterRStepState ℝ) a => { t with Pu := a }) (fun t => t.Pu)
      (Gen.rlsRStep_loop1 (i : Int) (toGenRlsR P locked))
      (fun t a k => a.setIfInBounds i (a.getD i 0 + t.p.getD (i * P.n + k) 0 * t.u.getD k 0))
      (fun t k => by
        simp only [Gen.rlsRStep_loop1, Gen.zeroR, Int.ofNat_eq_natCast, toGenRlsR, natCast_mul_add, arrGet_natCast,
          arrSet_natCast, fn_ofInt, Int.cast_zero])
      (fun _ _ => rfl) (fun _ _ _ => rfl) (fun _ _ => rfl) (fun _ => rfl)]
    rw [foldl_acc_cell (0 : ℝ) (fun v k => v + t.p.getD (i * P.n + k) 0 * t.u.getD k 0) i]
  rw [foldl_upd (fun (t : Gen.RlsFilterRStepState ℝ) a => { t with Pu := a }) (fun t => t.Pu)
    (Gen.rlsRStep_loop2 (toGenRlsR P locked))
    (fun t a i => a.setIfInBounds i
      ((List.range P.n).foldl (fun v k => v + t.p.getD (i * P.n + k) 0 * t.u.getD k 0) (a.getD i 0)))
    (fun t i => by
      simp only [Gen.rlsRStep_loop2, Int.ofNat_eq_natCast, hn]
      exact inner i t)
    (fun _ _ => rfl) (fun _ _ _ => rfl) (fun _ _ => rfl) (fun _ => rfl)]
  simp only [arrFill_eq, hPu]
  rw [foldl_set_eq_ofFn (0 : ℝ)
    (fun v i => (List.range P.n).foldl (fun v k => v + s.p.getD (i * P.n + k) 0 * s.u.getD k 0) v) P.n _ (by simp)]
  congr 1
  congr 1
  funext i
  rw [getD_replicate, if_pos i.isLt, acc_eq_foldl, fn_ofInt, Int.cast_zero]

/-- the two nested loops `uTP[i] += conj(_u[k]) * _p[k * _n + i]` after `std::fill(uTP, 0)` -/
theorem rlsR_uTP (P : RlsP ℝ) (locked : Bool) (s : Gen.RlsFilterRStepState ℝ) (huTP : s.uTP.size = P.n) :
    (List.range (Int.toNat (toGenRlsR P locked).n)).foldl (Gen.rlsRStep_loop4 (toGenRlsR P locked))
        { s with uTP := Gen.arrFill s.uTP (Fn.ofInt (0 : Int)) } =
      { s with uTP := (Array.ofFn (n := P.n) fun i =>
          acc (0 : ℝ) P.n fun k => s.u.getD k 0 * s.p.getD (k * P.n + i.val) 0) } := by
  have hn : Int.toNat (toGenRlsR P locked).n = P.n := by simp [toGenRlsR]
  rw [hn]
  have inner : ∀ (i : Nat) (t : Gen.RlsFilterRStepState ℝ),
      (List.range P.n).foldl (Gen.rlsRStep_loop3 (i : Int) (toGenRlsR P locked)) t =
        { t with uTP := (t.uTP.setIfInBounds i
            ((List.range P.n).foldl (fun v k => v + t.u.getD k 0 * t.p.getD (k * P.n + i) 0) (t.uTP.getD i 0))) } := by
    intro i t
    rw [foldl_upd (fun (t : Gen.RlsFilterRStepState ℝ) a => { t with uTP := a }) (fun t => t.uTP)
      (Gen.rlsRStep_loop3 (i : Int) (toGenRlsR P locked))
      (fun t a k => a.setIfInBounds i (a.getD i 0 + t.u.getD k 0 * t.p.getD (k * P.n + i) 0))
      (fun t k => by
        simp only [Gen.rlsRStep_loop3, Gen.zeroR, Gen.conjr, Int.ofNat_eq_natCast, toGenRlsR, natCast_mul_add, arrGet_natCast,
          arrSet_natCast, fn_ofInt, Int.cast_zero])
      (fun _ _ => rfl) (fun _ _ _ => rfl) (fun _ _ => rfl) (fun _ => rfl)]
    rw [foldl_acc_cell (0 : ℝ) (fun v k => v + t.u.getD k 0 * t.p.getD (k * P.n + i) 0) i]
  rw [foldl_upd (fun (t : Gen.RlsFilterRStepState ℝ) a => { t with uTP := a }) (fun t => t.uTP)
    (Gen.rlsRStep_loop4 (toGenRlsR P locked))
    (fun t a i => a.setIfInBounds i
      ((List.range P.n).foldl (fun v k => v + t.u.getD k 0 * t.p.getD (k * P.n + i) 0) (a.getD i 0)))
    (fun t i => by
      simp only [Gen.rlsRStep_loop4, Int.ofNat_eq_natCast, hn]
      exact inner i t)
    (fun _ _ => rfl) (fun _ _ _ => rfl) (fun _ _ => rfl) (fun _ => rfl)]
  simp only [arrFill_eq, huTP]
  rw [foldl_set_eq_ofFn (0 : ℝ)
    (fun v i => (List.range P.n).foldl (fun v k => v + s.u.getD k 0 * s.p.getD (k * P.n + i) 0) v) P.n _ (by simp)]
  congr 1
  congr 1
  funext i
  rw [getD_replicate, if_pos i.isLt, acc_eq_foldl, fn_ofInt, Int.cast_zero]

/-- the two nested loops `guP[i * _n + k] = g[i] * uTP[k]` -/
theorem rlsR_guP (P : RlsP ℝ) (locked : Bool) (s : Gen.RlsFilterRStepState ℝ) (hguP : s.guP.size = P.n * P.n) :
    (List.range (Int.toNat (toGenRlsR P locked).n)).foldl (Gen.rlsRStep_loop6 (toGenRlsR P locked)) s =
      { s with guP := (Array.ofFn (n := P.n * P.n) fun j => s.g.getD (j.val / P.n) 0 * s.uTP.getD (j.val % P.n) 0) } := by
  have hn : Int.toNat (toGenRlsR P locked).n = P.n := by simp [toGenRlsR]
  rw [hn]
  have inner : ∀ (i : Nat) (t : Gen.RlsFilterRStepState ℝ),
      (List.range P.n).foldl (Gen.rlsRStep_loop5 (i : Int) (toGenRlsR P locked)) t =
        { t with guP := ((List.range P.n).foldl
            (fun (a : Array ℝ) k => a.setIfInBounds (i * P.n + k) (t.g.getD i 0 * t.uTP.getD k 0)) t.guP) } := by
    intro i t
    rw [foldl_upd (fun (t : Gen.RlsFilterRStepState ℝ) a => { t with guP := a }) (fun t => t.guP)
      (Gen.rlsRStep_loop5 (i : Int) (toGenRlsR P locked))
      (fun t a k => a.setIfInBounds (i * P.n + k) (t.g.getD i 0 * t.uTP.getD k 0))
      (fun t k => by
        simp only [Gen.rlsRStep_loop5, Gen.zeroR, Int.ofNat_eq_natCast, toGenRlsR, natCast_mul_add, arrGet_natCast,
          arrSet_natCast, fn_ofInt, Int.cast_zero])
      (fun _ _ => rfl) (fun _ _ _ => rfl) (fun _ _ => rfl) (fun _ => rfl)]
  rw [foldl_upd (fun (t : Gen.RlsFilterRStepState ℝ) a => { t with guP := a }) (fun t => t.guP)
    (Gen.rlsRStep_loop6 (toGenRlsR P locked))
    (fun t a i => (List.range P.n).foldl
      (fun (a : Array ℝ) k => a.setIfInBounds (i * P.n + k) (t.g.getD i 0 * t.uTP.getD k 0)) a)
    (fun t i => by
      simp only [Gen.rlsRStep_loop6, Int.ofNat_eq_natCast, hn]
      exact inner i t)
    (fun _ _ => rfl) (fun _ _ _ => rfl) (fun _ _ => rfl) (fun _ => rfl)]
  congr 1
  obtain ⟨h1, h2⟩ := foldl_set_grid (0 : ℝ) (fun i k => s.g.getD i 0 * s.uTP.getD k 0) P.n s.guP P.n
  apply ext_getD (0 : ℝ)
  · rw [h1, hguP]; simp
  · intro j
    rw [h2 j, getD_ofFn, hguP]
    by_cases hj : j < P.n * P.n
    · rw [if_pos ⟨hj, hj⟩, dif_pos hj]
    · rw [if_neg (by tauto), dif_neg hj]
      simp [Array.getD_eq_getD_getElem?, hguP, hj]

/-- the loop `_p[i] = (1 / _mu) * (_p[i] - guP[i])`, `i < _n * _n` -/
theorem rlsR_p (P : RlsP ℝ) (locked : Bool) (s : Gen.RlsFilterRStepState ℝ) (hp : s.p.size = P.n * P.n) :
    (List.range (Int.toNat ((toGenRlsR P locked).n * (toGenRlsR P locked).n))).foldl (Gen.rlsRStep_loop7 (toGenRlsR P locked)) s =
      { s with p := (Array.ofFn (n := P.n * P.n) fun j => (1 / P.mu) * (s.p.getD j.val 0 - s.guP.getD j.val 0)) } := by
  have hn : Int.toNat ((toGenRlsR P locked).n * (toGenRlsR P locked).n) = P.n * P.n := by
    simp only [toGenRlsR, ← Nat.cast_mul, Int.toNat_natCast]
  rw [hn]
  rw [foldl_upd (fun (t : Gen.RlsFilterRStepState ℝ) a => { t with p := a }) (fun t => t.p)
    (Gen.rlsRStep_loop7 (toGenRlsR P locked))
    (fun t a i => a.setIfInBounds i ((1 / P.mu) * (a.getD i 0 - t.guP.getD i 0)))
    (fun t i => by
      simp only [Gen.rlsRStep_loop7, Gen.zeroR, Int.ofNat_eq_natCast, toGenRlsR, arrGet_natCast,
        arrSet_natCast, fn_ofInt, Int.cast_zero, Int.cast_one])
    (fun _ _ => rfl) (fun _ _ _ => rfl) (fun _ _ => rfl) (fun _ => rfl)]
  rw [foldl_set_eq_ofFn (0 : ℝ) (fun v i => (1 / P.mu) * (v - s.guP.getD i 0)) (P.n * P.n) _ hp]

/-- the loop `_w[i] += conj(g[i]) * e[idx]` -/
theorem rlsR_w (P : RlsP ℝ) (locked : Bool) (e : ℝ) (s : Gen.RlsFilterRStepState ℝ) (hw : s.w.size = P.n) :
    (List.range (Int.toNat (toGenRlsR P locked).n)).foldl (Gen.rlsRStep_loop8 e) s =
      { s with w := (Array.ofFn (n := P.n) fun i => s.w.getD i.val 0 + s.g.getD i.val 0 * e) } := by
  have hn : Int.toNat (toGenRlsR P locked).n = P.n := by simp [toGenRlsR]
  rw [hn]
  rw [foldl_upd (fun (t : Gen.RlsFilterRStepState ℝ) a => { t with w := a }) (fun t => t.w)
    (Gen.rlsRStep_loop8 e)
    (fun t a i => a.setIfInBounds i (a.getD i 0 + t.g.getD i 0 * e))
    (fun t i => by
      simp only [Gen.rlsRStep_loop8, Gen.zeroR, Gen.conjr, Int.ofNat_eq_natCast, arrGet_natCast,
        arrSet_natCast, fn_ofInt, Int.cast_zero])
    (fun _ _ => rfl) (fun _ _ _ => rfl) (fun _ _ => rfl) (fun _ => rfl)]
  rw [foldl_set_eq_ofFn (0 : ℝ) (fun v i => v + s.g.getD i 0 * e) P.n _ hw]

end


noncomputable section

/-- the generated state and the model's state carry the same members; the loop-carried locals have their declared sizes -/
def RlsRelR (P : RlsP ℝ) (locked : Bool) (g : Gen.RlsFilterRStepState ℝ) (m : RlsState ℝ) : Prop :=
  RlsInvR P.n g ∧ g.u = m.u ∧ g.w = m.w ∧ g.p = m.p ∧ m.locked = locked

theorem rd_real (a : Array ℝ) (i : Nat) : rd (ρ := ℝ) a i = a.getD i 0 := by
  simp only [rd, zero_real]

/-- **bridge, `RlsFilter<real_t>::process`, one sample.**  For every filter length, forgetting factor, lock flag, every
state of the right sizes, every input / desired array and sample index: the GENERATED loop body (memmove of the delay line,
`dot`, the nested `_p[i * _n + k]` loops through the loop-carried working arrays, `Pu / (mu + dot(uTP, u))`, the rank-one
update of `_p`, the coefficient update) computes the model's `rlsStep` — same `_u`, `_w`, `_p`, `y[idx]`, `e[idx]` — and
keeps the sizes; whatever the working arrays contained before. -/
theorem rlsRStep_eq (P : RlsP ℝ) (locked : Bool) (g : Gen.RlsFilterRStepState ℝ) (m : RlsState ℝ) (x d : Array ℝ) (k : ℕ)
    (h : RlsRelR P locked g m) :
    RlsRelR P locked (Gen.rlsRStep (toGenRlsR P locked) g x d (k : Int)).1 (rlsStep P m (rd (ρ := ℝ) x k) (rd (ρ := ℝ) d k)).s ∧
    (Gen.rlsRStep (toGenRlsR P locked) g x d (k : Int)).2 =
      ((rlsStep P m (rd (ρ := ℝ) x k) (rd (ρ := ℝ) d k)).y, (rlsStep P m (rd (ρ := ℝ) x k) (rd (ρ := ℝ) d k)).e) := by
  obtain ⟨⟨hu, hw, hp, hPu, huTP, hguP⟩, eu, ew, ep, el⟩ := h
  obtain ⟨mu_, mw, mp, ml⟩ := m
  simp only at eu ew ep el
  subst eu ew ep el
  unfold Gen.rlsRStep
  extract_lets -merge y0 e0 s1 s2 y e s3 s4 s5 s6 s7 s8 s9 s10
  -- the delay line
  have hs2 : s2 = { g with u := (Array.ofFn (n := P.n) fun i => if i.val = 0 then rd (ρ := ℝ) x k else g.u.getD (i.val - 1) 0) } := by
    simp only [s2, s1, toGenRlsR, Gen.zeroR, arrGet_natCast, fn_ofInt, Int.cast_zero, rd_real]
    rw [shift_eq (0 : ℝ) g.u P.n _ hu]
  have hy : y = Adaptive.dot (ρ := ℝ) P.n g.w s2.u := by
    simp only [y]
    rw [dotRR_eq P.n _ _ (by rw [hs2]; exact hw), hs2]
  have he : e = rd (ρ := ℝ) d k - y := by
    simp only [e, Gen.zeroR, arrGet_natCast, fn_ofInt, Int.cast_zero, rd_real]
  have hU : s2.u.size = P.n := by rw [hs2]; simp
  cases ml with
  | true =>
    have hl : ((toGenRlsR P true).locked = true) = True := by simp [toGenRlsR]
    simp only [hl, if_true]
    refine ⟨⟨⟨hU, by rw [hs2]; exact hw, by rw [hs2]; exact hp, by rw [hs2]; exact hPu, by rw [hs2]; exact huTP,
      by rw [hs2]; exact hguP⟩, ?_, ?_, ?_, ?_⟩, ?_⟩
    · rw [hs2]; simp [rlsStep, rd_real]
    · rw [hs2]; simp [rlsStep]
    · rw [hs2]; simp [rlsStep]
    · simp [rlsStep]
    · rw [hy, he, hy, hs2]; simp [rlsStep, rd_real]
  | false =>
    have hl : ((toGenRlsR P false).locked = true) = False := by simp [toGenRlsR]
    simp only [hl, if_false]
    have h4 : s4 = { s2 with Pu := (Array.ofFn (n := P.n) fun i =>
        acc (0 : ℝ) P.n fun k => s2.p.getD (i.val * P.n + k) 0 * s2.u.getD k 0) } :=
      rlsR_Pu P false s2 (by rw [hs2]; exact hPu)
    have h6 : s6 = { s4 with uTP := (Array.ofFn (n := P.n) fun i =>
        acc (0 : ℝ) P.n fun k => s4.u.getD k 0 * s4.p.getD (k * P.n + i.val) 0) } :=
      rlsR_uTP P false s4 (by rw [h4, hs2]; exact huTP)
    have h8 : s8 = { s7 with guP := (Array.ofFn (n := P.n * P.n) fun j =>
        s7.g.getD (j.val / P.n) 0 * s7.uTP.getD (j.val % P.n) 0) } :=
      rlsR_guP P false s7 (by simp only [s7]; rw [h6, h4, hs2]; exact hguP)
    have h9 : s9 = { s8 with p := (Array.ofFn (n := P.n * P.n) fun j =>
        (1 / P.mu) * (s8.p.getD j.val 0 - s8.guP.getD j.val 0)) } :=
      rlsR_p P false s8 (by rw [h8]; simp only [s7]; rw [h6, h4, hs2]; exact hp)
    have h10 : s10 = { s9 with w := (Array.ofFn (n := P.n) fun i => s9.w.getD i.val 0 + s9.g.getD i.val 0 * e) } :=
      rlsR_w P false e s9 (by rw [h9, h8]; simp only [s7]; rw [h6, h4, hs2]; exact hw)
    -- the successive states, field by field (`s2.u` is the shifted delay line)
    have e4 : s4 = ⟨s2.u, g.w, g.p, g.g,
        Array.ofFn (n := P.n) fun i => acc (0 : ℝ) P.n fun k => g.p.getD (i.val * P.n + k) 0 * s2.u.getD k 0,
        g.uTP, g.guP⟩ := by
      rw [h4, hs2]
    have e6 : s6 = ⟨s2.u, g.w, g.p, g.g, s4.Pu,
        Array.ofFn (n := P.n) fun i => acc (0 : ℝ) P.n fun k => s2.u.getD k 0 * g.p.getD (k * P.n + i.val) 0, g.guP⟩ := by
      rw [h6, e4]
    have hPu4 : s4.Pu.size = P.n := by rw [e4]; simp
    have huTP6 : s6.uTP.size = P.n := by rw [e6]; simp
    have e7 : s7 = ⟨s2.u, g.w, g.p,
        Array.ofFn (n := P.n) fun i => s4.Pu.getD i.val 0 / (P.mu + Adaptive.dot (ρ := ℝ) P.n s6.uTP s2.u),
        s4.Pu, s6.uTP, g.guP⟩ := by
      simp only [s7]
      rw [dotRR_eq P.n _ _ (by rw [e6]; simp)]
      simp only [Gen.arrDivRR]
      rw [map_eq_ofFn (0 : ℝ) s6.Pu _ P.n (by rw [e6]; exact hPu4), e6]
      simp [toGenRlsR]
    have e8 : s8 = ⟨s2.u, g.w, g.p, s7.g, s4.Pu, s6.uTP,
        Array.ofFn (n := P.n * P.n) fun j => s7.g.getD (j.val / P.n) 0 * s6.uTP.getD (j.val % P.n) 0⟩ := by
      rw [h8, e7]
    have e9 : s9 = ⟨s2.u, g.w,
        Array.ofFn (n := P.n * P.n) fun j => (1 / P.mu) * (g.p.getD j.val 0 - s8.guP.getD j.val 0),
        s7.g, s4.Pu, s6.uTP, s8.guP⟩ := by
      rw [h9, e8]
    have e10 : s10 = ⟨s2.u, Array.ofFn (n := P.n) fun i => g.w.getD i.val 0 + s7.g.getD i.val 0 * e,
        s9.p, s7.g, s4.Pu, s6.uTP, s8.guP⟩ := by
      rw [h10, e9]
    have B1 : (rlsStep P ⟨g.u, g.w, g.p, false⟩ (rd (ρ := ℝ) x k) (rd (ρ := ℝ) d k)).s.u = s2.u := by
      rw [hs2]; simp only [rlsStep, Bool.false_eq_true, if_false, rd_real]
    have B2 : (rlsStep P ⟨g.u, g.w, g.p, false⟩ (rd (ρ := ℝ) x k) (rd (ρ := ℝ) d k)).y = y := by
      rw [hy, hs2]; simp only [rlsStep, Bool.false_eq_true, if_false, rd_real]
    have B3 : (rlsStep P ⟨g.u, g.w, g.p, false⟩ (rd (ρ := ℝ) x k) (rd (ρ := ℝ) d k)).e = e := by
      rw [he, hy, hs2]; simp only [rlsStep, Bool.false_eq_true, if_false, rd_real]
    have B4 : (rlsStep P ⟨g.u, g.w, g.p, false⟩ (rd (ρ := ℝ) x k) (rd (ρ := ℝ) d k)).s.w = s10.w := by
      rw [e10, e7, e6, e4, he, hy, hs2]
      simp only [rlsStep, Bool.false_eq_true, if_false, rd_real, zero_real, Mixed.conj, Mixed.radd, getD_ofFn, Fin.is_lt, dite_true]
    have B5 : (rlsStep P ⟨g.u, g.w, g.p, false⟩ (rd (ρ := ℝ) x k) (rd (ρ := ℝ) d k)).s.p = s10.p := by
      rw [e10, e9, e8, e7, e6, e4, hs2]
      simp only [rlsStep, Bool.false_eq_true, if_false, rd_real, zero_real, Mixed.conj, Mixed.radd, Mixed.rmul, getD_ofFn,
        Fin.is_lt, dite_true, fn_ofNat, Nat.cast_one]
    have B6 : (rlsStep P ⟨g.u, g.w, g.p, false⟩ (rd (ρ := ℝ) x k) (rd (ρ := ℝ) d k)).s.locked = false := by
      simp only [rlsStep, Bool.false_eq_true, if_false]
    refine ⟨⟨⟨?_, ?_, ?_, ?_, ?_, ?_⟩, ?_, ?_, ?_, ?_⟩, ?_⟩
    · show s10.u.size = P.n
      rw [e10]; exact hU
    · show s10.w.size = P.n
      rw [e10]; simp
    · show s10.p.size = P.n * P.n
      rw [e10, e9]; simp
    · show s10.Pu.size = P.n
      rw [e10]; exact hPu4
    · show s10.uTP.size = P.n
      rw [e10]; exact huTP6
    · show s10.guP.size = P.n * P.n
      rw [e10, e8]; simp
    · show s10.u = _
      rw [B1, e10]
    · exact B4.symm
    · exact B5.symm
    · exact B6
    · show (y, e) = _
      rw [B2, B3]

end


/-! ## the sample loop of `RlsFilter<T>::process`: the generated body folded over `idx = 0 … nx-1` -/

section foldrel
variable {σ τ' ι A B : Type}

/-- two loops whose bodies keep a relation between their states and produce the same outputs -/
theorem foldl_pushStep_rel (f : σ → ι → σ × A × B) (g : τ' → ι → τ' × A × B) (R : σ → τ' → Prop)
    (h : ∀ s t k, R s t → R (f s k).1 (g t k).1 ∧ (f s k).2 = (g t k).2) :
    ∀ (l : List ι) (s : σ) (t : τ') (ya : Array A) (ea : Array B), R s t →
      R (l.foldl (pushStep f) (s, ya, ea)).1 (l.foldl (pushStep g) (t, ya, ea)).1 ∧
      (l.foldl (pushStep f) (s, ya, ea)).2 = (l.foldl (pushStep g) (t, ya, ea)).2 := by
  intro l
  induction l with
  | nil => intro s t ya ea hR; exact ⟨hR, rfl⟩
  | cons a l ih =>
    intro s t ya ea hR
    simp only [List.foldl_cons]
    obtain ⟨h1, h2⟩ := h s t a hR
    have e : pushStep f (s, ya, ea) a = ((f s a).1, ya.push (g t a).2.1, ea.push (g t a).2.2) := by
      simp only [pushStep, h2]
    rw [e]
    exact ih _ _ _ _ h1

end foldrel

/-- the model's loop iteration without the output arrays -/
def rlsStepM {ρ τ : Type} [Add ρ] [Div ρ] [Fn ρ] [Add τ] [Sub τ] [Mul τ] [Div τ] [Mixed ρ τ]
    (P : RlsP ρ) (x d : Array τ) (s : RlsState τ) (k : Nat) : RlsState τ × τ × τ :=
  ((rlsStep P s (rd (ρ := ρ) x k) (rd (ρ := ρ) d k)).s, (rlsStep P s (rd (ρ := ρ) x k) (rd (ρ := ρ) d k)).y,
    (rlsStep P s (rd (ρ := ρ) x k) (rd (ρ := ρ) d k)).e)

theorem rlsIter_eq_pushStep {ρ τ : Type} [Add ρ] [Div ρ] [Fn ρ] [Add τ] [Sub τ] [Mul τ] [Div τ] [Mixed ρ τ]
    (P : RlsP ρ) (x d : Array τ) : rlsIter P x d = pushStep (rlsStepM P x d) := rfl

noncomputable section

/-- the generated loop body as a function of the members written (and the loop-carried locals) and the sample index -/
def genRlsStepR (P : RlsP ℝ) (locked : Bool) (x d : Array ℝ) (s : Gen.RlsFilterRStepState ℝ) (k : Nat) :
    Gen.RlsFilterRStepState ℝ × ℝ × ℝ :=
  Gen.rlsRStep (toGenRlsR P locked) s x d (k : Int)

/-- the generated state at loop entry: the members of the model state, the working arrays as `rlsREnter` (GENERATED from
their declarations) leaves them — whatever `g0 … guP0` were -/
def rlsEnterR (P : RlsP ℝ) (s : RlsState ℝ) (g0 Pu0 uTP0 guP0 : Array ℝ) : Gen.RlsFilterRStepState ℝ :=
  Gen.rlsREnter (toGenRlsR P s.locked) ⟨s.u, s.w, s.p, g0, Pu0, uTP0, guP0⟩

theorem rlsEnterR_rel (P : RlsP ℝ) (s : RlsState ℝ) (g0 Pu0 uTP0 guP0 : Array ℝ)
    (hu : s.u.size = P.n) (hw : s.w.size = P.n) (hp : s.p.size = P.n * P.n) :
    RlsRelR P s.locked (rlsEnterR P s g0 Pu0 uTP0 guP0) s := by
  refine ⟨⟨hu, hw, hp, ?_, ?_, ?_⟩, rfl, rfl, rfl, rfl⟩
  · simp [rlsEnterR, Gen.rlsREnter, Gen.arrNew, toGenRlsR]
  · simp [rlsEnterR, Gen.rlsREnter, Gen.arrNew, toGenRlsR]
  · simp only [rlsEnterR, Gen.rlsREnter, Gen.arrNew, toGenRlsR, ← Nat.cast_mul, Int.toNat_natCast, Array.size_replicate]

/-- **whole call, real:** the generated loop body folded over the sample indices, started from the generated loop-entry
state, computes the model's loop: same members at the end, same `y`, same `e` -/
theorem rlsR_run_eq (P : RlsP ℝ) (s : RlsState ℝ) (x d g0 Pu0 uTP0 guP0 : Array ℝ) (nx : ℕ)
    (hu : s.u.size = P.n) (hw : s.w.size = P.n) (hp : s.p.size = P.n * P.n) :
    RlsRelR P s.locked (runIdx (genRlsStepR P s.locked x d) (rlsEnterR P s g0 Pu0 uTP0 guP0) nx).1
      ((List.range nx).foldl (rlsIter P x d) (s, #[], #[])).1 ∧
    (runIdx (genRlsStepR P s.locked x d) (rlsEnterR P s g0 Pu0 uTP0 guP0) nx).2 =
      ((List.range nx).foldl (rlsIter P x d) (s, #[], #[])).2 := by
  rw [rlsIter_eq_pushStep]
  exact foldl_pushStep_rel (genRlsStepR P s.locked x d) (rlsStepM P x d) (RlsRelR P s.locked)
    (fun g m k h => rlsRStep_eq P s.locked g m x d k h) _ _ s #[] #[] (rlsEnterR_rel P s g0 Pu0 uTP0 guP0 hu hw hp)

/-- **`rlsProcess` = size guard + GENERATED loop, real data.**  For every filter length, forgetting factor and every state
with `_u`, `_w` of length `_n` and `_p` of length `_n * _n`: the model of `RlsFilter<real_t>::process` is the (pinned) size
guard and then the generated loop body run over all samples from the generated loop-entry state. -/
theorem rlsProcess_genR (P : RlsP ℝ) (s : RlsState ℝ) (x d g0 Pu0 uTP0 guP0 : Array ℝ) (hxd : x.size = d.size)
    (hu : s.u.size = P.n) (hw : s.w.size = P.n) (hp : s.p.size = P.n * P.n) :
    rlsProcess P s x d =
      .ok (⟨(runIdx (genRlsStepR P s.locked x d) (rlsEnterR P s g0 Pu0 uTP0 guP0) x.size).1.u,
            (runIdx (genRlsStepR P s.locked x d) (rlsEnterR P s g0 Pu0 uTP0 guP0) x.size).1.w,
            (runIdx (genRlsStepR P s.locked x d) (rlsEnterR P s g0 Pu0 uTP0 guP0) x.size).1.p, s.locked⟩,
           (runIdx (genRlsStepR P s.locked x d) (rlsEnterR P s g0 Pu0 uTP0 guP0) x.size).2.1,
           (runIdx (genRlsStepR P s.locked x d) (rlsEnterR P s g0 Pu0 uTP0 guP0) x.size).2.2) := by
  obtain ⟨⟨_, h1, h2, h3, h4⟩, h5⟩ := rlsR_run_eq P s x d g0 Pu0 uTP0 guP0 x.size hu hw hp
  unfold rlsProcess
  rw [if_neg (by simpa using hxd)]
  generalize runIdx (genRlsStepR P s.locked x d) (rlsEnterR P s g0 Pu0 uTP0 guP0) x.size = G at h1 h2 h3 h4 h5 ⊢
  generalize (List.range x.size).foldl (rlsIter P x d) (s, #[], #[]) = M at h1 h2 h3 h4 h5 ⊢
  rw [h1, h2, h3, ← h4, h5]

/-- **T12.4 `rls_is_wls`, transported to the regenerated loop (ℝ).**  Start from a freshly constructed real `RlsFilter`
(`_p = δ·I`, `_w = 0`, unlocked; `λ > 0`, `δ > 0`, any length) and run the GENERATED loop body of `process` over any frame
`(x, d)`: the `_p` it ends with is the inverse of `R_k = (λ^k/δ)·I + Σ λ^{k-1-i} u_i u_iᵀ`, its `_w` solves the normal
equations and is THE minimiser of the exponentially weighted, diagonally regularised least-squares cost. -/
theorem rls_gen_is_wls (P : RlsP ℝ) (dl : ℝ) (hlam : 0 < P.mu) (hdl : 0 < dl) (x d g0 Pu0 uTP0 guP0 : Array ℝ)
    (hxd : x.size = d.size) :
    let run := runIdx (genRlsStepR P false x d) (rlsEnterR P (rlsInit P dl) g0 Pu0 uTP0 guP0) x.size
    let ud := C12.regs P.n (rlsInit P dl : RlsState ℝ).u (x.toList.zip d.toList)
    let Rk : Matrix (Fin P.n) (Fin P.n) ℝ := (P.mu ^ x.size / dl) • 1 + C12.wR P.mu ud
    let J : (Fin P.n → ℝ) → ℝ := fun v => P.mu ^ x.size / dl * (v ⬝ᵥ v) + C12.wJ P.mu ud v
    C12.Pm P.n run.1.p * Rk = 1 ∧ Rk *ᵥ C12.vecOf P.n run.1.w = C12.wB P.mu ud ∧
    C12.vecOf P.n run.1.w = C12.Pm P.n run.1.p *ᵥ C12.wB P.mu ud ∧
    (∀ v, J (C12.vecOf P.n run.1.w) ≤ J v) ∧ (∀ v, J v = J (C12.vecOf P.n run.1.w) → v = C12.vecOf P.n run.1.w) := by
  intro run ud Rk J
  have hs : (rlsInit P dl : RlsState ℝ).u.size = P.n ∧ (rlsInit P dl : RlsState ℝ).w.size = P.n ∧
      (rlsInit P dl : RlsState ℝ).p.size = P.n * P.n := by simp [rlsInit]
  have h := rlsProcess_genR P (rlsInit P dl) x d g0 Pu0 uTP0 guP0 hxd hs.1 hs.2.1 hs.2.2
  have hl : (rlsInit P dl : RlsState ℝ).locked = false := rfl
  rw [hl] at h
  have key := C12.rls_process_is_wls P dl hlam hdl ⟨run.1.u, run.1.w, run.1.p, false⟩ x d run.2.1 run.2.2 h
  simp only [RlsState.coeffs] at key
  exact key

end

/-- `T(0)` for `T = cmplx_t` (the model's `Mixed.zero`) -/
local notation "Z" => (Mixed.zero ℝ : Cx ℝ)

noncomputable section

theorem rd_cx (a : Array (Cx ℝ)) (i : Nat) : rd (ρ := ℝ) a i = a.getD i Z := rfl

/-- the value `std::fill(…, 0)` / `cmplx_t acc = 0` writes: `cmplx_t(const int&)` = `(0, 0)` -/
theorem fillC_eq : (Cx.mk (Fn.ofInt (0 : Int)) (Fn.ofInt (0 : Int)) : Cx ℝ) = Z := by simp [Mixed.zero]

/-- the members the generated RLS loop body reads -/
def toGenRlsC (P : RlsP ℝ) (locked : Bool) : Gen.RlsFilterCStepParams ℝ :=
  { n := (P.n : Int), mu := P.mu, locked := locked }

/-- sizes of the members and of the loop-carried locals (`g` is assigned as a whole before it is read: no condition) -/
def RlsInvC (n : Nat) (g : Gen.RlsFilterCStepState ℝ) : Prop :=
  g.u.size = n ∧ g.w.size = n ∧ g.p.size = n * n ∧ g.Pu.size = n ∧ g.uTP.size = n ∧ g.guP.size = n * n

/-- `dot(a, b)` of lib/math.cpp (generated) on arrays of length `n` is the model's `dot n` -/
theorem dotCC_eq (n : Nat) (a b : Array (Cx ℝ)) (ha : a.size = n) :
    Gen.dotCC a b = Adaptive.dot (ρ := ℝ) n a b := by
  unfold Gen.dotCC Adaptive.dot
  rw [acc_eq_foldl]
  have : (fun (v : Cx ℝ) (i : ℕ) => Gen.dotCC_loop1 a b v i) = fun v i => v + rd (ρ := ℝ) a i * rd (ρ := ℝ) b i := by
    funext v i
    simp only [Gen.dotCC_loop1, zeroC_eq, Int.ofNat_eq_natCast, arrGet_natCast, rd, Cx.addAssign]
  simp only [Gen.arrSize, ha, Int.ofNat_eq_natCast, Int.toNat_natCast, fillC_eq]
  exact congrArg (fun f => List.foldl f (Mixed.zero ℝ : Cx ℝ) (List.range n)) this

/-- the call `dot(a, b)` does not throw when both arrays have length `n` -/
theorem dotCC_noThrow (n : Nat) (a b : Array (Cx ℝ)) (ha : a.size = n) (hb : b.size = n) : ¬ Gen.dotCCThrows a b := by
  simp [Gen.dotCCThrows, Gen.arrSize, ha, hb]


/-- the two nested loops `Pu[i] += _p[i * _n + k] * _u[k]` after `std::fill(Pu, 0)` -/
theorem rlsC_Pu (P : RlsP ℝ) (locked : Bool) (s : Gen.RlsFilterCStepState ℝ) (hPu : s.Pu.size = P.n) :
    (List.range (Int.toNat (toGenRlsC P locked).n)).foldl (Gen.rlsCStep_loop2 (toGenRlsC P locked))
        { s with Pu := Gen.arrFill s.Pu (Cx.mk (Fn.ofInt (0 : Int)) (Fn.ofInt (0 : Int))) } =
      { s with Pu := (Array.ofFn (n := P.n) fun i =>
          acc Z P.n fun k => s.p.getD (i.val * P.n + k) Z * s.u.getD k Z) } := by
  have hn : Int.toNat (toGenRlsC P locked).n = P.n := by simp [toGenRlsC]
  rw [hn]
  -- inner loop: one cell accumulates
  have inner : ∀ (i : Nat) (t : Gen.RlsFilterCStepState ℝ),
      (List.range P.n).foldl (Gen.rlsCStep_loop1 (i : Int) (toGenRlsC P locked)) t =
        { t with Pu := (t.Pu.setIfInBounds i
            ((List.range P.n).foldl (fun v k => v + t.p.getD (i * P.n + k) Z * t.u.getD k Z) (t.Pu.getD i Z))) } := by
    intro i t
    rw [foldl_upd (fun (t : Gen.RlsFilterCStepState ℝ) a => { t with Pu := a }) (fun t => t.Pu)
      (Gen.rlsCStep_loop1 (i : Int) (toGenRlsC P locked))
      (fun t a k => a.setIfInBounds i (a.getD i Z + t.p.getD (i * P.n + k) Z * t.u.getD k Z))
      (fun t k => by
        simp only [Gen.rlsCStep_loop1, zeroC_eq, Cx.addAssign, Int.ofNat_eq_natCast, toGenRlsC, natCast_mul_add, arrGet_natCast,
          arrSet_natCast, fn_ofInt, Int.cast_zero])
      (fun _ _ => rfl) (fun _ _ _ => rfl) (fun _ _ => rfl) (fun _ => rfl)]
    rw [foldl_acc_cell Z (fun v k => v + t.p.getD (i * P.n + k) Z * t.u.getD k Z) i]
  rw [foldl_upd (fun (t : Gen.RlsFilterCStepState ℝ) a => { t with Pu := a }) (fun t => t.Pu)
    (Gen.rlsCStep_loop2 (toGenRlsC P locked))
    (fun t a i => a.setIfInBounds i
      ((List.range P.n).foldl (fun v k => v + t.p.getD (i * P.n + k) Z * t.u.getD k Z) (a.getD i Z)))
    (fun t i => by
      simp only [Gen.rlsCStep_loop2, Int.ofNat_eq_natCast, hn]
      exact inner i t)
    (fun _ _ => rfl) (fun _ _ _ => rfl) (fun _ _ => rfl) (fun _ => rfl)]
  simp only [arrFill_eq, hPu]
  rw [foldl_set_eq_ofFn Z
    (fun v i => (List.range P.n).foldl (fun v k => v + s.p.getD (i * P.n + k) Z * s.u.getD k Z) v) P.n _ (by simp)]
  congr 1
  congr 1
  funext i
  rw [getD_replicate, if_pos i.isLt, acc_eq_foldl, fillC_eq]

/-- the two nested loops `uTP[i] += conj(_u[k]) * _p[k * _n + i]` after `std::fill(uTP, 0)` -/
theorem rlsC_uTP (P : RlsP ℝ) (locked : Bool) (s : Gen.RlsFilterCStepState ℝ) (huTP : s.uTP.size = P.n) :
    (List.range (Int.toNat (toGenRlsC P locked).n)).foldl (Gen.rlsCStep_loop4 (toGenRlsC P locked))
        { s with uTP := Gen.arrFill s.uTP (Cx.mk (Fn.ofInt (0 : Int)) (Fn.ofInt (0 : Int))) } =
      { s with uTP := (Array.ofFn (n := P.n) fun i =>
          acc Z P.n fun k => Cx.conj (s.u.getD k Z) * s.p.getD (k * P.n + i.val) Z) } := by
  have hn : Int.toNat (toGenRlsC P locked).n = P.n := by simp [toGenRlsC]
  rw [hn]
  have inner : ∀ (i : Nat) (t : Gen.RlsFilterCStepState ℝ),
      (List.range P.n).foldl (Gen.rlsCStep_loop3 (i : Int) (toGenRlsC P locked)) t =
        { t with uTP := (t.uTP.setIfInBounds i
            ((List.range P.n).foldl (fun v k => v + Cx.conj (t.u.getD k Z) * t.p.getD (k * P.n + i) Z) (t.uTP.getD i Z))) } := by
    intro i t
    rw [foldl_upd (fun (t : Gen.RlsFilterCStepState ℝ) a => { t with uTP := a }) (fun t => t.uTP)
      (Gen.rlsCStep_loop3 (i : Int) (toGenRlsC P locked))
      (fun t a k => a.setIfInBounds i (a.getD i Z + Cx.conj (t.u.getD k Z) * t.p.getD (k * P.n + i) Z))
      (fun t k => by
        simp only [Gen.rlsCStep_loop3, zeroC_eq, Cx.addAssign, Gen.conjc, Int.ofNat_eq_natCast, toGenRlsC, natCast_mul_add, arrGet_natCast,
          arrSet_natCast, fn_ofInt, Int.cast_zero])
      (fun _ _ => rfl) (fun _ _ _ => rfl) (fun _ _ => rfl) (fun _ => rfl)]
    rw [foldl_acc_cell Z (fun v k => v + Cx.conj (t.u.getD k Z) * t.p.getD (k * P.n + i) Z) i]
  rw [foldl_upd (fun (t : Gen.RlsFilterCStepState ℝ) a => { t with uTP := a }) (fun t => t.uTP)
    (Gen.rlsCStep_loop4 (toGenRlsC P locked))
    (fun t a i => a.setIfInBounds i
      ((List.range P.n).foldl (fun v k => v + Cx.conj (t.u.getD k Z) * t.p.getD (k * P.n + i) Z) (a.getD i Z)))
    (fun t i => by
      simp only [Gen.rlsCStep_loop4, Int.ofNat_eq_natCast, hn]
      exact inner i t)
    (fun _ _ => rfl) (fun _ _ _ => rfl) (fun _ _ => rfl) (fun _ => rfl)]
  simp only [arrFill_eq, huTP]
  rw [foldl_set_eq_ofFn Z
    (fun v i => (List.range P.n).foldl (fun v k => v + Cx.conj (s.u.getD k Z) * s.p.getD (k * P.n + i) Z) v) P.n _ (by simp)]
  congr 1
  congr 1
  funext i
  rw [getD_replicate, if_pos i.isLt, acc_eq_foldl, fillC_eq]

/-- the two nested loops `guP[i * _n + k] = g[i] * uTP[k]` -/
theorem rlsC_guP (P : RlsP ℝ) (locked : Bool) (s : Gen.RlsFilterCStepState ℝ) (hguP : s.guP.size = P.n * P.n) :
    (List.range (Int.toNat (toGenRlsC P locked).n)).foldl (Gen.rlsCStep_loop6 (toGenRlsC P locked)) s =
      { s with guP := (Array.ofFn (n := P.n * P.n) fun j => s.g.getD (j.val / P.n) Z * s.uTP.getD (j.val % P.n) Z) } := by
  have hn : Int.toNat (toGenRlsC P locked).n = P.n := by simp [toGenRlsC]
  rw [hn]
  have inner : ∀ (i : Nat) (t : Gen.RlsFilterCStepState ℝ),
      (List.range P.n).foldl (Gen.rlsCStep_loop5 (i : Int) (toGenRlsC P locked)) t =
        { t with guP := ((List.range P.n).foldl
            (fun (a : Array (Cx ℝ)) k => a.setIfInBounds (i * P.n + k) (t.g.getD i Z * t.uTP.getD k Z)) t.guP) } := by
    intro i t
    rw [foldl_upd (fun (t : Gen.RlsFilterCStepState ℝ) a => { t with guP := a }) (fun t => t.guP)
      (Gen.rlsCStep_loop5 (i : Int) (toGenRlsC P locked))
      (fun t a k => a.setIfInBounds (i * P.n + k) (t.g.getD i Z * t.uTP.getD k Z))
      (fun t k => by
        simp only [Gen.rlsCStep_loop5, zeroC_eq, Cx.addAssign, Int.ofNat_eq_natCast, toGenRlsC, natCast_mul_add, arrGet_natCast,
          arrSet_natCast, fn_ofInt, Int.cast_zero])
      (fun _ _ => rfl) (fun _ _ _ => rfl) (fun _ _ => rfl) (fun _ => rfl)]
  rw [foldl_upd (fun (t : Gen.RlsFilterCStepState ℝ) a => { t with guP := a }) (fun t => t.guP)
    (Gen.rlsCStep_loop6 (toGenRlsC P locked))
    (fun t a i => (List.range P.n).foldl
      (fun (a : Array (Cx ℝ)) k => a.setIfInBounds (i * P.n + k) (t.g.getD i Z * t.uTP.getD k Z)) a)
    (fun t i => by
      simp only [Gen.rlsCStep_loop6, Int.ofNat_eq_natCast, hn]
      exact inner i t)
    (fun _ _ => rfl) (fun _ _ _ => rfl) (fun _ _ => rfl) (fun _ => rfl)]
  congr 1
  obtain ⟨h1, h2⟩ := foldl_set_grid Z (fun i k => s.g.getD i Z * s.uTP.getD k Z) P.n s.guP P.n
  apply ext_getD Z
  · rw [h1, hguP]; simp
  · intro j
    rw [h2 j, getD_ofFn, hguP]
    by_cases hj : j < P.n * P.n
    · rw [if_pos ⟨hj, hj⟩, dif_pos hj]
    · rw [if_neg (by tauto), dif_neg hj]
      simp [Array.getD_eq_getD_getElem?, hguP, hj]

/-- the loop `_p[i] = (1 / _mu) * (_p[i] - guP[i])`, `i < _n * _n` -/
theorem rlsC_p (P : RlsP ℝ) (locked : Bool) (s : Gen.RlsFilterCStepState ℝ) (hp : s.p.size = P.n * P.n) :
    (List.range (Int.toNat ((toGenRlsC P locked).n * (toGenRlsC P locked).n))).foldl (Gen.rlsCStep_loop7 (toGenRlsC P locked)) s =
      { s with p := (Array.ofFn (n := P.n * P.n) fun j => Cx.rmul (1 / P.mu) (s.p.getD j.val Z - s.guP.getD j.val Z)) } := by
  have hn : Int.toNat ((toGenRlsC P locked).n * (toGenRlsC P locked).n) = P.n * P.n := by
    simp only [toGenRlsC, ← Nat.cast_mul, Int.toNat_natCast]
  rw [hn]
  rw [foldl_upd (fun (t : Gen.RlsFilterCStepState ℝ) a => { t with p := a }) (fun t => t.p)
    (Gen.rlsCStep_loop7 (toGenRlsC P locked))
    (fun t a i => a.setIfInBounds i (Cx.rmul (1 / P.mu) (a.getD i Z - t.guP.getD i Z)))
    (fun t i => by
      simp only [Gen.rlsCStep_loop7, zeroC_eq, Cx.addAssign, Int.ofNat_eq_natCast, toGenRlsC, arrGet_natCast,
        arrSet_natCast, fn_ofInt, Int.cast_zero, Int.cast_one])
    (fun _ _ => rfl) (fun _ _ _ => rfl) (fun _ _ => rfl) (fun _ => rfl)]
  rw [foldl_set_eq_ofFn Z (fun v i => Cx.rmul (1 / P.mu) (v - s.guP.getD i Z)) (P.n * P.n) _ hp]

/-- the loop `_w[i] += conj(g[i]) * e[idx]` -/
theorem rlsC_w (P : RlsP ℝ) (locked : Bool) (e : Cx ℝ) (s : Gen.RlsFilterCStepState ℝ) (hw : s.w.size = P.n) :
    (List.range (Int.toNat (toGenRlsC P locked).n)).foldl (Gen.rlsCStep_loop8 e) s =
      { s with w := (Array.ofFn (n := P.n) fun i => s.w.getD i.val Z + Cx.conj (s.g.getD i.val Z) * e) } := by
  have hn : Int.toNat (toGenRlsC P locked).n = P.n := by simp [toGenRlsC]
  rw [hn]
  rw [foldl_upd (fun (t : Gen.RlsFilterCStepState ℝ) a => { t with w := a }) (fun t => t.w)
    (Gen.rlsCStep_loop8 e)
    (fun t a i => a.setIfInBounds i (a.getD i Z + Cx.conj (t.g.getD i Z) * e))
    (fun t i => by
      simp only [Gen.rlsCStep_loop8, zeroC_eq, Cx.addAssign, Gen.conjc, Int.ofNat_eq_natCast, arrGet_natCast,
        arrSet_natCast, fn_ofInt, Int.cast_zero])
    (fun _ _ => rfl) (fun _ _ _ => rfl) (fun _ _ => rfl) (fun _ => rfl)]
  rw [foldl_set_eq_ofFn Z (fun v i => v + Cx.conj (s.g.getD i Z) * e) P.n _ hw]

end


noncomputable section

/-- the generated state and the model's state carry the same members; the loop-carried locals have their declared sizes -/
def RlsRelC (P : RlsP ℝ) (locked : Bool) (g : Gen.RlsFilterCStepState ℝ) (m : RlsState (Cx ℝ)) : Prop :=
  RlsInvC P.n g ∧ g.u = m.u ∧ g.w = m.w ∧ g.p = m.p ∧ m.locked = locked


/-- **bridge, `RlsFilter<cmplx_t>::process`, one sample.**  For every filter length, forgetting factor, lock flag, every
state of the right sizes, every input / desired array and sample index: the GENERATED loop body (memmove of the delay line,
`dot`, the nested `_p[i * _n + k]` loops through the loop-carried working arrays, `Pu / (mu + dot(uTP, u))`, the rank-one
update of `_p`, the coefficient update) computes the model's `rlsStep` — same `_u`, `_w`, `_p`, `y[idx]`, `e[idx]` — and
keeps the sizes; whatever the working arrays contained before. -/
theorem rlsCStep_eq (P : RlsP ℝ) (locked : Bool) (g : Gen.RlsFilterCStepState ℝ) (m : RlsState (Cx ℝ)) (x d : Array (Cx ℝ)) (k : ℕ)
    (h : RlsRelC P locked g m) :
    RlsRelC P locked (Gen.rlsCStep (toGenRlsC P locked) g x d (k : Int)).1 (rlsStep P m (rd (ρ := ℝ) x k) (rd (ρ := ℝ) d k)).s ∧
    (Gen.rlsCStep (toGenRlsC P locked) g x d (k : Int)).2 =
      ((rlsStep P m (rd (ρ := ℝ) x k) (rd (ρ := ℝ) d k)).y, (rlsStep P m (rd (ρ := ℝ) x k) (rd (ρ := ℝ) d k)).e) := by
  obtain ⟨⟨hu, hw, hp, hPu, huTP, hguP⟩, eu, ew, ep, el⟩ := h
  obtain ⟨mu_, mw, mp, ml⟩ := m
  simp only at eu ew ep el
  subst eu ew ep el
  unfold Gen.rlsCStep
  extract_lets -merge y0 e0 s1 s2 y e s3 s4 s5 s6 s7 s8 s9 s10
  -- the delay line
  have hs2 : s2 = { g with u := (Array.ofFn (n := P.n) fun i => if i.val = 0 then rd (ρ := ℝ) x k else g.u.getD (i.val - 1) Z) } := by
    simp only [s2, s1, toGenRlsC, zeroC_eq, Cx.addAssign, arrGet_natCast, fn_ofInt, Int.cast_zero, rd_cx]
    rw [shift_eq Z g.u P.n _ hu]
  have hy : y = Adaptive.dot (ρ := ℝ) P.n g.w s2.u := by
    simp only [y]
    rw [dotCC_eq P.n _ _ (by rw [hs2]; exact hw), hs2]
  have he : e = rd (ρ := ℝ) d k - y := by
    simp only [e, zeroC_eq, Cx.addAssign, arrGet_natCast, fn_ofInt, Int.cast_zero, rd_cx]
  have hU : s2.u.size = P.n := by rw [hs2]; simp
  cases ml with
  | true =>
    have hl : ((toGenRlsC P true).locked = true) = True := by simp [toGenRlsC]
    simp only [hl, if_true]
    refine ⟨⟨⟨hU, by rw [hs2]; exact hw, by rw [hs2]; exact hp, by rw [hs2]; exact hPu, by rw [hs2]; exact huTP,
      by rw [hs2]; exact hguP⟩, ?_, ?_, ?_, ?_⟩, ?_⟩
    · rw [hs2]; simp [rlsStep, rd_cx]
    · rw [hs2]; simp [rlsStep]
    · rw [hs2]; simp [rlsStep]
    · simp [rlsStep]
    · rw [hy, he, hy, hs2]; simp [rlsStep, rd_cx]
  | false =>
    have hl : ((toGenRlsC P false).locked = true) = False := by simp [toGenRlsC]
    simp only [hl, if_false]
    have h4 : s4 = { s2 with Pu := (Array.ofFn (n := P.n) fun i =>
        acc Z P.n fun k => s2.p.getD (i.val * P.n + k) Z * s2.u.getD k Z) } :=
      rlsC_Pu P false s2 (by rw [hs2]; exact hPu)
    have h6 : s6 = { s4 with uTP := (Array.ofFn (n := P.n) fun i =>
        acc Z P.n fun k => Cx.conj (s4.u.getD k Z) * s4.p.getD (k * P.n + i.val) Z) } :=
      rlsC_uTP P false s4 (by rw [h4, hs2]; exact huTP)
    have h8 : s8 = { s7 with guP := (Array.ofFn (n := P.n * P.n) fun j =>
        s7.g.getD (j.val / P.n) Z * s7.uTP.getD (j.val % P.n) Z) } :=
      rlsC_guP P false s7 (by simp only [s7]; rw [h6, h4, hs2]; exact hguP)
    have h9 : s9 = { s8 with p := (Array.ofFn (n := P.n * P.n) fun j =>
        Cx.rmul (1 / P.mu) (s8.p.getD j.val Z - s8.guP.getD j.val Z)) } :=
      rlsC_p P false s8 (by rw [h8]; simp only [s7]; rw [h6, h4, hs2]; exact hp)
    have h10 : s10 = { s9 with w := (Array.ofFn (n := P.n) fun i => s9.w.getD i.val Z + Cx.conj (s9.g.getD i.val Z) * e) } :=
      rlsC_w P false e s9 (by rw [h9, h8]; simp only [s7]; rw [h6, h4, hs2]; exact hw)
    -- the successive states, field by field (`s2.u` is the shifted delay line)
    have e4 : s4 = ⟨s2.u, g.w, g.p, g.g,
        Array.ofFn (n := P.n) fun i => acc Z P.n fun k => g.p.getD (i.val * P.n + k) Z * s2.u.getD k Z,
        g.uTP, g.guP⟩ := by
      rw [h4, hs2]
    have e6 : s6 = ⟨s2.u, g.w, g.p, g.g, s4.Pu,
        Array.ofFn (n := P.n) fun i => acc Z P.n fun k => Cx.conj (s2.u.getD k Z) * g.p.getD (k * P.n + i.val) Z, g.guP⟩ := by
      rw [h6, e4]
    have hPu4 : s4.Pu.size = P.n := by rw [e4]; simp
    have huTP6 : s6.uTP.size = P.n := by rw [e6]; simp
    have e7 : s7 = ⟨s2.u, g.w, g.p,
        Array.ofFn (n := P.n) fun i => s4.Pu.getD i.val Z / (Cx.radd P.mu (Adaptive.dot (ρ := ℝ) P.n s6.uTP s2.u)),
        s4.Pu, s6.uTP, g.guP⟩ := by
      simp only [s7]
      rw [dotCC_eq P.n _ _ (by rw [e6]; simp)]
      simp only [Gen.arrDivCC, Cx.divAssign]
      rw [map_eq_ofFn Z s6.Pu _ P.n (by rw [e6]; exact hPu4), e6]
      simp [toGenRlsC]
    have e8 : s8 = ⟨s2.u, g.w, g.p, s7.g, s4.Pu, s6.uTP,
        Array.ofFn (n := P.n * P.n) fun j => s7.g.getD (j.val / P.n) Z * s6.uTP.getD (j.val % P.n) Z⟩ := by
      rw [h8, e7]
    have e9 : s9 = ⟨s2.u, g.w,
        Array.ofFn (n := P.n * P.n) fun j => Cx.rmul (1 / P.mu) (g.p.getD j.val Z - s8.guP.getD j.val Z),
        s7.g, s4.Pu, s6.uTP, s8.guP⟩ := by
      rw [h9, e8]
    have e10 : s10 = ⟨s2.u, Array.ofFn (n := P.n) fun i => g.w.getD i.val Z + Cx.conj (s7.g.getD i.val Z) * e,
        s9.p, s7.g, s4.Pu, s6.uTP, s8.guP⟩ := by
      rw [h10, e9]
    have B1 : (rlsStep P ⟨g.u, g.w, g.p, false⟩ (rd (ρ := ℝ) x k) (rd (ρ := ℝ) d k)).s.u = s2.u := by
      rw [hs2]; simp only [rlsStep, Bool.false_eq_true, if_false, rd_cx]
    have B2 : (rlsStep P ⟨g.u, g.w, g.p, false⟩ (rd (ρ := ℝ) x k) (rd (ρ := ℝ) d k)).y = y := by
      rw [hy, hs2]; simp only [rlsStep, Bool.false_eq_true, if_false, rd_cx]
    have B3 : (rlsStep P ⟨g.u, g.w, g.p, false⟩ (rd (ρ := ℝ) x k) (rd (ρ := ℝ) d k)).e = e := by
      rw [he, hy, hs2]; simp only [rlsStep, Bool.false_eq_true, if_false, rd_cx]
    have B4 : (rlsStep P ⟨g.u, g.w, g.p, false⟩ (rd (ρ := ℝ) x k) (rd (ρ := ℝ) d k)).s.w = s10.w := by
      rw [e10, e7, e6, e4, he, hy, hs2]
      simp only [rlsStep, Bool.false_eq_true, if_false, rd_cx, zero_real, Mixed.conj, Mixed.radd, getD_ofFn, Fin.is_lt, dite_true]
    have B5 : (rlsStep P ⟨g.u, g.w, g.p, false⟩ (rd (ρ := ℝ) x k) (rd (ρ := ℝ) d k)).s.p = s10.p := by
      rw [e10, e9, e8, e7, e6, e4, hs2]
      simp only [rlsStep, Bool.false_eq_true, if_false, rd_cx, zero_real, Mixed.conj, Mixed.radd, Mixed.rmul, getD_ofFn,
        Fin.is_lt, dite_true, fn_ofNat, Nat.cast_one]
    have B6 : (rlsStep P ⟨g.u, g.w, g.p, false⟩ (rd (ρ := ℝ) x k) (rd (ρ := ℝ) d k)).s.locked = false := by
      simp only [rlsStep, Bool.false_eq_true, if_false]
    refine ⟨⟨⟨?_, ?_, ?_, ?_, ?_, ?_⟩, ?_, ?_, ?_, ?_⟩, ?_⟩
    · show s10.u.size = P.n
      rw [e10]; exact hU
    · show s10.w.size = P.n
      rw [e10]; simp
    · show s10.p.size = P.n * P.n
      rw [e10, e9]; simp
    · show s10.Pu.size = P.n
      rw [e10]; exact hPu4
    · show s10.uTP.size = P.n
      rw [e10]; exact huTP6
    · show s10.guP.size = P.n * P.n
      rw [e10, e8]; simp
    · show s10.u = _
      rw [B1, e10]
    · exact B4.symm
    · exact B5.symm
    · exact B6
    · show (y, e) = _
      rw [B2, B3]

end

noncomputable section

/-- the generated loop body as a function of the members written (and the loop-carried locals) and the sample index -/
def genRlsStepC (P : RlsP ℝ) (locked : Bool) (x d : Array (Cx ℝ)) (s : Gen.RlsFilterCStepState ℝ) (k : Nat) :
    Gen.RlsFilterCStepState ℝ × Cx ℝ × Cx ℝ :=
  Gen.rlsCStep (toGenRlsC P locked) s x d (k : Int)

/-- the generated state at loop entry: the members of the model state, the working arrays as `rlsCEnter` (GENERATED from
their declarations) leaves them — whatever `g0 … guP0` were -/
def rlsEnterC (P : RlsP ℝ) (s : RlsState (Cx ℝ)) (g0 Pu0 uTP0 guP0 : Array (Cx ℝ)) : Gen.RlsFilterCStepState ℝ :=
  Gen.rlsCEnter (toGenRlsC P s.locked) ⟨s.u, s.w, s.p, g0, Pu0, uTP0, guP0⟩

theorem rlsEnterC_rel (P : RlsP ℝ) (s : RlsState (Cx ℝ)) (g0 Pu0 uTP0 guP0 : Array (Cx ℝ))
    (hu : s.u.size = P.n) (hw : s.w.size = P.n) (hp : s.p.size = P.n * P.n) :
    RlsRelC P s.locked (rlsEnterC P s g0 Pu0 uTP0 guP0) s := by
  refine ⟨⟨hu, hw, hp, ?_, ?_, ?_⟩, rfl, rfl, rfl, rfl⟩
  · simp [rlsEnterC, Gen.rlsCEnter, Gen.arrNew, toGenRlsC]
  · simp [rlsEnterC, Gen.rlsCEnter, Gen.arrNew, toGenRlsC]
  · simp only [rlsEnterC, Gen.rlsCEnter, Gen.arrNew, toGenRlsC, ← Nat.cast_mul, Int.toNat_natCast, Array.size_replicate]

/-- **whole call, complex:** the generated loop body folded over the sample indices, started from the generated loop-entry
state, computes the model's loop: same members at the end, same `y`, same `e` -/
theorem rlsC_run_eq (P : RlsP ℝ) (s : RlsState (Cx ℝ)) (x d g0 Pu0 uTP0 guP0 : Array (Cx ℝ)) (nx : ℕ)
    (hu : s.u.size = P.n) (hw : s.w.size = P.n) (hp : s.p.size = P.n * P.n) :
    RlsRelC P s.locked (runIdx (genRlsStepC P s.locked x d) (rlsEnterC P s g0 Pu0 uTP0 guP0) nx).1
      ((List.range nx).foldl (rlsIter P x d) (s, #[], #[])).1 ∧
    (runIdx (genRlsStepC P s.locked x d) (rlsEnterC P s g0 Pu0 uTP0 guP0) nx).2 =
      ((List.range nx).foldl (rlsIter P x d) (s, #[], #[])).2 := by
  rw [rlsIter_eq_pushStep]
  exact foldl_pushStep_rel (genRlsStepC P s.locked x d) (rlsStepM P x d) (RlsRelC P s.locked)
    (fun g m k h => rlsCStep_eq P s.locked g m x d k h) _ _ s #[] #[] (rlsEnterC_rel P s g0 Pu0 uTP0 guP0 hu hw hp)

/-- **`rlsProcess` = size guard + GENERATED loop, complex data.**  For every filter length, forgetting factor and every state
with `_u`, `_w` of length `_n` and `_p` of length `_n * _n`: the model of `RlsFilter<cmplx_t>::process` is the (pinned) size
guard and then the generated loop body run over all samples from the generated loop-entry state. -/
theorem rlsProcess_genC (P : RlsP ℝ) (s : RlsState (Cx ℝ)) (x d g0 Pu0 uTP0 guP0 : Array (Cx ℝ)) (hxd : x.size = d.size)
    (hu : s.u.size = P.n) (hw : s.w.size = P.n) (hp : s.p.size = P.n * P.n) :
    rlsProcess P s x d =
      .ok (⟨(runIdx (genRlsStepC P s.locked x d) (rlsEnterC P s g0 Pu0 uTP0 guP0) x.size).1.u,
            (runIdx (genRlsStepC P s.locked x d) (rlsEnterC P s g0 Pu0 uTP0 guP0) x.size).1.w,
            (runIdx (genRlsStepC P s.locked x d) (rlsEnterC P s g0 Pu0 uTP0 guP0) x.size).1.p, s.locked⟩,
           (runIdx (genRlsStepC P s.locked x d) (rlsEnterC P s g0 Pu0 uTP0 guP0) x.size).2.1,
           (runIdx (genRlsStepC P s.locked x d) (rlsEnterC P s g0 Pu0 uTP0 guP0) x.size).2.2) := by
  obtain ⟨⟨_, h1, h2, h3, h4⟩, h5⟩ := rlsC_run_eq P s x d g0 Pu0 uTP0 guP0 x.size hu hw hp
  unfold rlsProcess
  rw [if_neg (by simpa using hxd)]
  generalize runIdx (genRlsStepC P s.locked x d) (rlsEnterC P s g0 Pu0 uTP0 guP0) x.size = G at h1 h2 h3 h4 h5 ⊢
  generalize (List.range x.size).foldl (rlsIter P x d) (s, #[], #[]) = M at h1 h2 h3 h4 h5 ⊢
  rw [h1, h2, h3, ← h4, h5]

end


noncomputable section

/-- **T12.2 (RLS) transported, real and complex:** with adaptation locked the GENERATED loop leaves `_w` and `_p` untouched -/
theorem rlsR_gen_locked (P : RlsP ℝ) (s : RlsState ℝ) (x d g0 Pu0 uTP0 guP0 : Array ℝ) (hl : s.locked = true)
    (hxd : x.size = d.size) (hu : s.u.size = P.n) (hw : s.w.size = P.n) (hp : s.p.size = P.n * P.n) :
    (runIdx (genRlsStepR P s.locked x d) (rlsEnterR P s g0 Pu0 uTP0 guP0) x.size).1.w = s.w ∧
    (runIdx (genRlsStepR P s.locked x d) (rlsEnterR P s g0 Pu0 uTP0 guP0) x.size).1.p = s.p := by
  obtain ⟨h1, h2, _⟩ := C12.rls_locked P s _ x d _ _ hl (rlsProcess_genR P s x d g0 Pu0 uTP0 guP0 hxd hu hw hp)
  exact ⟨h1, h2⟩

theorem rlsC_gen_locked (P : RlsP ℝ) (s : RlsState (Cx ℝ)) (x d g0 Pu0 uTP0 guP0 : Array (Cx ℝ)) (hl : s.locked = true)
    (hxd : x.size = d.size) (hu : s.u.size = P.n) (hw : s.w.size = P.n) (hp : s.p.size = P.n * P.n) :
    (runIdx (genRlsStepC P s.locked x d) (rlsEnterC P s g0 Pu0 uTP0 guP0) x.size).1.w = s.w ∧
    (runIdx (genRlsStepC P s.locked x d) (rlsEnterC P s g0 Pu0 uTP0 guP0) x.size).1.p = s.p := by
  obtain ⟨h1, h2, _⟩ := C12.rls_locked P s _ x d _ _ hl (rlsProcess_genC P s x d g0 Pu0 uTP0 guP0 hxd hu hw hp)
  exact ⟨h1, h2⟩

/-- the two `dot` calls of the generated loop body never take their throwing branch on states of the right sizes:
`dot(_w, _u)` (after the shift `_u` keeps its length) … -/
theorem rlsR_dot_noThrow (P : RlsP ℝ) (g : Gen.RlsFilterRStepState ℝ) (v : ℝ) (h : RlsInvR P.n g) :
    ¬ Gen.dotRRThrows g.w (Gen.arrSet (Gen.arrMove g.u (1 : Int) (0 : Int) ((P.n : Int) - (1 : Int))) (0 : Int) v) := by
  apply dotRR_noThrow P.n _ _ h.2.1
  rw [shift_eq (0 : ℝ) g.u P.n v h.1]; simp

/-- … and `dot(uTP, _u)` (`uTP` keeps its declared length `_n` under `std::fill` and the cell updates) -/
theorem rlsR_dot_noThrow' (P : RlsP ℝ) (g : Gen.RlsFilterRStepState ℝ) (h : RlsInvR P.n g) :
    ¬ Gen.dotRRThrows g.uTP g.u := dotRR_noThrow P.n _ _ h.2.2.2.2.1 h.1

/-- non-vacuity: the size hypotheses hold for a freshly constructed filter (`rlsInit`), real and complex -/
example (P : RlsP ℝ) (dl : ℝ) : (rlsInit P dl : RlsState ℝ).u.size = P.n ∧ (rlsInit P dl : RlsState ℝ).w.size = P.n ∧
    (rlsInit P dl : RlsState ℝ).p.size = P.n * P.n := by simp [rlsInit]

example (P : RlsP ℝ) (dl : ℝ) : (rlsInit P dl : RlsState (Cx ℝ)).u.size = P.n ∧ (rlsInit P dl : RlsState (Cx ℝ)).w.size = P.n ∧
    (rlsInit P dl : RlsState (Cx ℝ)).p.size = P.n * P.n := by simp [rlsInit]

end


/-! BEGIN steps3 constructors -/
/-! ## Constructors of `LmsFilter<T>`, `RlsFilter<T>` (regenerated: `Gen/CtorAdaptive.lean`) -/

/-- `for (i = 0; i < n; i++) a[i * n + i] = v` on an array of `n * n` cells: the diagonal of the flat row-major matrix -/
theorem foldl_set_diag {β : Type} (d v : β) (n : Nat) (a : Array β) (ha : a.size = n * n) :
    ∀ m, m ≤ n →
      ((List.range m).foldl (fun (acc : Array β) (i : Nat) => acc.setIfInBounds (i * n + i) v) a).size = n * n ∧
      ∀ j, ((List.range m).foldl (fun (acc : Array β) (i : Nat) => acc.setIfInBounds (i * n + i) v) a).getD j d =
        if j / n = j % n ∧ j / n < m ∧ j < n * n then v else a.getD j d := by
  intro m
  induction m with
  | zero => intro _; simp [ha]
  | succ m ih =>
    intro hm
    obtain ⟨hs, hg⟩ := ih (Nat.le_of_succ_le hm)
    have hmn : m < n := hm
    rw [List.range_succ, List.foldl_append]
    simp only [List.foldl_cons, List.foldl_nil]
    refine ⟨by simp [hs], fun j => ?_⟩
    rw [GenBridge.getD_setIfInBounds, hs, hg j]
    have hlt : m * n + m < n * n := by nlinarith
    have hdiv : (m * n + m) / n = m := by
      rw [Nat.mul_comm m n, Nat.mul_add_div (by omega), Nat.div_eq_of_lt hmn]; simp
    have hmod : (m * n + m) % n = m := by
      rw [Nat.mul_comm m n, Nat.mul_add_mod, Nat.mod_eq_of_lt hmn]
    by_cases hj : m * n + m = j
    · subst hj
      rw [if_pos ⟨rfl, hlt⟩, if_pos ⟨by rw [hdiv, hmod], by rw [hdiv]; omega, hlt⟩]
    · have hne : ¬ (j / n = j % n ∧ j / n = m) := by
        rintro ⟨h1, h2⟩
        apply hj
        have := Nat.div_add_mod j n
        rw [← h1, h2] at this
        rw [← this]; ring
      by_cases h1 : j / n = j % n ∧ j / n < m ∧ j < n * n
      · have : j / n = j % n ∧ j / n < m + 1 ∧ j < n * n := ⟨h1.1, by omega, h1.2.2⟩
        rw [if_neg (fun h => hj h.1), if_pos h1, if_pos this]
      · have : ¬ (j / n = j % n ∧ j / n < m + 1 ∧ j < n * n) := by
          rintro ⟨a1, a2, a3⟩
          rcases Nat.lt_succ_iff_lt_or_eq.mp a2 with h | h
          · exact h1 ⟨a1, h, a3⟩
          · exact hne ⟨a1, h⟩
        rw [if_neg (fun h => hj h.1), if_neg h1, if_neg this]

noncomputable section

/-! ### `LmsFilter<real_t>` -/

/-- the object `LmsFilter<real_t>(len, step_size, method, leak)` leaves, from the model's parameter record and state -/
def lmsObjR (p : LmsP ℝ) (s : LmsState ℝ) : Gen.LmsFilterRObj ℝ :=
  { u := s.u, w := s.w, mu := p.mu, len := (p.len : Int), locked := s.locked,
    method := if p.nlms then Gen.LmsType_NLMS else Gen.LmsType_LMS, lk := p.lk }

/-- members of a constructed `LmsFilter<real_t>` that the generated loop body reads / writes -/
def lmsObjRP (o : Gen.LmsFilterRObj ℝ) : Gen.LmsFilterRStepParams ℝ :=
  { mu := o.mu, len := o.len, locked := o.locked, method := o.method, lk := o.lk }

theorem lmsObjRP_obj (p : LmsP ℝ) (s : LmsState ℝ) : lmsObjRP (lmsObjR p s) = toGenR p s.locked := rfl

/-- **bridge, `LmsFilter<real_t>::LmsFilter`:** for every length `len ≥ 0`, step size, method and leakage the generated constructor
leaves the object of `lmsInit` (zero-filled `_u` of `len - 1`, `_w` of `len` cells, unlocked) -/
theorem lmsRCtor_eq (p : LmsP ℝ) :
    Gen.lmsRCtor (p.len : Int) p.mu (if p.nlms then Gen.LmsType_NLMS else Gen.LmsType_LMS) p.lk = lmsObjR p (lmsInit p) := by
  have h1 : ((p.len : Int) - 1).toNat = p.len - 1 := by omega
  simp [Gen.lmsRCtor, lmsObjR, lmsInit, Gen.arrNew, Gen.zeroR, h1, zero_real]

/-- **T12.1 (error clause) from the GENERATED constructor through the GENERATED loop, real data:** construct by the regenerated
constructor (any `len ≥ 1`, step size, method, leakage), run the regenerated loop body over any frame: `e[k] = d[k] − y[k]`. -/
theorem lmsR_gen_from_ctor_error_exact (p : LmsP ℝ) (hlen : 1 ≤ p.len) (x d : Array ℝ) (hxd : x.size = d.size) :
    let o := Gen.lmsRCtor (p.len : Int) p.mu (if p.nlms then Gen.LmsType_NLMS else Gen.LmsType_LMS) p.lk
    let run := runIdx (fun s k => Gen.lmsRStep Adaptive.eps (lmsObjRP o) s d (o.u ++ x) ((o.u ++ x).map fun v => v * v) (k : Int))
      ⟨o.w⟩ x.size
    run.2.2.toList = List.zipWith (fun dk yk => dk - yk) d.toList run.2.1.toList := by
  intro o run
  have ho : o = lmsObjR p (lmsInit p) := lmsRCtor_eq p
  have hs := C12.lmsInit_sizes (ρ := ℝ) (τ := ℝ) p
  have := lmsR_gen_error_exact p (lmsInit p) x d hlen hs.1 hs.2.1 hxd
  simp only [run, ho]
  exact this

/-! ### `LmsFilter<cmplx_t>` -/

def lmsObjC (p : LmsP ℝ) (s : LmsState (Cx ℝ)) : Gen.LmsFilterCObj ℝ :=
  { u := s.u, w := s.w, mu := p.mu, len := (p.len : Int), locked := s.locked,
    method := if p.nlms then Gen.LmsType_NLMS else Gen.LmsType_LMS, lk := p.lk }

def lmsObjCP (o : Gen.LmsFilterCObj ℝ) : Gen.LmsFilterCStepParams ℝ :=
  { mu := o.mu, len := o.len, locked := o.locked, method := o.method, lk := o.lk }

theorem lmsObjCP_obj (p : LmsP ℝ) (s : LmsState (Cx ℝ)) : lmsObjCP (lmsObjC p s) = toGenC p s.locked := rfl

/-- **bridge, `LmsFilter<cmplx_t>::LmsFilter`** -/
theorem lmsCCtor_eq (p : LmsP ℝ) :
    Gen.lmsCCtor (p.len : Int) p.mu (if p.nlms then Gen.LmsType_NLMS else Gen.LmsType_LMS) p.lk = lmsObjC p (lmsInit p) := by
  have h1 : ((p.len : Int) - 1).toNat = p.len - 1 := by omega
  simp [Gen.lmsCCtor, lmsObjC, lmsInit, Gen.arrNew, h1, zeroC_eq]

/-- **T12.1 (error clause) from the GENERATED constructor through the GENERATED loop, complex data** -/
theorem lmsC_gen_from_ctor_error_exact (p : LmsP ℝ) (hlen : 1 ≤ p.len) (x d : Array (Cx ℝ)) (hxd : x.size = d.size) :
    let o := Gen.lmsCCtor (p.len : Int) p.mu (if p.nlms then Gen.LmsType_NLMS else Gen.LmsType_LMS) p.lk
    let run := runIdx (fun s k => Gen.lmsCStep Adaptive.eps (lmsObjCP o) s d (o.u ++ x) ((o.u ++ x).map Gen.abs2c) (k : Int))
      ⟨o.w⟩ x.size
    run.2.2.toList = List.zipWith (fun dk yk => dk - yk) d.toList run.2.1.toList := by
  intro o run
  have ho : o = lmsObjC p (lmsInit p) := lmsCCtor_eq p
  have hs := C12.lmsInit_sizes (ρ := ℝ) (τ := Cx ℝ) p
  have := lmsC_gen_error_exact p (lmsInit p) x d hlen hs.1 hs.2.1 hxd
  simp only [run, ho]
  exact this

/-! ### `RlsFilter<real_t>` -/

def rlsObjR (P : RlsP ℝ) (s : RlsState ℝ) : Gen.RlsFilterRObj ℝ :=
  { n := (P.n : Int), mu := P.mu, u := s.u, w := s.w, p := s.p, locked := s.locked }

def rlsObjRP (o : Gen.RlsFilterRObj ℝ) : Gen.RlsFilterRStepParams ℝ := { n := o.n, mu := o.mu, locked := o.locked }

/-- **bridge, `RlsFilter<real_t>::RlsFilter`:** for every length, forgetting factor and diagonal load the generated constructor
(zero-filled `_u`, `_w`, `_p`, then the loop `_p[i * _n + i] = diag_load`) leaves the object of `rlsInit`: `_p = diag_load · I`
in the flat row-major layout -/
theorem rlsRCtor_eq (P : RlsP ℝ) (dl : ℝ) : Gen.rlsRCtor (P.n : Int) P.mu dl = rlsObjR P (rlsInit P dl) := by
  unfold Gen.rlsRCtor rlsObjR rlsInit
  simp only [Gen.arrNew, Int.toNat_natCast, ← Nat.cast_mul, Gen.zeroR, fn_ofInt, Int.cast_zero, zero_real]
  congr 1
  have hf : (Gen.rlsRCtor_loop1 dl (P.n : Int) : Array ℝ → Nat → Array ℝ) =
      fun acc i => acc.setIfInBounds (i * P.n + i) dl := by
    funext acc i
    simp only [Gen.rlsRCtor_loop1]
    exact GenBridge.arrSet_eq _ _ _ _ (by simp only [Int.ofNat_eq_natCast]; push_cast; ring)
  rw [hf]
  obtain ⟨hs, hg⟩ := foldl_set_diag (0 : ℝ) dl P.n (Array.replicate (P.n * P.n) 0) (by simp) P.n (le_refl _)
  apply GenBridge.ext_getD (0 : ℝ)
  · simp [hs]
  · intro j hj
    rw [hs] at hj
    rw [hg j, GenBridge.getD_ofFn, dif_pos hj, GenBridge.getD_replicate]
    have hn : 0 < P.n := by
      rcases Nat.eq_zero_or_pos P.n with h | h
      · simp [h] at hj
      · exact h
    have hdiv : j / P.n < P.n := by rw [Nat.div_lt_iff_lt_mul hn]; exact hj
    simp [hj, hdiv, Mixed.ofReal]

/-- **T12.4 from the GENERATED constructor through the GENERATED loop (ℝ).**  Construct a real `RlsFilter` by the regenerated
constructor (`λ > 0`, `δ > 0`, any length), run the regenerated loop body of `process` over any frame `(x, d)`: the `_p` it ends
with is the inverse of `R_k = (λ^k/δ)·I + Σ λ^{k-1-i} u_i u_iᵀ`, its `_w` solves the normal equations and is THE minimiser of the
exponentially weighted, diagonally regularised least-squares cost. -/
theorem rls_gen_from_ctor_is_wls (P : RlsP ℝ) (dl : ℝ) (hlam : 0 < P.mu) (hdl : 0 < dl) (x d g0 Pu0 uTP0 guP0 : Array ℝ)
    (hxd : x.size = d.size) :
    let o := Gen.rlsRCtor (P.n : Int) P.mu dl
    let run := runIdx (fun s k => Gen.rlsRStep (rlsObjRP o) s x d (k : Int))
      (Gen.rlsREnter (rlsObjRP o) ⟨o.u, o.w, o.p, g0, Pu0, uTP0, guP0⟩) x.size
    let ud := C12.regs P.n o.u (x.toList.zip d.toList)
    let Rk : Matrix (Fin P.n) (Fin P.n) ℝ := (P.mu ^ x.size / dl) • 1 + C12.wR P.mu ud
    let J : (Fin P.n → ℝ) → ℝ := fun v => P.mu ^ x.size / dl * (v ⬝ᵥ v) + C12.wJ P.mu ud v
    C12.Pm P.n run.1.p * Rk = 1 ∧ Rk *ᵥ C12.vecOf P.n run.1.w = C12.wB P.mu ud ∧
    C12.vecOf P.n run.1.w = C12.Pm P.n run.1.p *ᵥ C12.wB P.mu ud ∧
    (∀ v, J (C12.vecOf P.n run.1.w) ≤ J v) ∧ (∀ v, J v = J (C12.vecOf P.n run.1.w) → v = C12.vecOf P.n run.1.w) := by
  intro o
  have ho : o = rlsObjR P (rlsInit P dl) := rlsRCtor_eq P dl
  rw [ho]
  exact rls_gen_is_wls P dl hlam hdl x d g0 Pu0 uTP0 guP0 hxd

/-! ### `RlsFilter<cmplx_t>` -/

def rlsObjC (P : RlsP ℝ) (s : RlsState (Cx ℝ)) : Gen.RlsFilterCObj ℝ :=
  { n := (P.n : Int), mu := P.mu, u := s.u, w := s.w, p := s.p, locked := s.locked }

def rlsObjCP (o : Gen.RlsFilterCObj ℝ) : Gen.RlsFilterCStepParams ℝ := { n := o.n, mu := o.mu, locked := o.locked }

/-- **bridge, `RlsFilter<cmplx_t>::RlsFilter`** (`_p[i * _n + i] = diag_load` converts the real to `cmplx_t(diag_load, 0)`) -/
theorem rlsCCtor_eq (P : RlsP ℝ) (dl : ℝ) : Gen.rlsCCtor (P.n : Int) P.mu dl = rlsObjC P (rlsInit P dl) := by
  unfold Gen.rlsCCtor rlsObjC rlsInit
  simp only [Gen.arrNew, Int.toNat_natCast, ← Nat.cast_mul, zeroC_eq]
  congr 1
  have hf : (Gen.rlsCCtor_loop1 dl (P.n : Int) : Array (Cx ℝ) → Nat → Array (Cx ℝ)) =
      fun acc i => acc.setIfInBounds (i * P.n + i) (Mixed.ofReal dl) := by
    funext acc i
    simp only [Gen.rlsCCtor_loop1]
    rw [GenBridge.arrSet_eq _ _ (i * P.n + i) _ (by simp only [Int.ofNat_eq_natCast]; push_cast; ring)]
    simp [Mixed.ofReal]
  rw [hf]
  obtain ⟨hs, hg⟩ := foldl_set_diag (Mixed.zero ℝ : Cx ℝ) (Mixed.ofReal dl) P.n
    (Array.replicate (P.n * P.n) (Mixed.zero ℝ : Cx ℝ)) (by simp) P.n (le_refl _)
  apply GenBridge.ext_getD (Mixed.zero ℝ : Cx ℝ)
  · simp [hs]
  · intro j hj
    rw [hs] at hj
    rw [hg j, GenBridge.getD_ofFn, dif_pos hj, GenBridge.getD_replicate]
    have hn : 0 < P.n := by
      rcases Nat.eq_zero_or_pos P.n with h | h
      · simp [h] at hj
      · exact h
    have hdiv : j / P.n < P.n := by rw [Nat.div_lt_iff_lt_mul hn]; exact hj
    simp [hj, hdiv]

/-- the default arguments of the four constructors as the headers have them now -/
theorem ctor_defaults :
    (Gen.lmsRCtorDefault_method, (Gen.lmsRCtorDefault_leak : ℝ)) = (Gen.LmsType_LMS, 1) ∧
    (Gen.lmsCCtorDefault_method, (Gen.lmsCCtorDefault_leak : ℝ)) = (Gen.LmsType_LMS, 1) ∧
    ((Gen.rlsRCtorDefault_forget_factor : ℝ), (Gen.rlsRCtorDefault_diag_load : ℝ)) = (9 / 10, 1) ∧
    ((Gen.rlsCCtorDefault_forget_factor : ℝ), (Gen.rlsCCtorDefault_diag_load : ℝ)) = (9 / 10, 1) := by
  simp [Gen.lmsRCtorDefault_method, Gen.lmsRCtorDefault_leak, Gen.lmsCCtorDefault_method, Gen.lmsCCtorDefault_leak,
    Gen.rlsRCtorDefault_forget_factor, Gen.rlsRCtorDefault_diag_load, Gen.rlsCCtorDefault_forget_factor,
    Gen.rlsCCtorDefault_diag_load]

end
/-! END steps3 constructors -/

end Dsp.C12Gen
