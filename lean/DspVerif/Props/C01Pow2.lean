import DspVerif.Props.C01
import DspVerif.Props.C15
/-!
# C01 / T01.3 — the radix-2 network of `Pow2FftPlan` (`lib/fft/pow2-fft.cpp`) is the DFT

Model: `bitrevTable`, `bitreverse`, `stage`/`stages`, `pow2fft` of `Model/Fft.lean`, instantiated at `ℝ`.

* `rev t i`           bit reversal on `t` bits, by the very recursion `_gen_bitrev_table` uses
                      (`rev (t+1) i = 2·rev t i` for `i < 2^t`, `rev (t+1) (2^t + i) = 2·rev t i + 1`)
* `sum_rev`           `rev t` permutes `range (2^t)` (as a statement about sums)
* `bd s w k`          the value a block of size `2^s` holds at offset `k` after `s` cascades when the gathered block is `w`;
  `bd_succ`           radix-2 decimation in time (the butterfly), `bd_period`, `bd_full` (`bd l (x ∘ rev l) = dft (2^l) x`)
* `stages_inv`        after `s` cascades every aligned block of size `2^s` holds `bd s` of the gathered block
                      (`stage_lo` / `stage_hi`: upper / lower output of one butterfly; twiddle `cf[k·n/2^(s+1)] = ω_{2^(s+1)}^k`)
* `inner_inv`, `outer_inv`, `bitrevTable_getD`, `bitreverse_eq`
                      the loops of `_gen_bitrev_table` (half table, doubled) and the gather of `_bitreverse`
                      (upper half = lower half `+ 1`) leave `x[rev l i]` at position `i`
* `pow2fft_pow`       `n = 2^l`, `l ≥ 2` (covers the sizes 4 and 8 as well, which the library serves by the small kernels)
* `pow2fft_eq`        MAIN: the statement `hpow2` of `fftC_eq_partial` / `fftLeaf_eq`; no upper bound on `n`
* `fftC_eq_pow2`      corollary: `fft(arr_cmplx)` is the DFT for every power-of-two length (`n < 2^32`), unconditionally
-/

open Finset Complex
namespace Dsp.C01
open Dsp Dsp.Fft Dsp.Primes

/-- bit reversal on `t` bits, by the recursion of `_gen_bitrev_table` -/
def rev : ℕ → ℕ → ℕ
  | 0, _ => 0
  | t + 1, i => if i < 2 ^ t then 2 * rev t i else 2 * rev t (i - 2 ^ t) + 1

theorem rev_lo (t i : ℕ) (h : i < 2 ^ t) : rev (t + 1) i = 2 * rev t i := by
  rw [rev, if_pos h]

theorem rev_hi (t i : ℕ) : rev (t + 1) (2 ^ t + i) = 2 * rev t i + 1 := by
  rw [rev, if_neg (by omega), Nat.add_sub_cancel_left]

theorem sum_rev : ∀ (t : ℕ) (f : ℕ → ℂ), ∑ i ∈ range (2 ^ t), f (rev t i) = ∑ j ∈ range (2 ^ t), f j
  | 0, f => by simp [rev]
  | t + 1, f => by
    have e : 2 ^ (t + 1) = 2 ^ t + 2 ^ t := by rw [pow_succ]; omega
    rw [e, Finset.sum_range_add]
    have h1 : ∑ i ∈ range (2 ^ t), f (rev (t + 1) i) = ∑ j ∈ range (2 ^ t), f (2 * j) := by
      rw [← sum_rev t (fun j => f (2 * j))]
      apply Finset.sum_congr rfl
      intro i hi
      rw [rev_lo t i (Finset.mem_range.mp hi)]
    have h2 : ∑ i ∈ range (2 ^ t), f (rev (t + 1) (2 ^ t + i)) = ∑ j ∈ range (2 ^ t), f (2 * j + 1) := by
      rw [← sum_rev t (fun j => f (2 * j + 1))]
      apply Finset.sum_congr rfl
      intro i _
      rw [rev_hi]
    rw [h1, h2]
    have e2 : 2 ^ t + 2 ^ t = 2 ^ t * 2 := by omega
    rw [e2, sum_range_mul (2 ^ t) 2, Finset.sum_range_succ, Finset.sum_range_one]
    congr 1 <;> (apply Finset.sum_congr rfl; intro i _; congr 1; omega)

/-- the value a block of size `2^s` of the network holds at offset `k` when the gathered block is `w` -/
noncomputable def bd (s : ℕ) (w : ℕ → ℂ) (k : ℕ) : ℂ := ∑ i ∈ range (2 ^ s), w i * ω (2 ^ s) (rev s i * k)

theorem bd_congr (s : ℕ) (w w' : ℕ → ℂ) (h : ∀ i < 2 ^ s, w i = w' i) (k : ℕ) : bd s w k = bd s w' k := by
  unfold bd
  apply Finset.sum_congr rfl
  intro i hi
  rw [h i (Finset.mem_range.mp hi)]

theorem bd_period (s : ℕ) (w : ℕ → ℂ) (k : ℕ) : bd s w (k + 2 ^ s) = bd s w k := by
  unfold bd
  apply Finset.sum_congr rfl
  intro i _
  rw [Nat.mul_add, ω_add, Nat.mul_comm (rev s i) (2 ^ s), ω_self_mul _ _ (Nat.two_pow_pos s), mul_one]

/-- radix-2 decimation in time -/
theorem bd_succ (s : ℕ) (w : ℕ → ℂ) (k : ℕ) :
    bd (s + 1) w k = bd s w k + ω (2 ^ (s + 1)) k * bd s (fun i => w (2 ^ s + i)) k := by
  unfold bd
  have e : 2 ^ (s + 1) = 2 ^ s + 2 ^ s := by rw [pow_succ]; omega
  conv_lhs => rw [e, Finset.sum_range_add]
  rw [Finset.mul_sum]
  congr 1
  · apply Finset.sum_congr rfl
    intro i hi
    rw [← e, rev_lo s i (Finset.mem_range.mp hi), pow_succ,
      show 2 * rev s i * k = (rev s i * k) * 2 by ring, ω_scale _ 2 _ (by norm_num)]
  · apply Finset.sum_congr rfl
    intro i _
    rw [← e, rev_hi, show (2 * rev s i + 1) * k = (rev s i * k) * 2 + k by ring, ω_add]
    rw [pow_succ, ω_scale _ 2 _ (by norm_num)]
    ring

theorem bd_full (l : ℕ) (x : ℕ → ℂ) (k : ℕ) : bd l (fun i => x (rev l i)) k = dft (2 ^ l) x k := by
  unfold bd dft
  exact sum_rev l (fun j => x j * ω (2 ^ l) (j * k))

theorem ω_half_add (s k : ℕ) : ω (2 ^ (s + 1)) (2 ^ s + k) = -ω (2 ^ (s + 1)) k := by
  rw [ω_add, pow_succ, ω_half _ (Nat.two_pow_pos s)]; ring


theorem blk_lt {H D B k : ℕ} (hB : B < D) (hk : k < H) : B * H + k < D * H := by
  calc B * H + k < B * H + H := by omega
    _ = (B + 1) * H := by ring
    _ ≤ D * H := Nat.mul_le_mul_right _ hB

theorem stage_lo (H m : ℕ) (cf y : Vec ℝ) (B k : ℕ) (hk : k < H) :
    stage H m cf y (B * (2 * H) + k) =
      rd y (2 * B * H + k) + rd cf (k * m) * rd y ((2 * B + 1) * H + k) := by
  have hp : (B * (2 * H) + k) % (2 * H) = k := by
    rw [Nat.mul_add_mod']; exact Nat.mod_eq_of_lt (by omega)
  unfold stage
  simp only [hp, if_pos hk]
  congr 2
  · congr 1; ring
  · congr 1; ring

theorem stage_hi (H m : ℕ) (cf y : Vec ℝ) (B k : ℕ) (hk : k < H) :
    stage H m cf y (B * (2 * H) + (H + k)) =
      rd y (2 * B * H + k) - rd cf (k * m) * rd y ((2 * B + 1) * H + k) := by
  have hp : (B * (2 * H) + (H + k)) % (2 * H) = H + k := by
    rw [Nat.mul_add_mod']; exact Nat.mod_eq_of_lt (by omega)
  unfold stage
  simp only [hp, if_neg (show ¬ H + k < H by omega), Nat.add_sub_cancel_left]
  congr 2
  · have : B * (2 * H) + (H + k) = 2 * B * H + k + H := by ring
    rw [this, Nat.add_sub_cancel]
  · congr 1; ring

theorem stages_inv (l : ℕ) (cf y0 : Vec ℝ) (hcf : ∀ i < 2 ^ l, Cx.toC (rd cf i) = ω (2 ^ l) i) :
    ∀ s d, s + d = l → ∀ B < 2 ^ d, ∀ k < 2 ^ s,
      Cx.toC (rd (stages (2 ^ l) cf s y0) (B * 2 ^ s + k)) = bd s (fun j => seq y0 (B * 2 ^ s + j)) k
  | 0, d, _, B, _, k, hk => by
    have : k = 0 := by simpa using hk
    subst this
    simp [stages, bd, rev, ω_zero, seq]
  | s + 1, d, hl, B, hB, k, hk => by
    have ih := stages_inv l cf y0 hcf s (d + 1) (by omega)
    have hn : 2 ^ l = 2 ^ d * 2 ^ (s + 1) := by rw [← hl, pow_add, Nat.mul_comm]
    have hm : 2 ^ l / 2 ^ (s + 1) = 2 ^ d := by
      rw [hn]; exact Nat.mul_div_cancel _ (Nat.two_pow_pos _)
    have hH : 2 ^ (s + 1) = 2 * 2 ^ s := by rw [pow_succ]; ring
    have hD : 2 ^ (d + 1) = 2 * 2 ^ d := by rw [pow_succ]; ring
    have hHpos : 0 < 2 ^ s := Nat.two_pow_pos s
    have hidx : B * 2 ^ (s + 1) + k < 2 ^ l := by rw [hn]; exact blk_lt hB hk
    simp only [stages]
    rw [rd_mk_lt _ _ _ hidx, hm, bd_succ]
    -- the twiddle
    have htw : ∀ k' < 2 ^ s, Cx.toC (rd cf (k' * 2 ^ d)) = ω (2 ^ (s + 1)) k' := by
      intro k' hk'
      have hlt : k' * 2 ^ d < 2 ^ l := by
        rw [hn, Nat.mul_comm (2 ^ d)]
        exact Nat.mul_lt_mul_of_pos_right (by omega) (Nat.two_pow_pos d)
      rw [hcf _ hlt, hn, Nat.mul_comm (2 ^ d), ω_scale _ _ _ (Nat.two_pow_pos d)]
    have hE : ∀ k' < 2 ^ s, Cx.toC (rd (stages (2 ^ l) cf s y0) (2 * B * 2 ^ s + k'))
        = bd s (fun j => seq y0 (B * 2 ^ (s + 1) + j)) k' := by
      intro k' hk'
      rw [ih (2 * B) (by omega) k' hk']
      apply bd_congr; intro i _; congr 1; rw [hH]; ring
    have hO : ∀ k' < 2 ^ s, Cx.toC (rd (stages (2 ^ l) cf s y0) ((2 * B + 1) * 2 ^ s + k'))
        = bd s (fun j => seq y0 (B * 2 ^ (s + 1) + (2 ^ s + j))) k' := by
      intro k' hk'
      rw [ih (2 * B + 1) (by omega) k' hk']
      apply bd_congr; intro i _; congr 1; rw [hH]; ring
    rw [hH]
    by_cases hlo : k < 2 ^ s
    · rw [stage_lo _ _ _ _ _ _ hlo, Cx.toC_add, Cx.toC_mul, htw k hlo, hE k hlo, hO k hlo, hH]
    · obtain ⟨k', rfl⟩ : ∃ k', k = 2 ^ s + k' := ⟨k - 2 ^ s, by omega⟩
      have hk' : k' < 2 ^ s := by omega
      rw [stage_hi _ _ _ _ _ _ hk', Cx.toC_sub, Cx.toC_mul, htw k' hk', hE k' hk', hO k' hk', ← hH, ω_half_add]
      rw [Nat.add_comm (2 ^ s) k', bd_period, bd_period]
      ring


/-! ## the bit-reversal table -/

theorem getD_set (r : Array ℕ) (i j v : ℕ) :
    (r.setIfInBounds i v).getD j 0 = if i = j ∧ i < r.size then v else r.getD j 0 := by
  simp only [Array.getD_eq_getD_getElem?, Array.getElem?_setIfInBounds]
  by_cases h : i = j
  · subst h
    by_cases h' : i < r.size
    · simp [h']
    · simp [h']
  · simp [h]

/-- body of the inner loop of `_gen_bitrev_table` -/
def brStep (h : ℕ) (r : Array ℕ) (k : ℕ) : Array ℕ :=
  let r := r.setIfInBounds k (2 * r.getD k 0)
  r.setIfInBounds (k + h) (r.getD k 0 + 1)

/-- body of the outer loop -/
def brOuter (st : Array ℕ × ℕ) : Array ℕ × ℕ :=
  ((List.range st.2).foldl (brStep st.2) st.1, 2 * st.2)

theorem bitrevTable_unfold (n : ℕ) :
    bitrevTable n = ((List.range (nextpow2 n - 1)).foldl (fun st _ => brOuter st)
      (Array.replicate (n / 2) 0, 1)).1.map (fun v => 2 * v) := rfl

theorem brStep_size (h : ℕ) (r : Array ℕ) (k : ℕ) : (brStep h r k).size = r.size := by
  simp [brStep]

theorem brStep_getD (h : ℕ) (r : Array ℕ) (k : ℕ) (hk : k < h) (hs : k + h < r.size) (i : ℕ) :
    (brStep h r k).getD i 0 =
      if i = k then 2 * r.getD k 0 else if i = k + h then 2 * r.getD k 0 + 1 else r.getD i 0 := by
  unfold brStep
  simp only [getD_set, Array.size_setIfInBounds]
  have h1 : k < r.size := by omega
  by_cases a : i = k
  · subst a
    have hne' : ¬ (h = 0) := by omega
    simp [h1, hne']
  · by_cases b : i = k + h
    · subst b
      have hne' : ¬ (h = 0) := by omega
      simp [hs, h1, hne']
    · have a' : ¬ k = i := fun e => a e.symm
      have b' : ¬ k + h = i := fun e => b e.symm
      simp [a, b, a', b']

theorem inner_inv (h : ℕ) (r : Array ℕ) (hs : 2 * h ≤ r.size) : ∀ j ≤ h,
    ((List.range j).foldl (brStep h) r).size = r.size ∧
    ∀ i, ((List.range j).foldl (brStep h) r).getD i 0 =
      if i < j then 2 * r.getD i 0
      else if h ≤ i ∧ i < h + j then 2 * r.getD (i - h) 0 + 1 else r.getD i 0
  | 0, _ => by simp
  | j + 1, hj => by
    obtain ⟨h1, h2⟩ := inner_inv h r hs j (by omega)
    rw [List.range_succ, List.foldl_append, List.foldl_cons, List.foldl_nil]
    refine ⟨by rw [brStep_size, h1], fun i => ?_⟩
    rw [brStep_getD h _ j (by omega) (by omega) i, h2 j, h2 i]
    have e : (if j < j then 2 * r.getD j 0 else if h ≤ j ∧ j < h + j then 2 * r.getD (j - h) 0 + 1 else r.getD j 0)
        = r.getD j 0 := by
      rw [if_neg (show ¬ j < j by omega), if_neg (show ¬ (h ≤ j ∧ j < h + j) by omega)]
    rw [e]
    by_cases a : i = j
    · subst a; simp
    · by_cases b : i = j + h
      · subst b
        have : j + h - h = j := by omega
        rw [if_neg a, if_pos rfl, if_neg (show ¬ j + h < j + 1 by omega),
          if_pos (show h ≤ j + h ∧ j + h < h + (j + 1) by omega), this]
      · rw [if_neg a, if_neg b]
        by_cases c : i < j
        · rw [if_pos c, if_pos (show i < j + 1 by omega)]
        · rw [if_neg c, if_neg (show ¬ i < j + 1 by omega)]
          by_cases d : h ≤ i ∧ i < h + j
          · rw [if_pos d, if_pos (show h ≤ i ∧ i < h + (j + 1) by omega)]
          · rw [if_neg d, if_neg (show ¬ (h ≤ i ∧ i < h + (j + 1)) by omega)]

theorem outer_inv (N : ℕ) : ∀ t, 2 ^ t ≤ N →
    ((List.range t).foldl (fun st _ => brOuter st) (Array.replicate N 0, 1)).2 = 2 ^ t ∧
    ((List.range t).foldl (fun st _ => brOuter st) (Array.replicate N 0, 1)).1.size = N ∧
    ∀ i < 2 ^ t, ((List.range t).foldl (fun st _ => brOuter st) (Array.replicate N 0, 1)).1.getD i 0 = rev t i
  | 0, h0 => by
    refine ⟨rfl, by simp, fun i hi => ?_⟩
    have hi0 : i = 0 := by simpa using hi
    have hN : 0 < N := by rw [pow_zero] at h0; omega
    subst hi0
    simp [rev, hN]
  | t + 1, ht => by
    have hH : 2 ^ (t + 1) = 2 * 2 ^ t := by rw [pow_succ]; ring
    obtain ⟨h1, h2, h3⟩ := outer_inv N t (by omega)
    rw [List.range_succ, List.foldl_append, List.foldl_cons, List.foldl_nil]
    generalize (List.range t).foldl (fun st _ => brOuter st) (Array.replicate N 0, 1) = st at h1 h2 h3
    unfold brOuter
    simp only []
    rw [h1]
    obtain ⟨g1, g2⟩ := inner_inv (2 ^ t) st.1 (by omega) (2 ^ t) (le_refl _)
    refine ⟨by rw [hH], by rw [g1, h2], fun i hi => ?_⟩
    rw [g2 i, rev]
    by_cases c : i < 2 ^ t
    · rw [if_pos c, if_pos c, h3 i c]
    · rw [if_neg c, if_neg c, if_pos (by omega), h3 _ (by omega)]

/-- the half table holds the doubled bit reversal on `l` bits (`n = 2^(l+1)`) -/
theorem bitrevTable_getD (l : ℕ) (hnp : nextpow2 (2 ^ (l + 1)) = l + 1) (i : ℕ) (hi : i < 2 ^ l) :
    (bitrevTable (2 ^ (l + 1))).getD i 0 = 2 * rev l i := by
  have hd : 2 ^ (l + 1) / 2 = 2 ^ l := by rw [pow_succ]; omega
  rw [bitrevTable_unfold, hnp, hd, Nat.add_sub_cancel]
  obtain ⟨_, h2, h3⟩ := outer_inv (2 ^ l) l (le_refl _)
  rw [Array.getD_eq_getD_getElem?, Array.getElem?_map]
  have := h3 i hi
  rw [Array.getD_eq_getD_getElem?] at this
  have hlt : i < ((List.range l).foldl (fun st _ => brOuter st) (Array.replicate (2 ^ l) 0, 1)).1.size := by
    rw [h2]; exact hi
  rw [Array.getElem?_eq_getElem hlt] at this ⊢
  simpa using this

/-- `_bitreverse` gathers `x[rev i]` -/
theorem bitreverse_eq (l : ℕ) (hnp : nextpow2 (2 ^ (l + 1)) = l + 1) (x : Vec ℝ) (i : ℕ) (hi : i < 2 ^ (l + 1)) :
    bitreverse (2 ^ (l + 1)) (bitrevTable (2 ^ (l + 1))) x i = rd x (rev (l + 1) i) := by
  have hd : 2 ^ (l + 1) / 2 = 2 ^ l := by rw [pow_succ]; omega
  have hH : 2 ^ (l + 1) = 2 * 2 ^ l := by rw [pow_succ]; ring
  unfold bitreverse
  rw [hd, rev]
  by_cases c : i < 2 ^ l
  · rw [if_pos c, if_pos c, bitrevTable_getD l hnp i c]
  · rw [if_neg c, if_neg c, bitrevTable_getD l hnp _ (by omega)]

/-- T01.3 for `n = 2^l`, `l ≥ 2` (so that `4 ∣ n` and the quarter-wave coefficient table is defined) -/
theorem pow2fft_pow (l : ℕ) (hl : 2 ≤ l) (hnp : nextpow2 (2 ^ l) = l) : IsDft (2 ^ l) (pow2fft (2 ^ l)) := by
  intro x k hk
  obtain ⟨l', rfl⟩ : ∃ l', l = l' + 1 := ⟨l - 1, by omega⟩
  have h4 : 4 ∣ 2 ^ (l' + 1) := by
    obtain ⟨m, rfl⟩ : ∃ m, l' = m + 1 := ⟨l' - 1, by omega⟩
    exact ⟨2 ^ m, by rw [pow_succ, pow_succ]; ring⟩
  unfold pow2fft
  rw [hnp]
  have hcf : ∀ i < 2 ^ (l' + 1), Cx.toC (rd (mk (2 ^ (l' + 1)) (coeffs (α := ℝ) (2 ^ (l' + 1)))) i) = ω (2 ^ (l' + 1)) i := by
    intro i hi
    rw [rd_mk_lt _ _ _ hi, coeffs_eq _ h4 (Nat.two_pow_pos _) i hi]
  have key := stages_inv (l' + 1) _ (mk (2 ^ (l' + 1)) (bitreverse (2 ^ (l' + 1)) (bitrevTable (2 ^ (l' + 1))) x))
    hcf (l' + 1) 0 rfl 0 (by norm_num) k hk
  rw [Nat.zero_mul, Nat.zero_add] at key
  rw [key, ← bd_full]
  apply bd_congr
  intro i hi
  simp only [Nat.zero_add, seq]
  rw [rd_mk_lt _ _ _ hi, bitreverse_eq l' hnp x i hi]

/-- T01.3: the radix-2 network of `Pow2FftPlan` (bit-reversal gather, `log2 n` butterfly cascades reading the
    quarter-wave coefficient table) is the DFT, for every power of two the plan is built for (`n ≥ 16`; no upper bound) -/
theorem pow2fft_eq (n : ℕ) (hs : isSmall n = false) (h2 : ispow2 n = true) : IsDft n (pow2fft n) := by
  have hn : 2 ^ nextpow2 n = n := by
    unfold ispow2 at h2
    simpa [Nat.one_shiftLeft] using h2
  have key : ∀ l, 2 ^ l = n → nextpow2 n = l → IsDft n (pow2fft n) := by
    intro l hln hnp
    subst hln
    have hl : 2 ≤ l := by
      by_contra hc
      have : l = 0 ∨ l = 1 := by omega
      rcases this with h | h <;> subst h <;> simp [isSmall] at hs
    exact pow2fft_pow l hl hnp
  exact key _ hn rfl

/-- corollary (T01.10 for powers of two): `fft(arr_cmplx)` / `FftPlan(n)` is the DFT for EVERY power-of-two length,
    with no component left as a hypothesis (`n < 2^32`: the range on which `isprime` is the primality test, T15) -/
theorem fftC_eq_pow2 (lit : Lits ℝ) (hl : LitsOK lit) (n : ℕ) (hn : n < 2 ^ 32) (h2 : ispow2 n = true) :
    IsDft n (fftC lit n) := by
  have hpw : 2 ^ nextpow2 n = n := by
    unfold ispow2 at h2
    simpa [Nat.one_shiftLeft] using h2
  have hpos : 0 < n := by rw [← hpw]; exact Nat.two_pow_pos _
  apply fftC_eq_partial lit hl n hpos
  · intro hs hp _
    exfalso
    have hprime : Nat.Prime n := (C15.isprime_iff n hn).mp hp
    rw [← hpw] at hprime hs
    generalize nextpow2 n = l at hprime hs
    have h21 : 2 = 2 ^ l := (Nat.prime_dvd_prime_iff_eq Nat.prime_two hprime).mp
      (dvd_pow_self 2 (by rintro rfl; exact Nat.not_prime_one (by simpa using hprime)))
    rw [← h21] at hs
    simp [isSmall] at hs
  · intro hs _ _; exact pow2fft_eq n hs h2
  · intro _ _ h; rw [h2] at h; cases h

/-! ## instances (non-vacuity) -/

/-- `rev 3` is the 3-bit reversal -/
example : (List.range 8).map (rev 3) = [0, 4, 2, 6, 1, 5, 3, 7] := by decide

/-- the half table `_gen_bitrev_table(16)` builds (already doubled) -/
example : bitrevTable 16 = #[0, 8, 4, 12, 2, 10, 6, 14] := by decide +kernel

/-- the hypotheses of `pow2fft_eq` hold at the smallest size the plan is built for, and at a larger one -/
example : isSmall 16 = false ∧ ispow2 16 = true ∧ isSmall 1024 = false ∧ ispow2 1024 = true := by decide

example : IsDft 16 (pow2fft 16) := pow2fft_eq 16 (by decide) (by decide)

example (lit : Lits ℝ) (hl : LitsOK lit) : IsDft 4096 (fftC lit 4096) :=
  fftC_eq_pow2 lit hl 4096 (by norm_num) (by decide)

end Dsp.C01
