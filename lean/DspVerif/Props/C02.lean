import DspVerif.Lib.C02Model
/-!
# C02 — inverse transforms invert the forward transforms

Theorems over the executable model `Model/Ifft.lean` (`lib/fft/ifft.cpp`, `lib/stft.cpp`), exact arithmetic (`ℝ`/`ℂ`) or
structural (every scalar type).  The forward transforms enter through the hypotheses `IsDft fwd` / `IsRDft rfwd`
("the forward plan computes the DFT", the statement of property C01 for `Fft.fftC` / `Fft.fftR`); both are satisfiable
(`isDft_exists`, `isRDft_exists`), and `*_model` specialise the theorems to the functions the driver runs.

* T02.1 `ifft_eq_idft`, `ifft_fft`, `fft_ifft`           — every `n ≥ 1`; the empty input is rejected (`ifft_empty`)
* T02.2 `irfftCoeffs_eq`                                  — the table of `IfftPlanR` is `exp(+2πi·k/n)` for EVERY even `n` (both fill paths)
* T02.3 `irfft_eq`, `irfft_forms_agree`, `irfft_half_eq_full`, `irfft_of_dft`, `irfft_rfft`
* T02.4 `irfft_odd`, `irfft_wrong_size`
* T02.5 `range_roundtrip_twosided/centered/onesided/low`  — every scalar type
* T02.6 `istft_stft`                                      — reconstruction on every sample whose accumulated weight exceeds the guard
* T02.7 `istft_finite`, `istft_cells`                      — no division of `istft` has a zero denominator (every `nseg`, incl. `0`)

Floating-point rounding is not modelled; the reconstruction tolerances are measured by the oracle of `harness/c02.cpp`.
-/
namespace Dsp
namespace C02
open Dsp.Ifft Dsp.C07

/-! ## T02.1 `ifft` -/

/-- T02.1: `IfftPlan::solve` (scale, conj, fft, conj) computes the inverse DFT `(1/n) Σ_k X k · ω^{-kt}` for every length `n ≥ 1`,
given that the forward plan computes the DFT -/
theorem ifft_eq_idft (fwd : Nat → Vec ℝ → Vec ℝ) (hF : IsDft fwd) (X : Vec ℝ) (hX : 1 ≤ X.size) :
    ∃ y, ifftWith fwd X = .ok y ∧ y.size = X.size ∧ ∀ t < X.size, seq y t = idft X.size (seq X) t := by
  refine ⟨ifftCore fwd X, ?_, ifftCore_size fwd X, fun t ht => ifftCore_eq_idft fwd hF X t ht⟩
  unfold ifftWith; rw [if_neg (by omega)]

/-- T02.1 (clause "for every n ≥ 1, ifft(fft(x)) reproduces x"): exact arithmetic, equality of arrays -/
theorem ifft_fft (fwd : Nat → Vec ℝ → Vec ℝ) (hF : IsDft fwd) (x : Vec ℝ) (hx : 1 ≤ x.size) :
    ifftWith fwd (fwd x.size x) = .ok x := Ifft.ifft_fft fwd hF x hx

/-- T02.1 (the other composition): `fft(ifft(X)) = X` for every `n ≥ 1` -/
theorem fft_ifft (fwd : Nat → Vec ℝ → Vec ℝ) (hF : IsDft fwd) (X : Vec ℝ) (hX : 1 ≤ X.size) :
    ∃ y, ifftWith fwd X = .ok y ∧ y.size = X.size ∧ fwd X.size y = X := Ifft.fft_ifft fwd hF X hX

/-- the excluded point `n = 0`: the empty input is rejected (`FftPlan(0)` throws) — every scalar type -/
theorem ifft_empty {α : Type} [Mul α] [Div α] [Neg α] [Fn α] (fwd : Nat → Vec α → Vec α) : ∃ e, ifftWith fwd #[] = .error e := ⟨_, rfl⟩

/-! ## T02.2 the coefficient table of `IfftPlanR` -/

/-- T02.2: for EVERY even `n` (the direct loop for `4 ∤ n` and the quarter-wave fill for `4 ∣ n`) cell `i < n/2` of
`_irfft_coeffs(n)` is `exp(+2πi·i/n) = ω_n^{-i}` -/
theorem irfftCoeffs_eq (n i : ℕ) (hn : n % 2 = 0) (hi : i < n / 2) :
    Cx.toC (irfftCoeff (α := ℝ) n i) = (ω n i)⁻¹ := irfftCoeff_eq n i hn hi

/-- … as real and imaginary parts -/
theorem irfftCoeffs_re_im (n i : ℕ) (hn : n % 2 = 0) (hi : i < n / 2) :
    (irfftCoeff (α := ℝ) n i).re = Real.cos (2 * Real.pi * i / n) ∧
    (irfftCoeff (α := ℝ) n i).im = Real.sin (2 * Real.pi * i / n) := irfftCoeff_re_im n i hn hi

/-! ## T02.3 / T02.4 `irfft` -/

section generic
variable {α : Type} [Add α] [Sub α] [Mul α] [Div α] [Neg α] [Fn α]

theorem irfftZ_congr_low (n : ℕ) (a b : Vec α) (h : ∀ i, i ≤ n / 2 → rd a i = rd b i) : irfftZ n a = irfftZ n b := by
  unfold irfftZ
  apply mk_congr
  intro i hi
  simp only [h i (by omega), h (n / 2 - i) (by omega)]

theorem irfftCore_congr_low (fwd : Nat → Vec α → Vec α) (n : ℕ) (a b : Vec α) (h : ∀ i, i ≤ n / 2 → rd a i = rd b i) :
    irfftCore fwd n a = irfftCore fwd n b := by
  unfold irfftCore
  rw [irfftZ_congr_low n a b h]

omit [Add α] [Sub α] [Mul α] [Div α] [Neg α] in
theorem rd_extract_low (x : Vec α) (m i : ℕ) (hi : i < m) : rd (x.extract 0 m) i = rd x i := by
  unfold rd
  by_cases h : i < x.size
  · simp [Array.getD, h, hi]
  · simp [Array.getD, h]

/-- T02.3 (both input forms, every scalar type): `irfft(X, n)` returns the same signal whether it is given all `n` bins or
only the first `n/2 + 1` — the two inputs only have to agree on the bins `0 … n/2`. -/
theorem irfft_forms_agree (fwd : Nat → Vec α → Vec α) (n : ℕ) (hn : n % 2 = 0) (h2 : 2 ≤ n) (Xh X : Vec α)
    (hXh : Xh.size = n / 2 + 1) (hX : X.size = n) (hlow : ∀ i, i ≤ n / 2 → rd Xh i = rd X i) :
    irfftWith fwd n Xh = irfftWith fwd n X ∧ ∃ r, irfftWith fwd n X = .ok r := by
  unfold irfftWith
  rw [if_neg (by omega), if_neg (by omega), if_neg (by omega), if_neg (by omega), if_neg (by omega), if_neg (by omega),
    irfftCore_congr_low fwd n Xh X hlow]
  exact ⟨rfl, _, rfl⟩

/-- … in particular for the first `n/2 + 1` bins of the same array -/
theorem irfft_half_eq_full (fwd : Nat → Vec α → Vec α) (n : ℕ) (hn : n % 2 = 0) (h2 : 2 ≤ n) (X : Vec α) (hX : X.size = n) :
    irfftWith fwd n (X.extract 0 (n / 2 + 1)) = irfftWith fwd n X :=
  (irfft_forms_agree fwd n hn h2 _ X (by simp [Array.size_extract]; omega) hX (fun i hi => rd_extract_low X _ i (by omega))).1

/-- T02.4: an odd transform size is rejected, whatever the input -/
theorem irfft_odd (fwd : Nat → Vec α → Vec α) (n : ℕ) (hn : n % 2 = 1) (X : Vec α) :
    ∃ e, irfftWith fwd n X = .error e := by
  unfold irfftWith
  by_cases h : n < 2
  · exact ⟨_, if_pos h⟩
  · rw [if_neg h, if_pos (by omega)]; exact ⟨_, rfl⟩

/-- … and so is an input that has neither `n` nor `n/2 + 1` bins, and the size `0` -/
theorem irfft_wrong_size (fwd : Nat → Vec α → Vec α) (n : ℕ) (X : Vec α) (h1 : X.size ≠ n) (h2 : X.size ≠ n / 2 + 1) :
    ∃ e, irfftWith fwd n X = .error e := by
  unfold irfftWith
  by_cases h : n < 2
  · exact ⟨_, if_pos h⟩
  · rw [if_neg h]
    by_cases hp : n % 2 ≠ 0
    · exact ⟨_, if_pos hp⟩
    · rw [if_neg hp, if_pos ⟨h1, h2⟩]; exact ⟨_, rfl⟩

end generic

/-- `rfwd n` computes the `n`-point DFT of every real `n`-vector (what `Props/C01` proves of `Fft.fftR lit`) -/
def IsRDft (rfwd : Nat → Array ℝ → Vec ℝ) : Prop :=
  ∀ n (x : Array ℝ), x.size = n → (rfwd n x).size = n ∧ ∀ k < n, Cx.toC (rd (rfwd n x) k) = dft n (seqR x) k

/-- T02.3: for every even `n` and every Hermitian spectrum `X`, `irfft(X, n)` is the real signal whose `n`-point
transform is `X` (the inverse DFT, which is real) -/
theorem irfft_eq (fwd : Nat → Vec ℝ → Vec ℝ) (hF : IsDft fwd) (n : ℕ) (hn : n % 2 = 0) (h2 : 2 ≤ n) (X : Vec ℝ) (hX : X.size = n)
    (hsym : ∀ k < n, seq X ((n - k) % n) = (starRingEnd ℂ) (seq X k)) :
    ∃ r, irfftWith fwd n X = .ok r ∧ r.size = n ∧ ∀ t < n, ((rdR r t : ℝ) : ℂ) = idft n (seq X) t := by
  obtain ⟨h, rfl⟩ : ∃ h, n = h * 2 := ⟨n / 2, by omega⟩
  refine ⟨irfftCore fwd (h * 2) X, ?_, by simp [irfftCore], fun t ht => irfftCore_eq fwd hF h (by omega) X hsym t ht⟩
  unfold irfftWith
  rw [if_neg (by omega), if_neg (by omega), if_neg (by omega)]

/-- T02.3 (`irfft_rfft`): for every even `n`, `irfft` applied to the transform of a real signal `x` returns `x` — from all
`n` bins and from the first `n/2 + 1` alike (exact arithmetic, as arrays) -/
theorem irfft_of_dft (fwd : Nat → Vec ℝ → Vec ℝ) (hF : IsDft fwd) (n : ℕ) (hn : n % 2 = 0) (h2 : 2 ≤ n)
    (x : Array ℝ) (hx : x.size = n) (X : Vec ℝ) (hXs : X.size = n) (hXv : ∀ k < n, Cx.toC (rd X k) = dft n (seqR x) k) :
    irfftWith fwd n X = .ok x ∧ irfftWith fwd n (X.extract 0 (n / 2 + 1)) = .ok x := by
  have hsym : ∀ k < n, seq X ((n - k) % n) = (starRingEnd ℂ) (seq X k) := by
    intro k hk
    unfold seq
    rw [hXv k hk, hXv _ (Nat.mod_lt _ (by omega))]
    exact dft_conj_symm n (by omega) (fun m => rdR x m) k hk
  obtain ⟨r, hr, hrs, hrv⟩ := irfft_eq fwd hF n hn h2 X hXs hsym
  have hrx : r = x := by
    apply arr_ext _ _ (by rw [hrs, hx])
    intro t ht
    rw [hrs] at ht
    have := hrv t ht
    rw [idft_congr n (seq X) (dft n (seqR x)) (fun k hk => hXv k hk), idft_dft n (by omega) _ t ht] at this
    unfold seqR at this
    exact_mod_cast this
  rw [irfft_half_eq_full fwd n hn h2 X hXs, hr, hrx]
  exact ⟨rfl, rfl⟩

theorem irfft_rfft (fwd : Nat → Vec ℝ → Vec ℝ) (rfwd : Nat → Array ℝ → Vec ℝ) (hF : IsDft fwd) (hR : IsRDft rfwd)
    (x : Array ℝ) (hn : x.size % 2 = 0) (h2 : 2 ≤ x.size) :
    irfftWith fwd x.size (rfwd x.size x) = .ok x ∧
    irfftWith fwd x.size ((rfwd x.size x).extract 0 (x.size / 2 + 1)) = .ok x := by
  obtain ⟨hs, hv⟩ := hR x.size x rfl
  exact irfft_of_dft fwd hF x.size hn h2 x rfl _ hs hv

/-! ## T02.5 the frequency ranges -/
section ranges
variable {α : Type} [Neg α] [Fn α]

/-- T02.5 (two-sided): `_convert_range_istft ∘ _convert_range_stft = id` — every scalar type, every `n` -/
theorem range_roundtrip_twosided (X : Vec α) (n : ℕ) (hX : X.size = n) :
    convertRangeIstft (convertRangeStft X n 1) n 1 = .ok X := Ifft.range_roundtrip_twosided X n hX

/-- T02.5 (centred): the two rotations are inverse index permutations for every even `n ≥ 2` -/
theorem range_roundtrip_centered (X : Vec α) (n : ℕ) (hn : n % 2 = 0) (h2 : 2 ≤ n) (hX : X.size = n) :
    convertRangeIstft (convertRangeStft X n 0) n 0 = .ok X := Ifft.range_roundtrip_centered X n hn h2 hX

/-- T02.5 (one-sided): the upper bins are rebuilt by conjugate symmetry, so the round trip is the identity on Hermitian frames -/
theorem range_roundtrip_onesided (X : Vec α) (n : ℕ) (hn : n % 2 = 0) (h2 : 2 ≤ n) (hX : X.size = n)
    (hsym : ∀ j, n / 2 < j → j < n → rd X j = Cx.conj (rd X (n - j))) :
    convertRangeIstft (convertRangeStft X n 2) n 2 = .ok X := Ifft.range_roundtrip_onesided X n hn h2 hX hsym

/-- T02.5 (all three ranges, NO symmetry assumed): the round trip succeeds, has `n` bins and agrees with `X` on the bins
`0 … n/2` — the only ones `IfftPlanR::solve` reads (`irfftCore_congr_low`) -/
theorem range_roundtrip_low (X : Vec α) (n r : ℕ) (hn : n % 2 = 0) (h2 : 2 ≤ n) (hX : X.size = n) (hr : r ≤ 2) :
    convertRangeIstft (convertRangeStft X n r) n r = .ok (convertRangeIstftCore (convertRangeStft X n r) n r) ∧
    (convertRangeIstftCore (convertRangeStft X n r) n r).size = n ∧
    ∀ i, i ≤ n / 2 → rd (convertRangeIstftCore (convertRangeStft X n r) n r) i = rd X i :=
  Ifft.range_roundtrip_low X n r hn h2 hX hr

end ranges

/-! ## T02.7 / T02.6 `istft` -/

theorem eps_pos : (0 : ℝ) < (Ifft.eps : ℝ) := by
  unfold Ifft.eps; simp

/-- T02.7 (the guard): whatever the accumulated weight `v` and the number of frames (`0` included), the value `istft` divides by
— `v <= nseg * eps() ? 1 : v` — is not zero -/
theorem normGuard_ne_zero (nseg : ℕ) (v : ℝ) : normGuard nseg v ≠ 0 := by
  unfold normGuard
  split_ifs with h
  · simp
  · have : (0 : ℝ) ≤ Fn.ofNat nseg * Ifft.eps := by
      have := eps_pos
      simp only [fn_ofNat]
      positivity
    have := not_le.mp h
    linarith

/-- the accumulation over the covering frames only depends on the covered cells -/
theorem overlapAdd_congr (nseg hop nwin : ℕ) (g g' : ℕ → ℕ → ℝ) (t : ℕ)
    (h : ∀ i < nseg, i * hop ≤ t → t < i * hop + nwin → g i (t - i * hop) = g' i (t - i * hop)) :
    overlapAdd nseg hop nwin g t = overlapAdd nseg hop nwin g' t := by
  unfold overlapAdd
  induction nseg with
  | zero => rfl
  | succ n ih =>
    rw [List.range_succ, List.foldl_append, List.foldl_append, ih (fun i hi => h i (by omega))]
    simp only [List.foldl_cons, List.foldl_nil]
    by_cases hc : n * hop ≤ t ∧ t < n * hop + nwin
    · rw [if_pos hc, if_pos hc, h n (by omega) hc.1 hc.2]
    · rw [if_neg hc, if_neg hc]

theorem overlapAdd_mul_left (nseg hop nwin : ℕ) (c : ℝ) (d : ℕ → ℕ → ℝ) (t : ℕ) :
    overlapAdd nseg hop nwin (fun i j => c * d i j) t = c * overlapAdd nseg hop nwin d t := by
  unfold overlapAdd
  induction nseg with
  | zero => simp
  | succ n ih =>
    rw [List.range_succ, List.foldl_append, List.foldl_append, ih]
    simp only [List.foldl_cons, List.foldl_nil]
    split_ifs <;> ring

/-- the accumulated window weight `norm_val[t]` of `istft` before the guard: `Σ_i win^(a+1)[t - i·hop]` over the frames covering `t` -/
noncomputable def weight (win : Array ℝ) (nseg hop method : ℕ) (t : ℕ) : ℝ :=
  overlapAdd nseg hop win.size (fun _ j => if method = 0 then rdR win j else rdR win j * rdR win j) t

theorem irfftCore_of_dft (fwd : Nat → Vec ℝ → Vec ℝ) (hF : IsDft fwd) (n : ℕ) (hn : n % 2 = 0) (h2 : 2 ≤ n)
    (x : Array ℝ) (hx : x.size = n) (X : Vec ℝ) (hXs : X.size = n) (hXv : ∀ k < n, Cx.toC (rd X k) = dft n (seqR x) k) :
    irfftCore fwd n X = x := by
  have := (irfft_of_dft fwd hF n hn h2 x hx X hXs hXv).1
  unfold irfftWith at this
  rw [if_neg (by omega), if_neg (by omega), if_neg (by omega)] at this
  exact Except.ok.inj this

theorem size_frame (x win : Array ℝ) (hop nfft i : ℕ) : (frame x win hop nfft i).size = nfft := by simp [frame]

/-- T02.7 (`istft_finite`, clause "contains only finite values"): whenever `istft` accepts its arguments, the output has
`nwin + (nseg - 1)·hop` samples (`overlap` samples for `nseg = 0`) and EVERY one of them — the guard runs over all `xlen` samples — is a
quotient whose denominator is the guarded weight, which is never zero: no division by zero anywhere in `istft`,
for every window (zeros and negative taps included), overlap, range, method and list of frames. -/
theorem istft_finite (fwd : Nat → Vec ℝ → Vec ℝ) (xx : Array (Vec ℝ)) (win : Array ℝ) (overlap nfft range method : ℕ) (y : Array ℝ)
    (h : istftWith fwd xx win overlap nfft range method = .ok y) :
    y.size = outLen xx.size win.size (win.size - overlap) ∧
    ∀ t < y.size, ∃ num : ℝ,
      rdR y t = num / normGuard xx.size (weight win xx.size (win.size - overlap) method t) ∧
      normGuard xx.size (weight win xx.size (win.size - overlap) method t) ≠ 0 := by
  unfold istftWith at h
  split_ifs at h
  have hy := (Except.ok.inj h).symm
  subst hy
  refine ⟨by simp [istftCore], ?_⟩
  intro t ht
  unfold istftCore at ht ⊢
  simp only [size_mkR] at ht
  simp only []
  rw [rdR_mkR_lt _ _ _ ht]
  exact ⟨_, rfl, normGuard_ne_zero _ _⟩

/-- T02.6 (clause "istft(stft(x)) reproduces x on every sample where the accumulated window weight is non-zero"), exact arithmetic:
for EVERY window (no COLA assumption is needed), every overlap `< nwin`, `nwin ≤ nfft`, every even `nfft ≥ 2`, the three ranges and
both methods, `stft` accepts, produces `(nx - overlap) / hop` frames, `istft` accepts them and returns `nwin + (nseg-1)·hop` samples,
and `y[t] = x[t]` at every sample `t` whose accumulated weight `Σ_i win^(a+1)[t - i·hop]` passes the code's guard (`> nseg·eps`).
(The excluded samples are exactly those the guard replaces by `1`: there the code returns `Σ y·win^a`, see `istft_finite`.) -/
theorem istft_stft (fwd : Nat → Vec ℝ → Vec ℝ) (rfwd : Nat → Array ℝ → Vec ℝ) (hF : IsDft fwd) (hR : IsRDft rfwd)
    (x win : Array ℝ) (overlap nfft range method : ℕ)
    (hov : overlap < win.size) (hwin : win.size ≤ nfft) (hn : nfft % 2 = 0) (h2 : 2 ≤ nfft) (hr : range ≤ 2) :
    ∃ S y, stftWith rfwd x win overlap nfft range = .ok S ∧ S.size = numSeg x.size win.size overlap ∧
      istftWith fwd S win overlap nfft range method = .ok y ∧
      y.size = outLen S.size win.size (win.size - overlap) ∧
      ∀ t < y.size, (S.size : ℝ) * Ifft.eps < weight win S.size (win.size - overlap) method t → rdR y t = rdR x t := by
  -- the forward side
  obtain ⟨S, hSdef⟩ : ∃ S : Array (Vec ℝ), S = Array.ofFn (n := (numSeg x.size win.size overlap)) (fun i => convertRangeStft (rfwd nfft (frame x win (win.size - overlap) nfft i.val)) nfft range) := ⟨_, rfl⟩
  have hS : stftWith rfwd x win overlap nfft range = .ok S := by
    unfold stftWith
    rw [if_neg (by omega), if_neg (by omega), if_neg (by omega), hSdef]
  have hSsize : S.size = (numSeg x.size win.size overlap) := by simp [hSdef]
  have hSget : ∀ i < (numSeg x.size win.size overlap), S.getD i #[] = convertRangeStft (rfwd nfft (frame x win (win.size - overlap) nfft i)) nfft range := by
    intro i hi
    simp [hSdef, Array.getD, hi]
  -- every frame has the length its range asks for
  have hall : S.all (fun f => f.size == frameLen nfft range) = true := by
    rw [Array.all_eq_true]
    intro i hi
    have hi' : i < (numSeg x.size win.size overlap) := by rw [hSsize] at hi; exact hi
    have : S[i] = convertRangeStft (rfwd nfft (frame x win (win.size - overlap) nfft i)) nfft range := by simp [hSdef]
    rw [this, size_convertRangeStft _ _ _ ((hR nfft _ (size_frame ..)).1)]
    simp
  -- each re-synthesised frame is the windowed segment
  have hys : ∀ i < (numSeg x.size win.size overlap), irfftCore fwd nfft (convertRangeIstftCore (S.getD i #[]) nfft range) = frame x win (win.size - overlap) nfft i := by
    intro i hi
    obtain ⟨hs, hv⟩ := hR nfft (frame x win (win.size - overlap) nfft i) (size_frame ..)
    rw [hSget i hi, irfftCore_congr_low fwd nfft _ (rfwd nfft (frame x win (win.size - overlap) nfft i))
      (range_roundtrip_low _ nfft range hn h2 hs hr).2.2]
    exact irfftCore_of_dft fwd hF nfft hn h2 _ (size_frame ..) _ hs hv
  have hI : istftWith fwd S win overlap nfft range method = .ok (istftCore fwd S win overlap nfft range method) := by
    unfold istftWith
    rw [if_neg (by omega), if_neg (by omega), if_neg (by omega), if_neg (by omega), if_neg (by simp [hall])]
  refine ⟨S, _, hS, hSsize, hI, by simp [istftCore], ?_⟩
  intro t ht hw
  unfold istftCore at ht ⊢
  simp only [size_mkR] at ht
  simp only []
  rw [rdR_mkR_lt _ _ _ ht]
  clear hI hS hall hSget
  rw [← hSsize] at hys
  generalize hysdef : (Array.ofFn (n := S.size) (fun i : Fin S.size =>
      irfftCore fwd nfft (convertRangeIstftCore (S.getD i.val #[]) nfft range))) = ys
  -- numerator = x[t] · weight
  have hacc : overlapAdd S.size (win.size - overlap) win.size (fun i j => rdR (ys.getD i #[]) j *
        (if method = 0 then Fn.ofNat 1 else rdR win j)) t
      = rdR x t * weight win S.size (win.size - overlap) method t := by
    unfold weight
    rw [← overlapAdd_mul_left]
    apply overlapAdd_congr
    intro i hi h1 h2'
    have hj : t - i * (win.size - overlap) < win.size := by omega
    have hget : ys.getD i #[] = frame x win (win.size - overlap) nfft i := by
      have hi2 : i < S.size := by omega
      rw [← hysdef]
      have h0 := hys i hi
      simp [Array.getD, hi2] at h0 ⊢
      exact h0
    rw [hget]
    unfold frame
    rw [rdR_mkR_lt _ _ _ (by omega), if_pos hj, show i * (win.size - overlap) + (t - i * (win.size - overlap)) = t by omega]
    by_cases hm : method = 0
    · simp [hm]
    · simp [hm]; ring
  rw [hacc]
  have hg : normGuard S.size (weight win S.size (win.size - overlap) method t) = weight win S.size (win.size - overlap) method t := by
    unfold normGuard
    rw [if_neg]
    simp only [fn_ofNat]
    exact not_le.mpr hw
  unfold weight at hg hw ⊢
  rw [hg]
  have hpos : (0 : ℝ) ≤ (S.size : ℝ) * Ifft.eps := by
    have := eps_pos
    positivity
  have hne : overlapAdd S.size (win.size - overlap) win.size (fun _ j => if method = 0 then rdR win j else rdR win j * rdR win j) t ≠ 0 := by
    intro h0
    rw [h0] at hw
    linarith
  rw [mul_div_assoc, div_self hne, mul_one]

/-! ## the hypotheses are satisfiable, and the specialisation to the functions the driver runs -/

/-- a `cmplx_t` holding a complex number -/
def ofC (z : ℂ) : Cx ℝ := ⟨z.re, z.im⟩

theorem toC_ofC (z : ℂ) : Cx.toC (ofC z) = z := by apply Complex.ext <;> rfl

/-- `IsDft` is satisfiable (the exact DFT itself), so `ifft_fft`, `irfft_eq`, … are not vacuous -/
theorem isDft_exists : ∃ fwd, IsDft fwd := by
  refine ⟨fun n x => mk n (fun k => ofC (dft n (seq x) k)), ?_⟩
  intro n x _
  refine ⟨by simp, fun k hk => ?_⟩
  rw [rd_mk_lt _ _ _ hk, toC_ofC]

theorem isRDft_exists : ∃ rfwd, IsRDft rfwd := by
  refine ⟨fun n x => mk n (fun k => ofC (dft n (seqR x) k)), ?_⟩
  intro n x _
  refine ⟨by simp, fun k hk => ?_⟩
  rw [rd_mk_lt _ _ _ hk, toC_ofC]

section model
variable [Atan2 ℝ] (lit : Fft.Lits ℝ)

/-- T02.1 for the model the driver runs: given C01 (`Fft.fftC lit` computes the DFT), `ifft(fft(x)) = x` -/
theorem ifft_fft_model (hC01 : IsDft (Fft.fftC lit)) (x : Vec ℝ) (hx : 1 ≤ x.size) :
    Ifft.ifft lit (Fft.fftC lit x.size x) = .ok x := ifft_fft _ hC01 x hx

/-- T02.3 for the model the driver runs: given C01, `irfft(rfft(x), n) = x` from both input forms -/
theorem irfft_rfft_model (hC01 : IsDft (Fft.fftC lit)) (hC01r : IsRDft (Fft.fftR lit)) (x : Array ℝ) (hn : x.size % 2 = 0) (h2 : 2 ≤ x.size) :
    Ifft.irfft lit x.size (Fft.fftR lit x.size x) = .ok x ∧
    Ifft.irfft lit x.size ((Fft.fftR lit x.size x).extract 0 (x.size / 2 + 1)) = .ok x :=
  irfft_rfft _ _ hC01 hC01r x hn h2

/-- T02.6 for the model the driver runs -/
theorem istft_stft_model (hC01 : IsDft (Fft.fftC lit)) (hC01r : IsRDft (Fft.fftR lit))
    (x win : Array ℝ) (overlap nfft range method : ℕ)
    (hov : overlap < win.size) (hwin : win.size ≤ nfft) (hn : nfft % 2 = 0) (h2 : 2 ≤ nfft) (hr : range ≤ 2) :
    ∃ S y, Ifft.stft lit x win overlap nfft range = .ok S ∧ S.size = numSeg x.size win.size overlap ∧
      Ifft.istft lit S win overlap nfft range method = .ok y ∧
      y.size = outLen S.size win.size (win.size - overlap) ∧
      ∀ t < y.size, (S.size : ℝ) * Ifft.eps < weight win S.size (win.size - overlap) method t → rdR y t = rdR x t :=
  istft_stft _ _ hC01 hC01r x win overlap nfft range method hov hwin hn h2 hr

end model

/-! ## non-vacuity -/

/-- `ifft_fft` at a concrete 3-vector and the exact DFT -/
example : ∃ fwd, IsDft fwd ∧ ifftWith fwd (fwd 3 #[⟨1, 2⟩, ⟨0, -1⟩, ⟨5, 0⟩]) = .ok #[⟨1, 2⟩, ⟨0, -1⟩, ⟨5, 0⟩] := by
  obtain ⟨fwd, h⟩ := isDft_exists
  exact ⟨fwd, h, ifft_fft fwd h #[⟨1, 2⟩, ⟨0, -1⟩, ⟨5, 0⟩] (by decide)⟩

/-- `irfft_rfft` at a concrete real 4-vector: both input forms return it -/
example : ∃ fwd rfwd, IsDft fwd ∧ IsRDft rfwd ∧ irfftWith fwd 4 (rfwd 4 #[1, -2, 3, 5]) = .ok #[1, -2, 3, 5] := by
  obtain ⟨fwd, h⟩ := isDft_exists
  obtain ⟨rfwd, hr⟩ := isRDft_exists
  exact ⟨fwd, rfwd, h, hr, (irfft_rfft fwd rfwd h hr #[1, -2, 3, 5] (by decide) (by decide)).1⟩

/-- the odd size 3 is rejected -/
example (fwd : Nat → Vec ℝ → Vec ℝ) : ∃ e, irfftWith fwd 3 #[⟨1, 0⟩, ⟨2, 1⟩, ⟨2, -1⟩] = .error e := irfft_odd fwd 3 (by decide) _

/-- the table at `n = 8` (quarter-wave path), cell 3 and at `n = 6` (direct path), cell 2 -/
example : Cx.toC (irfftCoeff (α := ℝ) 8 3) = (ω 8 3)⁻¹ ∧ Cx.toC (irfftCoeff (α := ℝ) 6 2) = (ω 6 2)⁻¹ :=
  ⟨irfftCoeffs_eq 8 3 (by decide) (by decide), irfftCoeffs_eq 6 2 (by decide) (by decide)⟩

/-- the weight hypothesis of `istft_stft` is met: rectangular window of 2, hop 1, two frames, sample 1 is covered twice -/
example : ((2 : ℕ) : ℝ) * Ifft.eps < weight #[1, 1] 2 1 0 1 := by
  have h : weight #[1, 1] 2 1 0 1 = 2 := by
    simp [weight, overlapAdd, List.range_succ, rdR]
    norm_num
  rw [h]
  unfold Ifft.eps
  simp only [fn_ofNat]
  norm_num

/-- … and the guard's other branch: with no frame at all the weight is `0`, the guard gives `1` (the former `0/0`) -/
example : normGuard 0 (weight #[1, 1] 0 1 0 0) = 1 := by
  simp [normGuard, weight, overlapAdd]

end C02
end Dsp
