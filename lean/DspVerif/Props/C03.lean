import DspVerif.Model.ArrayOps
import DspVerif.Lib.RealFn
/-!
# C03 — element-wise array arithmetic, type promotion and value semantics

Theorems about `Model/ArrayOps` (hand-written mirror of the overloads of `include/dsplib/array.h`,
`utils.h`, `lib/math.cpp`; tied to the code by the correspondence run of `harness/c03.cpp`) over the scalar
formulas of `Gen/Cmplx` (REGENERATED from `include/dsplib/types.h` on every run).

* T03.1 `toC_*`, `toC_op*`: every generated `cmplx_t` operator — incl. `/`, the complex-with-real forms
  `addr subr mulr divr`, the real-on-the-left forms `radd rsub rmul rdiv` and the compound forms — is the
  corresponding field operation of ℂ (quotients under a non-zero denominator).
* T03.2 `evalE_shape` (∀α: accepted iff no length mismatch; length; complex iff an operand is) and
  `eval_pointwise` (ℝ/ℂ: the i-th element of the result is the scalar expression at i); `ca_eq_aa`,
  `cs_eq_as`, `cata_eq_cat` extend both to the compound forms incl. aliasing `a op= a`, `a |= a`.
* T03.3 `sel_eq`, `gatherL_ok_iff`, `gatherL_ok`, `catV_spec`, `catV_elem`, `zeropad_*`, `concatenate5_*`:
  selection / concatenation return exactly the designated elements in order.
* value semantics in the model: `exec_frame`, `run_error_unchanged`, `ca_mismatch_rejected`, `copy_independent`.

Floating-point rounding is not modelled: the value theorems are exact over ℝ/ℂ, the 4·eps·scale agreement of the
implementation with a `complex<long double>` interpreter is MEASURED by the oracle of `harness/c03.cpp`.
-/
set_option linter.unusedSectionVars false
namespace Dsp.C03
open Dsp Dsp.ArrayOps Dsp.Cx

/-! ### T03.1 -/
section generic
variable {α : Type} [Add α] [Sub α] [Mul α] [Div α] [Neg α] [LT α] [LE α] [Fn α]
  [DecidableRel (· < · : α → α → Prop)] [DecidableRel (· ≤ · : α → α → Prop)]

/-- T03.1 (compound forms, ∀α): `cmplx_t::operator+=(const cmplx_t&)` computes `*this + rhs` -/
theorem addAssign_eq (a b : Cx α) : Cx.addAssign a b = a + b := rfl
/-- T03.1 (compound forms, ∀α): `operator-=(const cmplx_t&)` computes `*this - rhs` -/
theorem subAssign_eq (a b : Cx α) : Cx.subAssign a b = a - b := rfl
/-- T03.1 (compound forms, ∀α): `operator*=(const cmplx_t&)` computes `*this * rhs` -/
theorem mulAssign_eq (a b : Cx α) : Cx.mulAssign a b = a * b := rfl
/-- T03.1 (compound forms, ∀α): `operator/=(const cmplx_t&)` computes `*this / rhs` -/
theorem divAssign_eq (a b : Cx α) : Cx.divAssign a b = a / b := rfl
/-- T03.1 (compound forms, ∀α): `operator+=(const real_t&)` computes `*this + rhs` (complex + real) -/
theorem addrAssign_eq (a : Cx α) (x : α) : Cx.addrAssign a x = Cx.addr a x := rfl
/-- T03.1 (compound forms, ∀α): `operator-=(const real_t&)` computes `*this - rhs` -/
theorem subrAssign_eq (a : Cx α) (x : α) : Cx.subrAssign a x = Cx.subr a x := rfl
/-- T03.1 (compound forms, ∀α): `operator*=(const real_t&)` computes `*this * rhs` -/
theorem mulrAssign_eq (a : Cx α) (x : α) : Cx.mulrAssign a x = Cx.mulr a x := rfl
/-- T03.1 (compound forms, ∀α): `operator/=(const real_t&)` computes `*this / rhs` -/
theorem divrAssign_eq (a : Cx α) (x : α) : Cx.divrAssign a x = Cx.divr a x := rfl
end generic

/-- (helper) real part of the generated quotient formula -/
@[simp] theorem div_re (a b : Cx ℝ) : (a / b).re = (a.re * b.re + a.im * b.im) / abs2 b := rfl
/-- (helper) imaginary part of the generated quotient formula -/
@[simp] theorem div_im (a b : Cx ℝ) : (a / b).im = (b.re * a.im - a.re * b.im) / abs2 b := rfl

/-- (helper) a `cmplx_t` denotes 0 iff both fields are 0 -/
theorem toC_eq_zero (b : Cx ℝ) : toC b = 0 ↔ b.re = 0 ∧ b.im = 0 := by
  constructor
  · intro h; exact ⟨by simpa using congrArg Complex.re h, by simpa using congrArg Complex.im h⟩
  · rintro ⟨h1, h2⟩; apply Complex.ext <;> simp [h1, h2]

/-- (helper) the denominator `abs2()` of the quotient formula does not vanish for a non-zero divisor -/
theorem abs2_ne_zero {b : Cx ℝ} (hb : toC b ≠ 0) : abs2 b ≠ 0 := by
  rw [abs2_eq]; exact fun h => hb (Complex.normSq_eq_zero.mp h)

/-- T03.1: the generated `cmplx_t / cmplx_t` formula is the quotient of ℂ — for a NON-ZERO divisor (at 0 the C++ yields NaN/inf; that point is an input class of the harness) -/
theorem toC_div (a b : Cx ℝ) (hb : toC b ≠ 0) : toC (a / b) = toC a / toC b := by
  have h2 := abs2_ne_zero hb
  rw [eq_div_iff hb]
  apply Complex.ext
  · simp only [toC_re, toC_im, Complex.mul_re, div_re, div_im]
    rw [div_mul_eq_mul_div, div_mul_eq_mul_div, ← sub_div, div_eq_iff h2]
    unfold abs2; ring
  · simp only [toC_re, toC_im, Complex.mul_im, div_re, div_im]
    rw [div_mul_eq_mul_div, div_mul_eq_mul_div, ← add_div, div_eq_iff h2]
    unfold abs2; ring

/-- T03.1: `cmplx_t + real_t` is the sum in ℂ -/
theorem toC_addr (a : Cx ℝ) (x : ℝ) : toC (addr a x) = toC a + (x : ℂ) := by apply Complex.ext <;> simp [addr]
/-- T03.1: `cmplx_t - real_t` is the difference in ℂ -/
theorem toC_subr (a : Cx ℝ) (x : ℝ) : toC (subr a x) = toC a - (x : ℂ) := by apply Complex.ext <;> simp [subr]
/-- T03.1: `cmplx_t * real_t` is the product in ℂ -/
theorem toC_mulr (a : Cx ℝ) (x : ℝ) : toC (mulr a x) = toC a * (x : ℂ) := by apply Complex.ext <;> simp [mulr]
/-- T03.1: `cmplx_t / real_t` is the quotient in ℂ, for a non-zero real divisor -/
theorem toC_divr (a : Cx ℝ) (x : ℝ) (hx : x ≠ 0) : toC (divr a x) = toC a / (x : ℂ) := by
  rw [eq_div_iff (by exact_mod_cast hx)]
  apply Complex.ext <;> simp [divr, hx]
/-- T03.1: real-on-the-left `real + cmplx_t` -/
theorem toC_radd (x : ℝ) (b : Cx ℝ) : toC (radd x b) = (x : ℂ) + toC b := by rw [radd, toC_addr, add_comm]
/-- T03.1: real-on-the-left `real - cmplx_t` (own formula `{lhs - re, -im}`) -/
theorem toC_rsub (x : ℝ) (b : Cx ℝ) : toC (rsub x b) = (x : ℂ) - toC b := by apply Complex.ext <;> simp [rsub]
/-- T03.1: real-on-the-left `real * cmplx_t` -/
theorem toC_rmul (x : ℝ) (b : Cx ℝ) : toC (rmul x b) = (x : ℂ) * toC b := by rw [rmul, toC_mulr, mul_comm]
/-- T03.1: real-on-the-left `real / cmplx_t` (`cmplx_t(lhs) / rhs`), non-zero divisor -/
theorem toC_rdiv (x : ℝ) (b : Cx ℝ) (hb : toC b ≠ 0) : toC (rdiv x b) = (x : ℂ) / toC b := by
  rw [rdiv, toC_div _ _ hb]; congr 1; apply Complex.ext <;> simp
/-- T03.1 / promotion: `array_cast<cmplx_t>` / `cmplx_t(real)` embeds ℝ into ℂ (`im = 0`) -/
theorem toC_castC (x : ℝ) : toC (castC x) = (x : ℂ) := by apply Complex.ext <;> simp [castC]


/-! ### the scalar layer of the model is the field operation -/

/-- the field operation an operator symbol denotes -/
noncomputable def fop : Op → ℂ → ℂ → ℂ
  | .add, a, b => a + b
  | .sub, a, b => a - b
  | .mul, a, b => a * b
  | .div, a, b => a / b

/-- T03.1: the real element operation is the field operation (the hypothesis keeps `x / 0` out of the statement) -/
theorem ofReal_opR (o : Op) (x y : ℝ) (_h : o = .div → (y : ℂ) ≠ 0) : ((opR o x y : ℝ) : ℂ) = fop o x y := by
  cases o <;> simp [opR, fop]

/-- T03.1: the compound complex-complex element operation used by `arr op arr`, `arr op scalar` is the field operation -/
theorem toC_opC (o : Op) (a b : Cx ℝ) (h : o = .div → toC b ≠ 0) : toC (opC o a b) = fop o (toC a) (toC b) := by
  cases o
  · exact toC_add a b
  · exact toC_sub a b
  · exact toC_mul a b
  · exact toC_div a b (h rfl)

/-- T03.1: the non-compound complex-complex operation used by `scalar - arr`, `scalar / arr` is the field operation -/
theorem toC_opCn (o : Op) (a b : Cx ℝ) (h : o = .div → toC b ≠ 0) : toC (opCn o a b) = fop o (toC a) (toC b) := by
  cases o
  · exact toC_add a b
  · exact toC_sub a b
  · exact toC_mul a b
  · exact toC_div a b (h rfl)

/-- T03.1: the compound complex-real element operation is the field operation -/
theorem toC_opCR (o : Op) (a : Cx ℝ) (x : ℝ) (h : o = .div → (x : ℂ) ≠ 0) : toC (opCR o a x) = fop o (toC a) x := by
  cases o
  · exact toC_addr a x
  · exact toC_subr a x
  · exact toC_mulr a x
  · exact toC_divr a x (by simpa using h rfl)

/-- T03.1: the non-compound complex-real operation is the field operation -/
theorem toC_opCRn (o : Op) (a : Cx ℝ) (x : ℝ) (h : o = .div → (x : ℂ) ≠ 0) : toC (opCRn o a x) = fop o (toC a) x := by
  cases o
  · exact toC_addr a x
  · exact toC_subr a x
  · exact toC_mulr a x
  · exact toC_divr a x (by simpa using h rfl)

/-! ### array level -/

/-- the complex number denoted by element `i` of an array value (`0` beyond the end) -/
noncomputable def elemC (v : Val ℝ) (i : Nat) : ℂ :=
  match v with
  | .r a => ((a[i]?.getD 0 : ℝ) : ℂ)
  | .c a => toC (a[i]?.getD ⟨0, 0⟩)

/-- the complex number a scalar operand denotes -/
noncomputable def scC : Sc ℝ → ℂ
  | .r x => (x : ℂ)
  | .i n => ((n : ℝ) : ℂ)
  | .c z => toC z

/-- (helper) an in-range position holds an element -/
theorem getElem?_some_of_lt {β : Type} {a : List β} {i : Nat} (h : i < a.length) : ∃ x, a[i]? = some x :=
  ⟨a[i], List.getElem?_eq_getElem h⟩

/-- T03.2 per operator: element i of `arr op arr` (all four element-type combinations, also the compound forms) is the field operation on the i-th elements; real-with-complex promotes -/
theorem arrArr_elem {o : Op} {v w u : Val ℝ} (h : arrArr o v w = .ok u) (i : Nat) (hi : i < u.size)
    (hd : o = .div → elemC w i ≠ 0) : elemC u i = fop o (elemC v i) (elemC w i) := by
  unfold arrArr at h
  split at h
  · cases h
  · rename_i hs
    injection h with h
    subst h
    cases v <;> cases w <;> simp only [Val.size, ne_eq, not_not, List.length_zipWith] at hs hi <;>
      simp only [elemC] at hd ⊢ <;> rw [List.getElem?_zipWith] <;>
      (rename_i a b
       obtain ⟨x, hx⟩ := getElem?_some_of_lt (a := a) (i := i) (by omega)
       obtain ⟨y, hy⟩ := getElem?_some_of_lt (a := b) (i := i) (by omega)
       simp only [hx, hy, Option.getD_some] at hd ⊢)
    · exact ofReal_opR o x y hd
    · rw [toC_opC o _ _ hd, toC_castC]
    · exact toC_opCR o x y hd
    · exact toC_opC o x y hd


/-- T03.2 per operator: element i of `arr op scalar` (real / int / complex scalar on the right) -/
theorem arrScalar_elem (o : Op) (v : Val ℝ) (s : Sc ℝ) (i : Nat) (hi : i < v.size)
    (hd : o = .div → scC s ≠ 0) : elemC (arrScalar o v s) i = fop o (elemC v i) (scC s) := by
  cases v <;> cases s <;> simp only [Val.size] at hi <;> simp only [arrScalar, elemC, scC] at hd ⊢ <;>
    rw [List.getElem?_map] <;>
    (rename_i a _
     obtain ⟨x, hx⟩ := getElem?_some_of_lt (a := a) (i := i) hi
     simp only [hx, Option.map_some, Option.getD_some])
  · exact ofReal_opR o x _ hd
  · exact ofReal_opR o x _ hd
  · rw [toC_opC o _ _ hd, toC_castC]
  · exact toC_opCR o x _ hd
  · exact toC_opCR o x _ hd
  · exact toC_opC o x _ hd

/-- (helper) promoting the left scalar to the result type does not change the number it denotes -/
theorem scC_promote (s : Sc ℝ) (b : Bool) : scC (promote s b) = scC s := by
  cases s <;> cases b <;> simp [promote, scC, toC_castC]

/-- T03.2 per operator: element i of `scalar - arr`, `scalar / arr` -/
theorem leftLoop_elem (o : Op) (s : Sc ℝ) (v : Val ℝ) (i : Nat) (hi : i < v.size)
    (hd : o = .div → elemC v i ≠ 0) : elemC (leftLoop o s v) i = fop o (scC s) (elemC v i) := by
  cases v <;> cases s <;> simp only [Val.size] at hi <;> simp only [leftLoop, elemC, scC] at hd ⊢ <;>
    rw [List.getElem?_map] <;>
    (rename_i a _
     obtain ⟨x, hx⟩ := getElem?_some_of_lt (a := a) (i := i) hi
     simp only [hx, Option.map_some, Option.getD_some] at hd ⊢)
  · exact ofReal_opR o _ x hd
  · exact ofReal_opR o _ x hd
  · exact toC_opCRn o _ x hd
  · rw [toC_opCn o _ _ hd, toC_castC]
  · rw [toC_opCn o _ _ hd, toC_castC]; rfl
  · exact toC_opCn o _ x hd

/-- T03.2 per operator: element i of `scalar op arr` (scalar on the left, all four operators) -/
theorem scalarArr_elem (o : Op) (s : Sc ℝ) (v : Val ℝ) (i : Nat) (hi : i < v.size)
    (hd : o = .div → elemC v i ≠ 0) : elemC (scalarArr o s v) i = fop o (scC s) (elemC v i) := by
  cases o <;> simp only [scalarArr]
  · rw [arrScalar_elem .add v _ i hi (by simp), scC_promote]; simp [fop, add_comm]
  · exact leftLoop_elem .sub s v i hi (by simp)
  · rw [arrScalar_elem .mul v _ i hi (by simp), scC_promote]; simp [fop, mul_comm]
  · exact leftLoop_elem .div s v i hi hd

/-- T03.2 per operator: element i of unary minus -/
theorem negV_elem (v : Val ℝ) (i : Nat) (hi : i < v.size) : elemC (negV v) i = - elemC v i := by
  cases v <;> simp only [Val.size] at hi <;> simp only [negV, elemC] <;> rw [List.getElem?_map] <;>
    (rename_i a
     obtain ⟨x, hx⟩ := getElem?_some_of_lt (a := a) (i := i) hi
     simp only [hx, Option.map_some, Option.getD_some])
  · simp
  · exact toC_neg x

/-- T03.3: element i of `a | b` is `a[i]` for `i < len a`, else `b[i - len a]` (real parts promoted when the other side is complex) -/
theorem catV_elem (v w : Val ℝ) (i : Nat) (hi : i < v.size + w.size) :
    elemC (catV v w) i = if i < v.size then elemC v i else elemC w (i - v.size) := by
  by_cases h : i < v.size
  · rw [if_pos h]
    cases v <;> cases w <;> simp only [Val.size] at h <;> simp only [catV, elemC] <;>
      rw [List.getElem?_append_left (by first | exact h | simpa using h)]
    · rw [List.getElem?_map]
      rename_i a b
      obtain ⟨x, hx⟩ := getElem?_some_of_lt (a := a) (i := i) h
      simp only [hx, Option.map_some, Option.getD_some, toC_castC]
  · rw [if_neg h]
    cases v <;> cases w <;> simp only [Val.size] at h hi <;> simp only [catV, elemC, Val.size] <;>
      rw [List.getElem?_append_right (by first | exact Nat.le_of_not_lt h | simpa using h)] <;> try simp only [List.length_map]
    · rw [List.getElem?_map]
      rename_i a b
      obtain ⟨x, hx⟩ := getElem?_some_of_lt (a := b) (i := i - a.length) (by omega)
      simp only [hx, Option.map_some, Option.getD_some, toC_castC]


/-! ### T03.3 selection and concatenation return exactly the designated elements, in order (∀α) -/
section structural
variable {β : Type}

/-- the designated positions of a mask: the increasing list of all `j < m.length` with `m[j] = true` -/
def trues (m : List Bool) : List Nat := (List.range m.length).filter (fun j => m.getD j false)

/-- (helper) designated positions of a mask, one step -/
theorem trues_cons (b : Bool) (bs : List Bool) :
    trues (b :: bs) = if b then 0 :: (trues bs).map Nat.succ else (trues bs).map Nat.succ := by
  unfold trues
  rw [List.length_cons, List.range_succ_eq_map, List.filter_cons, List.filter_map]
  have : ((fun j => (b :: bs).getD j false) ∘ Nat.succ) = (fun j => bs.getD j false) := by
    funext j; simp
  rw [this]
  cases b <;> simp

/-- boolean-mask selection `a[mask]` returns exactly the elements at the designated positions, in order -/
theorem sel_eq (d : β) (a : List β) (m : List Bool) (h : m.length = a.length) :
    sel a m = (trues m).map (fun j => a.getD j d) := by
  induction a generalizing m with
  | nil => cases m <;> simp_all [sel, trues]
  | cons x xs ih =>
    cases m with
    | nil => simp at h
    | cons b bs =>
      have h' : bs.length = xs.length := by simpa using h
      rw [trues_cons]
      cases b
      · simp only [sel, Bool.false_eq_true, if_false, List.map_map]
        rw [ih bs h']
        apply List.map_congr_left
        intro j _
        simp
      · simp only [sel, if_true, List.map_cons, List.map_map]
        rw [ih bs h']
        congr 1

/-- T03.3: mask selection returns as many elements as the mask has `true` entries -/
theorem length_sel (a : List β) (m : List Bool) (h : m.length = a.length) : (sel a m).length = (trues m).length := by
  cases a with
  | nil => cases m <;> simp_all [sel, trues]
  | cons x xs => rw [sel_eq x _ m h, List.length_map]

/-- T03.3: every designated position is inside the array and carries `true` -/
theorem trues_lt (m : List Bool) : ∀ j ∈ trues m, j < m.length ∧ m.getD j false = true := by
  intro j hj
  simpa [trues] using hj

/-- T03.3: the designated positions are strictly increasing (elements come back in order, none twice) -/
theorem trues_sorted (m : List Bool) : (trues m).Pairwise (· < ·) := by
  unfold trues
  exact List.Pairwise.filter _ List.pairwise_lt_range

/-- T03.3: the designated positions are exactly the positions `j < m.length` with `m[j] = true` -/
theorem mem_trues (m : List Bool) (j : Nat) : j ∈ trues m ↔ j < m.length ∧ m.getD j false = true := by
  simp [trues]

/-- index-list selection: accepted iff every entry is a valid position … -/
theorem gatherL_ok_iff (d : β) (a : List β) (l : List Int) :
    (∃ r, gatherL d a l = .ok r) ↔ ∀ j ∈ l, 0 ≤ j ∧ j < (a.length : Int) := by
  unfold gatherL
  split
  · rename_i h
    simp only [List.all_eq_true, decide_eq_true_eq] at h
    exact ⟨fun _ => h, fun _ => ⟨_, rfl⟩⟩
  · rename_i h
    simp only [List.all_eq_true, decide_eq_true_eq] at h
    constructor
    · rintro ⟨r, hr⟩; cases hr
    · intro h'; exact absurd h' h

/-- … and then returns exactly the elements `a[l[0]], a[l[1]], …` in the order of the list -/
theorem gatherL_ok (d : β) (a : List β) (l : List Int) (r : List β) (h : gatherL d a l = .ok r) :
    r = l.map (fun j => a.getD j.toNat d) := by
  unfold gatherL at h
  split at h
  · injection h with h; exact h.symm
  · cases h

/-- T03.3: an index list with a negative or too large entry is rejected -/
theorem gatherL_error (d : β) (a : List β) (l : List Int) (j : Int) (hj : j ∈ l) (hbad : j < 0 ∨ (a.length : Int) ≤ j) :
    ∃ msg, gatherL d a l = .error msg := by
  cases hr : gatherL d a l with
  | error msg => exact ⟨msg, rfl⟩
  | ok r =>
    have := (gatherL_ok_iff d a l).mp ⟨r, hr⟩ j hj
    omega

/-- `concatenate(a1, …, a5)`: the parts in argument order (arguments not given are empty) -/
theorem concatenate5_getElem? (a1 a2 a3 a4 a5 : List β) :
    concatenate5 a1 a2 a3 a4 a5 = a1 ++ (a2 ++ (a3 ++ (a4 ++ a5))) := by
  simp [concatenate5]

/-- T03.3: `concatenate(a1, a2)` (defaults empty) is `a1` followed by `a2` -/
theorem concatenate5_two (a1 a2 : List β) : concatenate5 a1 a2 [] [] [] = a1 ++ a2 := by simp [concatenate5]

end structural


/-! ### T03.2 — shapes: which programs are accepted, length and element type of the result (∀α, incl. `Float`) -/
section shapes
variable {α : Type}

/-- static length of an expression (a function of the syntax and of the lengths in the environment only) -/
def len (env : Env α) : Expr α → Nat
  | .var k => match env[k]? with
    | some v => v.size
    | none => 0
  | .lit v => v.size
  | .neg e => len env e
  | .pos e => len env e
  | .aa _ a _ => len env a
  | .as _ a _ => len env a
  | .sa _ _ a => len env a
  | .cat a b => len env a + len env b
  | .mask _ m => (trues m).length
  | .idx _ l => l.length

/-- static element type: complex iff some operand is complex (`ResultType`) -/
def kind (env : Env α) : Expr α → Bool
  | .var k => match env[k]? with
    | some v => v.isC
    | none => false
  | .lit v => v.isC
  | .neg e => kind env e
  | .pos e => kind env e
  | .aa _ a b => kind env a || kind env b
  | .as _ a s => kind env a || s.isC
  | .sa _ s a => kind env a || s.isC
  | .cat a b => kind env a || kind env b
  | .mask a _ => kind env a
  | .idx a _ => kind env a

/-- no length mismatch anywhere: array operands of equal length, mask as long as the array,
    every index a valid position -/
def WF (env : Env α) : Expr α → Prop
  | .var k => k < env.length
  | .lit _ => True
  | .neg e => WF env e
  | .pos e => WF env e
  | .aa _ a b => WF env a ∧ WF env b ∧ len env a = len env b
  | .as _ a _ => WF env a
  | .sa _ _ a => WF env a
  | .cat a b => WF env a ∧ WF env b
  | .mask a m => WF env a ∧ m.length = len env a
  | .idx a l => WF env a ∧ ∀ j ∈ l, 0 ≤ j ∧ j < (len env a : Int)

variable [Add α] [Sub α] [Mul α] [Div α] [Neg α] [LT α] [LE α] [Fn α]
  [DecidableRel (· < · : α → α → Prop)] [DecidableRel (· ≤ · : α → α → Prop)]

/-- T03.2 per operator: `arr op arr` succeeds only for equal lengths; result has that length and is complex iff an operand is -/
theorem arrArr_shape {o : Op} {v w u : Val α} (h : arrArr o v w = .ok u) :
    v.size = w.size ∧ u.size = v.size ∧ u.isC = (v.isC || w.isC) := by
  unfold arrArr at h
  split at h
  · cases h
  · rename_i hs
    injection h with h
    subst h
    cases v <;> cases w <;> simp_all [Val.size, Val.isC]

/-- T03.2 per operator: equal lengths are accepted -/
theorem arrArr_ok_of_size (o : Op) (v w : Val α) (h : v.size = w.size) : ∃ u, arrArr o v w = .ok u := by
  unfold arrArr; rw [if_neg (by simpa using h)]; exact ⟨_, rfl⟩

/-- operands of different length are rejected -/
theorem arrArr_error_of_size (o : Op) (v w : Val α) (h : v.size ≠ w.size) : ∃ m, arrArr o v w = .error m := by
  unfold arrArr; rw [if_pos h]; exact ⟨_, rfl⟩

/-- T03.2 per operator: `arr op scalar` keeps the length; complex iff array or scalar is -/
theorem arrScalar_shape (o : Op) (v : Val α) (s : Sc α) :
    (arrScalar o v s).size = v.size ∧ (arrScalar o v s).isC = (v.isC || s.isC) := by
  cases v <;> cases s <;> simp [arrScalar, Val.size, Val.isC, Sc.isC]

/-- (helper) element type of the promoted left scalar -/
theorem promote_isC (s : Sc α) (b : Bool) : (promote s b).isC = (b || s.isC) := by
  cases s <;> cases b <;> simp [promote, Sc.isC]

/-- T03.2 per operator: shape of `scalar - arr`, `scalar / arr` -/
theorem leftLoop_shape (o : Op) (s : Sc α) (v : Val α) :
    (leftLoop o s v).size = v.size ∧ (leftLoop o s v).isC = (v.isC || s.isC) := by
  cases v <;> cases s <;> simp [leftLoop, Val.size, Val.isC, Sc.isC]

/-- T03.2 per operator: `scalar op arr` keeps the length; complex iff array or scalar is -/
theorem scalarArr_shape (o : Op) (s : Sc α) (v : Val α) :
    (scalarArr o s v).size = v.size ∧ (scalarArr o s v).isC = (v.isC || s.isC) := by
  cases o <;> simp only [scalarArr]
  · have := arrScalar_shape .add v (promote s v.isC); rw [promote_isC] at this; simpa using this
  · exact leftLoop_shape .sub s v
  · have := arrScalar_shape .mul v (promote s v.isC); rw [promote_isC] at this; simpa using this
  · exact leftLoop_shape .div s v

/-- T03.2 per operator: unary minus keeps length and element type -/
theorem negV_shape (v : Val α) : (negV v).size = v.size ∧ (negV v).isC = v.isC := by
  cases v <;> simp [negV, Val.size, Val.isC]

/-- T03.3: `a | b` has length `len a + len b`; complex iff a side is -/
theorem catV_shape (v w : Val α) : (catV v w).size = v.size + w.size ∧ (catV v w).isC = (v.isC || w.isC) := by
  cases v <;> cases w <;> simp [catV, Val.size, Val.isC]

/-- T03.3: mask selection is accepted iff the mask is as long as the array -/
theorem maskV_ok_iff (v : Val α) (m : List Bool) : (∃ u, maskV v m = .ok u) ↔ m.length = v.size := by
  unfold maskV
  split
  · rename_i h; exact ⟨(by rintro ⟨u, hu⟩; cases hu), fun h' => absurd h' h⟩
  · rename_i h; exact ⟨fun _ => by simpa using h, fun _ => ⟨_, rfl⟩⟩

/-- T03.3: shape of an accepted mask selection -/
theorem maskV_shape {v u : Val α} {m : List Bool} (h : maskV v m = .ok u) :
    m.length = v.size ∧ u.size = (trues m).length ∧ u.isC = v.isC := by
  have hm := (maskV_ok_iff v m).mp ⟨u, h⟩
  unfold maskV at h
  rw [if_neg (by simpa using hm)] at h
  injection h with h
  subst h
  cases v <;> simp only [Val.size] at hm <;> simp [Val.size, Val.isC, length_sel _ _ hm, hm]

/-- T03.3: index-list selection is accepted iff EVERY entry satisfies `0 ≤ j < size` -/
theorem idxV_ok_iff (v : Val α) (l : List Int) : (∃ u, idxV v l = .ok u) ↔ ∀ j ∈ l, 0 ≤ j ∧ j < (v.size : Int) := by
  cases v with
  | r a =>
    show (∃ u, idxV (Val.r a) l = .ok u) ↔ ∀ j ∈ l, 0 ≤ j ∧ j < (a.length : Int)
    rw [← gatherL_ok_iff (Fn.ofInt 0 : α) a l]
    simp only [idxV]
    constructor
    · rintro ⟨u, hu⟩
      cases hg : gatherL (Fn.ofInt 0 : α) a l with
      | ok r => exact ⟨r, rfl⟩
      | error e => rw [hg] at hu; cases hu
    · rintro ⟨r, hr⟩; rw [hr]; exact ⟨_, rfl⟩
  | c a =>
    show (∃ u, idxV (Val.c a) l = .ok u) ↔ ∀ j ∈ l, 0 ≤ j ∧ j < (a.length : Int)
    rw [← gatherL_ok_iff (castC (Fn.ofInt 0 : α)) a l]
    simp only [idxV]
    constructor
    · rintro ⟨u, hu⟩
      cases hg : gatherL (castC (Fn.ofInt 0 : α)) a l with
      | ok r => exact ⟨r, rfl⟩
      | error e => rw [hg] at hu; cases hu
    · rintro ⟨r, hr⟩; rw [hr]; exact ⟨_, rfl⟩

/-- T03.3: an accepted index-list selection has one element per index, same element type -/
theorem idxV_shape {v u : Val α} {l : List Int} (h : idxV v l = .ok u) : u.size = l.length ∧ u.isC = v.isC := by
  cases v with
  | r a =>
    simp only [idxV] at h
    cases hg : gatherL (Fn.ofInt 0 : α) a l with
    | error e => rw [hg] at h; cases h
    | ok r =>
      rw [hg] at h
      have := gatherL_ok _ _ _ _ hg
      injection h with h
      subst h; subst this
      simp [Val.size, Val.isC]
  | c a =>
    simp only [idxV] at h
    cases hg : gatherL (castC (Fn.ofInt 0 : α)) a l with
    | error e => rw [hg] at h; cases h
    | ok r =>
      rw [hg] at h
      have := gatherL_ok _ _ _ _ hg
      injection h with h
      subst h; subst this
      simp [Val.size, Val.isC]

/-- **T03.2 (shape part).** An expression without length mismatch evaluates, to an array of the static
length and of the promoted element type; an expression WITH a mismatch (operands of different length, mask of
the wrong length, index out of range) is rejected. -/
theorem evalE_shape (env : Env α) (e : Expr α) :
    (WF env e → ∃ v, evalE env e = .ok v ∧ v.size = len env e ∧ v.isC = kind env e) ∧
    (¬ WF env e → ∃ m, evalE env e = .error m) := by
  induction e with
  | var k =>
    simp only [WF, evalE, len, kind]
    constructor
    · intro h
      rw [List.getElem?_eq_getElem h]
      exact ⟨_, rfl, rfl, rfl⟩
    · intro h
      rw [List.getElem?_eq_none (by omega)]
      exact ⟨_, rfl⟩
  | lit v => exact ⟨fun _ => ⟨v, rfl, rfl, rfl⟩, fun h => absurd trivial h⟩
  | neg e ih =>
    simp only [WF, evalE, len, kind]
    constructor
    · intro h
      obtain ⟨v, hv, hs, hk⟩ := ih.1 h
      rw [hv]
      exact ⟨_, rfl, by rw [(negV_shape v).1, hs], by rw [(negV_shape v).2, hk]⟩
    · intro h
      obtain ⟨m, hm⟩ := ih.2 h
      rw [hm]; exact ⟨_, rfl⟩
  | pos e ih => simpa only [WF, evalE, len, kind] using ih
  | aa o a b iha ihb =>
    simp only [WF, evalE, len, kind]
    constructor
    · rintro ⟨ha, hb, hl⟩
      obtain ⟨va, hva, hsa, hka⟩ := iha.1 ha
      obtain ⟨vb, hvb, hsb, hkb⟩ := ihb.1 hb
      rw [hva, hvb]
      obtain ⟨u, hu⟩ := arrArr_ok_of_size o va vb (by rw [hsa, hsb, hl])
      obtain ⟨_, h2, h3⟩ := arrArr_shape hu
      exact ⟨u, hu, by rw [h2, hsa], by rw [h3, hka, hkb]⟩
    · intro h
      by_cases ha : WF env a
      · obtain ⟨va, hva, hsa, _⟩ := iha.1 ha
        rw [hva]
        by_cases hb : WF env b
        · obtain ⟨vb, hvb, hsb, _⟩ := ihb.1 hb
          rw [hvb]
          exact arrArr_error_of_size o va vb (by rw [hsa, hsb]; exact fun hl => h ⟨ha, hb, hl⟩)
        · obtain ⟨m, hm⟩ := ihb.2 hb
          rw [hm]; exact ⟨_, rfl⟩
      · obtain ⟨m, hm⟩ := iha.2 ha
        rw [hm]; exact ⟨_, rfl⟩
  | «as» o a s ih =>
    simp only [WF, evalE, len, kind]
    constructor
    · intro h
      obtain ⟨v, hv, hs, hk⟩ := ih.1 h
      rw [hv]
      exact ⟨_, rfl, by rw [(arrScalar_shape o v s).1, hs], by rw [(arrScalar_shape o v s).2, hk]⟩
    · intro h
      obtain ⟨m, hm⟩ := ih.2 h
      rw [hm]; exact ⟨_, rfl⟩
  | sa o s a ih =>
    simp only [WF, evalE, len, kind]
    constructor
    · intro h
      obtain ⟨v, hv, hs, hk⟩ := ih.1 h
      rw [hv]
      exact ⟨_, rfl, by rw [(scalarArr_shape o s v).1, hs], by rw [(scalarArr_shape o s v).2, hk]⟩
    · intro h
      obtain ⟨m, hm⟩ := ih.2 h
      rw [hm]; exact ⟨_, rfl⟩
  | cat a b iha ihb =>
    simp only [WF, evalE, len, kind]
    constructor
    · rintro ⟨ha, hb⟩
      obtain ⟨va, hva, hsa, hka⟩ := iha.1 ha
      obtain ⟨vb, hvb, hsb, hkb⟩ := ihb.1 hb
      rw [hva, hvb]
      exact ⟨_, rfl, by rw [(catV_shape va vb).1, hsa, hsb], by rw [(catV_shape va vb).2, hka, hkb]⟩
    · intro h
      by_cases ha : WF env a
      · obtain ⟨va, hva, _, _⟩ := iha.1 ha
        rw [hva]
        have hb : ¬ WF env b := fun hb => h ⟨ha, hb⟩
        obtain ⟨m, hm⟩ := ihb.2 hb
        rw [hm]; exact ⟨_, rfl⟩
      · obtain ⟨m, hm⟩ := iha.2 ha
        rw [hm]; exact ⟨_, rfl⟩
  | mask a m ih =>
    simp only [WF, evalE, len, kind]
    constructor
    · rintro ⟨ha, hl⟩
      obtain ⟨v, hv, hs, hk⟩ := ih.1 ha
      rw [hv]
      obtain ⟨u, hu⟩ := (maskV_ok_iff v m).mpr (by rw [hl, hs])
      obtain ⟨_, h2, h3⟩ := maskV_shape hu
      exact ⟨u, hu, h2, by rw [h3, hk]⟩
    · intro h
      by_cases ha : WF env a
      · obtain ⟨v, hv, hs, _⟩ := ih.1 ha
        rw [hv]
        show ∃ m', maskV v m = Except.error m'
        cases hu : maskV v m with
        | error e => exact ⟨_, rfl⟩
        | ok u =>
          exact absurd ⟨ha, by rw [(maskV_shape hu).1, hs]⟩ h
      · obtain ⟨m', hm⟩ := ih.2 ha
        rw [hm]; exact ⟨_, rfl⟩
  | idx a l ih =>
    simp only [WF, evalE, len, kind]
    constructor
    · rintro ⟨ha, hl⟩
      obtain ⟨v, hv, hs, hk⟩ := ih.1 ha
      rw [hv]
      obtain ⟨u, hu⟩ := (idxV_ok_iff v l).mpr (by rw [hs]; exact hl)
      obtain ⟨h2, h3⟩ := idxV_shape hu
      exact ⟨u, hu, h2, by rw [h3, hk]⟩
    · intro h
      by_cases ha : WF env a
      · obtain ⟨v, hv, hs, _⟩ := ih.1 ha
        rw [hv]
        show ∃ m', idxV v l = Except.error m'
        cases hu : idxV v l with
        | error e => exact ⟨_, rfl⟩
        | ok u =>
          have := (idxV_ok_iff v l).mp ⟨u, hu⟩
          rw [hs] at this
          exact absurd ⟨ha, this⟩ h
      · obtain ⟨m', hm⟩ := ih.2 ha
        rw [hm]; exact ⟨_, rfl⟩

/-- T03.2 (shape part, as used downstream): a successful evaluation had no mismatch and has the static length / element type -/
theorem evalE_ok_shape {env : Env α} {e : Expr α} {v : Val α} (h : evalE env e = .ok v) :
    WF env e ∧ v.size = len env e ∧ v.isC = kind env e := by
  by_cases hw : WF env e
  · obtain ⟨v', hv', hs, hk⟩ := (evalE_shape env e).1 hw
    rw [h] at hv'
    injection hv' with hv'
    subst hv'
    exact ⟨hw, hs, hk⟩
  · obtain ⟨m, hm⟩ := (evalE_shape env e).2 hw
    rw [h] at hm
    cases hm

end shapes


/-! ### T03.2 — values: the i-th element is the scalar expression at i, under the field formulas of ℂ -/

/-- (helper) element of a mapped list -/
theorem getD_map_some {β γ : Type} (f : β → γ) (a : List β) (i : Nat) (d : β) (d' : γ) (h : i < a.length) :
    (a.map f)[i]?.getD d' = f (a[i]?.getD d) := by
  obtain ⟨x, hx⟩ := getElem?_some_of_lt (a := a) (i := i) h
  simp [hx]

/-- T03.3: element i of `a[mask]` is `a[p_i]`, `p_i` the i-th designated position -/
theorem maskV_elem {v u : Val ℝ} {m : List Bool} (h : maskV v m = .ok u) (i : Nat) (hi : i < u.size) :
    elemC u i = elemC v ((trues m)[i]?.getD 0) := by
  obtain ⟨hm, hs, _⟩ := maskV_shape h
  unfold maskV at h
  rw [if_neg (by simpa using hm)] at h
  injection h with h
  subst h
  cases v with
  | r a =>
    simp only [Val.size] at hm hs hi
    simp only [elemC]
    rw [sel_eq (0 : ℝ) a m hm, getD_map_some _ _ _ 0 _ (by rw [← hs]; exact hi), List.getD_eq_getElem?_getD]
  | c a =>
    simp only [Val.size] at hm hs hi
    simp only [elemC]
    rw [sel_eq (⟨0, 0⟩ : Cx ℝ) a m hm, getD_map_some _ _ _ 0 _ (by rw [← hs]; exact hi), List.getD_eq_getElem?_getD]

/-- T03.3: element i of `a[idx]` is `a[idx[i]]` -/
theorem idxV_elem {v u : Val ℝ} {l : List Int} (h : idxV v l = .ok u) (i : Nat) (hi : i < u.size) :
    elemC u i = elemC v (l[i]?.getD 0).toNat := by
  have hs := (idxV_shape h).1
  cases v with
  | r a =>
    simp only [idxV] at h
    cases hg : gatherL (Fn.ofInt 0 : ℝ) a l with
    | error e => rw [hg] at h; cases h
    | ok r =>
      rw [hg] at h
      have := gatherL_ok _ _ _ _ hg
      injection h with h
      subst h; subst this
      simp only [Val.size, List.length_map] at hi
      simp only [elemC]
      rw [getD_map_some _ _ _ 0 _ hi, List.getD_eq_getElem?_getD]
      simp
  | c a =>
    simp only [idxV] at h
    cases hg : gatherL (castC (Fn.ofInt 0 : ℝ)) a l with
    | error e => rw [hg] at h; cases h
    | ok r =>
      rw [hg] at h
      have := gatherL_ok _ _ _ _ hg
      injection h with h
      subst h; subst this
      simp only [Val.size, List.length_map] at hi
      simp only [elemC]
      rw [getD_map_some _ _ _ 0 _ hi, List.getD_eq_getElem?_getD]
      have hj := (gatherL_ok_iff _ _ _).mp ⟨_, hg⟩ (l[i]) (List.getElem_mem hi)
      obtain ⟨x, hx⟩ := getElem?_some_of_lt (a := a) (i := (l[i]).toNat) (by omega)
      simp [List.getElem?_eq_getElem hi, hx]

/-- the scalar expression at index `i`: what the program denotes element-wise, as a complex number
    computed with the field operations of ℂ (reals embedded) -/
noncomputable def den (env : Env ℝ) : Expr ℝ → Nat → ℂ
  | .var k, i => match env[k]? with
    | some v => elemC v i
    | none => 0
  | .lit v, i => elemC v i
  | .neg e, i => - den env e i
  | .pos e, i => den env e i
  | .aa o a b, i => fop o (den env a i) (den env b i)
  | .as o a s, i => fop o (den env a i) (scC s)
  | .sa o s a, i => fop o (scC s) (den env a i)
  | .cat a b, i => if i < len env a then den env a i else den env b (i - len env a)
  | .mask a m, i => den env a ((trues m)[i]?.getD 0)
  | .idx a l, i => den env a (l[i]?.getD 0).toNat

/-- no division by zero anywhere (each vanishing denominator is an input class of the harness instead) -/
def DivOk (env : Env ℝ) : Expr ℝ → Prop
  | .var _ => True
  | .lit _ => True
  | .neg e => DivOk env e
  | .pos e => DivOk env e
  | .aa o a b => DivOk env a ∧ DivOk env b ∧ (o = .div → ∀ i, i < len env b → den env b i ≠ 0)
  | .as o a s => DivOk env a ∧ (o = .div → scC s ≠ 0)
  | .sa o _ a => DivOk env a ∧ (o = .div → ∀ i, i < len env a → den env a i ≠ 0)
  | .cat a b => DivOk env a ∧ DivOk env b
  | .mask a _ => DivOk env a
  | .idx a _ => DivOk env a

/-- **T03.2 (value part), `eval_pointwise`.** Whenever an expression evaluates, the i-th element of the
result array denotes the scalar expression at i — the same operators applied to the i-th operands with the
field operations of ℂ (real operands embedded, i.e. real-with-complex promotes to complex); concatenation,
mask and index selection only move elements. -/
theorem eval_pointwise (env : Env ℝ) (e : Expr ℝ) :
    ∀ v, evalE env e = .ok v → DivOk env e → ∀ i, i < v.size → elemC v i = den env e i := by
  induction e with
  | var k =>
    intro v h _ i _
    simp only [evalE] at h
    simp only [den]
    cases hk : env[k]? with
    | none => rw [hk] at h; cases h
    | some w => rw [hk] at h; injection h with h; subst h; rfl
  | lit w =>
    intro v h _ i _
    simp only [evalE] at h
    injection h with h; subst h; rfl
  | neg e ih =>
    intro v h hd i hi
    simp only [evalE] at h
    cases he : evalE env e with
    | error m => rw [he] at h; cases h
    | ok w =>
      rw [he] at h; injection h with h; subst h
      rw [(negV_shape w).1] at hi
      rw [negV_elem w i hi, ih w he hd i hi]; rfl
  | pos e ih => exact fun v h hd i hi => ih v h hd i hi
  | aa o a b iha ihb =>
    intro v h hd i hi
    simp only [evalE] at h
    obtain ⟨hda, hdb, hdiv⟩ := hd
    cases hea : evalE env a with
    | error m => rw [hea] at h; cases h
    | ok va =>
      cases heb : evalE env b with
      | error m => rw [hea, heb] at h; cases h
      | ok vb =>
        rw [hea, heb] at h
        obtain ⟨h1, h2, _⟩ := arrArr_shape h
        have hib : i < vb.size := by omega
        have hbe := ihb vb heb hdb i hib
        rw [arrArr_elem h i hi (fun ho => by rw [hbe]; exact hdiv ho i (by rw [← (evalE_ok_shape heb).2.1]; exact hib)),
          iha va hea hda i (by omega), hbe]
        rfl
  | «as» o a s ih =>
    intro v h hd i hi
    simp only [evalE] at h
    cases he : evalE env a with
    | error m => rw [he] at h; cases h
    | ok w =>
      rw [he] at h; injection h with h; subst h
      rw [(arrScalar_shape o w s).1] at hi
      rw [arrScalar_elem o w s i hi hd.2, ih w he hd.1 i hi]; rfl
  | sa o s a ih =>
    intro v h hd i hi
    simp only [evalE] at h
    cases he : evalE env a with
    | error m => rw [he] at h; cases h
    | ok w =>
      rw [he] at h; injection h with h; subst h
      rw [(scalarArr_shape o s w).1] at hi
      have hwe := ih w he hd.1 i hi
      rw [scalarArr_elem o s w i hi (fun ho => by rw [hwe]; exact hd.2 ho i (by rw [← (evalE_ok_shape he).2.1]; exact hi)), hwe]
      rfl
  | cat a b iha ihb =>
    intro v h hd i hi
    simp only [evalE] at h
    cases hea : evalE env a with
    | error m => rw [hea] at h; cases h
    | ok va =>
      cases heb : evalE env b with
      | error m => rw [hea, heb] at h; cases h
      | ok vb =>
        rw [hea, heb] at h
        injection h with h; subst h
        rw [(catV_shape va vb).1] at hi
        rw [catV_elem va vb i hi]
        simp only [den]
        rw [← (evalE_ok_shape hea).2.1]
        split
        · rename_i hlt; exact iha va hea hd.1 i hlt
        · rename_i hge; exact ihb vb heb hd.2 (i - va.size) (by omega)
  | mask a m ih =>
    intro v h hd i hi
    simp only [evalE] at h
    cases he : evalE env a with
    | error m => rw [he] at h; cases h
    | ok w =>
      rw [he] at h
      obtain ⟨hm, hs, _⟩ := maskV_shape h
      rw [maskV_elem h i hi]
      simp only [den]
      have hlt : i < (trues m).length := by omega
      have hmem : (trues m)[i] ∈ trues m := List.getElem_mem hlt
      have := (trues_lt m _ hmem).1
      rw [List.getElem?_eq_getElem hlt, Option.getD_some]
      exact ih w he hd _ (by omega)
  | idx a l ih =>
    intro v h hd i hi
    simp only [evalE] at h
    cases he : evalE env a with
    | error m => rw [he] at h; cases h
    | ok w =>
      rw [he] at h
      have hs := (idxV_shape h).1
      rw [idxV_elem h i hi]
      simp only [den]
      have hlt : i < l.length := by omega
      have hj := (idxV_ok_iff w l).mp ⟨v, h⟩ (l[i]) (List.getElem_mem hlt)
      rw [List.getElem?_eq_getElem hlt, Option.getD_some]
      exact ih w he hd _ (by omega)


/-! ### compound forms, rejection leaves everything unchanged, value semantics (∀α) -/
section statements
variable {α : Type} [Add α] [Sub α] [Mul α] [Div α] [Neg α] [LT α] [LE α] [Fn α]
  [DecidableRel (· < · : α → α → Prop)] [DecidableRel (· ≤ · : α → α → Prop)]

/-- the variable a statement may modify -/
def target : Stmt α → Option Nat
  | .expr _ => none
  | .set k _ => some k
  | .copy k _ => some k
  | .ca _ k _ => some k
  | .cs _ k _ => some k
  | .cata k _ => some k

/-- `a op= e` computes exactly `a op e` (same element loop) and stores it in `a` — also when `e` mentions `a`
    (aliasing `a op= a`): the pointwise theorem therefore covers the compound forms. -/
theorem ca_eq_aa {env env' : Env α} {o : Op} {k : Nat} {e : Expr α} {v : Val α}
    (h : exec env (.ca o k e) = .ok (v, env')) :
    evalE env (.aa o (.var k) e) = .ok v ∧ env' = env.set k v := by
  simp only [exec] at h
  simp only [evalE]
  cases hk : env[k]? with
  | none => rw [hk] at h; cases he : evalE env e <;> rw [he] at h <;> cases h
  | some t =>
    cases he : evalE env e with
    | error m => rw [hk, he] at h; cases h
    | ok b =>
      rw [hk, he] at h
      simp only at h ⊢
      split at h
      · cases h
      · cases ha : arrArr o t b with
        | error m => rw [ha] at h; cases h
        | ok u => rw [ha] at h; injection h with h; injection h with h1 h2; subst h1; exact ⟨rfl, h2.symm⟩

/-- `a op= scalar` computes exactly `a op scalar` -/
theorem cs_eq_as {env env' : Env α} {o : Op} {k : Nat} {s : Sc α} {v : Val α}
    (h : exec env (.cs o k s) = .ok (v, env')) :
    evalE env (.as o (.var k) s) = .ok v ∧ env' = env.set k v := by
  simp only [exec] at h
  simp only [evalE]
  cases hk : env[k]? with
  | none => rw [hk] at h; cases h
  | some t =>
    rw [hk] at h
    simp only at h ⊢
    split at h
    · cases h
    · injection h with h; injection h with h1 h2; subst h1; exact ⟨rfl, h2.symm⟩

/-- `a |= e` computes exactly `a | e` (also for `a |= a`) -/
theorem cata_eq_cat {env env' : Env α} {k : Nat} {e : Expr α} {v : Val α}
    (h : exec env (.cata k e) = .ok (v, env')) :
    evalE env (.cat (.var k) e) = .ok v ∧ env' = env.set k v := by
  simp only [exec] at h
  simp only [evalE]
  cases hk : env[k]? with
  | none => rw [hk] at h; cases he : evalE env e <;> rw [he] at h <;> cases h
  | some t =>
    cases he : evalE env e with
    | error m => rw [hk, he] at h; cases h
    | ok b =>
      rw [hk, he] at h
      simp only at h ⊢
      split at h
      · cases h
      · injection h with h; injection h with h1 h2; subst h1; exact ⟨rfl, h2.symm⟩

/-- a compound assignment whose operands have different lengths is rejected -/
theorem ca_mismatch_rejected (env : Env α) (o : Op) (k : Nat) (e : Expr α) (t b : Val α)
    (hk : env[k]? = some t) (he : evalE env e = .ok b) (hs : t.size ≠ b.size) :
    ∃ m, exec env (.ca o k e) = .error m := by
  simp only [exec, hk, he]
  split
  · exact ⟨_, rfl⟩
  · obtain ⟨m, hm⟩ := arrArr_error_of_size o t b hs
    rw [hm]; exact ⟨_, rfl⟩

/-- frame property: a statement changes at most its target variable; in particular a non-compound
    expression statement (`target = none`) modifies none of its operands, and the number of variables is kept -/
theorem exec_frame {env env' : Env α} {s : Stmt α} {v : Val α} (h : exec env s = .ok (v, env')) :
    env'.length = env.length ∧ ∀ j, some j ≠ target s → env'[j]? = env[j]? := by
  have key : ∀ (k : Nat) (w : Val α), (env.set k w).length = env.length ∧ ∀ j, some j ≠ some k → (env.set k w)[j]? = env[j]? := by
    intro k w
    refine ⟨List.length_set, fun j hj => ?_⟩
    rw [List.getElem?_set_ne]
    intro hkj; exact hj (by rw [hkj])
  cases s with
  | expr e =>
    simp only [exec] at h
    cases he : evalE env e with
    | error m => rw [he] at h; cases h
    | ok w => rw [he] at h; injection h with h; injection h with _ h2; subst h2; exact ⟨rfl, fun _ _ => rfl⟩
  | set k e =>
    simp only [exec] at h
    cases hk : env[k]? with
    | none => rw [hk] at h; cases he : evalE env e <;> rw [he] at h <;> cases h
    | some t =>
      cases he : evalE env e with
      | error m => rw [hk, he] at h; cases h
      | ok b =>
        rw [hk, he] at h
        simp only at h
        split at h
        · injection h with h; injection h with _ h2; subst h2; exact key k b
        · cases h
  | copy k j =>
    simp only [exec] at h
    cases hk : env[k]? with
    | none => rw [hk] at h; cases h
    | some t =>
      cases hj : env[j]? with
      | none => rw [hk, hj] at h; cases h
      | some b =>
        rw [hk, hj] at h
        simp only at h
        split at h
        · injection h with h; injection h with _ h2; subst h2; exact key k b
        · cases h
  | ca o k e => rw [(ca_eq_aa h).2]; exact key k v
  | cs o k s => rw [(cs_eq_as h).2]; exact key k v
  | cata k e => rw [(cata_eq_cat h).2]; exact key k v

/-- a statement that throws leaves the whole environment unchanged: the program continues with the old one -/
theorem run_error_unchanged (env : Env α) (s : Stmt α) (rest : List (Stmt α)) (m : String)
    (h : exec env s = .error m) : run env (s :: rest) = (.error m :: (run env rest).1, (run env rest).2) := by
  simp only [run, h]

/-- a copy is independent of its source: after `b = T(a)` (copy constructor) nothing done to `b`
    changes `a`, and nothing done to `a` changes `b` -/
theorem copy_independent {env env1 env2 : Env α} {k j : Nat} {s : Stmt α} {v v' : Val α}
    (hc : exec env (.copy k j) = .ok (v, env1)) (hs : exec env1 s = .ok (v', env2)) (hkj : k ≠ j) :
    (target s = some k → env2[j]? = env[j]?) ∧ (target s = some j → env2[k]? = env1[k]?) := by
  have f1 := (exec_frame hc).2
  have f2 := (exec_frame hs).2
  constructor
  · intro ht
    rw [f2 j (by rw [ht]; intro h; injection h with h; exact hkj h.symm), f1 j (by simp only [target]; intro h; injection h with h; exact hkj h.symm)]
  · intro ht
    rw [f2 k (by rw [ht]; intro h; injection h with h; exact hkj h)]

end statements


/-! ### T03.3 (continued): `|`, `zeropad`, `complex/real/imag/conj` builders -/
section builders
variable {α : Type} [Add α] [Sub α] [Mul α] [Div α] [Neg α] [LT α] [LE α] [Fn α]
  [DecidableRel (· < · : α → α → Prop)] [DecidableRel (· ≤ · : α → α → Prop)]

/-- `a | b` is the elements of `a` followed by the elements of `b`, real parts promoted (`im = 0`) when the other side is complex -/
theorem catV_spec (a b : List α) (x y : List (Cx α)) :
    catV (.r a) (.r b) = .r (a ++ b) ∧ catV (.c x) (.c y) = .c (x ++ y) ∧
    catV (.r a) (.c y) = .c (a.map castC ++ y) ∧ catV (.c x) (.r b) = .c (x ++ b.map castC) :=
  ⟨rfl, rfl, rfl, rfl⟩

/-- boolean-mask selection on an array value: accepted iff the mask is as long as the array, and then
    exactly the elements at the designated positions `trues m`, in increasing order -/
theorem maskV_spec (d : α) (a : List α) (m : List Bool) :
    (m.length = a.length → maskV (.r a) m = .ok (.r ((trues m).map (fun j => a.getD j d)))) ∧
    (m.length ≠ a.length → ∃ msg, maskV (.r a) m = .error msg) := by
  constructor
  · intro h
    unfold maskV
    rw [if_neg (by simpa [Val.size] using h)]
    simp only
    rw [sel_eq d a m h]
  · intro h
    unfold maskV
    rw [if_pos (by simpa [Val.size] using h)]
    exact ⟨_, rfl⟩

/-- `zeropad(x, n)` of a real array: rejected iff `n` is smaller than the length; otherwise `x` followed by zeros up to length `n` -/
theorem zeropad_r (a : List α) (n : Int) :
    zeropad (.r a) n = if (a.length : Int) > n then .error "padding size error"
      else .ok (.r (a ++ List.replicate (n - a.length).toNat (Fn.ofInt 0))) := by
  by_cases h1 : (a.length : Int) > n
  · rw [if_pos h1]; unfold zeropad; rw [if_pos (show ((Val.r a).size : Int) > n from h1)]
  · rw [if_neg h1]; unfold zeropad; rw [if_neg (show ¬ ((Val.r a).size : Int) > n from h1)]
    by_cases h2 : (a.length : Int) = n
    · rw [if_pos (show ((Val.r a).size : Int) = n from h2)]
      have : (n - a.length).toNat = 0 := by omega
      rw [this]; simp
    · rw [if_neg (show ¬ ((Val.r a).size : Int) = n from h2)]; rfl

/-- `zeropad(x, n)` of a complex array (the zeros are `0 + 0i`) -/
theorem zeropad_c (a : List (Cx α)) (n : Int) :
    zeropad (.c a) n = if (a.length : Int) > n then .error "padding size error"
      else .ok (.c (a ++ List.replicate (n - a.length).toNat (castC (Fn.ofInt 0)))) := by
  by_cases h1 : (a.length : Int) > n
  · rw [if_pos h1]; unfold zeropad; rw [if_pos (show ((Val.c a).size : Int) > n from h1)]
  · rw [if_neg h1]; unfold zeropad; rw [if_neg (show ¬ ((Val.c a).size : Int) > n from h1)]
    by_cases h2 : (a.length : Int) = n
    · rw [if_pos (show ((Val.c a).size : Int) = n from h2)]
      have : (n - a.length).toNat = 0 := by omega
      rw [this]; simp
    · rw [if_neg (show ¬ ((Val.c a).size : Int) = n from h2)]; simp [catV, Val.size]

/-- `complex(re, im)`: rejected iff the lengths differ; otherwise `real` and `imag` give the parts back -/
theorem complexOf_spec (re im : List α) :
    (re.length = im.length → ∃ z, complexOf re im = .ok z ∧ realOf z = re ∧ imagOf z = im) ∧
    (re.length ≠ im.length → ∃ msg, complexOf re im = .error msg) := by
  constructor
  · intro h
    refine ⟨List.zipWith Cx.mk re im, by unfold complexOf; rw [if_neg (by simpa using h)], ?_, ?_⟩
    · unfold realOf
      induction re generalizing im with
      | nil => simp
      | cons x xs ih => cases im with
        | nil => simp at h
        | cons y ys => simp [ih ys (by simpa using h)]
    · unfold imagOf
      induction re generalizing im with
      | nil => cases im <;> simp_all
      | cons x xs ih => cases im with
        | nil => simp at h
        | cons y ys => simp [ih ys (by simpa using h)]
  · intro h
    unfold complexOf; rw [if_pos h]; exact ⟨_, rfl⟩

end builders

/-- `conj(x)` conjugates every element -/
theorem conjOf_toC (z : List (Cx ℝ)) : (conjOf z).map toC = (z.map toC).map (starRingEnd ℂ) := by
  simp only [conjOf, List.map_map]
  apply List.map_congr_left
  intro w _
  apply Complex.ext <;> simp

/-- `complex(x)` embeds the reals -/
theorem castOf_toC (x : List ℝ) : (castOf x).map toC = x.map Complex.ofReal := by
  simp only [castOf, List.map_map]
  apply List.map_congr_left
  intro r _
  exact toC_castC r

/-! ### non-vacuity -/

/-- a real array divided by a complex array: hypotheses of the theorems hold, the result is complex,
    and element 1 is `4 / (1 + i)` -/
noncomputable def exEnv : Env ℝ := [.r [2, 4], .c [⟨0, 1⟩, ⟨1, 1⟩]]
noncomputable def exE : Expr ℝ := .aa .div (.var 0) (.var 1)

example : WF exEnv exE := by simp [WF, exEnv, exE, len, Val.size]

/-- non-vacuity: the hypotheses of `eval_pointwise` hold at a concrete program containing a real-array / complex-array quotient -/
theorem exE_divOk : DivOk exEnv exE := by
  refine ⟨trivial, trivial, fun _ i hi => ?_⟩
  simp only [len, exEnv, Val.size] at hi
  have : i = 0 ∨ i = 1 := by simp at hi; omega
  rcases this with rfl | rfl <;> simp [den, exEnv, elemC, toC, Complex.ext_iff]

example : ∃ v, evalE exEnv exE = .ok v ∧ v.isC = true ∧ v.size = 2 ∧ elemC v 1 = 4 / (1 + Complex.I) := by
  obtain ⟨v, hv, hs, hk⟩ := (evalE_shape exEnv exE).1 (by simp [WF, exEnv, exE, len, Val.size])
  refine ⟨v, hv, by rw [hk]; simp [kind, exEnv, exE, Val.isC], by rw [hs]; simp [len, exEnv, exE, Val.size], ?_⟩
  rw [eval_pointwise exEnv exE v hv exE_divOk 1 (by rw [hs]; simp [len, exEnv, exE, Val.size])]
  simp only [den, exE, exEnv, fop, elemC]
  congr 1
  apply Complex.ext <;> simp

/-- operands of different length are rejected -/
example : ∃ m, evalE ([.r [1, 2], .r [1]] : Env ℝ) (.aa .add (.var 0) (.var 1)) = .error m :=
  (evalE_shape _ _).2 (by simp [WF, len, Val.size])

/-- mask and index-list selection on a concrete array -/
example : trues [true, false, true, true] = [0, 2, 3] := by decide
example : sel [10, 20, 30, 40] [true, false, true, true] = [10, 30, 40] := rfl
example : gatherL 0 [10, 20, 30] [2, 0, 2] = .ok [30, 10, 30] := by decide
example : gatherL 0 [10, 20, 30] [2, 3] = .error "index must not exceed the size of the vector" := by decide
example : gatherL 0 [10, 20, 30] [-1] = .error "index must not exceed the size of the vector" := by decide

end Dsp.C03
