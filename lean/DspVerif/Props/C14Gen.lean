import DspVerif.Props.C14
import DspVerif.Props.C06Gen
import DspVerif.Gen.StepsTuner
import DspVerif.Gen.CtorTuner
import DspVerif.Gen.CtorDelay
/-!
# C14 — bridge: the hand-written `Tuner` model IS the regenerated loop body of `Tuner::process`

`Gen/StepsTuner.lean` is written by `tools/cxx2lean.py` on every check run from the C++ AST of
`include/dsplib/tuner.h`: the body of the sample loop of `Tuner::process` as `Gen.tunerStep`, the members it reads
(`int _fs`, `real_t _freq`, `bool _periodic`) and writes (`long long _phase`).  The translator CHECKS the C++ types of the
members (a sample counter narrower than 64 bit makes the GEN obligation fail), that `process` is nothing but that loop
over the whole input (a counter copied into a local before the loop and written back after it — seeded change C14-D — is
rejected), and refuses every integer conversion that can change a value.

This file proves that `tunerNext` / `tunerMul` of `Model/Hilbert.lean` — about which T14.5 of `Props/C14.lean` is
stated — are that generated step, for EVERY model state and sample, and transports `tuner_eq` to the generated step
folded over a whole stream.  The model keeps `_fs` and `_phase` as `Nat`; the generated structures keep the C++ `int` /
`long long` as `Int`.  Every model state is a generated one (`toGenP`, `toGenS`); the generated states with
`0 ≤ _fs`, `0 ≤ _phase` are exactly those (`tunerStep_eq_ofGen`; `_phase` starts at 0 and is only incremented or reset).
Not modelled (as everywhere): overflow of the 64-bit counter (after 2^63 samples).
-/
namespace Dsp.C14Gen
open Dsp Dsp.Hilbert Dsp.Cx

set_option linter.unusedSectionVars false

/-! ## Folding a one-output step function over a stream -/

section fold
variable {σ τ X B : Type}

/-- `for (int i = 0; i < n; i++) BODY` with `BODY = f`: final state and all outputs -/
def run1 (f : σ → X → σ × B) (s : σ) (x : Array X) : σ × Array B :=
  x.foldl (fun acc xi => ((f acc.1 xi).1, acc.2.push (f acc.1 xi).2)) (s, #[])

theorem foldl_run1_map (f : σ → X → σ × B) (g : τ → X → τ × B) (φ : τ → σ) (I : τ → Prop)
    (hI : ∀ t x, I t → I (g t x).1) (h : ∀ t x, I t → f (φ t) x = (φ (g t x).1, (g t x).2)) :
    ∀ (l : List X) (t : τ) (oa : Array B), I t →
      l.foldl (fun acc xi => ((f acc.1 xi).1, acc.2.push (f acc.1 xi).2)) (φ t, oa) =
        (φ (l.foldl (fun acc xi => ((g acc.1 xi).1, acc.2.push (g acc.1 xi).2)) (t, oa)).1,
          (l.foldl (fun acc xi => ((g acc.1 xi).1, acc.2.push (g acc.1 xi).2)) (t, oa)).2) := by
  intro l
  induction l with
  | nil => intro t oa _; rfl
  | cons a l ih =>
    intro t oa ht
    simp only [List.foldl_cons, h t a ht]
    exact ih _ _ (hI t a ht)

/-- two step functions that agree through a state conversion `φ` on an invariant `I` give the same run -/
theorem run1_map (f : σ → X → σ × B) (g : τ → X → τ × B) (φ : τ → σ) (I : τ → Prop)
    (hI : ∀ t x, I t → I (g t x).1) (h : ∀ t x, I t → f (φ t) x = (φ (g t x).1, (g t x).2))
    (t : τ) (ht : I t) (x : Array X) :
    run1 f (φ t) x = (φ (run1 g t x).1, (run1 g t x).2) := by
  unfold run1
  rw [← Array.foldl_toList, ← Array.foldl_toList]
  exact foldl_run1_map f g φ I hI h _ _ _ ht

end fold

section generic
variable {α : Type} [Add α] [Sub α] [Mul α] [Div α] [Neg α] [LT α] [LE α] [Fn α] [OfScientific α]
  [DecidableRel (· < · : α → α → Prop)] [DecidableRel (· ≤ · : α → α → Prop)]

/-- the members the generated loop body only reads, from a model state -/
def toGenP (t : TunerState α) : Gen.TunerStepParams α :=
  { fs := (t.fs : Int), freq := t.freq, periodic := t.periodic }

/-- the member the generated loop body writes -/
def toGenS (t : TunerState α) : Gen.TunerStepState α := { phase := (t.phase : Int) }

/-- a model state from generated records (faithful when `0 ≤ _fs`, `0 ≤ _phase`) -/
def ofGen (q : Gen.TunerStepParams α) (s : Gen.TunerStepState α) : TunerState α :=
  { fs := q.fs.toNat, freq := q.freq, periodic := q.periodic, phase := s.phase.toNat }

theorem ofGen_toGen (t : TunerState α) : ofGen (toGenP t) (toGenS t) = t := by
  simp [ofGen, toGenP, toGenS]

theorem toGen_ofGen (q : Gen.TunerStepParams α) (s : Gen.TunerStepState α) (hfs : 0 ≤ q.fs) (hph : 0 ≤ s.phase) :
    toGenP (ofGen q s) = q ∧ toGenS (ofGen q s) = s := by
  cases q; cases s
  simp_all [ofGen, toGenP, toGenS]

/-- the model's process is `run1` of the model's step (definitional) -/
theorem tunerProcess_eq_run1 (t : TunerState α) (xs : Array (Cx α)) :
    tunerProcess t xs = run1 (fun s x => (tunerNext s, x * tunerMul s)) t xs := rfl

theorem toGenP_tunerNext (t : TunerState α) : toGenP (tunerNext t) = toGenP t := rfl

/-- **bridge, Tuner, every scalar type** (the C++ converts `_phase`, `_fs` and the literal `2` from integer types:
`Fn.ofInt`; the model converts from `Nat`: `Fn.ofNat`; they agree on naturals at `Float` and at `ℝ`):
the generated loop body of `Tuner::process` is `(tunerNext, x * tunerMul)`, for every model state and every sample. -/
theorem tunerStep_eq_generic (hcast : ∀ n : Nat, (Fn.ofInt (n : Int) : α) = Fn.ofNat n)
    (t : TunerState α) (x : Cx α) :
    Gen.tunerStep (toGenP t) (toGenS t) x = (toGenS (tunerNext t), x * tunerMul t) := by
  have h2 : (Fn.ofInt (2 : Int) : α) = Fn.ofNat 2 := hcast 2
  have hc : ((t.phase : Int) + 1 ≥ (t.fs : Int)) ↔ (t.fs ≤ t.phase + 1) := by
    constructor <;> intro h <;> omega
  simp only [Gen.tunerStep, toGenP, toGenS, tunerNext, tunerMul, hcast, h2, hc, Bool.and_eq_true, decide_eq_true_eq]
  split_ifs <;> simp_all

end generic

noncomputable section

/-- **bridge, Tuner, at `ℝ`** (no hypothesis) -/
theorem tunerStep_eq (t : TunerState ℝ) (x : Cx ℝ) :
    Gen.tunerStep (toGenP t) (toGenS t) x = (toGenS (tunerNext t), x * tunerMul t) :=
  tunerStep_eq_generic (fun n => by simp) t x

/-- the same for every pair of generated records with non-negative `_fs`, `_phase`; the step keeps `_phase ≥ 0` -/
theorem tunerStep_eq_ofGen (q : Gen.TunerStepParams ℝ) (s : Gen.TunerStepState ℝ) (hfs : 0 ≤ q.fs) (hph : 0 ≤ s.phase)
    (x : Cx ℝ) :
    Gen.tunerStep q s x = (toGenS (tunerNext (ofGen q s)), x * tunerMul (ofGen q s)) ∧
      0 ≤ (Gen.tunerStep q s x).1.phase := by
  have e := tunerStep_eq (ofGen q s) x
  rw [(toGen_ofGen q s hfs hph).1, (toGen_ofGen q s hfs hph).2] at e
  refine ⟨e, ?_⟩
  rw [e]
  simp [toGenS]

/-- **whole stream:** the generated loop body folded over the input is the model's `tunerProcess` -/
theorem tuner_run_eq (t : TunerState ℝ) (xs : Array (Cx ℝ)) :
    run1 (Gen.tunerStep (toGenP t)) (toGenS t) xs = (toGenS (tunerProcess t xs).1, (tunerProcess t xs).2) := by
  rw [tunerProcess_eq_run1]
  exact run1_map (Gen.tunerStep (toGenP t)) (fun s x => (tunerNext s, x * tunerMul s)) toGenS
    (fun s => toGenP s = toGenP t) (fun s _ hs => by rw [← hs]; rfl)
    (fun s x hs => by rw [← hs]; exact tunerStep_eq s x) t rfl xs

/-- **T14.5 transported to the regenerated code.**  For every sample rate `fs ≥ 1`, EVERY frequency the constructor
accepts (integral or not) and every stream: running the GENERATED loop body of `Tuner::process` from the constructed
state gives as output `k` the input `k` times `exp(2πi·f·k/fs)`, for every `k` — in particular beyond `2^31` samples,
because the generated counter is the unbounded image of a 64-bit member (a 32-bit one is rejected by the translator). -/
theorem tuner_gen_eq (fs : ℕ) (hfs : 0 < fs) (f : ℝ) (s0 : TunerState ℝ) (h0 : tunerInit fs f = .ok s0)
    (xs : Array (Cx ℝ)) :
    (run1 (Gen.tunerStep (toGenP s0)) (toGenS s0) xs).2.size = xs.size ∧
    ∀ k, k < xs.size →
      toC ((run1 (Gen.tunerStep (toGenP s0)) (toGenS s0) xs).2.getD k 0) =
        toC (xs.getD k 0) * Complex.exp (((2 * Real.pi * f * (k : ℝ) / (fs : ℝ) : ℝ) : ℂ) * Complex.I) := by
  rw [tuner_run_eq]
  have hs := (C14.tunerInit_ok fs f s0 h0).1
  have hfs0 : 0 < s0.fs := by rw [hs]; exact hfs
  have hp0 : s0.periodic = true → s0.phase < s0.fs := by rw [hs]; intro _; exact hfs
  obtain ⟨_, h2, h3⟩ := C14.tuner_process_eq s0 hfs0 hp0 xs
  refine ⟨h2, fun k hk => ?_⟩
  show toC ((tunerProcess s0 xs).2.getD k 0) = _
  rw [h3 k hk, toC_mul, C14.tuner_mul_closed fs hfs f s0 h0 k]

/-- the counter the generated loop leaves behind: `k mod fs` for an integral `f`, `k` otherwise -/
theorem tuner_gen_state (fs : ℕ) (hfs : 0 < fs) (f : ℝ) (s0 : TunerState ℝ) (h0 : tunerInit fs f = .ok s0)
    (xs : Array (Cx ℝ)) :
    (run1 (Gen.tunerStep (toGenP s0)) (toGenS s0) xs).1 = toGenS (C14.advance s0 xs.size) := by
  rw [tuner_run_eq]
  have hs := (C14.tunerInit_ok fs f s0 h0).1
  rw [(C14.tuner_process_eq s0 (by rw [hs]; exact hfs) (by rw [hs]; intro _; exact hfs) xs).1]

/-! ## The constructor `Tuner::Tuner(int sample_rate, real_t freq)` (regenerated: `Gen/CtorTuner.lean`)

`Gen.tunerCtor` is the constructor as the C++ AST has it now: the members in declaration order (`_fs{sample_rate}`, `_freq{freq}`,
`_periodic{freq == std::floor(freq)}` — IEEE `==` as `≤ ∧ ≥` —, `_phase{0}` from the default member initialiser), then the
`DSPLIB_ASSERT(std::abs(_freq) <= (_fs / 2.0))` of the body.  The model's `tunerInit` is that function (`tunerCtor_eq`), so a change of
the integer test, of the guard, or of the initial counter changes `Gen.tunerCtor` and breaks these proofs. -/

/-- the generated object record of a model state -/
def toGenObj {α : Type} (t : TunerState α) : Gen.TunerObj α :=
  { fs := (t.fs : Int), freq := t.freq, periodic := t.periodic, phase := (t.phase : Int) }

/-- the members of a constructed object that the generated loop body only reads / writes -/
def objP {α : Type} (o : Gen.TunerObj α) : Gen.TunerStepParams α := { fs := o.fs, freq := o.freq, periodic := o.periodic }
def objS {α : Type} (o : Gen.TunerObj α) : Gen.TunerStepState α := { phase := o.phase }

theorem objP_toGenObj {α : Type} (t : TunerState α) : objP (toGenObj t) = toGenP t := rfl
theorem objS_toGenObj {α : Type} (t : TunerState α) : objS (toGenObj t) = toGenS t := rfl

/-- **bridge, Tuner constructor, every scalar type on which `Fn.ofInt` and `Fn.ofNat` agree on naturals:** the generated
constructor IS `tunerInit`, for every sample rate `fs ≥ 0` and EVERY frequency (accepted or rejected, same message). -/
theorem tunerCtor_eq_generic {α : Type} [Add α] [Sub α] [Mul α] [Div α] [Neg α] [LT α] [LE α] [Fn α] [OfScientific α]
    [DecidableRel (· < · : α → α → Prop)] [DecidableRel (· ≤ · : α → α → Prop)]
    (hcast : ∀ n : Nat, (Fn.ofInt (n : Int) : α) = Fn.ofNat n) (fs : ℕ) (f : α) :
    Gen.tunerCtor (fs : Int) f = (tunerInit fs f).map toGenObj := by
  have h2 : (Fn.ofInt (2 : Int) : α) = Fn.ofNat 2 := hcast 2
  unfold Gen.tunerCtor tunerInit
  simp only [hcast, h2]
  by_cases h : Fn.abs f ≤ (Fn.ofNat fs : α) / Fn.ofNat 2
  · simp [h, toGenObj, Except.map, and_comm]
  · simp [h, Except.map]

/-- **bridge, Tuner constructor, at `ℝ`** (no hypothesis) -/
theorem tunerCtor_eq (fs : ℕ) (f : ℝ) : Gen.tunerCtor (fs : Int) f = (tunerInit fs f).map toGenObj :=
  tunerCtor_eq_generic (fun n => by simp) fs f

/-- what the generated constructor accepts, for EVERY `int` sample rate (negative ones included: they reject every frequency):
exactly `|f| ≤ fs / 2` in real division, and then the object is `(fs, f, f integral, 0)`. -/
theorem tunerCtor_ok_iff (fs : Int) (f : ℝ) (o : Gen.TunerObj ℝ) :
    Gen.tunerCtor fs f = .ok o ↔
      |f| ≤ (fs : ℝ) / 2 ∧ o = { fs := fs, freq := f, periodic := decide (f ≤ (⌊f⌋ : ℝ) ∧ (⌊f⌋ : ℝ) ≤ f), phase := 0 } := by
  unfold Gen.tunerCtor
  by_cases h : |f| ≤ (fs : ℝ) / 2
  · have h' : Fn.abs f ≤ (Fn.ofInt fs : ℝ) / Fn.ofInt 2 := by simpa using h
    simp only [h', not_true_eq_false, if_false, h, true_and]
    constructor
    · intro e; injection e with e; rw [← e]; simp [fn_floor, and_comm]
    · intro e; rw [e]; simp [fn_floor, and_comm]
  · have h' : ¬ Fn.abs f ≤ (Fn.ofInt fs : ℝ) / Fn.ofInt 2 := by simpa using h
    simp [h]

/-- a negative sample rate is rejected whatever the frequency -/
theorem tunerCtor_neg (fs : Int) (hfs : fs < 0) (f : ℝ) : ∃ e, Gen.tunerCtor fs f = .error e := by
  unfold Gen.tunerCtor
  have h' : ¬ Fn.abs f ≤ (Fn.ofInt fs : ℝ) / Fn.ofInt 2 := by
    have : ((fs : ℝ)) / 2 < 0 := by
      have : (fs : ℝ) < 0 := by exact_mod_cast hfs
      linarith
    have h0 : 0 ≤ |f| := abs_nonneg f
    simp only [not_le]
    show (Fn.ofInt fs : ℝ) / Fn.ofInt 2 < Fn.abs f
    simpa using lt_of_lt_of_le this h0
  rw [if_pos h']
  exact ⟨_, rfl⟩

/-- **T14.5 from the GENERATED constructor to the GENERATED loop body.**  For every sample rate `fs ≥ 1` and every frequency: if the
regenerated constructor accepts `(fs, f)` — which it does exactly for `|f| ≤ fs/2` (`tunerCtor_ok_iff`) — then running the regenerated
loop body of `Tuner::process` from the object it leaves gives as output `k` the input `k` times `exp(2πi·f·k/fs)`, for every `k`
and every stream.  Nothing hand-modelled is left between the C++ source of `Tuner` and this statement. -/
theorem tuner_gen_from_ctor (fs : ℕ) (hfs : 0 < fs) (f : ℝ) (o : Gen.TunerObj ℝ) (h0 : Gen.tunerCtor (fs : Int) f = .ok o)
    (xs : Array (Cx ℝ)) :
    (run1 (Gen.tunerStep (objP o)) (objS o) xs).2.size = xs.size ∧
    ∀ k, k < xs.size →
      toC ((run1 (Gen.tunerStep (objP o)) (objS o) xs).2.getD k 0) =
        toC (xs.getD k 0) * Complex.exp (((2 * Real.pi * f * (k : ℝ) / (fs : ℝ) : ℝ) : ℂ) * Complex.I) := by
  rw [tunerCtor_eq] at h0
  cases hm : tunerInit fs f with
  | error e => rw [hm] at h0; exact absurd h0 (by simp [Except.map])
  | ok s0 =>
    rw [hm] at h0
    have ho : o = toGenObj s0 := by
      simp only [Except.map] at h0
      injection h0 with h0; exact h0.symm
    rw [ho, objP_toGenObj, objS_toGenObj]
    exact tuner_gen_eq fs hfs f s0 hm xs

/-- the counter the generated code holds after the generated constructor and `k` samples: `k mod fs` exactly when `f` is an integer
(`_periodic`), `k` itself otherwise — a tolerant integer test in the constructor (seeded change C14-F) contradicts this. -/
theorem tuner_gen_from_ctor_state (fs : ℕ) (hfs : 0 < fs) (f : ℝ) (o : Gen.TunerObj ℝ) (h0 : Gen.tunerCtor (fs : Int) f = .ok o)
    (xs : Array (Cx ℝ)) :
    (run1 (Gen.tunerStep (objP o)) (objS o) xs).1.phase =
      if f ≤ (⌊f⌋ : ℝ) ∧ (⌊f⌋ : ℝ) ≤ f then ((xs.size % fs : ℕ) : Int) else (xs.size : Int) := by
  rw [tunerCtor_eq] at h0
  cases hm : tunerInit fs f with
  | error e => rw [hm] at h0; exact absurd h0 (by simp [Except.map])
  | ok s0 =>
    rw [hm] at h0
    have ho : o = toGenObj s0 := by
      simp only [Except.map] at h0
      injection h0 with h0; exact h0.symm
    rw [ho, objP_toGenObj, objS_toGenObj, tuner_gen_state fs hfs f s0 hm xs]
    obtain ⟨rfl, _⟩ := C14.tunerInit_ok fs f s0 hm
    unfold C14.advance toGenS
    by_cases hper : f ≤ (⌊f⌋ : ℝ) ∧ (⌊f⌋ : ℝ) ≤ f
    · simp [hper]
    · simp [hper]

/-- non-vacuity of the constructor bridge: `Tuner(9, 4.5)` is accepted by the GENERATED constructor (real division `9 / 2.0`),
with `_periodic = false`; `Tuner(8, 3)` with `_periodic = true`; `Tuner(9, 4.75)` is rejected -/
example : ∃ o, Gen.tunerCtor (9 : Int) (4.5 : ℝ) = .ok o ∧ o.periodic = false := by
  refine ⟨_, (tunerCtor_ok_iff 9 4.5 _).2 ⟨by norm_num [abs_of_nonneg], rfl⟩, ?_⟩
  have : ⌊(4.5 : ℝ)⌋ = 4 := by rw [Int.floor_eq_iff]; norm_num
  simp [this]; norm_num
example : ∃ e, Gen.tunerCtor (9 : Int) (4.75 : ℝ) = .error e := by
  cases h : Gen.tunerCtor (9 : Int) (4.75 : ℝ) with
  | error e => exact ⟨e, rfl⟩
  | ok o => have := ((tunerCtor_ok_iff 9 4.75 o).1 h).1; norm_num [abs_of_nonneg] at this

/-- non-vacuity: `Tuner(48000, 0.3)` is accepted, so `tuner_gen_eq` applies to a non-integral frequency -/
example : ∃ s0 : TunerState ℝ, tunerInit 48000 (3 / 10 : ℝ) = .ok s0 :=
  (C14.tunerInit_accepts 48000 (3 / 10)).mpr (by rw [abs_of_pos (by norm_num)]; norm_num)

end


/-! ## `Delay<T>::process`, `HilbertFilter::process` (regenerated: `Gen/StepsDelay.lean`) and the models of `Model/Hilbert.lean`

The bridge proper is `Props/C06Gen.lean` (against the minimal models of `Model/Framing.lean`); here the same generated functions
are tied to `Hilbert.delayProcess` / `Hilbert.delayProcessE` / `Hilbert.hfProcess`, about which the C14 theorems speak. -/

section hilbertFilter

/-- `Delay<real_t>::process`, generated = `Hilbert.delayProcess` (buffer of at least one sample) -/
theorem gen_delayProcess_eq (s : DelayState ℝ) (x : Array ℝ) (hb : 1 ≤ s.buf.size) :
    Gen.delayRProcess ⟨s.buf⟩ x = .ok (⟨(delayProcess s x).1.buf⟩, (delayProcess s x).2) := by
  rw [C06Gen.delayRProcess_eq s.buf x hb]
  simp only [Framing.delayProcess, delayProcess]

/-- … and the throwing case of `Hilbert.delayProcessE` (buffer of length 0): the generated code throws as well -/
theorem gen_delayProcessE_zero (s : DelayState ℝ) (x : Array ℝ) (hb : s.buf.size = 0) :
    (∃ e, Gen.delayRProcess ⟨s.buf⟩ x = .error e) ∧ (∃ e, delayProcessE s x = .error e) := by
  have : s.buf = #[] := Array.eq_empty_of_size_eq_zero hb
  constructor
  · rw [this, C06Gen.delayRProcess_zero]; exact ⟨_, rfl⟩
  · unfold delayProcessE; rw [if_pos hb]; exact ⟨_, rfl⟩

/-- `HilbertFilter::process`, generated = `Hilbert.hfProcess`: at least one tap, history of `nh - 1` samples, delay buffer of
at least one sample (all true for the state `HilbertFilter(h)` constructs from an accepted tap vector) -/
theorem gen_hfProcess_eq (s : HfState ℝ) (x : Array ℝ) (hf : 1 ≤ s.fir.h.size) (hd : s.fir.d.size = s.fir.h.size - 1)
    (hb : 1 ≤ s.d.buf.size) :
    Gen.hilbertProcess ⟨⟨s.fir.h, s.fir.d⟩, ⟨s.d.buf⟩⟩ x =
      .ok (⟨⟨(hfProcess s x).1.fir.h, (hfProcess s x).1.fir.d⟩, ⟨(hfProcess s x).1.d.buf⟩⟩, (hfProcess s x).2) := by
  have h := C06Gen.hilbertProcess_eq ⟨s.fir, s.d.buf⟩ x hf hd hb
  unfold C06Gen.toGenH at h
  rw [h]
  have hre : (Framing.delayProcess s.d.buf x).2.size = x.size := C06.delay_out_size s.d.buf x
  have him : (Fir.firProcessR s.fir x).2.size = x.size := by
    simp only [Fir.firProcessR, Fir.process, Fir.conv, Array.size_ofFn, Array.size_append, hd]; omega
  simp only [Framing.Hilbert.process, hfProcess, delayProcess, Framing.delayProcess]
  congr 2
  have hre' : ((s.d.buf ++ x).extract 0 x.size).size = x.size := by
    have := hre; simpa only [Framing.delayProcess] using this
  generalize (s.d.buf ++ x).extract 0 x.size = A at hre' ⊢
  generalize (Fir.firProcessR s.fir x).2 = B at him ⊢
  apply Array.ext
  · simp [hre', him]
  · intro j hj1 hj2
    simp only [Array.size_ofFn] at hj2
    simp [Array.getD_eq_getD_getElem?, show j < A.size by omega, show j < B.size by omega]

end hilbertFilter

/-! BEGIN steps3 constructors -/
/-! ## Constructors of `Delay<T>` and `HilbertFilter` (regenerated: `Gen/CtorDelay.lean`, `Gen/CtorFir.lean`)

`Delay(int length)` (`_buffer(length)`: zero-filled), `Delay(const base_array<T>& initial)` (`_buffer(initial)`);
`HilbertFilter(const arr_real& h)`: `_fir(h)` (the GENERATED `FirFilter<real_t>` constructor), `_d{h.size() / 2}` (the GENERATED
`Delay<real_t>(int)` constructor, C `/`), then `DSPLIB_ASSERT(firtype(h) == FirType::EvenAntiSym)` with `firtype` a parameter and the
enumerator value regenerated; `HilbertFilter(int flen, real_t tw)` delegates to it with `real_hilbert(design_fir(flen, 1.0, tw))`,
`real_hilbert` = `imag(h) * 2` translated (`imag(const arr_cmplx&)` of lib/math.cpp translated, `arr_real * int` pinned),
`design_fir` a parameter. -/

noncomputable section

/-- **bridge, `Delay<real_t>(int length)`**, `length ≥ 0` -/
theorem delayRCtorLen_eq (n : ℕ) : (Gen.delayRCtorLen (n : Int) : Gen.DelayRState ℝ) = ⟨(delayInit (0 : ℝ) n).buf⟩ := by
  simp [Gen.delayRCtorLen, delayInit, Gen.arrNew, Gen.zeroR]

/-- **bridge, `Delay<real_t>(const arr_real& initial)`** -/
theorem delayRCtorInit_eq (a : Array ℝ) : (Gen.delayRCtorInit a : Gen.DelayRState ℝ) = ⟨(delayInitWith a).buf⟩ := rfl

/-- **bridge, `Delay<cmplx_t>(int length)`** -/
theorem delayCCtorLen_eq (n : ℕ) : (Gen.delayCCtorLen (n : Int) : Gen.DelayCState ℝ) = ⟨(delayInit (0 : Cx ℝ) n).buf⟩ := by
  simp [Gen.delayCCtorLen, delayInit, Gen.arrNew, C07Gen.gzeroC_eq]

/-- **bridge, `Delay<cmplx_t>(const arr_cmplx& initial)`** -/
theorem delayCCtorInit_eq (a : Array (Cx ℝ)) : (Gen.delayCCtorInit a : Gen.DelayCState ℝ) = ⟨(delayInitWith a).buf⟩ := rfl

/-- `Delay(0)` is constructed (and its first `process` throws: `gen_delayProcessE_zero`); a negative length gives the same empty buffer
here, where C++ throws `std::length_error` -/
theorem delayRCtorLen_nonpos (n : Int) (hn : n ≤ 0) : (Gen.delayRCtorLen n : Gen.DelayRState ℝ) = ⟨#[]⟩ := by
  have : n.toNat = 0 := by omega
  simp [Gen.delayRCtorLen, Gen.arrNew, this]

/-- `imag(const arr_cmplx&)` of lib/math.cpp (generated) is the element-wise imaginary part -/
theorem imagArr_eq (x : Array (Cx ℝ)) : Gen.imagArr x = x.map (fun z => z.im) := by
  unfold Gen.imagArr
  simp only [Gen.arrNew, Gen.arrSize, Int.ofNat_eq_natCast, Int.toNat_natCast]
  have key := GenBridge.foldl_set_eq_ofFn (0 : ℝ) (fun (_ : ℝ) (k : Nat) => (x.getD k Gen.zeroC).im) x.size
    (Array.replicate x.size Gen.zeroR) (by simp)
  have hf : (Gen.imagArr_loop1 x : Array ℝ → Nat → Array ℝ) = fun a i => a.setIfInBounds i (x.getD i Gen.zeroC).im := by
    funext a i
    simp only [Gen.imagArr_loop1, Int.ofNat_eq_natCast, GenBridge.arrSet_natCast, GenBridge.arrGet_natCast]
  rw [hf]
  refine key.trans ?_
  apply Array.ext
  · simp
  · intro i h1 h2
    simp only [Array.size_ofFn] at h1
    simp

/-- `real_hilbert` of lib/hilbert.cpp (generated) is the model's `realHilbert` -/
theorem hilbertRealHilbert_eq (hh : Array (Cx ℝ)) : Gen.hilbertRealHilbert hh = realHilbert hh := by
  unfold Gen.hilbertRealHilbert Gen.arrMulRI realHilbert
  rw [imagArr_eq]
  simp [Array.map_map, Function.comp_def]

/-- `firtype` as the generated constructor takes it: the model's `Window.firtype` with its value as an `int` -/
def firtypeI (a : Array ℝ) : Int := (Window.firtype a.toList : Int)

/-- the generated state of the model's `HilbertFilter` state -/
def toGenHf (s : HfState ℝ) : Gen.HilbertFilterState ℝ := ⟨⟨s.fir.h, s.fir.d⟩, ⟨s.d.buf⟩⟩

/-- **bridge, `HilbertFilter(const arr_real& h)`:** for EVERY tap vector the generated constructor (with the generated sub-object
constructors and the regenerated enumerator value `FirType::EvenAntiSym`) accepts exactly when `hfInit` does — same message — and
leaves the same object -/
theorem hilbertCtorTaps_eq (h : Array ℝ) : Gen.hilbertCtorTaps firtypeI h = (hfInit h).map toGenHf := by
  unfold Gen.hilbertCtorTaps hfInit firtypeI
  have h3 : ((Window.firtype h.toList : Int) = Gen.FirType_EvenAntiSym) ↔ Window.firtype h.toList = 3 := by
    unfold Gen.FirType_EvenAntiSym; omega
  by_cases hc : Window.firtype h.toList = 3
  · have hd : (Int.tdiv (h.size : Int) 2) = ((h.size / 2 : ℕ) : Int) := by
      rw [Int.tdiv_eq_ediv_of_nonneg (by omega)]; simp
    have hc' : ((Window.firtype h.toList : Int) = Gen.FirType_EvenAntiSym) := h3.mpr hc
    rw [if_pos hc]
    simp only [hc', not_true_eq_false, if_false, Except.map, toGenHf, C07Gen.firRCtor_eq, C07Gen.toGenR, Gen.arrSize, Int.ofNat_eq_natCast, hd, delayRCtorLen_eq]
    simp [Fir.firInitR, Cx.zeroR_eq]
  · have hc' : ¬ ((Window.firtype h.toList : Int) = Gen.FirType_EvenAntiSym) := fun e => hc (h3.mp e)
    have hc'' : ¬ (Gen.FirType_EvenAntiSym = (Window.firtype h.toList : Int)) := fun e => hc' e.symm
    rw [if_neg hc]
    simp [hc', hc'', Except.map]

/-- **bridge, `HilbertFilter(int flen, real_t tw)`:** with any `design_fir` the generated delegating constructor is the model's
composition `hfInit ∘ realHilbert ∘ design_fir(flen, 1.0, tw)` -/
theorem hilbertCtorDesign_eq (designFir : Int → ℝ → ℝ → Except String (Array (Cx ℝ))) (flen : Int) (tw : ℝ) :
    Gen.hilbertCtorDesign firtypeI designFir flen tw =
      match designFir flen 1 tw with
      | .error e => .error e
      | .ok hh => (hfInit (realHilbert hh)).map toGenHf := by
  unfold Gen.hilbertCtorDesign
  simp only [fn_ofInt, Int.cast_one]
  cases designFir flen 1 tw with
  | error e => rfl
  | ok hh => simp only [hilbertRealHilbert_eq, hilbertCtorTaps_eq]

/-- **T14.4 from the GENERATED constructor through the GENERATED `process`.**  For every tap vector the regenerated constructor
accepts (then `M = len h` is odd and `≥ 3`) and every frame: the regenerated `HilbertFilter::process` returns as many outputs as inputs,
output `k` with real part `x[k - M/2]` (0 while `k < M/2`) and imaginary part `Σ_{j ≤ k} h[j]·x[k-j]`. -/
theorem hilbert_gen_from_ctor (h : Array ℝ) (o : Gen.HilbertFilterState ℝ) (ho : Gen.hilbertCtorTaps firtypeI h = .ok o)
    (x : Array ℝ) :
    ∃ st y, Gen.hilbertProcess o x = .ok (st, y) ∧ y.size = x.size ∧
      ∀ k, k < x.size →
        (y.getD k 0).re = (if k < h.size / 2 then 0 else x.getD (k - h.size / 2) 0) ∧
        (y.getD k 0).im = ∑ j ∈ Finset.range h.size, if j ≤ k then h.getD j 0 * x.getD (k - j) 0 else 0 := by
  rw [hilbertCtorTaps_eq] at ho
  cases hs : hfInit h with
  | error e => rw [hs] at ho; exact absurd ho (by simp [Except.map])
  | ok s0 =>
    rw [hs] at ho
    have hoe : o = toGenHf s0 := by
      simp only [Except.map] at ho
      injection ho with ho; exact ho.symm
    obtain ⟨hs0, _, h3⟩ := C14.hfInit_ok h s0 hs
    have e := gen_hfProcess_eq s0 x (by rw [hs0]; simp [Fir.firInitR, Fir.init]; omega)
      (by rw [hs0]; simp [Fir.firInitR, Fir.init]) (by rw [hs0]; simp [delayInit]; omega)
    have key := C14.hf_eq h s0 hs [x]
    simp only [C14.runFrames, C14.flatten, Array.append_empty] at key
    rw [hoe]
    exact ⟨_, _, e, key.1, key.2⟩

/-- the regenerated value of `FirType::EvenAntiSym` and the default arguments `HilbertFilter(int flen = 51, real_t tw = 0.01)` -/
theorem hilbert_ctor_consts :
    Gen.FirType_EvenAntiSym = 3 ∧ (Gen.hilbertCtorDesignDefault_flen, (Gen.hilbertCtorDesignDefault_tw : ℝ)) = (51, 1 / 100) := by
  simp [Gen.FirType_EvenAntiSym, Gen.hilbertCtorDesignDefault_flen, Gen.hilbertCtorDesignDefault_tw]

/-- non-vacuity: the antisymmetric taps `[1, 0, -1]` are accepted by the generated constructor -/
example : ∃ o, Gen.hilbertCtorTaps firtypeI (#[1, 0, -1] : Array ℝ) = .ok o := by
  rw [hilbertCtorTaps_eq]
  have : Window.firtype ((#[1, 0, -1] : Array ℝ).toList) = 3 := by
    simp [Window.firtype, Window.isSymmetric, Window.isAntisymmetric, Window.equal, Window.eps]
    norm_num
  unfold hfInit
  rw [if_pos this]
  exact ⟨_, rfl⟩

end
/-! END steps3 constructors -/

end Dsp.C14Gen
