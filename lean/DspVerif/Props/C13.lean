import DspVerif.Lib.C13Dft
import Mathlib.Algebra.BigOperators.Field
import Mathlib.Tactic.Positivity
import Mathlib.Tactic.FieldSimp
/-!
# C13 — spectral estimates conserve power and label frequencies correctly

The theorems are about `Spectrum.welchR / welchC / mscohere` (`Model/Spectrum.lean`), the functions the driver runs at `Float`,
instantiated at `ℝ`.  The transform is a parameter `fft`; wherever a clause needs it, "`fft n` is the `n`-point DFT of the
zero-padded / truncated segment" is the explicit hypothesis `IsDftR` / `IsDftC` — that is property C01 (`Props/C01.lean`:
`fftRN_eq`, `fftCN_eq`); `exactR_isDft` / `exactC_isDft` show it is satisfiable.  Rounding is not modelled (measured by the oracle
of `harness/c13.cpp`).

* T13.1  `welchR_size`, `welchC_size`, `welchR_nonneg`, `welchC_nonneg`, `welchR_power`, `welchC_power`
* T13.2  `welchC_tone_value`, `welchC_tone_peak`, `welchC_tone_max` (complex tone, exact), `welchR_tone_bound`, `welchR_cos_tone`
         (real sinusoid: `A²/2` up to the negative-frequency image `2r + r²`)
* T13.3  `welchR_labels` (real input: full clause), `welchC_labels_partial` + `welchC_axis_offset` + `welchC_axis_witness`
         (complex input: what the code does, and that its labels are NOT the frequencies of the values)
* T13.4  `mscohere_range`, `mscohere_scaled_copy`
-/
open Finset Complex

namespace Dsp.C13
open Dsp.C07 Dsp.Fft Dsp.Spectrum Dsp.Primes

/-- `fft(seg, n)` of a real segment is the `n`-point DFT of the segment, zero-padded or truncated (`rdR` is `0` past the end) -/
def IsDftR (n : ℕ) (fft : Array ℝ → Vec ℝ) : Prop :=
  ∀ (y : Array ℝ) (k : ℕ), k < n → Cx.toC (rd (fft y) k) = dft n (seqR y) k

/-- `fft(seg, n)` of a complex segment is the `n`-point DFT of the segment, zero-padded or truncated -/
def IsDftC (n : ℕ) (fft : Vec ℝ → Vec ℝ) : Prop :=
  ∀ (y : Vec ℝ) (k : ℕ), k < n → Cx.toC (rd (fft y) k) = dft n (seq y) k

/-- the exact transform as an array (non-vacuity of `IsDftR`) -/
noncomputable def exactR (n : ℕ) (y : Array ℝ) : Vec ℝ := mk n (fun k => ⟨(dft n (seqR y) k).re, (dft n (seqR y) k).im⟩)
noncomputable def exactC (n : ℕ) (y : Vec ℝ) : Vec ℝ := mk n (fun k => ⟨(dft n (seq y) k).re, (dft n (seq y) k).im⟩)

/-- `IsDftR` is satisfiable (by the exact transform) -/
theorem exactR_isDft (n : ℕ) : IsDftR n (exactR n) := by
  intro y k hk
  unfold exactR
  rw [rd_mk_lt _ _ _ hk]
  apply Complex.ext <;> simp

/-- `IsDftC` is satisfiable (by the exact transform) -/
theorem exactC_isDft (n : ℕ) : IsDftC n (exactC n) := by
  intro y k hk
  unfold exactC
  rw [rd_mk_lt _ _ _ hk]
  apply Complex.ext <;> simp

/-! ## what an accepted call returns -/

/-- an accepted complex call: the guards passed (`plan`), `pxx` is `_calcspec`'s array, `f` the centred axis -/
theorem welchC_ok {fft : ℕ → Vec ℝ → Vec ℝ} {x : Vec ℝ} {win : Array ℝ} {nov nfft : ℤ} {psd : Bool} {pxx f : Array ℝ}
    (h : welchC fft x win nov nfft psd = .ok (pxx, f)) :
    ∃ pl, plan x.size win.size nov nfft = .ok pl ∧
      pxx = calcspec pl (winpow psd win) (fun i => fft pl.nfft (segC x win (i * pl.stride))) ∧ f = freqC pl.nfft := by
  unfold welchC at h
  cases hp : plan x.size win.size nov nfft with
  | error e => rw [hp] at h; cases h
  | ok pl =>
    rw [hp] at h
    refine ⟨pl, rfl, ?_, ?_⟩
    · have := congrArg (fun r => match r with | .ok (a, _) => a | .error _ => #[]) h
      simpa [bind, Except.bind, pure, Except.pure] using this.symm
    · have := congrArg (fun r => match r with | .ok (_, b) => b | .error _ => #[]) h
      simpa [bind, Except.bind, pure, Except.pure] using this.symm

/-- an accepted real call: the guards passed, `pxx` is the folded `_calcspec` array, `f = arange(0, nfft/2+1)/nfft` -/
theorem welchR_ok {fft : ℕ → Array ℝ → Vec ℝ} {x win : Array ℝ} {nov nfft : ℤ} {psd : Bool} {pxx f : Array ℝ}
    (h : welchR fft x win nov nfft psd = .ok (pxx, f)) :
    ∃ pl, plan x.size win.size nov nfft = .ok pl ∧
      pxx = oneSided pl.nfft (calcspec pl (winpow psd win) (fun i => fft pl.nfft (segR x win (i * pl.stride)))) ∧
      f = freqR pl.nfft := by
  unfold welchR at h
  cases hp : plan x.size win.size nov nfft with
  | error e => rw [hp] at h; cases h
  | ok pl =>
    rw [hp] at h
    refine ⟨pl, rfl, ?_, ?_⟩
    · have := congrArg (fun r => match r with | .ok (a, _) => a | .error _ => #[]) h
      simpa [bind, Except.bind, pure, Except.pure] using this.symm
    · have := congrArg (fun r => match r with | .ok (_, b) => b | .error _ => #[]) h
      simpa [bind, Except.bind, pure, Except.pure] using this.symm

/-- an accepted `mscohere` call: equal lengths, the guards passed, the result is `|Pxy|²/(Pxx·Pyy)` of the accumulated sums -/
theorem mscohere_ok {fft : ℕ → Array ℝ → Vec ℝ} {x y win : Array ℝ} {nov nfft : ℤ} {c : Array ℝ}
    (h : mscohere fft x y win nov nfft = .ok c) :
    x.size = y.size ∧ ∃ pl, plan x.size win.size nov nfft = .ok pl ∧
      c = cohOut (pl.nfft / 2 + 1) (cohAccum (pl.nfft / 2 + 1) (fun i => fft pl.nfft (segR x win (i * pl.stride)))
        (fun i => fft pl.nfft (segR y win (i * pl.stride))) pl.nseg.toNat) := by
  unfold mscohere at h
  by_cases hs : x.size = y.size
  · refine ⟨hs, ?_⟩
    have hne : ¬ (x.size ≠ y.size) := not_not.mpr hs
    rw [if_neg hne] at h
    cases hp : plan x.size win.size nov nfft with
    | error e => rw [hp] at h; simp [bind, Except.bind] at h
    | ok pl =>
      refine ⟨pl, rfl, ?_⟩
      rw [hp] at h
      have := congrArg (fun r => match r with | .ok a => a | .error _ => #[]) h
      simpa [bind, Except.bind, pure, Except.pure] using this.symm
  · rw [if_pos hs] at h
    simp [bind, Except.bind, throw, throwThe, MonadExceptOf.throw] at h

/-- the guards accept exactly when `plan` does (used for non-vacuity: accepted calls exist) -/
theorem welchC_accepts (fft : ℕ → Vec ℝ → Vec ℝ) (x : Vec ℝ) (win : Array ℝ) (nov nfft : ℤ) (psd : Bool) (pl : Spectrum.Plan)
    (hp : plan x.size win.size nov nfft = .ok pl) : ∃ pxx f, welchC fft x win nov nfft psd = .ok (pxx, f) := by
  unfold welchC
  rw [hp]
  exact ⟨_, _, rfl⟩

/-! ## cells of the result (no assumption on `fft`) -/

section cells
variable {nov nfft : ℤ} {psd : Bool} {pxx f : Array ℝ} {win : Array ℝ}

/-- complex input: entry `j` is the mean over the segments of `|X_i[j]|² / winpow` — transform order, `X_i = fft(seg_i, nfft)` -/
theorem welchC_cell {fft : ℕ → Vec ℝ → Vec ℝ} {x : Vec ℝ} (h : welchC fft x win nov nfft psd = .ok (pxx, f))
    (hNL : win.size ≤ x.size) (j : ℕ) (hj : j < nfft.toNat) :
    rdR pxx j = (∑ i ∈ range (nsegs x.size win.size nov),
        Cx.abs2 (rd (fft nfft.toNat (segC x win (i * hop win.size nov))) j) / winpow psd win) / (nsegs x.size win.size nov : ℝ) := by
  obtain ⟨pl, hp, rfl, rfl⟩ := welchC_ok h
  obtain ⟨_, _, _, hnf, _, _, _⟩ := plan_ok hp
  obtain ⟨hst, _, hns, hnt, _⟩ := plan_domain hp hNL
  rw [rdR_calcspec _ _ _ _ (by rw [hnf]; exact hj), hnt, hns, hst, hnf, Int.cast_natCast]

/-- real input: the two-sided cell before folding -/
theorem welchR_cell {fft : ℕ → Array ℝ → Vec ℝ} {x : Array ℝ} (h : welchR fft x win nov nfft psd = .ok (pxx, f))
    (hNL : win.size ≤ x.size) (hn : 2 ≤ nfft.toNat) (k : ℕ) (hk : k < nfft.toNat / 2 + 1) :
    rdR pxx k = (if k = 0 ∨ k = nfft.toNat / 2 then (1 : ℝ) else 2) *
      ((∑ i ∈ range (nsegs x.size win.size nov),
        Cx.abs2 (rd (fft nfft.toNat (segR x win (i * hop win.size nov))) k) / winpow psd win) / (nsegs x.size win.size nov : ℝ)) := by
  obtain ⟨pl, hp, rfl, rfl⟩ := welchR_ok h
  obtain ⟨_, _, _, hnf, _, _, _⟩ := plan_ok hp
  obtain ⟨hst, _, hns, hnt, _⟩ := plan_domain hp hNL
  rw [hnf, rdR_oneSided _ hn _ _ hk, ← hnf, rdR_calcspec _ _ _ _ (by rw [hnf]; omega), hnt, hns, hst, hnf, Int.cast_natCast]
  split <;> ring

end cells

/-! ## T13.1 sizes, signs, conservation of power -/

/-- T13.1 (clause "welch returns nfft/2+1 … values", real input): both returned vectors have `nfft/2 + 1` entries -/
theorem welchR_size {fft : ℕ → Array ℝ → Vec ℝ} {x win : Array ℝ} {nov nfft : ℤ} {psd : Bool} {pxx f : Array ℝ}
    (h : welchR fft x win nov nfft psd = .ok (pxx, f)) :
    pxx.size = nfft.toNat / 2 + 1 ∧ f.size = nfft.toNat / 2 + 1 := by
  obtain ⟨pl, hp, rfl, rfl⟩ := welchR_ok h
  obtain ⟨_, _, _, hnf, _, _, _⟩ := plan_ok hp
  rw [size_oneSided, size_freqR, hnf]
  exact ⟨rfl, rfl⟩

/-- T13.1 (clause "… or nfft (complex input) values"): `pxx` has `nfft` entries, and so has `f` for even `nfft`
(`nfft = 1`, the only odd power of two, gives an EMPTY `f`: `arange(1, 1)`; outside the property's range 8..4096) -/
theorem welchC_size {fft : ℕ → Vec ℝ → Vec ℝ} {x : Vec ℝ} {win : Array ℝ} {nov nfft : ℤ} {psd : Bool} {pxx f : Array ℝ}
    (h : welchC fft x win nov nfft psd = .ok (pxx, f)) :
    pxx.size = nfft.toNat ∧ (2 ∣ nfft.toNat → f.size = nfft.toNat) := by
  obtain ⟨pl, hp, rfl, rfl⟩ := welchC_ok h
  obtain ⟨_, _, _, hnf, _, _, _⟩ := plan_ok hp
  rw [size_calcspec, hnf]
  exact ⟨rfl, fun h2 => size_freqC _ h2⟩

/-- T13.1 (clause "non-negative values", complex input): every entry is `≥ 0` — a mean of squared magnitudes over a
non-negative window power.  `winpow ≠ 0` and `winlen ≤ len` are spelled out because the code divides by them
(an all-zero window gives NaN in the code: harness class "all-zero window"). -/
theorem welchC_nonneg {fft : ℕ → Vec ℝ → Vec ℝ} {x : Vec ℝ} {win : Array ℝ} {nov nfft : ℤ} {psd : Bool} {pxx f : Array ℝ}
    (h : welchC fft x win nov nfft psd = .ok (pxx, f)) (hNL : win.size ≤ x.size) (_hw : winpow psd win ≠ 0)
    (j : ℕ) (hj : j < nfft.toNat) : 0 ≤ rdR pxx j := by
  rw [welchC_cell h hNL j hj]
  refine div_nonneg (Finset.sum_nonneg fun i _ => div_nonneg ?_ (winpow_nonneg _ _)) (Nat.cast_nonneg _)
  rw [Cx.abs2_eq]; exact Complex.normSq_nonneg _

/-- T13.1 (clause "non-negative values", real input) -/
theorem welchR_nonneg {fft : ℕ → Array ℝ → Vec ℝ} {x win : Array ℝ} {nov nfft : ℤ} {psd : Bool} {pxx f : Array ℝ}
    (h : welchR fft x win nov nfft psd = .ok (pxx, f)) (hNL : win.size ≤ x.size) (_hw : winpow psd win ≠ 0)
    (hn : 2 ≤ nfft.toNat) (k : ℕ) (hk : k < nfft.toNat / 2 + 1) : 0 ≤ rdR pxx k := by
  rw [welchR_cell h hNL hn k hk]
  refine mul_nonneg (by split <;> norm_num) ?_
  refine div_nonneg (Finset.sum_nonneg fun i _ => div_nonneg ?_ (winpow_nonneg _ _)) (Nat.cast_nonneg _)
  rw [Cx.abs2_eq]; exact Complex.normSq_nonneg _

/-- `∑_t |x[t1+t]·w[t]|²` of one windowed segment (complex / real input) -/
noncomputable def segPowC (x : Vec ℝ) (win : Array ℝ) (t1 : ℕ) : ℝ :=
  ∑ t ∈ range win.size, Cx.abs2 (rd x (t1 + t)) * (rdR win t) ^ 2
noncomputable def segPowR (x win : Array ℝ) (t1 : ℕ) : ℝ :=
  ∑ t ∈ range win.size, (rdR x (t1 + t) * rdR win t) ^ 2

/-- energy of a zero-padded windowed complex segment (`winlen ≤ nfft`: nothing is truncated) -/
theorem segC_energy (n : ℕ) (x : Vec ℝ) (win : Array ℝ) (hL : win.size ≤ n) (t1 : ℕ) :
    ∑ m ∈ range n, normSq (seq (segC x win t1) m) = segPowC x win t1 := by
  unfold segPowC
  rw [← sum_support n win.size hL]
  apply Finset.sum_congr rfl
  intro m _
  rw [seq_segC]
  split
  · rw [map_mul, Complex.normSq_ofReal, Cx.abs2_eq]; ring
  · exact map_zero _

/-- energy of a zero-padded windowed real segment -/
theorem segR_energy (n : ℕ) (x win : Array ℝ) (hL : win.size ≤ n) (t1 : ℕ) :
    ∑ m ∈ range n, normSq (seqR (segR x win t1) m) = segPowR x win t1 := by
  unfold segPowR
  rw [← sum_support n win.size hL]
  apply Finset.sum_congr rfl
  intro m _
  rw [seqR_segR]
  split
  · rw [Complex.normSq_ofReal]; ring
  · exact map_zero _

/-- **T13.1 `welch_power`, complex input** (clause "sum equals nfft times the window-normalised mean power of the windowed
segments in density scaling"): `∑_j pxx[j] = nfft · mean_i(∑_t |x[i·hop+t]·w[t]|²) / (w·w)` — Parseval with zero-padding
(`winlen ≤ nfft`; a longer window is truncated by `fft(seg, nfft)` and the identity fails). -/
theorem welchC_power {fft : ℕ → Vec ℝ → Vec ℝ} {x : Vec ℝ} {win : Array ℝ} {nov nfft : ℤ} {pxx f : Array ℝ}
    (h : welchC fft x win nov nfft true = .ok (pxx, f)) (hfft : IsDftC nfft.toNat (fft nfft.toNat))
    (hL : win.size ≤ nfft.toNat) (hNL : win.size ≤ x.size) (_hw : dotWW win ≠ 0) :
    ∑ j ∈ range nfft.toNat, rdR pxx j =
      (nfft.toNat : ℝ) * ((∑ i ∈ range (nsegs x.size win.size nov), segPowC x win (i * hop win.size nov)) /
        (nsegs x.size win.size nov : ℝ)) / dotWW win := by
  obtain ⟨pl, hp, _, _⟩ := welchC_ok h
  obtain ⟨hpos, _, _, _, _, _, _⟩ := plan_ok hp
  have hn : 0 < nfft.toNat := by omega
  have e : ∀ j ∈ range nfft.toNat, rdR pxx j = (∑ i ∈ range (nsegs x.size win.size nov),
      normSq (dft nfft.toNat (seq (segC x win (i * hop win.size nov))) j) / dotWW win) / (nsegs x.size win.size nov : ℝ) := by
    intro j hj
    rw [welchC_cell h hNL j (mem_range.mp hj)]
    congr 1
    apply Finset.sum_congr rfl
    intro i _
    rw [Cx.abs2_eq, hfft _ j (mem_range.mp hj)]
    simp [winpow]
  rw [Finset.sum_congr rfl e, two_sided_sum _ _ hn]
  congr 3
  apply Finset.sum_congr rfl
  intro i _
  exact segC_energy _ _ _ hL _

/-- **T13.1 `welch_power`, real input**: the one-sided spectrum (`nfft/2+1` entries, both ends kept, the rest doubled) has the
same sum as the two-sided one (conjugate symmetry of a real segment's transform), hence
`∑_k pxx[k] = nfft · mean_i(∑_t (x[i·hop+t]·w[t])²) / (w·w)`.  `nfft` even: every power of two ≥ 2. -/
theorem welchR_power {fft : ℕ → Array ℝ → Vec ℝ} {x win : Array ℝ} {nov nfft : ℤ} {pxx f : Array ℝ}
    (h : welchR fft x win nov nfft true = .ok (pxx, f)) (hfft : IsDftR nfft.toNat (fft nfft.toNat))
    (hev : 2 ∣ nfft.toNat) (hL : win.size ≤ nfft.toNat) (hNL : win.size ≤ x.size) (_hw : dotWW win ≠ 0) :
    ∑ k ∈ range (nfft.toNat / 2 + 1), rdR pxx k =
      (nfft.toNat : ℝ) * ((∑ i ∈ range (nsegs x.size win.size nov), segPowR x win (i * hop win.size nov)) /
        (nsegs x.size win.size nov : ℝ)) / dotWW win := by
  obtain ⟨pl, hp, _, _⟩ := welchR_ok h
  obtain ⟨hpos, _, _, _, _, _, _⟩ := plan_ok hp
  have hn : 0 < nfft.toNat := by omega
  obtain ⟨hh, hhe⟩ := hev
  have hh0 : 0 < hh := by omega
  have hn2 : 2 ≤ nfft.toNat := by omega
  have hhalf : nfft.toNat / 2 = hh := by omega
  set p : ℕ → ℝ := fun k => (∑ i ∈ range (nsegs x.size win.size nov),
      normSq (dft nfft.toNat (seqR (segR x win (i * hop win.size nov))) k) / dotWW win) / (nsegs x.size win.size nov : ℝ) with hp_def
  have e : ∀ k ∈ range (nfft.toNat / 2 + 1), rdR pxx k = if k = 0 ∨ k = hh then p k else 2 * p k := by
    intro k hk
    rw [welchR_cell h hNL hn2 k (mem_range.mp hk), hhalf]
    have : (∑ i ∈ range (nsegs x.size win.size nov),
        Cx.abs2 (rd (fft nfft.toNat (segR x win (i * hop win.size nov))) k) / winpow true win) / (nsegs x.size win.size nov : ℝ) = p k := by
      rw [hp_def]
      simp only []
      congr 1
      apply Finset.sum_congr rfl
      intro i _
      rw [Cx.abs2_eq, hfft _ k (by have := mem_range.mp hk; omega)]
      simp [winpow]
    rw [this]
    split <;> ring
  have sym : ∀ k, 0 < k → k < hh → p (2 * hh - k) = p k := by
    intro k _ hk
    rw [hp_def]
    simp only []
    congr 1
    apply Finset.sum_congr rfl
    intro i _
    rw [← hhe, normSq_dft_symm _ hn _ k (by omega)]
  rw [Finset.sum_congr rfl e, hhalf, fold_sum hh hh0 p sym, ← hhe, hp_def, two_sided_sum _ _ hn]
  congr 3
  apply Finset.sum_congr rfl
  intro i _
  exact segR_energy _ _ _ hL _

/-! ## T13.2 a bin-centred complex tone in `Power` scaling -/

/-- the window's transform shifted to the tone's bin: `∑_m w[m]·e^{2πi k0 m/n}·e^{-2πi m j/n}` -/
noncomputable def winShift (n : ℕ) (win : Array ℝ) (k0 j : ℕ) : ℂ :=
  ∑ m ∈ range win.size, ((rdR win m : ℝ) : ℂ) * ((ω n (k0 * m))⁻¹ * ω n (m * j))

/-- T13.2, every bin: for `x[u] = a·e^{2πi k0 u/nfft}` the `Power`-scaled estimate is `|a|²·|W(j - k0)|² / (∑w)²` at every position
`j` (transform order), for every overlap and number of segments -/
theorem welchC_tone_value {fft : ℕ → Vec ℝ → Vec ℝ} {x : Vec ℝ} {win : Array ℝ} {nov nfft : ℤ} {pxx f : Array ℝ}
    (h : welchC fft x win nov nfft false = .ok (pxx, f)) (hfft : IsDftC nfft.toNat (fft nfft.toNat))
    (hL : win.size ≤ nfft.toNat) (hNL : win.size ≤ x.size) (_hsw : sumW win ≠ 0)
    (a : ℂ) (k0 : ℕ) (htone : ∀ u < x.size, Cx.toC (rd x u) = a * (ω nfft.toNat (k0 * u))⁻¹)
    (j : ℕ) (hj : j < nfft.toNat) :
    rdR pxx j = normSq a * normSq (winShift nfft.toNat win k0 j) / (sumW win * sumW win) := by
  obtain ⟨pl, hp, _, _⟩ := welchC_ok h
  obtain ⟨_, hh0, _, _, hin⟩ := plan_domain hp hNL
  rw [welchC_cell h hNL j hj]
  have e : ∀ i ∈ range (nsegs x.size win.size nov),
      Cx.abs2 (rd (fft nfft.toNat (segC x win (i * hop win.size nov))) j) / winpow false win =
        normSq a * normSq (winShift nfft.toNat win k0 j) / (sumW win * sumW win) := by
    intro i hi
    rw [Cx.abs2_eq, hfft _ j hj]
    have hseq : ∀ m < nfft.toNat, seq (segC x win (i * hop win.size nov)) m =
        (fun m => if m < win.size then a * (ω nfft.toNat (k0 * (i * hop win.size nov + m)))⁻¹ * ((rdR win m : ℝ) : ℂ) else 0) m := by
      intro m _
      rw [seq_segC]
      simp only []
      split
      · rename_i hm
        rw [htone _ (by have := hin i (mem_range.mp hi); omega)]
      · rfl
    rw [dft_congr _ _ _ hseq, dft_tone _ _ hL, map_mul, map_mul, normSq_ω_inv, mul_one]
    simp [winpow, winShift]
  rw [Finset.sum_congr rfl e, Finset.sum_const, card_range, nsmul_eq_mul]
  have hM : (nsegs x.size win.size nov : ℝ) ≠ 0 := by
    have : 0 < nsegs x.size win.size nov := Nat.succ_pos _
    exact_mod_cast this.ne'
  field_simp

/-- **T13.2** (clause "power scaling reports the mean-square value of a bin-centred sinusoid at its peak"): at the tone's own bin
the `Power`-scaled estimate is exactly `|a|²`, the mean-square value of `a·e^{2πi k0 u/nfft}` — for every window whose sum is not
zero, every overlap, every number of segments -/
theorem welchC_tone_peak {fft : ℕ → Vec ℝ → Vec ℝ} {x : Vec ℝ} {win : Array ℝ} {nov nfft : ℤ} {pxx f : Array ℝ}
    (h : welchC fft x win nov nfft false = .ok (pxx, f)) (hfft : IsDftC nfft.toNat (fft nfft.toNat))
    (hL : win.size ≤ nfft.toNat) (hNL : win.size ≤ x.size) (hsw : sumW win ≠ 0)
    (a : ℂ) (k0 : ℕ) (hk0 : k0 < nfft.toNat) (htone : ∀ u < x.size, Cx.toC (rd x u) = a * (ω nfft.toNat (k0 * u))⁻¹) :
    rdR pxx k0 = normSq a := by
  rw [welchC_tone_value h hfft hL hNL hsw a k0 htone k0 hk0]
  unfold winShift
  rw [tone_sum_self, Complex.normSq_ofReal, ← sumW_eq]
  field_simp

/-- **T13.2** (clause "… at its peak"): for a non-negative window no entry exceeds the one at the tone's bin -/
theorem welchC_tone_max {fft : ℕ → Vec ℝ → Vec ℝ} {x : Vec ℝ} {win : Array ℝ} {nov nfft : ℤ} {pxx f : Array ℝ}
    (h : welchC fft x win nov nfft false = .ok (pxx, f)) (hfft : IsDftC nfft.toNat (fft nfft.toNat))
    (hL : win.size ≤ nfft.toNat) (hNL : win.size ≤ x.size) (hsw : sumW win ≠ 0) (hwpos : ∀ t < win.size, 0 ≤ rdR win t)
    (a : ℂ) (k0 : ℕ) (hk0 : k0 < nfft.toNat) (htone : ∀ u < x.size, Cx.toC (rd x u) = a * (ω nfft.toNat (k0 * u))⁻¹)
    (j : ℕ) (hj : j < nfft.toNat) : rdR pxx j ≤ rdR pxx k0 := by
  rw [welchC_tone_peak h hfft hL hNL hsw a k0 hk0 htone, welchC_tone_value h hfft hL hNL hsw a k0 htone j hj]
  have hle := tone_sum_le nfft.toNat win.size k0 j (fun m => rdR win m) hwpos
  rw [← sumW_eq] at hle
  have hpos : 0 < sumW win * sumW win := mul_self_pos.mpr hsw
  rw [div_le_iff₀ hpos]
  have : normSq (winShift nfft.toNat win k0 j) ≤ sumW win * sumW win := by
    unfold winShift; rw [← pow_two]; exact hle
  exact mul_le_mul_of_nonneg_left this (Complex.normSq_nonneg _)

/-! ## T13.2 (real sinusoid) the negative-frequency image bounds the deviation from the mean-square value -/

/-- the window's transform at twice the tone's bin, `S(2k0) = ∑_m w[m]·e^{-2πi 2k0 m/n}`: what the negative-frequency image of a
real sinusoid leaks into the tone's own bin -/
noncomputable def winImage (n : ℕ) (win : Array ℝ) (k0 : ℕ) : ℂ :=
  ∑ m ∈ range win.size, ((rdR win m : ℝ) : ℂ) * (ω n (k0 * m) * ω n (m * k0))

/-- T13.2, real sinusoid in exponential form `x[u] = a·e^{2πi k0 u/n} + conj(a)·e^{-2πi k0 u/n}` (mean-square value `2|a|²`): the
`Power`-scaled entry at bin `k0` is `2|a|²` up to the relative error `2r + r²`, `r = |S(2k0)| / |∑w|` -/
theorem welchR_tone_bound {fft : ℕ → Array ℝ → Vec ℝ} {x win : Array ℝ} {nov nfft : ℤ} {pxx f : Array ℝ}
    (h : welchR fft x win nov nfft false = .ok (pxx, f)) (hfft : IsDftR nfft.toNat (fft nfft.toNat))
    (hL : win.size ≤ nfft.toNat) (hNL : win.size ≤ x.size) (hsw : sumW win ≠ 0)
    (a : ℂ) (k0 : ℕ) (hk0 : 0 < k0) (hk0' : k0 < nfft.toNat / 2)
    (htone : ∀ u < x.size, ((rdR x u : ℝ) : ℂ) =
      a * (ω nfft.toNat (k0 * u))⁻¹ + (starRingEnd ℂ) a * ω nfft.toNat (k0 * u)) :
    |rdR pxx k0 - 2 * normSq a| ≤ 2 * normSq a *
      (2 * (‖winImage nfft.toNat win k0‖ / |sumW win|) + (‖winImage nfft.toNat win k0‖ / |sumW win|) ^ 2) := by
  obtain ⟨pl, hp, _, _⟩ := welchR_ok h
  obtain ⟨_, hh0, _, _, hin⟩ := plan_domain hp hNL
  have hn2 : 2 ≤ nfft.toNat := by omega
  have hkn : k0 < nfft.toNat := by omega
  rw [welchR_cell h hNL hn2 k0 (by omega), if_neg (by omega)]
  set r := ‖winImage nfft.toNat win k0‖ / |sumW win| with hr
  have hS0 : 0 < |sumW win| := abs_pos.mpr hsw
  have hM : 0 < nsegs x.size win.size nov := Nat.succ_pos _
  have key : ∀ i < nsegs x.size win.size nov,
      |Cx.abs2 (rd (fft nfft.toNat (segR x win (i * hop win.size nov))) k0) / winpow false win - normSq a| ≤
        normSq a * (2 * r + r ^ 2) := by
    intro i hi
    rw [Cx.abs2_eq, hfft _ k0 hkn]
    have hseq : ∀ m < nfft.toNat, seqR (segR x win (i * hop win.size nov)) m =
        (fun m => if m < win.size then (a * (ω nfft.toNat (k0 * (i * hop win.size nov + m)))⁻¹ +
          (starRingEnd ℂ) a * ω nfft.toNat (k0 * (i * hop win.size nov + m))) * ((rdR win m : ℝ) : ℂ) else 0) m := by
      intro m _
      rw [seqR_segR]
      simp only []
      split
      · rename_i hm
        rw [Complex.ofReal_mul, htone _ (by have := hin i hi; omega)]
      · rfl
    rw [dft_congr _ _ _ hseq, dft_real_tone _ _ hL, ← sumW_eq]
    have hwp : winpow false win = sumW win * sumW win := by simp [winpow]
    rw [hwp]
    set u : ℂ := a * (ω nfft.toNat (k0 * (i * hop win.size nov)))⁻¹ * ((sumW win : ℝ) : ℂ) with hu
    set v : ℂ := (starRingEnd ℂ) a * ω nfft.toNat (k0 * (i * hop win.size nov)) * winImage nfft.toNat win k0 with hv
    have hnu : ‖u‖ = ‖a‖ * |sumW win| := by
      rw [hu, norm_mul, norm_mul, norm_inv, ω_norm, inv_one, mul_one, Complex.norm_real, Real.norm_eq_abs]
    have hnv : ‖v‖ = ‖a‖ * ‖winImage nfft.toNat win k0‖ := by
      rw [hv, norm_mul, norm_mul, Complex.norm_conj, ω_norm, mul_one]
    have hnsu : normSq u = normSq a * (sumW win * sumW win) := by
      rw [Complex.normSq_eq_norm_sq, hnu, Complex.normSq_eq_norm_sq, mul_pow, sq_abs]; ring
    have hb := normSq_add_sub_le u v
    have hpos : 0 < sumW win * sumW win := mul_self_pos.mpr hsw
    have e1 : normSq (u + v) / (sumW win * sumW win) - normSq a = (normSq (u + v) - normSq u) / (sumW win * sumW win) := by
      rw [hnsu]; field_simp
    change |normSq (u + v) / (sumW win * sumW win) - normSq a| ≤ _
    rw [e1, abs_div, abs_of_pos hpos, div_le_iff₀ hpos]
    refine hb.trans (le_of_eq ?_)
    rw [hnu, hnv, Complex.normSq_eq_norm_sq a, hr]
    have : sumW win * sumW win = |sumW win| ^ 2 := by rw [sq_abs]; ring
    rw [this]
    field_simp
  have hmean := mean_close _ hM (fun i => Cx.abs2 (rd (fft nfft.toNat (segR x win (i * hop win.size nov))) k0) / winpow false win)
    (normSq a) (normSq a * (2 * r + r ^ 2)) key
  have : (2 : ℝ) * ((∑ i ∈ range (nsegs x.size win.size nov),
      Cx.abs2 (rd (fft nfft.toNat (segR x win (i * hop win.size nov))) k0) / winpow false win) / (nsegs x.size win.size nov : ℝ)) -
      2 * normSq a = 2 * ((∑ i ∈ range (nsegs x.size win.size nov),
      Cx.abs2 (rd (fft nfft.toNat (segR x win (i * hop win.size nov))) k0) / winpow false win) / (nsegs x.size win.size nov : ℝ) - normSq a) := by ring
  rw [this, abs_mul, abs_of_pos (by norm_num : (0 : ℝ) < 2)]
  calc 2 * _ ≤ 2 * (normSq a * (2 * r + r ^ 2)) := by linarith [hmean]
    _ = _ := by ring

/-- **T13.2, real sinusoid** (clause "power scaling reports the mean-square value of a bin-centred sinusoid at its peak", real
input): for `x[u] = A·cos(2π k0 u/nfft + φ)`, `0 < k0 < nfft/2`, the `Power`-scaled entry at bin `k0` differs from the mean-square
value `A²/2` by at most `(A²/2)·(2r + r²)`, `r = |S(2k0)| / |∑w|` the relative size of the negative-frequency image under the
window — for every window with non-zero sum, every overlap, every number of segments.  (Exact equality is impossible for a
real sinusoid: the image term is there for every correct implementation; the oracle computes `r` from the window and uses
this bound.) -/
theorem welchR_cos_tone {fft : ℕ → Array ℝ → Vec ℝ} {x win : Array ℝ} {nov nfft : ℤ} {pxx f : Array ℝ}
    (h : welchR fft x win nov nfft false = .ok (pxx, f)) (hfft : IsDftR nfft.toNat (fft nfft.toNat))
    (hL : win.size ≤ nfft.toNat) (hNL : win.size ≤ x.size) (hsw : sumW win ≠ 0)
    (A φ : ℝ) (k0 : ℕ) (hk0 : 0 < k0) (hk0' : k0 < nfft.toNat / 2)
    (htone : ∀ u < x.size, rdR x u = A * Real.cos (2 * Real.pi * ((k0 * u : ℕ) : ℝ) / (nfft.toNat : ℝ) + φ)) :
    |rdR pxx k0 - A ^ 2 / 2| ≤ A ^ 2 / 2 *
      (2 * (‖winImage nfft.toNat win k0‖ / |sumW win|) + (‖winImage nfft.toNat win k0‖ / |sumW win|) ^ 2) := by
  have := welchR_tone_bound h hfft hL hNL hsw (cosAmp A φ) k0 hk0 hk0'
    (fun u hu => by rw [htone u hu, cos_as_exponentials])
  rw [cosAmp_power] at this
  exact this

/-! ## T13.3 frequency labels -/

/-- **T13.3 `freq_labels`, real input** (clause "the returned frequency vector gives the true frequency of each value"):
entry `k` of `f` is `k / nfft`, and entry `k` of `pxx` is the (one-sided) mean power of DFT bin `k` of the windowed segments —
the bin whose basis function is `e^{2πi (k/nfft) t}`. -/
theorem welchR_labels {fft : ℕ → Array ℝ → Vec ℝ} {x win : Array ℝ} {nov nfft : ℤ} {psd : Bool} {pxx f : Array ℝ}
    (h : welchR fft x win nov nfft psd = .ok (pxx, f)) (hfft : IsDftR nfft.toNat (fft nfft.toNat))
    (hNL : win.size ≤ x.size) (hn : 2 ≤ nfft.toNat) (k : ℕ) (hk : k < nfft.toNat / 2 + 1) :
    rdR f k = (k : ℝ) / (nfft.toNat : ℝ) ∧
    rdR pxx k = (if k = 0 ∨ k = nfft.toNat / 2 then (1 : ℝ) else 2) *
      ((∑ i ∈ range (nsegs x.size win.size nov),
        normSq (dft nfft.toNat (seqR (segR x win (i * hop win.size nov))) k) / winpow psd win) / (nsegs x.size win.size nov : ℝ)) := by
  constructor
  · obtain ⟨pl, hp, _, rfl⟩ := welchR_ok h
    obtain ⟨_, _, _, hnf, _, _, _⟩ := plan_ok hp
    rw [hnf, rdR_freqR _ _ hk]
  · rw [welchR_cell h hNL hn k hk]
    congr 2
    apply Finset.sum_congr rfl
    intro i _
    rw [Cx.abs2_eq, hfft _ k (by omega)]

/-- T13.3, complex input, what the code does (`…_partial`: the FULL clause — "entry `j` of `f` is the frequency of entry `j` of
`pxx`" — is false on the current tree, see `welchC_axis_offset`): entry `j` of `pxx` is the mean power of DFT bin `j`
(transform order, frequency `j/nfft` mod 1), entry `j` of `f` is the centred-axis value `(j - nfft/2 + 1)/nfft`. -/
theorem welchC_labels_partial {fft : ℕ → Vec ℝ → Vec ℝ} {x : Vec ℝ} {win : Array ℝ} {nov nfft : ℤ} {psd : Bool} {pxx f : Array ℝ}
    (h : welchC fft x win nov nfft psd = .ok (pxx, f)) (hfft : IsDftC nfft.toNat (fft nfft.toNat))
    (hNL : win.size ≤ x.size) (hev : 2 ∣ nfft.toNat) (j : ℕ) (hj : j < nfft.toNat) :
    rdR f j = ((j : ℝ) - (nfft.toNat : ℝ) / 2 + 1) / (nfft.toNat : ℝ) ∧
    rdR pxx j = (∑ i ∈ range (nsegs x.size win.size nov),
        normSq (dft nfft.toNat (seq (segC x win (i * hop win.size nov))) j) / winpow psd win) / (nsegs x.size win.size nov : ℝ) := by
  constructor
  · obtain ⟨pl, hp, _, rfl⟩ := welchC_ok h
    obtain ⟨_, _, _, hnf, _, _, _⟩ := plan_ok hp
    rw [hnf, rdR_freqC _ _ hev hj]
  · rw [welchC_cell h hNL j hj]
    congr 1
    apply Finset.sum_congr rfl
    intro i _
    rw [Cx.abs2_eq, hfft _ j hj]

/-- T13.3, complex input, the recorded finding `C13:complex-welch-axis` in general form: for every even `nfft ≥ 4` and EVERY
position `j`, the listed frequency differs from the frequency `j/nfft` of the value stored there by `1/nfft - 1/2`, which lies
strictly between `-1/2` and `0` — so it is not an integer and the label is not even congruent (mod 1) to the true frequency. -/
theorem welchC_axis_offset {fft : ℕ → Vec ℝ → Vec ℝ} {x : Vec ℝ} {win : Array ℝ} {nov nfft : ℤ} {psd : Bool} {pxx f : Array ℝ}
    (h : welchC fft x win nov nfft psd = .ok (pxx, f)) (hev : 2 ∣ nfft.toNat) (h4 : 4 ≤ nfft.toNat) (j : ℕ) (hj : j < nfft.toNat) :
    rdR f j - (j : ℝ) / (nfft.toNat : ℝ) = 1 / (nfft.toNat : ℝ) - 1 / 2 ∧
    -(1 / 2 : ℝ) < 1 / (nfft.toNat : ℝ) - 1 / 2 ∧ 1 / (nfft.toNat : ℝ) - 1 / 2 < 0 := by
  obtain ⟨pl, hp, _, rfl⟩ := welchC_ok h
  obtain ⟨_, _, _, hnf, _, _, _⟩ := plan_ok hp
  have hn4 : (4 : ℝ) ≤ (nfft.toNat : ℝ) := by exact_mod_cast h4
  have hn0 : (0 : ℝ) < (nfft.toNat : ℝ) := by linarith
  refine ⟨?_, ?_, ?_⟩
  · rw [hnf, rdR_freqC _ _ hev hj]
    field_simp
    ring
  · have : 0 < 1 / (nfft.toNat : ℝ) := by positivity
    linarith
  · have : 1 / (nfft.toNat : ℝ) ≤ 1 / 4 := by
      rw [div_le_div_iff₀ hn0 (by norm_num)]; linarith
    linarith

/-- the tone `e^{2πi·2u/8}` (frequency `+0.25`), 8 samples -/
noncomputable def tone8 : Vec ℝ := mk 8 (fun u => ⟨((ω 8 (2 * u))⁻¹).re, ((ω 8 (2 * u))⁻¹).im⟩)
noncomputable def ones8 : Array ℝ := Array.replicate 8 1

/-- cells of the rectangular window of the witness -/
theorem rdR_ones8 (t : ℕ) (ht : t < 8) : rdR ones8 t = 1 := by
  unfold rdR ones8; simp [Array.getD, ht]

/-- its sum -/
theorem sumW_ones8 : sumW ones8 = 8 := by
  rw [sumW_eq]
  have : ones8.size = 8 := by simp [ones8]
  rw [this]
  simp [Finset.sum_range_succ, rdR_ones8]
  norm_num

/-- T13.3, complex input, witness replayed by the oracle (`C13:complex-welch-axis`): `nfft = 8`, rectangular window, the tone at
`+0.25` (bin 2).  The call is accepted, the estimate has its maximum `1 = |a|²` at position 2 (every other entry is `≤` it), and
the frequency listed for position 2 is `-1/8`, not `1/4`. -/
theorem welchC_axis_witness (fft : ℕ → Vec ℝ → Vec ℝ) (hfft : IsDftC 8 (fft 8)) :
    ∃ pxx f, welchC fft tone8 ones8 0 8 false = .ok (pxx, f) ∧ rdR pxx 2 = 1 ∧ (∀ j < 8, rdR pxx j ≤ rdR pxx 2) ∧
      rdR f 2 = -(1 / 8 : ℝ) ∧ rdR f 2 ≠ (2 : ℝ) / 8 := by
  have hs1 : tone8.size = 8 := by simp [tone8]
  have hs2 : ones8.size = 8 := by simp [ones8]
  have hplan : plan tone8.size ones8.size 0 8 = .ok ⟨8, 8, 1⟩ := by rw [hs1, hs2]; rfl
  obtain ⟨pxx, f, h⟩ := welchC_accepts fft tone8 ones8 0 8 false _ hplan
  have hn : (8 : ℤ).toNat = 8 := rfl
  have hfft' : IsDftC (8 : ℤ).toNat (fft (8 : ℤ).toNat) := hfft
  have htone : ∀ u < tone8.size, Cx.toC (rd tone8 u) = (1 : ℂ) * (ω (8 : ℤ).toNat (2 * u))⁻¹ := by
    intro u hu
    rw [hs1] at hu
    unfold tone8
    rw [rd_mk_lt _ _ _ hu, one_mul]
    apply Complex.ext <;> simp
  have hsw : sumW ones8 ≠ 0 := by rw [sumW_ones8]; norm_num
  have hL : ones8.size ≤ (8 : ℤ).toNat := by rw [hs2]; decide
  have hNL : ones8.size ≤ tone8.size := by rw [hs1, hs2]
  have hpk := welchC_tone_peak h hfft' hL hNL hsw 1 2 (by decide) htone
  refine ⟨pxx, f, h, ?_, ?_, ?_, ?_⟩
  · rw [hpk]; simp
  · intro j hj
    exact welchC_tone_max h hfft' hL hNL hsw (fun t ht => by rw [rdR_ones8 t (by rw [hs2] at ht; exact ht)]; norm_num) 1 2
      (by decide) htone j hj
  · have := (welchC_labels_partial h hfft' hNL (by decide) 2 (by decide)).1
    rw [this, hn]; norm_num
  · have := (welchC_labels_partial h hfft' hNL (by decide) 2 (by decide)).1
    rw [this, hn]; norm_num

/-! ## T13.4 magnitude-squared coherence -/

/-- the accumulated auto-spectrum `∑_i |X_i[k]|²` of a signal at bin `k` (`Pxx`, `Pyy` of `_mscohere`) -/
noncomputable def autoSpec (fft : ℕ → Array ℝ → Vec ℝ) (x win : Array ℝ) (nov nfft : ℤ) (k : ℕ) : ℝ :=
  ∑ i ∈ range (nsegs x.size win.size nov), Cx.abs2 (rd (fft nfft.toNat (segR x win (i * hop win.size nov))) k)

/-- the accumulated cross-spectrum `∑_i X_i[k]·conj(Y_i[k])` -/
noncomputable def crossSpec (fft : ℕ → Array ℝ → Vec ℝ) (x y win : Array ℝ) (nov nfft : ℤ) (k : ℕ) : ℂ :=
  ∑ i ∈ range (nsegs x.size win.size nov), Cx.toC (rd (fft nfft.toNat (segR x win (i * hop win.size nov))) k) *
    (starRingEnd ℂ) (Cx.toC (rd (fft nfft.toNat (segR y win (i * hop win.size nov))) k))

/-- entry `k` of `mscohere`: `|Pxy|² / (Pxx·Pyy)` -/
theorem mscohere_cell {fft : ℕ → Array ℝ → Vec ℝ} {x y win : Array ℝ} {nov nfft : ℤ} {c : Array ℝ}
    (h : mscohere fft x y win nov nfft = .ok c) (hNL : win.size ≤ x.size) (k : ℕ) (hk : k < nfft.toNat / 2 + 1) :
    c.size = nfft.toNat / 2 + 1 ∧
    rdR c k = normSq (crossSpec fft x y win nov nfft k) / (autoSpec fft x win nov nfft k * autoSpec fft y win nov nfft k) := by
  obtain ⟨hxy, pl, hp, rfl⟩ := mscohere_ok h
  obtain ⟨_, _, _, hnf, _, _, _⟩ := plan_ok hp
  obtain ⟨hst, _, _, hnt, _⟩ := plan_domain hp hNL
  have hk' : k < pl.nfft / 2 + 1 := by rw [hnf]; exact hk
  obtain ⟨c1, c2, c3⟩ := cohAccum_cells (pl.nfft / 2 + 1) (fun i => fft pl.nfft (segR x win (i * pl.stride)))
    (fun i => fft pl.nfft (segR y win (i * pl.stride))) pl.nseg.toNat k hk'
  constructor
  · simp [cohOut, hnf]
  · unfold cohOut
    rw [rdR_ofFn _ _ _ hk']
    simp only []
    rw [c1, c2, Cx.abs2_eq, c3, hnt, hst, hnf]
    unfold autoSpec crossSpec
    rw [← hxy]

/-- **T13.4** (clause "mscohere always lies in [0, 1]"): Cauchy–Schwarz over the segments — for EVERY transform `fft` (no
assumption on it), every window, overlap, pair of signals.  The two auto-spectra are the divisors of the code; where one of them
vanishes the code returns `0/0` (NaN): spelled out as hypothesis, run by the harness (all-zero window class). -/
theorem mscohere_range {fft : ℕ → Array ℝ → Vec ℝ} {x y win : Array ℝ} {nov nfft : ℤ} {c : Array ℝ}
    (h : mscohere fft x y win nov nfft = .ok c) (hNL : win.size ≤ x.size) (k : ℕ) (hk : k < nfft.toNat / 2 + 1)
    (hx : autoSpec fft x win nov nfft k ≠ 0) (hy : autoSpec fft y win nov nfft k ≠ 0) :
    0 ≤ rdR c k ∧ rdR c k ≤ 1 := by
  rw [(mscohere_cell h hNL k hk).2]
  have nx : 0 ≤ autoSpec fft x win nov nfft k :=
    Finset.sum_nonneg fun i _ => by rw [Cx.abs2_eq]; exact Complex.normSq_nonneg _
  have ny : 0 ≤ autoSpec fft y win nov nfft k :=
    Finset.sum_nonneg fun i _ => by rw [Cx.abs2_eq]; exact Complex.normSq_nonneg _
  have hpos : 0 < autoSpec fft x win nov nfft k * autoSpec fft y win nov nfft k :=
    mul_pos (lt_of_le_of_ne nx (Ne.symm hx)) (lt_of_le_of_ne ny (Ne.symm hy))
  refine ⟨div_nonneg (Complex.normSq_nonneg _) hpos.le, ?_⟩
  rw [div_le_one hpos]
  have hs := (mscohere_ok h).1
  have := cauchy_schwarz (range (nsegs x.size win.size nov))
    (fun i => Cx.toC (rd (fft nfft.toNat (segR x win (i * hop win.size nov))) k))
    (fun i => Cx.toC (rd (fft nfft.toNat (segR y win (i * hop win.size nov))) k))
  unfold crossSpec autoSpec
  simp only [Cx.abs2_eq]
  rw [← hs]
  exact this

/-- **T13.4** (clause "equals 1 at every frequency when one signal is a scaled copy of the other"): `y = s·x`, `s ≠ 0`, at every
bin where the spectrum of `x` is not zero (elsewhere the code computes `0/0`). -/
theorem mscohere_scaled_copy {fft : ℕ → Array ℝ → Vec ℝ} {x y win : Array ℝ} {nov nfft : ℤ} {c : Array ℝ}
    (h : mscohere fft x y win nov nfft = .ok c) (hfft : IsDftR nfft.toNat (fft nfft.toNat)) (hNL : win.size ≤ x.size)
    (s : ℝ) (hs : s ≠ 0) (hy : ∀ t, rdR y t = s * rdR x t)
    (k : ℕ) (hk : k < nfft.toNat / 2 + 1) (hx : autoSpec fft x win nov nfft k ≠ 0) : rdR c k = 1 := by
  rw [(mscohere_cell h hNL k hk).2]
  have hsz := (mscohere_ok h).1
  obtain ⟨pl, hp, _⟩ := (mscohere_ok h).2
  obtain ⟨hpos, _, _, _, _, _, _⟩ := plan_ok hp
  have hkn : k < nfft.toNat := by omega
  -- the transform is linear: Y_i[k] = s·X_i[k]
  have hY : ∀ i, Cx.toC (rd (fft nfft.toNat (segR y win (i * hop win.size nov))) k) =
      (s : ℂ) * Cx.toC (rd (fft nfft.toNat (segR x win (i * hop win.size nov))) k) := by
    intro i
    rw [hfft _ k hkn, hfft _ k hkn, ← dft_smul]
    apply dft_congr
    intro m _
    rw [seqR_segR, seqR_segR]
    split
    · rw [hy]; push_cast; ring
    · simp
  have hA : autoSpec fft y win nov nfft k = s ^ 2 * autoSpec fft x win nov nfft k := by
    unfold autoSpec
    rw [← hsz, Finset.mul_sum]
    apply Finset.sum_congr rfl
    intro i _
    rw [Cx.abs2_eq, Cx.abs2_eq, hY, map_mul, Complex.normSq_ofReal]; ring
  have hC : crossSpec fft x y win nov nfft k = (s : ℂ) * ((autoSpec fft x win nov nfft k : ℝ) : ℂ) := by
    unfold crossSpec autoSpec
    rw [Complex.ofReal_sum, Finset.mul_sum]
    apply Finset.sum_congr rfl
    intro i _
    rw [hY, map_mul, Complex.conj_ofReal, Cx.abs2_eq, ← Complex.mul_conj]
    ring
  rw [hC, hA, map_mul, Complex.normSq_ofReal, Complex.normSq_ofReal]
  field_simp

/-! ## bridges to the neighbouring properties -/

/-- the shape in which property C01 states its result (`Props/C01.lean`, `fftRN_eq`: the DFT of `padSeqR n y`, the input zero-padded
or truncated to `n` samples) implies `IsDftR` -/
theorem isDftR_of_pad (n : ℕ) (F : Array ℝ → Vec ℝ)
    (h : ∀ (y : Array ℝ) (k : ℕ), k < n → Cx.toC (rd (F y) k) = dft n (fun i => if i < y.size ∧ i < n then seqR y i else 0) k) :
    IsDftR n F := by
  intro y k hk
  rw [h y k hk]
  apply dft_congr
  intro i hi
  by_cases hy : i < y.size
  · simp [hy, hi]
  · have : seqR y i = 0 := by unfold seqR rdR; simp [Array.getD, hy]
    simp [hy, this]

/-- complex counterpart (`fftCN_eq`, `padSeq`) -/
theorem isDftC_of_pad (n : ℕ) (F : Vec ℝ → Vec ℝ)
    (h : ∀ (y : Vec ℝ) (k : ℕ), k < n → Cx.toC (rd (F y) k) = dft n (fun i => if i < y.size ∧ i < n then seq y i else 0) k) :
    IsDftC n F := by
  intro y k hk
  rw [h y k hk]
  apply dft_congr
  intro i hi
  by_cases hy : i < y.size
  · simp [hy, hi]
  · have : seq y i = 0 := by unfold seq rd; simp [Array.getD, hy]
    simp [hy, this]

/-- an accepted transform size is a power of two (`ispow2` as the code computes it), hence even from 2 on: the hypothesis
`2 ∣ nfft` of the theorems above holds for every accepted `nfft ≥ 2`, in particular on the property's range 8..4096 -/
theorem accepted_pow2 {N L : ℕ} {nov nfft : ℤ} {pl : Spectrum.Plan} (h : plan N L nov nfft = .ok pl) :
    nfft.toNat = 2 ^ nextpow2 nfft.toNat ∧ (2 ≤ nfft → 2 ∣ nfft.toNat) := by
  obtain ⟨_, hp2, _⟩ := plan_ok h
  have e : nfft.toNat = 2 ^ nextpow2 nfft.toNat := by
    unfold ispow2 at hp2
    rw [Nat.one_shiftLeft] at hp2
    exact (beq_iff_eq.mp hp2).symm
  refine ⟨e, fun h2 => ?_⟩
  rcases hk : nextpow2 nfft.toNat with _ | k
  · rw [hk] at e; omega
  · rw [e, hk, pow_succ]; exact Dvd.intro_left _ rfl

/-! ## non-vacuity -/

/-- accepted calls inside the property's domain exist: `nfft = 8`, an 8-sample window, overlap 4, 20 samples: 4 segments of hop 4 -/
example : plan 20 8 4 8 = .ok ⟨8, 4, 4⟩ ∧ nsegs 20 8 4 = 4 ∧ hop 8 4 = 4 := ⟨by rfl, by decide, by decide⟩

/-- the hypotheses of `welchC_tone_peak` / `welchC_tone_max` / `welchC_labels_partial` hold together at a concrete non-trivial
state (`welchC_axis_witness` instantiates all of them with the exact transform) -/
example : ∃ pxx f, welchC (fun n => exactC n) tone8 ones8 0 8 false = .ok (pxx, f) ∧ rdR pxx 2 = 1 :=
  let ⟨pxx, f, h, h1, _⟩ := welchC_axis_witness (fun n => exactC n) (exactC_isDft 8)
  ⟨pxx, f, h, h1⟩

end Dsp.C13
