import DspVerif.Props.C02
import DspVerif.Props.C01Total
/-!
# C02 — the UNCONDITIONAL theorems: the inverse transforms invert the library's own forward transforms

`Props/C02.lean` proves the clauses of C02 with the forward transforms as PARAMETERS and the hypotheses `IsDft fwd` /
`IsRDft rfwd` ("the forward plan computes the DFT, for EVERY size").  `Props/C01Total.lean` proves that statement for the
model of the library's FFT family (`Fft.fftC lit n`, `Fft.fftR lit n`) for every length `0 < n < 2^31`.  This file plugs the
second into the first, for the instantiation the driver runs (`Ifft.ifft lit`, `Ifft.irfft lit`, `Ifft.stft lit`,
`Ifft.istft lit` = the `…With` functions at `Fft.fftC lit` / `Fft.fftR lit`, see `Driver/H02.lean`).

Two things had to be bridged:

* C02's `IsDft` also asks for the SIZE of the output (`(fwd n x).size = n`; arrays are compared as arrays), C01's `IsDft n f`
  only speaks about the cells: `size_fftC`, `size_fftR` (every plan of `create_fft_plan` returns `n` cells).
* C02's `IsDft fwd` quantifies over EVERY `n` (also `0` and `n ≥ 2^31`, which C01 does not cover: `mkPlan`'s 32-step factor
  loop and the 32-bit `nextpow2`), so `IsDft (Fft.fftC lit)` itself cannot be discharged and the `*_model` corollaries of
  `Props/C02.lean` cannot be applied verbatim.  But every function of `Model/Ifft.lean` calls its forward plan at ONE size
  (`ifft`: `x.size`; `irfft(·, n)`, `istft(·, nfft)`: `n/2`; `stft(·, nfft)`: `nfft`) — the `*_congr` lemmas.  So the theorems
  are applied to `patchC lit` / `patchR lit` (the library's transform on `0 < n < 2^31`, the exact DFT elsewhere: these DO
  satisfy `IsDft` / `IsRDft`, `isDft_patchC`, `isRDft_patchR`) and transported back along the congruence.

Remaining hypotheses: `LitsOK lit` (the three literals denote `√½`, `√½`, `√¾`; `C01.litsOK_exact`) and the `int` range
(`< 2^31`) of the one size each function hands to its forward plan; evenness of `n` / `nfft` where the code demands it.

* `size_fftC`, `size_fftR`                       the forward plans return `n` cells
* `isDft_fftC_range`, `isRDft_fftR_range`         C01's conclusion in the shape of C02's `IsDft` / `IsRDft`, one size
* T02.1 `ifft_eq_idft_total`, `ifft_fft_total`, `fft_ifft_total`
* T02.3 `irfft_eq_total`, `irfft_of_dft_total`, `irfft_rfft_total` (both input forms)
* T02.6 `istft_stft_total`;  T02.7 `istft_finite_total`
-/
open Finset Complex
namespace Dsp
namespace C02
open Dsp.Ifft Dsp.C07

/-! ## the forward plans return `n` cells -/

theorem size_smallC (lit : Fft.Lits ℝ) (n : ℕ) (hs : Fft.isSmall n = true) (x : Vec ℝ) : (Fft.smallC lit n x).size = n := by
  rcases (C01.isSmall_iff n).mp hs with rfl | rfl | rfl | rfl <;> simp [Fft.smallC]

theorem size_smallR (lit : Fft.Lits ℝ) (n : ℕ) (hs : Fft.isSmall n = true) (x : Array ℝ) : (Fft.smallR lit n x).size = n := by
  rcases (C01.isSmall_iff n).mp hs with rfl | rfl | rfl | rfl <;> simp [Fft.smallR]

theorem size_stages (n : ℕ) (cf : Vec ℝ) (s : ℕ) (y : Vec ℝ) (hy : y.size = n) : (Fft.stages n cf s y).size = n := by
  cases s with
  | zero => exact hy
  | succ s => simp [Fft.stages]

theorem size_pow2fft (n : ℕ) (x : Vec ℝ) : (Fft.pow2fft n x).size = n := by
  unfold Fft.pow2fft
  exact size_stages n _ _ _ (by simp)

theorem size_fftPrime (lit : Fft.Lits ℝ) (n : ℕ) (x : Vec ℝ) : (Fft.fftPrime lit n x).size = n := by
  unfold Fft.fftPrime
  split_ifs with h3 hm
  · subst h3; simp
  · simp [Fft.dftSlow]
  · simp [Fft.czt]

theorem size_fftLeaf (lit : Fft.Lits ℝ) (n : ℕ) (x : Vec ℝ) : (Fft.fftLeaf lit n x).size = n := by
  unfold Fft.fftLeaf
  split_ifs with hs hp
  · exact size_smallC lit n hs x
  · exact size_fftPrime lit n x
  · exact size_pow2fft n x

theorem size_facfft (leaf : ℕ → Vec ℝ → Vec ℝ) (hleaf : ∀ m x, (leaf m x).size = m) (tw : Vec ℝ) (headN : ℕ) (pl : Fft.Plan)
    (x : Vec ℝ) : (Fft.facfft leaf tw headN pl x).size = pl.size := by
  cases pl with
  | leaf m => simp [Fft.facfft, Fft.Plan.size, hleaf]
  | node P Q p q => simp [Fft.facfft, Fft.Plan.size]

/-- `FactorFFTPlan::solve` returns `n` cells (the root of the factor tree has size `n`: `mkPlan_wf`) -/
theorem size_fftFactor (lit : Fft.Lits ℝ) (hl : C01.LitsOK lit) (n : ℕ) (hn : 2 ≤ n) (hlt : n < 2 ^ 31) (x : Vec ℝ) :
    (Fft.fftFactor lit n x).size = n := by
  unfold Fft.fftFactor
  rw [size_facfft _ (size_fftLeaf lit), (C01.hfac_total lit hl n hn hlt).2.1]

/-- `fft(arr_cmplx)` / `FftPlan(n)` returns `n` cells, every `0 < n < 2^31` (whatever the size of the input) -/
theorem size_fftC (lit : Fft.Lits ℝ) (hl : C01.LitsOK lit) (n : ℕ) (hn : 0 < n) (hlt : n < 2 ^ 31) (x : Vec ℝ) :
    (Fft.fftC lit n x).size = n := by
  unfold Fft.fftC
  cases hs : Fft.isSmall n
  · rw [if_neg (by simp)]
    split_ifs with hp h2
    · exact size_fftPrime lit n x
    · exact size_pow2fft n x
    · exact size_fftFactor lit hl n (C01.two_le_of_not_small n hn hs) hlt x
  · rw [if_pos rfl]; exact size_smallC lit n hs x

/-- `fft(arr_real)` / `rfft` / `FftPlanR(n)` returns `n` cells, every `0 < n < 2^31` -/
theorem size_fftR (lit : Fft.Lits ℝ) (hl : C01.LitsOK lit) (n : ℕ) (hn : 0 < n) (hlt : n < 2 ^ 31) (x : Array ℝ) :
    (Fft.fftR lit n x).size = n := by
  unfold Fft.fftR
  cases hs : Fft.isSmall n
  · rw [if_neg (by simp)]
    split_ifs with hp h2
    · exact size_fftPrime lit n _
    · simp [Fft.rfftPacked]
    · exact size_fftFactor lit hl n (C01.two_le_of_not_small n hn hs) hlt _
  · rw [if_pos rfl]; exact size_smallR lit n hs x

/-! ## C01's conclusion in the shape C02 takes it (one size at a time) -/

/-- the clause of C02's `IsDft` at size `n`, for the library's complex transform: `C01.fftC_eq` + `size_fftC` -/
theorem isDft_fftC_range (lit : Fft.Lits ℝ) (hl : C01.LitsOK lit) (n : ℕ) (hn : 0 < n) (hlt : n < 2 ^ 31) (x : Vec ℝ) :
    (Fft.fftC lit n x).size = n ∧ ∀ k < n, Cx.toC (rd (Fft.fftC lit n x) k) = dft n (seq x) k :=
  ⟨size_fftC lit hl n hn hlt x, fun k hk => C01.fftC_eq lit hl n hn hlt x k hk⟩

/-- the clause of C02's `IsRDft` at size `n`, for the library's real transform: `C01.fftR_eq` + `size_fftR` -/
theorem isRDft_fftR_range (lit : Fft.Lits ℝ) (hl : C01.LitsOK lit) (n : ℕ) (hn : 0 < n) (hlt : n < 2 ^ 31) (x : Array ℝ) :
    (Fft.fftR lit n x).size = n ∧ ∀ k < n, Cx.toC (rd (Fft.fftR lit n x) k) = dft n (seqR x) k :=
  ⟨size_fftR lit hl n hn hlt x, fun k hk => C01.fftR_eq lit hl n hn hlt x k hk⟩

/-- the library's complex transform on the `int` range, the exact DFT elsewhere -/
noncomputable def patchC (lit : Fft.Lits ℝ) : ℕ → Vec ℝ → Vec ℝ := fun n x =>
  if 0 < n ∧ n < 2 ^ 31 then Fft.fftC lit n x else mk n (fun k => ofC (dft n (seq x) k))

/-- the library's real transform on the `int` range, the exact DFT elsewhere -/
noncomputable def patchR (lit : Fft.Lits ℝ) : ℕ → Array ℝ → Vec ℝ := fun n x =>
  if 0 < n ∧ n < 2 ^ 31 then Fft.fftR lit n x else mk n (fun k => ofC (dft n (seqR x) k))

theorem patchC_eq (lit : Fft.Lits ℝ) (n : ℕ) (hn : 0 < n) (hlt : n < 2 ^ 31) : patchC lit n = Fft.fftC lit n := by
  funext x; unfold patchC; rw [if_pos ⟨hn, hlt⟩]

theorem patchR_eq (lit : Fft.Lits ℝ) (n : ℕ) (hn : 0 < n) (hlt : n < 2 ^ 31) : patchR lit n = Fft.fftR lit n := by
  funext x; unfold patchR; rw [if_pos ⟨hn, hlt⟩]

/-- C02's hypothesis `IsDft`, discharged (by C01) for the patched transform -/
theorem isDft_patchC (lit : Fft.Lits ℝ) (hl : C01.LitsOK lit) : IsDft (patchC lit) := by
  intro n x _
  by_cases h : 0 < n ∧ n < 2 ^ 31
  · rw [patchC_eq lit n h.1 h.2]; exact isDft_fftC_range lit hl n h.1 h.2 x
  · unfold patchC; rw [if_neg h]
    exact ⟨by simp, fun k hk => by rw [rd_mk_lt _ _ _ hk, toC_ofC]⟩

/-- C02's hypothesis `IsRDft`, discharged (by C01) for the patched transform -/
theorem isRDft_patchR (lit : Fft.Lits ℝ) (hl : C01.LitsOK lit) : IsRDft (patchR lit) := by
  intro n x _
  by_cases h : 0 < n ∧ n < 2 ^ 31
  · rw [patchR_eq lit n h.1 h.2]; exact isRDft_fftR_range lit hl n h.1 h.2 x
  · unfold patchR; rw [if_neg h]
    exact ⟨by simp, fun k hk => by rw [rd_mk_lt _ _ _ hk, toC_ofC]⟩

/-! ## each function of `Model/Ifft.lean` calls its forward plan at ONE size (every scalar type) -/
section congr
variable {α : Type} [Add α] [Sub α] [Mul α] [Div α] [Neg α] [LT α] [LE α] [Fn α]
  [DecidableRel (· < · : α → α → Prop)] [DecidableRel (· ≤ · : α → α → Prop)]

omit [Add α] [Sub α] [LT α] [LE α] [DecidableRel (· < · : α → α → Prop)] [DecidableRel (· ≤ · : α → α → Prop)] in
/-- `ifft(X)` only uses the plan of size `X.size` -/
theorem ifftWith_congr (fwd fwd' : ℕ → Vec α → Vec α) (X : Vec α) (h : fwd X.size = fwd' X.size) :
    ifftWith fwd X = ifftWith fwd' X := by
  unfold ifftWith ifftCore
  simp only [h]

omit [LT α] [LE α] [DecidableRel (· < · : α → α → Prop)] [DecidableRel (· ≤ · : α → α → Prop)] in
/-- `IfftPlanR(n)` only uses the complex plan of size `n/2` -/
theorem irfftCore_congr_fwd (fwd fwd' : ℕ → Vec α → Vec α) (n : ℕ) (h : fwd (n / 2) = fwd' (n / 2)) :
    irfftCore fwd n = irfftCore fwd' n := by
  funext X
  unfold irfftCore
  simp only [h]

omit [LT α] [LE α] [DecidableRel (· < · : α → α → Prop)] [DecidableRel (· ≤ · : α → α → Prop)] in
theorem irfftWith_congr (fwd fwd' : ℕ → Vec α → Vec α) (n : ℕ) (X : Vec α) (h : fwd (n / 2) = fwd' (n / 2)) :
    irfftWith fwd n X = irfftWith fwd' n X := by
  unfold irfftWith
  rw [irfftCore_congr_fwd fwd fwd' n h]

omit [Add α] [Sub α] [Div α] [Neg α] [LT α] [LE α] [DecidableRel (· < · : α → α → Prop)] [DecidableRel (· ≤ · : α → α → Prop)] in
/-- `stft(·, nfft)` only uses the real plan of size `nfft` -/
theorem stftWith_congr (rfwd rfwd' : ℕ → Array α → Vec α) (x win : Array α) (overlap nfft range : ℕ)
    (h : rfwd nfft = rfwd' nfft) :
    stftWith rfwd x win overlap nfft range = stftWith rfwd' x win overlap nfft range := by
  unfold stftWith
  simp only [h]

omit [LT α] [DecidableRel (· < · : α → α → Prop)] in
/-- `istft(·, nfft)` only uses the complex plan of size `nfft/2` -/
theorem istftWith_congr (fwd fwd' : ℕ → Vec α → Vec α) (xx : Array (Vec α)) (win : Array α) (overlap nfft range method : ℕ)
    (h : fwd (nfft / 2) = fwd' (nfft / 2)) :
    istftWith fwd xx win overlap nfft range method = istftWith fwd' xx win overlap nfft range method := by
  unfold istftWith istftCore
  rw [irfftCore_congr_fwd fwd fwd' nfft h]

end congr

/-! ## T02.1 `ifft`, unconditionally -/

variable (lit : Fft.Lits ℝ)

/-- the driver's `ifft` is `ifftWith` of the patched transform on the `int` range -/
theorem ifft_eq_patch (X : Vec ℝ) (h1 : 1 ≤ X.size) (hlt : X.size < 2 ^ 31) : Ifft.ifft lit X = ifftWith (patchC lit) X :=
  ifftWith_congr _ _ X (patchC_eq lit X.size (by omega) hlt).symm

/-- **T02.1** (`IfftPlan::solve` is the inverse DFT), no transform hypothesis: for every `1 ≤ n < 2^31` the library's
`ifft` — scale, conj, the library's own `fft`, conj — returns `(1/n) Σ_k X k · ω^{-kt}` -/
theorem ifft_eq_idft_total (hl : C01.LitsOK lit) (X : Vec ℝ) (h1 : 1 ≤ X.size) (hlt : X.size < 2 ^ 31) :
    ∃ y, Ifft.ifft lit X = .ok y ∧ y.size = X.size ∧ ∀ t < X.size, seq y t = idft X.size (seq X) t := by
  rw [ifft_eq_patch lit X h1 hlt]
  exact ifft_eq_idft _ (isDft_patchC lit hl) X h1

/-- **T02.1** (clause "for every n ≥ 1, ifft(fft(x)) reproduces x"), no transform hypothesis: the library's `ifft` applied to
the library's `fft` of `x` is `x` (exact arithmetic, equality of arrays), every `1 ≤ n < 2^31` -/
theorem ifft_fft_total (hl : C01.LitsOK lit) (x : Vec ℝ) (h1 : 1 ≤ x.size) (hlt : x.size < 2 ^ 31) :
    Ifft.ifft lit (Fft.fftC lit x.size x) = .ok x := by
  have hs : (Fft.fftC lit x.size x).size = x.size := size_fftC lit hl x.size (by omega) hlt x
  rw [ifft_eq_patch lit _ (by omega) (by omega), ← patchC_eq lit x.size (by omega) hlt]
  exact ifft_fft _ (isDft_patchC lit hl) x h1

/-- **T02.1** (the other composition), no transform hypothesis: `fft(ifft(X)) = X`, every `1 ≤ n < 2^31` -/
theorem fft_ifft_total (hl : C01.LitsOK lit) (X : Vec ℝ) (h1 : 1 ≤ X.size) (hlt : X.size < 2 ^ 31) :
    ∃ y, Ifft.ifft lit X = .ok y ∧ y.size = X.size ∧ Fft.fftC lit X.size y = X := by
  rw [ifft_eq_patch lit X h1 hlt, ← patchC_eq lit X.size (by omega) hlt]
  exact fft_ifft _ (isDft_patchC lit hl) X h1

/-! ## T02.3 `irfft`, unconditionally -/

/-- the driver's `irfft(·, n)` is `irfftWith` of the patched transform when `n/2` is in the `int` range -/
theorem irfft_eq_patch (n : ℕ) (h2 : 2 ≤ n) (hlt : n < 2 ^ 31) (X : Vec ℝ) :
    Ifft.irfft lit n X = irfftWith (patchC lit) n X :=
  irfftWith_congr _ _ n X (patchC_eq lit (n / 2) (by omega) (by omega)).symm

/-- **T02.3** (`irfft_eq`), no transform hypothesis: for every even `2 ≤ n < 2^31` and every Hermitian spectrum `X` the library's
`irfft(X, n)` (packing, the library's own `fft` of size `n/2`, unpacking) is the real signal whose `n`-point transform is `X` -/
theorem irfft_eq_total (hl : C01.LitsOK lit) (n : ℕ) (hn : n % 2 = 0) (h2 : 2 ≤ n) (hlt : n < 2 ^ 31) (X : Vec ℝ) (hX : X.size = n)
    (hsym : ∀ k < n, seq X ((n - k) % n) = (starRingEnd ℂ) (seq X k)) :
    ∃ r, Ifft.irfft lit n X = .ok r ∧ r.size = n ∧ ∀ t < n, ((rdR r t : ℝ) : ℂ) = idft n (seq X) t := by
  rw [irfft_eq_patch lit n h2 hlt]
  exact irfft_eq _ (isDft_patchC lit hl) n hn h2 X hX hsym

/-- **T02.3**, no transform hypothesis: `irfft` of ANY array holding the DFT of a real `x` returns `x`, from all `n` bins and from
the first `n/2 + 1` alike -/
theorem irfft_of_dft_total (hl : C01.LitsOK lit) (n : ℕ) (hn : n % 2 = 0) (h2 : 2 ≤ n) (hlt : n < 2 ^ 31)
    (x : Array ℝ) (hx : x.size = n) (X : Vec ℝ) (hXs : X.size = n) (hXv : ∀ k < n, Cx.toC (rd X k) = dft n (seqR x) k) :
    Ifft.irfft lit n X = .ok x ∧ Ifft.irfft lit n (X.extract 0 (n / 2 + 1)) = .ok x := by
  rw [irfft_eq_patch lit n h2 hlt, irfft_eq_patch lit n h2 hlt]
  exact irfft_of_dft _ (isDft_patchC lit hl) n hn h2 x hx X hXs hXv

/-- **T02.3** (clause "irfft(rfft(x), n) reproduces x, both input forms"), no transform hypothesis: for every even
`2 ≤ n < 2^31` the library's `irfft` applied to the library's `rfft` of a real `x` returns `x` — from all `n` bins and from the
first `n/2 + 1` alike (exact arithmetic, equality of arrays) -/
theorem irfft_rfft_total (hl : C01.LitsOK lit) (x : Array ℝ) (hn : x.size % 2 = 0) (h2 : 2 ≤ x.size) (hlt : x.size < 2 ^ 31) :
    Ifft.irfft lit x.size (Fft.fftR lit x.size x) = .ok x ∧
    Ifft.irfft lit x.size ((Fft.fftR lit x.size x).extract 0 (x.size / 2 + 1)) = .ok x := by
  obtain ⟨hs, hv⟩ := isRDft_fftR_range lit hl x.size (by omega) hlt x
  exact irfft_of_dft_total lit hl x.size hn h2 hlt x rfl _ hs hv

/-! ## T02.6 / T02.7 `istft ∘ stft`, unconditionally -/

/-- **T02.6** (clause "istft(stft(x)) reproduces x on every sample whose accumulated window weight is non-zero"), no transform
hypothesis: for EVERY window, every overlap `< nwin`, `nwin ≤ nfft`, every even `2 ≤ nfft < 2^31`, the three ranges and both
methods, the library's `stft` (on the library's `rfft`) accepts and produces `(nx - overlap) / hop` frames, the library's `istft`
(on the library's `irfft`) accepts them and returns `nwin + (nseg-1)·hop` samples, and `y[t] = x[t]` at every sample whose
accumulated weight passes the code's guard (`> nseg·eps`).  (At the other samples see `istft_finite_total`.) -/
theorem istft_stft_total (hl : C01.LitsOK lit) (x win : Array ℝ) (overlap nfft range method : ℕ)
    (hov : overlap < win.size) (hwin : win.size ≤ nfft) (hn : nfft % 2 = 0) (h2 : 2 ≤ nfft) (hlt : nfft < 2 ^ 31) (hr : range ≤ 2) :
    ∃ S y, Ifft.stft lit x win overlap nfft range = .ok S ∧ S.size = numSeg x.size win.size overlap ∧
      Ifft.istft lit S win overlap nfft range method = .ok y ∧
      y.size = outLen S.size win.size (win.size - overlap) ∧
      ∀ t < y.size, (S.size : ℝ) * Ifft.eps < weight win S.size (win.size - overlap) method t → rdR y t = rdR x t := by
  have e1 : Ifft.stft lit x win overlap nfft range = stftWith (patchR lit) x win overlap nfft range :=
    stftWith_congr _ _ x win overlap nfft range (patchR_eq lit nfft (by omega) hlt).symm
  have e2 : ∀ S, Ifft.istft lit S win overlap nfft range method = istftWith (patchC lit) S win overlap nfft range method :=
    fun S => istftWith_congr _ _ S win overlap nfft range method (patchC_eq lit (nfft / 2) (by omega) (by omega)).symm
  obtain ⟨S, y, a, b, c, d, e⟩ := istft_stft _ _ (isDft_patchC lit hl) (isRDft_patchR lit hl) x win overlap nfft range method hov hwin hn h2 hr
  exact ⟨S, y, e1.trans a, b, (e2 S).trans c, d, e⟩

/-- **T02.7** (clause "contains only finite values") for the driver's `istft` — no hypothesis at all (not even `LitsOK`): whenever
`istft` accepts its arguments, EVERY output sample is a quotient whose denominator is the guarded weight, which is never zero -/
theorem istft_finite_total (xx : Array (Vec ℝ)) (win : Array ℝ) (overlap nfft range method : ℕ) (y : Array ℝ)
    (h : Ifft.istft lit xx win overlap nfft range method = .ok y) :
    y.size = outLen xx.size win.size (win.size - overlap) ∧
    ∀ t < y.size, ∃ num : ℝ,
      rdR y t = num / normGuard xx.size (weight win xx.size (win.size - overlap) method t) ∧
      normGuard xx.size (weight win xx.size (win.size - overlap) method t) ≠ 0 :=
  istft_finite _ xx win overlap nfft range method y h

/-! ## non-vacuity: `LitsOK` holds for the exact literals, the theorems apply at concrete lengths of every plan kind -/

/-- `ifft(fft(x)) = x` at a concrete 3-vector (`_dft_n3`) … -/
example : Ifft.ifft ⟨√2 / 2, √2 / 2, √3 / 2⟩ (Fft.fftC ⟨√2 / 2, √2 / 2, √3 / 2⟩ 3 #[⟨1, 2⟩, ⟨0, -1⟩, ⟨5, 0⟩])
    = .ok #[⟨1, 2⟩, ⟨0, -1⟩, ⟨5, 0⟩] :=
  ifft_fft_total _ C01.litsOK_exact #[⟨1, 2⟩, ⟨0, -1⟩, ⟨5, 0⟩] (by decide) (by norm_num)

/-- … and for every vector of length 1000 (factor tree), 1009 (Bluestein), 4096 (radix-2 network) -/
example (x : Vec ℝ) (hx : x.size = 1000 ∨ x.size = 1009 ∨ x.size = 4096) :
    Ifft.ifft ⟨√2 / 2, √2 / 2, √3 / 2⟩ (Fft.fftC ⟨√2 / 2, √2 / 2, √3 / 2⟩ x.size x) = .ok x :=
  ifft_fft_total _ C01.litsOK_exact x (by omega) (by rcases hx with h | h | h <;> rw [h] <;> norm_num)

/-- `fft(ifft(X)) = X` and `ifft = idft` at length 1001 (odd composite) -/
example (X : Vec ℝ) (hX : X.size = 1001) :
    ∃ y, Ifft.ifft ⟨√2 / 2, √2 / 2, √3 / 2⟩ X = .ok y ∧ y.size = X.size ∧ Fft.fftC ⟨√2 / 2, √2 / 2, √3 / 2⟩ X.size y = X :=
  fft_ifft_total _ C01.litsOK_exact X (by omega) (by rw [hX]; norm_num)

example (X : Vec ℝ) (hX : X.size = 1001) :
    ∃ y, Ifft.ifft ⟨√2 / 2, √2 / 2, √3 / 2⟩ X = .ok y ∧ y.size = X.size ∧ ∀ t < X.size, seq y t = idft X.size (seq X) t :=
  ifft_eq_idft_total _ C01.litsOK_exact X (by omega) (by rw [hX]; norm_num)

/-- `irfft(rfft(x), 4) = x` at a concrete real 4-vector, both input forms … -/
example : Ifft.irfft ⟨√2 / 2, √2 / 2, √3 / 2⟩ 4 (Fft.fftR ⟨√2 / 2, √2 / 2, √3 / 2⟩ 4 #[1, -2, 3, 5]) = .ok #[1, -2, 3, 5] ∧
    Ifft.irfft ⟨√2 / 2, √2 / 2, √3 / 2⟩ 4 ((Fft.fftR ⟨√2 / 2, √2 / 2, √3 / 2⟩ 4 #[1, -2, 3, 5]).extract 0 3) = .ok #[1, -2, 3, 5] :=
  irfft_rfft_total _ C01.litsOK_exact #[1, -2, 3, 5] (by decide) (by decide) (by norm_num)

/-- … and for every real signal of length 2018 = 2·1009 (packed real plan over the Bluestein plan of size 1009) -/
example (x : Array ℝ) (hx : x.size = 2018) :
    Ifft.irfft ⟨√2 / 2, √2 / 2, √3 / 2⟩ x.size (Fft.fftR ⟨√2 / 2, √2 / 2, √3 / 2⟩ x.size x) = .ok x :=
  (irfft_rfft_total _ C01.litsOK_exact x (by omega) (by omega) (by rw [hx]; norm_num)).1

/-- `irfft_eq_total`: the Hermitian hypothesis is met by a concrete spectrum (`n = 4`) -/
example : ∃ r, Ifft.irfft ⟨√2 / 2, √2 / 2, √3 / 2⟩ 4 #[⟨1, 0⟩, ⟨2, 3⟩, ⟨5, 0⟩, ⟨2, -3⟩] = .ok r ∧ r.size = 4 ∧
    ∀ t < 4, ((rdR r t : ℝ) : ℂ) = idft 4 (seq #[⟨1, 0⟩, ⟨2, 3⟩, ⟨5, 0⟩, ⟨2, -3⟩]) t := by
  apply irfft_eq_total _ C01.litsOK_exact 4 (by norm_num) (by norm_num) (by norm_num) _ (by simp)
  intro k hk
  have : k = 0 ∨ k = 1 ∨ k = 2 ∨ k = 3 := by omega
  rcases this with rfl | rfl | rfl | rfl <;> (apply Complex.ext <;> simp [seq, rd, Cx.toC])

/-- `istft(stft(x)) = x`: rectangular window of 2, hop 1, `nfft = 4`, a signal of 3 samples: two frames, sample 1 is covered twice
(weight 2 > 2·eps) and is reconstructed -/
example : ∃ S y, Ifft.stft ⟨√2 / 2, √2 / 2, √3 / 2⟩ #[3, -1, 4] #[1, 1] 1 4 1 = .ok S ∧
    Ifft.istft ⟨√2 / 2, √2 / 2, √3 / 2⟩ S #[1, 1] 1 4 1 0 = .ok y ∧ S.size = 2 ∧ rdR y 1 = -1 := by
  obtain ⟨S, y, a, b, c, d, e⟩ := istft_stft_total _ C01.litsOK_exact #[3, -1, 4] #[1, 1] 1 4 1 0
    (by decide) (by decide) (by norm_num) (by norm_num) (by norm_num) (by norm_num)
  have hS : S.size = 2 := by rw [b]; decide
  refine ⟨S, y, a, c, hS, ?_⟩
  have hy : y.size = 3 := by rw [d, hS]; decide
  have := e 1 (by omega)
  rw [hS] at this
  have hw : weight #[1, 1] 2 1 0 1 = 2 := by
    simp [weight, overlapAdd, List.range_succ, rdR]
    norm_num
  have h := this (by
    show ((2 : ℕ) : ℝ) * Ifft.eps < weight #[1, 1] 2 ((#[1, 1] : Array ℝ).size - 1) 0 1
    have : (#[1, 1] : Array ℝ).size - 1 = 1 := by decide
    rw [this, hw]
    unfold Ifft.eps
    simp only [fn_ofNat]
    norm_num)
  rw [h]
  simp [rdR]

end C02
end Dsp
