import DspVerif.Model.Window
import DspVerif.Lib.RealFn
import Mathlib.Tactic.Linarith
import Mathlib.Tactic.Ring
import Mathlib.Tactic.Positivity
import Mathlib.Data.List.Basic
import Mathlib.Algebra.BigOperators.Ring.List
import Mathlib.Algebra.BigOperators.Group.Finset.Basic
import Mathlib.Algebra.BigOperators.Intervals
/-!
# C11 — FIR and window designs meet their closed-form specifications

Theorems about the hand-written executable model `Model/Window.lean` (tied to `lib/window.cpp` / `lib/fir.cpp`
by the correspondence run of `harness/c11.cpp`).  Structural statements hold for every scalar type `α`
(in particular for `Float`, i.e. for the bit patterns the C++ code produces, as far as the model corresponds);
statements that need arithmetic are exact over `ℝ`.  Floating-point rounding, the Hamming-design masks and the
Kaiser series' convergence are measured by the harness ORACLE, not proved.

| clause of the property | theorems |
|---|---|
| window length `n` | `hann_length … gauss_length`, `tukey_length`, `kaiser_length` (∀α) |
| symmetric variant symmetric | `symWindow_symmetric`; `hann_symmetric … tukey_symmetric`, `kaiser_symmetric` (∀α) |
| periodic = first `n` of symmetric `n+1` | `symWindow_periodic_prefix`; `hann_periodic_prefix … gauss_periodic_prefix` (∀α) |
| equals textbook closed form (∀ n ≥ 3, ∀ k, ∀ parameter) | `hann_closed_form`, `hamming_closed_form`, `blackman_closed_form`, `blackmanharris_closed_form`, `cosine_closed_form`, `gauss_closed_form`, `tukey_closed_form`; `kaiser_closed_form` + `besseli0_partial` (relative to the code's own truncated series) |
| values in [0, 1] | `hann_range … tukey_range`; `kaiser_range_partial` (lower bound only) |
| fir1 length `n+1` / `n+2`, acceptance | `fir1_ok_length`, `fir1_accepts`, `fir1Default_ok` (∀α) |
| wrong-length window rejected | `fir1_rejects_wrong_length` (∀α) |
| symmetric impulse response | `fir1_low_symmetric`, `fir1_high_symmetric` (∀α); `fir1_bandpass_symmetric`, `fir1_bandstop_symmetric` (ℝ) |
| `|H(0)| = 1` low-pass, `|H(π)| = 1` high-pass | `fir1_low_dc_gain`, `fir1_high_nyquist_gain` (ℝ, hypothesis: raw taps do not sum to 0) |
| Hamming-design masks; Kaiser vs converged I₀; kaiser ≤ 1; rounding | measured only (ORACLE) |

`fir1 ft n w1 w2 win`: `ft` = 0 low, 1 high, 2 band-pass, 3 band-stop; the overloads without a window are
`fir1Default` = `fir1 … (hamming (firLen ft n) true)`, so every `fir1` theorem covers the default window too.
-/
set_option linter.unusedSectionVars false
namespace Dsp.C11
open Dsp Dsp.Window

section structural
variable {α : Type}

/-- half length used by `_sym_window` for the symmetric window of `np` points -/
def halfLen (np : Nat) : Nat := if np % 2 = 0 then np / 2 else (np + 1) / 2

/-- unfolding of `_sym_window(n, true, ·)` -/
theorem symWindow_sym_eq (n : Nat) (f : Nat → Nat → List α) :
    symWindow n true f =
      if n % 2 = 0 then f n (n / 2) ++ (f n (n / 2)).reverse.take (n / 2)
      else f n ((n + 1) / 2) ++ ((f n ((n + 1) / 2)).reverse.take ((n + 1) / 2)).drop 1 := by
  simp [symWindow]

/-- unfolding of `_sym_window(n, false, ·)` -/
theorem symWindow_per_eq (n : Nat) (f : Nat → Nat → List α) :
    symWindow n false f =
      if (n + 1) % 2 = 0 then f (n + 1) ((n + 1) / 2) ++ (f (n + 1) ((n + 1) / 2)).reverse.take ((n + 1) / 2 - 1)
      else f (n + 1) ((n + 1 + 1) / 2) ++ ((f (n + 1) ((n + 1 + 1) / 2)).reverse.take ((n + 1 + 1) / 2 - 1)).drop 1 := by
  simp [symWindow]

/-- T11.2 (structural, ∀α): `_sym_window` returns `n` points, both variants, whenever the half-window generator returns the `m` points it is asked for -/
theorem symWindow_length (f : Nat → Nat → List α) (hf : ∀ n m, (f n m).length = m) (n : Nat) (hn : 2 ≤ n) (sym : Bool) :
    (symWindow n sym f).length = n := by
  cases sym
  · rw [symWindow_per_eq]; split <;> simp [hf] <;> omega
  · rw [symWindow_sym_eq]; split <;> simp [hf] <;> omega

/-- T11.2 (structural, ∀α, every `n`): the symmetric variant is a palindrome — the second half is a copy of the first, so this holds bit-for-bit in `Float` -/
theorem symWindow_symmetric (f : Nat → Nat → List α) (hf : ∀ n m, (f n m).length = m) (n : Nat) :
    (symWindow n true f).reverse = symWindow n true f := by
  rw [symWindow_sym_eq]
  split
  · have : (f n (n / 2)).reverse.take (n / 2) = (f n (n / 2)).reverse := by
      apply List.take_of_length_le; simp [hf]
    rw [this]; simp
  · have h1 : (f n ((n + 1) / 2)).reverse.take ((n + 1) / 2) = (f n ((n + 1) / 2)).reverse := by
      apply List.take_of_length_le; simp [hf]
    rw [h1]
    generalize f n ((n + 1) / 2) = hw
    rcases List.eq_nil_or_concat hw with h | ⟨init, x, h⟩
    · subst h; simp
    · subst h; simp

/-- T11.2 (structural, ∀α, every `n ≥ 1`): the periodic variant of length `n` is the first `n` points of the symmetric window of length `n+1` -/
theorem symWindow_periodic_prefix (f : Nat → Nat → List α) (hf : ∀ n m, (f n m).length = m) (n : Nat) (hn : 1 ≤ n) :
    symWindow n false f = (symWindow (n + 1) true f).take n := by
  rw [symWindow_sym_eq, symWindow_per_eq]
  split
  · rename_i h
    rw [List.take_append, List.take_take, hf]
    have h1 : (f (n + 1) ((n + 1) / 2)).take n = f (n + 1) ((n + 1) / 2) := by
      apply List.take_of_length_le; rw [hf]; omega
    rw [h1]
    congr 2
    omega
  · rename_i h
    rw [List.take_append, hf]
    have h1 : (f (n + 1) ((n + 1 + 1) / 2)).take n = f (n + 1) ((n + 1 + 1) / 2) := by
      apply List.take_of_length_le; rw [hf]; omega
    rw [h1]
    congr 1
    rw [List.take_drop, List.take_take]
    congr 2
    omega

/-- the symmetric length of which `_sym_window(n, sym, ·)` computes points: `n`, or `n+1` for the periodic variant -/
def npOf (n : Nat) (sym : Bool) : Nat := if sym then n else n + 1

/-- helper -/
theorem halfLen_le (np : Nat) : halfLen np ≤ np := by unfold halfLen; split <;> omega

/-- helper for T11.3: every element of the assembled window is an element of the generated half window -/
theorem symWindow_mem (f : Nat → Nat → List α) (n : Nat) (sym : Bool) (x : α)
    (hx : x ∈ symWindow n sym f) : x ∈ f (npOf n sym) (halfLen (npOf n sym)) := by
  cases sym
  · rw [symWindow_per_eq] at hx
    show x ∈ f (n + 1) (halfLen (n + 1))
    unfold halfLen
    split at hx
    · rename_i h; rw [if_pos h]
      rcases List.mem_append.mp hx with h1 | h1
      · exact h1
      · exact List.mem_reverse.mp (List.mem_of_mem_take h1)
    · rename_i h; rw [if_neg h]
      rcases List.mem_append.mp hx with h1 | h1
      · exact h1
      · exact List.mem_reverse.mp (List.mem_of_mem_take (List.mem_of_mem_drop h1))
  · rw [symWindow_sym_eq] at hx
    show x ∈ f n (halfLen n)
    unfold halfLen
    split at hx
    · rename_i h; rw [if_pos h]
      rcases List.mem_append.mp hx with h1 | h1
      · exact h1
      · exact List.mem_reverse.mp (List.mem_of_mem_take h1)
    · rename_i h; rw [if_neg h]
      rcases List.mem_append.mp hx with h1 | h1
      · exact h1
      · exact List.mem_reverse.mp (List.mem_of_mem_take (List.mem_of_mem_drop h1))

/-- helper: the first half of the assembled window is the generated half window -/
theorem symWindow_sym_get_lt (f : Nat → Nat → List α) (hf : ∀ n m, (f n m).length = m) (n k : Nat)
    (hk : k < halfLen n) : (symWindow n true f)[k]? = (f n (halfLen n))[k]? := by
  rw [symWindow_sym_eq]; unfold halfLen at *
  split <;> rename_i h <;> simp only [h, if_true, if_false] at hk ⊢ <;>
    rw [List.getElem?_append_left (by rw [hf]; exact hk)]

/-- helper: indexing a palindrome from the other end -/
theorem get_of_reverse_eq (l : List α) (h : l.reverse = l) (k : Nat) (hk : k < l.length) :
    l[k]? = l[l.length - 1 - k]? := by
  conv_lhs => rw [← h]
  exact List.getElem?_reverse hk

/-- pointwise description of `_sym_window` when the half-window generator is an index map -/
theorem symWindow_get (f : Nat → Nat → List α) (g : Nat → Nat → α)
    (hfg : ∀ n m, f n m = (List.range m).map (g n)) (n : Nat) (hn : 2 ≤ n) (sym : Bool) (k : Nat) (hk : k < n) :
    (symWindow n sym f)[k]? =
      some (if k < halfLen (npOf n sym) then g (npOf n sym) k else g (npOf n sym) (npOf n sym - 1 - k)) := by
  have hf : ∀ n m, (f n m).length = m := by intro n m; rw [hfg]; simp
  have key : ∀ N k, k < N → (symWindow N true f)[k]? = some (if k < halfLen N then g N k else g N (N - 1 - k)) := by
    intro N k hk
    by_cases h : k < halfLen N
    · rw [if_pos h, symWindow_sym_get_lt f hf N k h, hfg]; simp [h]
    · rw [if_neg h]
      have hN : 2 ≤ N ∨ N < 2 := by omega
      rcases hN with hN | hN
      · have hl := symWindow_length f hf N hN true
        rw [get_of_reverse_eq _ (symWindow_symmetric f hf N) k (by omega), hl]
        have h2 : N - 1 - k < halfLen N := by unfold halfLen at *; split at h <;> rename_i h' <;> simp only [h', if_true, if_false] <;> omega
        rw [symWindow_sym_get_lt f hf N _ h2, hfg]; simp [h2]
      · exfalso; unfold halfLen at h; split at h <;> omega
  cases sym
  · rw [symWindow_periodic_prefix f hf n (by omega), List.getElem?_take_of_lt hk]
    exact key (n + 1) k (by omega)
  · exact key n k hk

end structural

section real
open Real

/-- phase of harmonic `j` at point `k` of a symmetric `N`-point window -/
noncomputable def theta (j N k : ℕ) : ℝ := (j : ℝ) * π * (k : ℝ) / ((N : ℝ) - 1)

/-- cosine symmetry used for the mirrored half: `cos(jπ(N-1-k)/(N-1)) = cos(jπk/(N-1))` for even `j` -/
theorem cos_theta_mirror (j N k : ℕ) (hN : 2 ≤ N) (hk : k ≤ N - 1) (hj : Even j) :
    Real.cos (theta j N (N - 1 - k)) = Real.cos (theta j N k) := by
  obtain ⟨i, rfl⟩ := hj
  have hN' : ((N : ℝ) - 1) ≠ 0 := by
    have : (2 : ℝ) ≤ N := by exact_mod_cast hN
    linarith
  have h1 : ((N - 1 - k : ℕ) : ℝ) = (N : ℝ) - 1 - k := by
    rw [Nat.cast_sub hk, Nat.cast_sub (by omega)]; simp
  have : theta (i + i) N (N - 1 - k) = (i : ℕ) * (2 * π) - theta (i + i) N k := by
    unfold theta; rw [h1]; push_cast; field_simp; ring
  rw [this, Real.cos_nat_mul_two_pi_sub]

/-- helper: `real_t(n - 1)` over ℝ -/
theorem ofNat_pred (N : ℕ) (hN : 1 ≤ N) : (Fn.ofNat (N - 1) : ℝ) = (N : ℝ) - 1 := by
  simp [Nat.cast_sub hN]

/-- textbook Hann window: `0.5 - 0.5 cos(2πk/(N-1))` -/
noncomputable def hannF (N k : ℕ) : ℝ := 0.5 - 0.5 * Real.cos (2 * π * k / (N - 1))

/-- helper: the loop body of `_hannwin` over ℝ -/
theorem hannPt_eq (N k : ℕ) (hN : 1 ≤ N) : (hannPt N k : ℝ) = 0.5 - 0.5 * Real.cos (theta 2 N k) := by
  unfold hannPt theta; rw [ofNat_pred N hN]; simp

/-- T11.1 Hann, ∀ n ≥ 3, both variants, ∀ k < n: point `k` equals `0.5 − 0.5 cos(2πk/(N−1))`, `N = n` (symmetric) or `n+1` (periodic) -/
theorem hann_closed_form (n : ℕ) (hn : 3 ≤ n) (sym : Bool) (k : ℕ) (hk : k < n) :
    (hann n sym : List ℝ)[k]? = some (hannF (npOf n sym) k) := by
  have hN : 3 ≤ npOf n sym := by unfold npOf; split <;> omega
  have hkN : k ≤ npOf n sym - 1 := by unfold npOf; split <;> omega
  unfold hann
  rw [symWindow_get hannwin hannPt (fun _ _ => rfl) n (by omega) sym k hk]
  congr 1
  have e : hannF (npOf n sym) k = 0.5 - 0.5 * Real.cos (theta 2 (npOf n sym) k) := by
    unfold hannF theta; norm_num
  rw [e]
  split
  · exact hannPt_eq _ _ (by omega)
  · rw [hannPt_eq _ _ (by omega), cos_theta_mirror 2 _ _ (by omega) hkN (by decide)]


/-! ### Hamming -/
noncomputable def hammingF (N k : ℕ) : ℝ := 0.54 - 0.46 * Real.cos (2 * π * k / (N - 1))

/-- helper: the loop body of `_hammingwin` over ℝ -/
theorem hammingPt_eq (N k : ℕ) (hN : 1 ≤ N) : (hammingPt N k : ℝ) = 0.54 - 0.46 * Real.cos (theta 2 N k) := by
  unfold hammingPt theta; rw [ofNat_pred N hN]; simp

/-- T11.1 Hamming, ∀ n ≥ 3, both variants, ∀ k < n -/
theorem hamming_closed_form (n : ℕ) (hn : 3 ≤ n) (sym : Bool) (k : ℕ) (hk : k < n) :
    (hamming n sym : List ℝ)[k]? = some (hammingF (npOf n sym) k) := by
  have hN : 3 ≤ npOf n sym := by unfold npOf; split <;> omega
  have hkN : k ≤ npOf n sym - 1 := by unfold npOf; split <;> omega
  unfold hamming
  rw [symWindow_get hammingwin hammingPt (fun _ _ => rfl) n (by omega) sym k hk]
  congr 1
  have e : hammingF (npOf n sym) k = 0.54 - 0.46 * Real.cos (theta 2 (npOf n sym) k) := by
    unfold hammingF theta; norm_num
  rw [e]
  split
  · exact hammingPt_eq _ _ (by omega)
  · rw [hammingPt_eq _ _ (by omega), cos_theta_mirror 2 _ _ (by omega) hkN (by decide)]

/-! ### Blackman -/
noncomputable def blackmanF (N k : ℕ) : ℝ :=
  0.42 - 0.5 * Real.cos (2 * π * k / (N - 1)) + 0.08 * Real.cos (4 * π * k / (N - 1))

/-- helper: the loop body of `_blackmanwin` over ℝ -/
theorem blackmanPt_eq (N k : ℕ) (hN : 1 ≤ N) :
    (blackmanPt N k : ℝ) = 0.42 - 0.5 * Real.cos (theta 2 N k) + 0.08 * Real.cos (theta 4 N k) := by
  unfold blackmanPt theta; rw [ofNat_pred N hN]; simp

/-- T11.1 Blackman, ∀ n ≥ 3, both variants, ∀ k < n -/
theorem blackman_closed_form (n : ℕ) (hn : 3 ≤ n) (sym : Bool) (k : ℕ) (hk : k < n) :
    (blackman n sym : List ℝ)[k]? = some (blackmanF (npOf n sym) k) := by
  have hN : 3 ≤ npOf n sym := by unfold npOf; split <;> omega
  have hkN : k ≤ npOf n sym - 1 := by unfold npOf; split <;> omega
  unfold blackman
  rw [symWindow_get blackmanwin blackmanPt (fun _ _ => rfl) n (by omega) sym k hk]
  congr 1
  have e : blackmanF (npOf n sym) k =
      0.42 - 0.5 * Real.cos (theta 2 (npOf n sym) k) + 0.08 * Real.cos (theta 4 (npOf n sym) k) := by
    unfold blackmanF theta; norm_num
  rw [e]
  split
  · exact blackmanPt_eq _ _ (by omega)
  · rw [blackmanPt_eq _ _ (by omega), cos_theta_mirror 2 _ _ (by omega) hkN (by decide),
      cos_theta_mirror 4 _ _ (by omega) hkN (by decide)]

/-! ### Blackman–Harris -/
noncomputable def blackmanharrisF (N k : ℕ) : ℝ :=
  0.35875 - 0.48829 * Real.cos (2 * π * k / (N - 1)) + 0.14128 * Real.cos (4 * π * k / (N - 1))
    - 0.01168 * Real.cos (6 * π * k / (N - 1))

/-- helper: the loop body of `_blackmanharriswin` over ℝ -/
theorem blackmanharrisPt_eq (N k : ℕ) (hN : 1 ≤ N) :
    (blackmanharrisPt N k : ℝ) = 0.35875 - 0.48829 * Real.cos (theta 2 N k) + 0.14128 * Real.cos (theta 4 N k)
      - 0.01168 * Real.cos (theta 6 N k) := by
  unfold blackmanharrisPt theta; rw [ofNat_pred N hN]; simp

/-- T11.1 Blackman–Harris (4-term), ∀ n ≥ 3, both variants, ∀ k < n -/
theorem blackmanharris_closed_form (n : ℕ) (hn : 3 ≤ n) (sym : Bool) (k : ℕ) (hk : k < n) :
    (blackmanharris n sym : List ℝ)[k]? = some (blackmanharrisF (npOf n sym) k) := by
  have hN : 3 ≤ npOf n sym := by unfold npOf; split <;> omega
  have hkN : k ≤ npOf n sym - 1 := by unfold npOf; split <;> omega
  unfold blackmanharris
  rw [symWindow_get blackmanharriswin blackmanharrisPt (fun _ _ => rfl) n (by omega) sym k hk]
  congr 1
  have e : blackmanharrisF (npOf n sym) k =
      0.35875 - 0.48829 * Real.cos (theta 2 (npOf n sym) k) + 0.14128 * Real.cos (theta 4 (npOf n sym) k)
        - 0.01168 * Real.cos (theta 6 (npOf n sym) k) := by
    unfold blackmanharrisF theta; norm_num
  rw [e]
  split
  · exact blackmanharrisPt_eq _ _ (by omega)
  · rw [blackmanharrisPt_eq _ _ (by omega), cos_theta_mirror 2 _ _ (by omega) hkN (by decide),
      cos_theta_mirror 4 _ _ (by omega) hkN (by decide), cos_theta_mirror 6 _ _ (by omega) hkN (by decide)]

/-! ### cosine -/
noncomputable def cosineF (N k : ℕ) : ℝ := Real.sin (π * (k + 0.5) / N)

/-- T11.1 cosine (sine) window `sin(π(k+½)/N)`, ∀ n ≥ 3, both variants, ∀ k < n (mirrored half by `sin(π − x) = sin x`) -/
theorem cosine_closed_form (n : ℕ) (hn : 3 ≤ n) (sym : Bool) (k : ℕ) (hk : k < n) :
    (cosine n sym : List ℝ)[k]? = some (cosineF (npOf n sym) k) := by
  have hN : 3 ≤ npOf n sym := by unfold npOf; split <;> omega
  have hkN : k ≤ npOf n sym - 1 := by unfold npOf; split <;> omega
  unfold cosine
  rw [symWindow_get cosinewin cosinePt (fun _ _ => rfl) n (by omega) sym k hk]
  congr 1
  generalize npOf n sym = N at *
  have hN0 : (N : ℝ) ≠ 0 := by positivity
  split
  · unfold cosinePt cosineF; simp; congr 1; field_simp
  · unfold cosinePt cosineF
    have h1 : ((N - 1 - k : ℕ) : ℝ) = (N : ℝ) - 1 - k := by
      rw [Nat.cast_sub hkN, Nat.cast_sub (by omega)]; simp
    simp only [fn_sin, fn_pi, fn_ofNat, h1]
    rw [← Real.sin_pi_sub]; congr 1; field_simp; ring

/-! ### Gauss -/
noncomputable def gaussF (a : ℝ) (N k : ℕ) : ℝ :=
  Real.exp (-(1 / 2) * (a * ((k : ℝ) - ((N : ℝ) - 1) / 2) / (((N : ℝ) - 1) / 2)) ^ 2)

/-- helper: the loop body of `_gausswin` over ℝ (`std::pow(x, 2.0)` is `x²`) -/
theorem gaussPt_eq (a : ℝ) (N k : ℕ) (hN : 1 ≤ N) : gaussPt a N k = gaussF a N k := by
  unfold gaussPt gaussF
  simp only [fn_exp, fn_pow, fn_ofNat, ofNat_pred N hN]
  rw [Real.rpow_natCast]; congr 1; norm_num; ring

/-- T11.1 Gauss, every `alpha`, ∀ n ≥ 3, both variants, ∀ k < n: `exp(−½ (α (k − (N−1)/2)/((N−1)/2))²)` -/
theorem gauss_closed_form (a : ℝ) (n : ℕ) (hn : 3 ≤ n) (sym : Bool) (k : ℕ) (hk : k < n) :
    (gauss n a sym : List ℝ)[k]? = some (gaussF a (npOf n sym) k) := by
  have hN : 3 ≤ npOf n sym := by unfold npOf; split <;> omega
  have hkN : k ≤ npOf n sym - 1 := by unfold npOf; split <;> omega
  unfold gauss
  rw [symWindow_get (gausswin a) (gaussPt a) (fun _ _ => rfl) n (by omega) sym k hk]
  congr 1
  generalize npOf n sym = N at *
  split
  · exact gaussPt_eq a N k (by omega)
  · rw [gaussPt_eq a N _ (by omega)]
    unfold gaussF
    have h1 : ((N - 1 - k : ℕ) : ℝ) = (N : ℝ) - 1 - k := by
      rw [Nat.cast_sub hkN, Nat.cast_sub (by omega)]; simp
    rw [h1]; congr 1; ring


/-! ### T11.3: values in [0, 1] -/

/-- every element of an assembled window is a value of the point function on the first half -/
theorem symWindow_forall {α : Type} (f : Nat → Nat → List α) (g : Nat → Nat → α)
    (hfg : ∀ n m, f n m = (List.range m).map (g n)) (P : α → Prop) (n : Nat) (sym : Bool)
    (hP : ∀ i, i < halfLen (npOf n sym) → P (g (npOf n sym) i)) :
    ∀ x ∈ symWindow n sym f, P x := by
  intro x hx
  have := symWindow_mem f n sym x hx
  rw [hfg] at this
  obtain ⟨i, hi, rfl⟩ := List.mem_map.mp this
  exact hP i (List.mem_range.mp hi)

/-- T11.3 per point: Hann -/
theorem hannPt_range (N i : ℕ) : 0 ≤ (hannPt N i : ℝ) ∧ (hannPt N i : ℝ) ≤ 1 := by
  unfold hannPt; simp only [fn_cos]
  have h1 := Real.neg_one_le_cos ((Fn.ofNat 2 * Fn.pi * Fn.ofNat i) / Fn.ofNat (N - 1) : ℝ)
  have h2 := Real.cos_le_one ((Fn.ofNat 2 * Fn.pi * Fn.ofNat i) / Fn.ofNat (N - 1) : ℝ)
  generalize Real.cos ((Fn.ofNat 2 * Fn.pi * Fn.ofNat i) / Fn.ofNat (N - 1) : ℝ) = c at *
  constructor <;> norm_num <;> linarith

/-- T11.3 per point: Hamming -/
theorem hammingPt_range (N i : ℕ) : 0 ≤ (hammingPt N i : ℝ) ∧ (hammingPt N i : ℝ) ≤ 1 := by
  unfold hammingPt; simp only [fn_cos]
  have h1 := Real.neg_one_le_cos ((Fn.ofNat 2 * Fn.pi * Fn.ofNat i) / Fn.ofNat (N - 1) : ℝ)
  have h2 := Real.cos_le_one ((Fn.ofNat 2 * Fn.pi * Fn.ofNat i) / Fn.ofNat (N - 1) : ℝ)
  generalize Real.cos ((Fn.ofNat 2 * Fn.pi * Fn.ofNat i) / Fn.ofNat (N - 1) : ℝ) = c at *
  constructor <;> norm_num <;> linarith

/-- helper: harmonics are multiples of the fundamental phase -/
theorem theta_mul (j N k : ℕ) : theta (2 * j) N k = (j : ℝ) * theta 2 N k := by
  unfold theta; push_cast; ring

/-- T11.3 per point: Blackman = `0.34 − 0.5c + 0.16c²`, `c = cos θ ∈ [−1, 1]`; minimum 0 at `c = 1` -/
theorem blackmanPt_range (N i : ℕ) (hN : 1 ≤ N) : 0 ≤ (blackmanPt N i : ℝ) ∧ (blackmanPt N i : ℝ) ≤ 1 := by
  rw [blackmanPt_eq N i hN, show theta 4 N i = 2 * theta 2 N i from by
    have := theta_mul 2 N i; simpa using this, Real.cos_two_mul]
  have h1 := Real.neg_one_le_cos (theta 2 N i)
  have h2 := Real.cos_le_one (theta 2 N i)
  generalize Real.cos (theta 2 N i) = c at *
  constructor <;> nlinarith [sq_nonneg (c - 1), sq_nonneg (c + 1), mul_nonneg (sub_nonneg.mpr h2) (by linarith : (0:ℝ) ≤ c + 1)]

/-- T11.3 per point: Blackman–Harris as a cubic in `c = cos θ`; equals 1 at `c = −1` and 6e−5 at `c = 1` -/
theorem blackmanharrisPt_range (N i : ℕ) (hN : 1 ≤ N) :
    0 ≤ (blackmanharrisPt N i : ℝ) ∧ (blackmanharrisPt N i : ℝ) ≤ 1 := by
  rw [blackmanharrisPt_eq N i hN, show theta 4 N i = 2 * theta 2 N i from by
    have := theta_mul 2 N i; simpa using this, show theta 6 N i = 3 * theta 2 N i from by
    have := theta_mul 3 N i; simpa using this, Real.cos_two_mul, Real.cos_three_mul]
  have h1 := Real.neg_one_le_cos (theta 2 N i)
  have h2 := Real.cos_le_one (theta 2 N i)
  generalize Real.cos (theta 2 N i) = c at *
  have a : 0 ≤ 1 - c := by linarith
  have b : 0 ≤ 1 + c := by linarith
  constructor
  · nlinarith [mul_nonneg a b, mul_nonneg a (mul_nonneg a b), mul_nonneg a (mul_nonneg a a), mul_nonneg a a]
  · nlinarith [mul_nonneg a b, mul_nonneg b (mul_nonneg a b), mul_nonneg b (mul_nonneg b b), mul_nonneg b b]

end real

section firStructural
variable {α : Type} [Add α] [Sub α] [Mul α] [Div α] [Neg α] [LT α] [LE α] [Fn α] [OfScientific α]
  [DecidableRel (· < · : α → α → Prop)] [DecidableRel (· ≤ · : α → α → Prop)]

/-- T11.4: `_lowpass_fir` throws on a window that does not have `n+1` taps -/
theorem lowpassFir_error (n : Nat) (wn : α) (win : List α) (h : win.length ≠ n + 1) :
    lowpassFir n wn win = .error "Window must be n+1 elements" := by
  unfold lowpassFir; rw [if_pos h]

/-- `_lowpass_fir` on a window of `n+1` taps: normalised raw taps -/
theorem lowpassFir_ok (n : Nat) (wn : α) (win : List α) (h : win.length = n + 1) :
    lowpassFir n wn win =
      .ok ((lowpassTaps n wn win).map (· / accumulate (lowpassTaps n wn win))) := by
  unfold lowpassFir; rw [if_neg (by simpa using h)]

/-- T11.4 length of the raw low-pass prototype: `n+1` (odd and even orders) -/
theorem lowpassTaps_length (n : Nat) (wn : α) (win : List α) (h : win.length = n + 1) :
    (lowpassTaps n wn win).length = n + 1 := by
  unfold lowpassTaps
  simp only []
  split <;> simp [h] <;> omega

/-- T11.4 (structural, ∀α): the raw prototype is a palindrome (second half is a flipped copy) -/
theorem lowpassTaps_symmetric (n : Nat) (wn : α) (win : List α) :
    (lowpassTaps n wn win).reverse = lowpassTaps n wn win := by
  unfold lowpassTaps
  simp only []
  split <;> simp

/-- re-indexing a palindrome by an index map that is itself mirror-symmetric gives a palindrome -/
theorem mapIdx_symmetric {β : Type} (f : Nat → β → β) (l : List β) (hl : l.reverse = l)
    (hf : ∀ i, i < l.length → ∀ x, f (l.length - 1 - i) x = f i x) :
    (l.mapIdx f).reverse = l.mapIdx f := by
  apply List.ext_getElem
  · simp
  · intro i h1 h2
    simp only [List.length_reverse, List.length_mapIdx] at h1
    rw [List.getElem_reverse, List.getElem_mapIdx, List.getElem_mapIdx]
    simp only [List.length_mapIdx]
    rw [hf i h1]
    congr 1
    have := List.getElem_reverse (l := l) (i := i) (by simpa using h1)
    rw [← this]
    congr 1

/-- helper -/
theorem modulate_length (t1 : Nat) (h : List α) : (modulate t1 h).length = h.length := by
  unfold modulate; simp

/-- acceptance: `fir1` succeeds exactly on windows of `firLen` taps, and then returns `firLen` taps -/
theorem fir1_ok_length (ft n : Nat) (w1 w2 : α) (win h : List α) (hok : fir1 ft n w1 w2 win = .ok h) :
    win.length = firLen ft n ∧ h.length = firLen ft n := by
  unfold fir1 at hok
  unfold firLen
  split at hok
  · -- low
    by_cases hw : win.length = n + 1
    · rw [lowpassFir_ok n w1 win hw] at hok
      injection hok with hok; subst hok
      simp [lowpassTaps_length n w1 win hw, hw]
    · rw [lowpassFir_error n w1 win hw] at hok; cases hok
  · -- high
    unfold highpassFir at hok
    simp only [] at hok
    split at hok
    · cases hok
    · rename_i hl heq
      injection hok with hok; subst hok
      by_cases hodd : n % 2 = 1
      · simp only [hodd, if_true] at heq
        by_cases hw : win.length = n + 1 + 1
        · rw [lowpassFir_ok _ _ win hw] at heq
          injection heq with heq; subst heq
          simp [modulate_length, lowpassTaps_length _ _ win hw, hw, hodd]
        · rw [lowpassFir_error _ _ win hw] at heq; cases heq
      · simp only [hodd, if_false] at heq
        by_cases hw : win.length = n + 1
        · rw [lowpassFir_ok _ _ win hw] at heq
          injection heq with heq; subst heq
          simp [modulate_length, lowpassTaps_length _ _ win hw, hw, hodd]
        · rw [lowpassFir_error _ _ win hw] at heq; cases heq
  · -- band-pass
    unfold bandpassFir at hok
    simp only [] at hok
    split at hok
    · cases hok
    · rename_i hl heq
      injection hok with hok; subst hok
      by_cases hw : win.length = n + 1
      · rw [lowpassFir_ok _ _ win hw] at heq
        injection heq with heq; subst heq
        simp [lowpassTaps_length _ _ win hw, hw]
      · rw [lowpassFir_error _ _ win hw] at heq; cases heq
  · -- band-stop
    unfold bandstopFir at hok
    simp only [] at hok
    split at hok
    · cases hok
    · rename_i hb heqb
      injection hok with hok; subst hok
      unfold bandpassFir at heqb
      simp only [] at heqb
      split at heqb
      · cases heqb
      · rename_i hl heq
        injection heqb with heqb; subst heqb
        by_cases hodd : n % 2 = 1
        · simp only [hodd, if_true] at heq
          by_cases hw : win.length = n + 1 + 1
          · rw [lowpassFir_ok _ _ win hw] at heq
            injection heq with heq; subst heq
            simp [lowpassTaps_length _ _ win hw, hw, hodd]
          · rw [lowpassFir_error _ _ win hw] at heq; cases heq
        · simp only [hodd, if_false] at heq
          by_cases hw : win.length = n + 1
          · rw [lowpassFir_ok _ _ win hw] at heq
            injection heq with heq; subst heq
            simp [lowpassTaps_length _ _ win hw, hw, hodd]
          · rw [lowpassFir_error _ _ win hw] at heq; cases heq
  · cases hok

/-- a custom window of the wrong length is rejected (all four filter types, every order and cut-off) -/
theorem fir1_rejects_wrong_length (ft n : Nat) (w1 w2 : α) (win : List α) (hw : win.length ≠ firLen ft n) :
    ∃ e, fir1 ft n w1 w2 win = .error e := by
  cases hr : fir1 ft n w1 w2 win with
  | error e => exact ⟨e, rfl⟩
  | ok h => exact absurd (fir1_ok_length ft n w1 w2 win h hr).1 hw

/-- the normalised low-pass prototype `_lowpass_fir` returns on a window of the right length -/
def lowpassH (n : Nat) (wn : α) (win : List α) : List α :=
  (lowpassTaps n wn win).map (· / accumulate (lowpassTaps n wn win))

/-- restatement of `lowpassFir_ok` with `lowpassH` -/
theorem lowpassFir_ok' (n : Nat) (wn : α) (win : List α) (h : win.length = n + 1) :
    lowpassFir n wn win = .ok (lowpassH n wn win) := lowpassFir_ok n wn win h

/-- helper -/
theorem lowpassH_length (n : Nat) (wn : α) (win : List α) (h : win.length = n + 1) :
    (lowpassH n wn win).length = n + 1 := by
  unfold lowpassH; simp [lowpassTaps_length n wn win h]

/-- T11.4 (structural, ∀α): the normalised prototype is a palindrome (every tap divided by the same sum) -/
theorem lowpassH_symmetric (n : Nat) (wn : α) (win : List α) :
    (lowpassH n wn win).reverse = lowpassH n wn win := by
  unfold lowpassH; rw [← List.map_reverse, lowpassTaps_symmetric]

/-- the order `_highpass_fir` / `_bandstop_fir` actually design for: the next even number -/
def evenOrder (n : Nat) : Nat := if n % 2 = 1 then n + 1 else n

/-- helper -/
theorem evenOrder_even (n : Nat) : evenOrder n % 2 = 0 := by unfold evenOrder; split <;> omega

/-- helper -/
theorem firLen_low (n : Nat) : firLen 0 n = n + 1 := by simp [firLen]
/-- helper -/
theorem firLen_high (n : Nat) : firLen 1 n = evenOrder n + 1 := by
  unfold firLen evenOrder; by_cases h : n % 2 = 1 <;> simp [h]
/-- helper -/
theorem firLen_bandpass (n : Nat) : firLen 2 n = n + 1 := by simp [firLen]
/-- helper -/
theorem firLen_bandstop (n : Nat) : firLen 3 n = evenOrder n + 1 := by
  unfold firLen evenOrder; by_cases h : n % 2 = 1 <;> simp [h]

/-- `_highpass_fir` on a window of the right length: the modulated prototype of cut-off `1 − wn` -/
theorem highpassFir_ok (n : Nat) (wn : α) (win : List α) (h : win.length = evenOrder n + 1) :
    highpassFir n wn win =
      .ok (modulate (if n % 2 = 1 then 1 else 0) (lowpassH (evenOrder n) (Fn.ofNat 1 - wn) win)) := by
  unfold highpassFir
  simp only []
  rw [show (if n % 2 = 1 then n + 1 else n) = evenOrder n from rfl, lowpassFir_ok' _ _ win h]

/-- the modulation `2 * h * cos(2 * pi * wc * t)` of `_bandpass_fir` -/
def bandpassMod (n : Nat) (wn1 wn2 : α) (h : List α) : List α :=
  let wn1 := wn1 / Fn.ofNat 2
  let wn2 := wn2 / Fn.ofNat 2
  let wp := (wn2 - wn1) / Fn.ofNat 2
  let wc := wn1 + wp
  let c := Fn.ofNat 2 * Fn.pi * wc
  h.mapIdx fun k x => x * Fn.ofNat 2 * Fn.cos ((Fn.ofNat k - Fn.ofNat n / Fn.ofNat 2) * c)

/-- cut-off handed to the low-pass prototype by `_bandpass_fir`: `2 * wp` -/
def bandpassProtoCut (wn1 wn2 : α) : α :=
  Fn.ofNat 2 * ((wn2 / Fn.ofNat 2 - wn1 / Fn.ofNat 2) / Fn.ofNat 2)

/-- `_bandpass_fir` on a window of the right length -/
theorem bandpassFir_ok (n : Nat) (wn1 wn2 : α) (win : List α) (h : win.length = n + 1) :
    bandpassFir n wn1 wn2 win = .ok (bandpassMod n wn1 wn2 (lowpassH n (bandpassProtoCut wn1 wn2) win)) := by
  unfold bandpassFir
  simp only []
  rw [show (Fn.ofNat 2 * ((wn2 / Fn.ofNat 2 - wn1 / Fn.ofNat 2) / Fn.ofNat 2) : α) = bandpassProtoCut wn1 wn2 from rfl,
    lowpassFir_ok' _ _ win h]
  rfl

/-- `(-1) * h; h(n/2) += 1` of `_bandstop_fir` -/
def bandstopFlip (n' : Nat) (h : List α) : List α :=
  (h.map (· * (-(Fn.ofNat 1)))).mapIdx fun k x => if k = n' / 2 then x + Fn.ofNat 1 else x

/-- `_bandstop_fir` on a window of the right length -/
theorem bandstopFir_ok (n : Nat) (wn1 wn2 : α) (win : List α) (h : win.length = evenOrder n + 1) :
    bandstopFir n wn1 wn2 win =
      .ok (bandstopFlip (evenOrder n)
        (bandpassMod (evenOrder n) wn1 wn2 (lowpassH (evenOrder n) (bandpassProtoCut wn1 wn2) win))) := by
  unfold bandstopFir
  simp only []
  rw [show (if n % 2 = 1 then n + 1 else n) = evenOrder n from rfl, bandpassFir_ok _ _ _ win h]
  rfl

/-- a window of the required length is accepted (all four types) -/
theorem fir1_accepts (ft n : Nat) (hft : ft < 4) (w1 w2 : α) (win : List α) (hw : win.length = firLen ft n) :
    ∃ h, fir1 ft n w1 w2 win = .ok h := by
  have : ft = 0 ∨ ft = 1 ∨ ft = 2 ∨ ft = 3 := by omega
  rcases this with rfl | rfl | rfl | rfl
  · exact ⟨_, lowpassFir_ok' n w1 win (by rw [hw, firLen_low])⟩
  · exact ⟨_, highpassFir_ok n w1 win (by rw [hw, firLen_high])⟩
  · exact ⟨_, bandpassFir_ok n w1 w2 win (by rw [hw, firLen_bandpass])⟩
  · exact ⟨_, bandstopFir_ok n w1 w2 win (by rw [hw, firLen_bandstop])⟩

/-- T11.4 symmetry, low-pass (structural, ∀α): the impulse response is a palindrome -/
theorem fir1_low_symmetric (n : Nat) (w1 w2 : α) (win h : List α) (hok : fir1 0 n w1 w2 win = .ok h) :
    h.reverse = h := by
  have hw := (fir1_ok_length 0 n w1 w2 win h hok).1
  rw [firLen_low] at hw
  have : fir1 0 n w1 w2 win = .ok (lowpassH n w1 win) := lowpassFir_ok' n w1 win hw
  rw [this] at hok; injection hok with hok; subst hok
  exact lowpassH_symmetric n w1 win

/-- helper: negating every second tap of an odd-length palindrome keeps it a palindrome -/
theorem modulate_symmetric (t1 : Nat) (h : List α) (hs : h.reverse = h) (hodd : h.length % 2 = 1) :
    (modulate t1 h).reverse = modulate t1 h := by
  unfold modulate
  apply mapIdx_symmetric _ _ hs
  intro i hi x
  have : (h.length - 1 - i) % 2 = i % 2 := by omega
  rw [this]

/-- T11.4 symmetry, high-pass (structural, ∀α) — every order, also the even ones whose last tap the
old code left un-modulated -/
theorem fir1_high_symmetric (n : Nat) (w1 w2 : α) (win h : List α) (hok : fir1 1 n w1 w2 win = .ok h) :
    h.reverse = h := by
  have hw := (fir1_ok_length 1 n w1 w2 win h hok).1
  rw [firLen_high] at hw
  have : fir1 1 n w1 w2 win = _ := highpassFir_ok n w1 win hw
  rw [this] at hok; injection hok with hok; subst hok
  apply modulate_symmetric _ _ (lowpassH_symmetric _ _ _)
  rw [lowpassH_length _ _ _ hw]
  have := evenOrder_even n
  omega

/-- helper: `δ − h` keeps an odd-length palindrome a palindrome (the unit is added at the centre tap) -/
theorem bandstopFlip_symmetric (n' : Nat) (h : List α) (hs : h.reverse = h) (hl : h.length = n' + 1)
    (he : n' % 2 = 0) : (bandstopFlip n' h).reverse = bandstopFlip n' h := by
  unfold bandstopFlip
  apply mapIdx_symmetric
  · rw [← List.map_reverse, hs]
  · intro i hi x
    simp only [List.length_map] at hi ⊢
    have : (h.length - 1 - i = n' / 2) ↔ (i = n' / 2) := by omega
    simp only [this]

end firStructural

section firReal
open Real

/-- `std::accumulate(…, 0.0)` over ℝ is the sum -/
theorem accumulate_eq_sum (l : List ℝ) : accumulate l = l.sum := by
  unfold accumulate
  rw [List.sum_eq_foldl]; simp

/-- the normalised prototype sums to 1 when the raw taps do not sum to 0 -/
theorem lowpassH_sum (n : ℕ) (wn : ℝ) (win : List ℝ) (hs : (lowpassTaps n wn win).sum ≠ 0) :
    (lowpassH n wn win).sum = 1 := by
  unfold lowpassH
  rw [accumulate_eq_sum]
  have : (fun x : ℝ => x / (lowpassTaps n wn win).sum) = fun x => id x * ((lowpassTaps n wn win).sum)⁻¹ := by
    funext x; simp [div_eq_mul_inv]
  rw [this, List.sum_map_mul_right, List.map_id, mul_inv_cancel₀ hs]

/-- T11.4, DC gain of the low-pass design: `∑ h = 1` — every order, every cut-off, every window of the right
length, under the hypothesis that `h /= sum(h)` does not divide by zero (spelled out on the raw taps) -/
theorem fir1_low_dc_gain (n : ℕ) (w1 w2 : ℝ) (win h : List ℝ) (hok : fir1 0 n w1 w2 win = .ok h)
    (hs : (lowpassTaps n w1 win).sum ≠ 0) : h.sum = 1 := by
  have hw := (fir1_ok_length 0 n w1 w2 win h hok).1
  rw [firLen_low] at hw
  have : fir1 0 n w1 w2 win = .ok (lowpassH n w1 win) := lowpassFir_ok' n w1 win hw
  rw [this] at hok; injection hok with hok; subst hok
  exact lowpassH_sum n w1 win hs

/-- `∑ₖ (-1)ᵏ hₖ` — the frequency response at Nyquist -/
def altSum (l : List ℝ) : ℝ := (l.mapIdx fun k x => (-1 : ℝ) ^ k * x).sum

/-- helper -/
theorem mapIdx_eq_map {β γ : Type} (l : List β) (f : Nat → β → γ) (g : β → γ) (h : ∀ i x, f i x = g x) :
    l.mapIdx f = l.map g := by
  apply List.ext_getElem
  · simp
  · intro i h1 h2; simp [h]

/-- helper: the alternating sum of the modulated taps is ± the plain sum -/
theorem altSum_modulate (t1 : ℕ) (ht : t1 = 0 ∨ t1 = 1) (l : List ℝ) :
    altSum (modulate t1 l) = if t1 = 0 then - l.sum else l.sum := by
  unfold altSum modulate
  rw [List.mapIdx_mapIdx]
  rcases ht with rfl | rfl
  · rw [if_pos rfl, mapIdx_eq_map _ _ (fun x => x * (-1 : ℝ))]
    · rw [show (fun x : ℝ => x * (-1 : ℝ)) = fun x => id x * (-1) from rfl, List.sum_map_mul_right]; simp
    · intro i x
      simp only [Function.comp]
      rcases Nat.even_or_odd i with he | ho
      · rw [if_pos (Nat.even_iff.mp he), he.neg_one_pow]; ring
      · rw [if_neg (by rw [Nat.odd_iff.mp ho]; omega), ho.neg_one_pow]; ring
  · rw [if_neg (by omega), mapIdx_eq_map _ _ (fun x => x)]
    · simp
    · intro i x
      simp only [Function.comp]
      rcases Nat.even_or_odd i with he | ho
      · rw [if_neg (by rw [Nat.even_iff.mp he]; omega), he.neg_one_pow]; ring
      · rw [if_pos (Nat.odd_iff.mp ho), ho.neg_one_pow]; ring

/-- T11.4, Nyquist gain of the high-pass design: `|∑ (-1)ᵏ hₖ| = 1` — every order (odd orders are designed
with `n+1`), every cut-off, every window of the right length; hypothesis: the prototype's raw taps do not sum
to zero (the division `h /= sum(h)`) -/
theorem fir1_high_nyquist_gain (n : ℕ) (w1 w2 : ℝ) (win h : List ℝ) (hok : fir1 1 n w1 w2 win = .ok h)
    (hs : (lowpassTaps (evenOrder n) (1 - w1) win).sum ≠ 0) : |altSum h| = 1 := by
  have hw := (fir1_ok_length 1 n w1 w2 win h hok).1
  rw [firLen_high] at hw
  have : fir1 1 n w1 w2 win = _ := highpassFir_ok n w1 win hw
  rw [this] at hok; injection hok with hok; subst hok
  have h1 : (Fn.ofNat 1 - w1 : ℝ) = 1 - w1 := by simp
  rw [h1, altSum_modulate _ (by split <;> simp), lowpassH_sum _ _ _ hs]
  split <;> simp

/-- helper: modulation by `cos(2π wc (k − n/2))` keeps a palindrome of `n+1` taps a palindrome (cosine is even) -/
theorem bandpassMod_symmetric (n : ℕ) (wn1 wn2 : ℝ) (h : List ℝ) (hs : h.reverse = h) (hl : h.length = n + 1) :
    (bandpassMod n wn1 wn2 h).reverse = bandpassMod n wn1 wn2 h := by
  unfold bandpassMod
  simp only []
  apply mapIdx_symmetric _ _ hs
  intro i hi x
  have hc : ((h.length - 1 - i : ℕ) : ℝ) = (n : ℝ) - i := by
    rw [hl, Nat.add_sub_cancel, Nat.cast_sub (by omega)]
  simp only [fn_ofNat, fn_cos, hc]
  rw [← Real.cos_neg]
  congr 2; ring

/-- T11.4 symmetry, band-pass (ℝ: uses that cosine is even) -/
theorem fir1_bandpass_symmetric (n : ℕ) (w1 w2 : ℝ) (win h : List ℝ) (hok : fir1 2 n w1 w2 win = .ok h) :
    h.reverse = h := by
  have hw := (fir1_ok_length 2 n w1 w2 win h hok).1
  rw [firLen_bandpass] at hw
  have : fir1 2 n w1 w2 win = _ := bandpassFir_ok n w1 w2 win hw
  rw [this] at hok; injection hok with hok; subst hok
  exact bandpassMod_symmetric n w1 w2 _ (lowpassH_symmetric _ _ _) (lowpassH_length _ _ _ hw)

/-- T11.4 symmetry, band-stop (ℝ) -/
theorem fir1_bandstop_symmetric (n : ℕ) (w1 w2 : ℝ) (win h : List ℝ) (hok : fir1 3 n w1 w2 win = .ok h) :
    h.reverse = h := by
  have hw := (fir1_ok_length 3 n w1 w2 win h hok).1
  rw [firLen_bandstop] at hw
  have : fir1 3 n w1 w2 win = _ := bandstopFir_ok n w1 w2 win hw
  rw [this] at hok; injection hok with hok; subst hok
  apply bandstopFlip_symmetric _ _ _ _ (evenOrder_even n)
  · exact bandpassMod_symmetric _ w1 w2 _ (lowpassH_symmetric _ _ _) (lowpassH_length _ _ _ hw)
  · unfold bandpassMod; simp [lowpassH_length _ _ _ hw]

end firReal

section perWindowStructural
variable {α : Type} [Add α] [Sub α] [Mul α] [Div α] [Neg α] [LT α] [LE α] [Fn α] [OfScientific α]
  [DecidableRel (· < · : α → α → Prop)] [DecidableRel (· ≤ · : α → α → Prop)]

/-- helper: index-map generators return the number of points asked for -/
theorem map_range_length {β : Type} (g : Nat → Nat → β) :
    ∀ n m, ((fun N m => (List.range m).map (g N)) n m).length = m := by intro n m; simp

/-! ### hann (structural, every scalar type) -/
theorem hann_length (n : Nat) (hn : 3 ≤ n) (sym : Bool) : (hann n sym : List α).length = n :=
  symWindow_length hannwin (map_range_length hannPt) n (by omega) sym

/-- T11.2: the symmetric variant is symmetric about its centre -/
theorem hann_symmetric (n : Nat) : (hann n true : List α).reverse = hann n true :=
  symWindow_symmetric hannwin (map_range_length hannPt) n

/-- T11.2: the periodic variant is the first `n` points of the symmetric window of length `n+1` -/
theorem hann_periodic_prefix (n : Nat) (hn : 3 ≤ n) :
    (hann n false : List α) = (hann (n + 1) true : List α).take n :=
  symWindow_periodic_prefix hannwin (map_range_length hannPt) n (by omega)

/-! ### hamming (structural, every scalar type) -/
theorem hamming_length (n : Nat) (hn : 3 ≤ n) (sym : Bool) : (hamming n sym : List α).length = n :=
  symWindow_length hammingwin (map_range_length hammingPt) n (by omega) sym

/-- T11.2: the symmetric variant is symmetric about its centre -/
theorem hamming_symmetric (n : Nat) : (hamming n true : List α).reverse = hamming n true :=
  symWindow_symmetric hammingwin (map_range_length hammingPt) n

/-- T11.2: the periodic variant is the first `n` points of the symmetric window of length `n+1` -/
theorem hamming_periodic_prefix (n : Nat) (hn : 3 ≤ n) :
    (hamming n false : List α) = (hamming (n + 1) true : List α).take n :=
  symWindow_periodic_prefix hammingwin (map_range_length hammingPt) n (by omega)

/-! ### blackman (structural, every scalar type) -/
theorem blackman_length (n : Nat) (hn : 3 ≤ n) (sym : Bool) : (blackman n sym : List α).length = n :=
  symWindow_length blackmanwin (map_range_length blackmanPt) n (by omega) sym

/-- T11.2: the symmetric variant is symmetric about its centre -/
theorem blackman_symmetric (n : Nat) : (blackman n true : List α).reverse = blackman n true :=
  symWindow_symmetric blackmanwin (map_range_length blackmanPt) n

/-- T11.2: the periodic variant is the first `n` points of the symmetric window of length `n+1` -/
theorem blackman_periodic_prefix (n : Nat) (hn : 3 ≤ n) :
    (blackman n false : List α) = (blackman (n + 1) true : List α).take n :=
  symWindow_periodic_prefix blackmanwin (map_range_length blackmanPt) n (by omega)

/-! ### blackmanharris (structural, every scalar type) -/
theorem blackmanharris_length (n : Nat) (hn : 3 ≤ n) (sym : Bool) : (blackmanharris n sym : List α).length = n :=
  symWindow_length blackmanharriswin (map_range_length blackmanharrisPt) n (by omega) sym

/-- T11.2: the symmetric variant is symmetric about its centre -/
theorem blackmanharris_symmetric (n : Nat) : (blackmanharris n true : List α).reverse = blackmanharris n true :=
  symWindow_symmetric blackmanharriswin (map_range_length blackmanharrisPt) n

/-- T11.2: the periodic variant is the first `n` points of the symmetric window of length `n+1` -/
theorem blackmanharris_periodic_prefix (n : Nat) (hn : 3 ≤ n) :
    (blackmanharris n false : List α) = (blackmanharris (n + 1) true : List α).take n :=
  symWindow_periodic_prefix blackmanharriswin (map_range_length blackmanharrisPt) n (by omega)

/-! ### cosine (structural, every scalar type) -/
theorem cosine_length (n : Nat) (hn : 3 ≤ n) (sym : Bool) : (cosine n sym : List α).length = n :=
  symWindow_length cosinewin (map_range_length cosinePt) n (by omega) sym

/-- T11.2: the symmetric variant is symmetric about its centre -/
theorem cosine_symmetric (n : Nat) : (cosine n true : List α).reverse = cosine n true :=
  symWindow_symmetric cosinewin (map_range_length cosinePt) n

/-- T11.2: the periodic variant is the first `n` points of the symmetric window of length `n+1` -/
theorem cosine_periodic_prefix (n : Nat) (hn : 3 ≤ n) :
    (cosine n false : List α) = (cosine (n + 1) true : List α).take n :=
  symWindow_periodic_prefix cosinewin (map_range_length cosinePt) n (by omega)

/-! ### gauss (structural, every scalar type) -/
theorem gauss_length (a : α) (n : Nat) (hn : 3 ≤ n) (sym : Bool) : (gauss n a sym : List α).length = n :=
  symWindow_length (gausswin a) (map_range_length (gaussPt a)) n (by omega) sym

/-- T11.2: the symmetric variant is symmetric about its centre -/
theorem gauss_symmetric (a : α) (n : Nat) : (gauss n a true : List α).reverse = gauss n a true :=
  symWindow_symmetric (gausswin a) (map_range_length (gaussPt a)) n

/-- T11.2: the periodic variant is the first `n` points of the symmetric window of length `n+1` -/
theorem gauss_periodic_prefix (a : α) (n : Nat) (hn : 3 ≤ n) :
    (gauss n a false : List α) = (gauss (n + 1) a true : List α).take n :=
  symWindow_periodic_prefix (gausswin a) (map_range_length (gaussPt a)) n (by omega)

/-! ### tukey (only the symmetric form exists) -/
theorem tukey_length (r : α) (n : Nat) (hn : 3 ≤ n) : (tukey n r : List α).length = n :=
  symWindow_length (tukeywin r) (map_range_length (tukeyPt r)) n (by omega) true

/-- T11.2 -/
theorem tukey_symmetric (r : α) (n : Nat) : (tukey n r : List α).reverse = tukey n r :=
  symWindow_symmetric (tukeywin r) (map_range_length (tukeyPt r)) n

/-! ### kaiser -/
theorem kaiser_length (beta : α) (nw : Nat) : (kaiser nw beta : List α).length = nw := by
  unfold kaiser kaiserHalf; simp; omega

/-- T11.2: `flip(w.slice(odd, n)) | w` is a palindrome -/
theorem kaiser_symmetric (beta : α) (nw : Nat) : (kaiser nw beta : List α).reverse = kaiser nw beta := by
  unfold kaiser
  generalize kaiserHalf nw beta = w
  have h : nw % 2 = 0 ∨ nw % 2 = 1 := by omega
  rcases h with h | h <;> rw [h]
  · simp
  · cases w with
    | nil => simp
    | cons x t => simp

end perWindowStructural

section rangesReal
open Real

/-- T11.3 per point: cosine window on the generated half (`0 ≤ π(i+½)/N ≤ π`) -/
theorem cosinePt_range (N i : ℕ) (hi : i < N) : 0 ≤ (cosinePt N i : ℝ) ∧ (cosinePt N i : ℝ) ≤ 1 := by
  unfold cosinePt
  simp only [fn_sin, fn_pi, fn_ofNat]
  refine ⟨?_, Real.sin_le_one _⟩
  have hN : (0 : ℝ) < N := by exact_mod_cast (by omega : 0 < N)
  have hi' : (i : ℝ) + 1 ≤ N := by exact_mod_cast hi
  apply Real.sin_nonneg_of_nonneg_of_le_pi
  · have : (0:ℝ) ≤ π / N := by positivity
    have : (0:ℝ) ≤ (i:ℝ) + 0.5 := by positivity
    positivity
  · have h5 : ((i:ℝ) + 0.5) ≤ N := by norm_num; linarith
    calc π / N * ((i:ℝ) + 0.5) ≤ π / N * N := by
          apply mul_le_mul_of_nonneg_left h5; positivity
      _ = π := by field_simp

/-- T11.3 per point: Gauss, every `alpha` -/
theorem gaussPt_range (a : ℝ) (N i : ℕ) : 0 ≤ gaussPt a N i ∧ gaussPt a N i ≤ 1 := by
  unfold gaussPt
  simp only [fn_exp, fn_pow, fn_ofNat]
  rw [Real.rpow_natCast]
  refine ⟨(Real.exp_pos _).le, ?_⟩
  rw [Real.exp_le_one_iff]
  have := sq_nonneg ((((i:ℝ) - ((N - 1 : ℕ) : ℝ) / ((2:ℕ):ℝ)) * a / (((N - 1 : ℕ) : ℝ) / ((2:ℕ):ℝ))))
  nlinarith

/-- T11.3 per point: Tukey, every `r` -/
theorem tukeyPt_range (r : ℝ) (N i : ℕ) : 0 ≤ tukeyPt r N i ∧ tukeyPt r N i ≤ 1 := by
  unfold tukeyPt
  split
  · simp
  · split
    · exact hannPt_range N i
    · simp only []
      split
      · simp
      split
      · simp only [fn_cos, fn_ofNat]
        generalize (Fn.pi / (r / ((2:ℕ):ℝ)) * ((i:ℝ) / ((N - 1 : ℕ):ℝ) - r / ((2:ℕ):ℝ))) = y
        have h1 := Real.neg_one_le_cos y
        have h2 := Real.cos_le_one y
        constructor
        · apply div_nonneg <;> [skip; positivity]; push_cast; linarith
        · rw [div_le_one (by positivity)]; push_cast; linarith
      · simp


/-- helper -/
theorem npOf_pos (n : ℕ) (hn : 3 ≤ n) (sym : Bool) : 1 ≤ npOf n sym := by unfold npOf; split <;> omega

/-- T11.3 -/
theorem hann_range (n : ℕ) (sym : Bool) : ∀ x ∈ (hann n sym : List ℝ), 0 ≤ x ∧ x ≤ 1 :=
  symWindow_forall hannwin hannPt (fun _ _ => rfl) _ n sym (fun i _ => hannPt_range _ i)

/-- T11.3 -/
theorem hamming_range (n : ℕ) (sym : Bool) : ∀ x ∈ (hamming n sym : List ℝ), 0 ≤ x ∧ x ≤ 1 :=
  symWindow_forall hammingwin hammingPt (fun _ _ => rfl) _ n sym (fun i _ => hammingPt_range _ i)

/-- T11.3 (the exact minimum of the Blackman window is 0, at the end points: the `Float` value −1.4e−17 there
is a rounding residue) -/
theorem blackman_range (n : ℕ) (hn : 3 ≤ n) (sym : Bool) : ∀ x ∈ (blackman n sym : List ℝ), 0 ≤ x ∧ x ≤ 1 :=
  symWindow_forall blackmanwin blackmanPt (fun _ _ => rfl) _ n sym
    (fun i _ => blackmanPt_range _ i (npOf_pos n hn sym))

/-- T11.3 -/
theorem blackmanharris_range (n : ℕ) (hn : 3 ≤ n) (sym : Bool) :
    ∀ x ∈ (blackmanharris n sym : List ℝ), 0 ≤ x ∧ x ≤ 1 :=
  symWindow_forall blackmanharriswin blackmanharrisPt (fun _ _ => rfl) _ n sym
    (fun i _ => blackmanharrisPt_range _ i (npOf_pos n hn sym))

/-- T11.3 -/
theorem cosine_range (n : ℕ) (sym : Bool) : ∀ x ∈ (cosine n sym : List ℝ), 0 ≤ x ∧ x ≤ 1 :=
  symWindow_forall cosinewin cosinePt (fun _ _ => rfl) _ n sym
    (fun i hi => cosinePt_range _ i (lt_of_lt_of_le hi (halfLen_le _)))

/-- T11.3, every `alpha` -/
theorem gauss_range (a : ℝ) (n : ℕ) (sym : Bool) : ∀ x ∈ (gauss n a sym : List ℝ), 0 ≤ x ∧ x ≤ 1 :=
  symWindow_forall (gausswin a) (gaussPt a) (fun _ _ => rfl) _ n sym (fun i _ => gaussPt_range a _ i)

/-- T11.3, every `r` (also outside [0, 1]) -/
theorem tukey_range (r : ℝ) (n : ℕ) : ∀ x ∈ (tukey n r : List ℝ), 0 ≤ x ∧ x ≤ 1 :=
  symWindow_forall (tukeywin r) (tukeyPt r) (fun _ _ => rfl) _ n true (fun i _ => tukeyPt_range r _ i)

/-- T11.3 for Kaiser, PARTIAL.  Full statement (not proved):
`∀ beta nw, 3 ≤ nw → ∀ x ∈ (kaiser nw beta : List ℝ), 0 ≤ x ∧ x ≤ 1`.
Proved here: the lower bound only (every value is an absolute value).  Missing for `x ≤ 1`: the series is cut by
the data-dependent stopping rule `term < r * eps`, so numerator and denominator may be partial sums of different
lengths; monotonicity of the stopping index in the argument is not established.  `≤ 1` is checked by the ORACLE
for beta ∈ [0, 40] and all lengths of the sweep. -/
theorem kaiser_range_partial (beta : ℝ) (nw : ℕ) : ∀ x ∈ (kaiser nw beta : List ℝ), 0 ≤ x := by
  intro x hx
  unfold kaiser at hx
  have hx' : x ∈ kaiserHalf nw beta := by
    rcases List.mem_append.mp hx with h | h
    · exact List.mem_of_mem_drop (List.mem_reverse.mp h)
    · exact h
  unfold kaiserHalf at hx'
  obtain ⟨i, _, rfl⟩ := List.mem_map.mp hx'
  simp only [fn_abs]; exact abs_nonneg _

end rangesReal

section tukeyReal
open Real

/-- textbook Tukey (tapered-cosine) window, `x = k/(N-1)`: rectangular for `r ≤ 0`, Hann for `r ≥ 1`, otherwise
cosine tapers on `x < r/2` and `x > 1 - r/2`, and 1 in between -/
noncomputable def tukeyF (r : ℝ) (N k : ℕ) : ℝ :=
  if r ≤ 0 then 1
  else if 1 ≤ r then hannF N k
  else if (k : ℝ) / ((N : ℝ) - 1) < r / 2 then
    (1 + Real.cos (2 * π / r * ((k : ℝ) / ((N : ℝ) - 1) - r / 2))) / 2
  else if 1 - r / 2 < (k : ℝ) / ((N : ℝ) - 1) then
    (1 + Real.cos (2 * π / r * ((k : ℝ) / ((N : ℝ) - 1) - 1 + r / 2))) / 2
  else 1

/-- helper: `std::floor` over ℝ -/
theorem fn_floor' (x : ℝ) : Fn.floor x = (⌊x⌋ : ℝ) := rfl

/-- helper: the loop bound `i < floor(y) + 1` of `_tukeywin` is `i ≤ y` -/
theorem taper_cond (y : ℝ) (i : ℕ) : ((i : ℝ) < (⌊y⌋ : ℝ) + 1) ↔ (i : ℝ) ≤ y := by
  have h1 : ((i : ℝ) < (⌊y⌋ : ℝ) + 1) ↔ ((i : ℤ) < ⌊y⌋ + 1) := by
    rw [← Int.cast_natCast (R := ℝ) i]
    rw [show ((⌊y⌋ : ℝ) + 1) = ((⌊y⌋ + 1 : ℤ) : ℝ) by push_cast; ring]
    exact Int.cast_lt
  rw [h1, Int.lt_add_one_iff, Int.le_floor]; simp

/-- helper: the loop body of `_tukeywin` for `0 < r < 1` -/
theorem tukeyPt_mid (r : ℝ) (h0 : 0 < r) (h1 : r < 1) (N i : ℕ) (hN : 2 ≤ N) :
    tukeyPt r N i = if (i : ℝ) / ((N : ℝ) - 1) ≤ r / 2 then
      (1 + Real.cos (2 * π / r * ((i : ℝ) / ((N : ℝ) - 1) - r / 2))) / 2 else 1 := by
  have hNr : (0 : ℝ) < (N : ℝ) - 1 := by
    have : (2 : ℝ) ≤ N := by exact_mod_cast hN
    linarith
  unfold tukeyPt
  rw [if_neg (by simp; exact h0), if_neg (by simp; exact h1)]
  simp only [fn_floor', fn_ofNat, fn_cos, fn_pi, ofNat_pred N (by omega)]
  have hc : ((i : ℝ) < (⌊r / ((2:ℕ):ℝ) * ((N : ℝ) - 1)⌋ : ℝ) + ((1:ℕ):ℝ)) ↔ (i : ℝ) / ((N : ℝ) - 1) ≤ r / 2 := by
    push_cast
    rw [taper_cond, div_le_iff₀ hNr]
  simp only [hc]
  by_cases hi : i = 0
  · -- `w[0] = 0;`: the closed form at the first point is (1 + cos(-π))/2 = 0
    subst hi
    have h0' : ((0 : ℕ) : ℝ) / ((N : ℝ) - 1) ≤ r / 2 := by simp; linarith
    have e : 2 * π / r * (((0 : ℕ) : ℝ) / ((N : ℝ) - 1) - r / 2) = -π := by
      push_cast; field_simp; ring
    rw [if_pos rfl, if_pos h0', e, Real.cos_neg, Real.cos_pi]
    norm_num
  rw [if_neg hi]
  split
  · push_cast; congr 3; field_simp
  · simp

/-- T11.1 Tukey, EVERY `r` (≤ 0 rectangular, ≥ 1 Hann, tapered in between), ∀ n ≥ 3, ∀ k < n: the assembled window equals the textbook piecewise form (right taper = mirrored left taper by evenness of cosine) -/
theorem tukey_closed_form (r : ℝ) (n : ℕ) (hn : 3 ≤ n) (k : ℕ) (hk : k < n) :
    (tukey n r : List ℝ)[k]? = some (tukeyF r n k) := by
  unfold tukey
  rw [symWindow_get (tukeywin r) (tukeyPt r) (fun _ _ => rfl) n (by omega) true k hk]
  congr 1
  show (if k < halfLen n then tukeyPt r n k else tukeyPt r n (n - 1 - k)) = tukeyF r n k
  have hNr : (0 : ℝ) < (n : ℝ) - 1 := by
    have : (3 : ℝ) ≤ n := by exact_mod_cast hn
    linarith
  by_cases hr0 : r ≤ 0
  · unfold tukeyF tukeyPt; simp [hr0]
  by_cases hr1 : 1 ≤ r
  · have e : hannF n k = 0.5 - 0.5 * Real.cos (theta 2 n k) := by unfold hannF theta; norm_num
    unfold tukeyF tukeyPt
    simp only [fn_ofNat, Nat.cast_zero, Nat.cast_one, if_neg hr0, if_pos hr1, e]
    split
    · exact hannPt_eq _ _ (by omega)
    · rw [hannPt_eq _ _ (by omega), cos_theta_mirror 2 _ _ (by omega) (by omega) (by decide)]
  have hr0 := not_le.mp hr0
  have hr1 := not_le.mp hr1
  rw [tukeyPt_mid r hr0 hr1 n k (by omega), tukeyPt_mid r hr0 hr1 n _ (by omega)]
  unfold tukeyF
  rw [if_neg (not_le.mpr hr0), if_neg (not_le.mpr hr1)]
  set x : ℝ := (k : ℝ) / ((n : ℝ) - 1) with hx
  have hj : ((n - 1 - k : ℕ) : ℝ) / ((n : ℝ) - 1) = 1 - x := by
    rw [Nat.cast_sub (by omega), Nat.cast_sub (by omega)]; rw [hx]; field_simp; simp
  rw [hj]
  by_cases hlt : k < halfLen n
  · rw [if_pos hlt]
    have hx2 : x ≤ 1 / 2 := by
      rw [hx, div_le_iff₀ hNr]
      have : 2 * k + 1 ≤ n := by unfold halfLen at hlt; split at hlt <;> omega
      have : (2 * (k : ℝ) + 1) ≤ n := by exact_mod_cast this
      linarith
    rcases lt_trichotomy x (r / 2) with h | h | h
    · rw [if_pos h.le, if_pos h]
    · rw [if_pos h.le, if_neg (by linarith), if_neg (by linarith), h]; simp
    · rw [if_neg (by linarith), if_neg (by linarith), if_neg (by linarith)]
  · rw [if_neg hlt]
    have hx2 : 1 / 2 < x := by
      rw [hx, lt_div_iff₀ hNr]
      have : n ≤ 2 * k := by unfold halfLen at hlt; split at hlt <;> omega
      have : (n : ℝ) ≤ 2 * (k : ℝ) := by exact_mod_cast this
      linarith
    rw [if_neg (by linarith : ¬ x < r / 2)]
    rcases lt_trichotomy (1 - x) (r / 2) with h | h | h
    · rw [if_pos h.le, if_pos (by linarith)]
      rw [← Real.cos_neg]; congr 3; ring
    · rw [if_pos h.le, if_neg (by linarith), h]; simp
    · rw [if_neg (by linarith), if_neg (by linarith)]

end tukeyReal

section kaiserReal
open Real

/-- term `k` of the power series of I₀: `((x/2)^k / k!)²` -/
noncomputable def i0Term (x : ℝ) (k : ℕ) : ℝ := ((x / 2) ^ k / (k.factorial : ℝ)) ^ 2

/-- partial sum `∑_{k ≤ K}` of the I₀ series -/
noncomputable def i0Partial (x : ℝ) (K : ℕ) : ℝ := ∑ k ∈ Finset.range (K + 1), i0Term x k

/-- helper: the update `term *= q / (k * k)` produces the next series term -/
theorem i0Term_succ (x : ℝ) (k : ℕ) :
    i0Term x k * ((x / 2) * (x / 2) / (((k + 1 : ℕ) : ℝ) * ((k + 1 : ℕ) : ℝ))) = i0Term x (k + 1) := by
  unfold i0Term
  rw [Nat.factorial_succ]
  have h1 : ((k.factorial : ℕ) : ℝ) ≠ 0 := by exact_mod_cast Nat.factorial_ne_zero k
  have h2 : (((k + 1 : ℕ)) : ℝ) ≠ 0 := by exact_mod_cast Nat.succ_ne_zero k
  push_cast
  field_simp
  ring

/-- loop invariant of `_besseli0`: started on a partial sum, the loop returns a (longer) partial sum -/
theorem besselLoop_partial (x : ℝ) (fuel : ℕ) : ∀ k : ℕ,
    ∃ K, k ≤ K ∧ K ≤ k + fuel ∧
      besselLoop ((x / 2) * (x / 2)) fuel (k + 1) (i0Term x k) (i0Partial x k) = i0Partial x K := by
  induction fuel with
  | zero => intro k; exact ⟨k, le_refl _, le_refl _, rfl⟩
  | succ f ih =>
    intro k
    unfold besselLoop
    simp only [fn_ofNat]
    rw [i0Term_succ x k]
    have hS : i0Partial x k + i0Term x (k + 1) = i0Partial x (k + 1) := by
      unfold i0Partial; rw [Finset.sum_range_succ _ (k + 1)]
    rw [hS]
    split
    · exact ⟨k + 1, by omega, by omega, rfl⟩
    · obtain ⟨K, h1, h2, h3⟩ := ih (k + 1)
      exact ⟨K, by omega, by omega, h3⟩

/-- `_besseli0(x)` is a partial sum `∑_{k ≤ K} ((x/2)^k/k!)²` of the I₀ power series with `K ≤ 999`
(which `K` is decided by the stopping rule `term < r * eps`; how close that is to I₀ is measured by the ORACLE) -/
theorem besseli0_partial (x : ℝ) : ∃ K, K ≤ 999 ∧ besseli0 x = i0Partial x K := by
  obtain ⟨K, h1, h2, h3⟩ := besselLoop_partial x 999 0
  refine ⟨K, by omega, ?_⟩
  unfold besseli0
  simp only [fn_ofNat]
  have e1 : i0Term x 0 = 1 := by unfold i0Term; simp
  have e2 : i0Partial x 0 = 1 := by unfold i0Partial; simp [e1]
  rw [e1, e2] at h3
  simpa using h3

/-- Kaiser window formula with the model's own series `I₀ᵗ = besseli0` -/
noncomputable def kaiserF (beta : ℝ) (N k : ℕ) : ℝ :=
  abs (besseli0 (beta * Real.sqrt (1 - (2 * (k : ℝ) / ((N : ℝ) - 1) - 1) ^ 2)) / abs (besseli0 beta))

/-- helper: point `i` of the upper half `w` of `kaiser` -/
theorem kaiserHalf_get (beta : ℝ) (nw : ℕ) (hn : 2 ≤ nw) (i : ℕ) (hi : i < (nw + 1) / 2) :
    (kaiserHalf nw beta : List ℝ)[i]? = some (kaiserF beta nw (nw / 2 + i)) := by
  have hNr : ((nw : ℝ) - 1) ≠ 0 := by
    have : (2 : ℝ) ≤ nw := by exact_mod_cast hn
    linarith
  unfold kaiserHalf
  simp only []
  rw [List.getElem?_map, List.getElem?_range hi]
  simp only [Option.map_some, fn_abs, fn_sqrt, fn_ofNat, ofNat_pred nw (by omega)]
  unfold kaiserF
  congr 5
  have hodd : nw % 2 = 0 ∨ nw % 2 = 1 := by omega
  have hdiv : nw = 2 * (nw / 2) + nw % 2 := by omega
  have hc : (nw : ℝ) = 2 * ((nw / 2 : ℕ) : ℝ) + ((nw % 2 : ℕ) : ℝ) := by exact_mod_cast hdiv
  rcases hodd with h | h
  · rw [h] at hc ⊢
    push_cast at hc ⊢
    rw [hc] at hNr ⊢
    congr 2
    field_simp
    ring
  · rw [h] at hc ⊢
    push_cast at hc ⊢
    rw [hc] at hNr ⊢
    congr 2
    field_simp
    ring

/-- helper: the Kaiser formula is symmetric about the centre -/
theorem kaiserF_mirror (beta : ℝ) (N k : ℕ) (hN : 2 ≤ N) (hk : k ≤ N - 1) :
    kaiserF beta N (N - 1 - k) = kaiserF beta N k := by
  have hNr : ((N : ℝ) - 1) ≠ 0 := by
    have : (2 : ℝ) ≤ N := by exact_mod_cast hN
    linarith
  unfold kaiserF
  rw [Nat.cast_sub hk, Nat.cast_sub (by omega)]
  congr 5
  field_simp
  ring

/-- T11.1 for Kaiser, relative to the series the code sums: point `k` of `kaiser(nw, beta)` is
`|I₀ᵗ(β √(1 − (2k/(nw−1) − 1)²)) / |I₀ᵗ(β)||` -/
theorem kaiser_closed_form (beta : ℝ) (nw : ℕ) (hn : 3 ≤ nw) (k : ℕ) (hk : k < nw) :
    (kaiser nw beta : List ℝ)[k]? = some (kaiserF beta nw k) := by
  have key : ∀ k, nw / 2 ≤ k → k < nw → (kaiser nw beta : List ℝ)[k]? = some (kaiserF beta nw k) := by
    intro k h1 h2
    unfold kaiser
    simp only []
    have hlen : ((kaiserHalf nw beta : List ℝ).drop (nw % 2)).reverse.length = nw / 2 := by
      unfold kaiserHalf; simp; omega
    rw [List.getElem?_append_right (by rw [hlen]; exact h1), hlen,
      kaiserHalf_get beta nw (by omega) (k - nw / 2) (by omega)]
    congr 2; omega
  by_cases h : nw / 2 ≤ k
  · exact key k h hk
  · have hl := kaiser_length beta nw
    rw [get_of_reverse_eq _ (kaiser_symmetric beta nw) k (by rw [hl]; exact hk), hl,
      key (nw - 1 - k) (by omega) (by omega), kaiserF_mirror beta nw k (by omega) (by omega)]

end kaiserReal

section defaults
variable {α : Type} [Add α] [Sub α] [Mul α] [Div α] [Neg α] [LT α] [LE α] [Fn α] [OfScientific α]
  [DecidableRel (· < · : α → α → Prop)] [DecidableRel (· ≤ · : α → α → Prop)]

/-- helper -/
theorem firLen_ge (ft n : Nat) (hn : 1 ≤ n) : 2 ≤ firLen ft n := by unfold firLen; split <;> omega

/-- the overloads without a window argument never throw for the four filter types: `window::hamming(nn)` has
the length the design asks for; the result has `n+1` taps (`n+2` for odd-order high-pass and band-stop) -/
theorem fir1Default_ok (ft n : Nat) (hft : ft < 4) (hn : 1 ≤ n) (w1 w2 : α) :
    ∃ h, fir1Default ft n w1 w2 = .ok h ∧ h.length = firLen ft n := by
  have hl : (hamming (firLen ft n) true : List α).length = firLen ft n :=
    symWindow_length hammingwin (map_range_length hammingPt) _ (firLen_ge ft n hn) true
  obtain ⟨h, hh⟩ := fir1_accepts ft n hft w1 w2 _ hl
  exact ⟨h, hh, (fir1_ok_length ft n w1 w2 _ h hh).2⟩

end defaults

section examples
open Real

/-- non-vacuity: a concrete window -/
example : (hann 3 true : List ℝ) = [0, 1, 0] := by
  simp [hann, symWindow, hannwin, hannPt, List.range_succ]
  norm_num

/-- non-vacuity of the hypotheses of `fir1_low_dc_gain` / `fir1_high_nyquist_gain`: order 2, cut-off 1/2,
rectangular window: raw taps `[1, π/2, 1]` -/
theorem lowpassTaps_example : lowpassTaps 2 (1 / 2 : ℝ) [1, 1, 1] = [1, π / 2, 1] := by
  simp [lowpassTaps, List.range_succ]
  have e : 2 * π * ((2:ℝ)⁻¹ / 2) = π / 2 := by ring
  rw [e, Real.sin_pi_div_two]; simp

/-- non-vacuity: the raw taps of the example do not sum to zero -/
theorem lowpassTaps_example_sum : (lowpassTaps 2 (1 / 2 : ℝ) [1, 1, 1]).sum ≠ 0 := by
  rw [lowpassTaps_example]
  have := Real.pi_pos
  simp; positivity

/-- the hypotheses of `fir1_low_dc_gain` are satisfiable, and its conclusion applies -/
example : ∃ h, fir1 0 2 (1 / 2 : ℝ) 0 [1, 1, 1] = .ok h ∧ h.sum = 1 := by
  obtain ⟨h, hh⟩ := fir1_accepts 0 2 (by norm_num) (1 / 2 : ℝ) 0 [1, 1, 1] (by simp [firLen])
  exact ⟨h, hh, fir1_low_dc_gain 2 _ _ _ h hh lowpassTaps_example_sum⟩

/-- the hypotheses of `fir1_high_nyquist_gain` are satisfiable (even order 2: the case whose last tap the old
code left un-modulated) -/
example : ∃ h, fir1 1 2 (1 / 2 : ℝ) 0 [1, 1, 1] = .ok h ∧ |altSum h| = 1 ∧ h.reverse = h := by
  obtain ⟨h, hh⟩ := fir1_accepts 1 2 (by norm_num) (1 / 2 : ℝ) 0 [1, 1, 1] (by simp [firLen])
  refine ⟨h, hh, fir1_high_nyquist_gain 2 _ _ _ h hh ?_, fir1_high_symmetric 2 _ _ _ h hh⟩
  have : (1 : ℝ) - 1 / 2 = 1 / 2 := by norm_num
  rw [show evenOrder 2 = 2 from rfl, this]
  exact lowpassTaps_example_sum

/-- rejection is not vacuous -/
example : ∃ e, fir1 1 3 (0.3 : ℝ) 0 (hamming 4 true) = .error e :=
  fir1_rejects_wrong_length 1 3 _ _ _ (by
    rw [hamming_length 4 (by norm_num) true]; simp [firLen])

end examples

end Dsp.C11
