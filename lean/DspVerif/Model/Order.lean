import DspVerif.Scalar
/-!
# Sorting, order statistics, median filter, rank correlation
(`lib/math.cpp: sort, issorted, median`, `lib/medfilt.cpp`, `lib/corr.cpp`)

Core only.  Everything is generic in the scalar: the order enters through `<` (and `==` where the
code compares with `!=`), arithmetic through the core notation classes and `Fn`.  The driver runs
the definitions at `Float`; `Props/C16.lean` reasons about them over any linear order / over `ℝ`.

Out-of-bounds reads of the C++ code are `none` (`Option`), exceptions are `Except String`.
The mean of the two middle values of an even window is a parameter `avg` (`(a + b) / 2` in the code,
`avg2` below), the padding / default initial value is a parameter `zero`: the order-statistic
theorems need no arithmetic laws, so they hold for every `avg`.
-/
namespace Dsp.Order

/-! ## `sort`, `issorted`, `median` -/
section Srt
variable {α : Type} [LT α] [DecidableRel (· < · : α → α → Prop)]

/-- "a may stand before b": the negation of the comparator handed to `std::sort` /
`std::is_sorted` (`x[i] < x[j]` ascending, `x[i] > x[j]` descending), with arguments swapped -/
def leB (asc : Bool) (a b : α) : Bool := if asc then !(decide (b < a)) else !(decide (a < b))

/-- `issorted(x, dir)` = `std::is_sorted(begin, end, comp)`: no adjacent pair with `comp(next, prev)` -/
def isSorted (asc : Bool) : List α → Bool
  | a :: b :: t => leB asc a b && isSorted asc (b :: t)
  | _ => true

/-- the index vector of `sort`: `iota`, returned unchanged if `issorted(x, dir)`, otherwise sorted
with the comparator on the values (`std::sort`; which of several equal values comes first is
unspecified there — the model uses a merge sort) -/
def sortIdx (x : Array α) (asc : Bool) : List (Fin x.size) :=
  if isSorted asc x.toList then List.finRange x.size
  else (List.finRange x.size).mergeSort (fun i j => leB asc x[i] x[j])

/-- `x[index]` -/
def gather (x : Array α) (idx : List (Fin x.size)) : List α := idx.map (fun i => x[i])

/-- `sort(x, dir)` = (sorted values, index vector) -/
def sort (x : Array α) (asc : Bool) : List α × List (Fin x.size) :=
  (gather x (sortIdx x asc), sortIdx x asc)

/-- `(n % 2 == 1) ? s[n/2] : (s[n/2] + s[n/2-1]) / 2`; `none` = a read outside `s` -/
def middle (avg : α → α → α) (n : Nat) (s : List α) : Option α :=
  if n % 2 = 1 then s[n / 2]?
  else match s[n / 2]?, s[n / 2 - 1]? with
    | some a, some b => some (avg a b)
    | _, _ => none

/-- `median(arr)`: `std::sort` of a copy, then the middle -/
def median (avg : α → α → α) (x : List α) : Option α :=
  middle avg x.length (x.mergeSort (leB true))

end Srt

/-- `(a + b) / 2` -/
def avg2 {α : Type} [Add α] [Div α] [Fn α] (a b : α) : α := (a + b) / Fn.ofNat 2

/-! ## `MedianFilter`, `medfilt` -/
section Med
variable {α : Type} [LT α] [DecidableRel (· < · : α → α → Prop)] [BEq α]

/-- first half of `_update_sort(x, nx, v_new, v_old)`:
`pos = 0; while (x[pos] != v_old && pos < nx-1) ++pos;` then the `memmove` that erases `x[pos]`
(no move when `pos == nx-1`: the last cell is then the one given up).  The result is the list of
the `nx-1` cells that stay valid; the stale last cell of the C array is not represented — the
second half reads it once (`x[nx-1] < v_new` before `pos < nx-1` fails) without using the result. -/
def eraseOld (vOld : α) : List α → List α
  | [] => []
  | [_] => []
  | a :: b :: t => if a != vOld then a :: eraseOld vOld (b :: t) else b :: t

/-- second half: `pos = 0; while (x[pos] < v_new && pos < nx-1) ++pos;` on the `nx-1` valid cells,
`memmove` up by one, `x[pos] = v_new` -/
def insertNew (vNew : α) : List α → List α
  | [] => [vNew]
  | a :: t => if a < vNew then a :: insertNew vNew t else vNew :: a :: t

/-- `_update_sort` -/
def updateSort (s : List α) (vNew vOld : α) : List α := insertNew vNew (eraseOld vOld s)

/-- state of a `MedianFilter`: `_n`, `_i`, ring buffer `_d`, sorted window `_s` -/
structure MF (α : Type) where
  n : Nat
  i : Nat
  d : List α
  s : List α
deriving Repr

/-- constructor: throws for `n < 3`, both buffers filled with `init_value` -/
def MF.init (n : Int) (v : α) : Except String (MF α) :=
  if n < 3 then .error "The filter order must be greater than or equal to 3"
  else .ok ⟨n.toNat, 0, List.replicate n.toNat v, List.replicate n.toNat v⟩

/-- one iteration of the loop of `process`:
`_i = (_i+1) % _n; _update_sort(_s, _n, x, _d[_i]); _d[_i] = x; y = middle(_s)` -/
def MF.step (avg : α → α → α) (st : MF α) (x : α) : MF α × Option α :=
  let i := (st.i + 1) % st.n
  match st.d[i]? with
  | none => (st, none)
  | some vOld =>
    let s := updateSort st.s x vOld
    ({ st with i := i, d := st.d.set i x, s := s }, middle avg st.n s)

/-- `process(x)`: the loop over one frame -/
def MF.process (avg : α → α → α) (st : MF α) : List α → MF α × List (Option α)
  | [] => (st, [])
  | x :: t =>
    let (st1, y) := st.step avg x
    let (st2, ys) := MF.process avg st1 t
    (st2, y :: ys)

/-- several frames through one filter object; outputs concatenated -/
def MF.processFrames (avg : α → α → α) (st : MF α) : List (List α) → MF α × List (Option α)
  | [] => (st, [])
  | f :: fs =>
    let (st1, y) := st.process avg f
    let (st2, ys) := MF.processFrames avg st1 fs
    (st2, y ++ ys)

/-- `medfilt(x, n)`: `MedianFilter(n)` (initial value 0) over `zeros(n/2) | x | zeros(n2)`,
`n2 = n/2` (odd) or `n/2 - 1` (even), then `y.slice(n-1, end)` (throws when `n-1 ≥ y.size()`,
i.e. for empty `x`) -/
def medfilt (avg : α → α → α) (zero : α) (x : List α) (n : Int) : Except String (List (Option α)) := do
  let flt ← MF.init n zero
  let m := n.toNat
  let n1 := m / 2
  let n2 := if m % 2 = 1 then m / 2 else m / 2 - 1
  let xp := List.replicate n1 zero ++ x ++ List.replicate n2 zero
  let y := (flt.process avg xp).2
  if y.length ≤ m - 1 then .error "Left slice index out of range" else .ok (y.drop (m - 1))

end Med

/-! ## `corr` -/
section Corr
variable {α : Type} [Add α] [Sub α] [Mul α] [Div α] [Fn α]

/-- the five running sums of `_pearson_corr` -/
structure Sums (α : Type) where
  sx : α
  sy : α
  sxy : α
  sxx : α
  syy : α

/-- the accumulation loop -/
def sums (x y : List α) : Sums α :=
  (List.zip x y).foldl
    (fun s p => ⟨s.sx + p.1, s.sy + p.2, s.sxy + p.1 * p.2, s.sxx + p.1 * p.1, s.syy + p.2 * p.2⟩)
    ⟨Fn.ofNat 0, Fn.ofNat 0, Fn.ofNat 0, Fn.ofNat 0, Fn.ofNat 0⟩

/-- the tail of `_pearson_corr` on the data the sums run over, `n = x.size()` converted to real:
`(n Σxy − Σx Σy) / sqrt((n Σx² − (Σx)²)(n Σy² − (Σy)²))` -/
def moments (n : α) (x y : List α) : α :=
  let s := sums x y
  let sxy := s.sxy * n
  let sxx := s.sxx * n
  let syy := s.syy * n
  let den := sxy - s.sx * s.sy
  let num := Fn.sqrt ((sxx - s.sx * s.sx) * (syy - s.sy * s.sy))
  den / num

/-- first pass of `_pearson_corr`: `mean = 0; mean += x[i]; mean /= n`, then the centred sample `x[i] - mean`
(the `dx` / `dy` of the second loop) -/
def centre (n : α) (x : List α) : List α :=
  let m := x.foldl (· + ·) (Fn.ofNat 0) / n
  x.map (fun t => t - m)

/-- `_pearson_corr` (since the repair a57e73f): the moment formula evaluated on the CENTRED samples; the code still
subtracts `sum_x * sum_y` (zero up to rounding) and so does the model -/
def pearson (x y : List α) : α :=
  let n : α := Fn.ofNat x.length
  moments n (centre n x) (centre n y)

/-- the moment formula on the raw samples (what the code evaluated before the repair); over the reals it is the same
number (`Props/C16: pearson_eq_pearsonM`), in floating point it cancels for data with an offset -/
def pearsonM (x y : List α) : α := moments (Fn.ofNat x.length) x y

variable [LT α] [DecidableRel (· < · : α → α → Prop)]

/-- `_get_ranks`: `rank[x_idx[i]] = i`, i.e. `rank[j]` = position of `j` in the index vector -/
def ranks (x : Array α) : List Nat :=
  let idx := sortIdx x true
  (List.finRange x.size).map (fun j => idx.idxOf j)

/-- `_spearman_corr`: Pearson of the (integer, converted to real) ranks -/
def spearman (x y : Array α) : α :=
  pearson ((ranks x).map (Fn.ofNat : Nat → α)) ((ranks y).map (Fn.ofNat : Nat → α))

/-- the double loop of `_kendall_corr`: `(n_c, n_d)` over all position pairs `i < k` -/
def pairCount {β : Type} (lt : β → β → Bool) : List β → Nat × Nat
  | [] => (0, 0)
  | a :: t =>
    let c := t.countP (lt a)
    let r := pairCount lt t
    (r.1 + c, r.2 + (t.length - c))

/-- `_kendall_corr`: `y` reordered by the sort index of `x`, concordant minus discordant pairs -/
def kendall (x y : Array α) (h : x.size = y.size) : α :=
  let idx := sortIdx x true
  let ybyx := idx.map (fun i => y[i.val]'(h ▸ i.isLt))
  let r := pairCount (fun a b => decide (a < b)) ybyx
  Fn.ofInt ((r.1 : Int) - (r.2 : Int)) / Fn.ofInt ((r.1 : Int) + (r.2 : Int))

/-- `corr(x, y, type)`; kind 0 Pearson, 1 Spearman, 2 Kendall, anything else 0 -/
def corr (x y : Array α) (kind : Nat) : Except String α :=
  if h : x.size = y.size then
    match kind with
    | 0 => .ok (pearson x.toList y.toList)
    | 1 => .ok (spearman x y)
    | 2 => .ok (kendall x y h)
    | _ => .ok (Fn.ofNat 0)
  else .error "Array size must be equal"

end Corr
end Dsp.Order
