import DspVerif.Gen.SmallFft
import DspVerif.Model.Lru
/-!
# The forward transform family (`lib/fft/*.{h,cpp}`, `lib/fft/czt.cpp`)

Every algorithm is written as an *index map* `Nat → Cx α` (the value the code leaves at an index),
generic in the scalar.  `mk n f` is the array whose cell `i < n` holds `f i`, `rd a i` reads a cell (`rd_mk` in
`Lib/C01Fft.lean`), so the theorems of `Props/C01.lean` are about exactly the functions the driver
runs at `Float`; the in-place loops of the C++ code vs. these index maps is what the correspondence run covers.

* small kernels 2/4/8 (complex and real input) and 3: the REGENERATED `Gen.fft2 …` (`Gen/SmallFft.lean`)
* `coeffs`, `bitrevTable`, `pow2fft`            — `lib/fft/pow2-fft.cpp`
* `Plan`, `mkPlan`, `facfft`                    — `lib/fft/fact-fft.cpp`
* `dftSlow`, `fftPrime`                         — `lib/fft/primes-fft.h`
* `czt`                                         — `lib/fft/czt.cpp` (+ `IfftPlan::solve` of `ifft.cpp`)
* `rfftPacked`                                  — `lib/fft/real-fft.h`
* `fftC`, `fftR`, `fftCN`, `fftRN`              — plan selection and pad/truncate of `lib/fft/fft.cpp`
-/
namespace Dsp

/-- `std::atan2` (used by `angle`), not part of `Fn` -/
class Atan2 (α : Type) where
  atan2 : α → α → α

instance : Atan2 Float := ⟨Float.atan2⟩

namespace Fft
open Dsp.Primes Dsp.Lru

variable {α : Type} [Add α] [Sub α] [Mul α] [Div α] [Neg α] [LT α] [LE α] [Fn α]
  [DecidableRel (· < · : α → α → Prop)] [DecidableRel (· ≤ · : α → α → Prop)]

/-- the floating literals of the small kernels (`Gen.fft8_c0`, `Gen.rfft8_c0`, `Gen.dft3_c0` at `Float`) -/
structure Lits (α : Type) where
  c8  : α
  c8r : α
  d3  : α

def zero : Cx α := ⟨Fn.ofNat 0, Fn.ofNat 0⟩

/-- `arr_cmplx` -/
abbrev Vec (α : Type) := Array (Cx α)

/-- read cell `i` (`zero` outside the array: the code never reads there) -/
def rd (a : Vec α) (i : Nat) : Cx α := a.getD i zero

/-- the array whose cell `i < n` holds `f i` (each cell evaluated once) -/
def mk (n : Nat) (f : Nat → Cx α) : Vec α := Array.ofFn (n := n) (fun i => f i.val)

/-- read cell `(r, c)` of an array of rows -/
def rd2 (a : Array (Vec α)) (r c : Nat) : Cx α := rd (a.getD r #[]) c

/-- an array of `R` row vectors -/
def mkRows (R : Nat) (g : Nat → Vec α) : Array (Vec α) := Array.ofFn (n := R) (fun r => g r.val)

/-- `arr_real` cell -/
def rdR (a : Array α) (i : Nat) : α := a.getD i (Fn.ofNat 0)

/-- a real value as `cmplx_t` (`complex(x)`, `y[0] = x[0]`) -/
def ofReal (v : α) : Cx α := ⟨v, Fn.ofNat 0⟩

/-- `complex(arr_real)` -/
def complexify (x : Array α) : Vec α := mk x.size (fun i => ofReal (rdR x i))

/-- `expj(t)` -/
def expj (t : α) : Cx α := ⟨Fn.cos t, Fn.sin t⟩

/-- entry `i` of `expj(-2 * pi * arange(·) / n)` -/
def twiddle (n i : Nat) : Cx α := expj ((Fn.ofInt (-2) * Fn.pi) * Fn.ofNat i / Fn.ofNat n)

/-! ## power-of-two plan -/

/-- `_gen_bitrev_table` (the loops as written; half table, already doubled) -/
def bitrevTable (n : Nat) : Array Nat :=
  let s := nextpow2 n
  let res0 : Array Nat := Array.replicate (n / 2) 0
  let st := (List.range (s - 1)).foldl (fun (st : Array Nat × Nat) _ =>
    let h := st.2
    let res := (List.range h).foldl (fun (r : Array Nat) k =>
      let r := r.setIfInBounds k (2 * r.getD k 0)
      r.setIfInBounds (k + h) (r.getD k 0 + 1)) st.1
    (res, 2 * h)) (res0, 1)
  st.1.map (fun v => 2 * v)

/-- `cos(2 * pi * i / n)` as the table loop computes it -/
def cosTab (n i : Nat) : α := Fn.cos (Fn.ofNat 2 * Fn.pi * Fn.ofNat i / Fn.ofNat n)

/-- cell `k` of `_gen_coeffs_table(n)` (`4 ∣ n`): which loop iteration wrote its `re`, which its `im` -/
def coeffs (n k : Nat) : Cx α :=
  let n4 := n / 4
  let n2 := n / 2
  let n3 := 3 * n / 4
  if k = 0 then ⟨Fn.ofInt 1, Fn.ofInt 0⟩
  else if k = n4 then ⟨Fn.ofInt 0, Fn.ofInt (-1)⟩
  else if k = n2 then ⟨Fn.ofInt (-1), Fn.ofInt 0⟩
  else if k = n3 then ⟨Fn.ofInt 0, Fn.ofInt 1⟩
  else if k < n4 then ⟨cosTab n k, -(cosTab n (n4 - k))⟩
  else if k < n2 then ⟨-(cosTab n (n2 - k)), -(cosTab n (k - n4))⟩
  else if k < n3 then ⟨-(cosTab n (k - n2)), cosTab n (n3 - k)⟩
  else ⟨cosTab n (n - k), cosTab n (k - n3)⟩

/-- `_bitreverse`: value left at `idx` -/
def bitreverse (n : Nat) (br : Array Nat) (x : Vec α) (idx : Nat) : Cx α :=
  if idx < n / 2 then rd x (br.getD idx 0) else rd x (br.getD (idx - n / 2) 0 + 1)

/-- value left at `idx` by one cascade with `h` butterflies per cluster and table step `m` -/
def stage (h m : Nat) (cf y : Vec α) (idx : Nat) : Cx α :=
  let pos := idx % (2 * h)
  if pos < h then rd y idx + rd cf (pos * m) * rd y (idx + h)
  else rd y (idx - h) - rd cf ((pos - h) * m) * rd y idx

/-- the first `s` cascades -/
def stages (n : Nat) (cf : Vec α) : Nat → Vec α → Vec α
  | 0, y => y
  | s + 1, y => mk n (stage (2 ^ s) (n / 2 ^ (s + 1)) cf (stages n cf s y))

/-- `Pow2FftPlan::solve` (`n = 2^l`, `4 ∣ n`) -/
def pow2fft (n : Nat) (x : Vec α) : Vec α :=
  stages n (mk n (coeffs n)) (nextpow2 n) (mk n (bitreverse n (bitrevTable n) x))

/-- `SmallFftPow2C::solve` -/
def smallC (lit : Lits α) (n : Nat) (x : Vec α) : Vec α :=
  if n = 1 then mk 1 (fun _ => rd x 0)
  else if n = 2 then mk 2 (Gen.fft2 (rd x))
  else if n = 4 then mk 4 (Gen.fft4 (rd x))
  else mk 8 (Gen.fft8 lit.c8 (rd x))

/-- `SmallFftPow2R::solve` -/
def smallR (lit : Lits α) (n : Nat) (x : Array α) : Vec α :=
  if n = 1 then mk 1 (fun _ => ofReal (rdR x 0))
  else if n = 2 then mk 2 (Gen.rfft2 (rdR x))
  else if n = 4 then mk 4 (Gen.rfft4 (rdR x))
  else mk 8 (Gen.rfft8 lit.c8r (rdR x))

def isSmall (n : Nat) : Bool := n == 1 || n == 2 || n == 4 || n == 8

/-- `create_fft_plan(n)` for a power of two -/
def fftPow2 (lit : Lits α) (n : Nat) (x : Vec α) : Vec α :=
  if isSmall n then smallC lit n x else pow2fft n x

/-! ## chirp-z (Bluestein) -/

/-- `IfftPlan::solve` on top of a forward solver of size `n` -/
def ifftWith (fwd : Vec α → Vec α) (n : Nat) (x : Vec α) : Vec α :=
  let m : α := Fn.ofNat 1 / Fn.ofNat n
  let y := fwd (mk n (fun i => Cx.conj (Cx.mulr (rd x i) m)))
  mk n (fun i => Cx.conj (rd y i))

/-- `angle(v)` -/
def angle [Atan2 α] (v : Cx α) : α := Atan2.atan2 v.im v.re

/-- `abs(v)` -/
def cabs (v : Cx α) : α := Fn.sqrt (v.re * v.re + v.im * v.im)

/-- entry `j` of `power(a, -arange(n))` -/
def powNeg [Atan2 α] (a : Cx α) (j : Nat) : Cx α :=
  let e : α := -(Fn.ofNat j)
  Cx.rmul (Fn.pow (cabs a) e) (expj (angle a * e))

/-- `CztPlanImpl(n, m, w, a)` followed by `solve(x)`; `fwd` = `FftPlan(n2)`, `skipA` = outcome of the
    test `!(abs(a - 1) > eps(a.re))` (evaluated on the doubles by the caller).
    The chirp is `expj(angle(w) · k²/2)`.  Since /repo commit 4e9c74f the code forms that phase in
    `long double` and reduces it mod 2π before the call of `expj`; over ℝ this is the same value, at
    `Float` the model (plain double product) differs from the code by ≈ eps·|arg w|·N²/2 in the phase,
    which is why the `czt` / large-prime correspondence tags carry a looser tolerance. -/
def czt [Atan2 α] (fwd : Nat → Vec α → Vec α) (n m : Nat) (w a : Cx α) (skipA : Bool) (x : Vec α) : Vec α :=
  let wa : α := angle w
  let chirp := mk (n - 1 + max m n) (fun i =>
    let v : α := Fn.ofInt ((i : Int) + 1 - (n : Int))
    expj (wa * (v * v / Fn.ofNat 2)))
  let n2 := 2 ^ nextpow2 (m + n - 1)
  let cp := mk n (fun j => if skipA then rd chirp (n - 1 + j) else rd chirp (n - 1 + j) * powNeg a j)
  let ich := fwd n2 (mk n2 (fun i => if i < m + n - 1 then (⟨Fn.ofNat 1, Fn.ofNat 0⟩ : Cx α) / rd chirp i else zero))
  let xp := fwd n2 (mk n2 (fun i => if i < n then rd x i * rd cp i else zero))
  let y := ifftWith (fwd n2) n2 (mk n2 (fun i => rd xp i * rd ich i))
  mk m (fun k => rd y (n - 1 + k) * rd chirp (n - 1 + k))

/-! ## prime lengths -/

/-- the inner loop of `_dft_slow` for bin `k ≥ 1` after `i` iterations: accumulator and running index `iw` -/
def dftSlowLoop (n k : Nat) (x tw : Vec α) : Nat → Cx α × Nat
  | 0 => (zero, 0)
  | i + 1 =>
    let st := dftSlowLoop n k x tw i
    let iw := st.2 + k
    (st.1 + rd x i * rd tw st.2, if iw < n then iw else iw - n)

/-- `y[0] += x[i]` -/
def sumLoop (x : Vec α) : Nat → Cx α
  | 0 => zero
  | i + 1 => sumLoop x i + rd x i

/-- `_dft_slow` -/
def dftSlow (n : Nat) (tw x : Vec α) : Vec α :=
  mk n (fun k => if k = 0 then sumLoop x n else (dftSlowLoop n k x tw n).1)

/-- `PrimesFftC::solve` (`n` prime, `n ≥ 3`) -/
def fftPrime [Atan2 α] (lit : Lits α) (n : Nat) (x : Vec α) : Vec α :=
  if n = 3 then mk 3 (Gen.dft3 lit.d3 (rd x))
  else if n ≤ Gen.maxDftSize then dftSlow n (mk n (twiddle n)) x
  else czt (fftPow2 lit) n n (expj (Fn.ofInt (-2) * Fn.pi / Fn.ofNat n)) ⟨Fn.ofNat 1, Fn.ofNat 0⟩ true x

/-! ## general Cooley–Tukey over a factor tree -/

/-- `PlanTree`: a leaf owns a solver from `create_fft_plan`, a node splits `n = P·Q` -/
inductive Plan where
  | leaf (n : Nat)
  | node (P Q : Nat) (p q : Plan)
deriving Repr, DecidableEq

def Plan.size : Plan → Nat
  | .leaf n => n
  | .node P Q _ _ => P * Q

/-- `PlanTree(n)` -/
def mkPlan : Nat → Nat → Plan
  | 0, n => .leaf n
  | fuel + 1, n =>
    if ispow2 n then .leaf n
    else
      let fac := treeFactors n
      if fac.length == 1 then .leaf n
      else
        let P := splitP n fac
        .node P (n / P) (mkPlan fuel P) (mkPlan fuel (n / P))

/-- twiddle step of `_facfft`: `x[q*plen + p] *= tw[q*p*decim]` for `p, q ≥ 1` -/
def twMul (tw : Vec α) (decim : Nat) (v : Cx α) (j pp : Nat) : Cx α :=
  if 1 ≤ pp ∧ 1 ≤ j then v * rd tw (j * pp * decim) else v

/-- `_facfft`: transpose, inner transforms of size `P`, twiddles (first row and column skipped),
    transpose, outer transforms of size `Q`, transpose — cell `k = s·P + p` of the result is cell `s`
    of the outer transform number `p` -/
def facfft (leaf : Nat → Vec α → Vec α) (tw : Vec α) (headN : Nat) : Plan → Vec α → Vec α
  | .leaf n, x => leaf n x
  | .node P Q p q, x =>
    let decim := headN / (P * Q)
    let inner : Array (Vec α) := mkRows Q (fun j =>
      facfft leaf tw headN p (mk P (fun i => rd x (i * Q + j))))
    let outer : Array (Vec α) := mkRows P (fun pp =>
      facfft leaf tw headN q (mk Q (fun j => twMul tw decim (rd2 inner j pp) j pp)))
    mk (P * Q) (fun k => rd2 outer (k % P) (k / P))

/-- the solver a `PlanTree` leaf gets from `create_fft_plan` (leaves are powers of two or primes) -/
def fftLeaf [Atan2 α] (lit : Lits α) (n : Nat) (x : Vec α) : Vec α :=
  if isSmall n then smallC lit n x
  else if isprime n then fftPrime lit n x
  else pow2fft n x

/-- `FactorFFTPlan::solve` -/
def fftFactor [Atan2 α] (lit : Lits α) (n : Nat) (x : Vec α) : Vec α :=
  facfft (fftLeaf lit) (mk n (twiddle n)) n (mkPlan 32 n) x

/-! ## plan selection (`create_fft_plan`, `create_rfft_plan`) and the free functions -/

/-- `fft(const arr_cmplx&)` / `FftPlan(n)(x)` for `x.size() = n ≥ 1` -/
def fftC [Atan2 α] (lit : Lits α) (n : Nat) (x : Vec α) : Vec α :=
  if isSmall n then smallC lit n x
  else if isprime n then fftPrime lit n x
  else if ispow2 n then pow2fft n x
  else fftFactor lit n x

/-- `RealFftPlan::solve` (`n` even): `fwd` = complex plan of size `n/2`, `w` = `expj(-2 pi arange(n/2) / n)` -/
def rfftPacked (fwd : Vec α → Vec α) (n : Nat) (w : Vec α) (x : Array α) : Vec α :=
  let n2 := n / 2
  let half : α := Fn.ofNat 1 / Fn.ofNat 2
  let Z := fwd (mk n2 (fun i => Cx.mulr ⟨rdR x (2 * i), rdR x (2 * i + 1)⟩ half))
  let lower := mk n2 (fun i =>
    let Zc := Cx.conj (rd Z (if i = 0 then 0 else n2 - i))
    let Xe := rd Z i + Zc
    let Xo := (Zc - rd Z i) * rd w i
    ⟨Xe.re - Xo.im, Xe.im + Xo.re⟩)
  mk n (fun k =>
    if k < n2 then rd lower k
    else if k = n2 then
      let Xe := rd Z 0 + Cx.conj (rd Z 0)
      let Xo := Cx.conj (rd Z 0) - rd Z 0
      ofReal (Xe.re + Xo.im)
    else ⟨(rd lower (n - k)).re, -(rd lower (n - k)).im⟩)

/-- `fft(const arr_real&)` / `rfft` / `FftPlanR(n)(x)` for `x.size() = n ≥ 1` -/
def fftR [Atan2 α] (lit : Lits α) (n : Nat) (x : Array α) : Vec α :=
  if isSmall n then smallR lit n x
  else if isprime n then fftPrime lit n (complexify x)
  else if n % 2 = 0 then rfftPacked (fftC lit (n / 2)) n (mk (n / 2) (twiddle n)) x
  else fftFactor lit n (complexify x)

/-- `zeropad(x, n')` / `x.slice(0, n')` -/
def padTrunc (n' : Nat) (x : Vec α) : Vec α :=
  mk n' (fun i => if i < x.size then rd x i else zero)

/-- `fft(const arr_cmplx& x, int n')` -/
def fftCN [Atan2 α] (lit : Lits α) (n' : Nat) (x : Vec α) : Vec α :=
  if n' = x.size then fftC lit x.size x else fftC lit n' (padTrunc n' x)

/-- the real counterpart of `padTrunc` -/
def padTruncR (n' : Nat) (x : Array α) : Array α :=
  Array.ofFn (n := n') (fun i => if i.val < x.size then rdR x i.val else Fn.ofNat 0)

/-- `fft(const arr_real& x, int n')` / `rfft(x, n')` -/
def fftRN [Atan2 α] (lit : Lits α) (n' : Nat) (x : Array α) : Vec α :=
  if n' = x.size then fftR lit x.size x else fftR lit n' (padTruncR n' x)

end Fft
end Dsp
