import DspVerif.Gen.SmallFft
import DspVerif.Model.Lru
/-!
# The forward transform family (`lib/fft/*.{h,cpp}`, `lib/fft/czt.cpp`)

Every algorithm is written as an *index map* `Nat → Cx α` (the value the code leaves at an index),
generic in the scalar.  `mat n f` materialises the first `n` values of a map into an `Array`
(one evaluation per cell) and reads them back; it is the identity below `n` (`mat_apply` in
`Lib/C01Fft.lean`), so the theorems of `Props/C01.lean` are about exactly the functions the driver
runs at `Float`; the in-place loops of the C++ code vs. these index maps is what the correspondence run covers.

* small kernels 2/4/8 (complex and real input) and 3: the REGENERATED `Gen.fft2 …` (`Gen/SmallFft.lean`)
* `coeffs`, `bitrevTable`, `pow2fft`            — `lib/fft/pow2-fft.cpp`
* `Plan`, `mkPlan`, `facfft`                    — `lib/fft/fact-fft.cpp`
* `dftSlow`, `fftPrime`                         — `lib/fft/primes-fft.h`
* `czt`                                         — `lib/fft/czt.cpp` (+ `IfftPlan::solve` of `ifft.cpp`)
* `rfftPacked`                                  — `lib/fft/real-fft.h`
* `fftC`, `fftR`, `fftCN`, `fftRN`              — plan selection and pad/truncate of `lib/fft/fft.cpp`
-/
namespace Dsp

/-- `std::atan2` (used by `angle`), not part of `Fn` -/
class Atan2 (α : Type) where
  atan2 : α → α → α

instance : Atan2 Float := ⟨Float.atan2⟩

namespace Fft
open Dsp.Primes Dsp.Lru

variable {α : Type} [Add α] [Sub α] [Mul α] [Div α] [Neg α] [LT α] [LE α] [Fn α]
  [DecidableRel (· < · : α → α → Prop)] [DecidableRel (· ≤ · : α → α → Prop)]

/-- the floating literals of the small kernels (`Gen.fft8_c0`, `Gen.rfft8_c0`, `Gen.dft3_c0` at `Float`) -/
structure Lits (α : Type) where
  c8  : α
  c8r : α
  d3  : α

def zero : Cx α := ⟨Fn.ofNat 0, Fn.ofNat 0⟩

/-- materialise `f 0 … f (n-1)` (each evaluated once) and read back; `zero` outside -/
def mat (n : Nat) (f : Nat → Cx α) : Nat → Cx α :=
  let a := Array.ofFn (n := n) (fun i => f i.val)
  fun i => a.getD i zero

/-- materialise an `R × C` matrix row by row (`f r` evaluated once per row) -/
def mat2 (R C : Nat) (f : Nat → Nat → Cx α) : Nat → Nat → Cx α :=
  let a := Array.ofFn (n := R) (fun r => let g := f r.val; Array.ofFn (n := C) (fun c => g c.val))
  fun r c => (a.getD r #[]).getD c zero

/-- a real value as `cmplx_t` (`complex(x)`, `y[0] = x[0]`) -/
def ofReal (v : α) : Cx α := ⟨v, Fn.ofNat 0⟩

/-- `expj(t)` -/
def expj (t : α) : Cx α := ⟨Fn.cos t, Fn.sin t⟩

/-- entry `i` of `expj(-2 * pi * arange(·) / n)` -/
def twiddle (n i : Nat) : Cx α := expj ((Fn.ofInt (-2) * Fn.pi) * Fn.ofNat i / Fn.ofNat n)

/-! ## power-of-two plan -/

/-- `_gen_bitrev_table` (the loops as written; half table, already doubled) -/
def bitrevTable (n : Nat) : Array Nat :=
  let s := nextpow2 n
  let res0 : Array Nat := Array.replicate (n / 2) 0
  let st := (List.range (s - 1)).foldl (fun (st : Array Nat × Nat) _ =>
    let h := st.2
    let res := (List.range h).foldl (fun (r : Array Nat) k =>
      let r := r.setIfInBounds k (2 * r.getD k 0)
      r.setIfInBounds (k + h) (r.getD k 0 + 1)) st.1
    (res, 2 * h)) (res0, 1)
  st.1.map (fun v => 2 * v)

/-- `cos(2 * pi * i / n)` as the table loop computes it -/
def cosTab (n i : Nat) : α := Fn.cos (Fn.ofNat 2 * Fn.pi * Fn.ofNat i / Fn.ofNat n)

/-- cell `k` of `_gen_coeffs_table(n)` (`4 ∣ n`): which loop iteration wrote its `re`, which its `im` -/
def coeffs (n k : Nat) : Cx α :=
  let n4 := n / 4
  let n2 := n / 2
  let n3 := 3 * n / 4
  if k = 0 then ⟨Fn.ofInt 1, Fn.ofInt 0⟩
  else if k = n4 then ⟨Fn.ofInt 0, Fn.ofInt (-1)⟩
  else if k = n2 then ⟨Fn.ofInt (-1), Fn.ofInt 0⟩
  else if k = n3 then ⟨Fn.ofInt 0, Fn.ofInt 1⟩
  else if k < n4 then ⟨cosTab n k, -(cosTab n (n4 - k))⟩
  else if k < n2 then ⟨-(cosTab n (n2 - k)), -(cosTab n (k - n4))⟩
  else if k < n3 then ⟨-(cosTab n (k - n2)), cosTab n (n3 - k)⟩
  else ⟨cosTab n (n - k), cosTab n (k - n3)⟩

/-- `_bitreverse` -/
def bitreverse (n : Nat) (br : Array Nat) (x : Nat → Cx α) : Nat → Cx α :=
  let n2 := n / 2
  fun idx => if idx < n2 then x (br.getD idx 0) else x (br.getD (idx - n2) 0 + 1)

/-- value left at `idx` by one cascade with `h` butterflies per cluster and table step `m` -/
def stage (h m : Nat) (cf y : Nat → Cx α) : Nat → Cx α :=
  fun idx =>
    let pos := idx % (2 * h)
    if pos < h then y idx + cf (pos * m) * y (idx + h)
    else y (idx - h) - cf ((pos - h) * m) * y idx

/-- the first `s` cascades -/
def stages (n : Nat) (cf : Nat → Cx α) : Nat → (Nat → Cx α) → (Nat → Cx α)
  | 0, y => y
  | s + 1, y => mat n (stage (2 ^ s) (n / 2 ^ (s + 1)) cf (stages n cf s y))

/-- `Pow2FftPlan::_fft` (`n = 2^l`, `4 ∣ n`) -/
def pow2fft (n : Nat) (x : Nat → Cx α) : Nat → Cx α :=
  let cf := mat n (coeffs n)
  stages n cf (nextpow2 n) (mat n (bitreverse n (bitrevTable n) x))

/-- `SmallFftPow2C::solve` -/
def smallC (lit : Lits α) (n : Nat) (x : Nat → Cx α) : Nat → Cx α :=
  if n = 1 then fun k => if k = 0 then x 0 else zero
  else if n = 2 then mat 2 (Gen.fft2 x)
  else if n = 4 then mat 4 (Gen.fft4 x)
  else mat 8 (Gen.fft8 lit.c8 x)

/-- `SmallFftPow2R::solve` -/
def smallR (lit : Lits α) (n : Nat) (x : Nat → α) : Nat → Cx α :=
  if n = 1 then fun k => if k = 0 then ofReal (x 0) else zero
  else if n = 2 then mat 2 (Gen.rfft2 x)
  else if n = 4 then mat 4 (Gen.rfft4 x)
  else mat 8 (Gen.rfft8 lit.c8r x)

def isSmall (n : Nat) : Bool := n == 1 || n == 2 || n == 4 || n == 8

/-- `create_fft_plan(n)` for a power of two -/
def fftPow2 (lit : Lits α) (n : Nat) (x : Nat → Cx α) : Nat → Cx α :=
  if isSmall n then smallC lit n x else pow2fft n x

/-! ## chirp-z (Bluestein) -/

/-- `IfftPlan::solve` on top of a forward solver of size `n` -/
def ifftWith (fwd : (Nat → Cx α) → Nat → Cx α) (n : Nat) (x : Nat → Cx α) : Nat → Cx α :=
  let m : α := Fn.ofNat 1 / Fn.ofNat n
  let y := fwd (mat n (fun i => Cx.conj (Cx.mulr (x i) m)))
  fun i => Cx.conj (y i)

/-- `angle(v)` -/
def angle [Atan2 α] (v : Cx α) : α := Atan2.atan2 v.im v.re

/-- `abs(v)` -/
def cabs (v : Cx α) : α := Fn.sqrt (v.re * v.re + v.im * v.im)

/-- entry `j` of `power(a, -arange(n))` -/
def powNeg [Atan2 α] (a : Cx α) (j : Nat) : Cx α :=
  let e : α := -(Fn.ofNat j)
  Cx.rmul (Fn.pow (cabs a) e) (expj (angle a * e))

/-- `CztPlanImpl(n, m, w, a)` followed by `solve(x)`; `fwd` = `FftPlan(n2)`, `skipA` = outcome of the
    test `!(abs(a - 1) > eps(a.re))` (evaluated on the doubles by the caller) -/
def czt [Atan2 α] (fwd : Nat → (Nat → Cx α) → Nat → Cx α) (n m : Nat) (w a : Cx α) (skipA : Bool)
    (x : Nat → Cx α) : Nat → Cx α :=
  let wa : α := angle w
  let len := n - 1 + max m n
  let chirp := mat len (fun i =>
    let v : α := Fn.ofInt ((i : Int) + 1 - (n : Int))
    expj (wa * (v * v / Fn.ofNat 2)))
  let n2 := 2 ^ nextpow2 (m + n - 1)
  let cp := mat n (fun j => if skipA then chirp (n - 1 + j) else chirp (n - 1 + j) * powNeg a j)
  let ich := fwd n2 (mat n2 (fun i => if i < m + n - 1 then (⟨Fn.ofNat 1, Fn.ofNat 0⟩ : Cx α) / chirp i else zero))
  let xp := fwd n2 (mat n2 (fun i => if i < n then x i * cp i else zero))
  let y := ifftWith (fwd n2) n2 (mat n2 (fun i => xp i * ich i))
  mat m (fun k => y (n - 1 + k) * chirp (n - 1 + k))

/-! ## prime lengths -/

/-- the inner loop of `_dft_slow` for bin `k ≥ 1` after `i` iterations: accumulator and running index `iw` -/
def dftSlowLoop (n k : Nat) (x tw : Nat → Cx α) : Nat → Cx α × Nat
  | 0 => (zero, 0)
  | i + 1 =>
    let st := dftSlowLoop n k x tw i
    let iw := st.2 + k
    (st.1 + x i * tw st.2, if iw < n then iw else iw - n)

/-- `y[0] += x[i]` -/
def sumLoop (x : Nat → Cx α) : Nat → Cx α
  | 0 => zero
  | i + 1 => sumLoop x i + x i

/-- `_dft_slow` -/
def dftSlow (n : Nat) (tw x : Nat → Cx α) : Nat → Cx α :=
  fun k => if k = 0 then sumLoop x n else (dftSlowLoop n k x tw n).1

/-- `PrimesFftC::solve` (`n` prime, `n ≥ 3`) -/
def fftPrime [Atan2 α] (lit : Lits α) (n : Nat) (x : Nat → Cx α) : Nat → Cx α :=
  if n = 3 then mat 3 (Gen.dft3 lit.d3 x)
  else if n ≤ Gen.maxDftSize then mat n (dftSlow n (mat n (twiddle n)) x)
  else czt (fftPow2 lit) n n (expj (Fn.ofInt (-2) * Fn.pi / Fn.ofNat n)) ⟨Fn.ofNat 1, Fn.ofNat 0⟩ true x

/-! ## general Cooley–Tukey over a factor tree -/

/-- `PlanTree`: a leaf owns a solver from `create_fft_plan`, a node splits `n = P·Q` -/
inductive Plan where
  | leaf (n : Nat)
  | node (P Q : Nat) (p q : Plan)
deriving Repr

def Plan.size : Plan → Nat
  | .leaf n => n
  | .node P Q _ _ => P * Q

/-- `PlanTree(n)` -/
def mkPlan : Nat → Nat → Plan
  | 0, n => .leaf n
  | fuel + 1, n =>
    if ispow2 n then .leaf n
    else
      let fac := treeFactors n
      if fac.length == 1 then .leaf n
      else
        let P := splitP n fac
        .node P (n / P) (mkPlan fuel P) (mkPlan fuel (n / P))

/-- `_facfft`: transpose, inner transforms of size `P`, twiddles `tw[q·p·decim]` (first row and column skipped),
    transpose, outer transforms of size `Q`, transpose — as the value left at index `k = s·P + p` -/
def facfft (leaf : Nat → (Nat → Cx α) → Nat → Cx α) (tw : Nat → Cx α) (headN : Nat) :
    Plan → (Nat → Cx α) → Nat → Cx α
  | .leaf n, x => leaf n x
  | .node P Q p q, x =>
    let decim := headN / (P * Q)
    let inner := mat2 Q P (fun j => facfft leaf tw headN p (fun i => x (i * Q + j)))
    let outer := mat2 P Q (fun pp => facfft leaf tw headN q (fun j =>
      if 1 ≤ pp ∧ 1 ≤ j then inner j pp * tw (j * pp * decim) else inner j pp))
    fun k => outer (k % P) (k / P)

/-- the solver a `PlanTree` leaf gets from `create_fft_plan` (leaves are powers of two or primes) -/
def fftLeaf [Atan2 α] (lit : Lits α) (n : Nat) (x : Nat → Cx α) : Nat → Cx α :=
  if isSmall n then smallC lit n x
  else if isprime n then fftPrime lit n x
  else mat n (pow2fft n x)

/-- `FactorFFTPlan::solve` -/
def fftFactor [Atan2 α] (lit : Lits α) (n : Nat) (x : Nat → Cx α) : Nat → Cx α :=
  facfft (fftLeaf lit) (mat n (twiddle n)) n (mkPlan 32 n) x

/-! ## plan selection (`create_fft_plan`, `create_rfft_plan`) and the free functions -/

/-- `fft(const arr_cmplx&)` / `FftPlan(n)(x)` for `x.size() = n ≥ 1` -/
def fftC [Atan2 α] (lit : Lits α) (n : Nat) (x : Nat → Cx α) : Nat → Cx α :=
  if isSmall n then smallC lit n x
  else if isprime n then fftPrime lit n x
  else if ispow2 n then mat n (pow2fft n x)
  else fftFactor lit n x

/-- `RealFftPlan::solve` (`n` even): `fwd` = complex plan of size `n/2` -/
def rfftPacked (fwd : (Nat → Cx α) → Nat → Cx α) (n : Nat) (w : Nat → Cx α) (x : Nat → α) : Nat → Cx α :=
  let n2 := n / 2
  let half : α := Fn.ofNat 1 / Fn.ofNat 2
  let Z := fwd (mat n2 (fun i => Cx.mulr ⟨x (2 * i), x (2 * i + 1)⟩ half))
  let lower := mat n2 (fun i =>
    let Zc := Cx.conj (Z (if i = 0 then 0 else n2 - i))
    let Xe := Z i + Zc
    let Xo := (Zc - Z i) * w i
    ⟨Xe.re - Xo.im, Xe.im + Xo.re⟩)
  fun k =>
    if k < n2 then lower k
    else if k = n2 then
      let Xe := Z 0 + Cx.conj (Z 0)
      let Xo := Cx.conj (Z 0) - Z 0
      ofReal (Xe.re + Xo.im)
    else ⟨(lower (n - k)).re, -(lower (n - k)).im⟩

/-- `fft(const arr_real&)` / `rfft` / `FftPlanR(n)(x)` for `x.size() = n ≥ 1` -/
def fftR [Atan2 α] (lit : Lits α) (n : Nat) (x : Nat → α) : Nat → Cx α :=
  if isSmall n then smallR lit n x
  else if isprime n then fftPrime lit n (fun i => ofReal (x i))
  else if n % 2 = 0 then mat n (rfftPacked (fftC lit (n / 2)) n (mat (n / 2) (twiddle n)) x)
  else fftFactor lit n (fun i => ofReal (x i))

/-- zero-pad / truncate a length-`len` signal to `n'` samples -/
def padTrunc (len n' : Nat) (x : Nat → Cx α) : Nat → Cx α :=
  fun i => if i < len ∧ i < n' then x i else zero

/-- `fft(const arr_cmplx& x, int n')` with `x.size() = len` -/
def fftCN [Atan2 α] (lit : Lits α) (len n' : Nat) (x : Nat → Cx α) : Nat → Cx α :=
  if n' = len then fftC lit len x
  else fftC lit n' (mat n' (padTrunc len n' x))

/-- `fft(const arr_real& x, int n')` / `rfft(x, n')` -/
def fftRN [Atan2 α] (lit : Lits α) (len n' : Nat) (x : Nat → α) : Nat → Cx α :=
  if n' = len then fftR lit len x
  else
    let a := Array.ofFn (n := n') (fun i => if i.val < len then x i.val else Fn.ofNat 0)
    fftR lit n' (fun i => a.getD i (Fn.ofNat 0))

/-- read an input array as an index map -/
def ofArray (a : Array (Cx α)) : Nat → Cx α := fun i => a.getD i zero

/-- the first `n` values as an array (API result) -/
def toArray (n : Nat) (f : Nat → Cx α) : Array (Cx α) := Array.ofFn (n := n) (fun i => f i.val)

end Fft
end Dsp
