import DspVerif.Gen.Cmplx
import DspVerif.Gen.Dynamics
/-!
# Elementary, reduction and shape functions of the math toolbox (core only — no Mathlib)

Hand-written executable models of `lib/math.cpp`, `include/dsplib/math.h`, `lib/utils.cpp`,
`include/dsplib/utils.h` as they are in /repo now.

* **shape / index functions** are generic in the element type `β` (no arithmetic on the elements):
  `arange` (integer overload: count and values), `linspace`, `repelem`, `flip`, `upsample`,
  `downsample`, `zeropad`, `delayseq`, `cumsum`, `real/imag/complex/conj`.
  Output arrays are `Array.ofFn` over index expressions of the inputs.
* **value functions** are generic in the scalar `α` (`Fn α`): the FORMULA the code evaluates, in
  the operation order of the C++ source; run at `Float` by the driver, reasoned about at `ℝ`
  by `Props/C17`.
* the dB conversions `mag2db`, `db2mag`, `pow2db`, `db2pow` and `abs2(real_t)` are NOT hand-copied
  here: the driver (`Driver/H17`) and the theorems (`Props/C17`) use the machine-generated
  `Gen.mag2db` / `Gen.db2mag` / `Gen.pow2db` / `Gen.db2pow` / `Gen.abs2r` of `Gen/Dynamics.lean`
  (regenerated from the C++ AST of `lib/math.cpp`, `include/dsplib/math.h` on every check run).

IEEE behaviour made explicit:
* `angle` is `std::atan2(im, re)`.  `Fn` has no `atan2`; the model is the standard case split on the
  signs of `re`, `im` with `Fn.atan` and `Fn.pi` (glibc's `atan2` is TRUSTED to implement this case
  split).  The sign of a zero is observed as `1 / x < 0` (`-∞` for `-0.0`); at `ℝ`, `1 / 0 = 0`
  so the test is `x < 0` there.
* integer `arange` computes its count as `(int) max(0.0, ceil((stop - start) / double(step)))`;
  for `int` arguments the double quotient cannot round across an integer (a non-integral `a / b`
  is at least `1/|b|` away from the next integer, `|a/b| * |b| < 2^33`), so the model computes the
  ceiling exactly in `Int`.
-/
namespace Dsp.MathFns

/-- libm operations used by `math.cpp` that `Fn` lacks -/
class FnX (α : Type) where
  log2 : α → α

instance : FnX Float := ⟨Float.log2⟩

/-! ## shape / index functions -/
section Shape
variable {β : Type}

/-- `⌈a / b⌉` for `b ≠ 0` (`Int` `/` is Euclidean: floor for `b > 0`, ceiling for `b < 0`) -/
def ceilDiv (a b : Int) : Int := if b < 0 then a / b else -((-a) / b)

/-- `(int) std::max(0.0, std::ceil((stop - start) / double(step)))` -/
def arangeCount (start stop step : Int) : Nat := (ceilDiv (stop - start) step).toNat

/-- `arange(int start, int stop, int step)`: the loop `r[i] = start; start += step` -/
def arangeInt (start stop step : Int) : Except String (Array Int) :=
  if step = 0 then .error "arange step cannot be zero"
  else .ok (Array.ofFn (n := arangeCount start stop step) fun i => start + (i.val : Int) * step)

/-- `repelem(x, n)`, `n ≥ 0` -/
def repelem (x : Array β) (n : Nat) : Array β :=
  if n = 0 then #[]
  else if n = 1 then x
  else Array.ofFn (n := x.size * n) fun k =>
    x[k.val / n]'(Nat.div_lt_of_lt_mul (Nat.mul_comm x.size n ▸ k.isLt))

/-- `flip(x)` (`std::reverse`) -/
def flip (x : Array β) : Array β :=
  Array.ofFn (n := x.size) fun i => x[x.size - 1 - i.val]'(by have := i.isLt; omega)

/-- `_upsample(arr, n, phase)`; `zero` is the value-initialised element -/
def upsample (zero : β) (x : Array β) (n phase : Int) : Except String (Array β) :=
  if ¬ (n > 0) then .error "upsample factor must be greater 0"
  else if ¬ (phase < n ∧ phase ≥ 0) then .error "phase must be [0, N-1]"
  else if n = 1 then .ok x
  else .ok (Array.ofFn (n := x.size * n.toNat) fun k =>
    if k.val % n.toNat = phase.toNat then x.getD (k.val / n.toNat) zero else zero)

/-- `_downsample(arr, n, phase)`: `nr = (size - phase - 1) / n + 1` in C `int` arithmetic (truncation),
`r[i] = arr[phase + i n]` while `phase + i n < size` (other cells keep the initial zero) -/
def downsample (zero : β) (x : Array β) (n phase : Int) : Except String (Array β) :=
  if ¬ (n > 0) then .error "downsample factor must be greater 0"
  else if ¬ (phase < n ∧ phase ≥ 0) then .error "phase must be [0, N-1]"
  else if n = 1 then .ok x
  else
    let nr := Int.tdiv ((x.size : Int) - phase - 1) n + 1
    .ok (Array.ofFn (n := nr.toNat) fun i => x.getD (phase.toNat + i.val * n.toNat) zero)

/-- `zeropad(x, n)` -/
def zeropad (zero : β) (x : Array β) (n : Int) : Except String (Array β) :=
  if (x.size : Int) > n then .error "padding size error"
  else if (x.size : Int) = n then .ok x
  else .ok (x ++ Array.replicate (n.toNat - x.size) zero)

/-- `delayseq(data, delay)` -/
def delayseq (zero : β) (x : Array β) (d : Int) : Array β :=
  if d = 0 then x
  else if d.natAbs ≥ x.size then Array.replicate x.size zero
  else Array.ofFn (n := x.size) fun i =>
    if d > 0 then (if i.val < d.natAbs then zero else x.getD (i.val - d.natAbs) zero)
    else (if i.val < x.size - d.natAbs then x.getD (i.val + d.natAbs) zero else zero)

/-- running sums of the forward loop `r[i] += r[i-1]` -/
def scanFwd [Add β] : β → List β → List β
  | _, [] => []
  | acc, y :: ys => (y + acc) :: scanFwd (y + acc) ys

/-- `_cumsum(x, false)` -/
def cumsumFwd [Add β] : List β → List β
  | [] => []
  | y :: ys => y :: scanFwd y ys

/-- `_cumsum(x, true)`: `r[i] += r[i+1]` from the back -/
def cumsumRev [Add β] : List β → List β
  | [] => []
  | y :: ys =>
    match cumsumRev ys with
    | [] => [y]
    | r :: rs => (y + r) :: r :: rs

def cumsum [Add β] (x : Array β) (reverse : Bool) : Array β :=
  if reverse then (cumsumRev x.toList).toArray else (cumsumFwd x.toList).toArray

/-- `real(arr_cmplx)` -/
def realArr (z : Array (Cx β)) : Array β := z.map (·.re)

/-- `imag(arr_cmplx)` -/
def imagArr (z : Array (Cx β)) : Array β := z.map (·.im)

/-- `complex(re, im)` -/
def complexArr (re im : Array β) : Except String (Array (Cx β)) :=
  if re.size ≠ im.size then .error "arrays sizes must be equal"
  else .ok ((re.zip im).map fun p => ⟨p.1, p.2⟩)

end Shape

/-! ## value functions -/
/-- `log2(real_t)` = `std::log2` -/
def log2 {α : Type} [FnX α] (x : α) : α := FnX.log2 x

section Value
variable {α : Type} [Add α] [Sub α] [Mul α] [Div α] [Neg α] [LT α] [LE α] [Fn α]
  [DecidableRel (· < · : α → α → Prop)] [DecidableRel (· ≤ · : α → α → Prop)]

/-- fractional `arange(start, stop, step)`: the count `std::round((stop - start) / double(step))`, as a scalar -/
def arangeFCount (start stop step : α) : α := Fn.round ((stop - start) / step)

/-- fractional `arange`: `r[i] = start + i * step`, `i < n` -/
def arangeF (start step : α) (n : Nat) : Array α :=
  Array.ofFn (n := n) fun i => start + Fn.ofNat i.val * step

/-- `linspace(x1, x2, n)` -/
def linspace (x1 x2 : α) (n : Nat) : Except String (Array α) :=
  if n = 0 then .error "n must be greater or equal 1"
  else if n = 1 then .ok #[x2]
  else if n = 2 then .ok #[x1, x2]
  else
    let step := (x2 - x1) / Fn.ofNat (n - 1)
    .ok (Array.ofFn (n := n) fun i => x1 + Fn.ofNat i.val * step)

def czero : Cx α := ⟨Fn.ofNat 0, Fn.ofNat 0⟩

/-- IEEE sign bit of a finite value, observed as the code's libm observes it (`1 / -0.0 = -∞`) -/
def signNeg (x : α) : Bool := decide (x < Fn.ofNat 0) || decide (Fn.ofNat 1 / x < Fn.ofNat 0)

/-- `abs(cmplx_t)`: `std::sqrt(re*re + im*im)` -/
def cabs (z : Cx α) : α := Fn.sqrt (z.re * z.re + z.im * z.im)

/-- `angle(cmplx_t)` = `std::atan2(im, re)` as the case split of C11 F.10.1.4 -/
def angle (z : Cx α) : α :=
  if Fn.ofNat 0 < z.re then Fn.atan (z.im / z.re)
  else if z.re < Fn.ofNat 0 then
    (if signNeg z.im then Fn.atan (z.im / z.re) - Fn.pi else Fn.atan (z.im / z.re) + Fn.pi)
  else if Fn.ofNat 0 < z.im then Fn.pi / Fn.ofNat 2
  else if z.im < Fn.ofNat 0 then -(Fn.pi / Fn.ofNat 2)
  else if signNeg z.re then (if signNeg z.im then -Fn.pi else Fn.pi)
  else z.im

/-- `exp(cmplx_t)` -/
def cexp (z : Cx α) : Cx α := ⟨Fn.exp z.re * Fn.cos z.im, Fn.exp z.re * Fn.sin z.im⟩

/-- `expj(real_t)` -/
def expj (x : α) : Cx α := ⟨Fn.cos x, Fn.sin x⟩

/-- `tanh(arr_cmplx)` calls `std::tanh(std::complex)` (glibc `ctanh`, trusted); the model is the
closed form `(tanh a + i tan b) / (1 + i tanh a tan b)` -/
def ctanh (z : Cx α) : Cx α :=
  let t := Fn.tanh z.re
  let s := Fn.sin z.im / Fn.cos z.im
  (Cx.mk t s) / (Cx.mk (Fn.ofNat 1) (t * s))

/-- `round(cmplx_t)` -/
def cround (z : Cx α) : Cx α := ⟨Fn.round z.re, Fn.round z.im⟩

/-- `power(real_t, real_t)` = `std::pow` -/
def rpow (x n : α) : α := Fn.pow x n

/-- `power(cmplx_t, real_t)`: polar form `power(abs x, n) * expj(angle x * n)` -/
def cpow (x : Cx α) (n : α) : Cx α := Cx.rmul (rpow (cabs x) n) (expj (angle x * n))

/-- `_power(const T&, int)` at `T = real_t` -/
def rpowi (x : α) (n : Int) : α :=
  if n = 2 then x * x
  else if n = -1 then Fn.ofNat 1 / x
  else if n = 0 then Fn.ofNat 1
  else if n = 1 then x
  else rpow x (Fn.ofInt n)

/-- `_power(const T&, int)` at `T = cmplx_t` -/
def cpowi (x : Cx α) (n : Int) : Cx α :=
  if n = 2 then x * x
  else if n = -1 then Cx.rdiv (Fn.ofNat 1) x
  else if n = 0 then ⟨Fn.ofNat 1, Fn.ofNat 0⟩
  else if n = 1 then x
  else cpow x (Fn.ofInt n)

/-- `_power(const base_array<T>&, int)` -/
def rpowiArr (x : Array α) (n : Int) : Array α :=
  if n = 0 then x.map (fun _ => Fn.ofNat 1) else if n = 1 then x else x.map (fun v => rpowi v n)

def cpowiArr (x : Array (Cx α)) (n : Int) : Array (Cx α) :=
  if n = 0 then x.map (fun _ => ⟨Fn.ofNat 1, Fn.ofNat 0⟩) else if n = 1 then x else x.map (fun v => cpowi v n)

-- `pow2db`, `db2pow`, `mag2db`, `db2mag`, `abs2(real_t)`: see `Gen/Dynamics.lean` (generated; no hand copy)
def deg2rad (x : α) : α := x / Fn.ofNat 180 * Fn.pi
def rad2deg (x : α) : α := x / Fn.pi * Fn.ofNat 180

/-- `sum(arr_real)`: `std::accumulate` from `0` -/
def sum (x : Array α) : α := x.foldl (fun acc v => acc + v) (Fn.ofNat 0)

def csum (x : Array (Cx α)) : Cx α := x.foldl (fun acc v => acc + v) czero

/-- `dot(arr_real, arr_real)` -/
def dot (x y : Array α) : Except String α :=
  if x.size ≠ y.size then .error "arrays sizes must be equal"
  else .ok ((x.zip y).foldl (fun acc p => acc + p.1 * p.2) (Fn.ofNat 0))

/-- `dot(arr_cmplx, arr_cmplx)` (no conjugation) -/
def cdot (x y : Array (Cx α)) : Except String (Cx α) :=
  if x.size ≠ y.size then .error "arrays sizes must be equal"
  else .ok ((x.zip y).foldl (fun acc p => acc + p.1 * p.2) czero)

def mean (x : Array α) : α := sum x / Fn.ofNat x.size
def cmean (x : Array (Cx α)) : Cx α := Cx.divr (csum x) (Fn.ofNat x.size)

/-- `rms(arr_real)`: `sqrt(Σ x² / n)` -/
def rms (x : Array α) : α := Fn.sqrt (x.foldl (fun acc v => acc + v * v) (Fn.ofNat 0) / Fn.ofNat x.size)

/-- `rms(arr_cmplx)`: `sum += re*re; sum += im*im` -/
def crms (x : Array (Cx α)) : α :=
  Fn.sqrt (x.foldl (fun acc v => (acc + v.re * v.re) + v.im * v.im) (Fn.ofNat 0) / Fn.ofNat x.size)

/-- `stddev(arr_real)`: `rms(arr - mean) * sqrt(n / (n - 1))` -/
def stddev (x : Array α) : α :=
  let m := mean x
  rms (x.map (fun v => v - m)) * Fn.sqrt (Fn.ofNat x.size / Fn.ofInt ((x.size : Int) - 1))

def cstddev (x : Array (Cx α)) : α :=
  let m := cmean x
  crms (x.map (fun v => v - m)) * Fn.sqrt (Fn.ofNat x.size / Fn.ofInt ((x.size : Int) - 1))

/-- `norm(x, p)` on the array of magnitudes `a = abs(x)` (for `arr_real` and `arr_cmplx` alike,
except `p = 2`, which squares the elements themselves — see `norm`, `cnorm`) -/
def normP (a : Array α) (p : Int) : α :=
  rpow (sum (rpowiArr a p)) (Fn.ofNat 1 / Fn.ofInt p)

def norm (x : Array α) (p : Int) : α :=
  if p = 1 then sum (x.map Fn.abs)
  else if p = 2 then Fn.sqrt (sum (rpowiArr x 2))
  else normP (x.map Fn.abs) p

def cnorm (x : Array (Cx α)) (p : Int) : α :=
  if p = 1 then sum (x.map cabs)
  else if p = 2 then Fn.sqrt (sum (x.map Cx.abs2))
  else normP (x.map cabs) p

end Value

/-! ## order statistics (generic in the element type and its strict order) -/
section Order
variable {β : Type}

/-- index scan: `better new best` replaces the incumbent -/
def argBest (better : β → β → Bool) : List β → Nat → Nat → β → Nat
  | [], _, bi, _ => bi
  | y :: ys, i, bi, bv => if better y bv then argBest better ys (i + 1) i y else argBest better ys (i + 1) bi bv

/-- `std::max_element`: FIRST largest -/
def argmax (lt : β → β → Bool) : List β → Nat
  | [] => 0
  | y :: ys => argBest (fun new best => lt best new) ys 1 0 y

/-- `std::min_element`: FIRST smallest -/
def argmin (lt : β → β → Bool) : List β → Nat
  | [] => 0
  | y :: ys => argBest (fun new best => lt new best) ys 1 0 y

/-- the maximum of `std::minmax_element`: LAST largest -/
def argmaxLast (lt : β → β → Bool) : List β → Nat
  | [] => 0
  | y :: ys => argBest (fun new best => !(lt new best)) ys 1 0 y

end Order

section OrderValue
variable {α : Type} [Add α] [Sub α] [Mul α] [Div α] [Neg α] [LT α] [LE α] [Fn α]
  [DecidableRel (· < · : α → α → Prop)] [DecidableRel (· ≤ · : α → α → Prop)]

def rlt (a b : α) : Bool := decide (a < b)
/-- `cmplx_t::operator<`: compares `abs2` -/
def clt (a b : Cx α) : Bool := decide (Cx.abs2 a < Cx.abs2 b)

def maxR (x : Array α) : α := x.getD (argmax rlt x.toList) (Fn.ofNat 0)
def minR (x : Array α) : α := x.getD (argmin rlt x.toList) (Fn.ofNat 0)
def peak2peakR (x : Array α) : α := x.getD (argmaxLast rlt x.toList) (Fn.ofNat 0) - x.getD (argmin rlt x.toList) (Fn.ofNat 0)
def maxC (x : Array (Cx α)) : Cx α := x.getD (argmax clt x.toList) czero
def minC (x : Array (Cx α)) : Cx α := x.getD (argmin clt x.toList) czero
def peak2peakC (x : Array (Cx α)) : Cx α := x.getD (argmaxLast clt x.toList) czero - x.getD (argmin clt x.toList) czero

end OrderValue

end Dsp.MathFns
