/-!
# Guard / index logic of the public entry points (property C05) — hand-written, core Lean only

For every modelled entry point a function from the call's SIZES and INDICES to
`Outcome = ok shape | throws | ub reason`:

* `require c`      — a `DSPLIB_ASSERT` / `DSPLIB_THROW` condition of the current code (`throws`);
* `alloc n`        — `std::vector<T>(n)` / `arr_real(n)` with an `int` count: a negative count is converted to a huge
                     `size_t` and libstdc++ throws `std::length_error` (`throws`);
* `access w i n`   — a raw subscript / pointer access `buf[i]` into a buffer of `n` elements that is NOT protected by
                     a check of its own: outside `0 ≤ i < n` the outcome is `ub w`;
* `accessRange`    — a counted loop whose index expression is monotone touches the two extreme positions;
* `slice`          — the `base_slice_t` constructor (hand transcription of `include/dsplib/slice.h`) together with the
                     positions `i1 + j·m`, `j < nc`, its iterator visits.

`int` is modelled as unbounded `Int`, C `/` and `%` as `Int.tdiv` / `Int.tmod`.  What is transcribed is the guard and index
arithmetic of `/repo` as it is now; the tie to the code is the correspondence run of `harness/c05.cpp`
(`C guard <entry> <sizes…> | ok <shape…> | ERR`) under ASan+UBSan.
-/
namespace Dsp
namespace Guards

inductive Stop where
  | throws
  | ub (reason : String)
deriving Repr, DecidableEq

abbrev G := Except Stop

inductive Outcome where
  | ok (shape : List Int)
  | throws
  | ub (reason : String)
deriving Repr, DecidableEq

def outcome : G (List Int) → Outcome
  | .ok s => .ok s
  | .error .throws => .throws
  | .error (.ub r) => .ub r

/-- `DSPLIB_ASSERT(c, …)` / `if (!c) DSPLIB_THROW(…)` -/
def require (c : Prop) [Decidable c] : G Unit := if c then .ok () else .error .throws

/-- `std::vector<T>(n)` with an `int` count -/
def alloc (n : Int) : G Unit := if 0 ≤ n then .ok () else .error .throws

/-- unchecked `buf[i]`, `buf` of `n` elements -/
def access (what : String) (i n : Int) : G Unit := if 0 ≤ i ∧ i < n then .ok () else .error (.ub what)

/-- a counted loop touching `buf[lo] … buf[hi]` (monotone index expression); empty when `hi < lo` -/
def accessRange (what : String) (lo hi n : Int) : G Unit :=
  if hi < lo then .ok () else do access what lo n; access what hi n

/-- `for (k = 0; k < n; ++k) f k` -/
def loop : Nat → (Nat → G Unit) → G Unit
  | 0, _ => .ok ()
  | k + 1, f => do loop k f; f k

def loopI (n : Int) (f : Int → G Unit) : G Unit := loop n.toNat (fun k => f (k : Int))

/-- the result of `nextpow2(m)` for `m ≥ 0`: least `p` with `m ≤ 2^p` (the loop itself is property C15) -/
def np2 (m : Nat) : Nat := if m ≤ 1 then 0 else Nat.log2 (m - 1) + 1

/-- `1 << nextpow2(m)` -/
def pow2ceil (m : Int) : Int := ((2 ^ np2 m.toNat : Nat) : Int)

/-! ## slices (`include/dsplib/slice.h`) -/

structure Sl where
  i1 : Int
  nc : Int
  m : Int
  n : Int
deriving Repr, DecidableEq

/-- `base_slice_t(n, i1, i2, m)` followed by one pass of its iterator (`begin()`, `nc` steps of `m`) -/
def slice (n i1 i2 m : Int) : G Sl := do
  require (n ≠ 0)
  require (m ≠ 0)
  let a := if i1 < 0 then n + i1 else i1
  let b := if i2 < 0 then n + i2 else i2
  let d : Int := (b - a).natAbs
  let tm : Int := m.natAbs
  let nc := if Int.tmod d tm ≠ 0 then Int.tdiv d tm + 1 else Int.tdiv d tm
  require (¬ (a < 0 ∨ a ≥ n))
  require (¬ (b < 0 ∨ b > n))
  require (¬ (m < 0 ∧ a < b))
  require (¬ (m > 0 ∧ a > b))
  require (¬ (nc > n))
  if nc > 0 then do
    access "slice iterator: first element" a n
    access "slice iterator: last element" (a + (nc - 1) * m) n
  pure ⟨a, nc, m, n⟩

/-- `x.slice(a, b)` read into an array (`base_array(const slice&)`), result length -/
def sliceLen (n i1 i2 : Int) : G Int := do let s ← slice n i1 i2 1; pure s.nc

/-- `dst_slice = array of lr elements`: `*this = rhs.slice(0, rhs.size())`, then the count check -/
def assignArr (d : Sl) (lr : Int) : G Unit := do
  let s ← slice lr 0 lr 1
  require (d.nc = s.nc)

/-- `dst_slice = {braced list of lr values}`: count check, then `std::copy` of `lr` elements through the iterator -/
def assignList (d : Sl) (lr : Int) : G Unit := do
  require (d.nc = lr)
  if lr > 0 then do
    access "slice = {list}: first written element" d.i1 d.n
    access "slice = {list}: last written element" (d.i1 + (lr - 1) * d.m) d.n

/-- element-wise `a ∘= b`, `a ∘ b`, comparisons, `dot`, `complex(re, im)`, `power(x, n)`: size assert, then `rhs[i]`, `i < la` -/
def sameLen (la lb : Int) : G Unit := do
  require (la = lb)
  accessRange "rhs[i]" 0 (la - 1) lb

/-! ## array.h -/

def binop (la lb : Int) : G (List Int) := do sameLen la lb; pure [la]
def cmp (la lb : Int) : G (List Int) := do sameLen la lb; pure [la]
def samelen (la lb : Int) : G (List Int) := do sameLen la lb; pure []

/-- `a[std::vector<int>]`: every entry is asserted into `[0, n)` before it is used -/
def idxlist (n : Int) (es : List Int) : G (List Int) := do
  es.forM (fun e => do require (e ≥ 0 ∧ e < n); access "_vec[idxs[i]]" e n)
  pure [(es.length : Int)]

/-- `a[std::vector<bool>]` -/
def mask (n : Int) (bits : List Int) : G (List Int) := do
  require ((bits.length : Int) = n)
  accessRange "_vec[i]" 0 ((bits.length : Int) - 1) n
  pure [((bits.filter (· ≠ 0)).length : Int)]

def sliceRead (n i1 i2 m : Int) : G (List Int) := do let s ← slice n i1 i2 m; pure [s.nc]
def sasgArr (n i1 i2 m lr : Int) : G (List Int) := do let d ← slice n i1 i2 m; assignArr d lr; pure [n]
def sasgList (n i1 i2 m lr : Int) : G (List Int) := do let d ← slice n i1 i2 m; assignList d lr; pure [n]
def sasgSlice (n d1 d2 dm n2 s1 s2 sm : Int) : G (List Int) := do
  let s ← slice n2 s1 s2 sm
  let d ← slice n d1 d2 dm
  require (d.nc = s.nc)
  pure [n]

/-! ## fft.h, ifft.h, czt.h: a plan of length `n ≥ 1` applied to `len` samples -/

/-- `FftPlan(n)`, `FftPlanR(n)`, `IfftPlan(n)`: every kernel (small / pow2 / prime / composite / packed real) asserts
`len == n` and then reads `x[0 … n-1]` -/
def plan (n len : Int) : G (List Int) := do
  require (len = n)
  accessRange "x[i], i < plan length" 0 (n - 1) len
  pure [n]

/-- `fft(x)`, `ifft(x)`: a plan of the input's own length; length 0 has no plan (`PlanTree` asserts `n ≥ 2`) -/
def fft1 (lx : Int) : G (List Int) := do require (lx ≥ 1); plan lx lx

/-- `fft(x, n)`, `n ≥ 1` -/
def fftn (lx n : Int) : G (List Int) :=
  if n = lx then fft1 lx
  else if n > lx then plan n n
  else do let l ← sliceLen lx 0 n; fft1 l

/-- `IfftPlanR(n)` (`FftPlan(n/2)`, then the evenness assert) and `solve(x)`, `x` of `lx` elements -/
def irfft (lx n : Int) : G (List Int) := do
  require (Int.tdiv n 2 ≥ 1)
  require (Int.tmod n 2 = 0)
  require (lx = n ∨ lx = Int.tdiv n 2 + 1)
  accessRange "x[i], x[n/2 - i], i < n/2" 0 (Int.tdiv n 2) lx
  accessRange "r[2i + 1], i < n/2" 0 (2 * (Int.tdiv n 2 - 1) + 1) n
  let _ ← plan (Int.tdiv n 2) (Int.tdiv n 2)
  pure [n]

/-- `CztPlan(n, m, w, a).solve(x)`, `n, m ≥ 1` -/
def czt (n m len : Int) : G (List Int) := do
  require (len = n)
  let n2 := pow2ceil (m + n - 1)
  accessRange "xp[i] = x[i] * _cp[i], i < n" 0 (n - 1) n2
  let _ ← plan n2 n2
  let l ← sliceLen n2 (n - 1) (m + n - 1)
  sameLen l m
  pure [l]

/-! ## fir.h -/

/-- `FirFilter::conv(x, h)` -/
def firconv (lx lh : Int) : G (List Int) := do
  let nr := lx - lh + 1
  alloc nr
  if nr > 0 ∧ lh > 0 then do
    accessRange "x[i + k]" 0 (nr - 1 + lh - 1) lx
    accessRange "h[nh - k - 1]" 0 (lh - 1) lh
  pure [nr]

/-- `FirFilter(h).process(x)`, `lh ≥ 1` (the delay line always holds `lh - 1` samples; a one-tap filter hands
over no history: `if (nd > 0)`, /repo cf8331c) -/
def fir (lh lx : Int) : G (List Int) := do
  let nd := lh - 1
  let nx := nd + lx
  let r ← firconv nx lh
  if nd > 0 then do
    let _ ← slice nx (nx - nd) nx 1
    pure r
  else pure r

/-- one `FftFilter::process` call per frame; `nx` = fill level `_nx` of the block buffer carried across calls -/
def fftfiltGo (lh fftLen blk : Int) (nx : Int) : List Int → G (List Int)
  | [] => pure []
  | lx :: rest => do
    let blocks := Int.tdiv (lx + nx) blk
    let nr := blocks * blk
    alloc nr
    if lx > 0 then access "_x[_nx]" (blk - 1) fftLen
    if blocks > 0 then do
      accessRange "pr[i], i < _n, every block" 0 (nr - 1) nr
      accessRange "pr[i] += _olap[i], i < _m - 1" 0 (lh - 2) blk
      accessRange "_olap[i]" 0 (lh - 2) (lh - 1)
      accessRange "ry[i + _n]" blk (lh - 2 + blk) fftLen
    let out ← fftfiltGo lh fftLen blk (Int.tmod (lx + nx) blk) rest
    pure (nr :: out)

/-- `FftFilter(h)` followed by `process` over a stream of frames -/
def fftfilt (lh : Int) (frames : List Int) : G (List Int) := do
  let fftLen := pow2ceil (2 * lh)
  alloc (lh - 1)
  fftfiltGo lh fftLen (fftLen - lh + 1) 0 frames

/-! ## resample.h -/

/-- length of one polyphase branch: `ceil(lh / m)` -/
def sublen (lh m : Int) : Int := if Int.tmod lh m = 0 then Int.tdiv lh m else Int.tdiv lh m + 1

/-- `IResampler::polyphase(h, m)`, `m ≥ 1` -/
def polyphase (lh m : Int) : G (List Int) := do
  let nh := if Int.tmod lh m = 0 then lh else (Int.tdiv lh m + 1) * m
  require (¬ (lh > nh))
  let n := Int.tdiv nh m
  alloc n
  if n > 0 then accessRange "h[ih], ih = (m + i) % m + k·m" 0 (m - 1 + (n - 1) * m) nh
  access "r[0] (sublen_ = h_[0].size())" 0 m
  pure [m, n]

/-- `FIRDecimator(d, h).process(x)` -/
def decim (d lh lx : Int) : G (List Int) := do
  let _ ← polyphase lh d
  let n := sublen lh d
  let nd := d * (n - 1)
  alloc nd
  require (Int.tmod lx d = 0)
  accessRange "d_ = x[nx …]" lx (lx + nd - 1) (nd + lx)
  let ny := Int.tdiv lx d
  if ny > 0 ∧ n > 0 then accessRange "px[idx], idx = k + j·decim" 0 ((ny - 1) * d + (d - 1) + (n - 1) * d) (nd + lx)
  pure [ny]

/-- `FIRInterpolator(L, h).process(x)` -/
def interp (L lh lx : Int) : G (List Int) := do
  let _ ← polyphase lh L
  let n := sublen lh L
  let nd := n - 1
  alloc nd
  accessRange "d_ = px[nx …]" lx (lx + nd - 1) (nd + lx)
  if lx > 0 ∧ n > 0 then accessRange "px[i + j]" 0 (lx - 1 + n - 1) (nd + lx)
  pure [lx * L]

/-- inner loop of the branch-table construction: `for k < L: st += 1; if st == M { push i; st = 0 }` -/
def xidxsInner (M i : Nat) : Nat → Nat → List Nat → Nat × List Nat
  | 0, st, acc => (st, acc)
  | k + 1, st, acc => if st + 1 = M then xidxsInner M i k 0 (acc ++ [i]) else xidxsInner M i k (st + 1) acc

def xidxsOuter (L M : Nat) : Nat → Nat → Nat → List Nat → List Nat
  | 0, _, _, acc => acc
  | r + 1, i, st, acc => let p := xidxsInner M i L st acc; xidxsOuter L M r (i + 1) p.1 p.2

/-- the branch table of `FIRRateConverter`: input offset of each processed branch -/
def xidxs (L M : Nat) : List Nat := xidxsOuter L M M 0 0 []

/-- `FIRRateConverter(L, M, h).process(x)` -/
def rateconv (L M lh lx : Int) : G (List Int) := do
  let _ ← polyphase lh L
  let n := sublen lh L
  let nd := n - 1
  alloc nd
  let xs := xidxs L.toNat M.toNat
  require (Int.tmod lx M = 0)
  accessRange "d_ = x[nx …]" lx (lx + nd - 1) (nd + lx)
  let np := Int.tdiv lx M
  if np > 0 then do
    access "h_[k], xidxs_[k], k < interp" (L - 1) (xs.length : Int)
    if n > 0 then
      xs.forM (fun (off : Nat) => accessRange "px[j], px = x + i·decim + xidxs_[k]" 0 ((np - 1) * M + (off : Int) + (n - 1)) (nd + lx))
  pure [np * L]

def nextSize (size q : Int) : Int := if Int.tmod size q = 0 then size else (Int.tdiv size q + 1) * q

/-- `resample(x, p, q, h)` with a caller-supplied filter, `p, q, lh ≥ 1` -/
def resampleDelay (p q lh : Int) : Int :=
  if p = 1 then Int.tdiv (sublen lh q) 2
  else if q = 1 then Int.tdiv (sublen lh p * p) 2
  else
    let c := Int.tdiv (sublen lh p * p) 2 + 1 - q
    if c ≤ 0 then 0 else Int.tdiv (2 * c + q) (2 * q)

def resample (lx p0 q0 lh : Int) : G (List Int) :=
  let g : Int := Nat.gcd p0.toNat q0.toNat
  let p := Int.tdiv p0 g
  let q := Int.tdiv q0 g
  if p = q then pure [lx] else if lx = 0 then pure [0] else do
    let nx := nextSize lx q
    let ny := Int.tdiv nx q * p
    let dl := resampleDelay p q lh
    let mdl := Int.tdiv (dl * q + p - 1) p
    let nn := nextSize (nx + mdl) q
    require (¬ (lx > nn))
    let out ← if p = 1 then decim q lh nn else if q = 1 then interp p lh nn else rateconv p q lh nn
    let l ← sliceLen (out.headD 0) dl (dl + ny)
    pure [l]

/-! ## math.h, utils.h -/

def zeropad (lx n : Int) : G (List Int) := do require (¬ (lx > n)); pure [n]

def repelem (lx n : Int) : G (List Int) :=
  if n = 0 then pure [0] else if n = 1 then pure [lx] else do
    alloc (lx * n)
    if lx > 0 then accessRange "fill r[i·n … i·n + n)" 0 ((lx - 1) * n + n - 1) (lx * n)
    pure [lx * n]

def delayseq (n d : Int) : G (List Int) :=
  if d = 0 then pure [n] else if (d.natAbs : Int) ≥ n then pure [n] else do
    let a : Int := d.natAbs
    let (dst, src) ← if d > 0 then do let x ← slice n d n 1; let y ← slice n 0 (n - d) 1; pure (x, y)
                     else do let x ← slice n 0 (n - a) 1; let y ← slice n a n 1; pure (x, y)
    require (dst.nc = src.nc)
    pure [n]

/-- `_downsample(arr, n, phase)` -/
def downsample (lx n ph : Int) : G (List Int) := do
  require (n > 0)
  require (ph < n ∧ ph ≥ 0)
  if n = 1 then pure [lx] else do
    let nr := Int.tdiv (lx - ph - 1) n + 1
    alloc nr
    -- `for (i = 0, k = phase; k < size; ++i, k += n) r[i] = arr[k]`: number of iterations
    let iters := if lx > ph then (lx - ph - 1) / n + 1 else 0
    accessRange "r[i]" 0 (iters - 1) nr
    accessRange "arr[k]" ph (ph + (iters - 1) * n) lx
    pure [nr]

/-- `_upsample(arr, n, phase)` -/
def upsample (lx n ph : Int) : G (List Int) := do
  require (n > 0)
  require (ph < n ∧ ph ≥ 0)
  if n = 1 then pure [lx] else do
    let nr := lx * n
    -- `for (i = 0, k = phase; k < r.size(); ++i, k += n) r[k] = arr[i]`
    let iters := if nr > ph then (nr - ph - 1) / n + 1 else 0
    accessRange "arr[i]" 0 (iters - 1) lx
    accessRange "r[k]" ph (ph + (iters - 1) * n) nr
    pure [nr]

def finddelay (l1 l2 : Int) : G (List Int) := do
  let nfft := pow2ceil (max l1 l2)
  require (¬ (l1 > nfft))
  require (¬ (l2 > nfft))
  let _ ← fft1 nfft
  pure []

def linspace (n : Int) : G (List Int) := do require (n ≥ 1); pure [n]

def arange (a b s : Int) : G (List Int) := do
  require (s ≠ 0)
  -- ceil((b - a) / s) clipped at 0
  let q := (b - a) / s
  let c := if (b - a) % s = 0 then q else q + 1
  let c' := if s > 0 then c else (if (a - b) % (-s) = 0 then (a - b) / (-s) else (a - b) / (-s) + 1)
  pure [max 0 c']

def toComplex (n : Int) : G (List Int) := do require (Int.tmod n 2 = 0); pure [Int.tdiv n 2]

/-! ## window.h -/

/-- `_sym_window(n, sym, winfn)`; `taper` = the raw writes of the half-window generator into its `m` cells -/
def symWindow (n : Int) (sym : Bool) (taper : Int → Int → G Unit) : G (List Int) := do
  alloc n
  let nl : Int := if sym then 0 else 1
  let np := if sym then n else n + 1
  if Int.tmod np 2 = 0 then do
    let m := Int.tdiv np 2
    alloc m
    taper np m
    let d ← slice n 0 m 1
    assignArr d m
    let d2 ← slice n m n 1
    let s2 ← slice m 0 (m - nl) 1
    require (d2.nc = s2.nc)
  else do
    let m := Int.tdiv (np + 1) 2
    alloc m
    taper np m
    let d ← slice n 0 m 1
    assignArr d m
    let d2 ← slice n m n 1
    let s2 ← slice m 1 (m - nl) 1
    require (d2.nc = s2.nc)
  pure [n]

def window (n : Int) (sym : Bool) : G (List Int) := symWindow n sym (fun _ _ => pure ())

/-- `tukey(n, r)`, `r = rn / rd` (`rd > 0`): for `0 < r < 1` the generator writes `w[i]`, `i < floor(r/2·(n-1)) + 1` -/
def tukey (n rn rd : Int) : G (List Int) :=
  symWindow n true (fun np m =>
    if rn ≤ 0 ∨ rn ≥ rd then pure ()
    else accessRange "w[i], i < tl" 0 ((rn * (np - 1)) / (2 * rd)) m)

/-- `kaiser(nw, beta)` -/
def kaiser (nw : Int) : G (List Int) := do
  let odd := Int.tmod nw 2
  let n := Int.tdiv (nw + 1) 2
  alloc n
  let s ← slice n odd n 1
  pure [s.nc + n]

/-! ## medfilt.h -/

def medianfilter (n lx : Int) : G (List Int) := do
  require (¬ (n < 3))
  if lx > 0 then do
    access "_d[_i], _i = (_i + 1) % _n" (n - 1) n
    access "_update_sort: x[pos], pos ≤ nx - 1" (n - 1) n
    access "_s[_n / 2]" (Int.tdiv n 2) n
  pure [lx]

def medfilt (lx n : Int) : G (List Int) := do
  let n1 := Int.tdiv n 2
  let n2 := if Int.tmod n 2 = 1 then Int.tdiv n 2 else Int.tdiv n 2 - 1
  let r ← medianfilter n (n1 + lx + n2)
  let l ← sliceLen (r.headD 0) (n - 1) (r.headD 0)
  pure [l]

/-! ## stft.h -/

def iscola (lw nov : Int) : G (List Int) := do
  let hop := lw - nov
  require (hop > 0)
  let nsum := Int.tdiv lw hop
  loopI nsum (fun i => do
    let l ← sliceLen lw (i * hop) ((i + 1) * hop)
    sameLen hop l)
  let rm := Int.tmod lw hop
  if rm ≠ 0 then do
    let d ← slice hop 0 rm 1
    let l1 ← sliceLen hop 0 rm
    let l2 ← sliceLen lw (lw - rm) lw
    sameLen l1 l2
    assignArr d l1
  access "median(cola_chk): r[n / 2]" (Int.tdiv hop 2) hop
  pure []

/-- `_convert_range_stft` on an `nfft`-point spectrum; result length. range: 0 onesided, 1 centered, 2 twosided -/
def convertRangeStft (nfft range : Int) : G Int :=
  if range = 0 then sliceLen nfft 0 (Int.tdiv nfft 2 + 1)
  else if range = 1 then do
    let a ← sliceLen nfft (Int.tdiv nfft 2 + 1) nfft
    let b ← sliceLen nfft 0 (Int.tdiv nfft 2 + 1)
    pure (a + b)
  else pure nfft

/-- `stft(x, win, overlap, nfft, range)`, `nfft ≥ 1` -/
def stft (lx lw ov nfft range : Int) : G (List Int) := do
  let hop := lw - ov
  require (hop > 0)
  let nseg := Int.tdiv (lx - ov) hop
  alloc nfft
  let fl ← if nseg > 0 then do
      loopI nseg (fun i => do
        let t1 := i * hop
        let l ← sliceLen lx t1 (t1 + lw)
        sameLen l lw
        let d ← slice nfft 0 lw 1
        assignArr d l)
      let _ ← plan nfft nfft
      convertRangeStft nfft range
    else pure 0
  pure [max nseg 0, fl]

/-- `_convert_range_istft` on a frame of `lf` bins; result length -/
def convertRangeIstft (lf nfft range : Int) : G Int :=
  if range = 0 then do
    require (lf = Int.tdiv nfft 2 + 1)
    let c ← sliceLen lf 1 (Int.tdiv nfft 2)
    pure (lf + c)
  else if range = 1 then do
    require (lf = nfft)
    let a ← sliceLen lf (Int.tdiv nfft 2 - 1) nfft
    let b ← sliceLen lf 0 (Int.tdiv nfft 2 - 1)
    pure (a + b)
  else do
    require (lf = nfft)
    pure lf

/-- `istft(frames, win, overlap, nfft, range, method)`: `nseg` frames of `lf` bins each -/
def istft (nseg lf lw ov nfft range : Int) : G (List Int) := do
  let hop := lw - ov
  let xlen := lw + (nseg - 1) * hop
  alloc xlen
  require (Int.tdiv nfft 2 ≥ 1)
  require (Int.tmod nfft 2 = 0)
  loopI nseg (fun i => do
    let tot ← convertRangeIstft lf nfft range
    let r ← irfft tot nfft
    let ly ← sliceLen (r.headD 0) 0 lw
    let t1 := i * hop
    let sx ← sliceLen xlen t1 (t1 + lw)
    sameLen ly lw
    sameLen sx ly
    let d ← slice xlen t1 (t1 + lw) 1
    assignArr d sx
    let sn ← sliceLen xlen t1 (t1 + lw)
    sameLen sn lw
    let dn ← slice xlen t1 (t1 + lw) 1
    assignArr dn sn)
  accessRange "norm_val[i], i < xlen" 0 (xlen - 1) xlen
  pure [xlen]

/-! ## spectrum.h -/

def isPow2 (n : Int) : Prop := pow2ceil n = n
instance (n : Int) : Decidable (isPow2 n) := by unfold isPow2; infer_instance

/-- `welch(x, win, noverlap, nfft)`; `cplx = 1` for the two-sided (complex input) form; `nfft ≥ 1` -/
def welch (lx lw nov nfft cplx : Int) : G (List Int) := do
  require (isPow2 nfft)
  require (nov < lw)
  let stride := lw - nov
  let nseg := Int.tdiv (lx - lw) stride + 1
  alloc nfft
  alloc lw
  loopI nseg (fun i => do
    let t1 := i * stride
    let s ← slice lx t1 (t1 + lw) 1
    let d ← slice lw 0 lw 1
    require (d.nc = s.nc)
    sameLen lw lw
    let f ← fftn lw nfft
    sameLen nfft (f.headD 0))
  if cplx = 0 then do
    let l ← sliceLen nfft 0 (Int.tdiv nfft 2 + 1)
    access "pxx[0], pxx[-1]" 0 l
    pure [l]
  else pure [nfft]

def mscohere (lx ly lw nov nfft : Int) : G (List Int) := do
  require (lx = ly)
  require (isPow2 nfft)
  require (nov < lw)
  let stride := lw - nov
  let nseg := Int.tdiv (lx - lw) stride + 1
  let nb := Int.tdiv nfft 2 + 1
  alloc nb
  alloc lw
  loopI nseg (fun i => do
    let t1 := i * stride
    let s ← slice lx t1 (t1 + lw) 1
    let d ← slice lw 0 lw 1
    require (d.nc = s.nc)
    sameLen lw lw
    let f ← fftn lw nfft
    let l ← sliceLen (f.headD 0) 0 nb
    sameLen nb l)
  pure [nb]

/-! ## lms.h, rls.h, delay.h, xcorr.h, hilbert.h -/

/-- `LmsFilter(len).process(x, d)`, `len ≥ 1` -/
def lms (len lx ld : Int) : G (List Int) := do
  require (lx = ld)
  alloc lx
  let nt := len - 1 + lx
  let _ ← slice nt lx (lx + len - 1) 1
  if lx > 0 then do
    accessRange "tu[i + k]" 0 (len - 1 + lx - 1) nt
    accessRange "_w[i]" 0 (len - 1) len
    accessRange "d[k]" 0 (lx - 1) ld
  pure [lx]

/-- `RlsFilter(n).process(x, d)`, `n ≥ 1` -/
def rls (n lx ld : Int) : G (List Int) := do
  require (lx = ld)
  alloc lx
  if lx > 0 then do
    accessRange "_p[i·n + k]" 0 ((n - 1) * n + (n - 1)) (n * n)
    accessRange "memmove(_u + 1, _u, n - 1)" 1 (n - 1) n
    accessRange "d[idx]" 0 (lx - 1) ld
  pure [lx]

/-- `Delay(nd).process(x)`, `nd ≥ 1` -/
def delay (nd lx : Int) : G (List Int) := do
  let nt := nd + lx
  let s ← slice nt (nt - nd) nt 1
  let d ← slice nd 0 nd 1
  require (d.nc = s.nc)
  let l ← sliceLen nt 0 lx
  pure [l]

/-- `xcorr(x1, x2)` (`nextpow2` of a non-positive count is 0) -/
def xcorr (l1 l2 : Int) : G (List Int) := do
  let m := pow2ceil (l1 + l2 - 1)
  alloc (m - l1)
  alloc (m - l2)
  let _ ← fft1 m
  let l ← sliceLen m (m - l1 - l2 + 1) m
  pure [l]

/-- `hilbert(x)` -/
def hilbert (n : Int) : G (List Int) := do
  let _ ← fft1 n
  access "r[0]" 0 n
  if Int.tmod n 2 = 0 then access "r[n / 2]" (Int.tdiv n 2) n
  let _ ← slice n (Int.tdiv n 2 + 1) n 1
  pure [n]

/-! ## all modelled calls -/

inductive Call where
  | binop (la lb : Int) | cmp (la lb : Int) | samelen (la lb : Int)
  | idxlist (n : Int) (es : List Int) | mask (n : Int) (bits : List Int)
  | slice (n i1 i2 m : Int) | sasgArr (n i1 i2 m lr : Int) | sasgList (n i1 i2 m lr : Int)
  | sasgSlice (n d1 d2 dm n2 s1 s2 sm : Int)
  | plan (n len : Int) | fft (lx : Int) | fftn (lx n : Int) | irfft (lx n : Int) | czt (n m len : Int)
  | firconv (lx lh : Int) | fir (lh lx : Int) | fftfilt (lh : Int) (frames : List Int)
  | polyphase (lh m : Int) | decim (d lh lx : Int) | interp (L lh lx : Int) | rateconv (L M lh lx : Int)
  | resample (lx p q lh : Int)
  | zeropad (lx n : Int) | repelem (lx n : Int) | delayseq (n d : Int) | downsample (lx n ph : Int) | upsample (lx n ph : Int)
  | finddelay (l1 l2 : Int) | linspace (n : Int) | arange (a b s : Int) | toComplex (n : Int)
  | window (n : Int) (sym : Bool) | tukey (n rn rd : Int) | kaiser (n : Int)
  | medianfilter (n lx : Int) | medfilt (lx n : Int)
  | iscola (lw nov : Int) | stft (lx lw ov nfft range : Int) | istft (nseg lf lw ov nfft range : Int)
  | welch (lx lw nov nfft cplx : Int) | mscohere (lx ly lw nov nfft : Int)
  | lms (len lx ld : Int) | rls (n lx ld : Int) | delay (nd lx : Int) | xcorr (l1 l2 : Int) | hilbert (n : Int)
deriving Repr

def Call.run : Call → G (List Int)
  | .binop a b => Guards.binop a b | .cmp a b => Guards.cmp a b | .samelen a b => Guards.samelen a b
  | .idxlist n es => Guards.idxlist n es | .mask n bs => Guards.mask n bs
  | .slice n a b m => sliceRead n a b m | .sasgArr n a b m l => Guards.sasgArr n a b m l | .sasgList n a b m l => Guards.sasgList n a b m l
  | .sasgSlice n a b c n2 d e f => Guards.sasgSlice n a b c n2 d e f
  | .plan n l => Guards.plan n l | .fft l => fft1 l | .fftn l n => Guards.fftn l n | .irfft l n => Guards.irfft l n | .czt n m l => Guards.czt n m l
  | .firconv a b => Guards.firconv a b | .fir a b => Guards.fir a b | .fftfilt h fr => Guards.fftfilt h fr
  | .polyphase a b => Guards.polyphase a b | .decim a b c => Guards.decim a b c | .interp a b c => Guards.interp a b c
  | .rateconv a b c d => Guards.rateconv a b c d | .resample a b c d => Guards.resample a b c d
  | .zeropad a b => Guards.zeropad a b | .repelem a b => Guards.repelem a b | .delayseq a b => Guards.delayseq a b
  | .downsample a b c => Guards.downsample a b c | .upsample a b c => Guards.upsample a b c
  | .finddelay a b => Guards.finddelay a b | .linspace n => Guards.linspace n | .arange a b s => Guards.arange a b s | .toComplex n => Guards.toComplex n
  | .window n s => Guards.window n s | .tukey n a b => Guards.tukey n a b | .kaiser n => Guards.kaiser n
  | .medianfilter n l => Guards.medianfilter n l | .medfilt l n => Guards.medfilt l n
  | .iscola a b => Guards.iscola a b | .stft a b c d e => Guards.stft a b c d e | .istft a b c d e f => Guards.istft a b c d e f
  | .welch a b c d e => Guards.welch a b c d e | .mscohere a b c d e => Guards.mscohere a b c d e
  | .lms a b c => Guards.lms a b c | .rls a b c => Guards.rls a b c | .delay a b => Guards.delay a b | .xcorr a b => Guards.xcorr a b
  | .hilbert n => Guards.hilbert n

def Call.outcome (c : Call) : Outcome := Guards.outcome c.run

end Guards
end Dsp
