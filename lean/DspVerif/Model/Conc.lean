/-!
# Model for C09 — concurrent use from several threads (core Lean only)

Four parts.

1. A small shared-memory step semantics: locations, per-thread deterministic programs whose next
   action may depend on everything the thread has read so far, a configuration = memory + one local
   state per thread, an interleaving = a list of thread ids (who moves next).  `run` executes an
   interleaving, `alone` executes one thread by itself, `trace` lists the memory accesses made.
2. The random-number interface (`lib/random.cpp`): ONE ENGINE PER THREAD (`thread_local
   std::mt19937 g_engine{0}`), operations `rng(seed)` and a draw.  `rngRun` executes an interleaved
   list of (thread, operation) events.  The concrete engine `Mt` is mt19937 with libstdc++'s
   `generate_canonical<double,53>` (what `dsplib::rand()` returns), so the driver predicts the drawn
   values of the real library bit-exactly for an enforced interleaving.
3. The FOOTPRINT TABLE of the library as data: every variable of `lib/` and `include/` that outlives
   a call (`stateVars`, with its storage class), the data members and non-const member functions of
   the plan classes, and per API entry point the regions it reads and writes.  The harness re-derives
   the variable / member / method lists from the sources on every run (`C footprint …` cases) and
   the driver prints the lists of this table: a new `mutable` member, static buffer, thread_local,
   plan member or non-const plan method breaks the correspondence.
4. Concrete locations and the footprint of a scenario (who calls what on which object).

`shared_ptr` control blocks are atomic counters and are not modelled; the C++ memory model is trusted.
-/
namespace Dsp.Conc

/-! ## 1. step semantics -/

/-- one atomic action of a thread: read a location and continue with the value, write a location,
or an internal step -/
inductive Step (ℓ υ σ : Type) where
  | load (l : ℓ) (k : υ → σ)
  | store (l : ℓ) (v : υ) (s : σ)
  | tau (s : σ)

/-- a thread program: the next action as a function of the thread's local state (`none` = finished).
Control flow may depend on every value read so far (it is part of the local state). -/
abbrev Prog (ℓ υ σ : Type) := σ → Option (Step ℓ υ σ)

structure Cfg (ℓ υ σ : Type) where
  mem : ℓ → υ
  loc : Nat → σ

/-- function update -/
def upd {α β : Type} [DecidableEq α] (f : α → β) (a : α) (b : β) : α → β := fun x => if x = a then b else f x

variable {ℓ υ σ : Type} [DecidableEq ℓ]

/-- thread `t` performs its next action (a finished thread stutters) -/
def stepThread (P : Nat → Prog ℓ υ σ) (t : Nat) (c : Cfg ℓ υ σ) : Cfg ℓ υ σ :=
  match P t (c.loc t) with
  | none => c
  | some (.load l k) => { c with loc := upd c.loc t (k (c.mem l)) }
  | some (.store l v s) => { mem := upd c.mem l v, loc := upd c.loc t s }
  | some (.tau s) => { c with loc := upd c.loc t s }

/-- execute an interleaving (the list says which thread moves next) -/
def run (P : Nat → Prog ℓ υ σ) : List Nat → Cfg ℓ υ σ → Cfg ℓ υ σ
  | [], c => c
  | t :: s, c => run P s (stepThread P t c)

/-- thread `t` runs `n` steps with nobody else moving: the single-threaded execution -/
def alone (P : Nat → Prog ℓ υ σ) (t n : Nat) (c : Cfg ℓ υ σ) : Cfg ℓ υ σ := run P (List.replicate n t) c

/-- thread `t` has finished -/
def halted (P : Nat → Prog ℓ υ σ) (t : Nat) (c : Cfg ℓ υ σ) : Prop := P t (c.loc t) = none

inductive Access (ℓ : Type) where
  | rd (l : ℓ)
  | wr (l : ℓ)
  deriving DecidableEq

def Access.loc : Access ℓ → ℓ
  | .rd l => l
  | .wr l => l

def Access.isWrite : Access ℓ → Bool
  | .rd _ => false
  | .wr _ => true

def accessOf : Step ℓ υ σ → Option (Access ℓ)
  | .load l _ => some (.rd l)
  | .store l _ _ => some (.wr l)
  | .tau _ => none

/-- the memory accesses performed along an interleaving, tagged with the acting thread -/
def trace (P : Nat → Prog ℓ υ σ) : List Nat → Cfg ℓ υ σ → List (Nat × Access ℓ)
  | [], _ => []
  | t :: s, c =>
    (match (P t (c.loc t)).bind accessOf with
     | some a => [(t, a)]
     | none => []) ++ trace P s (stepThread P t c)

/-- read / write footprints per thread, as predicates on locations -/
structure Footprint (ℓ : Type) where
  R : Nat → ℓ → Prop
  W : Nat → ℓ → Prop

/-- every action a program can ever take lies in the footprint -/
def Footprint.covers (F : Footprint ℓ) (P : Nat → Prog ℓ υ σ) : Prop :=
  ∀ t s, match P t s with
    | some (.load l _) => F.R t l
    | some (.store l _ _) => F.W t l
    | _ => True

/-- nobody reads or writes what another thread writes -/
def Footprint.raceFree (F : Footprint ℓ) : Prop :=
  ∀ t t', t ≠ t' → ∀ l, F.W t' l → ¬ F.R t l ∧ ¬ F.W t l

/-- a data race in a trace: two accesses of different threads to one location, at least one a write
(after the barrier the threads do not synchronise, so every such pair is unordered) -/
def RacyTrace (tr : List (Nat × Access ℓ)) : Prop :=
  ∃ e ∈ tr, ∃ e' ∈ tr, e.1 ≠ e'.1 ∧ e.2.loc = e'.2.loc ∧ (e.2.isWrite = true ∨ e'.2.isWrite = true)

/-! ## 2. random-number state -/

/-- the engine interface used by `lib/random.cpp` -/
structure RngSpec (ε ω : Type) where
  fresh : ε                 -- `g_engine{0}` of a new thread
  seed : Int → ε            -- `g_engine.seed(seed)`
  draw : ε → ω × ε          -- one value from a distribution object created for the call

inductive RngOp where
  | seed (k : Int)
  | draw

/-- the world: one engine per thread -/
abbrev RngWorld (ε : Type) := Nat → ε

/-- execute interleaved events; the result lists every drawn value with the drawing thread -/
def rngRun {ε ω : Type} (S : RngSpec ε ω) : RngWorld ε → List (Nat × RngOp) → List (Nat × ω)
  | _, [] => []
  | w, (t, .seed k) :: r => rngRun S (upd w t (S.seed k)) r
  | w, (t, .draw) :: r => (t, (S.draw (w t)).1) :: rngRun S (upd w t (S.draw (w t)).2) r

/-- mt19937 (std::mt19937) -/
structure Mt where
  st : Array UInt32
  idx : Nat

def Mt.ofSeed (s : UInt32) : Mt := Id.run do
  let mut a : Array UInt32 := Array.mkEmpty 624
  let mut x : UInt32 := s
  a := a.push x
  for i in [1:624] do
    x := (1812433253 : UInt32) * (x ^^^ (x >>> 30)) + i.toUInt32
    a := a.push x
  return ⟨a, 624⟩

def Mt.twist (a0 : Array UInt32) : Array UInt32 := Id.run do
  let mut a := a0
  for i in [0:624] do
    let y := (a[i]! &&& 0x80000000) ||| (a[(i + 1) % 624]! &&& 0x7fffffff)
    let v := a[(i + 397) % 624]! ^^^ (y >>> 1) ^^^ (if y &&& 1 == 1 then 0x9908b0df else 0)
    a := a.set! i v
  return a

def Mt.next (g : Mt) : UInt32 × Mt :=
  let g := if g.idx ≥ 624 then (⟨Mt.twist g.st, 0⟩ : Mt) else g
  let y := g.st[g.idx]!
  let y := y ^^^ (y >>> 11)
  let y := y ^^^ ((y <<< 7) &&& 0x9d2c5680)
  let y := y ^^^ ((y <<< 15) &&& 0xefc60000)
  let y := y ^^^ (y >>> 18)
  (y, ⟨g.st, g.idx + 1⟩)

/-- `std::uniform_real_distribution<double>{0,1}(g)` = libstdc++ `generate_canonical<double,53>`:
two 32-bit draws, `(a + b·2^32) / 2^64` in double, `nextafter(1,0)` if that rounds to 1 -/
def Mt.rand (g : Mt) : Float × Mt :=
  let (a, g) := g.next
  let (b, g) := g.next
  let s := Float.ofNat a.toNat + Float.ofNat b.toNat * 4294967296.0
  let r := s / 18446744073709551616.0
  (if r ≥ 1.0 then Float.ofBits 0x3fefffffffffffff else r, g)

/-- the real library's engine: `rng(int seed)` converts the seed to `uint32` -/
def mtSpec : RngSpec Mt Float where
  fresh := Mt.ofSeed 0
  seed := fun k => Mt.ofSeed (UInt32.ofNat (k % 4294967296).toNat)
  draw := Mt.rand

/-! ## 3. the footprint table -/

inductive Storage where
  | threadLocal      -- one instance per thread
  | sharedConst      -- const / constexpr object with static storage duration: read-only after (thread-safe) initialisation
  | sharedMutable    -- non-const, not thread_local, static storage duration: shared mutable state
  | mutableMember    -- `mutable` data member: writable through a const method
  deriving DecidableEq, Repr

structure StateVar where
  id : String          -- `file:scope:name` as printed by the harness scan
  storage : Storage

/-- every variable of lib/ and include/ with static or thread storage duration, and every `mutable` member -/
def stateVars : List StateVar := [
  ⟨"include/dsplib/indexing.h::end", .sharedConst⟩,
  ⟨"include/dsplib/types.h::inf", .sharedConst⟩,
  ⟨"include/dsplib/types.h::is_complex_v", .sharedConst⟩,
  ⟨"include/dsplib/types.h::is_scalar_v", .sharedConst⟩,
  ⟨"include/dsplib/types.h::is_std_complex_v", .sharedConst⟩,
  ⟨"include/dsplib/types.h::pi", .sharedConst⟩,
  ⟨"lib/fft/fft.cpp::FFT_CACHE_SIZE", .sharedConst⟩,
  ⟨"lib/fft/fft.cpp::VERIF_KEYS_QUERY", .sharedConst⟩,
  ⟨"lib/fft/primes-fft.h::MAX_DFT_SIZE", .sharedConst⟩,
  ⟨"lib/primes.cpp::PRIMES", .sharedConst⟩,
  ⟨"lib/snr.cpp::PERIODOGRAM_SIZE_LIMIT", .sharedConst⟩,
  ⟨"lib/fft/fft.cpp::g_verif_keys", .threadLocal⟩,
  ⟨"lib/fft/fft.cpp:create_fft_plan:cache", .threadLocal⟩,
  ⟨"lib/fft/fft.cpp:create_rfft_plan:cache", .threadLocal⟩,
  ⟨"lib/random.cpp::g_engine", .threadLocal⟩ ]

def varsOf (s : Storage) : List String := (stateVars.filter (fun v => v.storage == s)).map (·.id)

/-- `const_cast`s in the library (file:count) -/
def constCasts : List String := []

inductive MemberRole where
  | config     -- scalar fixed by the constructor
  | table      -- array filled by the constructor, only read afterwards
  | subplan    -- (shared) pointer to another plan object, itself immutable after construction
  deriving DecidableEq, Repr

/-- data members of the plan classes (classes derived from BaseFftPlanC/R, IfftPlan, IfftPlanR, CztPlanImpl, PlanTree) -/
def planMembers : List (String × MemberRole) := [
  ("CztPlan:_d", .subplan), ("CztPlanImpl:_cp", .table), ("CztPlanImpl:_fft2", .subplan), ("CztPlanImpl:_ich", .table),
  ("CztPlanImpl:_ifft2", .subplan), ("CztPlanImpl:_m", .config), ("CztPlanImpl:_n", .config), ("CztPlanImpl:_rp", .table),
  ("FactorFFTPlan:_n", .config), ("FactorFFTPlan:_plan", .subplan), ("FactorFFTPlan:_twiddle", .table),
  ("FactorFFTPlanR:_plan", .subplan), ("FftPlan:_d", .subplan), ("FftPlanR:_d", .subplan), ("IfftPlan:_d", .subplan),
  ("IfftPlanR:_d", .subplan), ("IfftPlanR:_n", .config), ("IfftPlanR:_w", .table),
  ("PlanTree:_n", .config), ("PlanTree:_p", .subplan), ("PlanTree:_q", .subplan), ("PlanTree:_solver", .subplan),
  ("Pow2FftPlan:bitrev_", .table), ("Pow2FftPlan:coeffs_", .table), ("Pow2FftPlan:l_", .config), ("Pow2FftPlan:n_", .config),
  ("PrimesFftC:czt_", .subplan), ("PrimesFftC:n_", .config), ("PrimesFftC:w_", .table), ("PrimesFftR:plan_", .subplan),
  ("RealFftPlan:fft_", .subplan), ("RealFftPlan:n_", .config), ("RealFftPlan:w_", .table),
  ("SmallFftPow2C:n_", .config), ("SmallFftPow2R:n_", .config) ]

/-- non-const, non-static member functions of the plan classes other than constructors / destructors -/
def planNonconstMethods : List String := []

/-- the thread_local variables of the library -/
inductive Tls where
  | cacheC | cacheR | engine | verifKeys
  deriving DecidableEq, Repr

def Tls.id : Tls → String
  | .cacheC => "lib/fft/fft.cpp:create_fft_plan:cache"
  | .cacheR => "lib/fft/fft.cpp:create_rfft_plan:cache"
  | .engine => "lib/random.cpp::g_engine"
  | .verifKeys => "lib/fft/fft.cpp::g_verif_keys"

/-- classes of memory an API call touches -/
inductive Region where
  | callLocal            -- parameters, temporaries and the returned value of this call
  | arg                  -- caller-provided input arrays (only ever read by the library)
  | tls (v : Tls)        -- the calling thread's instance of a thread_local variable
  | frozen               -- constexpr tables and the tables of already constructed plan objects (immutable after construction)
  | self                 -- data members (and exclusively owned buffers) of the object the member function is invoked on
  | shared (id : String) -- a `sharedMutable` / `mutableMember` variable — none on the current tree
  deriving DecidableEq, Repr

inductive Api where
  | fft | ifft | rfft | irfft | czt | xcorr | welch | resample | window
  | rng | rand | randn | randi
  | planCtor        -- constructors of FftPlan / FftPlanR / IfftPlan / IfftPlanR / CztPlan
  | planSolve       -- their const `solve` / `operator()` / `size`
  | filterCtor      -- FftFilter(h)
  | filterProcess   -- FftFilter::process (non-const, streaming state)
  | verifKeys       -- the DSPLIB_VERIF read-only hooks
  deriving DecidableEq, Repr

structure ApiFootprint where
  reads : List Region
  writes : List Region

open Region Tls in
/-- the table: what each entry point reads and writes -/
def footprint : Api → ApiFootprint
  | .fft => ⟨[arg, callLocal, frozen, tls cacheC, tls cacheR], [callLocal, tls cacheC, tls cacheR]⟩
  | .rfft => ⟨[arg, callLocal, frozen, tls cacheC, tls cacheR], [callLocal, tls cacheC, tls cacheR]⟩
  | .ifft => ⟨[arg, callLocal, frozen, tls cacheC], [callLocal, tls cacheC]⟩
  | .irfft => ⟨[arg, callLocal, frozen, tls cacheC], [callLocal, tls cacheC]⟩
  | .czt => ⟨[arg, callLocal, frozen, tls cacheC], [callLocal, tls cacheC]⟩
  | .xcorr => ⟨[arg, callLocal, frozen, tls cacheC], [callLocal, tls cacheC]⟩
  | .welch => ⟨[arg, callLocal, frozen, tls cacheC, tls cacheR], [callLocal, tls cacheC, tls cacheR]⟩
  | .resample => ⟨[arg, callLocal, frozen], [callLocal]⟩
  | .window => ⟨[arg, callLocal, frozen], [callLocal]⟩
  | .rng => ⟨[callLocal], [callLocal, tls engine]⟩
  | .rand => ⟨[callLocal, tls engine], [callLocal, tls engine]⟩
  | .randn => ⟨[callLocal, tls engine], [callLocal, tls engine]⟩
  | .randi => ⟨[callLocal, tls engine], [callLocal, tls engine]⟩
  | .planCtor => ⟨[arg, callLocal, frozen, self, tls cacheC, tls cacheR], [callLocal, self, tls cacheC, tls cacheR]⟩
  | .planSolve => ⟨[arg, callLocal, frozen, self], [callLocal]⟩
  | .filterCtor => ⟨[arg, callLocal, frozen, self, tls cacheC], [callLocal, self, tls cacheC]⟩
  | .filterProcess => ⟨[arg, callLocal, frozen, self, tls cacheC], [callLocal, self, tls cacheC]⟩
  | .verifKeys => ⟨[callLocal, tls cacheC, tls cacheR, tls verifKeys], [callLocal, tls verifKeys]⟩

def allApis : List Api :=
  [.fft, .ifft, .rfft, .irfft, .czt, .xcorr, .welch, .resample, .window, .rng, .rand, .randn, .randi,
   .planCtor, .planSolve, .filterCtor, .filterProcess, .verifKeys]

def touchesSelf (a : Api) : Bool := (footprint a).reads.contains .self || (footprint a).writes.contains .self
def writesSelf (a : Api) : Bool := (footprint a).writes.contains .self

/-! ## 4. concrete locations, scenarios -/

inductive Loc where
  | callLocal (t call cell : Nat)
  | arg (a cell : Nat)
  | tls (t : Nat) (v : Tls) (cell : Nat)
  | obj (o cell : Nat)
  | frozen (cell : Nat)
  | shared (id : String) (cell : Nat)
  deriving DecidableEq, Repr

/-- one API call: which entry point, on which object (relevant only if the entry point touches `self`) -/
structure Call where
  api : Api
  obj : Nat
  deriving DecidableEq, Repr

/-- the locations a region denotes for call number `c` of thread `t` on object `o`.  Inputs (`arg`) are external
arrays or results of earlier calls of the same thread. -/
def regionLocs (t c o : Nat) : Region → Loc → Prop
  | .callLocal, l => ∃ cell, l = .callLocal t c cell
  | .arg, l => (∃ a cell, l = .arg a cell) ∨ (∃ c' cell, l = .callLocal t c' cell)
  | .tls v, l => ∃ cell, l = .tls t v cell
  | .frozen, l => ∃ cell, l = .frozen cell
  | .self, l => ∃ cell, l = .obj o cell
  | .shared id, l => ∃ cell, l = .shared id cell

/-- a scenario: thread `t` (= position in the list) makes these calls in order -/
abbrev Scenario := List (List Call)

/-- the footprint of a scenario according to the table -/
def tableFootprint (S : Scenario) : Footprint Loc where
  R := fun t l => ∃ p, S[t]? = some p ∧ ∃ i c, p[i]? = some c ∧ ∃ r ∈ (footprint c.api).reads, regionLocs t i c.obj r l
  W := fun t l => ∃ p, S[t]? = some p ∧ ∃ i c, p[i]? = some c ∧ ∃ r ∈ (footprint c.api).writes, regionLocs t i c.obj r l

/-- `c'` writes the members of an object that `c` touches -/
def conflictCalls (c c' : Call) : Bool := c.obj == c'.obj && writesSelf c'.api && touchesSelf c.api

/-- the usage discipline of the property: an object used by two threads is used by them only through entry points that
do not write it (const `solve` of plan objects); everything else is invoked on objects of one thread ("distinct objects") -/
def exclusive (S : Scenario) : Bool :=
  S.zipIdx.all fun pt => S.zipIdx.all fun pt' =>
    pt.2 == pt'.2 || pt.1.all fun c => pt'.1.all fun c' => !conflictCalls c c'

/-! ### harness scenarios in table terms (driver) -/

/-- the calls one harness operation makes; `S k` = const solve on shared plan object `k`; thread-private objects get
ids above `1000` derived from the thread index -/
def callsOfOp (t : Nat) (kind : Char) (a : Nat) : List Call :=
  let own (j : Nat) := 1000 + 10 * t + j
  match kind with
  | 'c' => [⟨.fft, 0⟩]
  | 'f' => [⟨.ifft, 0⟩]
  | 'r' => [⟨.rfft, 0⟩]
  | 'i' => [⟨.rfft, 0⟩, ⟨.irfft, 0⟩]
  | 'z' => [⟨.czt, 0⟩]
  | 'x' => [⟨.xcorr, 0⟩]
  | 'w' => [⟨.window, 0⟩, ⟨.welch, 0⟩]
  | 's' => [⟨.resample, 0⟩]
  | 'F' => [⟨.filterCtor, own 1⟩]
  | 'p' => [⟨.filterProcess, own 1⟩]
  | 'P' => [⟨.planCtor, own 2⟩]
  | 'q' => [⟨.planSolve, own 2⟩]
  | 'g' => [⟨.randn, 0⟩]
  | 'u' => [⟨.rand, 0⟩]
  | 'j' => [⟨.randi, 0⟩]
  | 'k' => [⟨.rng, 0⟩]
  | 'S' => [⟨.planSolve, a⟩]
  -- calls that throw: the same entry points (hence the same footprints) as their valid forms — a rejected call touches
  -- nothing outside the footprint of the accepted one
  | 'e' => [⟨.irfft, 0⟩]
  | 'm' => [⟨.irfft, 0⟩]
  | 'T' => [⟨.planSolve, a⟩]
  | 'Q' => [⟨.planSolve, own 2⟩]
  | _ => []

/-! ## 5. the floating-point environment

The rounding mode, the flush-to-zero / denormals-are-zero bits and the exception masks are state of the CALLING THREAD
(MXCSR / x87 control word / FPCR), copied from the creating thread when a thread is created.  Every numeric entry point
reads it (each rounding depends on it).  The table says which entry points WRITE it: none.  (A library that switched a
mode on in one thread — e.g. "once per process" behind a function-local static — makes the same call return different
results in different threads without any data race.)  Tie: the harness reads the environment before and after every
library call in every thread (`C fpenv <kind> <calls> | <calls that changed it>`); the driver answers from this table. -/
def writesFpEnv : Api → Bool
  | _ => false

def fpEnvWriters : List Api := allApis.filter writesFpEnv

/-- entry points behind the call kinds of the harness's environment check (`C` = plan constructors, `K` = the DSPLIB_VERIF key hooks,
the rest as in `callsOfOp`) -/
def apisOfKind (kind : Char) : List Api :=
  match kind with
  | 'C' => [.planCtor]
  | 'K' => [.verifKeys]
  | k => (callsOfOp 0 k 0).map (·.api)

end Dsp.Conc
