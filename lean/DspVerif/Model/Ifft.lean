import DspVerif.Model.Fft
/-!
# Inverse transforms and the short-time transform pair (`lib/fft/ifft.cpp`, `lib/stft.cpp`)

Hand-written executable model, generic in the scalar (run at `Float` by `dspdriver_c02`, reasoned about at `ℝ`
in `Props/C02.lean`).  Every function that needs a forward transform takes it as a parameter
(`fwd n x` = `FftPlan(n).solve(x)`, `rfwd n x` = `FftPlanR(n).solve(x)`); the instances at the bottom plug in
C01's model (`Fft.fftC`, `Fft.fftR`).  Arrays are built as index maps (`mk n f`, `mkR n f`): the value the C++
loops leave at an index.

* `ifftWith`                        — `IfftPlan::solve` / `ifft`            (scale, conj, fft, conj)
* `irfftCoeff`, `irfftWith`          — `_irfft_coeffs`, `IfftPlanR::solve` / `irfft` (both input forms, odd `n` rejected)
* `convertRangeStft/Istft`          — `_convert_range_stft/_istft`
* `iscola`, `stftWith`, `istftWith` — `iscola`, `stft`, `istft`
-/
namespace Dsp
namespace Ifft

variable {α : Type} [Add α] [Sub α] [Mul α] [Div α] [Neg α] [LT α] [LE α] [Fn α]
  [DecidableRel (· < · : α → α → Prop)] [DecidableRel (· ≤ · : α → α → Prop)]

/-- `arr_cmplx` -/
abbrev Vec (α : Type) := Array (Cx α)

def zero : Cx α := ⟨Fn.ofNat 0, Fn.ofNat 0⟩

/-- read cell `i` of a complex array (`zero` outside: the code never reads there) -/
def rd (a : Vec α) (i : Nat) : Cx α := a.getD i zero

/-- the complex array whose cell `i < n` holds `f i` -/
def mk (n : Nat) (f : Nat → Cx α) : Vec α := Array.ofFn (n := n) (fun i => f i.val)

/-- read cell `i` of a real array -/
def rdR (a : Array α) (i : Nat) : α := a.getD i (Fn.ofNat 0)

/-- the real array whose cell `i < n` holds `f i` -/
def mkR (n : Nat) (f : Nat → α) : Array α := Array.ofFn (n := n) (fun i => f i.val)

/-- `eps()` = 2⁻⁵² -/
def eps : α := Fn.ofNat 1 / Fn.ofNat 4503599627370496

/-! ## `ifft` -/

/-- `IfftPlan::solve`: `m = 1 / n; y = x * m; conj; y = fft(y); conj` -/
def ifftCore (fwd : Nat → Vec α → Vec α) (x : Vec α) : Vec α :=
  let n := x.size
  let m : α := Fn.ofNat 1 / Fn.ofNat n
  let y := fwd n (mk n (fun i => Cx.conj (Cx.mulr (rd x i) m)))
  mk n (fun i => Cx.conj (rd y i))

/-- `ifft(x)` (`FftPlan(0)` throws) -/
def ifftWith (fwd : Nat → Vec α → Vec α) (x : Vec α) : Except String (Vec α) :=
  if x.size = 0 then .error "FFT plan size error" else .ok (ifftCore fwd x)

/-! ## `irfft` -/

/-- `cos(2 * pi * i / n)` as the table loops compute it -/
def cosTab (n i : Nat) : α := Fn.cos (Fn.ofNat 2 * Fn.pi * Fn.ofNat i / Fn.ofNat n)
def sinTab (n i : Nat) : α := Fn.sin (Fn.ofNat 2 * Fn.pi * Fn.ofNat i / Fn.ofNat n)

/-- cell `i < n/2` of `_irfft_coeffs(n)` (`n` even): the direct loop when `4 ∤ n`, otherwise which iteration of the
quarter-wave loop wrote the cell's `re` (`res[i].re = v`, `res[n2 - i].re = -v`) and which its `im`
(`res[n4 - i].im = v`, `res[n4 + i].im = v`) -/
def irfftCoeff (n i : Nat) : Cx α :=
  let n4 := n / 4
  let n2 := n / 2
  if n % 4 ≠ 0 then ⟨cosTab n i, sinTab n i⟩
  else if i = 0 then ⟨Fn.ofNat 1, Fn.ofNat 0⟩
  else if i = n4 then ⟨Fn.ofNat 0, Fn.ofNat 1⟩
  else if i < n4 then ⟨cosTab n i, cosTab n (n4 - i)⟩
  else ⟨-(cosTab n (n2 - i)), cosTab n (i - n4)⟩

/-- the vector handed to the half-size forward plan by `IfftPlanR::solve` (only bins `0 … n/2` of `x` are read) -/
def irfftZ (n : Nat) (x : Vec α) : Vec α :=
  let h := n / 2
  let dn : α := Fn.ofNat 1 / Fn.ofNat n
  mk h (fun i =>
    let v := Cx.conj (rd x (h - i))
    let Xe := Cx.mulr (rd x i + v) dn
    let Xo := Cx.mulr (rd x i - v) dn * irfftCoeff n i
    ⟨Xe.re - Xo.im, -Xe.im - Xo.re⟩)

/-- `IfftPlanR::solve` after the size checks: `r[2i] = z[i].re`, `r[2i+1] = -z[i].im` -/
def irfftCore (fwd : Nat → Vec α → Vec α) (n : Nat) (x : Vec α) : Array α :=
  let z := fwd (n / 2) (irfftZ n x)
  mkR n (fun t => if t % 2 = 0 then (rd z (t / 2)).re else -(rd z (t / 2)).im)

/-- `irfft(x, n)` / `IfftPlanR(n)(x)`: `n = 0` fails in `FftPlan(0)`, odd `n` in the constructor's assertion,
an input that has neither `n` nor `n/2 + 1` bins in `solve` -/
def irfftWith (fwd : Nat → Vec α → Vec α) (n : Nat) (x : Vec α) : Except String (Array α) :=
  if n < 2 then .error "FFT plan size error"
  else if n % 2 ≠ 0 then .error "ifft size must be even"
  else if x.size ≠ n ∧ x.size ≠ n / 2 + 1 then .error "input size must be n/2+1 or n"
  else .ok (irfftCore fwd n x)

/-! ## frequency ranges (`StftRange`: 0 centered, 1 twosided, 2 onesided) -/

/-- `_convert_range_stft(x, nfft, range)` for `x.size() = nfft` -/
def convertRangeStft (x : Vec α) (nfft range : Nat) : Vec α :=
  let h := nfft / 2
  if range = 2 then mk (h + 1) (rd x)                                     -- `x.slice(0, nfft/2 + 1)`
  else if range = 0 then                                                  -- `x.slice(h+1, nfft) | x.slice(0, h+1)`
    mk nfft (fun j => if j < nfft - (h + 1) then rd x (h + 1 + j) else rd x (j - (nfft - (h + 1))))
  else x

/-- the size `_convert_range_istft` asserts for a frame of the given range -/
def frameLen (nfft range : Nat) : Nat := if range = 2 then nfft / 2 + 1 else nfft

/-- the array `_convert_range_istft(x, nfft, range)` returns when its size assertion holds (`2 ≤ nfft`) -/
def convertRangeIstftCore (x : Vec α) (nfft range : Nat) : Vec α :=
  let h := nfft / 2
  if range = 2 then                                                       -- `x | flip(conj(x.slice(1, h)))`
    mk (h + 1 + (h - 1)) (fun j => if j < h + 1 then rd x j else Cx.conj (rd x (h - 1 - (j - (h + 1)))))
  else if range = 0 then                                                  -- `x.slice(h-1, nfft) | x.slice(0, h-1)`
    mk nfft (fun j => if j < nfft - (h - 1) then rd x (h - 1 + j) else rd x (j - (nfft - (h - 1))))
  else x

/-- `_convert_range_istft(x, nfft, range)` -/
def convertRangeIstft (x : Vec α) (nfft range : Nat) : Except String (Vec α) :=
  if x.size ≠ frameLen nfft range then .error "Input size must be equal `nfft` (`nfft/2+1` for the `onesided` range)"
  else .ok (convertRangeIstftCore x nfft range)

/-! ## `iscola` -/

def insertSorted (v : α) : List α → List α
  | [] => [v]
  | h :: t => if v < h then v :: h :: t else h :: insertSorted v t

/-- `std::sort` (ascending) -/
def sortAsc (l : List α) : List α := l.foldr insertSorted []

/-- `median(arr)` (non-empty) -/
def median (a : Array α) : α :=
  let r := (sortAsc a.toList).toArray
  let n := r.size
  if n % 2 = 1 then rdR r (n / 2) else (rdR r (n / 2) + rdR r (n / 2 - 1)) / Fn.ofNat 2

/-- `power(w, pw)` for `pw ∈ {1, 2}` -/
def powW (pw : Nat) (v : α) : α := if pw = 1 then v else v * v

/-- `max(arr)` (non-empty) -/
def maxArr (a : Array α) : α := a.foldl (fun acc v => if acc < v then v else acc) (rdR a 0)

/-- the per-phase sums of `iscola`: `cola_chk` after the main loop and the remainder patch -/
def colaChk (win : Array α) (hop pw : Nat) : Array α :=
  let nwin := win.size
  let nsum := nwin / hop
  let rm := nwin % hop
  mkR hop (fun j =>
    let s := (List.range nsum).foldl (fun acc i => acc + powW pw (rdR win (i * hop + j))) (Fn.ofNat 0)
    if j < rm then s + powW pw (rdR win (nwin - rm + j)) else s)

/-- `iscola(win, noverlap, method)`; `pw = 1` for `Ola`, `2` for `Wola` -/
def iscola (win : Array α) (noverlap pw : Nat) : Except String Bool :=
  let nwin := win.size
  if nwin ≤ noverlap then .error "overlap must be less than the window length" else
  let hop := nwin - noverlap
  let chk := colaChk win hop pw
  let nsumtotal : α := Fn.ofNat (nwin / hop) + (if nwin % hop ≠ 0 then Fn.ofNat 1 else Fn.ofNat 0)
  let m := median chk
  let maxDev := maxArr (mkR hop (fun j => Fn.abs (rdR chk j - m)))
  .ok (decide (maxDev < nsumtotal * eps))

/-! ## `stft` -/

/-- number of frames `(nx - overlap) / (nwin - overlap)` (C division; `hop > 0`) -/
def numSeg (nx nwin overlap : Nat) : Nat := if nx < overlap then 0 else (nx - overlap) / (nwin - overlap)

/-- the zero-padded windowed frame `i`: `px.slice(0, nwin) = x.slice(t1, t2) * win`, `px[nwin …] = 0` -/
def frame (x win : Array α) (hop nfft i : Nat) : Array α :=
  mkR nfft (fun j => if j < win.size then rdR x (i * hop + j) * rdR win j else Fn.ofNat 0)

/-- `stft(x, win, overlap, nfft, range)` -/
def stftWith (rfwd : Nat → Array α → Vec α) (x win : Array α) (overlap nfft range : Nat) : Except String (Array (Vec α)) :=
  let nwin := win.size
  if nwin ≤ overlap then .error "overlap must be less than the window length" else
  if nfft = 0 then .error "FFT plan size error" else
  let hop := nwin - overlap
  let nseg := numSeg x.size nwin overlap
  if 0 < nseg ∧ nfft < nwin then .error "Right slice index out of range" else
  .ok (Array.ofFn (n := nseg) (fun i => convertRangeStft (rfwd nfft (frame x win hop nfft i.val)) nfft range))

/-! ## `istft` -/

/-- the guard of `istft`: `norm <= nseg * eps() ? 1 : norm` -/
def normGuard (nseg : Nat) (v : α) : α := if v ≤ Fn.ofNat nseg * eps then Fn.ofNat 1 else v

/-- accumulate `g i (t - i * hop)` over the frames `i < nseg` that cover sample `t`, in frame order, from `0` -/
def overlapAdd (nseg hop nwin : Nat) (g : Nat → Nat → α) (t : Nat) : α :=
  (List.range nseg).foldl (fun acc i => if i * hop ≤ t ∧ t < i * hop + nwin then acc + g i (t - i * hop) else acc) (Fn.ofNat 0)

/-- `xlen = nwin + (nseg - 1) * hop` (for `nseg = 0`: `nwin - hop`) -/
def outLen (nseg nwin hop : Nat) : Nat := if nseg = 0 then nwin - hop else nwin + (nseg - 1) * hop

/-- the body of `istft` after its checks: re-synthesis of every frame, overlap-add of `y * win^a` and of `win^(a+1)`,
guard, division.  `method = 0` is `Ola` (`a = 0`), otherwise `Wola` (`a = 1`). -/
def istftCore (fwd : Nat → Vec α → Vec α) (xx : Array (Vec α)) (win : Array α) (overlap nfft range method : Nat) : Array α :=
  let nwin := win.size
  let hop := nwin - overlap
  let nseg := xx.size
  -- `y = irfftp(_convert_range_istft(xx[i], nfft, range)).slice(0, nwin)` for every frame
  let ys : Array (Array α) := Array.ofFn (n := nseg) (fun i => irfftCore fwd nfft (convertRangeIstftCore (xx.getD i.val #[]) nfft range))
  mkR (outLen nseg nwin hop) (fun t =>
    let acc := overlapAdd nseg hop nwin (fun i j => rdR (ys.getD i #[]) j * (if method = 0 then Fn.ofNat 1 else rdR win j)) t  -- `power(win, a)`
    let nrm := overlapAdd nseg hop nwin (fun _ j => if method = 0 then rdR win j else rdR win j * rdR win j) t              -- `power(win, a + 1)`
    acc / normGuard nseg nrm)

/-- `istft(xx, win, overlap, nfft, range, method)`.
`overlap ≤ nwin` (the code does not check the hop here; larger overlaps are not modelled). -/
def istftWith (fwd : Nat → Vec α → Vec α) (xx : Array (Vec α)) (win : Array α) (overlap nfft range method : Nat) :
    Except String (Array α) :=
  if win.size < overlap then .error "not modelled: negative hop" else
  if nfft < 2 then .error "FFT plan size error" else
  if nfft % 2 ≠ 0 then .error "ifft size must be even" else
  if 0 < xx.size ∧ nfft < win.size then .error "Right slice index out of range" else
  if ¬ xx.all (fun f => f.size == frameLen nfft range) then .error "Input size must be equal `nfft` (`nfft/2+1` for the `onesided` range)" else
  .ok (istftCore fwd xx win overlap nfft range method)

/-! ## instances on top of C01's forward transforms -/

def ifft [Atan2 α] (lit : Fft.Lits α) (x : Vec α) : Except String (Vec α) := ifftWith (Fft.fftC lit) x

def irfft [Atan2 α] (lit : Fft.Lits α) (n : Nat) (x : Vec α) : Except String (Array α) := irfftWith (Fft.fftC lit) n x

def stft [Atan2 α] (lit : Fft.Lits α) (x win : Array α) (overlap nfft range : Nat) : Except String (Array (Vec α)) :=
  stftWith (Fft.fftR lit) x win overlap nfft range

def istft [Atan2 α] (lit : Fft.Lits α) (xx : Array (Vec α)) (win : Array α) (overlap nfft range method : Nat) :
    Except String (Array α) :=
  istftWith (Fft.fftC lit) xx win overlap nfft range method

end Ifft
end Dsp
