import DspVerif.Gen.Cmplx
import DspVerif.Gen.Awgn
import DspVerif.Model.Primes
/-!
# Noise injection, random streams, SNR/THD analysis (core only — no Mathlib)

Hand-written executable models of

* `awgn` (`lib/awgn.cpp`) with `rms` of `lib/math.cpp`: the element-wise update; the scale factors are the
  machine-generated `Gen.awgnSigmaR` / `Gen.awgnSigmaC` (`Gen/Awgn.lean`, regenerated from the source on every run),
* the generators of `lib/random.cpp` over an ABSTRACT engine: the only state that survives a call is
  the engine (`thread_local std::mt19937 g_engine`); every distribution object is constructed inside
  the call (so `std::normal_distribution`'s cached second value lives for one call only),
* `_periodogram` of `lib/snr.cpp` on a parametrised window and a textbook DFT (the library's FFT is the
  subject of C01/C02; correspondence is within a rounding tolerance),
* `_locate_peak`, `_left_descent`, `_right_descent`, `_get_psd_tone`, `_alias_to_nyquist`,
  `_harm_analyze`, `snr`, `sinad`, `thd` of `lib/snr.cpp` — operation order transcribed, so the `Float`
  instance reproduces the implementation bit for bit on a given spectrum,
* a concrete engine instance: `std::mt19937` + libstdc++'s `generate_canonical<double,53>`,
  `uniform_real_distribution<double>` and `normal_distribution<double>` (Marsaglia polar method).

A spectrum is modelled by its length `n` and its index map `s : Nat → α` (DESIGN §2: in-place writes
to disjoint cells are modelled by the index map they compute).
-/
namespace Dsp.Noise

variable {α : Type} [Add α] [Sub α] [Mul α] [Div α] [Neg α] [LT α] [LE α] [Fn α]
  [DecidableRel (· < · : α → α → Prop)] [DecidableRel (· ≤ · : α → α → Prop)]

/-! ## sums, rms, mean (`lib/math.cpp`) -/

/-- `std::accumulate(begin, end, real_t(0))` -/
def sum (l : List α) : α := l.foldl (fun acc v => acc + v) (Fn.ofNat 0)

/-- the accumulation loop of `rms(const arr_real&)`: `sum += arr[i] * arr[i]` -/
def sumSq (l : List α) : α := l.foldl (fun acc v => acc + v * v) (Fn.ofNat 0)

/-- the accumulation loop of `rms(const arr_cmplx&)`: `sum += re*re; sum += im*im` -/
def sumSqC (l : List (Cx α)) : α :=
  l.foldl (fun acc z => (acc + z.re * z.re) + z.im * z.im) (Fn.ofNat 0)

/-- `rms(const arr_real&)` -/
def rmsR (l : List α) : α := Fn.sqrt (sumSq l / Fn.ofNat l.length)

/-- `rms(const arr_cmplx&)` -/
def rmsC (l : List (Cx α)) : α := Fn.sqrt (sumSqC l / Fn.ofNat l.length)

/-- `mean(const arr_real&)` -/
def mean (l : List α) : α := sum l / Fn.ofNat l.length

/-! ## `awgn` (`lib/awgn.cpp`) -/

/-- `stddev` of the real overload, as a function of `rms(arr)`: NOT hand-written — the formula
`rms(arr) * std::pow(10, ((-1) * snr / 20))` regenerated from `lib/awgn.cpp`'s AST on every run -/
abbrev sigmaRofRms (r snr : α) : α := Gen.awgnSigmaR r snr

/-- `stddev` of the complex overload (per component), as a function of `rms(arr)`: the generated
`std::sqrt(0.5) * rms(arr) * std::pow(10, ((-1) * snr / 20))` of `lib/awgn.cpp` -/
abbrev sigmaCofRms (r snr : α) : α := Gen.awgnSigmaC r snr

/-- `real_t stddev = rms(arr) * std::pow(10, ((-1) * snr / 20))` -/
def sigmaR (x : List α) (snr : α) : α := sigmaRofRms (rmsR x) snr

/-- `real_t stddev = std::sqrt(0.5) * rms(arr) * std::pow(10, ((-1) * snr / 20))` -/
def sigmaC (x : List (Cx α)) (snr : α) : α := sigmaCofRms (rmsC x) snr

/-- `r += randn(r.size()) * stddev` with the drawn values `z` -/
def awgnR (x z : List α) (snr : α) : List α :=
  let sd := sigmaR x snr
  List.zipWith (fun xi zi => xi + zi * sd) x z

/-- `r += complex(randn(n) * stddev, randn(n) * stddev)` with the drawn values -/
def awgnC (x : List (Cx α)) (zre zim : List α) (snr : α) : List (Cx α) :=
  let sd := sigmaC x snr
  List.zipWith (fun xi (zz : α × α) => Cx.mk (xi.re + zz.1 * sd) (xi.im + zz.2 * sd)) x (List.zip zre zim)

/-! ## generators over an abstract engine (`lib/random.cpp`) -/

/-- What libstdc++ provides, as functions of the engine state `E`.
`unif a b` / `unifInt lo hi` are a freshly constructed `uniform_real_distribution{a,b}` /
`uniform_int_distribution(lo,hi)` applied once (these objects hold their parameters only);
`std::normal_distribution` caches a value, so it has an object state `DN`. -/
structure Std (E DN α : Type) where
  seedE   : Int → E
  unif    : α → α → E → α × E
  unifInt : Int → Int → E → Int × E
  nInit   : DN
  nDraw   : DN → E → α × DN × E

section Gen
variable {E DN : Type} (S : Std E DN α)

/-- `rng(seed)`: `g_engine.seed(seed)` — the previous state is discarded -/
def rng (seed : Int) (_ : E) : E := S.seedE seed

/-- a counted loop `for (i < n) r[i] = dist(g_engine)` over a stateless distribution -/
def drawN {β : Type} (f : E → β × E) : Nat → E → List β × E
  | 0, e => ([], e)
  | n + 1, e =>
    let (v, e1) := f e
    let (vs, e2) := drawN f n e1
    (v :: vs, e2)

/-- the same loop with ONE `normal_distribution` object living through the loop -/
def drawNormal : Nat → DN → E → List α × E
  | 0, _, e => ([], e)
  | n + 1, d, e =>
    let (v, d1, e1) := S.nDraw d e
    let (vs, e2) := drawNormal n d1 e1
    (v :: vs, e2)

/-- `real_t rand()` -/
def rand (e : E) : α × E := S.unif (Fn.ofNat 0) (Fn.ofNat 1) e
/-- `arr_real rand(int n)` -/
def randArr (n : Nat) (e : E) : List α × E := drawN (S.unif (Fn.ofNat 0) (Fn.ofNat 1)) n e
/-- `arr_real rand(std::array<real_t,2> range, int n)` -/
def randRange (a b : α) (n : Nat) (e : E) : List α × E := drawN (S.unif a b) n e
/-- `real_t randn()` -/
def randn (e : E) : α × E := let (v, _, e1) := S.nDraw S.nInit e; (v, e1)
/-- `arr_real randn(int n)` -/
def randnArr (n : Nat) (e : E) : List α × E := drawNormal S n S.nInit e
/-- `int randi(std::array<int,2> range)` -/
def randi (lo hi : Int) (e : E) : Int × E := S.unifInt lo hi e
/-- `arr_int randi(std::array<int,2> range, int n)` -/
def randiArr (lo hi : Int) (n : Nat) (e : E) : List Int × E := drawN (S.unifInt lo hi) n e
/-- `int randi(int imax)` = `randi({1, imax})` -/
def randi1 (imax : Int) (e : E) : Int × E := randi S 1 imax e
/-- `arr_int randi(int imax, int n)` = `randi({1, imax}, n)` -/
def randi1Arr (imax : Int) (n : Nat) (e : E) : List Int × E := randiArr S 1 imax n e

/-- `awgn(const arr_real&, snr)` as a generator -/
def awgnRGen (x : List α) (snr : α) (e : E) : List α × E :=
  let (z, e1) := randnArr S x.length e
  (awgnR x z snr, e1)

/-- `awgn(const arr_cmplx&, snr)` as a generator.  The two `randn(n)` calls are function arguments:
their evaluation order is unspecified in C++ (`imagFirst = true` is what g++ does). -/
def awgnCGen (imagFirst : Bool) (x : List (Cx α)) (snr : α) (e : E) : List (Cx α) × E :=
  let (z1, e1) := randnArr S x.length e
  let (z2, e2) := randnArr S x.length e1
  (if imagFirst then awgnC x z2 z1 snr else awgnC x z1 z2 snr, e2)

/-- one library call that touches the random stream -/
inductive Cmd (α : Type) where
  | rng (seed : Int)
  | rand
  | randArr (n : Nat)
  | randRange (a b : α) (n : Nat)
  | randn
  | randnArr (n : Nat)
  | randi (lo hi : Int)
  | randiArr (lo hi : Int) (n : Nat)
  | randi1 (imax : Int)
  | randi1Arr (imax : Int) (n : Nat)
  | awgnR (x : List α) (snr : α)
  | awgnC (x : List (Cx α)) (snr : α)

/-- what a call returns -/
inductive Out (α : Type) where
  | unit
  | real (v : α)
  | reals (v : List α)
  | int (v : Int)
  | ints (v : List Int)
  | cmplxs (v : List (Cx α))

/-- one call: result and new thread state (= the engine, nothing else) -/
def exec (imagFirst : Bool) (c : Cmd α) (e : E) : Out α × E :=
  match c with
  | .rng seed => (.unit, rng S seed e)
  | .rand => let (v, e1) := rand S e; (.real v, e1)
  | .randArr n => let (v, e1) := randArr S n e; (.reals v, e1)
  | .randRange a b n => let (v, e1) := randRange S a b n e; (.reals v, e1)
  | .randn => let (v, e1) := randn S e; (.real v, e1)
  | .randnArr n => let (v, e1) := randnArr S n e; (.reals v, e1)
  | .randi lo hi => let (v, e1) := randi S lo hi e; (.int v, e1)
  | .randiArr lo hi n => let (v, e1) := randiArr S lo hi n e; (.ints v, e1)
  | .randi1 imax => let (v, e1) := randi1 S imax e; (.int v, e1)
  | .randi1Arr imax n => let (v, e1) := randi1Arr S imax n e; (.ints v, e1)
  | .awgnR x snr => let (v, e1) := awgnRGen S x snr e; (.reals v, e1)
  | .awgnC x snr => let (v, e1) := awgnCGen S imagFirst x snr e; (.cmplxs v, e1)

/-- a sequence of calls on one thread -/
def run (imagFirst : Bool) : List (Cmd α) → E → List (Out α) × E
  | [], e => ([], e)
  | c :: cs, e =>
    let (o, e1) := exec S imagFirst c e
    let (os, e2) := run imagFirst cs e1
    (o :: os, e2)

end Gen

/-! ## `_periodogram` (`lib/snr.cpp`) on a parametrised window, textbook DFT -/

/-- one term of the DFT sum: `v · exp(-2πi·j/nfft)` added to the accumulator -/
def dftStep (nfft j : Nat) (acc : Cx α) (v : α) : Cx α :=
  let th := (Fn.ofNat 2 * Fn.pi * Fn.ofNat (j % nfft)) / Fn.ofNat nfft
  Cx.mk (acc.re + v * Fn.cos th) (acc.im - v * Fn.sin th)

/-- `Σ_m y[m] · exp(-2πi·m·k/nfft)` (samples beyond the list are the zero padding) -/
def dftAcc (nfft k : Nat) : List α → Nat → Cx α → Cx α
  | [], _, acc => acc
  | v :: vs, m, acc => dftAcc nfft k vs (m + 1) (dftStep nfft (m * k) acc v)

def dftBin (nfft k : Nat) (y : List α) : Cx α :=
  dftAcc nfft k y 0 (Cx.mk (Fn.ofNat 0) (Fn.ofNat 0))

/-- `_periodogram(sig)` with `w0 = window::kaiser(sig.size(), 38)` as a parameter:
remove the mean, multiply by `w0 / rms(w0)`, zero-pad to `nfft = 2^nextpow2(size)`, first `nfft/2` bins of
`|FFT|² / (size · nfft / 2)`. -/
def periodogram (w0 x : List α) : List α :=
  let m := mean x
  let r := rmsR w0
  let w := w0.map (fun v => v / r)
  let y := List.zipWith (fun xi wi => (xi - m) * wi) x w
  let nfft := 1 <<< Primes.nextpow2 x.length
  let u := Fn.ofNat x.length * Fn.ofNat nfft / Fn.ofNat 2
  (List.range (nfft / 2)).map (fun k => Cx.abs2 (dftBin nfft k y) / u)

/-! ## the order-comparison skeleton of `_harm_analyze` -/

/-- `while ((p > 0) && c(spec[p-1], spec[p])) --p;` -/
def walkL (c : α → α → Bool) (s : Nat → α) : Nat → Nat
  | 0 => 0
  | p + 1 => if c (s p) (s (p + 1)) then walkL c s p else p + 1

/-- `while ((p < n-1) && c(spec[p], spec[p+1])) ++p;` (fuel `n` suffices) -/
def walkR (c : α → α → Bool) (n : Nat) (s : Nat → α) : Nat → Nat → Nat
  | 0, p => p
  | f + 1, p => if p + 1 < n ∧ c (s p) (s (p + 1)) then walkR c n s f (p + 1) else p

def gtB (a b : α) : Bool := decide (b < a)
def ltB (a b : α) : Bool := decide (a < b)
def leB (a b : α) : Bool := decide (a ≤ b)
/-- `a == b` of the code, through the order (IEEE: false when a NaN is involved, true for `-0 == +0`; on ℝ it is equality) -/
def eqB (a b : α) : Bool := decide (a ≤ b ∧ b ≤ a)

/-- `while ((p > 0) && (spec[p-1] == v)) --p;` — left end of the plateau of bins equal to the peak value `v` -/
def topL (s : Nat → α) (v : α) : Nat → Nat
  | 0 => 0
  | p + 1 => if eqB (s p) v then topL s v p else p + 1

/-- `while ((p < n-1) && (spec[p+1] == v)) ++p;` — right end of that plateau (fuel `n` suffices) -/
def topR (n : Nat) (s : Nat → α) (v : α) : Nat → Nat → Nat
  | 0, p => p
  | f + 1, p => if p + 1 < n ∧ eqB (s (p + 1)) v then topR n s v f (p + 1) else p

/-- `_locate_peak(spec, idx)` -/
def locatePeak (n : Nat) (s : Nat → α) (idx : Nat) : Nat :=
  walkR ltB n s n (walkL gtB s idx)

/-- `_left_descent(spec, idx)` -/
def leftDescent (s : Nat → α) (idx : Nat) : Nat := walkL ltB s idx

/-- `_right_descent(spec, idx)` -/
def rightDescent (n : Nat) (s : Nat → α) (idx : Nat) : Nat :=
  walkR gtB n s n (min idx (n - 1))

/-- `ToneInfo` (the fields that are used) -/
structure Tone (α : Type) where
  lpos : Nat
  rpos : Nat
  freq : α
  power : α

/-- `dot(arange(lpos, rpos+1) / n, spec.slice(lpos, rpos+1))` -/
def lobeDot (n : Nat) (s : Nat → α) (lpos rpos : Nat) : α :=
  (List.range' lpos (rpos + 1 - lpos)).foldl
    (fun acc i => acc + (Fn.ofNat i / Fn.ofNat n) * s i) (Fn.ofNat 0)

/-- `sum(spec.slice(lpos, rpos+1))` -/
def lobeSum (s : Nat → α) (lpos rpos : Nat) : α :=
  sum ((List.range' lpos (rpos + 1 - lpos)).map s)

/-- `_get_psd_tone(spec, tone_freq)` after `freq_num` has been computed and clamped.  A tone midway between two bins
has two equal top bins: the descents start at both ends `ltop`, `rtop` of the plateau of bins equal to the peak. -/
def getTone (n : Nat) (s : Nat → α) (fnum : Nat) : Tone α :=
  let ipeak := locatePeak n s fnum
  let ltop := topL s (s ipeak) ipeak
  let rtop := topR n s (s ipeak) n ipeak
  let lpos := leftDescent s ltop
  let rpos := rightDescent n s rtop
  let pw := lobeSum s lpos rpos
  ⟨lpos, rpos, lobeDot n s lpos rpos / pw, pw⟩

/-- `freq_num = max(min(freq_num, n-1), 0)` -/
def clampBin (n : Nat) (k : Int) : Nat := (max (min k ((n : Int) - 1)) 0).toNat

/-- `_get_psd_tone(spec, tone_freq)`; `rnd` is `(int)std::round(·)` -/
def toneAt (rnd : α → Int) (n : Nat) (s : Nat → α) (f : α) : Tone α :=
  getTone n s (clampBin n (rnd (f * Fn.ofNat n)))

/-- `argmax`: first index of the largest element (`std::max_element`) -/
def argmax (n : Nat) (s : Nat → α) : Nat :=
  (List.range n).foldl (fun best i => if s best < s i then i else best) 0

/-- `_get_psd_tone(spec)` -/
def firstTone (rnd : α → Int) (n : Nat) (s : Nat → α) : Tone α :=
  toneAt rnd n s (Fn.ofNat (argmax n s) / Fn.ofNat n)

/-- `spectrum.slice(l, r+1) = v` -/
def setRange (s : Nat → α) (l r : Nat) (v : α) : Nat → α :=
  fun i => if l ≤ i ∧ i ≤ r then v else s i

/-- `_alias_to_nyquist(f, 2.0)`; `fmod(f, 2)` is `f - 2·⌊f/2⌋` for `f ≥ 0` (exact in IEEE as well) -/
def aliasNyq (f : α) : α :=
  let t := f - Fn.ofNat 2 * Fn.floor (f / Fn.ofNat 2)
  if Fn.ofNat 1 < t then Fn.ofNat 2 - t else t

/-- loop state of `_harm_analyze`: the working copy of the spectrum, the lobes removed so far,
the harmonic powers / frequencies found so far -/
structure HState (α : Type) where
  s : Nat → α
  lobes : List (Nat × Nat)
  pows : List α
  freqs : List α

/-- `for (i = 1; i < nharm; ++i) {…}` with its `break`; `k` iterations left, current index `i` -/
def harmLoop (rnd : α → Int) (n : Nat) (aliased : Bool) (f0 : α) : Nat → Nat → HState α → HState α
  | 0, _, st => st
  | k + 1, i, st =>
    let fr := Fn.ofNat (i + 1) * f0
    let fr := if aliased then aliasNyq fr else fr
    if Fn.ofNat 1 < fr then st
    else
      let t := toneAt rnd n st.s fr
      harmLoop rnd n aliased f0 k (i + 1)
        ⟨setRange st.s t.lpos t.rpos (Fn.ofNat 0), st.lobes ++ [(t.lpos, t.rpos)],
         st.pows ++ [t.power], st.freqs ++ [t.freq]⟩

/-- `median(const arr_real&)`: sort, middle element / mean of the two middle elements -/
def median (l : List α) : α :=
  let r := l.mergeSort leB
  let m := r.length
  if m % 2 = 1 then r.getD (m / 2) (Fn.ofNat 0)
  else (r.getD (m / 2) (Fn.ofNat 0) + r.getD (m / 2 - 1) (Fn.ofNat 0)) / Fn.ofNat 2

/-- `HarmInfo` -/
structure HarmInfo (α : Type) where
  harmpow : List α
  harmfreq : List α
  noisepow : α

/-- pad with zeros to length `n` (`zeros(nharm)` entries never written) -/
def padZeros (n : Nat) (l : List α) : List α := l ++ List.replicate (n - l.length) (Fn.ofNat 0)

/-- `_harm_analyze(spectrum, nharm, aliased)`, `nharm ≥ 1`, `n ≥ 1` -/
def harmAnalyze (rnd : α → Int) (n : Nat) (s : Nat → α) (nharm : Nat) (aliased : Bool) : HarmInfo α :=
  let tn := firstTone rnd n s
  let st0 : HState α := ⟨setRange s tn.lpos tn.rpos (Fn.ofNat 0), [(tn.lpos, tn.rpos)], [tn.power], [tn.freq]⟩
  let st := harmLoop rnd n aliased tn.freq (nharm - 1) 1 st0
  let pos := ((List.range n).map st.s).filter (fun v => decide (Fn.ofNat 0 < v))
  let nf := if 0 < pos.length then median pos else Fn.ofNat 0
  let s2 := st.lobes.foldl (fun s lb => setRange s lb.1 lb.2 nf) st.s
  ⟨padZeros nharm st.pows, (padZeros nharm st.freqs).map (fun f => f / Fn.ofNat 2),
   sum ((List.range n).map s2)⟩

/-- `pow2db(real_t)` -/
def pow2db (v : α) : α := Fn.ofNat 10 * Fn.log10 v

/-- `snr(pxx, nharm, aliased, Psd)`; `sinad(pxx, Psd)` is `snrPsd … 1 false` -/
def snrPsd (rnd : α → Int) (n : Nat) (s : Nat → α) (nharm : Nat) (aliased : Bool) : α :=
  let info := harmAnalyze rnd n s nharm aliased
  pow2db (info.harmpow.headD (Fn.ofNat 0) / info.noisepow)

def sinadPsd (rnd : α → Int) (n : Nat) (s : Nat → α) : α := snrPsd rnd n s 1 false

/-- `ThdRes` -/
structure ThdRes (α : Type) where
  value : α
  harmpow : List α
  harmfreq : List α

/-- `thd(pxx, nharm, aliased, Psd)` (`nharm ≥ 2` is asserted by the caller) -/
def thdPsd (rnd : α → Int) (n : Nat) (s : Nat → α) (nharm : Nat) (aliased : Bool) : ThdRes α :=
  let info := harmAnalyze rnd n s nharm aliased
  let hs := sum (info.harmpow.drop 1)
  ⟨pow2db (hs / info.harmpow.headD (Fn.ofNat 0)), info.harmpow.map pow2db, info.harmfreq⟩

/-- a list as an index map (out-of-range reads never happen: every loop guard of the code is mirrored) -/
def ofList (l : List α) : Nat → α := fun i => l.getD i (Fn.ofNat 0)

/-- `snr(sig, nharm, aliased, Time)` / `sinad(sig, Time)` / `thd(sig, nharm, aliased, Time)` on window `w0` -/
def snrTime (rnd : α → Int) (w0 x : List α) (nharm : Nat) (aliased : Bool) : α :=
  let p := periodogram w0 x
  snrPsd rnd p.length (ofList p) nharm aliased

def sinadTime (rnd : α → Int) (w0 x : List α) : α :=
  let p := periodogram w0 x
  sinadPsd rnd p.length (ofList p)

def thdTime (rnd : α → Int) (w0 x : List α) (nharm : Nat) (aliased : Bool) : ThdRes α :=
  let p := periodogram w0 x
  thdPsd rnd p.length (ofList p) nharm aliased


/-! ## a concrete engine: `std::mt19937` and the libstdc++ (GCC 12) distributions, at `Float`

This instance of `Std` is what the correspondence run executes against `rand`/`randn`/`randi`/`awgn` after `rng(seed)`.
The theorems of C19 do not depend on it (they hold for every `Std`). -/

/-- state of `std::mersenne_twister_engine<…, 32, 624, 397, 31, 0x9908b0df, 11, 0xffffffff, 7, 0x9d2c5680, 15, 0xefc60000, 18, 1812433253>` -/
structure MT where
  mt : Array UInt32
  idx : Nat

namespace MT

/-- `seed(value)` -/
def seed (s : UInt32) : MT := Id.run do
  let mut a : Array UInt32 := Array.mkEmpty 624
  let mut prev := s
  a := a.push prev
  for i in [1:624] do
    prev := (1812433253 : UInt32) * (prev ^^^ (prev >>> 30)) + i.toUInt32
    a := a.push prev
  return ⟨a, 624⟩

/-- `_M_gen_rand()` (sequential in-place update) -/
def twist (a : Array UInt32) : Array UInt32 := Id.run do
  let mut a := a
  for i in [0:624] do
    let y := (a[i]! &&& 0x80000000) ||| (a[(i + 1) % 624]! &&& 0x7fffffff)
    let v := a[(i + 397) % 624]! ^^^ (y >>> 1) ^^^ (if y &&& 1 == 1 then 0x9908b0df else 0)
    a := a.set! i v
  return a

/-- `operator()` with tempering -/
def next (m : MT) : UInt32 × MT :=
  let m : MT := if m.idx ≥ 624 then ⟨twist m.mt, 0⟩ else m
  let y := m.mt[m.idx]!
  let y := y ^^^ (y >>> 11)
  let y := y ^^^ ((y <<< 7) &&& 0x9d2c5680)
  let y := y ^^^ ((y <<< 15) &&& 0xefc60000)
  let y := y ^^^ (y >>> 18)
  (y, ⟨m.mt, m.idx + 1⟩)

/-- `std::generate_canonical<double, 53>(urng)`: two 32-bit draws, `(x0 + x1·2^32) / 2^64` -/
def canon (m : MT) : Float × MT :=
  let (x0, m) := m.next
  let (x1, m) := m.next
  let sum := (0.0 + Float.ofNat x0.toNat * 1.0) + Float.ofNat x1.toNat * 4294967296.0
  let r := sum / 18446744073709551616.0
  (if r ≥ 1.0 then Float.ofBits 0x3fefffffffffffff else r, m)

/-- the rejection loop of `normal_distribution::operator()` (fuel: each round is accepted with probability π/4) -/
def polar : Nat → MT → Float × Float × Float × MT
  | 0, m => (0.0, 0.0, 1.0, m)
  | f + 1, m =>
    let (u1, m) := canon m
    let x := 2.0 * u1 - 1.0
    let (u2, m) := canon m
    let y := 2.0 * u2 - 1.0
    let r2 := x * x + y * y
    if r2 > 1.0 || r2 == 0.0 then polar f m else (x, y, r2, m)

/-- `normal_distribution<double>{0,1}::operator()`; the object state is the cached second value -/
def normal (d : Option Float) (m : MT) : Float × Option Float × MT :=
  match d with
  | some v => (v * 1.0 + 0.0, none, m)
  | none =>
    let (x, y, r2, m) := polar 1000 m
    let mult := Float.sqrt (-2.0 * Float.log r2 / r2)
    ((y * mult) * 1.0 + 0.0, some (x * mult), m)

/-- Lemire's method `uniform_int_distribution::_S_nd<uint64_t>(urng, range)` for a 32-bit generator -/
def lemireLoop (range thr : UInt64) : Nat → UInt64 → MT → UInt64 × MT
  | 0, prod, m => (prod, m)
  | f + 1, prod, m =>
    if (prod &&& 0xffffffff) < thr then
      let (g, m) := m.next
      lemireLoop range thr f (g.toUInt64 * range) m
    else (prod, m)

/-- `uniform_int_distribution<int>(lo, hi)::operator()` (GCC 12, 32-bit generator, 64-bit `unsigned long`) -/
def uniformInt (lo hi : Int) (m : MT) : Int × MT :=
  let urange : Nat := (hi - lo).toNat
  if urange < 4294967295 then
    let range : UInt64 := (urange + 1).toUInt64
    let (g, m) := m.next
    let prod := g.toUInt64 * range
    let low := prod &&& 0xffffffff
    let (prod, m) :=
      if low < range then
        -- `_Up __threshold = -__range % __range` in 32-bit unsigned arithmetic
        let thr : UInt64 := ((4294967296 - (urange + 1)) % (urange + 1)).toUInt64
        lemireLoop range thr 10000 prod m
      else (prod, m)
    (lo + ((prod >>> 32).toNat : Int), m)
  else
    let (g, m) := m.next
    (lo + (g.toNat : Int), m)

end MT

/-- `thread_local std::mt19937 g_engine` with the libstdc++ distributions -/
def stdMT : Std MT (Option Float) Float where
  seedE s := MT.seed ((s % 4294967296).toNat).toUInt32
  unif a b e := let (u, e1) := MT.canon e; (u * (b - a) + a, e1)
  unifInt lo hi e := MT.uniformInt lo hi e
  nInit := none
  nDraw := MT.normal

end Dsp.Noise
