import DspVerif.Scalar
/-!
# Polyphase multirate converters (`lib/resample/*.cpp`, `include/dsplib/resample.h`)

`IResampler::polyphase / simplify / next_size / prev_size`, `FIRInterpolator`, `FIRDecimator`,
`FIRRateConverter`, `FIRResampler` (`init` / `process` with explicit state, `delay`) and the integer
length / delay arithmetic of `resample(x, p, q, h)`.  The coefficient vector `h` is an INPUT (the default
design `_multirate_fir` = `fir1` + `kaiser` belongs to C11); generic in the scalar: run at `Float` by the
driver, reasoned about at `ℝ` in `Props/C08`.

Mirroring conventions: every `for` that accumulates into one cell is `loopN` (left to right, the
accumulator starts at the cell's initial value 0, exactly the C++ evaluation order); every output
array is an index map `tab n f`; the three `memcpy`s of `process` are `d ++ x` and `extract`;
`DSPLIB_ASSERT` / slice range errors are `Except.error`.  `int` is modelled by `Nat` (all quantities
are non-negative; the only subtraction that can go negative, `c` in `FIRRateConverter::delay`, is
guarded by the code's own `c <= 0` test); 32-bit overflow is NOT modelled — `Props/C08.resample_no_overflow`
bounds every `int` intermediate of `resample` by the length of the array `process` has to return.
-/
namespace Dsp.Resample

variable {α : Type}

/-- `for (n = 0; n < N; ++n) s = step n s` -/
def loopN {σ : Type} (step : Nat → σ → σ) : Nat → σ → σ
  | 0, s => s
  | n + 1, s => step n (loopN step n s)

/-- array given by its index map -/
def tab {β : Type} (n : Nat) (f : Nat → β) : Array β := Array.ofFn (n := n) fun i => f i.val

section scalar
variable [Add α] [Mul α] [Div α] [Fn α]

/-- `real_t(0)` -/
@[inline] def zero : α := Fn.ofNat 0

/-- element `i`; indices outside the array read 0 (the theorems of C08 show that `process` never does: `*_in_bounds`) -/
@[inline] def elem (a : Array α) (i : Nat) : α := a.getD i zero

/-- row `k` of a coefficient table -/
@[inline] def row (a : Array (Array α)) (k : Nat) : Array α := a.getD k #[]

/-- `acc += f 0; acc += f 1; …; acc += f (n-1)` -/
def accN (f : Nat → α) (n : Nat) (acc : α) : α := loopN (fun j a => a + f j) n acc

/-- `zeros(n)` -/
def zeros (n : Nat) : Array α := tab n fun _ => zero

end scalar

/-- length after zero-padding to a multiple of `m` (`polyphase`; the same expression is `next_size`) -/
def paddedLen (n m : Nat) : Nat := if n % m = 0 then n else (n / m + 1) * m

section scalar
variable [Add α] [Mul α] [Div α] [Fn α]

/-- `IResampler::polyphase(h, m, gain, flip_coeffs)`: zero-pad to a multiple of `m`, divide by the sum,
branch `i` tap `k` = `h[i + k m] * gain`; `flip` reverses every branch. -/
def polyphase (h : Array α) (m : Nat) (gain : α) (flip : Bool) : Array (Array α) :=
  let nh := paddedLen h.size m
  let s : α := accN (fun i => elem h i) nh zero
  let n := nh / m
  tab m fun i => tab n fun k => elem h (i + (if flip then n - 1 - k else k) * m) / s * gain

/-! ## FIRInterpolator -/

structure Interp (α : Type) where
  L : Nat
  sub : Nat
  h : Array (Array α)
  d : Array α

def Interp.init (L : Nat) (h : Array α) : Interp α :=
  let th := polyphase h L (Fn.ofNat L) true
  let sub := (row th 0).size
  { L := L, sub := sub, h := th, d := zeros (sub - 1) }

/-- `FIRInterpolator::process`: `y[i L + k] = Σ_j px[i + j] * h_[k][j]`, `px = d_ ++ in` -/
def Interp.process (s : Interp α) (x : Array α) : Interp α × Array α :=
  let buf := s.d ++ x
  let y := tab (x.size * s.L) fun o =>
    accN (fun j => elem buf (o / s.L + j) * elem (row s.h (o % s.L)) j) s.sub zero
  ({ s with d := buf.extract x.size (x.size + s.d.size) }, y)

def Interp.delay (s : Interp α) : Nat := s.sub * s.L / 2

/-! ## FIRDecimator -/

structure Decim (α : Type) where
  M : Nat
  sub : Nat
  h : Array (Array α)
  d : Array α

def Decim.init (M : Nat) (h : Array α) : Decim α :=
  let th := polyphase h M (Fn.ofNat 1) false
  let sub := (row th 0).size
  { M := M, sub := sub, h := th, d := zeros (M * (sub - 1)) }

/-- `FIRDecimator::process`: `y[i] = Σ_k Σ_j x[i M + k + j M] * h_[k][j]` (k outer, j inner), `x = d_ ++ in` -/
def Decim.process (s : Decim α) (x : Array α) : Except String (Decim α × Array α) :=
  if x.size % s.M ≠ 0 then .error "Input frame length must be a multiple of the 'decim'" else
  let buf := s.d ++ x
  let y := tab (x.size / s.M) fun i =>
    loopN (fun k a => accN (fun j => elem buf (i * s.M + k + j * s.M) * elem (row s.h k) j) s.sub a) s.M zero
  .ok ({ s with d := buf.extract x.size (x.size + s.d.size) }, y)

def Decim.delay (s : Decim α) : Nat := s.sub / 2

end scalar

/-! ## FIRRateConverter -/

/-- body of the constructor's double loop: `st = st + 1; if (st == decim) { push (k, i); st = 0; }` -/
def schedStep (M k i : Nat) (s : Nat × List (Nat × Nat)) : Nat × List (Nat × Nat) :=
  if s.1 + 1 = M then (0, s.2 ++ [(k, i)]) else (s.1 + 1, s.2)

/-- `(branch, input offset)` per output phase, i.e. the pairs `(k, xidxs_)` the constructor pushes:
`for i < decim: for k < interp: …` -/
def schedule (L M : Nat) : List (Nat × Nat) :=
  (loopN (fun i s => loopN (fun k s => schedStep M k i s) L s) M (0, [])).2

section scalar
variable [Add α] [Mul α] [Div α] [Fn α]

structure RateConv (α : Type) where
  L : Nat
  M : Nat
  sub : Nat
  h : Array (Array α)     -- `h_`: branch of output phase r
  xi : Array Nat          -- `xidxs_`
  d : Array α

def RateConv.init (L M : Nat) (h : Array α) : RateConv α :=
  let th := polyphase h L (Fn.ofNat L) true
  let sub := (row th 0).size
  let sch := schedule L M
  { L := L, M := M, sub := sub,
    h := (sch.map fun p => row th p.1).toArray,
    xi := (sch.map fun p => p.2).toArray,
    d := zeros (sub - 1) }

/-- `FIRRateConverter::process`: `y[i L + k] = Σ_j x[i M + xidxs_[k] + j] * h_[k][j]`, `x = d_ ++ in` -/
def RateConv.process (s : RateConv α) (x : Array α) : Except String (RateConv α × Array α) :=
  if x.size % s.M ≠ 0 then .error "Input frame length must be a multiple of the 'decim'" else
  let buf := s.d ++ x
  let y := tab (x.size / s.M * s.L) fun o =>
    accN (fun j => elem buf (o / s.L * s.M + s.xi.getD (o % s.L) 0 + j) * elem (row s.h (o % s.L)) j) s.sub zero
  .ok ({ s with d := buf.extract x.size (x.size + s.d.size) }, y)

/-- `c = sublen*interp/2 + 1 - decim; (c <= 0) ? 0 : (2c + decim) / (2 decim)` -/
def rateConvDelay (sub L M : Nat) : Nat :=
  if sub * L / 2 + 1 ≤ M then 0 else (2 * (sub * L / 2 + 1 - M) + M) / (2 * M)

def RateConv.delay (s : RateConv α) : Nat := rateConvDelay s.sub s.L s.M

end scalar

/-! ## simplify / next_size / prev_size -/

def simplify (p q : Nat) : Nat × Nat := (p / Nat.gcd p q, q / Nat.gcd p q)

def nextSize (size p q : Nat) : Nat := paddedLen size (simplify p q).2

def prevSize (size p q : Nat) : Nat :=
  let d := (simplify p q).2
  if size % d = 0 then size else size / d * d

section scalar
variable [Add α] [Mul α] [Div α] [Fn α]

/-! ## FIRResampler -/

inductive Rs (α : Type) where
  | bypass : Rs α
  | dec : Decim α → Rs α
  | int : Interp α → Rs α
  | rc : RateConv α → Rs α

/-- `FIRResampler(out_fs, in_fs, h)`.  The constructor's three `if`s are exhaustive for a reduced ratio
`m ≠ d`, `m, d ≥ 1` (`Props/C08.rs_init_cases`); the final `else` is the third `if`. -/
def Rs.init (outFs inFs : Nat) (h : Array α) : Rs α :=
  let (m, d) := simplify outFs inFs
  if m = d then .bypass
  else if d > 1 ∧ m = 1 then .dec (Decim.init d h)
  else if d = 1 ∧ m > 1 then .int (Interp.init m h)
  else .rc (RateConv.init m d h)

def Rs.process : Rs α → Array α → Except String (Rs α × Array α)
  | .bypass, x => .ok (.bypass, x)
  | .dec s, x => (s.process x).map fun r => (.dec r.1, r.2)
  | .int s, x => let r := s.process x; .ok (.int r.1, r.2)
  | .rc s, x => (s.process x).map fun r => (.rc r.1, r.2)

def Rs.delay : Rs α → Nat
  | .bypass => 0
  | .dec s => s.delay
  | .int s => s.delay
  | .rc s => s.delay

def Rs.interpRate : Rs α → Nat
  | .int s => s.L
  | .rc s => s.L
  | _ => 1

def Rs.decimRate : Rs α → Nat
  | .dec s => s.M
  | .rc s => s.M
  | _ => 1

/-! ## resample(x, p, q, h) -/

/-- `*y.slice(i1, i2)` for `0 ≤ i1 ≤ i2`, step 1 (the guards of `base_slice_t`, cf. C04) -/
def sliceOf (y : Array α) (i1 i2 : Nat) : Except String (Array α) :=
  if y.size = 0 then .error "Slicing from an empty array"
  else if i1 ≥ y.size then .error "Left slice index out of range"
  else if i2 > y.size then .error "Right slice index out of range"
  else .ok (y.extract i1 i2)

/-- the integer arithmetic of `resample`: `(nx, ny, mdl, nn)` from the input length and `delay()` -/
def resampleSizes (len p q dl : Nat) : Nat × Nat × Nat × Nat :=
  let nx := nextSize len p q
  let ny := nx / q * p      -- `nx` is a multiple of `q`; dividing first cannot overflow
  let mdl := (dl * q + p - 1) / p
  let nn := nextSize (nx + mdl) p q
  (nx, ny, mdl, nn)

def resample (x : Array α) (p_ q_ : Nat) (h : Array α) : Except String (Array α) :=
  let (p, q) := simplify p_ q_
  if p = q then .ok x else
  if x.size = 0 then .ok x else
  let rs : Rs α := Rs.init p q h
  let dl := rs.delay
  let (_, ny, _, nn) := resampleSizes x.size p q dl
  if x.size > nn then .error "padding size error" else
  let xx := x ++ zeros (nn - x.size)
  match rs.process xx with
  | .error e => .error e
  | .ok (_, y) => sliceOf y dl (dl + ny)

end scalar

end Dsp.Resample
