import DspVerif.Gen.Cmplx
import DspVerif.Gen.Dynamics
/-!
# Dynamics processors (core only — no Mathlib)

Hand-written executable models of

* `Compressor` (`include/dsplib/audio/compressor.h`),
* `Limiter`    (`include/dsplib/audio/limiter.h`),
* `NoiseGate`  (`include/dsplib/audio/noise-gate.h`),
* `Agc`        (`include/dsplib/agc.h`, `lib/agc.cpp`) with its `MAFilter` (`lib/ma-filter.h`),

generic in the scalar (run at `Float` by the driver, reasoned about at `ℝ` by `Props/C20`).
Every expression is transcribed in the operation order of the C++ source.  The gain computers
`Compressor::_compute_gain` / `Limiter::_compute_gain` and `mag2db` / `db2mag` are NOT hand-copied:
they are the machine-generated `Gen.compressorGain` / `Gen.limiterGain` / `Gen.mag2db` / `Gen.db2mag`
(`Gen/Dynamics.lean`, regenerated from the C++ AST on every check run).
`eps()` is `nextafter(1, inf) - 1 = 2^-52`.

IEEE behaviour made explicit (DESIGN §2): the constructors compute the smoothing coefficient
`exp(-log 9 / (sample_rate * t))`; for `t = 0` the C++ evaluates `exp(-inf) = 0`, whereas `x / 0 = 0`
in `ℝ`.  `coef` therefore carries the branch `fs * t = 0 ↦ 0` explicitly (the correspondence run
executes the real constructors at `t = 0`).
-/
namespace Dsp.Dynamics

variable {α : Type} [Add α] [Sub α] [Mul α] [Div α] [Neg α] [LT α] [LE α] [Fn α]
  [DecidableRel (· < · : α → α → Prop)] [DecidableRel (· ≤ · : α → α → Prop)]

/-- `eps()` of `lib/types.cpp`: `nextafter(1.0, +inf) - 1.0 = 2^-52` (exact at `Float`) -/
def eps : α := Fn.ofNat 1 / Fn.ofNat 4503599627370496

/-- smoothing coefficient `std::exp(-std::log(9) / (sample_rate * t))` of the three constructors;
`fs * t = 0` (IEEE: `-log 9 / +0 = -inf`, `exp(-inf) = 0`) is an explicit branch -/
def coef (fs t : α) : α :=
  if fs * t ≤ Fn.ofNat 0 ∧ Fn.ofNat 0 ≤ fs * t then Fn.ofNat 0
  else Fn.exp (-(Fn.log (Fn.ofNat 9)) / (fs * t))

/-- the one-pole smoothing branch shared by `Compressor::process` and `Limiter::process` -/
def smooth (wA wR gs gc : α) : α :=
  if gc ≤ gs then (wA * gs) + (Fn.ofNat 1 - wA) * gc
  else (wR * gs) + (Fn.ofNat 1 - wR) * gc

/-- result of one loop iteration of `process` -/
structure Step (α : Type) where
  gs   : α   -- new smoothed gain (dB)
  gain : α   -- `res.gain[i]`
  out  : α   -- `res.out[i]`

/-! ## Compressor -/

/-- the fields of `Compressor`: `T_ R_ W_` (as read by the generated gain computer), `wA_ wR_` -/
structure Comp (α : Type) where
  gp : Gen.CompressorParams α
  wA : α
  wR : α

namespace Comp

/-- constructor incl. its five `DSPLIB_ASSERT`s -/
def init (fs : Nat) (threshold : α) (ratio : Int) (knee attack release : α) : Except String (Comp α) :=
  let wA := coef (Fn.ofNat fs) attack
  let wR := coef (Fn.ofNat fs) release
  if ¬ (Fn.ofInt (-50) ≤ threshold ∧ threshold ≤ Fn.ofNat 0) then .error "threshold"
  else if ¬ (1 ≤ ratio ∧ ratio ≤ 50) then .error "ratio"
  else if ¬ (Fn.ofNat 0 ≤ knee ∧ knee ≤ Fn.ofNat 20) then .error "knee_width"
  else if ¬ (Fn.ofNat 0 ≤ attack ∧ attack ≤ Fn.ofNat 4) then .error "attack_time"
  else if ¬ (Fn.ofNat 0 ≤ release ∧ release ≤ Fn.ofNat 4) then .error "release_time"
  else .ok { gp := { T := threshold, R := ratio, W := knee }, wA := wA, wR := wR }

/-- one iteration of the loop of `Compressor::process`
(`_compute_gain` = the GENERATED `Gen.compressorGain`) -/
def step (p : Comp α) (gs x : α) : Step α :=
  let gc := Gen.compressorGain eps p.gp x
  let gs' := smooth p.wA p.wR gs gc
  let glin := Gen.db2mag gs'
  { gs := gs', gain := glin, out := x * glin }

end Comp

/-! ## Limiter -/

/-- the fields of `Limiter`: `T_ W_` (as read by the generated gain computer), `wA_ wR_` -/
structure Lim (α : Type) where
  gp : Gen.LimiterParams α
  wA : α
  wR : α

namespace Lim

def init (fs : Nat) (threshold knee attack release : α) : Except String (Lim α) :=
  let wA := coef (Fn.ofNat fs) attack
  let wR := coef (Fn.ofNat fs) release
  if ¬ (Fn.ofInt (-50) ≤ threshold ∧ threshold ≤ Fn.ofNat 0) then .error "threshold"
  else if ¬ (Fn.ofNat 0 ≤ knee ∧ knee ≤ Fn.ofNat 20) then .error "knee_width"
  else if ¬ (Fn.ofNat 0 ≤ attack ∧ attack ≤ Fn.ofNat 4) then .error "attack_time"
  else if ¬ (Fn.ofNat 0 ≤ release ∧ release ≤ Fn.ofNat 4) then .error "release_time"
  else .ok { gp := { T := threshold, W := knee }, wA := wA, wR := wR }

/-- one iteration of the loop of `Limiter::process` (`_compute_gain` = the GENERATED `Gen.limiterGain`) -/
def step (p : Lim α) (gs x : α) : Step α :=
  let gc := Gen.limiterGain eps p.gp x
  let gs' := smooth p.wA p.wR gs gc
  let glin := Gen.db2mag gs'
  { gs := gs', gain := glin, out := x * glin }

end Lim

/-- `process` of Compressor / Limiter: the loop over the samples, state `gs_` threaded through.
Returns the new `gs_`, `res.gain`, `res.out`. -/
def processWith (stp : α → α → Step α) (gs : α) (x : Array α) : α × Array α × Array α :=
  x.foldl (fun acc xi =>
    match acc with
    | (g, ga, oa) =>
      let r := stp g xi
      (r.gs, ga.push r.gain, oa.push r.out)) (gs, Array.mkEmpty x.size, Array.mkEmpty x.size)

/-! ## NoiseGate -/

/-- fields `tlin_ wA_ wR_ tH_`; `tH_` (an `int`) is kept as the scalar `floor(hold * fs)` it is
converted from (exact for every admitted `hold ≤ 4`, `fs < 2^31`) -/
structure Gate (α : Type) where
  tlin : α
  wA : α
  wR : α
  tH : α

/-- mutable state `cA_`, `lg_` -/
structure GateState (α : Type) where
  cA : Nat
  lg : α

namespace Gate

def init (fs : Nat) (threshold attack release hold : α) : Except String (Gate α) :=
  if ¬ (Fn.ofInt (-140) ≤ threshold ∧ threshold ≤ Fn.ofNat 0) then .error "threshold"
  else if ¬ (Fn.ofNat 0 ≤ attack ∧ attack ≤ Fn.ofNat 4) then .error "attack_time"
  else if ¬ (Fn.ofNat 0 ≤ release ∧ release ≤ Fn.ofNat 4) then .error "release_time"
  else if ¬ (Fn.ofNat 0 ≤ hold ∧ hold ≤ Fn.ofNat 4) then .error "hold_time"
  else .ok { tlin := Gen.db2mag threshold, wA := coef (Fn.ofNat fs) attack, wR := coef (Fn.ofNat fs) release,
             tH := Fn.floor (hold * Fn.ofNat fs) }

def init0 : GateState α := { cA := 0, lg := Fn.ofNat 0 }

/-- `NoiseGate::_smooth_gain` (`gc == lg_` is `gc ≤ lg_ ∧ lg_ ≤ gc`, which is IEEE `==`) -/
def smoothGain (p : Gate α) (s : GateState α) (gc : α) : GateState α :=
  if gc ≤ s.lg ∧ s.lg ≤ gc then { s with lg := gc }
  else if gc < s.lg then
    if Fn.ofNat s.cA < p.tH then { cA := s.cA + 1, lg := s.lg }
    else { s with lg := (p.wA * s.lg) + ((Fn.ofNat 1 - p.wA) * gc) }
  else { cA := 0, lg := (p.wR * s.lg) + ((Fn.ofNat 1 - p.wR) * gc) }

/-- one loop iteration of `NoiseGate::process`: new state, `gain[i]`, `out[i]` -/
def step (p : Gate α) (s : GateState α) (x : α) : GateState α × α × α :=
  let gc : α := if p.tlin ≤ Fn.abs x then Fn.ofNat 1 else Fn.ofNat 0
  let s' := smoothGain p s gc
  (s', s'.lg, x * s'.lg)

def process (p : Gate α) (s : GateState α) (x : Array α) : GateState α × Array α × Array α :=
  x.foldl (fun acc xi =>
    match acc with
    | (st, ga, oa) =>
      let r := step p st xi
      (r.1, ga.push r.2.1, oa.push r.2.2)) (s, Array.mkEmpty x.size, Array.mkEmpty x.size)

end Gate

/-! ## Moving-average filter (`lib/ma-filter.h`) -/

structure MA (α : Type) where
  buf : Array α
  n : Nat
  pos : Nat
  accum : α

namespace MA

def init (n : Nat) : MA α := { buf := Array.replicate n (Fn.ofNat 0), n := n, pos := 0, accum := Fn.ofNat 0 }

/-- `dsplib::sum` = `std::accumulate(begin, end, 0.0)` -/
def sum (a : Array α) : α := a.foldl (fun s v => s + v) (Fn.ofNat 0)

/-- `MAFilter::process(const T&)` -/
def step (m : MA α) (x : α) : MA α × α :=
  let acc1 := m.accum - m.buf.getD m.pos (Fn.ofNat 0)
  let acc2 := acc1 + x
  let buf := m.buf.setIfInBounds m.pos x
  let pos := m.pos + 1
  if pos = m.n then
    let acc3 := sum buf
    ({ buf := buf, n := m.n, pos := 0, accum := acc3 }, acc3 / Fn.ofNat m.n)
  else
    ({ buf := buf, n := m.n, pos := pos, accum := acc2 }, acc2 / Fn.ofNat m.n)

end MA

/-! ## Agc -/

/-- `AgcImpl` parameters (`target`, `max_gain` already in the natural-log domain) -/
structure Agc (α : Type) where
  trise : α
  tfall : α
  maxGain : α
  target : α

/-- `AgcImpl` mutable state -/
structure AgcState (α : Type) where
  gain : α
  ma : MA α

namespace Agc

/-- `Agc::Agc` -/
def init (targetLevel maxGainDb : α) (averageLen : Int) (tRise tFall : α) : Except String (Agc α × AgcState α) :=
  if ¬ (averageLen > 0) then .error "average_len"
  else .ok ({ trise := tRise, tfall := tFall, target := Fn.log targetLevel,
              maxGain := Fn.log (Fn.pow (Fn.ofNat 10) (maxGainDb / Fn.ofNat 20)) },
            { gain := Fn.ofNat 1, ma := MA.init averageLen.toNat })

/-- the gain update of the loop body of `_process`, given `input_power` (clamped moving average + eps):
returns the new log-gain `agc.gain` -/
def gainStep (p : Agc α) (gain inputPower : α) : α :=
  let err := p.target - (Fn.log inputPower + (Fn.ofNat 2 * gain))
  let g1 := if Fn.ofNat 1 < err then gain + p.trise * err else gain + p.tfall * err
  if p.maxGain < g1 then p.maxGain else g1

/-- `input_power = max(agc.maflt(abs2(x[i])), real_t(0)) + dsplib::eps()` given the moving-average output `ma`;
`dsplib::max(v1, v2)` is `(v1 > v2) ? v1 : v2` (`include/dsplib/math.h`), so a negative recurrent sum (a rounding
error below zero once a loud signal falls silent), `-0` and NaN all give `+0`: the argument of `log` is `≥ eps()`. -/
def inputPower (ma : α) : α :=
  (if Fn.ofNat 0 < ma then ma else Fn.ofNat 0) + eps

/-- loop body of `_process` for a sample of instantaneous power `pw = abs2(x[i])`:
new state and `gain[i]` -/
def step (p : Agc α) (s : AgcState α) (pw : α) : AgcState α × α :=
  let r := MA.step s.ma pw
  let inputPower := inputPower r.2
  let g := gainStep p s.gain inputPower
  ({ gain := g, ma := r.1 }, Fn.exp g)

/-- `Agc::process(const arr_real&)` -/
def processR (p : Agc α) (s : AgcState α) (x : Array α) : AgcState α × Array α × Array α :=
  x.foldl (fun acc xi =>
    match acc with
    | (st, ga, oa) =>
      let r := step p st (xi * xi)
      (r.1, ga.push r.2, oa.push (xi * r.2))) (s, Array.mkEmpty x.size, Array.mkEmpty x.size)

/-- `Agc::process(const arr_cmplx&)` (`cmplx_t * real_t` scales both parts) -/
def processC (p : Agc α) (s : AgcState α) (x : Array (Cx α)) : AgcState α × Array α × Array (Cx α) :=
  x.foldl (fun acc xi =>
    match acc with
    | (st, ga, oa) =>
      let r := step p st (Cx.abs2 xi)
      (r.1, ga.push r.2, oa.push ⟨xi.re * r.2, xi.im * r.2⟩)) (s, Array.mkEmpty x.size, Array.mkEmpty x.size)

end Agc

end Dsp.Dynamics
