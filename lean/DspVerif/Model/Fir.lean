import DspVerif.Gen.Cmplx
/-!
# Models of `FirFilter<T>`, `FftFilter`, `xcorr`, `MAFilter<T>`   (core only — no Mathlib)

Sources: `include/dsplib/fir.h`, `lib/fir.cpp`, `lib/xcorr.cpp`, `lib/ma-filter.h`, `nextpow2` of `lib/math.cpp`.

Everything is generic in the *sample type* `β` (`real_t` ↦ `α`, `cmplx_t` ↦ `Cx α`): `+ - *` come through the
core notation classes, and what C++ resolves by overloading is passed explicitly:
`zero : β` (`T(0)`), `cj : β → β` (`conj`: identity for `real_t`, `Cx.conj` for `cmplx_t`),
`divn : β → Nat → β` (`T / int`), and for the FFT based code `fft ifft : Array β → Array β`
(the library's `fft` / `ifft`, whose meaning is the subject of C01/C02).
Stateful processors are `init … : State`, `process … : State → Array β → State × Array β`.
The wrappers at the end instantiate the real and the complex case.
-/
namespace Dsp.Fir

variable {β : Type}

/-- `T r = 0; for (k = 0; k < n; ++k) r += f(k);` — also `std::accumulate(…, T(0))` -/
@[specialize] def acc [Add β] (zero : β) : Nat → (Nat → β) → β
  | 0, _ => zero
  | n + 1, f => acc zero n f + f n

/-- `_conv` of `lib/fir.cpp`: `r[i] = Σ_k x[i+k] * conj(h[nh-k-1])`, `nr = nx - nh + 1` outputs -/
@[specialize] def conv [Add β] [Mul β] (zero : β) (cj : β → β) (x h : Array β) : Array β :=
  Array.ofFn (n := x.size + 1 - h.size) fun i =>
    acc zero h.size fun k => x.getD (i.val + k) zero * cj (h.getD (h.size - k - 1) zero)

/-! ## `FirFilter<T>` -/

/-- `_h` (impulse response) and `_d` (the last `nh-1` input samples) -/
structure State (β : Type) where
  h : Array β
  d : Array β

/-- constructor: `_d(h.size() - 1)` is zero-filled ("started from rest") -/
def init (zero : β) (h : Array β) : State β := ⟨h, Array.replicate (h.size - 1) zero⟩

/-- `FirFilter::process`: `x = _d | s; r = conv(x, _h); _d = x.slice(nx - nd, nx)` -/
@[specialize] def process [Add β] [Mul β] (zero : β) (cj : β → β) (s : State β) (x : Array β) : State β × Array β :=
  let xx := s.d ++ x
  let r := conv zero cj xx s.h
  let nd := s.h.size - 1
  (⟨s.h, xx.extract (xx.size - nd) xx.size⟩, r)

/-! ## `nextpow2` -/

/-- `nextpow2` of `lib/math.cpp`: the loop leaves `p = ⌊log2 m⌋`; result `p` if `2^p = m`, else `p+1` -/
def nextpow2 (m : Nat) : Nat :=
  if m ≤ 1 then 0 else
  let p := Nat.log2 m
  if 2 ^ p = m then p else p + 1

/-! ## `FftFilter` (overlap-add) -/

/-- element-wise product of two arrays (`arr_cmplx * arr_cmplx`) -/
def mulv [Mul β] (zero : β) (a b : Array β) : Array β :=
  Array.ofFn (n := a.size) fun i => a.getD i.val zero * b.getD i.val zero

/-- `zeropad(x, n)` -/
def zeropad (zero : β) (x : Array β) (n : Nat) : Array β := x ++ Array.replicate (n - x.size) zero

/-- `_x` (block buffer, length `fft_len`), `_h` (spectrum of the conjugated taps), `_olap` (tail of the previous block), `_nx`, `_m`, `_n` -/
structure FftState (β : Type) where
  x : Array β
  H : Array β
  olap : Array β
  nx : Nat
  m : Nat
  n : Nat

/-- `FftFilter::FftFilter(const arr_cmplx& h)`: `fft_len = 2^nextpow2(2m)`, `_n = fft_len - m + 1`, `_h = fft(conj(h), fft_len)` -/
def fftInit (zero : β) (cj : β → β) (fft : Array β → Array β) (h : Array β) : FftState β :=
  let m := h.size
  let L := 2 ^ nextpow2 (2 * m)
  { x := Array.replicate L zero
    H := fft (zeropad zero (h.map cj) L)
    olap := Array.replicate (m - 1) zero
    nx := 0, m := m, n := L + 1 - m }

/-- the block emitted when `_nx` reaches `_n`: `pr[i] = ry[i] (+ _olap[i] for i < m-1)` -/
def fftBlock [Add β] (zero : β) (n m : Nat) (ry olap : Array β) : Array β :=
  Array.ofFn (n := n) fun i => if i.val < m - 1 then ry.getD i.val zero + olap.getD i.val zero else ry.getD i.val zero

/-- the new `_olap`: `_olap[i] = ry[i + _n]` (assignment, not accumulation) -/
def fftTail (zero : β) (n m : Nat) (ry : Array β) : Array β :=
  Array.ofFn (n := m - 1) fun i => ry.getD (i.val + n) zero

/-- one iteration of the sample loop of `FftFilter::process` -/
def fftStep [Add β] [Mul β] (zero : β) (fft ifft : Array β → Array β) (so : FftState β × Array β) (v : β) : FftState β × Array β :=
  let s := so.1
  let x := s.x.setIfInBounds s.nx v
  let nx := s.nx + 1
  if nx = s.n then
    let ry := ifft (mulv zero (fft x) s.H)
    ({ s with x := x, nx := 0, olap := fftTail zero s.n s.m ry }, so.2 ++ fftBlock zero s.n s.m ry s.olap)
  else
    ({ s with x := x, nx := nx }, so.2)

/-- `FftFilter::process(const arr_cmplx&)` -/
def fftProcess [Add β] [Mul β] (zero : β) (fft ifft : Array β → Array β) (s : FftState β) (xs : Array β) : FftState β × Array β :=
  xs.foldl (fftStep zero fft ifft) (s, #[])

/-! ## `xcorr` -/

/-- `xcorr(x1, x2)` of `lib/xcorr.cpp` -/
def xcorr [Mul β] (zero : β) (cj : β → β) (fft ifft : Array β → Array β) (x1 x2 : Array β) : Array β :=
  let n1 := x1.size
  let n2 := x2.size
  let M := 2 ^ nextpow2 (n1 + n2 - 1)
  let y1 := x1 ++ Array.replicate (M - n1) zero
  let y2 := Array.replicate (M - n2) zero ++ x2
  let z1 := (fft y1).map cj
  let z2 := fft y2
  let z := (ifft (mulv zero z1 z2)).map cj
  (z.extract (M + 1 - n1 - n2) M).reverse

/-! ## `MAFilter<T>` -/

/-- `_buf`, `_n`, `_pos`, `_accum` -/
structure MaState (β : Type) where
  buf : Array β
  n : Nat
  pos : Nat
  accum : β

def maInit (zero : β) (n : Nat) : MaState β := ⟨Array.replicate n zero, n, 0, zero⟩

/-- `dsplib::sum` = `std::accumulate(begin, end, T(0))` -/
def sumv [Add β] (zero : β) (a : Array β) : β := acc zero a.size fun k => a.getD k zero

/-- `T MAFilter::process(const T& x)` -/
def maStep [Add β] [Sub β] (zero : β) (divn : β → Nat → β) (s : MaState β) (x : β) : MaState β × β :=
  let accum := s.accum - s.buf.getD s.pos zero + x
  let buf := s.buf.setIfInBounds s.pos x
  let pos := s.pos + 1
  if pos = s.n then
    let accum := sumv zero buf
    (⟨buf, s.n, 0, accum⟩, divn accum s.n)
  else
    (⟨buf, s.n, pos, accum⟩, divn accum s.n)

/-- `base_array<T> MAFilter::process(const base_array<T>&)` -/
def maProcess [Add β] [Sub β] (zero : β) (divn : β → Nat → β) (s : MaState β) (xs : Array β) : MaState β × Array β :=
  xs.foldl (fun (so : MaState β × Array β) v => let r := maStep zero divn so.1 v; (r.1, so.2.push r.2)) (s, #[])

/-! ## The two instantiations: `T = real_t` (`α`) and `T = cmplx_t` (`Cx α`) -/

section inst
variable {α : Type} [Add α] [Sub α] [Mul α] [Div α] [Neg α] [Fn α]

/-- `real_t(0)` -/
def zeroR : α := Fn.ofNat 0
/-- `cmplx_t(0)` -/
def zeroC : Cx α := ⟨Fn.ofNat 0, Fn.ofNat 0⟩
/-- `real_t / int` -/
def divnR (a : α) (n : Nat) : α := a / Fn.ofNat n
/-- `cmplx_t / int` resolves to `cmplx_t::operator/(const real_t&)` -/
def divnC (a : Cx α) (n : Nat) : Cx α := Cx.divr a (Fn.ofNat n)
/-- `complex(arr_real)` -/
def ofRealV (x : Array α) : Array (Cx α) := x.map fun v => ⟨v, Fn.ofNat 0⟩
/-- `real(arr_cmplx)` -/
def reV (x : Array (Cx α)) : Array α := x.map (·.re)

def firInitR (h : Array α) : State α := init zeroR h
def firProcessR (s : State α) (x : Array α) : State α × Array α := process zeroR id s x
def firInitC (h : Array (Cx α)) : State (Cx α) := init zeroC h
def firProcessC (s : State (Cx α)) (x : Array (Cx α)) : State (Cx α) × Array (Cx α) := process zeroC Cx.conj s x

def maInitR (n : Nat) : MaState α := maInit zeroR n
def maProcessR (s : MaState α) (x : Array α) : MaState α × Array α := maProcess zeroR divnR s x
def maInitC (n : Nat) : MaState (Cx α) := maInit zeroC n
def maProcessC (s : MaState (Cx α)) (x : Array (Cx α)) : MaState (Cx α) × Array (Cx α) := maProcess zeroC divnC s x

variable (fft ifft : Array (Cx α) → Array (Cx α))

/-- `FftFilter(const arr_cmplx&)` -/
def fftInitC (h : Array (Cx α)) : FftState (Cx α) := fftInit zeroC Cx.conj fft h
/-- `FftFilter(const arr_real& h) : FftFilter(complex(h))` -/
def fftInitR (h : Array α) : FftState (Cx α) := fftInitC fft (ofRealV h)
def fftProcessC (s : FftState (Cx α)) (x : Array (Cx α)) : FftState (Cx α) × Array (Cx α) := fftProcess zeroC fft ifft s x
/-- `arr_real FftFilter::process(const arr_real& x) { return real(process(complex(x))); }` -/
def fftProcessR (s : FftState (Cx α)) (x : Array α) : FftState (Cx α) × Array α :=
  let r := fftProcessC fft ifft s (ofRealV x)
  (r.1, reV r.2)

def xcorrC (a b : Array (Cx α)) : Array (Cx α) := xcorr zeroC Cx.conj fft ifft a b
/-- `real(xcorr(complex(x1), complex(x2)))` -/
def xcorrR (a b : Array α) : Array α := reV (xcorrC fft ifft (ofRealV a) (ofRealV b))

end inst
end Dsp.Fir
