import DspVerif.Model.Fir
import DspVerif.Model.Window
/-!
# Models of `Delay<T>`, `Tuner`, `hilbert`, `HilbertFilter`   (core only — no Mathlib)

Sources: `include/dsplib/delay.h`, `include/dsplib/tuner.h`, `include/dsplib/hilbert.h`, `lib/hilbert.cpp`.

Generic in the scalar `α` (run at `Float` by `dspdriver_c14`, reasoned about at `ℝ` in `Props/C14`).
Stateful processors are `…Init : params → State`, `…Process : State → Array _ → State × Array _`.
What the code obtains from other units is a parameter or an import:
* `fft : Array α → Array (Cx α)` (`fft(const arr_real&)`) and `ifft : Array (Cx α) → Array (Cx α)` (`ifft(const arr_cmplx&)`) —
  their meaning is the subject of C01/C02; the driver instantiates them with `Model/Fft.lean`;
* `FirFilter<real_t>` is `Fir.firInitR` / `Fir.firProcessR` of `Model/Fir.lean` (C07);
* `window::kaiser`, `firtype` are those of `Model/Window.lean` (C11).
-/
namespace Dsp.Hilbert

/-! ## `Delay<T>` -/
section delay
variable {β : Type}

/-- `_buffer` -/
structure DelayState (β : Type) where
  buf : Array β

/-- `Delay(int length)`: `_buffer(length)` is zero-filled -/
def delayInit (zero : β) (n : Nat) : DelayState β := ⟨Array.replicate n zero⟩

/-- `Delay(const base_array<T>& initial)` -/
def delayInitWith (initial : Array β) : DelayState β := ⟨initial⟩

/-- `Delay::process` for a non-empty buffer: `tmp = _buffer | x; _buffer = tmp.slice(tmp.size() - nd, tmp.size()); return tmp.slice(0, x.size())` -/
def delayProcess (s : DelayState β) (x : Array β) : DelayState β × Array β :=
  let nd := s.buf.size
  let tmp := s.buf ++ x
  (⟨tmp.extract (tmp.size - nd) tmp.size⟩, tmp.extract 0 x.size)

/-- `Delay::process` as the code behaves for every buffer length: with `nd = 0` the slice `tmp.slice(tmp.size(), tmp.size())`
    (or, for an empty `x`, a slice of the empty array) is rejected by the slice constructor -/
def delayProcessE (s : DelayState β) (x : Array β) : Except String (DelayState β × Array β) :=
  if s.buf.size = 0 then .error "Left slice index out of range" else .ok (delayProcess s x)

end delay

/-- `(int) v` for a `real_t` value (truncation towards zero) -/
class Trunc (α : Type) where
  toInt : α → Int

instance : Trunc Float := ⟨fun v => (Float.toInt64 v).toInt⟩

variable {α : Type} [Add α] [Sub α] [Mul α] [Div α] [Neg α] [LT α] [LE α] [Fn α] [OfScientific α]
  [DecidableRel (· < · : α → α → Prop)] [DecidableRel (· ≤ · : α → α → Prop)]

/-- `real_t(0)` -/
abbrev zeroR : α := Fir.zeroR
/-- `cmplx_t(0)` -/
abbrev zeroC : Cx α := Fir.zeroC

/-! ## `Tuner` -/

/-- `_fs`, `_freq`, `_periodic`, `_phase` -/
structure TunerState (α : Type) where
  fs : Nat
  freq : α
  periodic : Bool
  phase : Nat

/-- `Tuner(int sample_rate, real_t freq)`: `_periodic{freq == std::floor(freq)}`, `_phase{0}`;
    `DSPLIB_ASSERT(std::abs(_freq) <= (_fs / 2.0))` -/
def tunerInit (fs : Nat) (freq : α) : Except String (TunerState α) :=
  if Fn.abs freq ≤ Fn.ofNat fs / Fn.ofNat 2 then
    .ok ⟨fs, freq, decide (freq ≤ Fn.floor freq ∧ Fn.floor freq ≤ freq), 0⟩
  else .error "tuner freq must be in range (-fs/2 : fs/2)"

/-- `w = {cos(phase), sin(phase)}`, `phase = 2 * pi * _freq * _phase / _fs` -/
def tunerMul (s : TunerState α) : Cx α :=
  let phase : α := Fn.ofNat 2 * Fn.pi * s.freq * Fn.ofNat s.phase / Fn.ofNat s.fs
  ⟨Fn.cos phase, Fn.sin phase⟩

/-- `++_phase; if (_periodic && (_phase >= _fs)) _phase = 0;` -/
def tunerNext (s : TunerState α) : TunerState α :=
  let ph := s.phase + 1
  { s with phase := if s.periodic && decide (s.fs ≤ ph) then 0 else ph }

/-- one iteration of the sample loop: `r[i] = x[i] * w` and the counter update -/
def tunerStep (so : TunerState α × Array (Cx α)) (x : Cx α) : TunerState α × Array (Cx α) :=
  (tunerNext so.1, so.2.push (x * tunerMul so.1))

/-- `Tuner::process` -/
def tunerProcess (s : TunerState α) (xs : Array (Cx α)) : TunerState α × Array (Cx α) :=
  xs.foldl tunerStep (s, #[])

/-! ## `hilbert` -/

/-- the spectrum handed to `ifft`: `r = fft(x) * 2; r[0] = r[0] / 2; if (n % 2 == 0) r[n/2] = r[n/2] / 2; r.slice(n/2 + 1, n) = 0`
    (cell `k`; for `n ≥ 3` the cells `0` and `n/2` are different) -/
def oneSided (n : Nat) (X : Array (Cx α)) : Array (Cx α) :=
  Array.ofFn (n := n) fun k =>
    let v := Cx.mulr (X.getD k.val zeroC) (Fn.ofNat 2)
    if k.val = 0 then Cx.divr v (Fn.ofNat 2)
    else if n % 2 = 0 ∧ k.val = n / 2 then Cx.divr v (Fn.ofNat 2)
    else if n / 2 < k.val then zeroC
    else v

/-- `hilbert(const arr_real& x)`.  For `n ≤ 2` the code throws (`fft` of an empty array; `r.slice(n/2 + 1, n)` has its left index
    `= n` out of range) -/
def hilbert (fft : Array α → Array (Cx α)) (ifft : Array (Cx α) → Array (Cx α)) (x : Array α) : Except String (Array (Cx α)) :=
  if x.size < 3 then .error "Left slice index out of range"
  else .ok (ifft (oneSided x.size (fft x)))

/-- `hilbert(const arr_real& x, int n)`: `zeropad(x, n)` / `x.slice(0, n)` / `x` -/
def hilbertN (fft : Array α → Array (Cx α)) (ifft : Array (Cx α) → Array (Cx α)) (x : Array α) (n : Nat) : Except String (Array (Cx α)) :=
  if x.size < n then hilbert fft ifft (x ++ Array.replicate (n - x.size) zeroR)
  else if n < x.size then hilbert fft ifft (x.extract 0 n)
  else hilbert fft ifft x

/-- `x` padded with zeros or truncated to `n` samples -/
def padTrunc (x : Array α) (n : Nat) : Array α :=
  Array.ofFn (n := n) fun i => if i.val < x.size then x.getD i.val zeroR else zeroR

/-! ## `HilbertFilter` -/

/-- `HilbertFilter::design_fir(flen, fs, f1)` (window method: ideal single-sideband response with `x^8` transition, `ifft`,
    Kaiser(8) window, causal shift).  `ones(k2 - k1 + 1)` with a negative count (`f1/fs` above ≈ 1/4) throws. -/
def designFir [Trunc α] (ifft : Array (Cx α) → Array (Cx α)) (flen : Nat) (fs f1 : α) : Except String (Array (Cx α)) :=
  let M := if flen % 2 = 0 then flen + 1 else flen
  let N := 2 ^ Fir.nextpow2 (8 * M)
  let k1r : Int := Trunc.toInt (Fn.round (Fn.ofNat N * f1 / fs))
  let k1 : Nat := if k1r < 2 then 2 else k1r.toNat
  let kn := N / 2 + 1
  -- k2 = kn - k1 + 1;  ones(k2 - k1 + 1) = ones(kn + 2 - 2 k1)
  if kn + 2 < 2 * k1 then .error "negative array length"
  else
    let lm : List α := (List.range (k1 - 1)).map fun i => Fn.pow (Fn.ofNat i / Fn.ofNat (k1 - 1)) (Fn.ofNat 8)
    let Hr : List α := lm ++ List.replicate (kn + 2 - 2 * k1) (Fn.ofNat 1) ++ lm.reverse ++ List.replicate (N / 2 - 1) (Fn.ofNat 0)
    let H : Array (Cx α) := (Hr.map fun v => (⟨v, Fn.ofNat 0⟩ : Cx α)).toArray
    let h := ifft H
    let w : Array α := (Window.kaiser M (Fn.ofNat 8 : α)).toArray
    let wzp : Array α := w.extract (M / 2) M ++ Array.replicate (N - M) zeroR ++ w.extract 0 (M / 2)
    -- `wzp * h`: `array_cast<cmplx_t>(wzp)` then `*= h[i]`
    let hw : Array (Cx α) := Array.ofFn (n := N) fun i => (⟨wzp.getD i.val zeroR, Fn.ofNat 0⟩ : Cx α) * h.getD i.val zeroC
    .ok (hw.extract (N - M / 2) N ++ hw.extract 0 ((M + 1) / 2))

/-- `real_hilbert(h) = imag(h) * 2` -/
def realHilbert (h : Array (Cx α)) : Array α := h.map fun z => z.im * Fn.ofNat 2

/-- `_fir`, `_d` -/
structure HfState (α : Type) where
  fir : Fir.State α
  d : DelayState α

/-- `HilbertFilter(const arr_real& h)`: `_fir(h)`, `_d{h.size() / 2}`, `DSPLIB_ASSERT(firtype(h) == FirType::EvenAntiSym)` -/
def hfInit (h : Array α) : Except String (HfState α) :=
  if Window.firtype h.toList = 3 then .ok ⟨Fir.firInitR h, delayInit zeroR (h.size / 2)⟩
  else .error "Only firtype 3 supported"

/-- `HilbertFilter(int flen, real_t tw)` -/
def hfNew [Trunc α] (ifft : Array (Cx α) → Array (Cx α)) (flen : Nat) (tw : α) : Except String (HfState α) :=
  match designFir ifft flen (Fn.ofNat 1) tw with
  | .error e => .error e
  | .ok hh => hfInit (realHilbert hh)

/-- `HilbertFilter::process`: real part from the delay line, imaginary part from the FIR filter -/
def hfProcess (s : HfState α) (x : Array α) : HfState α × Array (Cx α) :=
  let rd := delayProcess s.d x
  let im := Fir.firProcessR s.fir x
  (⟨im.1, rd.1⟩, Array.ofFn (n := x.size) fun i => ⟨rd.2.getD i.val zeroR, im.2.getD i.val zeroR⟩)

/-- `impz()` -/
def hfImpz (s : HfState α) : Array α := s.fir.h

end Dsp.Hilbert
