import DspVerif.Gen.Consts
/-!
# Primes and powers of two (`lib/primes.cpp`, `nextpow2`/`ispow2` of `lib/math.cpp`)

`uint32_t` values are `Nat < 2^32`; every operation of the code that can wrap is written with an
explicit `% W`.  Loops carry fuel (a proved-sufficient bound is part of C15) and count their
trial divisions (`steps`), so that the termination/cost clause of C15 is a statement about the model.
-/
namespace Dsp.Primes
open Dsp.Gen

/-- 2^32 -/
def W : Nat := 4294967296

/-- `PrimesGenerator::_is_prime`: trial division by the primes found so far, stopping at `d > n / d` -/
def isPrimeBy : List Nat → Nat → Bool
  | [], _ => true
  | d :: t, n => if d > n / d then true else if n % d == 0 then false else isPrimeBy t n

/-- `_add_primes`: `val = current()+2; while (!_is_prime(val)) val += 2;` -/
def nextCandidate (ps : List Nat) : Nat → Nat → Nat
  | 0, val => val
  | fuel + 1, val => if isPrimeBy ps val then val else nextCandidate ps fuel ((val + 2) % W)

/-- `PrimesGenerator` state: the vector of primes found so far and the cursor -/
structure PGen where
  ps : List Nat
  pos : Nat
deriving Repr

def PGen.init : PGen := ⟨primesTable, 0⟩

def PGen.current (g : PGen) : Nat := g.ps.getD g.pos 0

/-- `next()`: extend the vector when the cursor is on its last element, then advance -/
def PGen.next (g : PGen) : PGen :=
  let ps := if g.pos + 1 == g.ps.length then
      let last := g.current
      g.ps ++ [nextCandidate g.ps (last + 2) ((last + 2) % W)]   -- Bertrand: a prime below 2·last+2
    else g.ps
  ⟨ps, g.pos + 1⟩

/-- the trial-division loop of `isprime`: `while (d <= n / d) { if (n % d == 0) return false; d = gen.next(); }`;
    returns the answer and the number of loop iterations -/
def isprimeLoop (n : Nat) : Nat → PGen → Nat → Bool × Nat
  | 0, _, steps => (true, steps)
  | fuel + 1, g, steps =>
    let d := g.current
    if d ≤ n / d then
      if n % d == 0 then (false, steps + 1) else isprimeLoop n fuel g.next (steps + 1)
    else (true, steps)

/-- `isprime(uint32_t n)` with its trial-division count -/
def isprimeS (n : Nat) : Bool × Nat :=
  if n < 2 then (false, 0)
  else if n > 5 ∧ (n % 2 == 0 ∨ n % 3 == 0 ∨ n % 5 == 0) then (false, 0)
  else if n ≤ primesTable.getLastD 0 then (primesTable.contains n, 0)
  else isprimeLoop n n PGen.init 0

def isprime (n : Nat) : Bool := (isprimeS n).1

/-- inner loop of `factor`: `while (n % d == 0) { n /= d; res.push_back(d); }` -/
def divideOut (d : Nat) : Nat → Nat → List Nat → Nat × List Nat
  | 0, n, acc => (n, acc)
  | fuel + 1, n, acc => if n % d == 0 ∧ d > 1 ∧ n > 0 then divideOut d fuel (n / d) (acc ++ [d]) else (n, acc)

/-- outer loop of `factor` -/
def factorLoop : Nat → Nat → PGen → List Nat → Nat → List Nat × Nat
  | 0, n, _, acc, steps => (if n > 1 then acc ++ [n] else acc, steps)
  | fuel + 1, n, g, acc, steps =>
    let d := g.current
    if d ≤ n / d then
      let (n', acc') := divideOut d 32 n acc
      factorLoop fuel n' g.next acc' (steps + 1)
    else (if n > 1 then acc ++ [n] else acc, steps)

/-- `factor(uint32_t n)` with its trial-divisor count -/
def factorS (n : Nat) : List Nat × Nat :=
  if n ≤ 3 then ([n], 0) else factorLoop n n PGen.init [] 0

def factor (n : Nat) : List Nat := (factorS n).1

/-- `static_cast<int>` of a `uint32_t` (two's complement) -/
def toI32 (k : Nat) : Int := if k < 2147483648 then (k : Int) else (k : Int) - 4294967296

/-- `factor` as the API returns it: an `arr_int` (a prime factor ≥ 2^31 is not representable) -/
def factorInt (n : Nat) : List Int := (factor n).map toI32

/-- `nextprime(uint32_t n)`: `while (!isprime(n)) ++n;` (wrapping) -/
def nextprimeLoop : Nat → Nat → Nat
  | 0, n => n
  | fuel + 1, n => if isprime n then n else nextprimeLoop fuel ((n + 1) % W)

def nextprime (n : Nat) : Nat := nextprimeLoop (n + 4) n   -- fuel: Bertrand, a prime in [n, 2n)

/-- `primes(uint32_t n)`: `while (gen.current() <= n) { push(current); gen.next(); }` -/
def primesLoop (n : Nat) : Nat → PGen → List Nat → List Nat
  | 0, _, acc => acc
  | fuel + 1, g, acc => if g.current ≤ n then primesLoop n fuel g.next (acc ++ [g.current]) else acc

def primes (n : Nat) : List Nat := primesLoop n (n + 1) PGen.init []

/-! ## `nextpow2`, `ispow2` on 32-bit `int` (`m ≥ 0`) -/

/-- `while ((m >> p) != 0) ++p;` -/
def shiftLoop (m : Nat) : Nat → Nat → Nat
  | 0, p => p
  | fuel + 1, p => if m >>> p != 0 then shiftLoop m fuel (p + 1) else p

def nextpow2 (m : Nat) : Nat :=
  if m == 0 || m == 1 then 0
  else
    let p := shiftLoop m 32 0 - 1
    if 1 <<< p == m then p else p + 1

def ispow2 (m : Nat) : Bool := 1 <<< nextpow2 m == m

end Dsp.Primes
