import DspVerif.Gen.Slice
/-!
# Slices (`include/dsplib/slice.h`, `iterator.h`, `array.h`) — hand-written part

The constructor itself is *generated* (`Gen.BaseSlice.ctor`).  Here: what a constructed slice
denotes (the positions its iterator visits), the Python reference, and assignment through a slice.
-/
namespace Dsp
namespace Slice
open Gen

/-- positions visited by `begin() … end()`: start at `data()+_i1`, advance by `_m`, `_nc` times -/
def indices (s : BaseSlice) : List Int :=
  (List.range s.nc.toNat).map (fun (j : Nat) => s.i1 + (j : Int) * s.m)

/-- `x.slice(i1, i2, m)` on an array of `n` elements -/
def slice (n i1 i2 m : Int) : Except String (List Int) :=
  match BaseSlice.ctor n i1 i2 m with
  | .ok s => .ok (indices s)
  | .error e => .error e

/-! ## Python reference: `PySlice_AdjustIndices` + `range` -/

def pyStart (n i step : Int) : Int :=
  if i < 0 then (if i + n < 0 then (if step < 0 then -1 else 0) else i + n)
  else (if i ≥ n then (if step < 0 then n - 1 else n) else i)

def pyLen (start stop step : Int) : Int :=
  if step > 0 then (if start < stop then (stop - start - 1) / step + 1 else 0)
  else (if stop < start then (start - stop - 1) / (-step) + 1 else 0)

/-- the list of positions `x[i1:i2:step]` denotes for `len(x) = n`, `step ≠ 0` -/
def pyIndices (n i1 i2 step : Int) : List Int :=
  let start := pyStart n i1 step
  let stop := pyStart n i2 step
  (List.range (pyLen start stop step).toNat).map (fun (j : Nat) => start + (j : Int) * step)

/-! ## reading and assignment (value model of the array: `List α`) -/
variable {α : Type}

def getI [Inhabited α] (a : List α) (i : Int) : α := a.getD i.toNat default

def gather [Inhabited α] (a : List α) (idx : List Int) : List α := idx.map (getI a)

def setI (a : List α) (i : Int) (v : α) : List α := if i < 0 then a else a.set i.toNat v

/-- write `vals[j]` to position `idx[j]`, left to right (`std::copy` through the slice iterator) -/
def scatter (a : List α) : List Int → List α → List α
  | i :: is, v :: vs => scatter (setI a i v) is vs
  | _, _ => a

/-- `slice_t::operator=(const const_slice_t&)`: size check, then (all four code paths —
    memcpy / memmove / materialise-then-assign / strided copy from another array) the source
    values are read before any destination cell of the same array is written -/
def assignSlice [Inhabited α] (dstArr srcArr : List α) (d s : BaseSlice) : Except String (List α) :=
  if d.nc ≠ s.nc then .error "Slices size must be equal"
  else .ok (scatter dstArr (indices d) (gather srcArr (indices s)))

/-- `slice_t::operator=(const base_array<T>& rhs)`: `*this = rhs.slice(0, rhs.size())` -/
def assignArray [Inhabited α] (a : List α) (d : BaseSlice) (rhs : List α) : Except String (List α) :=
  match BaseSlice.ctor rhs.length 0 rhs.length 1 with
  | .error e => .error e
  | .ok s => assignSlice a rhs d s

/-- `slice_t::operator=(const std::initializer_list<T>& rhs)` -/
def assignList (a : List α) (d : BaseSlice) (rhs : List α) : Except String (List α) :=
  if d.nc ≠ rhs.length then .error "Slices size must be equal"
  else .ok (scatter a (indices d) rhs)

/-- `slice_t::operator=(const T&)` (`std::fill`) -/
def fill (a : List α) (d : BaseSlice) (v : α) : List α :=
  scatter a (indices d) (List.replicate d.nc.toNat v)

/-! ## the same operations on `Array α` (constant-time cell access)

Used by the driver for the LARGE correspondence cases (same-array overlapping pairs with 10^3…10^5
elements, random assignments on arrays up to 10^5): the `List` model above costs O(n) per cell.
Every `…A` function is proved equal, cell for cell, to the `List` model the theorems of
`Props/C04` are about (`…_toList`), so a large case checked against `assignSliceA` is checked
against `assignSlice`. -/

def getIA [Inhabited α] (a : Array α) (i : Int) : α := a.getD i.toNat default

def gatherA [Inhabited α] (a : Array α) (idx : List Int) : List α := idx.map (getIA a)

def setIA (a : Array α) (i : Int) (v : α) : Array α := if i < 0 then a else a.setIfInBounds i.toNat v

def scatterA (a : Array α) : List Int → List α → Array α
  | i :: is, v :: vs => scatterA (setIA a i v) is vs
  | _, _ => a

def assignSliceA [Inhabited α] (dstArr srcArr : Array α) (d s : BaseSlice) : Except String (Array α) :=
  if d.nc ≠ s.nc then .error "Slices size must be equal"
  else .ok (scatterA dstArr (indices d) (gatherA srcArr (indices s)))

def assignArrayA [Inhabited α] (a : Array α) (d : BaseSlice) (rhs : Array α) : Except String (Array α) :=
  match BaseSlice.ctor rhs.size 0 rhs.size 1 with
  | .error e => .error e
  | .ok s => assignSliceA a rhs d s

def assignListA (a : Array α) (d : BaseSlice) (rhs : List α) : Except String (Array α) :=
  if d.nc ≠ rhs.length then .error "Slices size must be equal"
  else .ok (scatterA a (indices d) rhs)

def fillA (a : Array α) (d : BaseSlice) (v : α) : Array α :=
  scatterA a (indices d) (List.replicate d.nc.toNat v)

theorem getIA_toList [Inhabited α] (a : Array α) (i : Int) : getIA a i = getI a.toList i := by
  simp [getIA, getI, Array.getD, List.getD]
  split <;> simp_all

theorem gatherA_eq [Inhabited α] (a : Array α) (idx : List Int) : gatherA a idx = gather a.toList idx := by
  simp [gatherA, gather, getIA_toList]

theorem setIA_toList (a : Array α) (i : Int) (v : α) : (setIA a i v).toList = setI a.toList i v := by
  unfold setIA setI; split <;> simp

theorem scatterA_toList (a : Array α) (idx : List Int) (vals : List α) :
    (scatterA a idx vals).toList = scatter a.toList idx vals := by
  induction idx generalizing a vals with
  | nil => simp [scatterA, scatter]
  | cons i is ih =>
    cases vals with
    | nil => simp [scatterA, scatter]
    | cons v vs => simp [scatterA, scatter, ih, setIA_toList]

/-- the array version of slice assignment IS the list model (same error, same cells) -/
theorem assignSliceA_toList [Inhabited α] (dstArr srcArr : Array α) (d s : BaseSlice) :
    (assignSliceA dstArr srcArr d s).map Array.toList = assignSlice dstArr.toList srcArr.toList d s := by
  unfold assignSliceA assignSlice
  split <;> simp [Except.map, scatterA_toList, gatherA_eq]

theorem assignArrayA_toList [Inhabited α] (a : Array α) (d : BaseSlice) (rhs : Array α) :
    (assignArrayA a d rhs).map Array.toList = assignArray a.toList d rhs.toList := by
  unfold assignArrayA assignArray
  simp only [Array.length_toList]
  split
  · simp [Except.map]
  · exact assignSliceA_toList a rhs d _

theorem assignListA_toList (a : Array α) (d : BaseSlice) (rhs : List α) :
    (assignListA a d rhs).map Array.toList = assignList a.toList d rhs := by
  unfold assignListA assignList
  split <;> simp [Except.map, scatterA_toList]

theorem fillA_toList (a : Array α) (d : BaseSlice) (v : α) : (fillA a d v).toList = fill a.toList d v := by
  simp [fillA, fill, scatterA_toList]

end Slice
end Dsp
