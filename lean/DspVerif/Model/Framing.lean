import DspVerif.Gen.Cmplx
import DspVerif.Model.Fir
/-!
# Framing (C06): the frame runner, and LOCAL minimal models of `Delay<T>`, `Tuner`, `HilbertFilter`
(core only — no Mathlib)

* `runFrames` / `runFramesE`: "construct once, call `process` once per frame, concatenate what comes out" — the
  function the driver executes for every correspondence case of C06 and the subject of `Props/C06.framing_invariant`.
* `Delay<T>` (`include/dsplib/delay.h`), `Tuner` (`include/dsplib/tuner.h`), `HilbertFilter::process`
  (`lib/hilbert.cpp`).  These three are LOCAL models written for C06 because `Model/Hilbert.lean` (property C14) did not
  exist when C06 was built; they mirror the loop / slice structure of the C++ and are tied to it by the correspondence
  run of `harness/c06.cpp` (tags `delayR delayC tuner hilb`).  The constructor check of `HilbertFilter`
  (`firtype(h) == EvenAntiSym`) is not modelled: the model is constructed from the taps the object reports (`impz()`).

All other processors of the property are the models of `Model/Fir.lean` (FirFilter, FftFilter, MAFilter),
`Model/Resample.lean`, `Model/Dynamics.lean`, `Model/Adaptive.lean`, `Model/Order.lean` (MedianFilter).
-/
namespace Dsp.Framing

/-! ## running a processor over a partition of its input -/

/-- one processor object, one `process` call per frame, outputs concatenated in call order -/
def runFrames {σ I O : Type} [Append O] (eO : O) (process : σ → I → σ × O) (s : σ) : List I → σ × O
  | [] => (s, eO)
  | f :: fs =>
    let r := process s f
    let q := runFrames eO process r.1 fs
    (q.1, r.2 ++ q.2)

/-- the same for a `process` that can throw (`Except`): the first exception ends the run -/
def runFramesE {σ I O ε : Type} [Append O] (eO : O) (process : σ → I → Except ε (σ × O)) (s : σ) :
    List I → Except ε (σ × O)
  | [] => .ok (s, eO)
  | f :: fs =>
    match process s f with
    | .error e => .error e
    | .ok r =>
      match runFramesE eO process r.1 fs with
      | .error e => .error e
      | .ok q => .ok (q.1, r.2 ++ q.2)

/-- the whole stream a partition came from -/
def concat {I : Type} [Append I] (eI : I) : List I → I
  | [] => eI
  | f :: fs => f ++ concat eI fs

/-! ## `Delay<T>` -/

/-- `Delay::process`: `tmp = _buffer | x; _buffer = tmp.slice(tmp.size() - nd, tmp.size()); return tmp.slice(0, x.size())`.
State = `_buffer` (length `nd ≥ 1`). -/
def delayProcess {β : Type} (buf x : Array β) : Array β × Array β :=
  let tmp := buf ++ x
  (tmp.extract (tmp.size - buf.size) tmp.size, tmp.extract 0 x.size)

section scalar
variable {α : Type} [Add α] [Sub α] [Mul α] [Div α] [Neg α] [LT α] [LE α] [Fn α]
  [DecidableRel (· < · : α → α → Prop)] [DecidableRel (· ≤ · : α → α → Prop)]

/-! ## `Tuner` -/

/-- `_fs`, `_freq`, `_periodic` -/
structure Tuner (α : Type) where
  fs : Nat
  freq : α
  periodic : Bool

/-- constructor: `_periodic{freq == std::floor(freq)}`, `DSPLIB_ASSERT(std::abs(_freq) <= (_fs / 2))` (`int` division) -/
def Tuner.init (fs : Nat) (freq : α) : Except String (Tuner α) :=
  if Fn.abs freq ≤ Fn.ofNat (fs / 2) then
    .ok { fs := fs, freq := freq, periodic := decide (freq ≤ Fn.floor freq ∧ Fn.floor freq ≤ freq) }
  else .error "tuner freq must be in range (-fs/2 : fs/2)"

/-- one iteration of the loop of `Tuner::process`; state = `_phase` (a non-negative `long long`):
`phase = 2 * pi * _freq * _phase / _fs; r = x * {cos phase, sin phase}; ++_phase; if (_periodic && _phase >= _fs) _phase = 0` -/
def Tuner.step (p : Tuner α) (phase : Nat) (x : Cx α) : Nat × Cx α :=
  let ph : α := Fn.ofNat 2 * Fn.pi * p.freq * Fn.ofNat phase / Fn.ofNat p.fs
  let w : Cx α := ⟨Fn.cos ph, Fn.sin ph⟩
  let phase' := phase + 1
  (if p.periodic && decide (p.fs ≤ phase') then 0 else phase', x * w)

/-- `Tuner::process` -/
def Tuner.process (p : Tuner α) (phase : Nat) (x : Array (Cx α)) : Nat × Array (Cx α) :=
  x.foldl (fun (acc : Nat × Array (Cx α)) xi => let r := p.step acc.1 xi; (r.1, acc.2.push r.2)) (phase, #[])

/-! ## `HilbertFilter` -/

/-- `_fir` (a `FirFilter<real_t>`), `_d` (the buffer of a `DelayReal`) -/
structure Hilbert (α : Type) where
  fir : Fir.State α
  d : Array α

/-- `HilbertFilter(const arr_real& h) : _fir(h), _d{h.size() / 2}` -/
def Hilbert.init (h : Array α) : Hilbert α :=
  ⟨Fir.firInitR h, Array.replicate (h.size / 2) Fir.zeroR⟩

/-- `HilbertFilter::process`: `re = _d.process(s); im = _fir.process(s); r[i] = {re[i], im[i]}` -/
def Hilbert.process (s : Hilbert α) (x : Array α) : Hilbert α × Array (Cx α) :=
  let rd := delayProcess s.d x
  let rf := Fir.firProcessR s.fir x
  (⟨rf.1, rd.1⟩, Array.zipWith (fun a b => (⟨a, b⟩ : Cx α)) rd.2 rf.2)

end scalar
end Dsp.Framing
