import DspVerif.Gen.Cmplx
/-!
# Element-wise array arithmetic of `include/dsplib/array.h` (C03) — hand-written executable model

`base_array<real_t>` / `base_array<cmplx_t>` are modelled as immutable lists (`Val`), the operator
overloads as total functions that mirror WHICH scalar operator of `types.h` the C++ picks for every
operand combination (the scalar formulas themselves are the regenerated `Gen/Cmplx`):

* `arr op arr`, `arr op scalar` (all of `+ - * /`) are `temp = array_cast<R>(*this); temp op= rhs`,
  i.e. they run the COMPOUND scalar operators `cmplx_t::operator+=(const cmplx_t&)` (`Cx.addAssign` …)
  or `cmplx_t::operator+=(const real_t&)` (`Cx.addrAssign` …); a real array meeting a complex operand is
  first cast (`re = x, im = 0`) and then combined with the full complex formula;
* `scalar + arr`, `scalar * arr` are `arr + R(scalar)`, `arr * R(scalar)` (the scalar is promoted to the
  result type first); `scalar - arr`, `scalar / arr` loop over `R(lhs) - rhs[i]`, `R(lhs) / rhs[i]`
  (non-compound `Cx.sub/div`, `Cx.subr/divr`);
* `int` scalars convert to `real_t` (standard conversion beats the user-defined one to `cmplx_t`);
  `std::complex<double>` scalars convert to `cmplx_t` field by field (the driver maps them to `Sc.c`).

Mutation is modelled by returning the new value; exceptions by `Except String`; compile-time
rejections (`arr_real += complex`, assigning a complex array to a real variable) by the error "ill-typed".
Core Lean only (the driver links this natively and runs it at `Float`).
-/
namespace Dsp
namespace ArrayOps

inductive Op
  | add | sub | mul | div
deriving DecidableEq, Repr, Inhabited

/-- an array value: `arr_real` or `arr_cmplx` -/
inductive Val (α : Type)
  | r (a : List α)
  | c (a : List (Cx α))

/-- a scalar operand: `real_t`, `int`, `cmplx_t` (also `std::complex<double>`) -/
inductive Sc (α : Type)
  | r (x : α)
  | i (n : Int)
  | c (z : Cx α)

section
variable {α : Type}

def Val.size : Val α → Nat
  | .r a => a.length
  | .c a => a.length

/-- is the element type `cmplx_t`? -/
def Val.isC : Val α → Bool
  | .r _ => false
  | .c _ => true

def Sc.isC : Sc α → Bool
  | .c _ => true
  | _ => false

/-- `operator[](const std::vector<bool>&)`'s loop: `if (idxs[i]) res.push_back(_vec[i])` -/
def sel {β : Type} : List β → List Bool → List β
  | x :: xs, b :: bs => if b then x :: sel xs bs else sel xs bs
  | _, _ => []

/-- `operator[](const std::vector<int>&)`: every index must satisfy `0 <= idx < size` -/
def gatherL {β : Type} (d : β) (a : List β) (l : List Int) : Except String (List β) :=
  if l.all (fun j => decide (0 ≤ j ∧ j < (a.length : Int))) then .ok (l.map (fun j => a.getD j.toNat d))
  else .error "index must not exceed the size of the vector"

/-- `concatenate(a1, a2, a3 = T(), a4 = T(), a5 = T())` of utils.h -/
def concatenate5 {β : Type} (a1 a2 a3 a4 a5 : List β) : List β := a1 ++ a2 ++ a3 ++ a4 ++ a5

end

section
variable {α : Type} [Add α] [Sub α] [Mul α] [Div α] [Neg α] [LT α] [LE α] [Fn α]
  [DecidableRel (· < · : α → α → Prop)] [DecidableRel (· ≤ · : α → α → Prop)]

/-- `array_cast<cmplx_t>` of a real element, also `cmplx_t(real_t)`: `re = x`, `im = 0` -/
def castC (x : α) : Cx α := Cx.mk x (Fn.ofInt 0)

/-- `real_t op= real_t` -/
def opR : Op → α → α → α
  | .add, x, y => x + y
  | .sub, x, y => x - y
  | .mul, x, y => x * y
  | .div, x, y => x / y

/-- `cmplx_t::operator op=(const cmplx_t&)` -/
def opC : Op → Cx α → Cx α → Cx α
  | .add, a, b => Cx.addAssign a b
  | .sub, a, b => Cx.subAssign a b
  | .mul, a, b => Cx.mulAssign a b
  | .div, a, b => Cx.divAssign a b

/-- `cmplx_t::operator op=(const real_t&)` -/
def opCR : Op → Cx α → α → Cx α
  | .add, a, x => Cx.addrAssign a x
  | .sub, a, x => Cx.subrAssign a x
  | .mul, a, x => Cx.mulrAssign a x
  | .div, a, x => Cx.divrAssign a x

/-- `cmplx_t::operator op(const cmplx_t&) const` -/
def opCn : Op → Cx α → Cx α → Cx α
  | .add, a, b => a + b
  | .sub, a, b => a - b
  | .mul, a, b => a * b
  | .div, a, b => a / b

/-- `cmplx_t::operator op(const real_t&) const` -/
def opCRn : Op → Cx α → α → Cx α
  | .add, a, x => Cx.addr a x
  | .sub, a, x => Cx.subr a x
  | .mul, a, x => Cx.mulr a x
  | .div, a, x => Cx.divr a x

/-- `operator-()` -/
def negV : Val α → Val α
  | .r a => .r (a.map (fun x => -x))
  | .c a => .c (a.map Cx.neg)

/-- `base_array::operator op(const base_array<T2>&)` and `operator op=(const base_array<T2>&)`:
    size check, then the element loop `_vec[i] op= rhs[i]` on (the cast copy of) the left operand -/
def arrArr (o : Op) (v w : Val α) : Except String (Val α) :=
  if v.size ≠ w.size then .error "arrays sizes must be equal"
  else .ok (match v, w with
    | .r a, .r b => .r (List.zipWith (opR o) a b)
    | .r a, .c b => .c (List.zipWith (fun x z => opC o (castC x) z) a b)
    | .c a, .r b => .c (List.zipWith (opCR o) a b)
    | .c a, .c b => .c (List.zipWith (opC o) a b))

/-- `base_array::operator op(const T2&)` / `operator op=(const T2&)` with a scalar on the right -/
def arrScalar (o : Op) : Val α → Sc α → Val α
  | .r a, .r x => .r (a.map (fun y => opR o y x))
  | .r a, .i n => .r (a.map (fun y => opR o y (Fn.ofInt n)))
  | .r a, .c z => .c (a.map (fun y => opC o (castC y) z))
  | .c a, .r x => .c (a.map (fun w => opCR o w x))
  | .c a, .i n => .c (a.map (fun w => opCR o w (Fn.ofInt n)))
  | .c a, .c z => .c (a.map (fun w => opC o w z))

/-- `R(lhs)` of the left-scalar operators, `R = ResultType<T, Scalar>` -/
def promote (s : Sc α) (arrIsC : Bool) : Sc α :=
  match s, arrIsC with
  | .r x, true => .c (castC x)
  | .i n, true => .c (castC (Fn.ofInt n))
  | .i n, false => .r (Fn.ofInt n)
  | s, _ => s

/-- the loop `r[i] = R(lhs) op rhs[i]` of the left-scalar `-` and `/` -/
def leftLoop (o : Op) : Sc α → Val α → Val α
  | .r x, .r a => .r (a.map (fun y => opR o x y))
  | .i n, .r a => .r (a.map (fun y => opR o (Fn.ofInt n) y))
  | .c z, .r a => .c (a.map (fun y => opCRn o z y))
  | .r x, .c a => .c (a.map (fun w => opCn o (castC x) w))
  | .i n, .c a => .c (a.map (fun w => opCn o (castC (Fn.ofInt n)) w))
  | .c z, .c a => .c (a.map (fun w => opCn o z w))

/-- `operator op(const Scalar& lhs, const base_array<T>& rhs)` -/
def scalarArr (o : Op) (s : Sc α) (v : Val α) : Val α :=
  match o with
  | .add => arrScalar .add v (promote s v.isC)
  | .mul => arrScalar .mul v (promote s v.isC)
  | .sub => leftLoop .sub s v
  | .div => leftLoop .div s v

/-- `operator|` / `operator|=`: `_vec.insert(_vec.end(), rhs.begin(), rhs.end())` on (the cast copy of) the left operand -/
def catV : Val α → Val α → Val α
  | .r a, .r b => .r (a ++ b)
  | .r a, .c b => .c (a.map castC ++ b)
  | .c a, .r b => .c (a ++ b.map castC)
  | .c a, .c b => .c (a ++ b)

/-- `operator[](const std::vector<bool>&)` -/
def maskV (v : Val α) (m : List Bool) : Except String (Val α) :=
  if m.length ≠ v.size then .error "array sizes must be equal"
  else .ok (match v with
    | .r a => .r (sel a m)
    | .c a => .c (sel a m))

/-- `operator[](const std::vector<int>&)`, `operator[](const base_array<int>&)` -/
def idxV (v : Val α) (l : List Int) : Except String (Val α) :=
  match v with
  | .r a => (gatherL (Fn.ofInt 0) a l).map .r
  | .c a => (gatherL (castC (Fn.ofInt 0)) a l).map .c

/-! ## expressions (no side effects) -/

inductive Expr (α : Type)
  | var (k : Nat)
  | lit (v : Val α)
  | neg (e : Expr α)
  | pos (e : Expr α)
  | aa (o : Op) (a b : Expr α)
  | as (o : Op) (a : Expr α) (s : Sc α)
  | sa (o : Op) (s : Sc α) (a : Expr α)
  | cat (a b : Expr α)
  | mask (a : Expr α) (m : List Bool)
  | idx (a : Expr α) (l : List Int)

abbrev Env (α : Type) := List (Val α)

def evalE (env : Env α) : Expr α → Except String (Val α)
  | .var k => match env[k]? with
    | some v => .ok v
    | none => .error "no such variable"
  | .lit v => .ok v
  | .neg e => match evalE env e with
    | .ok v => .ok (negV v)
    | .error m => .error m
  | .pos e => evalE env e
  | .aa o a b => match evalE env a with
    | .error m => .error m
    | .ok va => match evalE env b with
      | .error m => .error m
      | .ok vb => arrArr o va vb
  | .as o a s => match evalE env a with
    | .ok v => .ok (arrScalar o v s)
    | .error m => .error m
  | .sa o s a => match evalE env a with
    | .ok v => .ok (scalarArr o s v)
    | .error m => .error m
  | .cat a b => match evalE env a with
    | .error m => .error m
    | .ok va => match evalE env b with
      | .error m => .error m
      | .ok vb => .ok (catV va vb)
  | .mask a m => match evalE env a with
    | .ok v => maskV v m
    | .error e => .error e
  | .idx a l => match evalE env a with
    | .ok v => idxV v l
    | .error e => .error e

/-! ## statements: the forms that modify a variable -/

inductive Stmt (α : Type)
  | expr (e : Expr α)                    -- evaluate, modify nothing
  | set (k : Nat) (e : Expr α)           -- `v_k = e`      (copy / move assignment; same element type)
  | copy (k j : Nat)                     -- `v_k = T(v_j)` (copy constructor)
  | ca (o : Op) (k : Nat) (e : Expr α)   -- `v_k op= e`
  | cs (o : Op) (k : Nat) (s : Sc α)     -- `v_k op= scalar`
  | cata (k : Nat) (e : Expr α)          -- `v_k |= e`

/-- one statement: its value and the new environment; an error leaves no new environment at all -/
def exec (env : Env α) : Stmt α → Except String (Val α × Env α)
  | .expr e => match evalE env e with
    | .ok v => .ok (v, env)
    | .error m => .error m
  | .set k e => match env[k]?, evalE env e with
    | some t, .ok v => if t.isC == v.isC then .ok (v, env.set k v) else .error "ill-typed"
    | none, _ => .error "no such variable"
    | _, .error m => .error m
  | .copy k j => match env[k]?, env[j]? with
    | some t, some v => if t.isC == v.isC then .ok (v, env.set k v) else .error "ill-typed"
    | _, _ => .error "no such variable"
  | .ca o k e => match env[k]?, evalE env e with
    | some t, .ok b =>
      if !t.isC && b.isC then .error "ill-typed"
      else match arrArr o t b with
        | .ok v => .ok (v, env.set k v)
        | .error m => .error m
    | none, _ => .error "no such variable"
    | _, .error m => .error m
  | .cs o k s => match env[k]? with
    | some t => if !t.isC && s.isC then .error "ill-typed" else .ok (arrScalar o t s, env.set k (arrScalar o t s))
    | none => .error "no such variable"
  | .cata k e => match env[k]?, evalE env e with
    | some t, .ok b => if !t.isC && b.isC then .error "ill-typed" else .ok (catV t b, env.set k (catV t b))
    | none, _ => .error "no such variable"
    | _, .error m => .error m

/-- a program: statements run in order; a statement that throws is recorded and changes nothing -/
def run (env : Env α) : List (Stmt α) → List (Except String (Val α)) × Env α
  | [] => ([], env)
  | s :: rest => match exec env s with
    | .ok (v, env') => let (rs, e) := run env' rest; (.ok v :: rs, e)
    | .error m => let (rs, e) := run env rest; (.error m :: rs, e)

/-! ## utils.h / math.cpp builders -/

/-- `zeropad(x, n)` -/
def zeropad (v : Val α) (n : Int) : Except String (Val α) :=
  if (v.size : Int) > n then .error "padding size error"
  else if (v.size : Int) = n then .ok v
  else .ok (catV v (.r (List.replicate (n - v.size).toNat (Fn.ofInt 0))))

/-- `complex(re, im)` -/
def complexOf (re im : List α) : Except String (List (Cx α)) :=
  if re.length ≠ im.length then .error "arrays sizes must be equal" else .ok (List.zipWith Cx.mk re im)

def realOf (z : List (Cx α)) : List α := z.map (·.re)
def imagOf (z : List (Cx α)) : List α := z.map (·.im)
/-- `conj(arr_cmplx)`: `r[i].im = -r[i].im` -/
def conjOf (z : List (Cx α)) : List (Cx α) := z.map (fun w => { w with im := -w.im })
/-- `complex(re)` = `array_cast<cmplx_t>` -/
def castOf (x : List α) : List (Cx α) := x.map castC

end
end ArrayOps
end Dsp
