import DspVerif.Model.Fir
import DspVerif.Model.MathFns
/-!
# Models of `peakloc`, `finddelay`, `gccphat`, `PreambleDetector`   (core only — no Mathlib)

Sources: `lib/utils.cpp` (`peakloc` real / complex overload, `_finddelay`), `lib/gccphat.cpp` (both overloads),
`lib/detector.cpp` + `include/dsplib/detector.h` (`CDelay`, `PreambleDetectorImpl`).

* `delayseq` is NOT re-modelled: it is `Dsp.MathFns.delayseq` (`Model/MathFns.lean`, theorems `delayseq_size`,
  `delayseq_getElem` of `Props/C17.lean`).
* the transforms are parameters (`fftr : Array α → Array (Cx α)` = `fft(arr_real)`, `fftc` = `fft(arr_cmplx)`, `ifft`);
  the driver instantiates them with the C01 model of the library's plan family (`Model/Fft.lean`).
* `PreambleDetector` is built on C07's `FftFilter` and `MAFilter<real_t>` models (`Model/Fir.lean`); the sample loop of
  `process` is the structural recursion `scan` over the (sample, normalised correlation) pairs of one call.
  NOTE the early `return` of the C++ loop: after a report the rest of the call's samples is NOT pushed into `_delay`
  (the two filters have already consumed the whole call).  The model does the same.
-/
namespace Dsp.Detect
open Dsp.Fir Dsp.MathFns

variable {α : Type} [Add α] [Sub α] [Mul α] [Div α] [Neg α] [LT α] [LE α] [Fn α]
  [DecidableRel (· < · : α → α → Prop)] [DecidableRel (· ≤ · : α → α → Prop)]

/-! ## `peakloc` -/

/-- `peakloc(const arr_real& x, int idx, bool cyclic)` (`x.size() ≥ 1`, `0 ≤ idx < x.size()`):
`a = ((x[mr]-x[mk]) + (x[ml]-x[mk])) / 2; b = x[mk] - a - x[ml]; q = -b; return idx + q / (2*a) - 1` -/
def peaklocR (x : Array α) (idx : Nat) (cyclic : Bool) : α :=
  let n := x.size
  if !cyclic && (idx == 0 || idx + 1 == n) then Fn.ofNat idx
  else
    let xl := x.getD ((idx + n - 1) % n) (Fn.ofNat 0)
    let xk := x.getD idx (Fn.ofNat 0)
    let xr := x.getD ((idx + 1) % n) (Fn.ofNat 0)
    let a : α := ((xr - xk) + (xl - xk)) / Fn.ofNat 2
    let b : α := xk - a - xl
    let q : α := -b
    Fn.ofNat idx + q / (Fn.ofNat 2 * a) - Fn.ofNat 1

/-- `peakloc(const arr_cmplx& x, int idx, bool cyclic)`:
`d = (x[mr] - x[ml]) / (2 * x[mk] - x[ml] - x[mr]); return mk - real(d)`
(a three-bin spectral-peak interpolator; on real-valued data it is NOT the parabola vertex, see `Props/C18.lean`) -/
def peaklocC (x : Array (Cx α)) (idx : Nat) (cyclic : Bool) : α :=
  let n := x.size
  if !cyclic && (idx == 0 || idx + 1 == n) then Fn.ofNat idx
  else
    let xl := x.getD ((idx + n - 1) % n) czero
    let xk := x.getD idx czero
    let xr := x.getD ((idx + 1) % n) czero
    let d : Cx α := (xr - xl) / (Cx.rmul (Fn.ofNat 2) xk - xl - xr)
    Fn.ofNat idx - d.re

/-! ## `finddelay` -/

/-- the tail of `_finddelay`: `if (delay > nfft / 2) delay = -(nfft - delay); return -delay;` -/
def unwrapLag (nfft k : Nat) : Int :=
  let delay : Int := (if k > nfft / 2 then -((nfft : Int) - (k : Int)) else (k : Int))
  Int.neg delay

/-- `nfft = 1 << nextpow2(max(x1.size(), x2.size()))` -/
def fdLen (n1 n2 : Nat) : Nat := 2 ^ nextpow2 (max n1 n2)

/-- `s = ifft(fft(zeropad(x1, nfft)) * conj(fft(zeropad(x2, nfft))))`; `γ` is the sample type, `fft : Array γ → arr_cmplx` -/
def fdCorr {γ : Type} (zero : γ) (fft : Array γ → Array (Cx α)) (ifft : Array (Cx α) → Array (Cx α)) (x1 x2 : Array γ) : Array (Cx α) :=
  let nfft := fdLen x1.size x2.size
  let S1 := fft (Fir.zeropad zero x1 nfft)
  let S2 := fft (Fir.zeropad zero x2 nfft)
  ifft (mulv czero S1 (S2.map Cx.conj))

/-- `_finddelay(x1, x2)`: `argmax` of an `arr_cmplx` compares `abs2` (first largest) -/
def finddelay {γ : Type} (zero : γ) (fft : Array γ → Array (Cx α)) (ifft : Array (Cx α) → Array (Cx α)) (x1 x2 : Array γ) : Int :=
  unwrapLag (fdLen x1.size x2.size) (argmax clt (fdCorr zero fft ifft x1 x2).toList)

/-- `finddelay(const arr_real&, const arr_real&)` -/
def finddelayR (fftr : Array α → Array (Cx α)) (ifft : Array (Cx α) → Array (Cx α)) (x1 x2 : Array α) : Int :=
  finddelay (Fn.ofNat 0) fftr ifft x1 x2

/-- `finddelay(const arr_cmplx&, const arr_cmplx&)` -/
def finddelayC (fftc ifft : Array (Cx α) → Array (Cx α)) (x1 x2 : Array (Cx α)) : Int :=
  finddelay czero fftc ifft x1 x2

/-! ## `gccphat` -/

/-- `eps()` of `lib/types.cpp`: `2^-52` (exact at `Float`) -/
def eps : α := Fn.ofNat 1 / Fn.ofNat 4503599627370496

/-- `R = ifft(Y / (abs(Y) + eps()))`, `Y = fft(sig) * conj(fft(refsig))` (element-wise; a bin without energy gets weight 0) -/
def gccCorr (fftr : Array α → Array (Cx α)) (ifft : Array (Cx α) → Array (Cx α)) (sig ref : Array α) : Array (Cx α) :=
  let Y := mulv czero (fftr sig) ((fftr ref).map Cx.conj)
  ifft (Y.map fun y => Cx.divr y (cabs y + eps))

/-- the delay computed from `R`: `n = argmax(R); peak = peakloc(R, n); (peak < M/2 ? peak : peak - M) * ts` -/
def gccTau (R : Array (Cx α)) (fs : Int) : α :=
  let ts : α := Fn.ofNat 1 / Fn.ofInt fs
  let n := argmax clt R.toList
  let M := R.size
  let peak := peaklocC R n true
  if peak < Fn.ofNat (M / 2) then peak * ts else (peak - Fn.ofNat M) * ts

/-- `gccphat(sig, refsig, fs)`: `(tau, corr)`; the element-wise product throws when the sizes differ -/
def gccphat (fftr : Array α → Array (Cx α)) (ifft : Array (Cx α) → Array (Cx α)) (sig ref : Array α) (fs : Int) :
    Except String (α × Array (Cx α)) :=
  if sig.size ≠ ref.size then .error "arrays sizes must be equal"
  else
    let R := gccCorr fftr ifft sig ref
    .ok (gccTau R fs, R)

/-- `gccphat(const std::vector<arr_real>& sig, refsig, fs)`: the same per channel -/
def gccphatMulti (fftr : Array α → Array (Cx α)) (ifft : Array (Cx α) → Array (Cx α)) (sigs : List (Array α)) (ref : Array α) (fs : Int) :
    Except String (List (α × Array (Cx α))) :=
  sigs.mapM fun s => gccphat fftr ifft s ref fs

/-! ## `CDelay<T>` -/

/-- `_buf`, `_idx` (`_size = buf.size`) -/
structure CDelay (γ : Type) where
  buf : Array γ
  idx : Nat

def CDelay.init {γ : Type} (zero : γ) (size : Nat) : CDelay γ := ⟨Array.replicate size zero, 0⟩

/-- `push`: `_buf[_idx] = v; _idx = (_idx + 1 == _size) ? 0 : _idx + 1` -/
def CDelay.push {γ : Type} (d : CDelay γ) (v : γ) : CDelay γ :=
  ⟨d.buf.setIfInBounds d.idx v, if d.idx + 1 = d.buf.size then 0 else d.idx + 1⟩

/-- `extract`: `result[i] = _buf[(_idx + i) % _size]` -/
def CDelay.extract {γ : Type} (zero : γ) (d : CDelay γ) : Array γ :=
  Array.ofFn (n := d.buf.size) fun i => d.buf.getD ((d.idx + i.val) % d.buf.size) zero

/-! ## `PreambleDetectorImpl` -/

/-- `_is_valid`: `!(isinf(v) || isnan(v))`, observed through `v - v` (`NaN` for `±inf` and `NaN`, which compares false both ways;
always true over `ℝ`) -/
def isValid (v : α) : Bool := decide (v - v ≤ Fn.ofNat 0) && decide (Fn.ofNat 0 ≤ v - v)

/-- `_convert_impulse(h) = flip(h) / (rms(h) * h.size())` -/
def convertImpulse (h : Array (Cx α)) : Array (Cx α) :=
  let g : α := crms h * Fn.ofNat h.size
  (MathFns.flip h).map fun v => Cx.divr v g

/-- `_corr_flt` (FftFilter), `_pow_flt` (MAFilterR), `_threshold` (squared), `_delay` -/
structure DetState (α : Type) where
  corr : FftState (Cx α)
  pow : MaState α
  thr2 : α
  delay : CDelay (Cx α)

/-- `PreambleDetectorImpl(h, threshold)` -/
def detInit (fftc : Array (Cx α) → Array (Cx α)) (h : Array (Cx α)) (threshold : α) : DetState α :=
  { corr := fftInitC fftc (convertImpulse h)
    pow := maInitR h.size
    thr2 := threshold * threshold
    delay := CDelay.init czero h.size }

/-- `frame_len()` = `_corr_flt.block_size()` -/
def DetState.frameLen (s : DetState α) : Nat := s.corr.n

/-- `corr = abs2(cx) / (pwx + eps())` -/
def normCorr (cx : Array (Cx α)) (pwx : Array α) : Array α :=
  Array.ofFn (n := cx.size) fun i => Cx.abs2 (cx.getD i.val czero) / (pwx.getD i.val (Fn.ofNat 0) + eps)

/-- the sample loop of `process`: push the sample, test `corr[i] > _threshold && _is_valid(corr[i])`, report and STOP at
the first hit.  Returns the delay line and `(offset, corr[offset])`. -/
def scan (thr2 : α) : List (Cx α × α) → Nat → CDelay (Cx α) → CDelay (Cx α) × Option (Nat × α)
  | [], _, d => (d, none)
  | (v, c) :: rest, i, d =>
    let d := d.push v
    if decide (thr2 < c) && isValid c then (d, some (i, c)) else scan thr2 rest (i + 1) d

/-- `PreambleDetector::Result` -/
structure Result (α : Type) where
  offset : Nat
  preamble : Array (Cx α)
  score : α

/-- `PreambleDetectorImpl::process(sig)` -/
def detProcess (fftc ifft : Array (Cx α) → Array (Cx α)) (s : DetState α) (sig : Array (Cx α)) :
    Except String (DetState α × Option (Result α)) :=
  if sig.size % s.frameLen ≠ 0 then .error "Frame len not supported"
  else
    let c := fftProcessC fftc ifft s.corr sig
    let p := maProcessR s.pow (sig.map Cx.abs2)
    let corr := normCorr c.2 p.2
    let r := scan s.thr2 (sig.toList.zip corr.toList) 0 s.delay
    let s' : DetState α := { corr := c.1, pow := p.1, thr2 := s.thr2, delay := r.1 }
    match r.2 with
    | none => .ok (s', none)
    | some (i, ci) => .ok (s', some ⟨i, r.1.extract czero, Fn.sqrt ci⟩)

/-- `PreambleDetectorImpl::reset()`: `_pow_flt.process(zeros(frame_len())); _corr_flt.process(zeros(frame_len())); _delay.reset();`
(one frame of zeros through both filters — `FftFilter::process(const arr_real&)` is `process(complex(x))` —, the delay line cleared;
the position `_pos` of the moving average and a rounding residue of its accumulator survive, exactly as in the code) -/
def detReset (fftc ifft : Array (Cx α) → Array (Cx α)) (s : DetState α) : DetState α :=
  let p := maProcessR s.pow (Array.replicate s.frameLen (Fn.ofNat 0))
  let c := fftProcessC fftc ifft s.corr (Array.replicate s.frameLen czero)
  { corr := c.1, pow := p.1, thr2 := s.thr2, delay := CDelay.init czero s.delay.buf.size }

end Dsp.Detect
