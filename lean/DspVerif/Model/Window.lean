import DspVerif.Scalar
/-!
# Window functions and `fir1` (`lib/window.cpp`, `lib/fir.cpp`) — hand-written executable model

Generic in the scalar `α` (run at `Float` by `dspdriver_c11`, reasoned about at `ℝ` in `Props/C11`).
Arrays are `List α`; `flip` = `List.reverse`, `x.slice(a, b)` = `(x.take b).drop a`, `a | b` = `a ++ b`.
The order of the floating-point operations is the order of the C++ expressions (a scalar–array product
`s * arr` is evaluated by the library as `arr[i] * s`).  Literals go through `OfScientific`.
-/
namespace Dsp
namespace Window

variable {α : Type} [Add α] [Sub α] [Mul α] [Div α] [Neg α] [LT α] [LE α] [Fn α] [OfScientific α]
  [DecidableRel (· < · : α → α → Prop)] [DecidableRel (· ≤ · : α → α → Prop)]

/-! ## half-window generators: the first `m` points of the length-`n` window
(`…Pt n i` is the body of the C++ loop at index `i`) -/

/-- `_cosinewin`: `sin(pi / n * (i + 0.5))` -/
def cosinePt (n i : Nat) : α := Fn.sin (Fn.pi / Fn.ofNat n * (Fn.ofNat i + 0.5))
def cosinewin (n m : Nat) : List α := (List.range m).map (cosinePt n)

/-- `_hannwin`: `0.5 - 0.5 * cos((2 * pi * i) / (n - 1))` -/
def hannPt (n i : Nat) : α := 0.5 - 0.5 * Fn.cos ((Fn.ofNat 2 * Fn.pi * Fn.ofNat i) / Fn.ofNat (n - 1))
def hannwin (n m : Nat) : List α := (List.range m).map (hannPt n)

/-- `_hammingwin` -/
def hammingPt (n i : Nat) : α := 0.54 - 0.46 * Fn.cos ((Fn.ofNat 2 * Fn.pi * Fn.ofNat i) / Fn.ofNat (n - 1))
def hammingwin (n m : Nat) : List α := (List.range m).map (hammingPt n)

/-- `_blackmanwin` -/
def blackmanPt (n i : Nat) : α :=
  0.42 - 0.5 * Fn.cos ((Fn.ofNat 2 * Fn.pi * Fn.ofNat i) / Fn.ofNat (n - 1))
    + 0.08 * Fn.cos ((Fn.ofNat 4 * Fn.pi * Fn.ofNat i) / Fn.ofNat (n - 1))
def blackmanwin (n m : Nat) : List α := (List.range m).map (blackmanPt n)

/-- `_blackmanharriswin` -/
def blackmanharrisPt (n i : Nat) : α :=
  0.35875 - 0.48829 * Fn.cos (Fn.ofNat 2 * Fn.pi * Fn.ofNat i / Fn.ofNat (n - 1))
    + 0.14128 * Fn.cos (Fn.ofNat 4 * Fn.pi * Fn.ofNat i / Fn.ofNat (n - 1))
    - 0.01168 * Fn.cos (Fn.ofNat 6 * Fn.pi * Fn.ofNat i / Fn.ofNat (n - 1))
def blackmanharriswin (n m : Nat) : List α := (List.range m).map (blackmanharrisPt n)

/-- `_gausswin`: `t = arange(m) - (n-1)/2`, `exp(-0.5 * abs2(alpha * t / ((n-1)/2)))`;
`abs2(arr_real)` is `power(x, 2)` = `std::pow(x, 2.0)` -/
def gaussPt (alpha : α) (n i : Nat) : α :=
  let t := Fn.ofNat i - Fn.ofNat (n - 1) / Fn.ofNat 2
  Fn.exp (Fn.pow (t * alpha / (Fn.ofNat (n - 1) / Fn.ofNat 2)) (Fn.ofNat 2) * (-0.5))
def gausswin (alpha : α) (n m : Nat) : List α := (List.range m).map (gaussPt alpha n)

/-- `_tukeywin` (the two early returns, `w[0] = 0;` and the taper loop `for (i = 1; i < tl; ++i)`, per index).
The first taper sample is written as the constant 0 = (1 + cos(-π))/2 (repair 1c79c46: `pi / per` overflows for a
denormal ratio, and `cos(-inf)` is NaN). -/
def tukeyPt (ratio : α) (n i : Nat) : α :=
  if ratio ≤ Fn.ofNat 0 then Fn.ofNat 1
  else if Fn.ofNat 1 ≤ ratio then hannPt n i
  else
    let per := ratio / Fn.ofNat 2
    let tl := Fn.floor (per * Fn.ofNat (n - 1)) + Fn.ofNat 1
    if i = 0 then Fn.ofNat 0
    else if Fn.ofNat i < tl then
      (Fn.ofNat 1 + Fn.cos (Fn.pi / per * (Fn.ofNat i / Fn.ofNat (n - 1) - per))) / Fn.ofNat 2
    else Fn.ofNat 1
def tukeywin (ratio : α) (n m : Nat) : List α := (List.range m).map (tukeyPt ratio n)

/-! ## `_sym_window`: assembly of the full window from its first half -/

/-- `_sym_window(n, sym, winfn)`; `winfn np m` = first `m` points of the symmetric length-`np` window -/
def symWindow (n : Nat) (sym : Bool) (winfn : Nat → Nat → List α) : List α :=
  let nl := if sym then 0 else 1
  let np := if sym then n else n + 1
  if np % 2 = 0 then
    let m := np / 2
    let hw := winfn np m
    hw ++ hw.reverse.take (m - nl)                 -- `flip(hw).slice(0, m - nl)`
  else
    let m := (np + 1) / 2
    let hw := winfn np m
    hw ++ (hw.reverse.take (m - nl)).drop 1        -- `flip(hw).slice(1, m - nl)`

def cosine (n : Nat) (sym : Bool) : List α := symWindow n sym cosinewin
def hann (n : Nat) (sym : Bool) : List α := symWindow n sym hannwin
def hamming (n : Nat) (sym : Bool) : List α := symWindow n sym hammingwin
def blackman (n : Nat) (sym : Bool) : List α := symWindow n sym blackmanwin
def blackmanharris (n : Nat) (sym : Bool) : List α := symWindow n sym blackmanharriswin
def gauss (n : Nat) (alpha : α) (sym : Bool) : List α := symWindow n sym (gausswin alpha)
def tukey (n : Nat) (r : α) : List α := symWindow n true (tukeywin r)

/-! ## Kaiser -/

/-- `eps()` = 2⁻⁵² -/
def eps : α := Fn.ofNat 1 / Fn.ofNat 4503599627370496

/-- the loop of `_besseli0`, `k = k₀ …`, at most `fuel` iterations:
`term *= q / (k * k); r += term; if (term < r * eps()) break;` -/
def besselLoop (q : α) : Nat → Nat → α → α → α
  | 0, _, _, r => r
  | fuel + 1, k, term, r =>
    let term := term * (q / (Fn.ofNat k * Fn.ofNat k))
    let r := r + term
    if term < r * eps then r else besselLoop q fuel (k + 1) term r

/-- `_besseli0`: `for (k = 1; k < 1000; ++k)` -/
def besseli0 (x : α) : α :=
  let q := (x / Fn.ofNat 2) * (x / Fn.ofNat 2)
  besselLoop q 999 1 (Fn.ofNat 1) (Fn.ofNat 1)

/-- upper half of the Kaiser window (`w` of `kaiser`) -/
def kaiserHalf (nw : Nat) (beta : α) : List α :=
  let bes := Fn.abs (besseli0 beta)
  let odd := nw % 2
  let xind := Fn.ofNat (nw - 1) * Fn.ofNat (nw - 1)
  (List.range ((nw + 1) / 2)).map fun i =>
    let y := Fn.ofNat i + 0.5 * Fn.ofNat (1 - odd)
    let xi := Fn.ofNat 4 * (y * y)
    Fn.abs (besseli0 (beta * Fn.sqrt (Fn.ofNat 1 - xi / xind)) / bes)

/-- `kaiser(nw, beta)`: `flip(w.slice(odd, n)) | w` -/
def kaiser (nw : Nat) (beta : α) : List α :=
  let w := kaiserHalf nw beta
  (w.drop (nw % 2)).reverse ++ w

/-! ## `fir1` -/

/-- the taps of `_lowpass_fir` before `h /= sum(h)` -/
def lowpassTaps (n : Nat) (wn : α) (win : List α) : List α :=
  let L := win.length / 2
  let fc := wn / Fn.ofNat 2
  let c := Fn.ofNat 2 * Fn.pi * fc
  let h0 := List.zipWith (fun (i : Nat) wi =>
      let tt := Fn.ofNat i - Fn.ofNat n / Fn.ofNat 2
      Fn.sin (tt * c) / tt * wi) (List.range L) (win.take L)
  if n % 2 = 1 then h0 ++ h0.reverse else h0 ++ [c] ++ h0.reverse

/-- `sum(h)`: `std::accumulate(begin, end, 0.0)` -/
def accumulate (h : List α) : α := h.foldl (· + ·) (Fn.ofNat 0)

/-- `_lowpass_fir(n, wn, win)` -/
def lowpassFir (n : Nat) (wn : α) (win : List α) : Except String (List α) :=
  if win.length ≠ n + 1 then .error "Window must be n+1 elements" else
  let h := lowpassTaps n wn win
  let s := accumulate h
  .ok (h.map (· / s))

/-- the sign pattern of `h.slice(t1, n + 1, 2) = -hh` -/
def modulate (t1 : Nat) (h : List α) : List α :=
  h.mapIdx fun k x => if k % 2 = t1 then -x else x

/-- `_highpass_fir(n, wn, win)` -/
def highpassFir (n : Nat) (wn : α) (win : List α) : Except String (List α) :=
  let wn := Fn.ofNat 1 - wn
  let n' := if n % 2 = 1 then n + 1 else n
  let t1 := if n % 2 = 1 then 1 else 0
  match lowpassFir n' wn win with
  | .error e => .error e
  | .ok h => .ok (modulate t1 h)

/-- `_bandpass_fir(n, wn1, wn2, win)` -/
def bandpassFir (n : Nat) (wn1 wn2 : α) (win : List α) : Except String (List α) :=
  let wn1 := wn1 / Fn.ofNat 2
  let wn2 := wn2 / Fn.ofNat 2
  let wp := (wn2 - wn1) / Fn.ofNat 2
  let wc := wn1 + wp
  match lowpassFir n (Fn.ofNat 2 * wp) win with
  | .error e => .error e
  | .ok h =>
    let c := Fn.ofNat 2 * Fn.pi * wc
    .ok (h.mapIdx fun k x => x * Fn.ofNat 2 * Fn.cos ((Fn.ofNat k - Fn.ofNat n / Fn.ofNat 2) * c))

/-- `_bandstop_fir(n, wn1, wn2, win)` -/
def bandstopFir (n : Nat) (wn1 wn2 : α) (win : List α) : Except String (List α) :=
  let n' := if n % 2 = 1 then n + 1 else n
  match bandpassFir n' wn1 wn2 win with
  | .error e => .error e
  | .ok h =>
    .ok ((h.map (· * (-(Fn.ofNat 1)))).mapIdx fun k x => if k = n' / 2 then x + Fn.ofNat 1 else x)

/-- filter types: 0 low, 1 high, 2 band-pass, 3 band-stop (`FilterType`) -/
def fir1 (ftype : Nat) (n : Nat) (wn1 wn2 : α) (win : List α) : Except String (List α) :=
  match ftype with
  | 0 => lowpassFir n wn1 win
  | 1 => highpassFir n wn1 win
  | 2 => bandpassFir n wn1 wn2 win
  | 3 => bandstopFir n wn1 wn2 win
  | _ => .error "Not supported for current filter type"

/-- number of taps `fir1` asks of the window: `n+1`, `n+2` for odd-order high-pass and band-stop -/
def firLen (ftype n : Nat) : Nat :=
  if n % 2 = 1 ∧ (ftype = 1 ∨ ftype = 3) then n + 2 else n + 1

/-- the overloads without a window: `window::hamming(nn)` -/
def fir1Default (ftype : Nat) (n : Nat) (wn1 wn2 : α) : Except String (List α) :=
  fir1 ftype n wn1 wn2 (hamming (firLen ftype n) true)

/-! ## `firtype` -/

def equal (x1 x2 : α) : Bool := Fn.abs (x1 - x2) < Fn.ofNat 2 * eps

def isSymmetric (h : List α) : Bool :=
  ((h.zip h.reverse).take (h.length / 2)).all fun p => equal p.1 p.2

def isAntisymmetric (h : List α) : Bool :=
  ((h.zip h.reverse).take (h.length / 2)).all fun p => equal p.1 (-p.2)

/-- `firtype(h)`: 0 nonlinear phase, 1 even-order symmetric, 2 odd-order symmetric,
3 even-order antisymmetric, 4 odd-order antisymmetric -/
def firtype (h : List α) : Nat :=
  let n := h.length
  if n = 1 then 1 else
  let isSym := isSymmetric h
  let isAsym := isAntisymmetric h
  let isEven : Bool := n % 2 == 1
  let mid0 : Bool := match h.drop (n / 2) with
    | x :: _ => equal x (Fn.ofNat 0)
    | [] => false
  if isEven && isSym then 1
  else if !isEven && isSym then 2
  else if isEven && isAsym && mid0 then 3
  else if !isEven && isAsym then 4
  else 0

end Window
end Dsp
