import DspVerif.Gen.Cmplx
/-!
# Adaptive filters `LmsFilter<T>` (LMS / NLMS) and `RlsFilter<T>`   (core only — no Mathlib)

Sources: `include/dsplib/lms.h`, `include/dsplib/rls.h`, `dot` of `lib/math.cpp`, `abs2` of `include/dsplib/math.h`,
`eps()` of `lib/types.cpp`.

Generic in the *coefficient scalar* `ρ` (`real_t`) and the *sample type* `τ` (`real_t ↦ ρ`, `cmplx_t ↦ Cx ρ`):
`+ - * /` on `τ` come through the core notation classes; what C++ resolves by overloading between `real_t` and `T`
(`real_t * T`, `T * real_t`, `T / real_t`, `real_t + T`, `conj`, `abs2`, `T(0)`, `T(real_t)`) is the class `Mixed ρ τ`
with the two instances `ρ,ρ` and `ρ,Cx ρ` (the latter through the REGENERATED `cmplx_t` operators of `Gen/Cmplx`).
Every expression is transcribed in the operation order of the C++ source.

Stateful processors: `init : params → State`, `process : params → State → x → d → Except String (State × y × e)`
(`Except`: the `len(x) != len(d)` throw, which happens before any state change).
-/
namespace Dsp.Adaptive

/-- the mixed `real_t`/`T` overloads used by `lms.h` / `rls.h` -/
class Mixed (ρ τ : Type) where
  /-- `T(0)` (value-initialised array element) -/
  zero : τ
  /-- `T(real_t)` (`_p[i * _n + i] = diag_load`) -/
  ofReal : ρ → τ
  /-- `conj(T)`: identity for `real_t` -/
  conj : τ → τ
  /-- `abs2(T)` -/
  abs2 : τ → ρ
  /-- `real_t * T` -/
  rmul : ρ → τ → τ
  /-- `T * real_t` -/
  mulr : τ → ρ → τ
  /-- `T / real_t` -/
  divr : τ → ρ → τ
  /-- `real_t + T` -/
  radd : ρ → τ → τ

section instances
variable {α : Type} [Add α] [Sub α] [Mul α] [Div α] [Neg α] [LT α] [LE α] [Fn α]
  [DecidableRel (· < · : α → α → Prop)] [DecidableRel (· ≤ · : α → α → Prop)]

/-- `T = real_t` -/
instance realMixed : Mixed α α where
  zero := Fn.ofNat 0
  ofReal x := x
  conj x := x
  abs2 x := x * x
  rmul a x := a * x
  mulr x a := x * a
  divr x a := x / a
  radd a x := a + x

/-- `T = cmplx_t` -/
instance cxMixed : Mixed α (Cx α) where
  zero := ⟨Fn.ofNat 0, Fn.ofNat 0⟩
  ofReal x := ⟨x, Fn.ofNat 0⟩
  conj := Cx.conj
  abs2 := Cx.abs2
  rmul := Cx.rmul
  mulr := Cx.mulr
  divr := Cx.divr
  radd := Cx.radd

end instances

open Mixed

variable {ρ τ : Type} [Add ρ] [Div ρ] [Fn ρ] [Add τ] [Sub τ] [Mul τ] [Div τ] [Mixed ρ τ]

/-- `eps()` of `lib/types.cpp`: `nextafter(1.0, +inf) - 1.0 = 2^-52` (exact at `Float`) -/
def eps : ρ := Fn.ofNat 1 / Fn.ofNat 4503599627370496

/-- `T r = 0; for (i = 0; i < n; ++i) r += f(i);` -/
@[specialize] def acc {β : Type} [Add β] (z : β) : Nat → (Nat → β) → β
  | 0, _ => z
  | n + 1, f => acc z n f + f n

/-- array read; every index the models use is in range (the refinement theorems do not depend on the default) -/
@[inline] def rd (a : Array τ) (i : Nat) : τ := a.getD i (zero ρ)

/-! ## `LmsFilter<T>` -/

/-- constructor arguments `len, step_size, method, leak` -/
structure LmsP (ρ : Type) where
  len : Nat
  mu : ρ
  nlms : Bool
  lk : ρ

/-- `_u` (the last `len-1` inputs, oldest first), `_w` (stored REVERSED: `_w[len-1]` multiplies the newest sample), `_locked` -/
structure LmsState (τ : Type) where
  u : Array τ
  w : Array τ
  locked : Bool

/-- constructor: `_u(len - 1), _w(len)` zero-filled, `_locked{false}` -/
def lmsInit (p : LmsP ρ) : LmsState τ :=
  ⟨Array.replicate (p.len - 1) (zero ρ), Array.replicate p.len (zero ρ), false⟩

/-- `set_lock_coeffs` -/
def LmsState.setLock (s : LmsState τ) (b : Bool) : LmsState τ := { s with locked := b }

/-- `coeffs()`: `flip(_w)` -/
def LmsState.coeffs (s : LmsState τ) : Array τ := s.w.reverse

/-- `for (i < _len) y[k] += _w[i] * tu[i + k];` (from `y[k] = 0`) -/
def lmsOut (len : Nat) (w tu : Array τ) (k : Nat) : τ :=
  acc (zero ρ) len fun i => rd (ρ := ρ) w i * rd (ρ := ρ) tu (i + k)

/-- the coefficient update of sample `k` (both methods); `tu2[i + k] = abs2(tu[i + k])` -/
def lmsUpd (p : LmsP ρ) (w tu : Array τ) (k : Nat) (e : τ) : Array τ :=
  if p.nlms then
    let pu : ρ := acc (Fn.ofNat 0) p.len fun i => abs2 (rd (ρ := ρ) tu (i + k))
    let norm : ρ := pu + eps
    Array.ofFn (n := p.len) fun i =>
      mulr (rd (ρ := ρ) w i.val) p.lk + divr (rmul p.mu e * conj ρ (rd (ρ := ρ) tu (i.val + k))) norm
  else
    Array.ofFn (n := p.len) fun i =>
      mulr (rd (ρ := ρ) w i.val) p.lk + rmul p.mu e * conj ρ (rd (ρ := ρ) tu (i.val + k))

/-- one iteration `k` of the sample loop of `LmsFilter::process` on the working buffer `tu = _u | x`;
loop state `(w, y, e)` -/
def lmsIter (p : LmsP ρ) (locked : Bool) (tu d : Array τ) (a : Array τ × Array τ × Array τ) (k : Nat) :
    Array τ × Array τ × Array τ :=
  let y := lmsOut (ρ := ρ) p.len a.1 tu k
  let e := rd (ρ := ρ) d k - y
  (if locked then a.1 else lmsUpd p a.1 tu k e, a.2.1.push y, a.2.2.push e)

/-- `LmsFilter::process` -/
def lmsProcess (p : LmsP ρ) (s : LmsState τ) (x d : Array τ) : Except String (LmsState τ × Array τ × Array τ) :=
  if x.size ≠ d.size then .error "vector size error: len(x) != len(d)" else
  let nx := x.size
  let tu := s.u ++ x
  let r := (List.range nx).foldl (lmsIter p s.locked tu d) (s.w, #[], #[])
  .ok ({ s with u := tu.extract nx (nx + p.len - 1), w := r.1 }, r.2.1, r.2.2)

/-! ## `RlsFilter<T>` -/

/-- `_n`, `_mu` (forgetting factor) -/
structure RlsP (ρ : Type) where
  n : Nat
  mu : ρ

/-- `_u` (regressor, newest first), `_w`, `_p` (flat `n × n`, row major), `_locked` -/
structure RlsState (τ : Type) where
  u : Array τ
  w : Array τ
  p : Array τ
  locked : Bool

/-- constructor: `_p[i * _n + i] = diag_load`, everything else zero -/
def rlsInit (P : RlsP ρ) (diagLoad : ρ) : RlsState τ :=
  { u := Array.replicate P.n (zero ρ)
    w := Array.replicate P.n (zero ρ)
    p := Array.ofFn (n := P.n * P.n) fun i => if i.val / P.n = i.val % P.n then ofReal diagLoad else zero ρ
    locked := false }

def RlsState.setLock (s : RlsState τ) (b : Bool) : RlsState τ := { s with locked := b }

/-- `coeffs()`: `_w` itself -/
def RlsState.coeffs (s : RlsState τ) : Array τ := s.w

/-- `dot(a, b)` of `lib/math.cpp` (no conjugation) over the first `n` entries -/
def dot (n : Nat) (a b : Array τ) : τ :=
  acc (zero ρ) n fun i => rd (ρ := ρ) a i * rd (ρ := ρ) b i

/-- result of one iteration of the sample loop of `RlsFilter::process` -/
structure RlsStep (τ : Type) where
  s : RlsState τ
  y : τ
  e : τ

/-- one iteration of the sample loop of `RlsFilter::process` -/
def rlsStep (P : RlsP ρ) (s : RlsState τ) (x d : τ) : RlsStep τ :=
  let n := P.n
  -- memmove(_u + 1, _u, n - 1); _u[0] = x
  let u : Array τ := Array.ofFn (n := n) fun i => if i.val = 0 then x else rd (ρ := ρ) s.u (i.val - 1)
  let y := dot (ρ := ρ) n s.w u
  let e := d - y
  if s.locked then ⟨{ s with u := u }, y, e⟩ else
  let Pu : Array τ := Array.ofFn (n := n) fun i =>
    acc (zero ρ) n fun k => rd (ρ := ρ) s.p (i.val * n + k) * rd (ρ := ρ) u k
  let uTP : Array τ := Array.ofFn (n := n) fun i =>
    acc (zero ρ) n fun k => conj ρ (rd (ρ := ρ) u k) * rd (ρ := ρ) s.p (k * n + i.val)
  let den : τ := radd P.mu (dot (ρ := ρ) n uTP u)
  let g : Array τ := Array.ofFn (n := n) fun i => rd (ρ := ρ) Pu i.val / den
  -- guP[i*n+k] = g[i] * uTP[k];  _p[j] = (1 / _mu) * (_p[j] - guP[j])
  let p' : Array τ := Array.ofFn (n := n * n) fun j =>
    rmul (Fn.ofNat 1 / P.mu) (rd (ρ := ρ) s.p j.val - rd (ρ := ρ) g (j.val / n) * rd (ρ := ρ) uTP (j.val % n))
  let w' : Array τ := Array.ofFn (n := n) fun i => rd (ρ := ρ) s.w i.val + conj ρ (rd (ρ := ρ) g i.val) * e
  ⟨{ s with u := u, w := w', p := p' }, y, e⟩

/-- loop state `(state, y, e)` -/
def rlsIter (P : RlsP ρ) (x d : Array τ) (a : RlsState τ × Array τ × Array τ) (k : Nat) :
    RlsState τ × Array τ × Array τ :=
  let r := rlsStep P a.1 (rd (ρ := ρ) x k) (rd (ρ := ρ) d k)
  (r.s, a.2.1.push r.y, a.2.2.push r.e)

/-- `RlsFilter::process` -/
def rlsProcess (P : RlsP ρ) (s : RlsState τ) (x d : Array τ) : Except String (RlsState τ × Array τ × Array τ) :=
  if x.size ≠ d.size then .error "vector size error: len(x) != len(d)" else
  .ok ((List.range x.size).foldl (rlsIter P x d) (s, #[], #[]))

end Dsp.Adaptive
