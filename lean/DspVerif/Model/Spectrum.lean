import DspVerif.Model.Fft
/-!
# Welch spectral estimate and magnitude-squared coherence (`lib/spectrum.cpp`, `lib/mscohere.cpp`)

Generic in the scalar; the transform is a parameter `fft : Nat → input → Vec α` (`fft n seg` = the library's `fft(seg, n)`,
pad / truncate included).  The driver instantiates it with C01's `Fft.fftRN lits` / `Fft.fftCN lits` at `Float`; the theorems of
`Props/C13.lean` take "`fft n` is the `n`-point DFT of the zero-padded segment" as an explicit hypothesis (that is property C01).

* `sumTo`, `dotWW`, `winpow`                  — `dot(win, win)`, `abs2(sum(win))`
* `segR`, `segC`                              — `seg.slice(0, winlen) = x.slice(t1, t2); seg *= win;`
* `plan`                                      — the guards and `stride` / `num_segments` arithmetic (C `int` division)
* `accum`, `calcspec`                         — the accumulation loop of `_calcspec` and `pxx /= num_segments`
* `oneSided`, `freqR`, `freqC`                — `_welch` (real): slice, halve both ends, double; the two `arange(...) / nfft` axes
* `welchR`, `welchC`, `welchRDefault`, …      — the public overloads
* `mscohere`                                  — `_mscohere`
-/
namespace Dsp.Spectrum
open Dsp.Fft Dsp.Primes

variable {α : Type} [Add α] [Sub α] [Mul α] [Div α] [Neg α] [LT α] [LE α] [Fn α]
  [DecidableRel (· < · : α → α → Prop)] [DecidableRel (· ≤ · : α → α → Prop)]

/-- `acc = 0; for i < n: acc += f i` (`std::accumulate` from `real_t(0)`, the loop of `dot`) -/
def sumTo (n : Nat) (f : Nat → α) : α :=
  (List.range n).foldl (fun acc i => acc + f i) (Fn.ofNat 0)

/-- `dot(win, win)` -/
def dotWW (win : Array α) : α := sumTo win.size (fun i => rdR win i * rdR win i)

/-- `sum(win)` -/
def sumW (win : Array α) : α := sumTo win.size (fun i => rdR win i)

/-- `(type == Psd) ? dot(win, win) : abs2(sum(win))` -/
def winpow (psd : Bool) (win : Array α) : α :=
  if psd then dotWW win else (let s := sumW win; s * s)

/-- the windowed real segment starting at `t1` -/
def segR (x win : Array α) (t1 : Nat) : Array α :=
  Array.ofFn (n := win.size) (fun i => rdR x (t1 + i.val) * rdR win i.val)

/-- the windowed complex segment starting at `t1` (`cmplx_t *= real_t`) -/
def segC (x : Vec α) (win : Array α) (t1 : Nat) : Vec α :=
  mk win.size (fun i => Cx.mulr (rd x (t1 + i)) (rdR win i))

/-- what the guards of `_calcspec` / `_mscohere` leave: transform size, hop, and `num_segments` as the code computes it -/
structure Plan where
  nfft : Nat
  stride : Nat
  nseg : Int
deriving Repr

/-- guards + `stride = winlen - noverlap`, `num_segments = (N - winlen) / stride + 1` (C division truncates);
the first `x.slice(0, winlen)` throws when the signal is shorter than the window and the loop runs at all -/
def plan (N winlen : Nat) (noverlap nfft : Int) : Except String Plan :=
  if nfft ≤ 0 then .error "fft size must be power of 2"
  else if ispow2 nfft.toNat = false then .error "fft size must be power of 2"
  else if ¬ (noverlap < (winlen : Int)) then .error "noverlap must be less than winlen"
  else
    let stride : Int := (winlen : Int) - noverlap
    let nseg : Int := Int.tdiv ((N : Int) - (winlen : Int)) stride + 1
    if N < winlen ∧ 0 < nseg then .error "slice index out of range"
    else .ok ⟨nfft.toNat, stride.toNat, nseg⟩

/-- one pass of the loop body: `pxx += abs2(X) / winpow` -/
def step (nfft : Nat) (wp : α) (p : Array α) (X : Vec α) : Array α :=
  Array.ofFn (n := nfft) (fun k => rdR p k.val + Cx.abs2 (rd X k.val) / wp)

/-- `pxx` after the first `nseg` passes (`spec i` = transform of windowed segment `i`) -/
def accum (nfft : Nat) (wp : α) (spec : Nat → Vec α) (nseg : Nat) : Array α :=
  (List.range nseg).foldl (fun p i => step nfft wp p (spec i)) (Array.replicate nfft (Fn.ofNat 0))

/-- `_calcspec`: the loop, then `pxx /= num_segments` -/
def calcspec (pl : Plan) (wp : α) (spec : Nat → Vec α) : Array α :=
  let acc := accum pl.nfft wp spec pl.nseg.toNat
  Array.ofFn (n := pl.nfft) (fun k => rdR acc k.val / Fn.ofInt pl.nseg)

/-- `_welch` (real): `pxx.slice(0, nfft/2+1); pxx[0] /= 2; pxx[-1] /= 2; pxx *= 2` (the statements in order, so `nfft = 1`
halves its only cell twice) -/
def oneSided (nfft : Nat) (p : Array α) : Array α :=
  let half := nfft / 2 + 1
  Array.ofFn (n := half) (fun k =>
    let a := rdR p k.val
    let b := if k.val = 0 then a / Fn.ofNat 2 else a
    let c := if k.val = half - 1 then b / Fn.ofNat 2 else b
    c * Fn.ofNat 2)

/-- `arange(start, stop) / nfft` for `int` arguments -/
def arangeDiv (start stop : Int) (nfft : Nat) : Array α :=
  Array.ofFn (n := (stop - start).toNat) (fun i => Fn.ofInt (start + (i.val : Int)) / Fn.ofNat nfft)

/-- `arange(0, nfft / 2 + 1) / nfft` -/
def freqR (nfft : Nat) : Array α := arangeDiv 0 ((nfft / 2 + 1 : Nat) : Int) nfft

/-- `arange(-nfft / 2 + 1, nfft / 2 + 1) / nfft` (`-nfft / 2` is C division of the negated value) -/
def freqC (nfft : Nat) : Array α :=
  arangeDiv (Int.tdiv (-(nfft : Int)) 2 + 1) (Int.tdiv (nfft : Int) 2 + 1) nfft

/-- `welch(const arr_real&, const arr_real& win, int noverlap, int nfft, SpectrumType)` → `(pxx, f)` -/
def welchR (fft : Nat → Array α → Vec α) (x win : Array α) (noverlap nfft : Int) (psd : Bool) :
    Except String (Array α × Array α) := do
  let pl ← plan x.size win.size noverlap nfft
  let p := calcspec pl (winpow psd win) (fun i => fft pl.nfft (segR x win (i * pl.stride)))
  pure (oneSided pl.nfft p, freqR pl.nfft)

/-- `welch(const arr_cmplx&, const arr_real& win, int noverlap, int nfft, SpectrumType)` → `(pxx, f)`:
`pxx` is left in transform order, `f` is the centred axis -/
def welchC (fft : Nat → Vec α → Vec α) (x : Vec α) (win : Array α) (noverlap nfft : Int) (psd : Bool) :
    Except String (Array α × Array α) := do
  let pl ← plan x.size win.size noverlap nfft
  let p := calcspec pl (winpow psd win) (fun i => fft pl.nfft (segC x win (i * pl.stride)))
  pure (p, freqC pl.nfft)

/-- `welch(x, win, type)`: `nfft = 1 << nextpow2(win.size())`, `noverlap = win.size() / 2` -/
def welchRDefault (fft : Nat → Array α → Vec α) (x win : Array α) (psd : Bool) : Except String (Array α × Array α) :=
  welchR fft x win ((win.size / 2 : Nat) : Int) ((2 ^ nextpow2 win.size : Nat) : Int) psd

def welchCDefault (fft : Nat → Vec α → Vec α) (x : Vec α) (win : Array α) (psd : Bool) : Except String (Array α × Array α) :=
  welchC fft x win ((win.size / 2 : Nat) : Int) ((2 ^ nextpow2 win.size : Nat) : Int) psd

/-! ## `mscohere` -/

/-- running sums of `_mscohere` -/
structure Coh (α : Type) where
  pxx : Array α
  pyy : Array α
  pxy : Vec α

/-- one pass: `Pxx += abs2(X); Pyy += abs2(Y); Pxy += X * conj(Y)` on the first `m` bins -/
def cohStep (m : Nat) (s : Coh α) (X Y : Vec α) : Coh α :=
  { pxx := Array.ofFn (n := m) (fun k => rdR s.pxx k.val + Cx.abs2 (rd X k.val))
    pyy := Array.ofFn (n := m) (fun k => rdR s.pyy k.val + Cx.abs2 (rd Y k.val))
    pxy := mk m (fun k => rd s.pxy k + rd X k * Cx.conj (rd Y k)) }

def cohInit (m : Nat) : Coh α :=
  ⟨Array.replicate m (Fn.ofNat 0), Array.replicate m (Fn.ofNat 0), mk m (fun _ => zero)⟩

def cohAccum (m : Nat) (sx sy : Nat → Vec α) (nseg : Nat) : Coh α :=
  (List.range nseg).foldl (fun s i => cohStep m s (sx i) (sy i)) (cohInit m)

/-- `abs2(Pxy) / (Pxx * Pyy)` -/
def cohOut (m : Nat) (s : Coh α) : Array α :=
  Array.ofFn (n := m) (fun k => Cx.abs2 (rd s.pxy k.val) / (rdR s.pxx k.val * rdR s.pyy k.val))

/-- `mscohere(x, y, win, noverlap, nfft)` -/
def mscohere (fft : Nat → Array α → Vec α) (x y win : Array α) (noverlap nfft : Int) : Except String (Array α) := do
  if x.size ≠ y.size then throw "input size error"
  let pl ← plan x.size win.size noverlap nfft
  let m := pl.nfft / 2 + 1
  let s := cohAccum m (fun i => fft pl.nfft (segR x win (i * pl.stride))) (fun i => fft pl.nfft (segR y win (i * pl.stride)))
    pl.nseg.toNat
  pure (cohOut m s)

/-- `mscohere(x, y, win)`: `noverlap = winlen / 2`, `nfft = 1 << nextpow2(winlen)` -/
def mscohereDefault (fft : Nat → Array α → Vec α) (x y win : Array α) : Except String (Array α) :=
  mscohere fft x y win ((win.size / 2 : Nat) : Int) ((2 ^ nextpow2 win.size : Nat) : Int)

end Dsp.Spectrum
