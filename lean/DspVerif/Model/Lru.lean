import DspVerif.Model.Primes
/-!
# LRU plan cache (`lib/lru-cache.h`) and the plan factories of `lib/fft/fft.cpp`

`Cache ν`: the `std::list` of (key, value) pairs, front = most recently used; the
`unordered_map` is derived data (key → node) and is not modelled separately.
`FftState`: the calling thread's two caches.  `reqC`/`reqR` mirror `create_fft_plan` /
`create_rfft_plan` *including* the requests the plan constructors issue while a plan is built
(`PlanTree` leaves, `RealFftPlan` → complex n/2, `CztPlan` → `FftPlan(2^k)`, `IfftPlan(2^k)`).
-/
namespace Dsp.Lru
open Dsp.Gen Dsp.Primes

structure Cache (ν : Type) where
  cap   : Nat
  items : List (Nat × ν)
deriving Repr

variable {ν : Type}

def Cache.keys (c : Cache ν) : List Nat := c.items.map (·.1)

/-- `exists` -/
def Cache.has (c : Cache ν) (k : Nat) : Bool := c.items.any (·.1 == k)

/-- `put`: push_front; erase the old node of the key; evict the back when over capacity -/
def Cache.put (c : Cache ν) (k : Nat) (v : ν) : Cache ν :=
  let l := (k, v) :: c.items.filter (fun e => e.1 != k)
  { c with items := if l.length > c.cap then l.dropLast else l }

/-- `get`: splice the node to the front, return its value -/
def Cache.get (c : Cache ν) (k : Nat) : Cache ν × Option ν :=
  match c.items.find? (·.1 == k) with
  | none   => (c, none)
  | some e => ({ c with items := e :: c.items.filter (fun e => e.1 != k) }, some e.2)

/-- abstract specification: move-to-front list of keys truncated to the capacity -/
def touch (cap : Nat) (ks : List Nat) (k : Nat) : List Nat := (k :: ks.filter (· != k)).take cap

/-! ## plan construction: which lengths a constructor requests from the complex factory -/

/-- insertion sort (the result of `std::sort` on a small vector of ints) -/
def insertSorted (a : Nat) : List Nat → List Nat
  | [] => [a]
  | b :: l => if a ≤ b then a :: b :: l else b :: insertSorted a l

def sortNat (l : List Nat) : List Nat := l.foldr insertSorted []

/-- `PlanTree::_factor`: the 2^k component as one factor, the odd prime factors, sorted -/
def treeFactors (n : Nat) : List Nat :=
  let odd := (List.range 32).foldl (fun m _ => if m % 2 == 0 ∧ m > 0 then m / 2 else m) n
  let fac := (if odd != n then [n / odd] else []) ++ (if odd == 1 then [] else factor odd)
  sortNat fac

/-- the split `P` of `PlanTree(n)`: `P = fac[0]; for i ≥ 1: if (P*fac[i] > sqrt(n)) break; P *= fac[i]` -/
def splitP (n : Nat) (fac : List Nat) : Nat :=
  match fac with
  | [] => 1
  | f0 :: rest =>
    (rest.foldl (fun (acc : Nat × Bool) f =>
      if acc.2 then acc else if (acc.1 * f) * (acc.1 * f) > n then (acc.1, true) else (acc.1 * f, false)) (f0, false)).1

/-- lengths the `PlanTree(n)` constructor requests from `create_fft_plan`, in construction order
    (power-of-two and prime nodes are leaves; `_p` is built before `_q`) -/
def treeLeaves : Nat → Nat → List Nat
  | 0, n => [n]
  | fuel + 1, n =>
    if ispow2 n then [n]
    else
      let fac := treeFactors n
      if fac.length == 1 then [n]
      else
        let P := splitP n fac
        treeLeaves fuel P ++ treeLeaves fuel (n / P)

/-- `CztPlanImpl(n, m, …)`: `FftPlan(n2)` and `IfftPlan(n2)` with `n2 = 2^nextpow2(m+n-1)` -/
def cztRequests (n m : Nat) : List Nat :=
  let n2 := 2 ^ nextpow2 (m + n - 1)
  [n2, n2]

/-- requests issued while the complex plan of (non-bypassed, uncached) length `n` is constructed -/
def childrenC (n : Nat) : List Nat :=
  if isprime n then (if n > maxDftSize then cztRequests n n else [])
  else if ispow2 n then []
  else treeLeaves 32 n

/-- complex requests issued while the real plan of length `n` is constructed -/
def childrenR (n : Nat) : List Nat :=
  if isprime n then (if n > maxDftSize then cztRequests n n else [])   -- PrimesFftR owns a PrimesFftC
  else if n % 2 == 0 then [n / 2]                                       -- RealFftPlan
  else treeLeaves 32 n                                                  -- FactorFFTPlanR owns a FactorFFTPlan

/-- `create_fft_plan(n)`; `mk` is plan construction as a function of the length alone -/
def reqC (mk : Nat → ν) : Nat → Cache ν → Nat → Cache ν × ν
  | 0, c, n => (c, mk n)
  | fuel + 1, c, n =>
    if bypassC n then (c, mk n)
    else if c.has n then
      match c.get n with
      | (c', some v) => (c', v)
      | (c', none) => (c', mk n)
    else
      let c' := (childrenC n).foldl (fun c k => (reqC mk fuel c k).1) c
      let v := mk n
      (c'.put n v, v)

structure FftState (ν : Type) where
  cC : Cache ν
  cR : Cache ν

def FftState.init (cap : Nat) : FftState ν := ⟨⟨cap, []⟩, ⟨cap, []⟩⟩

/-- `create_rfft_plan(n)` -/
def reqR (mkC mkR : Nat → ν) (s : FftState ν) (n : Nat) : FftState ν × ν :=
  if bypassR n then (s, mkR n)
  else if s.cR.has n then
    match s.cR.get n with
    | (c', some v) => ({ s with cR := c' }, v)
    | (c', none) => ({ s with cR := c' }, mkR n)
  else
    let cC := (childrenR n).foldl (fun c k => (reqC mkC 8 c k).1) s.cC
    let v := mkR n
    ({ cC := cC, cR := s.cR.put n v }, v)

/-- API-level operations that touch the caches -/
inductive Op where
  | fftC (n : Nat)      -- fft(arr_cmplx) / FftPlan(n) / ifft / IfftPlan(n)
  | fftR (n : Nat)      -- fft(arr_real) / rfft / FftPlanR(n)
  | irfft (n : Nat)     -- irfft(x, n) / IfftPlanR(n): FftPlan(n/2)
  | czt (n m : Nat)     -- czt(x, m, w, a) / CztPlan
deriving Repr

def step (mkC mkR : Nat → ν) (s : FftState ν) : Op → FftState ν
  | .fftC n => { s with cC := (reqC mkC 8 s.cC n).1 }
  | .fftR n => (reqR mkC mkR s n).1
  | .irfft n => { s with cC := (reqC mkC 8 s.cC (n / 2)).1 }
  | .czt n m => { s with cC := (cztRequests n m).foldl (fun c k => (reqC mkC 8 c k).1) s.cC }

end Dsp.Lru
