import DspVerif.Scalar
import DspVerif.Gen.Cmplx
import DspVerif.Gen.Slice
import DspVerif.Model.Slice
